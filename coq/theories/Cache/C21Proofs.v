(* C21: with BY_SOURCE_TIMESTAMP the stored list is sorted by source timestamp
   after every operation history. *)
From Coq Require Import Sorting.Sorted.
From DustDDS Require Import Base.Machine Cache.ReaderModel Cache.ReaderFacts.
Open Scope Z_scope.

Definition le_ts (a b : sample) : Prop := ts_leb (s_ts a) (s_ts b) = true.
Definition sorted_ts (l : list sample) : Prop := StronglySorted le_ts l.

Lemma ts_leb_refl a : ts_leb a a = true.
Proof. destruct a; cbn; [apply Z.leb_refl|reflexivity]. Qed.
Lemma ts_leb_trans a b c : ts_leb a b = true -> ts_leb b c = true -> ts_leb a c = true.
Proof.
  destruct a, b, c; cbn; try reflexivity; try discriminate; rewrite !Z.leb_le; lia.
Qed.
Lemma ts_leb_total a b : ts_leb a b = true \/ ts_leb b a = true.
Proof. destruct a, b; cbn; auto; rewrite !Z.leb_le; lia. Qed.
Lemma ts_ltb_false_le a b : ts_ltb a b = false -> ts_leb b a = true.
Proof. unfold ts_ltb. now rewrite negb_false_iff. Qed.
Lemma ts_ltb_true_le a b : ts_ltb a b = true -> ts_leb a b = true.
Proof.
  unfold ts_ltb. rewrite negb_true_iff. intros H. destruct (ts_leb_total a b) as [L|L]; [exact L|congruence].
Qed.

Lemma mark_read_ts s : s_ts (mark_read s) = s_ts s.
Proof. reflexivity. Qed.

Lemma thinned_forall (P : sample -> Prop) k l :
  (forall s, P s -> P (mark_read s)) -> thinned k l -> Forall P l -> Forall P k.
Proof.
  intros HP H. induction H; intros F; try constructor; inversion F; subst; auto.
Qed.

Lemma thinned_sorted k l : thinned k l -> sorted_ts l -> sorted_ts k.
Proof.
  intros H. induction H as [|s k l H IH|s k l H IH|s k l H IH]; intros S.
  - constructor.
  - inversion S as [|? ? S' F]; subst. constructor; [apply IH; exact S'|].
    eapply thinned_forall; [|exact H|exact F]. intros x Hx. exact Hx.
  - inversion S as [|? ? S' F]; subst. constructor; [apply IH; exact S'|].
    eapply thinned_forall; [|exact H|exact F]. intros x Hx. exact Hx.
  - inversion S as [|? ? S' F]; subst. apply IH; exact S'.
Qed.

Lemma remove_first_thinned {p : sample -> bool} l : thinned (remove_first p l) l.
Proof.
  induction l as [|x t IH]; cbn [remove_first]; [constructor|].
  destruct (p x); [apply th_drop, thinned_refl | apply th_keep, IH].
Qed.

Lemma insert_sorted t smp l :
  s_ts smp = t -> sorted_ts l -> sorted_ts (insert_before (fun x => ts_ltb t (s_ts x)) smp l).
Proof.
  intros Ht. induction l as [|y l IH]; intros S; cbn [insert_before].
  - constructor; constructor.
  - inversion S as [|? ? S' F]; subst. destruct (ts_ltb (s_ts smp) (s_ts y)) eqn:E.
    + constructor; [exact S|]. constructor.
      * unfold le_ts. now apply ts_ltb_true_le.
      * eapply Forall_impl; [|exact F]. intros z Hz. unfold le_ts in *.
        eapply ts_leb_trans; [apply ts_ltb_true_le; exact E|exact Hz].
    + constructor; [apply IH; exact S'|].
      assert (Hy : le_ts y smp) by (unfold le_ts; now apply ts_ltb_false_le).
      clear IH S. induction l as [|z l IHl]; cbn [insert_before].
      * constructor; [exact Hy|constructor].
      * inversion F; subst. destruct (ts_ltb (s_ts smp) (s_ts z)); constructor; auto.
        inversion S'; subst. apply IHl; auto.
Qed.

Lemma step_sorted r o :
  q_bysrc (r_qos r) = true -> sorted_ts (r_samples r) -> sorted_ts (r_samples (fst (step r o))).
Proof.
  intros Hq Hs. destruct o; cbn [step].
  - pose proof (add_change_samples r w data k h t rts) as H. cbv zeta in H.
    destruct (add_change r w data k h t rts) as [r' a]. cbn [fst snd] in *.
    destruct H as [H | (smp & base & Hts & _ & _ & _ & _ & _ & Hbase & Hshape & _)]; [now rewrite H|].
    rewrite Hshape, Hq. apply insert_sorted; [exact Hts|].
    destruct Hbase as [-> | ->]; [exact Hs|]. eapply thinned_sorted; [apply remove_first_thinned|exact Hs].
  - pose proof (collect_samples_thinned r max m hsel false) as H.
    destruct (collect r max m hsel false) as [r' c]. cbn [fst] in *. eapply thinned_sorted; eassumption.
  - pose proof (collect_samples_thinned r max m hsel true) as H.
    destruct (collect r max m hsel true) as [r' c]. cbn [fst] in *. eapply thinned_sorted; eassumption.
  - unfold next_instance_op.
    pose proof (next_loop_samples_thinned (S (length (r_insts r))) r max m prev false) as H.
    destruct (next_loop _ r max m prev false) as [r' c]. cbn [fst] in *. eapply thinned_sorted; eassumption.
  - unfold next_instance_op.
    pose proof (next_loop_samples_thinned (S (length (r_insts r))) r max m prev true) as H.
    destruct (next_loop _ r max m prev true) as [r' c]. cbn [fst] in *. eapply thinned_sorted; eassumption.
  - unfold add_matched. destruct (upd_pub w s (r_matched r)); exact Hs.
  - unfold remove_matched. destruct (find_pub w (r_matched r)); exact Hs.
Qed.

Theorem sorted_invariant q ops :
  q_bysrc q = true -> sorted_ts (r_samples (run q ops)).
Proof.
  intros Hq. unfold run. change (fst (run_obs (init_reader q) ops)) with (run_from (init_reader q) ops).
  apply (run_from_inv (fun r => q_bysrc (r_qos r) = true /\ sorted_ts (r_samples r))).
  - intros r o [Hb S]. split; [now rewrite step_qos | now apply step_sorted].
  - split; [exact Hq | constructor].
Qed.

(* what the reader presents: the collection is in storage order, so per instance the
   timestamps are non-decreasing *)
Definition info_le (a b : info) : Prop := ts_leb (f_ts a) (f_ts b) = true.

Lemma collect_loop_infos_sorted r m hsel max take : forall l n,
  sorted_ts l ->
  StronglySorted info_le (snd (collect_loop r m hsel max take l n)) /\
  Forall (fun x => exists s, In s l /\ f_ts x = s_ts s) (snd (collect_loop r m hsel max take l n)).
Proof.
  induction l as [|s t IH]; intros n S; cbn [collect_loop].
  - split; constructor.
  - destruct (n =? max); [split; constructor|]. inversion S as [|? ? S' F]; subst.
    destruct (selected r m hsel s) as [i|].
    + destruct (IH (n + 1) S') as [I1 I2].
      destruct (collect_loop r m hsel max take t (n + 1)) as [k c]. cbn [snd] in *. split.
      * constructor; [exact I1|]. rewrite Forall_forall in *. intros x Hx.
        destruct (I2 x Hx) as (s' & Hin & Hts). unfold info_le, info_of; cbn [f_ts]. rewrite Hts. apply (F s' Hin).
      * constructor; [exists s; split; [now left|reflexivity]|].
        eapply Forall_impl; [|exact I2]. intros x (s' & Hin & Hts). exists s'; split; [now right|exact Hts].
    + destruct (IH n S') as [I1 I2].
      destruct (collect_loop r m hsel max take t n) as [k c]. cbn [snd] in *. split; [exact I1|].
      eapply Forall_impl; [|exact I2]. intros x (s' & Hin & Hts). exists s'; split; [now right|exact Hts].
Qed.

Lemma fill_ranks_ts all l : map f_ts (fill_ranks all l) = map f_ts l.
Proof. induction l as [|x t IH]; cbn [fill_ranks map f_ts]; [reflexivity|now rewrite IH]. Qed.

Lemma sorted_map_ts l l' :
  map f_ts l = map f_ts l' -> StronglySorted info_le l' -> StronglySorted info_le l.
Proof.
  revert l'. induction l as [|x t IH]; intros [|y t'] E S; try discriminate; [constructor|].
  cbn [map] in E. injection E as Ex Et. inversion S as [|? ? S' F]; subst. constructor; [eapply IH; eassumption|].
  clear IH S S'. revert t' Et F. induction t as [|z t IHt]; intros [|z' t''] Et F; try discriminate; constructor.
  - cbn [map] in Et. injection Et as Ez _. inversion F; subst. unfold info_le in *. now rewrite Ex, Ez.
  - cbn [map] in Et. injection Et as _ Et. inversion F; subst. eapply IHt; eassumption.
Qed.

Theorem presented_sorted q ops max m hsel take l :
  q_bysrc q = true ->
  snd (collect (run q ops) max m hsel take) = CollOk l ->
  StronglySorted info_le l.
Proof.
  intros Hq. pose proof (sorted_invariant q ops Hq) as S. unfold collect.
  destruct (match hsel with Some h => _ | None => false end); [discriminate|].
  destruct (collect_loop_infos_sorted (run q ops) m hsel max take (r_samples (run q ops)) 0 S) as [I _].
  destruct (collect_loop (run q ops) m hsel max take (r_samples (run q ops)) 0) as [kept c]. cbn [snd] in *.
  remember (fill_ranks c c) as fr eqn:Efr.
  destruct c as [|x c']; [discriminate|]. intros H.
  assert (El : l = fr) by (injection H as H; symmetry; exact H). rewrite El, Efr.
  eapply sorted_map_ts; [apply fill_ranks_ts|exact I].
Qed.
