(* Vocabulary for the C18 / C19 theorems about the reader cache: definitions only.
   (ReaderModel.v is the model; these name the parts of add_change's decision, the
   trace of a run and the accepted payloads, so that the theorems in Props/C18.v and
   Props/C19.v can be read on their own.) *)
From DustDDS Require Export Base.Machine Cache.ReaderModel Cache.ReaderCorr.
Open Scope Z_scope.

(* ------------------------------------------------------------------------- *)
(* the decision taken by add_reader_change, as functions of the state BEFORE  *)
(* ------------------------------------------------------------------------- *)
Definition replaces_b (r : reader) (h : Z) : bool :=
  match q_depth (r_qos r) with
  | Some d => d =? count (alive_of_inst h) (r_samples r)
  | None => false
  end.
Definition ms_hit (r : reader) (h : Z) : bool :=
  negb (replaces_b r h) && len_eq (q_ms (r_qos r)) (Z.of_nat (length (r_samples r))).
Definition mi_hit (r : reader) (h : Z) : bool :=
  if existsb (Z.eqb h) (distinct_insts (r_samples r) []) then false
  else len_eq (q_mi (r_qos r)) (Z.of_nat (length (distinct_insts (r_samples r) []))).
Definition mspi_hit (r : reader) (h : Z) : bool :=
  negb (replaces_b r h) && len_eq (q_mspi (r_qos r)) (count (of_inst h) (r_samples r)).
(* everything add_reader_change tests before it looks at history and limits:
   instance-state update possible, exclusive-ownership gate, time-based filter *)
Definition passes_gates (r : reader) (w : Z) (k : kind) (h : Z) (t : ts) (rts : Z) : bool :=
  match touch_instance (r_insts r) h k with
  | None => false
  | Some insts1 =>
      match ownership_gate (set_insts r insts1) w h rts with
      | None => false
      | Some _ => of_interest r h t
      end
  end.
(* where the new sample goes *)
Definition place (q : qos) (t : ts) (smp : sample) (base : list sample) : list sample :=
  if q_bysrc q then insert_before (fun x => ts_ltb t (s_ts x)) smp base else base ++ [smp].


(* KEEP_LAST bound: at most d KAlive samples per instance *)
Definition kl_bound (d : Z) (r : reader) : Prop :=
  forall h, count (alive_of_inst h) (r_samples r) <= d.


(* the trace of a run: every operation paired with what it returned *)
Definition run_trace (r : reader) (ops : list op) : list (op * obs) := zip ops (snd (run_obs r ops)).


(* payloads of the samples of instance h that were accepted (result Added), in
   acceptance order: the model-side twin of ReaderCorr.added_data_of *)
Definition accepted_one (h : Z) (ox : op * obs) : list Z :=
  match ox with
  | (OpAdd _ h' _ _ d _, ObsAdd Added) => if h' =? h then [d] else []
  | _ => []
  end.
Definition accepted (h : Z) (tr : list (op * obs)) : list Z := flat_map (accepted_one h) tr.


Definition alive_add (o : op) : bool :=
  match o with OpAdd _ _ k _ _ _ => kind_eqb k KAlive | _ => true end.
Definition not_take (o : op) : bool :=
  match o with OpTake _ _ _ | OpTakeNext _ _ _ => false | _ => true end.


Definition all_alive_kind (l : list sample) : Prop := forall s, In s l -> s_kind s = KAlive.


Definition no_rej3 (ox : op * obs) : Prop := forall h, snd ox <> ObsAdd (Rejected h 3).


(* resource limits: a set limit is a non-negative number (Length::Limited(n), n >= 0) *)
Definition lim_nonneg (l : option Z) : Prop := match l with Some v => 0 <= v | None => True end.
Definition limits_nonneg (q : qos) : Prop := lim_nonneg (q_ms q) /\ lim_nonneg (q_mi q) /\ lim_nonneg (q_mspi q).
(* the stored samples respect all three RESOURCE_LIMITS *)
Definition within (q : qos) (l : list sample) : Prop :=
  lim_ok (q_ms q) (Z.of_nat (length l)) = true /\
  lim_ok (q_mi q) (Z.of_nat (length (distinct_insts l []))) = true /\
  forall h, lim_ok (q_mspi q) (count (of_inst h) l) = true.

(* the correspondence case the MODEL itself produces for a QoS and a history: what the
   harness would print if the implementation were the model *)
Definition model_case (q : qos) (ops : list op) : Rdr_case :=
  let m := model_evs (init_reader q) ops in
  mkRdr q ops (snd m) (r_samples (fst m)) (map i_handle (r_insts (fst m))) (r_owns (fst m)) (probe (fst m)).
