(* C20: read/take (create_sample_collection) return exactly the matching samples,
   read marks them READ, take removes them, SampleInfo follows the DDS definitions.
   All lemmas about `collect` hold for EVERY reader state (reachable or not); the
   invariants at the end are proved for every QoS and every operation history. *)
From DustDDS Require Import Base.Machine Cache.ReaderModel Cache.ReaderFacts Cache.ReaderCorr.
Open Scope Z_scope.

(* ------------------------------------------------------------------ vocabulary *)
(* s is selected by the masks / instance argument in state r *)
Definition sel (r : reader) (m : masks) (hsel : option Z) (s : sample) : bool :=
  match selected r m hsel s with Some _ => true | None => false end.
(* the instance record the reader holds for the sample's instance *)
Definition inst_of (r : reader) (s : sample) : inst :=
  match find_inst (s_inst s) (r_insts r) with Some i => i | None => new_inst (s_inst s) end.
(* the SampleInfo (before ranks) of a sample in state r *)
Definition info_at (r : reader) (s : sample) : info := info_of s (inst_of r s).
Definition hsel_known (r : reader) (hsel : option Z) : Prop :=
  match hsel with Some h => find_inst h (r_insts r) <> None | None => True end.
(* what the loop does to the visited part of the cache *)
Definition mark_sel (r : reader) (m : masks) (hsel : option Z) (s : sample) : sample :=
  if sel r m hsel s then mark_read s else s.
Definition unsel (r : reader) (m : masks) (hsel : option Z) (s : sample) : bool := negb (sel r m hsel s).
(* the samples a call collects *)
Definition collected (r : reader) (max : Z) (m : masks) (hsel : option Z) : list sample :=
  firstn_z max (filter (sel r m hsel) (r_samples r)).
Definition gen_s (s : sample) : Z := s_dgc s + s_nwgc s.
Definition gen_i (i : inst) : Z := i_dgc i + i_nwgc i.
Definition same_inst (x : info) (y : info) : bool := f_inst y =? f_inst x.

(* ------------------------------------------------------------------ sel *)
Lemma selected_inst_of r m hsel s i : selected r m hsel s = Some i -> i = inst_of r s.
Proof.
  unfold selected, inst_of. destruct (match hsel with Some h => _ | None => false end); [discriminate|].
  destruct (find_inst (s_inst s) (r_insts r)) as [j|]; [|discriminate].
  destruct (ss_in m (s_ss s) && vs_in m (i_view j) && is_in m (i_state j)); [|discriminate].
  intros H; injection H as H; now subst.
Qed.

(* the meaning of `sel`: the requested instance (if any), a known instance, and the
   three masks: sample state of the sample, view and instance state of its instance *)
Lemma sel_iff r m hsel s :
  sel r m hsel s = true <->
  match hsel with Some h => s_inst s = h | None => True end /\
  exists i, find_inst (s_inst s) (r_insts r) = Some i /\
            ss_in m (s_ss s) = true /\ vs_in m (i_view i) = true /\ is_in m (i_state i) = true.
Proof.
  unfold sel, selected. split.
  - intros H. destruct hsel as [h|].
    + destruct (s_inst s =? h) eqn:Eh; cbn [negb] in H; [|discriminate]. apply Z.eqb_eq in Eh. split; [exact Eh|].
      destruct (find_inst (s_inst s) (r_insts r)) as [i|]; [|discriminate]. exists i. split; [reflexivity|].
      destruct (ss_in m (s_ss s)), (vs_in m (i_view i)), (is_in m (i_state i)); cbn [andb] in H; try discriminate; auto.
    + split; [exact I|].
      destruct (find_inst (s_inst s) (r_insts r)) as [i|]; [|discriminate]. exists i. split; [reflexivity|].
      destruct (ss_in m (s_ss s)), (vs_in m (i_view i)), (is_in m (i_state i)); cbn [andb] in H; try discriminate; auto.
  - intros [Hh (i & Hf & H1 & H2 & H3)]. rewrite Hf, H1, H2, H3. cbn [andb].
    destruct hsel as [h|]; [|reflexivity]. subst h. rewrite Z.eqb_refl. reflexivity.
Qed.

Lemma sel_inst r m h s : sel r m (Some h) s = true -> s_inst s = h.
Proof. intros H. apply sel_iff in H. exact (proj1 H). Qed.

(* ------------------------------------------------------------------ take_z / firstn_z *)
Lemma take_z_firstn {A} (l : list A) : forall n, take_z n l = firstn (Z.to_nat n) l.
Proof.
  induction l as [|x t IH]; intros n; cbn [take_z].
  - now rewrite firstn_nil.
  - destruct (n <=? 0) eqn:E.
    + apply Z.leb_le in E. replace (Z.to_nat n) with O by lia. reflexivity.
    + apply Z.leb_gt in E. replace (Z.to_nat n) with (S (Z.to_nat (n - 1))) by lia.
      cbn [firstn]. now rewrite IH.
Qed.

Lemma firstn_z_all {A} max (l : list A) :
  max < 0 \/ Z.of_nat (length l) <= max -> firstn_z max l = l.
Proof.
  intros H. unfold firstn_z. destruct (max <? 0) eqn:E; [reflexivity|]. apply Z.ltb_ge in E.
  rewrite take_z_firstn. apply firstn_all2. lia.
Qed.

Lemma firstn_z_app_exact {A} max (a b : list A) :
  Z.of_nat (length a) = max -> firstn_z max (a ++ b) = a.
Proof.
  intros H. unfold firstn_z. destruct (max <? 0) eqn:E; [apply Z.ltb_lt in E; lia|].
  rewrite take_z_firstn. replace (Z.to_nat max) with (length a + 0)%nat by lia.
  rewrite firstn_app_2. cbn [firstn]. apply app_nil_r.
Qed.

Lemma firstn_z_nil_iff {A} max (l : list A) : firstn_z max l = [] <-> max = 0 \/ l = [].
Proof.
  unfold firstn_z. destruct (max <? 0) eqn:E.
  - apply Z.ltb_lt in E. split; [intros H; now right|intros [H|H]; [lia|exact H]].
  - apply Z.ltb_ge in E. destruct l as [|x t]; cbn [take_z].
    + split; auto.
    + destruct (max <=? 0) eqn:E0.
      * apply Z.leb_le in E0. split; [intros _; left; lia|reflexivity].
      * apply Z.leb_gt in E0. split; [discriminate|intros [H|H]; [lia|discriminate]].
Qed.

Lemma firstn_z_length {A} max (l : list A) : 0 <= max -> Z.of_nat (length (firstn_z max l)) <= max.
Proof.
  intros H. unfold firstn_z. destruct (max <? 0) eqn:E; [apply Z.ltb_lt in E; lia|].
  rewrite take_z_firstn. pose proof (firstn_le_length (Z.to_nat max) l). rewrite firstn_length. lia.
Qed.

(* firstn_z keeps a prefix *)
Lemma firstn_z_prefix {A} max (l : list A) : exists rest, l = firstn_z max l ++ rest.
Proof.
  unfold firstn_z. destruct (max <? 0); [exists []; now rewrite app_nil_r|].
  rewrite take_z_firstn. exists (skipn (Z.to_nat max) l). symmetry. apply firstn_skipn.
Qed.

(* ------------------------------------------------------------------ the retain_mut loop *)
Lemma collect_loop_spec r m hsel max take : forall l n,
  exists l1 l2,
    l = l1 ++ l2 /\
    snd (collect_loop r m hsel max take l n) = map (info_at r) (filter (sel r m hsel) l1) /\
    fst (collect_loop r m hsel max take l n)
      = (if take then filter (unsel r m hsel) l1 else map (mark_sel r m hsel) l1) ++ l2 /\
    (l2 = [] \/ n + Z.of_nat (length (filter (sel r m hsel) l1)) = max) /\
    (n <= max -> n + Z.of_nat (length (filter (sel r m hsel) l1)) <= max).
Proof.
  induction l as [|s t IH]; intros n; cbn [collect_loop].
  - exists [], []. cbn [filter map app fst snd length]. repeat split; auto; try (destruct take; reflexivity). lia.
  - destruct (n =? max) eqn:En.
    + apply Z.eqb_eq in En. exists [], (s :: t). cbn [filter map app fst snd length].
      repeat split; auto; try (destruct take; reflexivity); try (right; lia). lia.
    + apply Z.eqb_neq in En. destruct (selected r m hsel s) as [i|] eqn:Es.
      * destruct (IH (n + 1)) as (l1 & l2 & Hl & Hc & Hk & Hstop & Hle).
        destruct (collect_loop r m hsel max take t (n + 1)) as [k c]. cbn [fst snd] in *.
        assert (Hs : sel r m hsel s = true) by (unfold sel; now rewrite Es).
        exists (s :: l1), l2. cbn [filter map app]. unfold unsel at 1, mark_sel at 1. rewrite Hs. cbn [negb map length].
        rewrite (selected_inst_of _ _ _ _ _ Es). fold (info_at r s). repeat split.
        -- now rewrite Hl.
        -- now rewrite Hc.
        -- destruct take; now rewrite Hk.
        -- destruct Hstop as [H|H]; [now left|right; lia].
        -- intros H. lia.
      * destruct (IH n) as (l1 & l2 & Hl & Hc & Hk & Hstop & Hle).
        destruct (collect_loop r m hsel max take t n) as [k c]. cbn [fst snd] in *.
        assert (Hs : sel r m hsel s = false) by (unfold sel; now rewrite Es).
        exists (s :: l1), l2. cbn [filter map app]. unfold unsel at 1, mark_sel at 1. rewrite Hs. cbn [negb].
        repeat split.
        -- now rewrite Hl.
        -- exact Hc.
        -- destruct take; now rewrite Hk.
        -- exact Hstop.
        -- exact Hle.
Qed.

(* the visited prefix contains exactly the first `max` selected samples *)
Lemma visited_is_firstn {A} (p : A -> bool) max (l l1 l2 : list A) :
  l = l1 ++ l2 ->
  (l2 = [] \/ Z.of_nat (length (filter p l1)) = max) ->
  (0 <= max -> Z.of_nat (length (filter p l1)) <= max) ->
  filter p l1 = firstn_z max (filter p l).
Proof.
  intros -> Hstop Hle. rewrite filter_app. destruct Hstop as [-> | H].
  - cbn [filter]. rewrite app_nil_r. symmetry. apply firstn_z_all. lia.
  - symmetry. now apply firstn_z_app_exact.
Qed.

(* ------------------------------------------------------------------ collect: full specification *)
Lemma hsel_known_dec r hsel :
  (if match hsel with Some h => match find_inst h (r_insts r) with None => true | Some _ => false end
                    | None => false end then ~ hsel_known r hsel else hsel_known r hsel).
Proof.
  unfold hsel_known. destruct hsel as [h|]; [|exact I].
  destruct (find_inst h (r_insts r)); [discriminate|]. intros H; now apply H.
Qed.

Lemma collect_bad_parameter r max m hsel take :
  ~ hsel_known r hsel -> collect r max m hsel take = (r, BadParameter).
Proof.
  intros H. unfold collect. pose proof (hsel_known_dec r hsel) as D.
  destruct (match hsel with Some h => _ | None => false end); [reflexivity|contradiction].
Qed.

(* Everything `collect` does, for every reader state and all arguments: a prefix l1 of the
   cache is visited; the selected samples of l1 are exactly the first `max` selected
   samples of the cache; they are returned (in storage order), and marked READ (read) or
   removed (take); the unvisited suffix l2, the unselected samples, the ownership table,
   the matched writers and the QoS are untouched; the instances named in the collection
   (and only they) are marked viewed. *)
Theorem collect_spec r max m hsel take :
  hsel_known r hsel ->
  exists l1 l2,
    r_samples r = l1 ++ l2 /\
    filter (sel r m hsel) l1 = collected r max m hsel /\
    let c := map (info_at r) (collected r max m hsel) in
    collect r max m hsel take =
      (mkR ((if take then filter (unsel r m hsel) l1 else map (mark_sel r m hsel) l1) ++ l2)
           (mark_viewed_all c (r_insts r)) (r_owns r) (r_matched r) (r_qos r),
       match c with [] => NoData | _ => CollOk (fill_ranks c c) end).
Proof.
  intros Hk. unfold collect. pose proof (hsel_known_dec r hsel) as D.
  destruct (match hsel with Some h => _ | None => false end); [contradiction|]. clear D.
  destruct (collect_loop_spec r m hsel max take (r_samples r) 0) as (l1 & l2 & Hl & Hc & Hkept & Hstop & Hle).
  destruct (collect_loop r m hsel max take (r_samples r) 0) as [kept c]. cbn [fst snd] in *.
  assert (Hf : filter (sel r m hsel) l1 = collected r max m hsel).
  { unfold collected. eapply visited_is_firstn; [exact Hl| |].
    - destruct Hstop as [H|H]; [now left|right; lia].
    - intros H. specialize (Hle H). lia. }
  exists l1, l2. split; [exact Hl|]. split; [exact Hf|]. cbv zeta. rewrite <- Hf, <- Hc, Hkept.
  destruct c; reflexivity.
Qed.

Definition coll_of (c : list info) : coll_result := match c with [] => NoData | _ => CollOk (fill_ranks c c) end.

(* (a) the returned collection: the first `max` selected samples, in storage order *)
Theorem collection_is_filter r max m hsel take :
  hsel_known r hsel ->
  snd (collect r max m hsel take) =
    coll_of (map (info_at r) (firstn_z max (filter (sel r m hsel) (r_samples r)))).
Proof.
  intros Hk. destruct (collect_spec r max m hsel take Hk) as (l1 & l2 & _ & _ & H). cbv zeta in H.
  rewrite H. reflexivity.
Qed.

Lemma fill_ranks_length all l : length (fill_ranks all l) = length l.
Proof. induction l as [|x t IH]; cbn [fill_ranks length]; [reflexivity|now rewrite IH]. Qed.

Lemma collect_ok_inv r max m hsel take r' l :
  collect r max m hsel take = (r', CollOk l) ->
  hsel_known r hsel /\
  let c := map (info_at r) (collected r max m hsel) in l = fill_ranks c c /\ collected r max m hsel <> [].
Proof.
  intros H. assert (Hk : hsel_known r hsel).
  { pose proof (hsel_known_dec r hsel) as D. unfold collect in H.
    destruct (match hsel with Some h => _ | None => false end); [discriminate|exact D]. }
  split; [exact Hk|]. pose proof (collection_is_filter r max m hsel take Hk) as E. rewrite H in E. cbn [snd] in E.
  fold (collected r max m hsel) in E. cbv zeta. unfold coll_of in E.
  destruct (collected r max m hsel) as [|s t]; cbn [map] in *; [discriminate|].
  split; [now injection E|discriminate].
Qed.

(* (f) + (a) field by field: every returned SampleInfo describes its sample; the sample
   state is the state BEFORE the call, view/instance state and the generation counters of
   absolute_generation_rank are those of the instance record at the time of the call *)
Definition describes (r : reader) (s : sample) (x : info) : Prop :=
  f_data x = s_data s /\ f_inst x = s_inst s /\ f_valid x = is_alive_kind (s_kind s) /\
  f_ss x = s_ss s /\ f_dgc x = s_dgc s /\ f_nwgc x = s_nwgc s /\ f_ts x = s_ts s /\ f_pub x = s_writer s /\
  exists i, find_inst (s_inst s) (r_insts r) = Some i /\
            f_vs x = i_view i /\ f_is x = i_state i /\
            f_agrank x = (i_dgc i + i_nwgc i) - (s_dgc s + s_nwgc s).

Lemma fill_ranks_describes r all : forall ss,
  Forall (fun s => find_inst (s_inst s) (r_insts r) <> None) ss ->
  Forall2 (describes r) ss (fill_ranks all (map (info_at r) ss)).
Proof.
  induction ss as [|s t IH]; intros F; cbn [map fill_ranks]; constructor.
  - inversion F as [|? ? Hs _]; subst. unfold describes, info_at, info_of, inst_of.
    cbn [f_data f_inst f_valid f_ss f_dgc f_nwgc f_ts f_pub f_vs f_is f_agrank].
    repeat split. destruct (find_inst (s_inst s) (r_insts r)) as [i|]; [|contradiction].
    exists i. repeat split.
  - apply IH. now inversion F.
Qed.

Lemma sel_known r m hsel s : sel r m hsel s = true -> find_inst (s_inst s) (r_insts r) <> None.
Proof. intros H. apply sel_iff in H. destruct H as [_ (i & Hi & _)]. now rewrite Hi. Qed.

Lemma firstn_z_forall {A} (P : A -> Prop) max l : Forall P l -> Forall P (firstn_z max l).
Proof.
  intros F. destruct (firstn_z_prefix max l) as [rest E]. rewrite E in F. now apply Forall_app in F.
Qed.

Lemma collected_sel r max m hsel : Forall (fun s => sel r m hsel s = true) (collected r max m hsel).
Proof.
  unfold collected. apply firstn_z_forall. rewrite Forall_forall. intros s Hs. apply filter_In in Hs. tauto.
Qed.

Theorem sample_info_fields r max m hsel take r' l :
  collect r max m hsel take = (r', CollOk l) ->
  Forall2 (describes r) (firstn_z max (filter (sel r m hsel) (r_samples r))) l.
Proof.
  intros H. destruct (collect_ok_inv _ _ _ _ _ _ _ H) as [_ [-> _]].
  apply fill_ranks_describes. eapply Forall_impl; [|apply collected_sel]. intros s. apply sel_known.
Qed.

(* the data (and every other sample field) of the result, as plain list equations *)
Lemma describes_maps r ss l :
  Forall2 (describes r) ss l ->
  map f_data l = map s_data ss /\ map f_inst l = map s_inst ss /\ map f_ss l = map s_ss ss /\
  map f_ts l = map s_ts ss /\ map f_pub l = map s_writer ss /\ length l = length ss.
Proof.
  intros F. induction F as [|s x ss xs Hd _ IH]; [repeat split|].
  destruct Hd as (D1 & D2 & _ & D4 & _ & _ & D7 & D8 & _). destruct IH as (I1 & I2 & I3 & I4 & I5 & I6).
  cbn [map length]. rewrite D1, D2, D4, D7, D8, I1, I2, I3, I4, I5, I6. repeat split.
Qed.

Corollary collection_data r max m hsel take r' l :
  collect r max m hsel take = (r', CollOk l) ->
  let S := firstn_z max (filter (sel r m hsel) (r_samples r)) in
  map f_data l = map s_data S /\ map f_inst l = map s_inst S /\ map f_ss l = map s_ss S /\
  map f_ts l = map s_ts S /\ map f_pub l = map s_writer S /\ length l = length S.
Proof. intros H. cbv zeta. apply (describes_maps r). eapply sample_info_fields; exact H. Qed.

(* (b) read marks exactly the returned samples, keeps everything *)
Theorem read_marks_only r max m hsel :
  hsel_known r hsel ->
  exists l1 l2,
    r_samples r = l1 ++ l2 /\
    filter (sel r m hsel) l1 = firstn_z max (filter (sel r m hsel) (r_samples r)) /\
    r_samples (fst (collect r max m hsel false)) = map (mark_sel r m hsel) l1 ++ l2.
Proof.
  intros Hk. destruct (collect_spec r max m hsel false Hk) as (l1 & l2 & Hl & Hf & H). cbv zeta in H.
  exists l1, l2. rewrite H. cbn [fst r_samples]. auto.
Qed.

(* (c) take removes exactly the returned samples, order of the rest preserved *)
Theorem take_removes_only r max m hsel :
  hsel_known r hsel ->
  exists l1 l2,
    r_samples r = l1 ++ l2 /\
    filter (sel r m hsel) l1 = firstn_z max (filter (sel r m hsel) (r_samples r)) /\
    r_samples (fst (collect r max m hsel true)) = filter (unsel r m hsel) l1 ++ l2.
Proof.
  intros Hk. destruct (collect_spec r max m hsel true Hk) as (l1 & l2 & Hl & Hf & H). cbv zeta in H.
  exists l1, l2. rewrite H. cbn [fst r_samples]. auto.
Qed.

(* the rest of the state: only the instances named in the collection are marked viewed *)
Lemma mark_viewed_all_memZ r ss l :
  mark_viewed_all (map (info_at r) ss) l =
  map (fun i => if memZ (i_handle i) (map s_inst ss) then mark_viewed i else i) l.
Proof.
  unfold mark_viewed_all. apply map_ext. intros i.
  replace (existsb (fun x => f_inst x =? i_handle i) (map (info_at r) ss)) with (memZ (i_handle i) (map s_inst ss)); [reflexivity|].
  unfold memZ. induction ss as [|s t IH]; cbn [map existsb]; [reflexivity|].
  rewrite IH. unfold info_at, info_of. cbn [f_inst]. now rewrite (Z.eqb_sym (i_handle i)).
Qed.

Theorem collect_frame r max m hsel take :
  hsel_known r hsel ->
  let r' := fst (collect r max m hsel take) in
  r_owns r' = r_owns r /\ r_matched r' = r_matched r /\ r_qos r' = r_qos r /\
  r_insts r' = map (fun i => if memZ (i_handle i) (map s_inst (firstn_z max (filter (sel r m hsel) (r_samples r))))
                             then mark_viewed i else i) (r_insts r).
Proof.
  intros Hk. destruct (collect_spec r max m hsel take Hk) as (l1 & l2 & _ & _ & H). cbv zeta in *.
  rewrite H. cbn [fst r_owns r_matched r_qos r_insts]. repeat split. apply mark_viewed_all_memZ.
Qed.

(* (d) NoData / BadParameter *)
Theorem nodata_iff_empty r max m hsel take :
  snd (collect r max m hsel take) = NoData <->
  hsel_known r hsel /\ (max = 0 \/ forall s, In s (r_samples r) -> sel r m hsel s = false).
Proof.
  split.
  - intros H. assert (Hk : hsel_known r hsel).
    { pose proof (hsel_known_dec r hsel) as D. unfold collect in H.
      destruct (match hsel with Some h => _ | None => false end); [discriminate|exact D]. }
    split; [exact Hk|]. rewrite (collection_is_filter r max m hsel take Hk) in H. unfold coll_of in H.
    destruct (firstn_z max (filter (sel r m hsel) (r_samples r))) as [|s0 t] eqn:E; [|discriminate].
    apply firstn_z_nil_iff in E. destruct E as [E|E]; [now left|right].
    intros s Hs. destruct (sel r m hsel s) eqn:Es; [|reflexivity].
    assert (Hin : In s (filter (sel r m hsel) (r_samples r))) by (apply filter_In; auto). rewrite E in Hin. destruct Hin.
  - intros [Hk H]. rewrite (collection_is_filter r max m hsel take Hk).
    assert (E : firstn_z max (filter (sel r m hsel) (r_samples r)) = []).
    { apply firstn_z_nil_iff. destruct H as [H|H]; [now left|right].
      destruct (filter (sel r m hsel) (r_samples r)) as [|s t] eqn:Ef; [reflexivity|].
      assert (Hin : In s (filter (sel r m hsel) (r_samples r))) by (rewrite Ef; now left).
      apply filter_In in Hin. destruct Hin as [Hin Hs]. rewrite (H s Hin) in Hs. discriminate. }
    rewrite E. reflexivity.
Qed.

Theorem bad_parameter_iff r max m hsel take :
  snd (collect r max m hsel take) = BadParameter <->
  exists h, hsel = Some h /\ find_inst h (r_insts r) = None.
Proof.
  split.
  - intros H. destruct hsel as [h|].
    + destruct (find_inst h (r_insts r)) eqn:E; [|now exists h].
      assert (Hk : hsel_known r (Some h)) by (cbn; now rewrite E).
      rewrite (collection_is_filter r max m (Some h) take Hk) in H. unfold coll_of in H.
      destruct (map _ _); discriminate.
    + rewrite (collection_is_filter r max m None take I) in H. unfold coll_of in H. destruct (map _ _); discriminate.
  - intros (h & -> & Hf). rewrite collect_bad_parameter; [reflexivity|]. cbn. intros H; now apply H.
Qed.

Theorem never_not_enabled r max m hsel take : snd (collect r max m hsel take) <> NotEnabled.
Proof.
  unfold collect. destruct (match hsel with Some h => _ | None => false end); [discriminate|].
  destruct (collect_loop r m hsel max take (r_samples r) 0) as [k c]. destruct c; discriminate.
Qed.

(* a call that returns NoData or BadParameter changes nothing *)
Lemma map_mark_sel_none r m hsel l : (forall s, In s l -> sel r m hsel s = false) -> map (mark_sel r m hsel) l = l.
Proof.
  intros H. induction l as [|s t IH]; [reflexivity|]. cbn [map]. unfold mark_sel at 1.
  rewrite (H s (or_introl eq_refl)). f_equal. apply IH. intros x Hx. apply H. now right.
Qed.
Lemma filter_unsel_none r m hsel l : (forall s, In s l -> sel r m hsel s = false) -> filter (unsel r m hsel) l = l.
Proof.
  intros H. induction l as [|s t IH]; [reflexivity|]. cbn [filter]. unfold unsel at 1.
  rewrite (H s (or_introl eq_refl)). cbn [negb]. f_equal. apply IH. intros x Hx. apply H. now right.
Qed.

Theorem collect_nodata_unchanged r max m hsel take :
  snd (collect r max m hsel take) = NoData \/ snd (collect r max m hsel take) = BadParameter ->
  fst (collect r max m hsel take) = r.
Proof.
  intros [H|H].
  - pose proof H as H0. apply nodata_iff_empty in H. destruct H as [Hk _].
    destruct (collect_spec r max m hsel take Hk) as (l1 & l2 & Hl & Hf & Hc). cbv zeta in Hc.
    rewrite Hc in H0 |- *. cbn [fst snd] in *.
    destruct (collected r max m hsel) as [|s t] eqn:E; cbn [map] in H0; [|discriminate].
    assert (Hn : forall s, In s l1 -> sel r m hsel s = false).
    { intros s Hs. destruct (sel r m hsel s) eqn:Es; [|reflexivity].
      assert (Hin : In s (filter (sel r m hsel) l1)) by (apply filter_In; auto). rewrite Hf in Hin. destruct Hin. }
    replace ((if take then filter (unsel r m hsel) l1 else map (mark_sel r m hsel) l1) ++ l2) with (r_samples r).
    2:{ rewrite Hl. destruct take; [now rewrite filter_unsel_none|now rewrite map_mark_sel_none]. }
    cbn [map]. unfold mark_viewed_all. cbn [existsb]. rewrite map_id. destruct r; reflexivity.
  - apply bad_parameter_iff in H. destruct H as (h & -> & Hf). rewrite collect_bad_parameter; [reflexivity|].
    cbn. intros H; now apply H.
Qed.

(* ------------------------------------------------------------------ (e) ranks *)
Definition of_h (h : Z) (y : info) : bool := f_inst y =? h.

Lemma later_same_filter h l : later_same h l = Z.of_nat (length (filter (of_h h) l)).
Proof.
  induction l as [|x t IH]; cbn [later_same filter length]; [reflexivity|]. unfold of_h at 1.
  destruct (f_inst x =? h); cbn [length]; lia.
Qed.

Lemma last_agrank_app h a : forall b acc, last_agrank h (a ++ b) acc = last_agrank h b (last_agrank h a acc).
Proof. induction a as [|x t IH]; intros b acc; cbn [app last_agrank]; [reflexivity|apply IH]. Qed.

Lemma last_agrank_none h b : forall acc, (forall z, In z b -> f_inst z <> h) -> last_agrank h b acc = acc.
Proof.
  induction b as [|x t IH]; intros acc H; cbn [last_agrank]; [reflexivity|].
  assert (E : (f_inst x =? h) = false) by (apply Z.eqb_neq, H; now left). rewrite E. apply IH. intros z Hz. apply H. now right.
Qed.

Lemma last_agrank_last h a y b acc :
  f_inst y = h -> (forall z, In z b -> f_inst z <> h) -> last_agrank h (a ++ y :: b) acc = f_agrank y.
Proof.
  intros Hy Hb. subst h. rewrite last_agrank_app. cbn [last_agrank]. rewrite Z.eqb_refl.
  now apply last_agrank_none.
Qed.

Lemma fill_ranks_keeps all l :
  map f_inst (fill_ranks all l) = map f_inst l /\ map f_agrank (fill_ranks all l) = map f_agrank l /\
  map f_dgc (fill_ranks all l) = map f_dgc l /\ map f_nwgc (fill_ranks all l) = map f_nwgc l.
Proof.
  induction l as [|x t (I1 & I2 & I3 & I4)]; cbn [fill_ranks map f_inst f_agrank f_dgc f_nwgc]; [repeat split|].
  rewrite I1, I2, I3, I4. repeat split.
Qed.

Lemma last_agrank_ext h a b : map f_inst a = map f_inst b -> map f_agrank a = map f_agrank b ->
  forall acc, last_agrank h a acc = last_agrank h b acc.
Proof.
  revert b. induction a as [|x t IH]; intros [|y u] E1 E2 acc; try discriminate; [reflexivity|].
  cbn [map] in E1, E2. injection E1 as Ex Et. injection E2 as Ax At. cbn [last_agrank]. rewrite Ex, Ax. now apply IH.
Qed.

Lemma filter_of_h_ext h a b : map f_inst a = map f_inst b ->
  length (filter (of_h h) a) = length (filter (of_h h) b).
Proof.
  revert b. induction a as [|x t IH]; intros [|y u] E; try discriminate; [reflexivity|].
  cbn [map] in E. injection E as Ex Et. cbn [filter].
  assert (Eo : of_h h x = of_h h y) by (unfold of_h; now rewrite Ex). rewrite Eo.
  destruct (of_h h y); cbn [length]; [f_equal|]; apply IH; exact Et.
Qed.

(* position-wise view of fill_ranks *)
Lemma fill_ranks_split all : forall l1 c x l2,
  fill_ranks all c = l1 ++ x :: l2 ->
  exists c1 x0 c2, c = c1 ++ x0 :: c2 /\ l2 = fill_ranks all c2 /\
    f_inst x = f_inst x0 /\ f_agrank x = f_agrank x0 /\
    f_srank x = later_same (f_inst x0) c2 /\ f_grank x = f_agrank x0 - last_agrank (f_inst x0) all 0.
Proof.
  induction l1 as [|z l1 IH]; intros c x l2 H.
  - destruct c as [|x0 c2]; [discriminate|]. cbn [fill_ranks app] in H. injection H as Hx Hl.
    exists [], x0, c2. subst x. cbn [f_inst f_agrank f_srank f_grank app fill_ranks]. repeat split. now symmetry.
  - destruct c as [|z0 c']; [discriminate|]. cbn [fill_ranks app] in H. injection H as Hz Hl.
    destruct (IH c' x l2 Hl) as (c1 & x0 & c2 & Hc & H3). exists (z0 :: c1), x0, c2.
    cbn [app]. rewrite Hc. split; [reflexivity|exact H3].
Qed.

(* The ranks of a collection built by fill_ranks from infos whose absolute_generation_rank is
   "generation of the instance minus generation of the sample", as direct transcriptions of
   DDS 1.4 2.2.2.5.1.5-7:
     sample_rank      = number of samples of the same instance that follow in the collection
     generation_rank  = generation of the most recent sample of the same instance IN THE
                        COLLECTION (MRSIC) minus generation of the sample
     absolute_generation_rank = current generation of the instance minus generation of the sample
   (generation = disposed_generation_count + no_writers_generation_count) *)
Definition agrank_ok (r : reader) (x : info) : Prop :=
  exists i, find_inst (f_inst x) (r_insts r) = Some i /\
            f_agrank x = (i_dgc i + i_nwgc i) - (f_dgc x + f_nwgc x).

Lemma describes_agrank_ok r ss l : Forall2 (describes r) ss l -> Forall (agrank_ok r) l.
Proof.
  intros F. induction F as [|s x ss xs Hd _ IH]; constructor; [|exact IH].
  destruct Hd as (_ & D2 & _ & _ & D5 & D6 & _ & _ & i & Hi & _ & _ & Ha).
  exists i. rewrite D2, D5, D6. auto.
Qed.

Theorem ranks_match_dds r max m hsel take r' l :
  collect r max m hsel take = (r', CollOk l) ->
  forall l1 x l2, l = l1 ++ x :: l2 ->
    f_srank x = Z.of_nat (length (filter (of_h (f_inst x)) l2)) /\
    (forall a y b, l = a ++ y :: b -> f_inst y = f_inst x -> (forall z, In z b -> f_inst z <> f_inst x) ->
       f_grank x = (f_dgc y + f_nwgc y) - (f_dgc x + f_nwgc x)) /\
    agrank_ok r x.
Proof.
  intros H l1 x l2 Hl.
  pose proof (describes_agrank_ok _ _ _ (sample_info_fields _ _ _ _ _ _ _ H)) as Hag.
  destruct (collect_ok_inv _ _ _ _ _ _ _ H) as [_ [E _]]. cbv zeta in E.
  set (c := map (info_at r) (collected r max m hsel)) in *.
  assert (Hx : agrank_ok r x) by (rewrite Forall_forall in Hag; apply Hag; rewrite Hl; apply in_elt).
  rewrite Hl in E. symmetry in E.
  destruct (fill_ranks_split c l1 c x l2 E) as (c1 & x0 & c2 & Hc & H2 & Hi & Ha & Hs & Hg).
  split; [|split; [|exact Hx]].
  - rewrite Hs, later_same_filter, <- Hi, H2. apply f_equal. symmetry. apply filter_of_h_ext.
    apply (fill_ranks_keeps c c2).
  - intros a y b Hl' Hy Hb.
    assert (Hyok : agrank_ok r y) by (rewrite Forall_forall in Hag; apply Hag; rewrite Hl'; apply in_elt).
    destruct (fill_ranks_keeps c c) as (K1 & K2 & _ & _).
    rewrite Hg, <- Ha, <- Hi.
    rewrite <- (last_agrank_ext (f_inst x) (fill_ranks c c) c K1 K2 0). rewrite E, <- Hl, Hl'.
    rewrite (last_agrank_last (f_inst x) a y b 0 Hy Hb).
    destruct Hx as (i & Hfi & Hxa). destruct Hyok as (j & Hfj & Hya). rewrite Hy, Hfi in Hfj. injection Hfj as <-.
    rewrite Hxa, Hya. lia.
Qed.

(* the MRSIC always exists (non-vacuity of the generation_rank clause) *)
Lemma last_with_exists {A} (p : A -> bool) (l : list A) :
  existsb p l = true -> exists a y b, l = a ++ y :: b /\ p y = true /\ forall z, In z b -> p z = false.
Proof.
  induction l as [|z t IH]; cbn [existsb]; [discriminate|]. intros H.
  destruct (existsb p t) eqn:Et.
  - destruct (IH eq_refl) as (a & y & b & -> & Hy & Hb). exists (z :: a), y, b. auto.
  - rewrite orb_false_r in H. exists [], z, t. repeat split; [exact H|].
    intros x Hx. destruct (p x) eqn:Ex; [|reflexivity].
    assert (existsb p t = true) by (apply existsb_exists; eauto). congruence.
Qed.

Lemma mrsic_exists (l : list info) x : In x l ->
  exists a y b, l = a ++ y :: b /\ f_inst y = f_inst x /\ forall z, In z b -> f_inst z <> f_inst x.
Proof.
  intros Hx. destruct (last_with_exists (of_h (f_inst x)) l) as (a & y & b & Hl & Hy & Hb).
  - apply existsb_exists. exists x. split; [exact Hx|]. unfold of_h. apply Z.eqb_refl.
  - exists a, y, b. split; [exact Hl|]. split; [now apply Z.eqb_eq in Hy|].
    intros z Hz. specialize (Hb z Hz). now apply Z.eqb_neq in Hb.
Qed.

(* ------------------------------------------------------------------ grouping by instance *)
(* ReaderCorr.grouped on the list of instance handles *)
Fixpoint grouped_from_z (seen : list Z) (cur : Z) (l : list Z) : bool :=
  match l with
  | [] => true
  | x :: t => if x =? cur then grouped_from_z seen cur t
              else negb (memZ x seen) && grouped_from_z (cur :: seen) x t
  end.
Definition grouped_z (l : list Z) : bool :=
  match l with [] => true | x :: t => grouped_from_z [] x t end.

Lemma grouped_from_map l : forall seen cur, grouped_from seen cur l = grouped_from_z seen cur (map f_inst l).
Proof.
  induction l as [|x t IH]; intros seen cur; cbn [grouped_from grouped_from_z map]; [reflexivity|].
  now rewrite !IH.
Qed.
Lemma grouped_map l : grouped l = grouped_z (map f_inst l).
Proof. destruct l as [|x t]; [reflexivity|]. cbn [grouped grouped_z map]. apply grouped_from_map. Qed.

Lemma grouped_from_z_prefix a b : forall seen cur,
  grouped_from_z seen cur (a ++ b) = true -> grouped_from_z seen cur a = true.
Proof.
  induction a as [|x t IH]; intros seen cur; cbn [app grouped_from_z]; [reflexivity|].
  destruct (x =? cur); [apply IH|]. rewrite !andb_true_iff. intros [H1 H2]. split; [exact H1|now apply IH in H2].
Qed.
Lemma grouped_z_prefix a b : grouped_z (a ++ b) = true -> grouped_z a = true.
Proof. destruct a as [|x t]; [reflexivity|]. cbn [app grouped_z]. apply grouped_from_z_prefix. Qed.

Lemma grouped_from_z_const h l : forall seen, (forall x, In x l -> x = h) -> grouped_from_z seen h l = true.
Proof.
  induction l as [|x t IH]; intros seen H; cbn [grouped_from_z]; [reflexivity|].
  rewrite (H x (or_introl eq_refl)), Z.eqb_refl. apply IH. intros y Hy. apply H. now right.
Qed.
Lemma grouped_z_const h l : (forall x, In x l -> x = h) -> grouped_z l = true.
Proof.
  destruct l as [|x t]; [reflexivity|]. intros H. cbn [grouped_z]. rewrite (H x (or_introl eq_refl)).
  apply grouped_from_z_const. intros y Hy. apply H. now right.
Qed.

(* the collection is grouped by instance exactly when the collected samples are *)
Theorem grouped_iff_collected r max m hsel take r' l :
  collect r max m hsel take = (r', CollOk l) ->
  grouped l = grouped_z (map s_inst (firstn_z max (filter (sel r m hsel) (r_samples r)))).
Proof.
  intros H. rewrite grouped_map. f_equal. apply (collection_data _ _ _ _ _ _ _ H).
Qed.

(* complement of the recorded class: the stored matching samples are contiguous per instance *)
Theorem grouped_when_contiguous r max m hsel take r' l :
  collect r max m hsel take = (r', CollOk l) ->
  grouped_z (map s_inst (filter (sel r m hsel) (r_samples r))) = true ->
  grouped l = true.
Proof.
  intros H G. rewrite (grouped_iff_collected _ _ _ _ _ _ _ H).
  destruct (firstn_z_prefix max (filter (sel r m hsel) (r_samples r))) as [rest E].
  rewrite E, map_app in G. now apply grouped_z_prefix in G.
Qed.

(* ... in particular when they all belong to one instance (always so with an instance argument) *)
Theorem grouped_one_instance r max m hsel take r' l h :
  collect r max m hsel take = (r', CollOk l) ->
  (forall s, In s (r_samples r) -> sel r m hsel s = true -> s_inst s = h) ->
  grouped l = true.
Proof.
  intros H Hone. apply (grouped_when_contiguous _ _ _ _ _ _ _ H). apply (grouped_z_const h).
  intros x Hx. apply in_map_iff in Hx. destruct Hx as (s & <- & Hs). apply filter_In in Hs. now apply Hone.
Qed.

Corollary grouped_instance_arg r max m h take r' l :
  collect r max m (Some h) take = (r', CollOk l) -> grouped l = true.
Proof.
  intros H. apply (grouped_one_instance _ _ _ _ _ _ _ h H). intros s _ Hs. now apply sel_inst in Hs.
Qed.

(* the recorded deviation (finding C20-not-grouped-by-instance): storage order is returned
   as is, so interleaved instances stay interleaved *)
Definition q_plain : qos := mkQ false None None None None false (Some 0).
Definition ops_interleaved : list op :=
  [OpAdd 1 1 KAlive (Some 1) 100 10; OpAdd 1 2 KAlive (Some 2) 101 20; OpAdd 1 1 KAlive (Some 3) 102 30].

Lemma not_grouped_witness :
  exists l, snd (collect (run q_plain ops_interleaved) (-1) all_masks None false) = CollOk l /\
            map f_inst l = [1; 2; 1] /\ grouped l = false.
Proof. eexists. split; [vm_compute; reflexivity|]. split; vm_compute; reflexivity. Qed.

(* ------------------------------------------------------------------ invariants of reachable states *)
Definition handles (r : reader) : list Z := map i_handle (r_insts r).
(* every stored sample belongs to a known instance: the `else return true` branch of the
   retain_mut loop (instance not found) is dead *)
Definition insts_known (r : reader) : Prop :=
  forall s, In s (r_samples r) -> In (s_inst s) (handles r).
Definition reader_inv (r : reader) : Prop := insts_known r /\ NoDup (handles r).

Lemma find_inst_In h l : find_inst h l <> None <-> In h (map i_handle l).
Proof.
  induction l as [|i t IH]; cbn [find_inst map In]; [tauto|].
  destruct (i_handle i =? h) eqn:E.
  - apply Z.eqb_eq in E. split; [now left|discriminate].
  - apply Z.eqb_neq in E. rewrite IH. tauto.
Qed.

Lemma find_inst_handle h l i : find_inst h l = Some i -> i_handle i = h.
Proof.
  induction l as [|j t IH]; cbn [find_inst]; [discriminate|].
  destruct (i_handle j =? h) eqn:E; [|exact IH]. intros H; injection H as <-. now apply Z.eqb_eq.
Qed.

Lemma update_state_handle i k : i_handle (update_state i k) = i_handle i.
Proof. unfold update_state. destruct (i_state i), k; reflexivity. Qed.

Lemma upd_inst_handles h f l : (forall i, i_handle (f i) = i_handle i) ->
  map i_handle (upd_inst h f l) = map i_handle l.
Proof.
  intros Hf. induction l as [|i t IH]; cbn [upd_inst map]; [reflexivity|].
  destruct (i_handle i =? h); cbn [map]; [now rewrite Hf|now rewrite IH].
Qed.

Lemma touch_handles l h k l' : touch_instance l h k = Some l' ->
  (In h (map i_handle l) /\ map i_handle l' = map i_handle l) \/
  (~ In h (map i_handle l) /\ map i_handle l' = map i_handle l ++ [h]).
Proof.
  unfold touch_instance. destruct (find_inst h l) as [i|] eqn:E.
  - intros H; injection H as <-. left. split.
    + apply find_inst_In. now rewrite E.
    + apply upd_inst_handles. intros j. apply update_state_handle.
  - destruct (is_alive_kind k); [|discriminate]. intros H; injection H as <-. right. split.
    + intros Hin. apply find_inst_In in Hin. now apply Hin.
    + rewrite map_app. cbn [map]. now rewrite update_state_handle.
Qed.

Lemma add_change_insts_cases r w data k h t rts :
  let r' := fst (add_change r w data k h t rts) in
  (r_insts r' = r_insts r /\ snd (add_change r w data k h t rts) <> Added) \/
  (exists i1, touch_instance (r_insts r) h k = Some i1 /\ r_insts r' = i1 /\
              snd (add_change r w data k h t rts) <> Added) \/
  (exists i1 i5, touch_instance (r_insts r) h k = Some i1 /\ touch_instance i1 h k = Some i5 /\ r_insts r' = i5).
Proof.
  cbv zeta. unfold add_change.
  destruct (touch_instance (r_insts r) h k) as [i1|] eqn:T1; [|left; split; [reflexivity|discriminate]].
  repeat (break_match; cbn [fst snd r_insts set_insts set_owns] in *;
          try (right; left; exists i1; split; [reflexivity|split; [reflexivity|discriminate]])).
  right; right. eexists; eexists. split; [reflexivity|]. split; [eassumption|reflexivity].
Qed.

Lemma insert_before_In {A} (p : A -> bool) x l y : In y (insert_before p x l) <-> y = x \/ In y l.
Proof.
  induction l as [|z t IH]; cbn [insert_before In]; [intuition|].
  destruct (p z); cbn [In]; [intuition|]. rewrite IH. intuition.
Qed.
Lemma remove_first_In {A} (p : A -> bool) l y : In y (remove_first p l) -> In y l.
Proof.
  induction l as [|z t IH]; cbn [remove_first In]; [tauto|]. destruct (p z); cbn [In]; [tauto|]. intuition.
Qed.

Lemma thinned_in k l : thinned k l -> forall x, In x k -> exists s, In s l /\ s_inst x = s_inst s.
Proof.
  intros H. induction H as [|s k l H IH|s k l H IH|s k l H IH]; intros x Hx.
  - destruct Hx.
  - destruct Hx as [<-|Hx]; [exists s; split; [now left|reflexivity]|].
    destruct (IH x Hx) as (s' & Hs & E). exists s'. split; [now right|exact E].
  - destruct Hx as [<-|Hx]; [exists s; split; [now left|reflexivity]|].
    destruct (IH x Hx) as (s' & Hs & E). exists s'. split; [now right|exact E].
  - destruct (IH x Hx) as (s' & Hs & E). exists s'. split; [now right|exact E].
Qed.

Lemma collect_handles r max m hsel take : handles (fst (collect r max m hsel take)) = handles r.
Proof.
  unfold collect, handles. break_match; [reflexivity|].
  destruct (collect_loop r m hsel max take (r_samples r) 0) as [kept c].
  assert (Em : map i_handle (mark_viewed_all c (r_insts r)) = map i_handle (r_insts r)).
  { unfold mark_viewed_all. rewrite map_map. apply map_ext. intros i.
    destruct (existsb (fun x => f_inst x =? i_handle i) c); reflexivity. }
  destruct c; cbn [fst r_insts]; exact Em.
Qed.

Lemma next_loop_cases fuel : forall r max m prev take,
  next_loop fuel r max m prev take = (r, NoData) \/
  exists h, next_loop fuel r max m prev take = collect r max m (Some h) take.
Proof.
  induction fuel as [|f IH]; intros; cbn [next_loop]; [now left|].
  destruct (next_instance r prev) as [h|]; [|now left].
  destruct (collect r max m (Some h) take) as [r' c] eqn:E.
  destruct c; try (right; exists h; now rewrite E). apply IH.
Qed.

Lemma collect_inv r max m hsel take : reader_inv r -> reader_inv (fst (collect r max m hsel take)).
Proof.
  intros [Hk Hn]. split.
  - intros x Hx. rewrite collect_handles.
    destruct (thinned_in _ _ (collect_samples_thinned r max m hsel take) x Hx) as (s & Hs & ->). now apply Hk.
  - now rewrite collect_handles.
Qed.

Lemma next_op_inv r max m prev take : reader_inv r -> reader_inv (fst (next_instance_op r max m prev take)).
Proof.
  intros H. unfold next_instance_op.
  destruct (next_loop_cases (S (length (r_insts r))) r max m prev take) as [E|[h E]]; rewrite E;
    [exact H|now apply collect_inv].
Qed.

Lemma NoDup_snoc {A} (l : list A) h : NoDup l -> ~ In h l -> NoDup (l ++ [h]).
Proof.
  induction l as [|x t IH]; intros Hn Hh; cbn [app]; [constructor; [intros []|constructor]|].
  inversion Hn as [|? ? Hx Ht]; subst. constructor.
  - intros Hin. apply in_app_or in Hin. destruct Hin as [Hin|[<-|[]]]; [contradiction|]. apply Hh. now left.
  - apply IH; [exact Ht|]. intros Hin. apply Hh. now right.
Qed.

Lemma add_change_inv r w data k h t rts : reader_inv r -> reader_inv (fst (add_change r w data k h t rts)).
Proof.
  intros [Hk Hn].
  pose proof (add_change_insts_cases r w data k h t rts) as HI. cbv zeta in HI.
  pose proof (add_change_samples r w data k h t rts) as HS. cbv zeta in HS.
  set (r' := fst (add_change r w data k h t rts)) in *.
  (* the handle list only grows, by h, without duplicates *)
  assert (HH : (handles r' = handles r \/ (~ In h (handles r) /\ handles r' = handles r ++ [h])) /\
               (snd (add_change r w data k h t rts) = Added -> In h (handles r'))).
  { unfold handles. destruct HI as [[E Hna]|[(i1 & T1 & E & Hna)|(i1 & i5 & T1 & T5 & E)]]; rewrite E.
    - split; [now left|intros; contradiction].
    - split; [|intros; contradiction]. destruct (touch_handles _ _ _ _ T1) as [[_ E1]|[Hni E1]]; [now left|now right].
    - destruct (touch_handles _ _ _ _ T1) as [[Hin E1]|[Hni E1]].
      + destruct (touch_handles _ _ _ _ T5) as [[_ E5]|[Hni5 _]].
        * rewrite E5, E1. split; [now left|intros _; exact Hin].
        * exfalso. apply Hni5. now rewrite E1.
      + destruct (touch_handles _ _ _ _ T5) as [[_ E5]|[Hni5 _]].
        * rewrite E5, E1. split; [now right|intros _; apply in_or_app; right; now left].
        * exfalso. apply Hni5. rewrite E1. apply in_or_app; right; now left. }
  destruct HH as [HH Hadd].
  assert (Hsub : forall x, In x (handles r) -> In x (handles r')).
  { destruct HH as [E|[_ E]]; rewrite E; [auto|]. intros x Hx. apply in_or_app; now left. }
  split.
  - intros s Hs. destruct HS as [E|(smp & base & _ & Hinst & _ & _ & _ & _ & Hbase & Hshape & Hadded)].
    + rewrite E in Hs. now apply Hsub, Hk.
    + rewrite Hshape in Hs.
      assert (Hs' : s = smp \/ In s base).
      { destruct (q_bysrc (r_qos r)); [now apply insert_before_In in Hs|].
        apply in_app_or in Hs. destruct Hs as [Hs|[Hs|[]]]; [now right|now left]. }
      destruct Hs' as [->|Hs'].
      * rewrite Hinst. now apply Hadd.
      * apply Hsub, Hk. destruct Hbase as [->| ->]; [exact Hs'|now apply remove_first_In in Hs'].
  - destruct HH as [E|[Hni E]]; rewrite E; [exact Hn|].
    now apply NoDup_snoc.
Qed.

Lemma step_inv r o : reader_inv r -> reader_inv (fst (step r o)).
Proof.
  intros H. destruct o; cbn [step].
  - pose proof (add_change_inv r w data k h t rts H) as H'.
    destruct (add_change r w data k h t rts) as [r' a]. exact H'.
  - pose proof (collect_inv r max m hsel false H) as H'. destruct (collect r max m hsel false) as [r' c]. exact H'.
  - pose proof (collect_inv r max m hsel true H) as H'. destruct (collect r max m hsel true) as [r' c]. exact H'.
  - pose proof (next_op_inv r max m prev false H) as H'.
    destruct (next_instance_op r max m prev false) as [r' c]. exact H'.
  - pose proof (next_op_inv r max m prev true H) as H'.
    destruct (next_instance_op r max m prev true) as [r' c]. exact H'.
  - unfold add_matched. destruct (upd_pub w s (r_matched r)); exact H.
  - unfold remove_matched. destruct (find_pub w (r_matched r)); exact H.
Qed.

Theorem reachable_inv q ops : reader_inv (run q ops).
Proof.
  unfold run. change (fst (run_obs (init_reader q) ops)) with (run_from (init_reader q) ops).
  apply (run_from_inv reader_inv); [exact step_inv|]. split; [intros s []|constructor].
Qed.

(* in a reachable state the selection is purely "instance argument + three masks" *)
Theorem reachable_sel_iff q ops m hsel s :
  let r := run q ops in
  In s (r_samples r) ->
  exists i, find_inst (s_inst s) (r_insts r) = Some i /\
    (sel r m hsel s = true <->
     match hsel with Some h => s_inst s = h | None => True end /\
     ss_in m (s_ss s) = true /\ vs_in m (i_view i) = true /\ is_in m (i_state i) = true).
Proof.
  cbv zeta. intros Hs. destruct (reachable_inv q ops) as [Hk _].
  specialize (Hk s Hs). apply find_inst_In in Hk.
  destruct (find_inst (s_inst s) (r_insts (run q ops))) as [i|] eqn:E; [|contradiction].
  exists i. split; [reflexivity|]. rewrite sel_iff. rewrite E. split.
  - intros [Hh (j & Hj & Hm)]. injection Hj as <-. tauto.
  - intros [Hh Hm]. split; [exact Hh|]. exists i. tauto.
Qed.

(* a history used by the non-vacuity examples: instance 1 is written, disposed, reborn
   (generation 1) and written again; instance 2 is written in between *)
Definition ops_lifecycle : list op :=
  [OpAdd 1 1 KAlive (Some 1) 100 10; OpAdd 1 1 KDisposed (Some 2) 101 20; OpAdd 1 1 KAlive (Some 3) 102 30;
   OpAdd 1 2 KAlive (Some 4) 103 40; OpAdd 1 1 KAlive (Some 5) 104 50].

(* pointwise reading of (b): after read every stored sample is either untouched or it is a
   returned (selected) sample whose sample_state became READ; nothing is added or dropped *)
Corollary read_changes_only_sample_state r max m hsel :
  Forall2 (fun s s' => s' = s \/ (s' = mark_read s /\ sel r m hsel s = true))
          (r_samples r) (r_samples (fst (collect r max m hsel false))).
Proof.
  assert (Hrefl : forall l : list sample, Forall2 (fun s s' => s' = s \/ (s' = mark_read s /\ sel r m hsel s = true)) l l).
  { induction l; constructor; auto. }
  assert (D : hsel_known r hsel \/ ~ hsel_known r hsel).
  { unfold hsel_known. destruct hsel as [h|]; [|now left]. destruct (find_inst h (r_insts r)); [left; discriminate|right; intros H; now apply H]. }
  destruct D as [Hk|Hk].
  - destruct (read_marks_only r max m hsel Hk) as (l1 & l2 & Hl & _ & E). rewrite E, Hl.
    apply Forall2_app; [|apply Hrefl]. clear. induction l1 as [|s t IH]; cbn [map]; constructor; [|exact IH].
    unfold mark_sel. destruct (sel r m hsel s); auto.
  - rewrite collect_bad_parameter by exact Hk. apply Hrefl.
Qed.

Lemma combine_app' {A B} (a : list A) : forall (a' : list B) b b',
  length a = length a' -> combine (a ++ b) (a' ++ b') = combine a a' ++ combine b b'.
Proof.
  induction a as [|x t IH]; intros [|y u] b b' H; try discriminate; [reflexivity|].
  cbn [app combine]. f_equal. apply IH. now injection H.
Qed.

(* pointwise reading of (c): what remains after take is the old cache with some selected
   samples dropped (`thinned` without marks), and none is altered *)
Corollary take_only_drops r max m hsel :
  exists keep : list bool,
    length keep = length (r_samples r) /\
    r_samples (fst (collect r max m hsel true)) = map fst (filter snd (combine (r_samples r) keep)) /\
    Forall (fun sk => snd sk = false -> sel r m hsel (fst sk) = true) (combine (r_samples r) keep).
Proof.
  assert (Hall : forall l : list sample,
            l = map fst (filter snd (combine l (map (fun _ => true) l))) /\
            Forall (fun sk : sample * bool => snd sk = false -> sel r m hsel (fst sk) = true) (combine l (map (fun _ => true) l))).
  { induction l as [|s t [I1 I2]]; cbn [map combine filter snd fst]; [split; [reflexivity|constructor]|].
    split; [now rewrite <- I1|constructor; [discriminate|exact I2]]. }
  assert (D : hsel_known r hsel \/ ~ hsel_known r hsel).
  { unfold hsel_known. destruct hsel as [h|]; [|now left]. destruct (find_inst h (r_insts r)); [left; discriminate|right; intros H; now apply H]. }
  destruct D as [Hk|Hk].
  - destruct (take_removes_only r max m hsel Hk) as (l1 & l2 & Hl & _ & E). rewrite E, Hl.
    exists (map (unsel r m hsel) l1 ++ map (fun _ => true) l2). split; [now rewrite !app_length, !map_length|].
    assert (H1 : filter (unsel r m hsel) l1 = map fst (filter snd (combine l1 (map (unsel r m hsel) l1))) /\
                 Forall (fun sk : sample * bool => snd sk = false -> sel r m hsel (fst sk) = true) (combine l1 (map (unsel r m hsel) l1))).
    { clear. induction l1 as [|s t [I1 I2]]; cbn [map combine filter]; [split; [reflexivity|constructor]|].
      cbn [snd]. destruct (unsel r m hsel s) eqn:Eu; cbn [map fst snd].
      - split; [now rewrite I1|constructor; [discriminate|exact I2]].
      - split; [exact I1|constructor; [intros _; unfold unsel in Eu; now apply negb_false_iff in Eu|exact I2]]. }
    destruct H1 as [H1 H1']. destruct (Hall l2) as [H2 H2'].
    rewrite combine_app' by now rewrite map_length. rewrite filter_app, map_app, <- H1, <- H2.
    split; [reflexivity|apply Forall_app; auto].
  - rewrite collect_bad_parameter by exact Hk. exists (map (fun _ => true) (r_samples r)).
    split; [now rewrite map_length|]. apply Hall.
Qed.
