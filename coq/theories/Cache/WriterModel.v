(* Model of the writer-side resource limits (C19, writer clause):
     dds/src/dcps/dcps_domain_participant/data_writer_entity.rs
       DataWriterEntity::write_w_timestamp (registered_instance_info, samples,
       last_change_sequence_number, transport_writer.add_change)
     dds/src/dcps/dcps_domain_participant/writer_methods.rs:355-405
       the KEEP_LAST step the caller performs before write_w_timestamp (the branch taken
       when the oldest sample is acknowledged or the writer is best-effort)
   Definitions only.  `registered_instance_info` is a list in storage order, `samples`
   (VecDeque<i64>) a list front first; the transport writer is the list of changes
   handed to add_change and not removed since.  Handles and payloads are integers,
   times are nanoseconds.  Limits that are set are >= 0 and depth < 2^31 (`depth as i32`). *)
From DustDDS Require Export Base.Machine.
Open Scope Z_scope.

(* wq_depth None = KEEP_ALL; limits None = Length::Unlimited; wq_life None = infinite lifespan *)
Record wqos := mkWQ { wq_depth : option Z; wq_ms : option Z; wq_mi : option Z; wq_mspi : option Z;
                      wq_life : option Z }.
Record winst := mkWI { wi_h : Z; wi_lwt : option Z; wi_samples : list Z }.
Record change := mkCh { c_seq : Z; c_h : Z; c_data : Z; c_ts : Z }.
Record writer := mkW { w_insts : list winst; w_seq : Z; w_changes : list change; w_qos : wqos }.

Definition init_writer (q : wqos) : writer := mkW [] 0 [] q.

Fixpoint find_wi (h : Z) (l : list winst) : option winst :=
  match l with [] => None | x :: t => if wi_h x =? h then Some x else find_wi h t end.
(* apply f to the first instance with handle h *)
Fixpoint upd_wi (h : Z) (f : winst -> winst) (l : list winst) : list winst :=
  match l with [] => [] | x :: t => if wi_h x =? h then f x :: t else x :: upd_wi h f t end.
Definition slen (x : winst) : Z := Z.of_nat (length (wi_samples x)).
(* .iter().fold(0, |acc, x| acc + x.samples.len()) *)
Definition total (l : list winst) : Z := fold_left (fun acc x => acc + slen x) l 0.
(* usize < Length *)
Definition len_lt (n : Z) (lim : option Z) : bool := match lim with None => true | Some v => n <? v end.

Inductive wres := WOk | WOutOfResources | WPanic.

(* write_w_timestamp tests all three limits BEFORE anything is stored (repo commit 3010f06) and
   pushes the record of an unknown instance only afterwards.  w_register is the instance list as
   it will be after that deferred push (None = the max_instances test refuses); the two sample
   tests are evaluated on it, which gives the same verdicts as the code's tests on the list
   before the push (the pushed record has no samples: `.map(|s| s.samples.len()).unwrap_or(0)`
   and the total are the same — lemma w_tests_before_push).  A refused write returns the
   state unchanged. *)
Definition w_register (w : writer) (h : Z) : option (list winst) :=
  if existsb (fun x => wi_h x =? h) (w_insts w) then Some (w_insts w)
  else if len_lt (Z.of_nat (length (w_insts w))) (wq_mi (w_qos w)) then Some (w_insts w ++ [mkWI h None []])
  else None.
(* step 2: max_samples_per_instance, skipped when KEEP_LAST depth <= the limit *)
Definition w_mspi_hit (q : wqos) (insts : list winst) (h : Z) : bool :=
  match wq_mspi q with
  | None => false
  | Some m =>
      let check := match find_wi h insts with Some s => m <=? slen s | None => false end in
      match wq_depth q with
      | Some d => if d <=? m then false else check
      | None => check
      end
  end.
(* step 3: max_samples over all instances *)
Definition w_ms_hit (q : wqos) (insts : list winst) : bool :=
  match wq_ms q with Some m => m <=? total insts | None => false end.

Definition w_write (w : writer) (h data ts now : Z) : writer * wres :=
  let q := w_qos w in
  match w_register w h with
  | None => (w, WOutOfResources)
  | Some insts1 =>
    if w_mspi_hit q insts1 h then (w, WOutOfResources) else
    if w_ms_hit q insts1 then (w, WOutOfResources) else
    let seq := w_seq w + 1 in
    match find_wi h insts1 with
    | None => (mkW insts1 seq (w_changes w) q, WPanic)      (* expect("Instance info must exist") *)
    | Some _ =>
      let insts2 := upd_wi h (fun x =>
          mkWI (wi_h x)
               (match wi_lwt x with Some l => if l <? ts then Some ts else Some l | None => Some ts end)
               (wi_samples x ++ [seq])) insts1 in
      (* lifespan: a sample that is already expired is recorded but not handed to the transport *)
      let expired := match wq_life q with Some d => ts - now + d <=? 0 | None => false end in
      (mkW insts2 seq (if expired then w_changes w else w_changes w ++ [mkCh seq h data ts]) q, WOk)
    end
  end.

(* the caller's KEEP_LAST step (writer_methods.rs): when the instance holds exactly `depth`
   samples the oldest one is popped and removed from the transport writer *)
Definition w_pre (w : writer) (h : Z) : writer :=
  match wq_depth (w_qos w) with
  | None => w
  | Some d =>
      match find_wi h (w_insts w) with
      | Some s =>
          if slen s =? d then
            match wi_samples s with
            | sq :: _ =>
                mkW (upd_wi h (fun x => mkWI (wi_h x) (wi_lwt x) (tl (wi_samples x))) (w_insts w))
                    (w_seq w) (filter (fun c => negb (c_seq c =? sq)) (w_changes w)) (w_qos w)
            | [] => w
            end
          else w
      | None => w
      end
  end.

Inductive wop :=
| WWrite (h data ts now : Z)      (* write_w_timestamp alone *)
| WPre (h : Z)                    (* the caller's KEEP_LAST step alone *)
| WApp (h data ts now : Z).       (* DataWriter::write = the two in sequence *)

Definition w_step (w : writer) (o : wop) : writer * wres :=
  match o with
  | WWrite h data ts now => w_write w h data ts now
  | WPre h => (w_pre w h, WOk)
  | WApp h data ts now => w_write (w_pre w h) h data ts now
  end.

Fixpoint w_run_obs (w : writer) (ops : list wop) : writer * list wres :=
  match ops with
  | [] => (w, [])
  | o :: t => let '(w1, x) := w_step w o in let '(w2, xs) := w_run_obs w1 t in (w2, x :: xs)
  end.
Definition w_run_from (w : writer) (ops : list wop) : writer := fst (w_run_obs w ops).
Definition w_run (q : wqos) (ops : list wop) : writer := w_run_from (init_writer q) ops.

(* what the theorems talk about *)
Definition wlim_ok (lim : option Z) (n : Z) : bool := match lim with None => true | Some v => n <=? v end.
Definition wlim_nonneg (l : option Z) : Prop := match l with Some v => 0 <= v | None => True end.
Definition w_within (q : wqos) (l : list winst) : Prop :=
  wlim_ok (wq_ms q) (total l) = true /\
  wlim_ok (wq_mi q) (Z.of_nat (length l)) = true /\
  forall x, In x l -> wlim_ok (wq_mspi q) (slen x) = true.
Definition app_op (o : wop) : bool := match o with WApp _ _ _ _ => true | _ => false end.
(* the sample bookkeeping: everything except the list of registered handles *)
Definition samples_of (w : writer) : list (Z * list Z) := map (fun x => (wi_h x, wi_samples x)) (w_insts w).
