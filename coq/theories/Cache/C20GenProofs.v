(* C20, ranks over histories: for a BY_RECEPTION_TIMESTAMP reader the generation of the
   stored samples of one instance never decreases along the cache and never exceeds the
   generation of the instance record; hence 0 <= generation_rank <= absolute_generation_rank
   in every collection returned after any history. *)
From Coq Require Import Sorting.Sorted.
From DustDDS Require Import Base.Machine Cache.ReaderModel Cache.ReaderFacts Cache.ReaderCorr Cache.C20Proofs.
Open Scope Z_scope.

Definition gen_le (a b : sample) : Prop := s_inst a = s_inst b -> gen_s a <= gen_s b.
Definition gen_inv (r : reader) : Prop :=
  (forall s, In s (r_samples r) ->
     exists i, find_inst (s_inst s) (r_insts r) = Some i /\ gen_s s <= gen_i i) /\
  (q_bysrc (r_qos r) = false -> StronglySorted gen_le (r_samples r)).

(* ------------------------------------------------------------------ instance records only grow *)
Lemma update_state_gen i k : gen_i i <= gen_i (update_state i k).
Proof. unfold gen_i, update_state. destruct (i_state i), k; cbn [i_dgc i_nwgc]; lia. Qed.

Definition grows (l l' : list inst) : Prop :=
  forall h i, find_inst h l = Some i -> exists i', find_inst h l' = Some i' /\ gen_i i <= gen_i i'.

Lemma grows_refl l : grows l l.
Proof. intros h i H. exists i. split; [exact H|lia]. Qed.
Lemma grows_trans a b c : grows a b -> grows b c -> grows a c.
Proof.
  intros H1 H2 h i Hi. destruct (H1 h i Hi) as (i' & Hi' & L1). destruct (H2 h i' Hi') as (i'' & Hi'' & L2).
  exists i''. split; [exact Hi''|lia].
Qed.

Lemma upd_inst_grows h k l : grows l (upd_inst h (fun i => update_state i k) l).
Proof.
  induction l as [|j t IH]; intros h' i Hi; cbn [upd_inst find_inst] in *; [discriminate|].
  destruct (i_handle j =? h) eqn:Ej; cbn [find_inst].
  - rewrite update_state_handle. destruct (i_handle j =? h') eqn:Ej'.
    + injection Hi as <-. eexists. split; [reflexivity|apply update_state_gen].
    + exists i. split; [exact Hi|lia].
  - destruct (i_handle j =? h') eqn:Ej'.
    + injection Hi as <-. exists j. split; [reflexivity|lia].
    + now apply IH.
Qed.

Lemma find_inst_app_l h l x i : find_inst h l = Some i -> find_inst h (l ++ x) = Some i.
Proof.
  induction l as [|j t IH]; cbn [find_inst app]; [discriminate|]. destruct (i_handle j =? h); [auto|exact IH].
Qed.

Lemma touch_grows l h k l' : touch_instance l h k = Some l' -> grows l l'.
Proof.
  unfold touch_instance. destruct (find_inst h l).
  - intros H; injection H as <-. apply upd_inst_grows.
  - destruct (is_alive_kind k); [|discriminate]. intros H; injection H as <-.
    intros h' i Hi. exists i. split; [now apply find_inst_app_l|lia].
Qed.

Lemma mark_viewed_all_grows c l : grows l (mark_viewed_all c l).
Proof.
  unfold mark_viewed_all. induction l as [|j t IH]; intros h i Hi; cbn [map find_inst] in *; [discriminate|].
  assert (Eh : i_handle (if existsb (fun x => f_inst x =? i_handle j) c then mark_viewed j else j) = i_handle j)
    by (destruct (existsb _ c); reflexivity).
  rewrite Eh. destruct (i_handle j =? h).
  - injection Hi as <-. eexists. split; [reflexivity|]. destruct (existsb _ c); unfold gen_i; cbn [mark_viewed i_dgc i_nwgc]; lia.
  - now apply IH.
Qed.

(* ------------------------------------------------------------------ thinned lists *)
Lemma thinned_in' k l : thinned k l -> forall x, In x k -> exists s, In s l /\ s_inst x = s_inst s /\ gen_s x = gen_s s.
Proof.
  intros H. induction H as [|s k l H IH|s k l H IH|s k l H IH]; intros x Hx.
  - destruct Hx.
  - destruct Hx as [<-|Hx]; [exists s; repeat split; now left|].
    destruct (IH x Hx) as (s' & Hs & E). exists s'. split; [now right|exact E].
  - destruct Hx as [<-|Hx]; [exists s; repeat split; now left|].
    destruct (IH x Hx) as (s' & Hs & E). exists s'. split; [now right|exact E].
  - destruct (IH x Hx) as (s' & Hs & E). exists s'. split; [now right|exact E].
Qed.

Lemma thinned_gen_sorted k l : thinned k l -> StronglySorted gen_le l -> StronglySorted gen_le k.
Proof.
  intros H. induction H as [|s k l H IH|s k l H IH|s k l H IH]; intros Hs.
  - constructor.
  - inversion Hs as [|? ? S' F]; subst. constructor; [now apply IH|].
    rewrite Forall_forall in *. intros x Hx. destruct (thinned_in' _ _ H x Hx) as (s' & Hin & Ei & Eg).
    specialize (F s' Hin). unfold gen_le in *. rewrite Ei, Eg. exact F.
  - inversion Hs as [|? ? S' F]; subst. constructor; [now apply IH|].
    rewrite Forall_forall in *. intros x Hx. destruct (thinned_in' _ _ H x Hx) as (s' & Hin & Ei & Eg).
    specialize (F s' Hin). unfold gen_le in *. rewrite Ei, Eg. exact F.
  - inversion Hs; subst. now apply IH.
Qed.

Lemma remove_first_thinned' {p : sample -> bool} l : thinned (remove_first p l) l.
Proof.
  induction l as [|x t IH]; cbn [remove_first]; [constructor|].
  destruct (p x); [apply th_drop, thinned_refl | apply th_keep, IH].
Qed.

(* ------------------------------------------------------------------ collect / next *)
Lemma collect_insts_cases r max m hsel take :
  r_insts (fst (collect r max m hsel take)) = r_insts r \/
  exists c, r_insts (fst (collect r max m hsel take)) = mark_viewed_all c (r_insts r).
Proof.
  unfold collect. break_match; [now left|].
  destruct (collect_loop r m hsel max take (r_samples r) 0) as [kept c]. right. exists c. destruct c; reflexivity.
Qed.

Lemma gen_inv_transfer r r' :
  gen_inv r -> thinned (r_samples r') (r_samples r) -> grows (r_insts r) (r_insts r') -> r_qos r' = r_qos r ->
  gen_inv r'.
Proof.
  intros [G1 G2] Ht Hg Hq. split.
  - intros x Hx. destruct (thinned_in' _ _ Ht x Hx) as (s & Hs & Ei & Eg).
    destruct (G1 s Hs) as (i & Hi & Hle). destruct (Hg _ _ Hi) as (i' & Hi' & Hle').
    exists i'. rewrite Ei, Eg. split; [exact Hi'|lia].
  - rewrite Hq. intros Hb. eapply thinned_gen_sorted; [exact Ht|now apply G2].
Qed.

Lemma collect_gen_inv r max m hsel take : gen_inv r -> gen_inv (fst (collect r max m hsel take)).
Proof.
  intros H. apply (gen_inv_transfer r); [exact H|apply collect_samples_thinned| |apply collect_qos].
  destruct (collect_insts_cases r max m hsel take) as [E|[c E]]; rewrite E;
    [apply grows_refl|apply mark_viewed_all_grows].
Qed.

Lemma next_op_gen_inv r max m prev take : gen_inv r -> gen_inv (fst (next_instance_op r max m prev take)).
Proof.
  intros H. unfold next_instance_op.
  destruct (next_loop_cases (S (length (r_insts r))) r max m prev take) as [E|[h E]]; rewrite E;
    [exact H|now apply collect_gen_inv].
Qed.

(* ------------------------------------------------------------------ add_change *)
(* full shape of add_change: either no sample is stored and the instance table grew, or the
   stored sample carries the generation of its instance record after the first update *)
Lemma add_change_shape r w data k h t rts :
  let r' := fst (add_change r w data k h t rts) in
  (r_samples r' = r_samples r /\
   (r_insts r' = r_insts r \/ touch_instance (r_insts r) h k = Some (r_insts r'))) \/
  (exists i1 i5 i base,
     touch_instance (r_insts r) h k = Some i1 /\ touch_instance i1 h k = Some i5 /\
     find_inst h i1 = Some i /\ r_insts r' = i5 /\
     (base = r_samples r \/ base = remove_first (alive_of_inst h) (r_samples r)) /\
     let smp := mkS k w h t data SNotRead (i_dgc i) (i_nwgc i) in
     r_samples r' = (if q_bysrc (r_qos r) then insert_before (fun x => ts_ltb t (s_ts x)) smp base
                     else base ++ [smp])).
Proof.
  cbv zeta. unfold add_change.
  destruct (touch_instance (r_insts r) h k) as [i1|] eqn:T1; [|left; split; [reflexivity|now left]].
  repeat (break_match; cbn [fst snd r_insts r_samples r_qos set_insts set_owns set_samples] in *;
          try (left; split; [reflexivity|right; reflexivity])).
  all: right; eexists; eexists; eexists; eexists; split; [reflexivity|];
       (split; [eassumption|]); (split; [eassumption|]); (split; [reflexivity|]); split; [|reflexivity]; auto.
Qed.

Lemma sorted_snoc {A} (R : A -> A -> Prop) l x :
  StronglySorted R l -> Forall (fun y => R y x) l -> StronglySorted R (l ++ [x]).
Proof.
  intros Hs. induction Hs as [|y t Hs IH F]; intros Hx; cbn [app]; [constructor; constructor|].
  inversion Hx; subst. constructor; [now apply IH|]. apply Forall_app. split; [exact F|]. constructor; [assumption|constructor].
Qed.

Lemma add_change_gen_inv r w data k h t rts : gen_inv r -> gen_inv (fst (add_change r w data k h t rts)).
Proof.
  intros G. pose proof (add_change_shape r w data k h t rts) as Hsh. cbv zeta in Hsh.
  pose proof (add_change_qos r w data k h t rts) as Hq.
  set (r' := fst (add_change r w data k h t rts)) in *.
  destruct Hsh as [[Es Ei]|(i1 & i5 & i & base & T1 & T5 & Hfi & Ei & Hbase & Es)].
  - apply (gen_inv_transfer r); [exact G|rewrite Es; apply thinned_refl| |exact Hq].
    destruct Ei as [Ei|Ei]; [rewrite Ei; apply grows_refl|now apply touch_grows in Ei].
  - cbv zeta in Es. destruct G as [G1 G2].
    assert (Hg1 : grows (r_insts r) i1) by now apply touch_grows in T1.
    assert (Hg5 : grows i1 i5) by now apply touch_grows in T5.
    assert (Hg : grows (r_insts r) (r_insts r')) by (rewrite Ei; eapply grows_trans; eassumption).
    assert (Hth : thinned base (r_samples r)) by (destruct Hbase as [->| ->]; [apply thinned_refl|apply remove_first_thinned']).
    set (smp := mkS k w h t data SNotRead (i_dgc i) (i_nwgc i)) in *.
    assert (Hold : forall x, In x base -> exists s, In s (r_samples r) /\ s_inst x = s_inst s /\ gen_s x = gen_s s)
      by (apply thinned_in'; exact Hth).
    split.
    + intros x Hx. rewrite Es in Hx.
      assert (Hx' : x = smp \/ In x base).
      { destruct (q_bysrc (r_qos r)); [now apply insert_before_In in Hx|].
        apply in_app_or in Hx. destruct Hx as [Hx|[Hx|[]]]; [now right|now left]. }
      destruct Hx' as [->|Hx'].
      * subst smp. cbn [s_inst]. destruct (Hg5 h i Hfi) as (i' & Hi' & Hle). exists i'. rewrite Ei. split; [exact Hi'|].
        unfold gen_s, gen_i in *. cbn [s_dgc s_nwgc]. lia.
      * destruct (Hold x Hx') as (s & Hs & Ein & Eg). destruct (G1 s Hs) as (i0 & Hi0 & Hle0).
        destruct (Hg _ _ Hi0) as (i' & Hi' & Hle'). exists i'. rewrite Ein, Eg. split; [exact Hi'|lia].
    + rewrite Hq. intros Hb. rewrite Es, Hb. apply sorted_snoc.
      * eapply thinned_gen_sorted; [exact Hth|now apply G2].
      * rewrite Forall_forall. intros x Hx Hinst. subst smp. cbn [s_inst] in Hinst.
        destruct (Hold x Hx) as (s & Hs & Ein & Eg). destruct (G1 s Hs) as (i0 & Hi0 & Hle0).
        rewrite <- Ein, Hinst in Hi0. destruct (Hg1 _ _ Hi0) as (i' & Hi' & Hle'). rewrite Hfi in Hi'. injection Hi' as <-.
        rewrite Eg. unfold gen_s at 2. cbn [s_dgc s_nwgc]. unfold gen_i in *. lia.
Qed.

Lemma step_gen_inv r o : gen_inv r -> gen_inv (fst (step r o)).
Proof.
  intros H. destruct o; cbn [step].
  - pose proof (add_change_gen_inv r w data k h t rts H) as H'.
    destruct (add_change r w data k h t rts) as [r' a]. exact H'.
  - pose proof (collect_gen_inv r max m hsel false H) as H'. destruct (collect r max m hsel false) as [r' c]. exact H'.
  - pose proof (collect_gen_inv r max m hsel true H) as H'. destruct (collect r max m hsel true) as [r' c]. exact H'.
  - pose proof (next_op_gen_inv r max m prev false H) as H'.
    destruct (next_instance_op r max m prev false) as [r' c]. exact H'.
  - pose proof (next_op_gen_inv r max m prev true H) as H'.
    destruct (next_instance_op r max m prev true) as [r' c]. exact H'.
  - unfold add_matched. destruct (upd_pub w s (r_matched r)); exact H.
  - unfold remove_matched. destruct (find_pub w (r_matched r)); exact H.
Qed.

Theorem reachable_gen_inv q ops : gen_inv (run q ops).
Proof.
  unfold run. change (fst (run_obs (init_reader q) ops)) with (run_from (init_reader q) ops).
  apply (run_from_inv gen_inv); [exact step_gen_inv|]. split; [intros s []|intros _; constructor].
Qed.

(* ------------------------------------------------------------------ consequence for the ranks *)
Lemma sorted_app_l {A} (R : A -> A -> Prop) a b : StronglySorted R (a ++ b) -> StronglySorted R a.
Proof.
  induction a as [|x t IH]; cbn [app]; intros H; [constructor|]. inversion H as [|? ? Hs F]; subst.
  constructor; [now apply IH|]. apply Forall_app in F. tauto.
Qed.

Lemma sorted_filter {A} (R : A -> A -> Prop) p l : StronglySorted R l -> StronglySorted R (filter p l).
Proof.
  intros H. induction H as [|x t Hs IH F]; cbn [filter]; [constructor|].
  destruct (p x); [|exact IH]. constructor; [exact IH|].
  rewrite Forall_forall in *. intros y Hy. apply filter_In in Hy. now apply F.
Qed.

Lemma sorted_mid {A} (R : A -> A -> Prop) a y b x : StronglySorted R (a ++ y :: b) -> In x a -> R x y.
Proof.
  induction a as [|z t IH]; cbn [app]; intros H Hx; [destruct Hx|]. inversion H as [|? ? Hs F]; subst.
  destruct Hx as [<-|Hx]; [|now apply IH]. rewrite Forall_forall in F. apply F. apply in_elt.
Qed.

Lemma forall2_forall {A B} (D : A -> B -> Prop) (P : A -> Prop) (Q : B -> Prop) ss l :
  (forall s x, D s x -> P s -> Q x) -> Forall2 D ss l -> Forall P ss -> Forall Q l.
Proof.
  intros H F. induction F as [|s x ss l Hd _ IH]; intros Hp; constructor; inversion Hp; subst; eauto.
Qed.

Lemma sorted_transfer {A B} (D : A -> B -> Prop) (Rs : A -> A -> Prop) (Rl : B -> B -> Prop) ss l :
  (forall s x s' x', D s x -> D s' x' -> Rs s s' -> Rl x x') ->
  Forall2 D ss l -> StronglySorted Rs ss -> StronglySorted Rl l.
Proof.
  intros H F. induction F as [|s x ss l Hd F IH]; intros Hs; [constructor|].
  inversion Hs as [|? ? Hs' Fs]; subst. constructor; [now apply IH|].
  eapply forall2_forall; [|exact F|exact Fs]. intros s' x' Hd' Hr. eapply H; eassumption.
Qed.

Definition info_gen_le (a b : info) : Prop := f_inst a = f_inst b -> f_dgc a + f_nwgc a <= f_dgc b + f_nwgc b.

(* for every QoS with BY_RECEPTION_TIMESTAMP order, every history and every call: all three
   ranks are non-negative and generation_rank <= absolute_generation_rank *)
Theorem ranks_bounds_by_reception q ops max m hsel take r' l :
  q_bysrc q = false ->
  collect (run q ops) max m hsel take = (r', CollOk l) ->
  Forall (fun x => 0 <= f_srank x /\ 0 <= f_grank x /\ f_grank x <= f_agrank x) l.
Proof.
  intros Hb H. destruct (reachable_gen_inv q ops) as [G1 G2]. rewrite run_qos in G2. specialize (G2 Hb).
  set (r := run q ops) in *.
  pose proof (sample_info_fields _ _ _ _ _ _ _ H) as Hd. fold (collected r max m hsel) in Hd.
  assert (Hsub : forall s, In s (collected r max m hsel) -> In s (r_samples r)).
  { intros s Hs. unfold collected in Hs. destruct (firstn_z_prefix max (filter (sel r m hsel) (r_samples r))) as [rest E].
    assert (Hin : In s (filter (sel r m hsel) (r_samples r))) by (rewrite E; apply in_or_app; now left).
    now apply filter_In in Hin. }
  (* per instance the generations are non-decreasing along the collection *)
  assert (Hsorted : StronglySorted info_gen_le l).
  { apply (sorted_transfer (describes r) gen_le info_gen_le (collected r max m hsel)); [|exact Hd|].
    - intros s x s' x' D D' Hr Hi. destruct D as (_ & D2 & _ & _ & D5 & D6 & _). destruct D' as (_ & D2' & _ & _ & D5' & D6' & _).
      rewrite D5, D6, D5', D6'. apply Hr. congruence.
    - unfold collected. destruct (firstn_z_prefix max (filter (sel r m hsel) (r_samples r))) as [rest E].
      apply (sorted_app_l _ _ rest). rewrite <- E. now apply sorted_filter. }
  (* absolute_generation_rank is non-negative *)
  assert (Hag : Forall (fun x => 0 <= f_agrank x) l).
  { eapply (forall2_forall (describes r) (fun s => In s (r_samples r))); [|exact Hd|].
    - intros s x D Hs. destruct D as (_ & _ & _ & _ & _ & _ & _ & _ & i & Hi & _ & _ & Ea).
      destruct (G1 s Hs) as (i' & Hi' & Hle). rewrite Hi in Hi'. injection Hi' as <-.
      unfold gen_s, gen_i in Hle. lia.
    - rewrite Forall_forall. exact Hsub. }
  rewrite Forall_forall. intros x Hx.
  destruct (in_split x l Hx) as (l1 & l2 & El).
  destruct (ranks_match_dds _ _ _ _ _ _ _ H l1 x l2 El) as (Hs & Hg & Hxa).
  destruct (mrsic_exists l x Hx) as (a & y & b & Ey & Hiy & Hb').
  specialize (Hg a y b Ey Hiy Hb').
  assert (Hy : In y l) by (rewrite Ey; apply in_elt).
  destruct (ranks_match_dds _ _ _ _ _ _ _ H a y b Ey) as (_ & _ & Hya).
  split; [rewrite Hs; lia|].
  assert (Hxy : f_dgc x + f_nwgc x <= f_dgc y + f_nwgc y).
  { rewrite Ey in Hx. apply in_app_or in Hx. destruct Hx as [Hx|[<-|Hx]].
    - rewrite Ey in Hsorted. apply (sorted_mid info_gen_le a y b x Hsorted Hx). now symmetry.
    - lia.
    - exfalso. now apply (Hb' x Hx). }
  split; [lia|].
  destruct Hxa as (i & Hi & Exa). destruct Hya as (j & Hj & Eya). rewrite Hiy, Hi in Hj. injection Hj as <-.
  rewrite Forall_forall in Hag. specialize (Hag y Hy). lia.
Qed.

(* with BY_SOURCE_TIMESTAMP the "most recent sample in the collection" is the one with the
   latest source timestamp, which may have been received in an earlier generation: the
   generation_rank of the definition can then be negative *)
Lemma grank_negative_by_source_witness :
  exists l, snd (collect (run (mkQ true None None None None false (Some 0))
                              [OpAdd 1 1 KAlive (Some 10) 100 10; OpAdd 1 1 KDisposed (Some 20) 101 20;
                               OpAdd 1 1 KAlive (Some 5) 102 30])
                         (-1) all_masks None false) = CollOk l /\
            map f_data l = [102; 100; 101] /\ map f_grank l = [-1; 0; 0].
Proof. eexists. split; [vm_compute; reflexivity|]. split; vm_compute; reflexivity. Qed.
