(* C19: the reader's RESOURCE_LIMITS are never exceeded, a rejected sample is not stored,
   and the reported reason is the limit that was hit (in the code's priority order). *)
From DustDDS Require Import Base.Machine Cache.ReaderModel Cache.ReaderFacts Cache.ReaderCorr
  Cache.LimitsDefs Cache.C18Proofs.
Open Scope Z_scope.

(* ---- distinct_insts: the instance handles of the stored samples, without repeats ---- *)
Lemma existsb_eqb_in x l : existsb (Z.eqb x) l = true <-> In x l.
Proof.
  rewrite existsb_exists. split.
  - intros (y & Hy & E). apply Z.eqb_eq in E. now subst.
  - intros H. exists x. split; [exact H|apply Z.eqb_refl].
Qed.
Lemma existsb_eqb_notin x l : existsb (Z.eqb x) l = false <-> ~ In x l.
Proof. rewrite <- existsb_eqb_in. destruct (existsb (Z.eqb x) l); intuition congruence. Qed.

Lemma distinct_in l : forall acc x, In x (distinct_insts l acc) <-> In x acc \/ In x (map s_inst l).
Proof.
  induction l as [|s l IH]; intros acc x; cbn [distinct_insts map In]; [tauto|].
  destruct (existsb (Z.eqb (s_inst s)) acc) eqn:E; rewrite IH.
  - apply existsb_eqb_in in E. split; [tauto|]. intros [H|[<-|H]]; tauto.
  - rewrite in_app_iff. cbn [In]. tauto.
Qed.
Lemma nodup_snoc {A} (l : list A) x : NoDup l -> ~ In x l -> NoDup (l ++ [x]).
Proof.
  intros H Hx. induction H as [|y l Hy H IH]; cbn [app]; [constructor; [intros []|constructor]|].
  constructor.
  - rewrite in_app_iff. cbn [In]. intros [?|[<-|[]]]; [tauto|]. apply Hx. now left.
  - apply IH. intros Hin. apply Hx. now right.
Qed.
Lemma distinct_nodup l : forall acc, NoDup acc -> NoDup (distinct_insts l acc).
Proof.
  induction l as [|s l IH]; intros acc H; cbn [distinct_insts]; [exact H|].
  destruct (existsb (Z.eqb (s_inst s)) acc) eqn:E; apply IH; [exact H|].
  apply existsb_eqb_notin in E. now apply nodup_snoc.
Qed.

(* the number of distinct instances grows by at most the new handles *)
Lemma distinct_length_incl l l' :
  (forall x, In x (map s_inst l') -> In x (map s_inst l)) ->
  (length (distinct_insts l' []) <= length (distinct_insts l []))%nat.
Proof.
  intros H. apply NoDup_incl_length; [apply distinct_nodup; constructor|].
  intros x Hx. apply distinct_in. right. apply H. apply distinct_in in Hx. destruct Hx as [[]|Hx]. exact Hx.
Qed.
Lemma distinct_length_incl1 l l' h :
  (forall x, In x (map s_inst l') -> x = h \/ In x (map s_inst l)) ->
  (length (distinct_insts l' []) <= Datatypes.S (length (distinct_insts l [])))%nat.
Proof.
  intros H. change (Datatypes.S (length (distinct_insts l []))) with (length (h :: distinct_insts l [])).
  apply NoDup_incl_length; [apply distinct_nodup; constructor|].
  intros x Hx. apply distinct_in in Hx. destruct Hx as [[]|Hx].
  destruct (H x Hx) as [->|Hin]; [now left|right]. apply distinct_in. now right.
Qed.

(* ---- (a) the limits invariant ---- *)
Lemma lim_ok_le lim a b : a <= b -> lim_ok lim b = true -> lim_ok lim a = true.
Proof. unfold lim_ok. destruct lim; [|auto]. rewrite !Z.leb_le. lia. Qed.
Lemma lim_ok_succ lim n : lim_ok lim n = true -> len_eq lim n = false -> lim_ok lim (n + 1) = true.
Proof.
  unfold lim_ok, len_eq. destruct lim as [v|]; [|auto]. rewrite Z.leb_le, Z.eqb_neq, Z.leb_le. lia.
Qed.

Lemma of_other h h0 x : h0 <> h -> alive_of_inst h x = true -> of_inst h0 x = false.
Proof.
  intros Hne Hx. apply alive_of_inst_of in Hx. unfold of_inst in *. apply Z.eqb_eq in Hx.
  destruct (s_inst x =? h0) eqn:E; [apply Z.eqb_eq in E; congruence|reflexivity].
Qed.

Lemma add_within r w data k h t rts :
  within (r_qos r) (r_samples r) -> within (r_qos r) (r_samples (fst (add_change r w data k h t rts))).
Proof.
  intros (Hms & Hmi & Hmspi). pose proof (add_change_outcome r w data k h t rts) as O.
  destruct (add_change r w data k h t rts) as [r' a]. cbn [fst].
  inversion O as [? ? _ _ Hs|? _ _ Hs|? _ _ _ Hs|? _ _ _ _ Hs|? _ _ _ _ _ _ Hs
                 |? smp _ H1 H2 H3 _ Hi _ _ _ _ Hpos Hs]; subst;
    try (rewrite Hs; repeat split; assumption).
  rewrite Hs. unfold ms_hit, mi_hit, mspi_hit in *.
  set (h := s_inst smp) in *. set (l := r_samples r) in *. set (q := r_qos r) in *.
  repeat split.
  - (* max_samples *)
    rewrite length_place, Nat2Z.inj_succ, <- Z.add_1_r.
    destruct (replaces_b r h) eqn:E.
    + rewrite (length_remove_first _ _ (Hpos eq_refl)). now replace (Z.of_nat (length l) - 1 + 1) with (Z.of_nat (length l)) by lia.
    + cbn [negb andb] in H1. now apply lim_ok_succ.
  - (* max_instances *)
    assert (Hsub : forall x, In x (map s_inst (place q t smp (if replaces_b r h then remove_first (alive_of_inst h) l else l))) ->
                             x = h \/ In x (map s_inst l)).
    { intros x (s & <- & Hin)%in_map_iff. apply in_place in Hin as [->|Hin]; [now left|right].
      apply in_map. destruct (replaces_b r h); [eapply in_remove_first|]; exact Hin. }
    destruct (existsb (Z.eqb h) (distinct_insts l [])) eqn:E.
    + apply existsb_eqb_in, distinct_in in E. destruct E as [[]|E].
      eapply lim_ok_le; [|exact Hmi]. apply inj_le, distinct_length_incl.
      intros x Hx. destruct (Hsub x Hx) as [->|?]; assumption.
    + eapply lim_ok_le; [|apply (lim_ok_succ _ _ Hmi H2)].
      pose proof (distinct_length_incl1 l _ h Hsub). lia.
  - (* max_samples_per_instance *)
    intros h0. rewrite count_place. specialize (Hmspi h0). fold l in Hmspi.
    destruct (Z.eq_dec h0 h) as [->|Hne].
    + assert (Eo : of_inst h smp = true) by (unfold of_inst, h; apply Z.eqb_refl). rewrite Eo.
      destruct (replaces_b r h) eqn:E.
      * rewrite (count_remove_first _ _ _ (alive_of_inst_of h) (Hpos eq_refl)).
        now replace (1 + (count (of_inst h) l - 1)) with (count (of_inst h) l) by lia.
      * cbn [negb andb] in H3. rewrite Z.add_comm. now apply lim_ok_succ.
    + assert (Eo : of_inst h0 smp = false).
      { unfold of_inst. fold h. destruct (h =? h0) eqn:E; [apply Z.eqb_eq in E; congruence|reflexivity]. }
      rewrite Eo. destruct (replaces_b r h); [|exact Hmspi].
      rewrite count_remove_first_other; [exact Hmspi|]. intros x. now apply of_other.
Qed.

Lemma thinned_within q k l : thinned k l -> within q l -> within q k.
Proof.
  intros H (Hms & Hmi & Hmspi). repeat split.
  - eapply lim_ok_le; [|exact Hms]. apply inj_le, thinned_length, H.
  - eapply lim_ok_le; [|exact Hmi]. apply inj_le, distinct_length_incl, thinned_inst_in, H.
  - intros h. eapply lim_ok_le; [|apply (Hmspi h)]. apply thinned_count; [intros; apply of_inst_mark|exact H].
Qed.

Lemma step_within r o : within (r_qos r) (r_samples r) -> within (r_qos r) (r_samples (fst (step r o))).
Proof.
  intros H. destruct o as [w h k t data rts| | | | | |].
  1:{ cbn [step]. pose proof (add_within r w data k h t rts H) as A.
      destruct (add_change r w data k h t rts). exact A. }
  all: eapply thinned_within; [|exact H]; apply step_samples_thinned; intros; discriminate.
Qed.

Theorem limits_invariant q ops : limits_nonneg q -> within q (r_samples (run q ops)).
Proof.
  intros (H1 & H2 & H3). unfold run.
  change (fst (run_obs (init_reader q) ops)) with (run_from (init_reader q) ops).
  apply (run_from_inv (fun r => r_qos r = q /\ within q (r_samples r))).
  - intros r o [Hq Hw]. split; [now rewrite step_qos|]. rewrite <- Hq. apply step_within. now rewrite Hq.
  - split; [reflexivity|]. unfold within, lim_ok, lim_nonneg in *. cbn [init_reader r_samples length distinct_insts].
    repeat split; [destruct (q_ms q)|destruct (q_mi q)|intros h; destruct (q_mspi q)]; auto; apply Z.leb_le; cbn; lia.
Qed.

(* ---- (b), (d) what is not accepted is not stored ---- *)
Theorem rejected_not_stored r w data k h t rts :
  snd (add_change r w data k h t rts) <> Added ->
  r_samples (fst (add_change r w data k h t rts)) = r_samples r.
Proof. apply add_change_added_iff. Qed.

(* over histories: whatever is stored was accepted (result Added) for that instance *)
Theorem stored_was_accepted q ops s :
  In s (r_samples (run q ops)) -> In (s_data s) (accepted (s_inst s) (run_trace (init_reader q) ops)).
Proof.
  pose proof (run_trace_inv (fun _ => true)
     (fun r tr => forall s, In s (r_samples r) -> In (s_data s) (accepted (s_inst s) tr))) as H.
  specialize (H) with (ops := ops) (r := init_reader q) (tr := @nil (op * obs)).
  revert s. apply H; [|clear; induction ops; auto|intros s []].
  clear. intros r tr o _ Hinv s Hin. rewrite accepted_snoc, in_app_iff.
  assert (Hth : forall k l, thinned k l -> forall s, In s k -> exists s', In s' l /\ s_data s' = s_data s /\ s_inst s' = s_inst s).
  { intros k l T. induction T; intros z Hz; [destruct Hz| | |].
    - destruct Hz as [<-|Hz]; [exists s0; cbn [In]; auto|]. destruct (IHT z Hz) as (s' & ? & ?). exists s'. cbn [In]. auto.
    - destruct Hz as [<-|Hz]; [exists s0; cbn [In]; auto|]. destruct (IHT z Hz) as (s' & ? & ?). exists s'. cbn [In]. auto.
    - destruct (IHT z Hz) as (s' & ? & ?). exists s'. cbn [In]. auto. }
  destruct o as [w h k t data rts| | | | | |].
  2-7: left;
    match type of Hin with In _ (r_samples (fst (step _ ?o))) =>
      assert (T : thinned (r_samples (fst (step r o))) (r_samples r))
        by (apply step_samples_thinned; intros; discriminate) end;
    destruct (Hth _ _ T s Hin) as (s' & Hin' & <- & <-); now apply Hinv.
  cbn [step] in *. pose proof (add_change_outcome r w data k h t rts) as O.
  destruct (add_change r w data k h t rts) as [r' a]. cbn [fst snd] in *.
  inversion O as [? ? _ _ Hs|? _ _ Hs|? _ _ _ Hs|? _ _ _ _ Hs|? _ _ _ _ _ _ Hs
                 |? smp _ _ _ _ _ Hi Hda _ _ _ _ Hs]; subst;
    try (left; apply Hinv; rewrite <- Hs; exact Hin).
  rewrite Hs in Hin. apply in_place in Hin as [->|Hin].
  - right. cbn [accepted_one]. rewrite Z.eqb_refl. now left.
  - left. apply Hinv. destruct (replaces_b r _); [eapply in_remove_first|]; exact Hin.
Qed.

(* ---- (c) the reason reported ---- *)
Theorem rejected2_iff r w data k h t rts h' :
  snd (add_change r w data k h t rts) = Rejected h' 2 <->
  h' = h /\ passes_gates r w k h t rts = true /\ ms_hit r h = true.
Proof.
  pose proof (add_change_outcome r w data k h t rts) as O.
  destruct (add_change r w data k h t rts) as [r' a]. cbn [snd].
  inversion O as [? ? Hg [?|?] _|? Hg H1 _|? Hg H1 H2 _|? Hg H1 H2 H3 _|? Hg H1 H2 H3 _ _ _|? smp Hg H1 H2 H3]; subst;
    split; try discriminate; try (intros (_ & G1 & G2); congruence).
  - intros H. injection H as <-. repeat split; assumption.
  - intros (-> & _). reflexivity.
Qed.
Theorem rejected1_iff r w data k h t rts h' :
  snd (add_change r w data k h t rts) = Rejected h' 1 <->
  h' = h /\ passes_gates r w k h t rts = true /\ ms_hit r h = false /\ mi_hit r h = true.
Proof.
  pose proof (add_change_outcome r w data k h t rts) as O.
  destruct (add_change r w data k h t rts) as [r' a]. cbn [snd].
  inversion O as [? ? Hg [?|?] _|? Hg H1 _|? Hg H1 H2 _|? Hg H1 H2 H3 _|? Hg H1 H2 H3 _ _ _|? smp Hg H1 H2 H3]; subst;
    split; try discriminate; try (intros (_ & G1 & G2 & G3); congruence).
  - intros H. injection H as <-. repeat split; assumption.
  - intros (-> & _). reflexivity.
Qed.
Theorem rejected_reasons r w data k h t rts h' c :
  snd (add_change r w data k h t rts) = Rejected h' c -> h' = h /\ (c = 1 \/ c = 2 \/ c = 3).
Proof.
  pose proof (add_change_outcome r w data k h t rts) as O.
  destruct (add_change r w data k h t rts) as [r' a]. cbn [snd].
  inversion O as [? ? Hg [?|?] _| | | | |]; subst; try discriminate; intros HR; injection HR as <- <-; auto.
Qed.
(* a sample is stored exactly when it passes the gates and no limit is hit
   (the depth-0 panic aside) *)
Theorem added_iff r w data k h t rts :
  snd (add_change r w data k h t rts) = Added <->
  passes_gates r w k h t rts = true /\ ms_hit r h = false /\ mi_hit r h = false /\ mspi_hit r h = false /\
  ~ (q_depth (r_qos r) = Some 0 /\ count (alive_of_inst h) (r_samples r) = 0).
Proof.
  pose proof (add_change_outcome r w data k h t rts) as O.
  destruct (add_change r w data k h t rts) as [r' a]. cbn [snd].
  inversion O as [? ? Hg [?|?] _|? Hg H1 _|? Hg H1 H2 _|? Hg H1 H2 H3 _|? Hg H1 H2 H3 Hd Hc _
                 |? smp Hg H1 H2 H3 _ _ _ _ _ _ Hpos _]; subst;
    split; try discriminate; try (intros (G0 & G1 & G2 & G3 & G4); try congruence).
  - elim G4. auto.
  - intros _. repeat split; auto. intros [Hd Hc].
    assert (E : replaces_b r h = true) by (unfold replaces_b; rewrite Hd, Hc; reflexivity).
    specialize (Hpos E). lia.
Qed.

(* the meaning of the three tests, spelled out *)
Lemma ms_hit_spec r h :
  ms_hit r h = true <->
  q_ms (r_qos r) = Some (Z.of_nat (length (r_samples r))) /\
  q_depth (r_qos r) <> Some (count (alive_of_inst h) (r_samples r)).
Proof.
  unfold ms_hit, replaces_b, len_eq. rewrite andb_true_iff, negb_true_iff.
  destruct (q_depth (r_qos r)) as [d|], (q_ms (r_qos r)) as [m|]; rewrite ?Z.eqb_neq, ?Z.eqb_eq;
    split; intros [A B]; try discriminate; split; try congruence.
Qed.
Lemma mi_hit_spec r h :
  mi_hit r h = true <->
  q_mi (r_qos r) = Some (Z.of_nat (length (distinct_insts (r_samples r) []))) /\
  ~ In h (map s_inst (r_samples r)).
Proof.
  unfold mi_hit, len_eq.
  destruct (existsb (Z.eqb h) (distinct_insts (r_samples r) [])) eqn:E.
  - apply existsb_eqb_in, distinct_in in E. destruct E as [[]|E]. split; [discriminate|tauto].
  - apply existsb_eqb_notin in E. rewrite distinct_in in E.
    destruct (q_mi (r_qos r)) as [m|].
    + rewrite Z.eqb_eq. split; [intros ->; split; [reflexivity|tauto]|intros [A _]; congruence].
    + split; [discriminate|intros [A _]; discriminate].
Qed.
Lemma mspi_hit_spec r h :
  mspi_hit r h = true <->
  q_mspi (r_qos r) = Some (count (of_inst h) (r_samples r)) /\
  q_depth (r_qos r) <> Some (count (alive_of_inst h) (r_samples r)).
Proof.
  unfold mspi_hit, replaces_b, len_eq. rewrite andb_true_iff, negb_true_iff.
  destruct (q_depth (r_qos r)) as [d|], (q_mspi (r_qos r)) as [m|]; rewrite ?Z.eqb_neq, ?Z.eqb_eq;
    split; intros [A B]; try discriminate; split; try congruence.
Qed.
