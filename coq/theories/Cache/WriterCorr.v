(* Correspondence vocabulary and oracle for the writer clause of C19.
   A case = QoS + operation sequence + what the REAL DataWriterEntity returned for each
   operation together with its bookkeeping after it (instances with their number of
   samples, number of changes held by the transport writer, last sequence number) and
   the complete final state.  `C19W_model_ok` compares all of it with the model;
   `C19W_oracle_ok` judges the implementation's own outputs against the property text. *)
From DustDDS Require Export Base.Machine Cache.WriterModel.
Open Scope Z_scope.

Record wev := mkWev { we_res : Z; we_snap : list (Z * Z); we_nch : Z; we_seq : Z }.
Record Wr_case := mkWr { wc_q : wqos; wc_ops : list wop; wc_evs : list wev;
                         wc_fi : list winst; wc_fc : list change; wc_fs : Z }.

Fixpoint wlist_eqb {A} (e : A -> A -> bool) (x y : list A) : bool :=
  match x, y with
  | [], [] => true
  | a :: x', b :: y' => e a b && wlist_eqb e x' y'
  | _, _ => false
  end.
Definition pair_eqb (a b : Z * Z) : bool := (fst a =? fst b) && (snd a =? snd b).
Definition oz_eqb (a b : option Z) : bool :=
  match a, b with None, None => true | Some x, Some y => x =? y | _, _ => false end.
Definition winst_eqb (a b : winst) : bool :=
  (wi_h a =? wi_h b) && oz_eqb (wi_lwt a) (wi_lwt b) && wlist_eqb Z.eqb (wi_samples a) (wi_samples b).
Definition change_eqb (a b : change) : bool :=
  (c_seq a =? c_seq b) && (c_h a =? c_h b) && (c_data a =? c_data b) && (c_ts a =? c_ts b).
Definition wev_eqb (a b : wev) : bool :=
  (we_res a =? we_res b) && wlist_eqb pair_eqb (we_snap a) (we_snap b) && (we_nch a =? we_nch b) &&
  (we_seq a =? we_seq b).

Definition res_code (r : wres) : Z := match r with WOk => 0 | WOutOfResources => 1 | WPanic => 9 end.
Definition snap_of (w : writer) : list (Z * Z) := map (fun x => (wi_h x, slen x)) (w_insts w).
Definition wev_of (w : writer) (r : wres) : wev :=
  mkWev (res_code r) (snap_of w) (Z.of_nat (length (w_changes w))) (w_seq w).
Fixpoint w_model_evs (w : writer) (ops : list wop) : writer * list wev :=
  match ops with
  | [] => (w, [])
  | o :: t => let '(w1, x) := w_step w o in
              let '(w2, es) := w_model_evs w1 t in (w2, wev_of w1 x :: es)
  end.
Definition C19W_model_ok (c : Wr_case) : bool :=
  let '(w, es) := w_model_evs (init_writer (wc_q c)) (wc_ops c) in
  wlist_eqb wev_eqb es (wc_evs c) && wlist_eqb winst_eqb (w_insts w) (wc_fi c) &&
  wlist_eqb change_eqb (w_changes w) (wc_fc c) && (w_seq w =? wc_fs c).

(* ---------- the oracle, on the implementation's own snapshots ---------- *)
Fixpoint lookup (h : Z) (l : list (Z * Z)) : option Z :=
  match l with [] => None | (k, v) :: t => if k =? h then Some v else lookup h t end.
Definition snap_total (l : list (Z * Z)) : Z := fold_left (fun acc x => acc + snd x) l 0.
Definition snap_within (q : wqos) (l : list (Z * Z)) : bool :=
  wlim_ok (wq_ms q) (snap_total l) && wlim_ok (wq_mi q) (Z.of_nat (length l)) &&
  forallb (fun x => wlim_ok (wq_mspi q) (snd x)) l.
(* would storing one more sample of instance h exceed a limit, judged on the bookkeeping l *)
Definition must_reject (q : wqos) (l : list (Z * Z)) (h : Z) : bool :=
  match lookup h l with
  | None => negb (len_lt (Z.of_nat (length l)) (wq_mi q)) ||
            match wq_mspi q, wq_depth q with
            | Some m, None => m <=? 0
            | Some m, Some d => negb (d <=? m) && (m <=? 0)
            | None, _ => false end ||
            match wq_ms q with Some m => m <=? snap_total l | None => false end
  | Some n => match wq_mspi q, wq_depth q with
              | Some m, None => m <=? n
              | Some m, Some d => negb (d <=? m) && (m <=? n)
              | None, _ => false end ||
              match wq_ms q with Some m => m <=? snap_total l | None => false end
  end.
(* the KEEP_LAST step is about to pop a sample of h *)
Definition will_pop (q : wqos) (l : list (Z * Z)) (h : Z) : bool :=
  match wq_depth q, lookup h l with Some d, Some n => (n =? d) && (0 <? n) | _, _ => false end.
Definition same_state (a b : wev) : bool :=
  wlist_eqb pair_eqb (we_snap a) (we_snap b) && (we_nch a =? we_nch b) && (we_seq a =? we_seq b).
Fixpoint w_walk (q : wqos) (prev : wev) (tr : list (wop * wev)) : bool :=
  match tr with
  | [] => true
  | (o, e) :: t =>
      (match o with
       | WPre _ => we_res e =? 0
       | WWrite h _ _ _ | WApp h _ _ _ =>
           let popped := match o with WApp _ _ _ _ => will_pop q (we_snap prev) h | _ => false end in
           if we_res e =? 1 then
             (* refused: nothing stored (no sample, no instance record), nothing removed, and a
                limit really is in the way *)
             same_state prev e &&
             negb popped && must_reject q (we_snap prev) h
           else if we_res e =? 0 then
             (* accepted: exactly one new sequence number, recorded for h *)
             (we_seq e =? we_seq prev + 1) &&
             (match lookup h (we_snap e), lookup h (we_snap prev) with
              | Some n', Some n => n' =? (if popped then n else n + 1)
              | Some n', None => n' =? 1
              | None, _ => false end) &&
             (we_nch e <=? we_nch prev + 1) &&
             (popped || negb (must_reject q (we_snap prev) h))
           else false
       end) && w_walk q e t
  end.
Fixpoint wzip {A B} (a : list A) (b : list B) : list (A * B) :=
  match a, b with x :: a', y :: b' => (x, y) :: wzip a' b' | _, _ => [] end.
Definition app_only (c : Wr_case) : bool := forallb app_op (wc_ops c).
Definition depth_ok (q : wqos) : bool := match wq_depth q with Some d => 1 <=? d | None => true end.
Definition w_oracle (c : Wr_case) : bool :=
  let q := wc_q c in
  w_walk q (mkWev 0 [] 0 0) (wzip (wc_ops c) (wc_evs c)) &&
  (Nat.eqb (length (wc_ops c)) (length (wc_evs c))) &&
  (* the limits are never exceeded when the writer is used through DataWriter::write *)
  (if app_only c && depth_ok q then forallb (fun e => snap_within q (we_snap e)) (wc_evs c) else true).
Definition C19W_oracle_ok (c : Wr_case) : bool := w_oracle c.
(* no recorded deviation is left (C19-failed-write-registers-instance was fixed in 3010f06) *)
Definition C19W_known (c : Wr_case) : N := 0%N.
