(* MD5 (RFC 1321) over N.  Definitions only; the RFC test vectors are checked in
   KeyProofs.v by vm_compute and the function is compared with the `md5` crate on
   every check through the key-hash correspondence run (keys longer than 16 bytes). *)
From Coq Require Import NArith ZArith List.
Import ListNotations.
Open Scope N_scope.

Definition mask32 : N := 4294967295.
Definition add32 (a b : N) : N := N.land (a + b) mask32.
Definition not32 (x : N) : N := N.lxor (N.land x mask32) mask32.
Definition rotl32 (x c : N) : N :=
  N.land (N.lor (N.shiftl x c) (N.shiftr x (32 - c))) mask32.

(* K[i] = floor(2^32 * |sin(i+1)|) *)
Definition md5_K : list N :=
  [3614090360; 3905402710; 606105819; 3250441966; 4118548399; 1200080426; 2821735955; 4249261313;
   1770035416; 2336552879; 4294925233; 2304563134; 1804603682; 4254626195; 2792965006; 1236535329;
   4129170786; 3225465664; 643717713; 3921069994; 3593408605; 38016083; 3634488961; 3889429448;
   568446438; 3275163606; 4107603335; 1163531501; 2850285829; 4243563512; 1735328473; 2368359562;
   4294588738; 2272392833; 1839030562; 4259657740; 2763975236; 1272893353; 4139469664; 3200236656;
   681279174; 3936430074; 3572445317; 76029189; 3654602809; 3873151461; 530742520; 3299628645;
   4096336452; 1126891415; 2878612391; 4237533241; 1700485571; 2399980690; 4293915773; 2240044497;
   1873313359; 4264355552; 2734768916; 1309151649; 4149444226; 3174756917; 718787259; 3951481745].

Definition md5_S : list N :=
  [7; 12; 17; 22; 7; 12; 17; 22; 7; 12; 17; 22; 7; 12; 17; 22;
   5; 9; 14; 20; 5; 9; 14; 20; 5; 9; 14; 20; 5; 9; 14; 20;
   4; 11; 16; 23; 4; 11; 16; 23; 4; 11; 16; 23; 4; 11; 16; 23;
   6; 10; 15; 21; 6; 10; 15; 21; 6; 10; 15; 21; 6; 10; 15; 21].

Definition md5_F (i b c d : N) : N :=
  if i <? 16 then N.lor (N.land b c) (N.land (not32 b) d)
  else if i <? 32 then N.lor (N.land d b) (N.land (not32 d) c)
  else if i <? 48 then N.lxor (N.lxor b c) d
  else N.lxor c (N.lor b (not32 d)).

Definition md5_G (i : N) : N :=
  if i <? 16 then i
  else if i <? 32 then (5 * i + 1) mod 16
  else if i <? 48 then (3 * i + 5) mod 16
  else (7 * i) mod 16.

Definition nthN (l : list N) (i : N) : N := nth (N.to_nat i) l 0.

Record md5_state : Type := mkMd5 { sA : N; sB : N; sC : N; sD : N }.

Definition md5_init : md5_state := mkMd5 1732584193 4023233417 2562383102 271733878.

(* one of the 64 operations on the 16 message words m *)
Definition md5_op (m : list N) (s : md5_state) (i : N) : md5_state :=
  let f := add32 (add32 (add32 (md5_F i (sB s) (sC s) (sD s)) (sA s)) (nthN md5_K i))
                 (nthN m (md5_G i)) in
  mkMd5 (sD s) (add32 (sB s) (rotl32 f (nthN md5_S i))) (sB s) (sC s).

Definition idx64 : list N := map N.of_nat (seq 0 64).

Definition md5_block (s : md5_state) (m : list N) : md5_state :=
  let r := fold_left (md5_op m) idx64 s in
  mkMd5 (add32 (sA s) (sA r)) (add32 (sB s) (sB r)) (add32 (sC s) (sC r)) (add32 (sD s) (sD r)).

(* little-endian words *)
Fixpoint words_le (bs : list N) : list N :=
  match bs with
  | b0 :: b1 :: b2 :: b3 :: r => (b0 + 256 * b1 + 65536 * b2 + 16777216 * b3) :: words_le r
  | _ => []
  end.

Definition le_bytes4 (w : N) : list N :=
  [w mod 256; (w / 256) mod 256; (w / 65536) mod 256; (w / 16777216) mod 256].

Definition le_bytes8 (w : N) : list N :=
  le_bytes4 (w mod 4294967296) ++ le_bytes4 ((w / 4294967296) mod 4294967296).

Definition md5_pad (msg : list N) : list N :=
  let len := N.of_nat (length msg) in
  let zeros := (64 + 55 - len mod 64) mod 64 in
  msg ++ [128] ++ repeat 0 (N.to_nat zeros) ++ le_bytes8 ((8 * len) mod 18446744073709551616).

Fixpoint md5_blocks (fuel : nat) (s : md5_state) (bs : list N) : md5_state :=
  match fuel with
  | O => s
  | S k => match bs with
           | [] => s
           | _ => md5_blocks k (md5_block s (words_le (firstn 64 bs))) (skipn 64 bs)
           end
  end.

Definition md5N (msg : list N) : list N :=
  let p := md5_pad msg in
  let s := md5_blocks (S (length p / 64)) md5_init p in
  le_bytes4 (sA s) ++ le_bytes4 (sB s) ++ le_bytes4 (sC s) ++ le_bytes4 (sD s).

(* bytes as Z (the key-hash model uses Z everywhere) *)
Definition md5 (msg : list Z) : list Z := map Z.of_N (md5N (map Z.to_N msg)).
