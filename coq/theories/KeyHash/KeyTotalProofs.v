(* Every well-formed key of a supported keyed type gets a 16-byte handle. *)
From DustDDS Require Import Base.Machine KeyHash.Md5Model KeyHash.KeyModel
  KeyHash.KeyBytesProofs KeyHash.KeyProofs KeyHash.KeyEncProofs KeyHash.KeyMainProofs.
Open Scope Z_scope.

Lemma enc_list_total : forall (A : Type) (ok : A -> Prop) f,
  (forall p a, ok a -> exists b, f p a = Ok b) ->
  forall l p, Forall ok l -> exists b, @enc_list A f p l = Ok b.
Proof.
  intros A ok f Hf. induction l as [|a l IH]; intros p F; cbn [enc_list]; eauto.
  inversion F; subst. destruct (Hf p a H1) as [c ->]. cbn [bind].
  destruct (IH (p + len c) H2) as [d ->]. cbn [bind]. eauto.
Qed.

Definition P_tot (t : ty) : Prop :=
  ty_ok t = true -> forall pos v, val_ok t v = true -> exists b, enc_raw pos t v = Ok b.
Definition Q_tot (ms : members) : Prop :=
  ms_ok ms = true -> forall pos vs, vals_ok (tys_of ms) vs = true -> exists b, enc_vals pos ms vs = Ok b.

Lemma elems_total : forall e, P_tot e -> ty_ok e = true ->
  forall pos v nok, elems_ok e v nok = true -> exists b, enc_elems pos e v = Ok b.
Proof.
  intros e IH Ht pos v nok H. rewrite (enc_elems_as_list _ _ _ _ Ht H).
  eapply (enc_list_total value (fun a => val_ok e a = true)).
  - intros. apply (IH Ht). auto.
  - apply (elems_ok_values _ _ _ H).
Qed.

Lemma enc_total : (forall t, P_tot t) /\ (forall ms, Q_tot ms).
Proof.
  apply ty_members_ind.
  - intros p _ pos v V. destruct v; cbn [val_ok] in V; try discriminate.
    apply andb_prop in V as [S _]. cbn [enc_raw]. rewrite S. eauto.
  - intros b _ pos v V. destruct v; cbn [val_ok] in V; try discriminate. cbn [enc_raw]. eauto.
  - intros e IH b Ht pos v V. cbn [ty_ok] in Ht. apply andb_prop in Ht as [_ Hte].
    cbn [val_ok] in V. cbn [enc_raw].
    match goal with |- context [enc_elems ?p e v] => destruct (elems_total e IH Hte p v _ V) as [c ->] end.
    cbn [bind]. eauto.
  - intros e IH dims Ht pos v V. cbn [ty_ok] in Ht. apply andb_prop in Ht as [_ Hte].
    cbn [val_ok] in V. cbn [enc_raw]. eapply elems_total; eauto.
  - intros x ms IH Ht pos v V. pose proof (struct_not_mutable _ _ Ht) as Hx.
    cbn [ty_ok] in Ht. apply andb_prop in Ht as [Ht _]. apply andb_prop in Ht as [Ht Hms].
    apply andb_prop in Ht as [_ Hnd].
    destruct v; cbn [val_ok] in V; try discriminate.
    rewrite enc_raw_struct by auto. rewrite enc_fs_fvals by auto. apply (IH Hms). apply fs_ok_vals. auto.
  - intros _ pos vs V. destruct vs; cbn in V; try discriminate. cbn [enc_vals]. eauto.
  - intros id k o t IHt r IHr Hms pos vs V.
    cbn [ms_ok] in Hms. apply andb_prop in Hms as [Hms Hr]. apply andb_prop in Hms as [Ho Ht].
    apply negb_true_iff in Ho. subst o.
    destruct vs as [|v vs]; cbn [tys_of vals_ok] in V; try discriminate.
    apply andb_prop in V as [V1 V2]. cbn [enc_vals].
    destruct (IHt Ht pos v V1) as [c ->]. cbn [bind].
    destruct (IHr Hr (pos + len c) vs V2) as [d ->]. cbn [bind]. eauto.
Qed.

Lemma md5_length : forall b, length (md5 b) = 16%nat.
Proof. intros. unfold md5, md5N. rewrite map_length, !app_length. reflexivity. Qed.

Lemma pad16_length : forall b, len b <= 16 -> length (pad16 b) = 16%nat.
Proof.
  intros b H. unfold pad16. rewrite app_length. unfold zeros. rewrite repeat_length.
  unfold len in *. lia.
Qed.

Theorem handle_total : forall t d,
  key_type_ok t = true -> key_ids_unique t = true -> key_ok t d = true ->
  exists h, instance_handle t d = Ok h /\ length h = 16%nat.
Proof.
  intros t d Hok Hu K. unfold key_ok in K.
  destruct (key_vals_ty t d) as [vs| |] eqn:V; try discriminate.
  unfold instance_handle. rewrite (key_bytes_vals t d vs) by auto.
  destruct (proj2 enc_total (kh_type t) Hok 0 vs K) as [b ->]. cbn [bind].
  eexists. split; [reflexivity|]. unfold handle_of_bytes.
  destruct (len b <=? 16) eqn:L; [apply pad16_length; lia|apply md5_length].
Qed.

(* the property in one statement: outside the collision class and barring an MD5
   coincidence of the two serialized keys, same handle <-> same key members *)
Theorem same_handle_iff_same_key : forall t d1 d2,
  key_type_ok t = true -> key_ids_unique t = true ->
  key_ok t d1 = true -> key_ok t d2 = true ->
  ~ (exists b1 b2, key_bytes t d1 = Ok b1 /\ key_bytes t d2 = Ok b2 /\ md5_coincidence b1 b2) ->
  (instance_handle t d1 = instance_handle t d2 <-> key_vals_ty t d1 = key_vals_ty t d2).
Proof.
  intros t d1 d2 Hok Hu K1 K2 Hno. split; [|apply handle_eq_of_key_eq].
  intros E. destruct (handle_total t d1 Hok Hu K1) as [h [H1 _]].
  assert (H2 : instance_handle t d2 = Ok h) by congruence.
  destruct (key_eq_of_handle_eq t d1 d2 h Hok Hu K1 K2 H1 H2) as [G|G]; [exact G|contradiction].
Qed.

(* the same three statements without the (always true) uniqueness hypothesis *)
Theorem key_eq_of_handle_eq' : forall t d1 d2 h,
  key_type_ok t = true -> key_ok t d1 = true -> key_ok t d2 = true ->
  instance_handle t d1 = Ok h -> instance_handle t d2 = Ok h ->
  key_vals_ty t d1 = key_vals_ty t d2 \/
  exists b1 b2, key_bytes t d1 = Ok b1 /\ key_bytes t d2 = Ok b2 /\ md5_coincidence b1 b2.
Proof. intros. eapply key_eq_of_handle_eq; eauto using key_ids_unique_always. Qed.

Theorem handle_total' : forall t d,
  key_type_ok t = true -> key_ok t d = true ->
  exists h, instance_handle t d = Ok h /\ length h = 16%nat.
Proof. intros. apply handle_total; auto using key_ids_unique_always. Qed.

Theorem same_handle_iff_same_key' : forall t d1 d2,
  key_type_ok t = true -> key_ok t d1 = true -> key_ok t d2 = true ->
  ~ (exists b1 b2, key_bytes t d1 = Ok b1 /\ key_bytes t d2 = Ok b2 /\ md5_coincidence b1 b2) ->
  (instance_handle t d1 = instance_handle t d2 <-> key_vals_ty t d1 = key_vals_ty t d2).
Proof. intros. apply same_handle_iff_same_key; auto using key_ids_unique_always. Qed.
