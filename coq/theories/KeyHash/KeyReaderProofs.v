(* Reader-side derivations equal the writer-side handle; the recorded defect classes
   are inhabited (witnesses); soundness of the boolean oracles used by the
   correspondence run. *)
From DustDDS Require Import Base.Machine KeyHash.Md5Model KeyHash.KeyModel
  KeyHash.KeyBytesProofs KeyHash.KeyProofs KeyHash.KeyEncProofs KeyHash.KeyMainProofs.
Open Scope Z_scope.

(* ------------------------------------- the key holder of a key holder *)

Fixpoint all_keys (ms : members) : bool :=
  match ms with MNil => true | MCons _ k _ _ r => k && all_keys r end.

Lemma all_keys_mapp : forall a b, all_keys a = true -> all_keys b = true -> all_keys (mapp a b) = true.
Proof.
  induction a as [|i k o t r IH]; intros b Ha Hb; cbn [mapp all_keys] in *; auto.
  apply andb_prop in Ha as [-> Ha]. cbn [andb]. auto.
Qed.

Lemma kh_all_keys :
  (forall t, all_keys (kh_collect t) = true) /\ (forall ms, all_keys (kh_collect_ms ms) = true).
Proof.
  apply ty_members_ind; intros; cbn [kh_collect kh_collect_ms all_keys]; auto.
  destruct key; [cbn [all_keys andb]; auto|].
  destruct (is_struct t && negb opt); auto using all_keys_mapp.
Qed.

Lemma all_keys_renumber : forall ms n, all_keys (renumber n ms) = all_keys ms.
Proof. induction ms; intros; cbn [renumber all_keys]; auto. rewrite IHms. reflexivity. Qed.

Lemma renumber_idem : forall ms n, renumber n (renumber n ms) = renumber n ms.
Proof. induction ms; intros; cbn [renumber]; auto. rewrite IHms. reflexivity. Qed.

Lemma kh_members_keys : forall ms, all_keys ms = true -> kh_collect_ms ms = ms.
Proof.
  induction ms as [|i k o t r IH]; intros H; cbn [kh_collect_ms all_keys] in *; auto.
  apply andb_prop in H as [-> H]. rewrite IH; auto.
Qed.

Fixpoint gets (ids : list Z) (d : fields) : res (list value) :=
  match ids with
  | [] => Ok []
  | i :: r => v <- get_value i d ;; vs <- gets r d ;; Ok (v :: vs)
  end.

Lemma key_vals_keys : forall ms d, all_keys ms = true -> key_vals ms d = gets (ids_of ms) d.
Proof.
  induction ms as [|i k o t r IH]; intros d H; cbn [key_vals ids_of gets all_keys] in *; auto.
  apply andb_prop in H as [-> H]. rewrite IH; auto.
Qed.

Definition val_at (d : fields) (i : Z) : value :=
  match lookup i d with Some v => v | None => VStr [] end.

Lemma gets_present : forall ids d,
  (forall i, mem i ids = true -> lookup i d <> None) -> gets ids d = Ok (map (val_at d) ids).
Proof.
  induction ids as [|i ids IH]; intros d H; cbn [gets map]; auto.
  assert (Hi : lookup i d <> None) by (apply H; cbn [mem]; rewrite Z.eqb_refl; auto).
  unfold get_value, val_at at 1. destruct (lookup i d) as [v|]; [|congruence]. cbn [bind].
  rewrite IH; auto. intros j Hj. apply H. cbn [mem]. rewrite Hj. apply orb_true_r.
Qed.

Lemma lookup_build_map : forall g ids acc j,
  lookup j (build ids (map g ids) acc) = if mem j ids then Some (g j) else lookup j acc.
Proof.
  induction ids as [|i ids IH]; intros acc j; cbn [map build mem]; auto.
  rewrite IH. destruct (mem j ids) eqn:M; [rewrite orb_true_r; auto|].
  rewrite orb_false_r. destruct (j =? i) eqn:E.
  - apply Z.eqb_eq in E. subst. apply lookup_set_same.
  - apply lookup_set_other. apply Z.eqb_neq. exact E.
Qed.

Lemma lookup_build_in : forall ids vs acc j, length ids = length vs ->
  mem j ids = true -> lookup j (build ids vs acc) <> None.
Proof.
  induction ids as [|i ids IH]; intros [|v vs] acc j Hl Hm; cbn in Hl, Hm; try discriminate.
  cbn [build]. destruct (mem j ids) eqn:M.
  - apply IH; auto.
  - rewrite orb_false_r in Hm. apply Z.eqb_eq in Hm. subst.
    rewrite lookup_build_notin by auto. rewrite lookup_set_same. discriminate.
Qed.

Lemma enc_fs_ext : forall ms d d' pos,
  (forall i, lookup i d = lookup i d') -> enc_fs pos ms d = enc_fs pos ms d'.
Proof.
  induction ms as [|i k o t r IH]; intros d d' pos H; cbn [enc_fs]; auto.
  destruct o; auto. unfold get_value. rewrite H. destruct (lookup i d'); cbn [bind]; auto.
  destruct (enc_raw pos t v); cbn [bind]; auto. rewrite (IH d d'); auto.
Qed.

(* NotAlive* change without key hash: the reader decodes the serialized key with the
   key-holder type and derives the handle from that DynamicData; if the decoder returns
   the key holder the writer serialized, the reader's handle is the writer's (any type,
   member-id collisions included) *)
Theorem reader_key_derivation : forall t d kd,
  key_holder_data t d = Ok kd -> reader_handle_from_key t kd = instance_handle t d.
Proof.
  intros t d kd Hkd. unfold reader_handle_from_key, instance_handle, key_bytes. rewrite Hkd. cbn [bind].
  destruct t as [p|b|e b|e dims|x ms]; try (cbn in Hkd; inversion Hkd; reflexivity).
  cbn [key_holder_ty].
  set (K := kh_type (TStruct x ms)) in *.
  assert (HK : all_keys K = true).
  { unfold K, kh_type. rewrite all_keys_renumber. apply (proj1 kh_all_keys). }
  assert (HKK : kh_type (TStruct x K) = K).
  { unfold kh_type at 1. cbn [kh_collect]. rewrite (kh_members_keys K HK). unfold K, kh_type. apply renumber_idem. }
  rewrite key_holder_data_factors, HKK. cbn [key_vals_ty]. rewrite (key_vals_keys K kd HK).
  (* the writer's key holder *)
  rewrite key_holder_data_factors in Hkd. fold K in Hkd.
  destruct (key_vals_ty (TStruct x ms) d) as [vs| |] eqn:V; cbn [bind] in Hkd; try discriminate.
  inversion Hkd as [Hb]. clear Hkd.
  pose proof (key_vals_length _ _ _ V) as Hl. fold K in Hl.
  assert (Hpres : forall i, mem i (ids_of K) = true -> lookup i kd <> None).
  { intros i Hi. subst kd. apply lookup_build_in; auto. }
  rewrite Hb. rewrite (gets_present _ _ Hpres). cbn [bind].
  match goal with |- bind ?A _ = bind ?B _ => assert (EQ : A = B); [|rewrite EQ; reflexivity] end.
  unfold enc_fstruct. apply enc_fs_ext. intros j.
  rewrite lookup_build_map. destruct (mem j (ids_of K)) eqn:M.
  - unfold val_at. specialize (Hpres j M). destruct (lookup j kd); congruence.
  - subst kd. rewrite lookup_build_notin by auto. reflexivity.
Qed.

(* the whole reader side for a change produced by the writer from sample d, over a
   codec that returns what it was given (the round-trip property C09) *)
Theorem writer_reader_agree :
  forall (decode_sample decode_key : ty -> list Z -> option fields)
         (encode_sample encode_key : ty -> fields -> list Z),
  (forall t d, decode_sample t (encode_sample t d) = Some d) ->
  (forall t kd, decode_key (key_holder_ty t) (encode_key t kd) = Some kd) ->
  forall t d kd h,
    instance_handle t d = Ok h -> key_holder_data t d = Ok kd ->
    (forall alive payload, reader_handle decode_sample decode_key t alive (Some h) payload = Ok h) /\
    reader_handle decode_sample decode_key t true None (encode_sample t d) = Ok h /\
    reader_handle decode_sample decode_key t false None (encode_key t kd) = Ok h.
Proof.
  intros ds dk es ek RS RK t d kd h Hh Hkd. repeat split.
  - unfold reader_handle. rewrite RS. exact Hh.
  - unfold reader_handle. rewrite RK. rewrite (reader_key_derivation t d kd Hkd). exact Hh.
Qed.

(* ----------------------- C11: the former collision class (regression) *)

(* struct Outer { #[key] a: u8 (id 0), b: Inner (id 1) }   struct Inner { #[key] x: u8 (id 0) }:
   before fix c1628d5 the samples (a=1,x=7) and (a=2,x=7) both got the handle 0707000..;
   the key holder now numbers its members afresh *)
Definition t_collision : ty :=
  TStruct Final (MCons 0 true false (TPrim PU8)
                (MCons 1 false false (TStruct Final (MCons 0 true false (TPrim PU8) MNil)) MNil)).
Definition d_col (a x : Z) : fields :=
  FCons 0 (VPrim SU8 a) (FCons 1 (VStruct (FCons 0 (VPrim SU8 x) FNil)) FNil).

Lemma former_collision_witness :
  instance_handle t_collision (d_col 1 7) = Ok [1;7;0;0;0;0;0;0;0;0;0;0;0;0;0;0] /\
  instance_handle t_collision (d_col 2 7) = Ok [2;7;0;0;0;0;0;0;0;0;0;0;0;0;0;0].
Proof. split; vm_compute; reflexivity. Qed.

(* ------------------------------------------------ the boolean oracles *)

Lemma list_eqb_eq : forall (A : Type) (eqb : A -> A -> bool),
  (forall a b, eqb a b = true <-> a = b) -> forall l1 l2, list_eqb eqb l1 l2 = true <-> l1 = l2.
Proof.
  intros A eqb H. induction l1 as [|a l1 IH]; intros [|b l2]; cbn [list_eqb]; split; intros E;
    try discriminate; auto.
  - apply andb_prop in E as [E1 E2]. apply H in E1. apply IH in E2. congruence.
  - inversion E; subst. apply andb_true_intro. split; [apply H|apply IH]; auto.
Qed.

Lemma stag_eqb_iff : forall a b, stag_eqb a b = true <-> a = b.
Proof. split; [apply stag_eqb_eq|intros ->; apply stag_eqb_refl]. Qed.

Scheme value_mind := Induction for value Sort Prop
  with fields_mind := Induction for fields Sort Prop
  with fieldss_mind := Induction for fieldss Sort Prop.
Combined Scheme value_fields_ind from value_mind, fields_mind, fieldss_mind.

Lemma value_eqb_eq :
  (forall a b, value_eqb a b = true <-> a = b) /\
  (forall a b, fields_eqb a b = true <-> a = b) /\
  (forall a b, fieldss_eqb a b = true <-> a = b).
Proof.
  apply value_fields_ind.
  - intros s z [] ; cbn [value_eqb]; split; intros E; try discriminate.
    + apply andb_prop in E as [E1 E2]. apply stag_eqb_eq in E1. apply Z.eqb_eq in E2. congruence.
    + inversion E; subst. rewrite stag_eqb_refl, Z.eqb_refl. auto.
  - intros bs []; cbn [value_eqb]; split; intros E; try discriminate.
    + apply (list_eqb_eq _ _ Z.eqb_eq) in E. congruence.
    + inversion E; subst. apply (list_eqb_eq _ _ Z.eqb_eq). auto.
  - intros d IH []; cbn [value_eqb]; split; intros E; try discriminate.
    + apply IH in E. congruence.
    + inversion E; subst. apply IH. auto.
  - intros s zs []; cbn [value_eqb]; split; intros E; try discriminate.
    + apply andb_prop in E as [E1 E2]. apply stag_eqb_eq in E1.
      apply (list_eqb_eq _ _ Z.eqb_eq) in E2. congruence.
    + inversion E; subst. rewrite stag_eqb_refl. apply (list_eqb_eq _ _ Z.eqb_eq). auto.
  - intros ss []; cbn [value_eqb]; split; intros E; try discriminate.
    + apply (list_eqb_eq _ _ (list_eqb_eq _ _ Z.eqb_eq)) in E. congruence.
    + inversion E; subst. apply (list_eqb_eq _ _ (list_eqb_eq _ _ Z.eqb_eq)). auto.
  - intros ds IH []; cbn [value_eqb]; split; intros E; try discriminate.
    + apply IH in E. congruence.
    + inversion E; subst. apply IH. auto.
  - intros []; cbn [fields_eqb]; split; intros E; try discriminate; auto.
  - intros i v IHv r IHr []; cbn [fields_eqb]; split; intros E; try discriminate.
    + apply andb_prop in E as [E E3]. apply andb_prop in E as [E1 E2].
      apply Z.eqb_eq in E1. apply IHv in E2. apply IHr in E3. congruence.
    + inversion E; subst. rewrite Z.eqb_refl. cbn [andb]. apply andb_true_intro.
      split; [apply IHv|apply IHr]; auto.
  - intros []; cbn [fieldss_eqb]; split; intros E; try discriminate; auto.
  - intros d IHd r IHr []; cbn [fieldss_eqb]; split; intros E; try discriminate.
    + apply andb_prop in E as [E1 E2]. apply IHd in E1. apply IHr in E2. congruence.
    + inversion E; subst. apply andb_true_intro. split; [apply IHd|apply IHr]; auto.
Qed.

(* the oracle's "keys are equal" is equality of the key members *)
Lemma keys_eqb_iff : forall t d1 d2 vs1 vs2,
  key_vals_ty t d1 = Ok vs1 -> key_vals_ty t d2 = Ok vs2 ->
  (keys_eqb t d1 d2 = true <-> key_vals_ty t d1 = key_vals_ty t d2).
Proof.
  intros t d1 d2 vs1 vs2 H1 H2. unfold keys_eqb. rewrite H1, H2.
  rewrite (list_eqb_eq _ _ (proj1 value_eqb_eq)). split; congruence.
Qed.
