(* Top-level theorems of C11 / C12 on the key-hash model. *)
From DustDDS Require Import Base.Machine KeyHash.Md5Model KeyHash.KeyModel
  KeyHash.KeyBytesProofs KeyHash.KeyProofs KeyHash.KeyEncProofs.
Open Scope Z_scope.

Ltac Zify.zify_post_hook ::= Z.div_mod_to_equations.

(* ------------------------------------------------ lookup-by-id is the identity *)

Lemma mem_app : forall x a b, mem x (a ++ b) = mem x a || mem x b.
Proof. induction a; intros; simpl; auto. rewrite IHa, orb_assoc. reflexivity. Qed.

Lemma nodup_mid : forall pre id rest, nodup (pre ++ id :: rest) = true -> mem id pre = false.
Proof.
  induction pre as [|x pre IH]; intros id rest H; auto.
  cbn [app nodup] in H. apply andb_prop in H as [H1 H2]. apply negb_true_iff in H1.
  rewrite mem_app in H1. apply orb_false_iff in H1 as [_ H1]. cbn [mem] in H1.
  apply orb_false_iff in H1 as [H1 _]. cbn [mem]. rewrite Z.eqb_sym, H1. cbn [orb]. eauto.
Qed.

Lemma find_member_mapp : forall id pre ms,
  mem id (ids_of pre) = false -> find_member id (mapp pre ms) = find_member id ms.
Proof.
  induction pre as [|i k o t r IH]; intros ms H; auto.
  cbn [ids_of mem] in H. apply orb_false_iff in H as [H1 H2].
  cbn [mapp find_member]. rewrite Z.eqb_sym, H1. auto.
Qed.

Lemma mapp_snoc : forall pre id k o t r,
  mapp pre (MCons id k o t r) = mapp (mapp pre (MCons id k o t MNil)) r.
Proof. induction pre; intros; cbn [mapp]; [reflexivity|]. rewrite IHpre. reflexivity. Qed.

Lemma resolve_in_nodup : forall ms pre,
  nodup (ids_of (mapp pre ms)) = true -> resolve_in (mapp pre ms) ms = ms.
Proof.
  induction ms as [|id k o t r IH]; intros pre H; auto.
  cbn [resolve_in]. rewrite find_member_mapp.
  - cbn [find_member]. rewrite Z.eqb_refl. f_equal. rewrite mapp_snoc. apply IH. rewrite <- mapp_snoc. exact H.
  - rewrite ids_of_mapp in H. cbn [ids_of] in H. eapply nodup_mid; eauto.
Qed.

Lemma resolve_nodup : forall ms, nodup (ids_of ms) = true -> resolve ms = ms.
Proof. intros. apply (resolve_in_nodup ms MNil). exact H. Qed.

Lemma norm_ok : (forall t, ty_ok t = true -> norm t = t) /\ (forall ms, ms_ok ms = true -> norm_ms ms = ms).
Proof.
  apply ty_members_ind; intros; cbn [norm norm_ms]; auto.
  - cbn [ty_ok] in H0. apply andb_prop in H0 as [_ H0]. rewrite H; auto.
  - cbn [ty_ok] in H0. apply andb_prop in H0 as [_ H0]. rewrite H; auto.
  - cbn [ty_ok] in H0. apply andb_prop in H0 as [H0 _]. apply andb_prop in H0 as [H0 H2].
    apply andb_prop in H0 as [_ H1]. rewrite H, resolve_nodup; auto.
  - cbn [ms_ok] in H1. apply andb_prop in H1 as [H1 H3]. apply andb_prop in H1 as [_ H2].
    rewrite H, H0; auto.
Qed.

(* ------------------------------------------------------- the data map *)

Lemma lookup_fapp : forall i a b,
  lookup i (fapp a b) = match lookup i a with Some x => Some x | None => lookup i b end.
Proof.
  induction a as [|j v a IH]; intros b; cbn [fapp lookup]; auto. destruct (j =? i); auto.
Qed.

Lemma lookup_remove_same : forall i d, lookup i (remove i d) = None.
Proof.
  induction d as [|j v d IH]; cbn [remove lookup]; auto.
  destruct (j =? i) eqn:E; auto. cbn [lookup]. rewrite E. auto.
Qed.

Lemma lookup_remove_other : forall i j d, i <> j -> lookup i (remove j d) = lookup i d.
Proof.
  induction d as [|k v d IH]; intros H; cbn [remove lookup]; auto.
  destruct (k =? j) eqn:E.
  - apply Z.eqb_eq in E. subst k. destruct (j =? i) eqn:E2; [apply Z.eqb_eq in E2; congruence|auto].
  - cbn [lookup]. destruct (k =? i); auto.
Qed.

Lemma lookup_set_same : forall i v d, lookup i (set_value i v d) = Some v.
Proof.
  intros. unfold set_value. rewrite lookup_fapp, lookup_remove_same. cbn [lookup]. rewrite Z.eqb_refl. auto.
Qed.

Lemma lookup_set_other : forall i j v d, i <> j -> lookup i (set_value j v d) = lookup i d.
Proof.
  intros. unfold set_value. rewrite lookup_fapp, lookup_remove_other by auto. cbn [lookup].
  destruct (j =? i) eqn:E; [apply Z.eqb_eq in E; congruence|]. destruct (lookup i d); auto.
Qed.

Lemma lookup_build_notin : forall ids vs acc i,
  mem i ids = false -> lookup i (build ids vs acc) = lookup i acc.
Proof.
  induction ids as [|j ids IH]; intros vs acc i H; [reflexivity|].
  cbn [mem] in H. apply orb_false_iff in H as [H1 H2]. destruct vs as [|v vs]; [reflexivity|].
  cbn [build]. rewrite IH by auto. apply lookup_set_other. apply Z.eqb_neq. exact H1.
Qed.

Lemma build_agree : forall ids vs acc, nodup ids = true -> length ids = length vs ->
  Forall2 (fun i v => lookup i (build ids vs acc) = Some v) ids vs.
Proof.
  induction ids as [|i ids IH]; intros [|v vs] acc Hn Hl; cbn in Hl; try discriminate; constructor.
  - cbn [nodup] in Hn. apply andb_prop in Hn as [Hm _]. apply negb_true_iff in Hm.
    cbn [build]. rewrite lookup_build_notin by auto. apply lookup_set_same.
  - cbn [nodup] in Hn. apply andb_prop in Hn as [_ Hn]. cbn [build]. apply IH; auto.
Qed.

Lemma enc_fs_agree : forall ms vs d pos,
  Forall2 (fun i v => lookup i d = Some v) (ids_of ms) vs -> enc_fs pos ms d = enc_vals pos ms vs.
Proof.
  induction ms as [|i k o t r IH]; intros vs d pos H; cbn [ids_of] in H; inversion H; subst; auto.
  cbn [enc_fs enc_vals]. destruct o; auto. unfold get_value. rewrite H2. cbn [bind].
  destruct (enc_raw pos t y); cbn [bind]; auto. rewrite (IH l'); auto.
Qed.

(* the serialized key as a function of the key values *)
Lemma key_bytes_vals : forall t d vs,
  key_type_ok t = true -> key_ids_unique t = true -> key_vals_ty t d = Ok vs ->
  key_bytes t d = enc_vals 0 (kh_type t) vs.
Proof.
  intros t d vs Hok Hu Hv. unfold key_bytes. rewrite key_holder_data_factors, Hv. cbn [bind].
  unfold enc_fstruct. unfold key_type_ok in Hok. unfold key_ids_unique in Hu.
  rewrite (proj2 norm_ok _ Hok), resolve_nodup by auto.
  apply enc_fs_agree. apply build_agree; auto.
  symmetry. eapply key_vals_length; eauto.
Qed.

(* the members of the key holder are numbered afresh: no two share an id *)
Lemma mem_zseq : forall k n x, x < n -> mem x (zseq n k) = false.
Proof.
  induction k as [|k IH]; intros n x H; cbn [zseq mem]; auto.
  rewrite IH by lia. destruct (x =? n) eqn:E; [apply Z.eqb_eq in E; lia|reflexivity].
Qed.

Lemma nodup_zseq : forall k n, nodup (zseq n k) = true.
Proof.
  induction k as [|k IH]; intros n; cbn [zseq nodup]; auto.
  rewrite mem_zseq by lia. rewrite IH. reflexivity.
Qed.

Theorem key_ids_unique_always : forall t, key_ids_unique t = true.
Proof. intros. unfold key_ids_unique, kh_type. rewrite ids_of_renumber. apply nodup_zseq. Qed.

(* ------------------------------------------------------------- C11 => *)

Lemma bytes_eq_dec : forall a b : list Z, {a = b} + {a <> b}.
Proof. apply list_eq_dec. apply Z.eq_dec. Qed.

Theorem key_eq_of_handle_eq : forall t d1 d2 h,
  key_type_ok t = true -> key_ids_unique t = true ->
  key_ok t d1 = true -> key_ok t d2 = true ->
  instance_handle t d1 = Ok h -> instance_handle t d2 = Ok h ->
  key_vals_ty t d1 = key_vals_ty t d2 \/
  exists b1 b2, key_bytes t d1 = Ok b1 /\ key_bytes t d2 = Ok b2 /\ md5_coincidence b1 b2.
Proof.
  intros t d1 d2 h Hok Hu K1 K2 H1 H2.
  unfold key_ok in K1, K2.
  destruct (key_vals_ty t d1) as [vs1| |] eqn:V1; try discriminate.
  destruct (key_vals_ty t d2) as [vs2| |] eqn:V2; try discriminate.
  unfold instance_handle in H1, H2.
  rewrite (key_bytes_vals t d1 vs1) in * by auto. rewrite (key_bytes_vals t d2 vs2) in * by auto.
  destruct (enc_vals 0 (kh_type t) vs1) as [b1| |] eqn:E1; cbn [bind] in H1; try discriminate.
  destruct (enc_vals 0 (kh_type t) vs2) as [b2| |] eqn:E2; cbn [bind] in H2; try discriminate.
  inversion H1 as [G1]. inversion H2 as [G2]. clear H1 H2.
  assert (Inj : forall r1 r2, b1 ++ r1 = b2 ++ r2 -> vs1 = vs2).
  { intros. eapply (enc_vals_prefix_inj (kh_type t) 0); eauto. }
  destruct (bytes_eq_dec b1 b2) as [Heq|Hne].
  { left. f_equal. apply (Inj [] []). rewrite !app_nil_r. exact Heq. }
  unfold handle_of_bytes in G1, G2.
  destruct (len b1 <=? 16) eqn:L1; destruct (len b2 <=? 16) eqn:L2.
  - (* both zero padded *) left. f_equal. apply (Inj (zeros (16 - len b1)) (zeros (16 - len b2))).
    unfold pad16 in G1, G2. congruence.
  - right. exists b1, b2. repeat split; auto. right; left. split; [lia|congruence].
  - right. exists b1, b2. repeat split; auto. right; right. split; [lia|congruence].
  - right. exists b1, b2. repeat split; auto. left. repeat split; try lia. congruence.
Qed.
