(* Byte-level lemmas of the key-hash model: alignment, fixed-size scalars are
   injective on their range, strings, sequential encoders are prefix-injective. *)
From DustDDS Require Import Base.Machine KeyHash.Md5Model KeyHash.KeyModel.
Open Scope Z_scope.

Ltac Zify.zify_post_hook ::= Z.div_mod_to_equations.

(* ------------------------------------------------------------ lengths *)

Lemma len_app : forall (A : Type) (a b : list A), len (a ++ b) = len a + len b.
Proof. intros. unfold len. rewrite app_length. lia. Qed.

Lemma len_nonneg : forall (A : Type) (a : list A), 0 <= len a.
Proof. intros. unfold len. lia. Qed.

Lemma len_nil : forall A : Type, len (@nil A) = 0.
Proof. reflexivity. Qed.

Lemma len_cons : forall (A : Type) (x : A) l, len (x :: l) = 1 + len l.
Proof. intros. unfold len. simpl length. lia. Qed.

Lemma len_zeros : forall n, 0 <= n -> len (zeros n) = n.
Proof. intros. unfold len, zeros. rewrite repeat_length. lia. Qed.

Lemma app_eq_len : forall (A : Type) (a b c d : list A),
  a ++ c = b ++ d -> length a = length b -> a = b /\ c = d.
Proof.
  induction a as [|x a IH]; intros [|y b] c d H Hl; simpl in *; try discriminate; auto.
  inversion H; subst. destruct (IH b c d H2) as [-> ->]; auto.
Qed.

(* ---------------------------------------------------------- alignment *)

Lemma align_up_bounds : forall pos a, 0 < a -> pos <= align_up pos a < pos + a.
Proof. intros. unfold align_up. lia. Qed.

Lemma align_up_mono : forall p p' a, 0 < a -> p <= p' -> align_up p a <= align_up p' a.
Proof.
  intros. unfold align_up.
  apply Z.mul_le_mono_nonneg_r; [lia|]. apply Z.div_le_mono; lia.
Qed.

Lemma len_pad_to : forall pos a, 0 < a -> len (pad_to pos a) = align_up pos a - pos.
Proof. intros. unfold pad_to. apply len_zeros. pose proof (align_up_bounds pos a H). lia. Qed.

Lemma ssize_pos : forall s, 0 < Z.min (ssize s) 8.
Proof. destruct s; cbn; lia. Qed.

(* ------------------------------------------------------------ scalars *)

Lemma be_bytes_length : forall n z, length (be_bytes n z) = n.
Proof. induction n; intros; simpl; auto. Qed.

Lemma be_bytes_S : forall k z,
  be_bytes (S k) z = (z / 2 ^ (8 * Z.of_nat k)) mod 256 :: be_bytes k z.
Proof. reflexivity. Qed.

Lemma be_bytes_S_inj : forall k z1 z2, be_bytes (S k) z1 = be_bytes (S k) z2 ->
  (z1 / 2 ^ (8 * Z.of_nat k)) mod 256 = (z2 / 2 ^ (8 * Z.of_nat k)) mod 256 /\
  be_bytes k z1 = be_bytes k z2.
Proof. intros k z1 z2 H. rewrite !be_bytes_S in H. injection H. intros A B. split; [exact B|exact A]. Qed.

Lemma be_bytes_mod : forall n z1 z2,
  be_bytes n z1 = be_bytes n z2 -> z1 mod 2 ^ (8 * Z.of_nat n) = z2 mod 2 ^ (8 * Z.of_nat n).
Proof.
  induction n as [|k IH]; intros z1 z2 H.
  - change (2 ^ (8 * Z.of_nat 0)) with 1. rewrite !Z.mod_1_r. reflexivity.
  - apply be_bytes_S_inj in H as [H0 H1]. apply IH in H1.
    replace (8 * Z.of_nat (S k)) with (8 * Z.of_nat k + 8) by lia.
    rewrite Z.pow_add_r by lia. change (2 ^ 8) with 256.
    assert (Hp : 0 < 2 ^ (8 * Z.of_nat k)) by (apply Z.pow_pos_nonneg; lia).
    rewrite !Z.rem_mul_r by lia. rewrite H0, H1. reflexivity.
Qed.

Lemma mod_inj_range : forall M lo z1 z2, 0 < M ->
  lo <= z1 < lo + M -> lo <= z2 < lo + M -> z1 mod M = z2 mod M -> z1 = z2.
Proof.
  intros M lo z1 z2 HM H1 H2 H.
  pose proof (Z.div_mod z1 M ltac:(lia)) as E1. pose proof (Z.div_mod z2 M ltac:(lia)) as E2.
  rewrite H in E1.
  assert (z1 - z2 = M * (z1 / M - z2 / M)) by lia.
  assert (z1 / M - z2 / M = 0) by nia. lia.
Qed.

Lemma prim_bytes_length : forall s z, in_stag s z = true -> len (prim_bytes s z) = ssize s.
Proof.
  intros s z H. unfold len.
  destruct s; cbn [prim_bytes ssize]; try (rewrite be_bytes_length; reflexivity); try reflexivity.
Qed.

Lemma prim_bytes_inj : forall s z1 z2,
  in_stag s z1 = true -> in_stag s z2 = true -> prim_bytes s z1 = prim_bytes s z2 -> z1 = z2.
Proof.
  intros s z1 z2 H1 H2 H.
  destruct s; cbn [prim_bytes ssize in_stag] in *;
    try (apply be_bytes_mod in H;
         match type of H with _ mod ?M = _ => 
           let m := eval vm_compute in M in change M with m in H end;
         unfold two32, two64, i32_min, i32_max, i64_min, i64_max in *).
  - (* bool *) destruct (z1 =? 0) eqn:E1, (z2 =? 0) eqn:E2; try discriminate; lia.
  - eapply (mod_inj_range 256 0); lia.
  - eapply (mod_inj_range 256 (-128)); lia.
  - eapply (mod_inj_range 65536 0); lia.
  - eapply (mod_inj_range 65536 (-32768)); lia.
  - eapply (mod_inj_range 4294967296 0); lia.
  - eapply (mod_inj_range 4294967296 (-2147483648)); lia.
  - eapply (mod_inj_range 18446744073709551616 0); lia.
  - eapply (mod_inj_range 18446744073709551616 (-9223372036854775808)); lia.
  - eapply (mod_inj_range 4294967296 0); lia.
  - eapply (mod_inj_range 18446744073709551616 0); lia.
  - (* f128 *)
    change (18446744073709551616 * 18446744073709551616 / 2) with 170141183460469231731687303715884105728 in *.
    eapply (mod_inj_range 340282366920938463463374607431768211456 (-170141183460469231731687303715884105728)); lia.
  - (* char8, one octet *) unfold wrap_u8 in H. injection H as H.
    eapply (mod_inj_range 256 0); lia.
Qed.

Lemma len_enc_prim : forall pos s z, in_stag s z = true ->
  len (enc_prim pos s z) = align_up pos (Z.min (ssize s) 8) - pos + ssize s.
Proof.
  intros. unfold enc_prim. rewrite len_app, len_pad_to, prim_bytes_length; auto using ssize_pos.
Qed.

(* two scalars of one variant written at the same position, followed by anything *)
Lemma enc_prim_prefix_inj : forall pos s z1 z2 r1 r2,
  in_stag s z1 = true -> in_stag s z2 = true ->
  enc_prim pos s z1 ++ r1 = enc_prim pos s z2 ++ r2 -> z1 = z2 /\ r1 = r2.
Proof.
  intros pos s z1 z2 r1 r2 H1 H2 H. unfold enc_prim in H. rewrite <- !app_assoc in H.
  apply app_inv_head in H.
  apply app_eq_len in H.
  - destruct H as [Hb Hr]. split; auto. eapply prim_bytes_inj; eauto.
  - pose proof (prim_bytes_length s z1 H1). pose proof (prim_bytes_length s z2 H2). unfold len in *. lia.
Qed.

(* ------------------------------------------------------------ strings *)

Lemma str_len_u32 : forall b bs, str_ok b bs = true ->
  wrap_u32 (len bs + 1) = len bs + 1 /\ in_stag SU32 (len bs + 1) = true.
Proof.
  intros b bs H. unfold str_ok in H. apply andb_prop in H as [H _]. apply andb_prop in H as [_ H].
  pose proof (len_nonneg _ bs). unfold wrap_u32, two32, u32_max in *. cbn [in_stag]. unfold two32.
  split; [rewrite Z.mod_small|]; lia.
Qed.

Lemma len_enc_string : forall pos b bs, str_ok b bs = true ->
  len (enc_string pos bs) = align_up pos 4 - pos + 4 + len bs + 1.
Proof.
  intros pos b bs H. destruct (str_len_u32 b bs H) as [Hw Hi].
  unfold enc_string. rewrite Hw, !len_app, len_enc_prim by exact Hi.
  cbn [ssize]. change (Z.min 4 8) with 4. rewrite len_cons, len_nil. lia.
Qed.

Lemma enc_string_prefix_inj : forall pos b1 b2 s1 s2 r1 r2,
  str_ok b1 s1 = true -> str_ok b2 s2 = true ->
  enc_string pos s1 ++ r1 = enc_string pos s2 ++ r2 -> s1 = s2 /\ r1 = r2.
Proof.
  intros pos b1 b2 s1 s2 r1 r2 H1 H2 H.
  destruct (str_len_u32 b1 s1 H1) as [Hw1 Hi1]. destruct (str_len_u32 b2 s2 H2) as [Hw2 Hi2].
  unfold enc_string in H. rewrite Hw1, Hw2 in H. rewrite <- !app_assoc in H.
  apply enc_prim_prefix_inj in H as [Hl H]; auto.
  apply app_eq_len in H; [|unfold len in Hl; lia].
  destruct H as [-> H]. inversion H. auto.
Qed.

(* ------------------------------------------- sequential (positioned) encoders *)

Fixpoint enc_list {A : Type} (f : Z -> A -> res (list Z)) (pos : Z) (l : list A) : res (list Z) :=
  match l with
  | [] => Ok []
  | a :: r => b <- f pos a ;; bs <- enc_list f (pos + len b) r ;; Ok (b ++ bs)
  end.

(* f is prefix-injective on ok elements *)
Definition prefix_inj {A : Type} (ok : A -> Prop) (f : Z -> A -> res (list Z)) : Prop :=
  forall pos a1 a2 b1 b2 r1 r2, ok a1 -> ok a2 ->
    f pos a1 = Ok b1 -> f pos a2 = Ok b2 -> b1 ++ r1 = b2 ++ r2 -> a1 = a2.

Lemma enc_list_prefix_inj : forall (A : Type) (ok : A -> Prop) f, prefix_inj ok f ->
  forall l1 l2 pos b1 b2 r1 r2, Forall ok l1 -> Forall ok l2 -> length l1 = length l2 ->
    enc_list f pos l1 = Ok b1 -> enc_list f pos l2 = Ok b2 -> b1 ++ r1 = b2 ++ r2 -> l1 = l2.
Proof.
  intros A ok f Hf. induction l1 as [|a1 l1 IH]; intros [|a2 l2] pos b1 b2 r1 r2 F1 F2 Hl E1 E2 H;
    simpl in Hl; try discriminate; auto.
  inversion F1; subst. inversion F2; subst. cbn [enc_list] in E1, E2.
  destruct (f pos a1) as [c1| |] eqn:Ec1; cbn [bind] in E1; try discriminate.
  destruct (enc_list f (pos + len c1) l1) as [d1| |] eqn:Ed1; cbn [bind] in E1; try discriminate.
  destruct (f pos a2) as [c2| |] eqn:Ec2; cbn [bind] in E2; try discriminate.
  destruct (enc_list f (pos + len c2) l2) as [d2| |] eqn:Ed2; cbn [bind] in E2; try discriminate.
  inversion E1; inversion E2; subst. rewrite <- !app_assoc in H.
  assert (a1 = a2) by (eapply Hf; eauto). subst a2.
  rewrite Ec1 in Ec2. inversion Ec2; subst c2.
  apply app_inv_head in H. f_equal. eapply IH; eauto.
Qed.

Lemma enc_list_ext : forall (A : Type) (f g : Z -> A -> res (list Z)) l pos,
  (forall p a, In a l -> f p a = g p a) -> enc_list f pos l = enc_list g pos l.
Proof.
  induction l as [|a l IH]; intros pos H; cbn [enc_list]; auto.
  rewrite H by (left; auto). destruct (g pos a); cbn [bind]; auto.
  rewrite IH; auto. intros. apply H. right; auto.
Qed.

(* the three loops of serialize_elements as instances of enc_list *)
Lemma enc_prims_as_list : forall s zs pos,
  enc_list (fun p z => Ok (enc_prim p s z)) pos zs = Ok (enc_prims pos s zs).
Proof.
  induction zs as [|z zs IH]; intros pos; cbn [enc_list enc_prims bind]; auto.
  rewrite IH. reflexivity.
Qed.

Lemma enc_strings_as_list : forall ss pos,
  enc_list (fun p s => Ok (enc_string p s)) pos ss = Ok (enc_strings pos ss).
Proof.
  induction ss as [|s ss IH]; intros pos; cbn [enc_list enc_strings bind]; auto.
  rewrite IH. reflexivity.
Qed.
