(* The key encoding of the model is prefix-free and injective on well-formed values
   (C11 =>), and max_end bounds the end offset of every well-formed value (C12). *)
From DustDDS Require Import Base.Machine KeyHash.Md5Model KeyHash.KeyModel
  KeyHash.KeyBytesProofs KeyHash.KeyProofs.
Open Scope Z_scope.

Ltac Zify.zify_post_hook ::= Z.div_mod_to_equations.

(* --------------------------------------------------------- small facts *)

Lemma stag_eqb_eq : forall a b, stag_eqb a b = true -> a = b.
Proof. destruct a, b; simpl; intros; congruence. Qed.

Lemma stag_eqb_refl : forall a, stag_eqb a a = true.
Proof. destruct a; reflexivity. Qed.

Lemma mem_In : forall x l, mem x l = true <-> In x l.
Proof.
  induction l as [|y l IH]; simpl; [split; [discriminate|tauto]|].
  rewrite orb_true_iff, IH, Z.eqb_eq. split; intros [H|H]; auto.
Qed.

Fixpoint fvals (d : fields) : list value :=
  match d with FNil => [] | FCons _ v r => v :: fvals r end.

Fixpoint dlist (ds : fieldss) : list fields :=
  match ds with DNil => [] | DCons d r => d :: dlist r end.

Lemma dlen_dlist : forall ds, dlen ds = len (dlist ds).
Proof. induction ds; cbn [dlen dlist]; [reflexivity|]. rewrite len_cons. lia. Qed.

(* the values of a structure written member after member *)
Fixpoint enc_vals (pos : Z) (ms : members) (vs : list value) : res (list Z) :=
  match ms, vs with
  | MNil, [] => Ok []
  | MCons _ _ opt t r, v :: vs' =>
      if opt then Err E_UNSUPPORTED
      else b <- enc_raw pos t v ;; bs <- enc_vals (pos + len b) r vs' ;; Ok (b ++ bs)
  | _, _ => Err E_INVALID_ID
  end.

Lemma enc_fs_skip : forall r pos id v d,
  mem id (ids_of r) = false -> enc_fs pos r (FCons id v d) = enc_fs pos r d.
Proof.
  induction r as [|i k o t r IH]; intros pos id v d H; cbn [enc_fs]; auto.
  cbn [ids_of mem] in H. apply orb_false_iff in H as [H1 H2].
  destruct o; auto. unfold get_value. cbn [lookup]. rewrite H1.
  destruct (lookup i d); cbn [bind]; auto.
  destruct (enc_raw pos t v0); cbn [bind]; auto. rewrite IH; auto.
Qed.

Lemma fs_ok_ids : forall ms d, fs_ok ms d = true -> fids_of d = ids_of ms.
Proof.
  induction ms as [|i k o t r IH]; intros [|j v d] H; cbn [fs_ok] in H; try discriminate; auto.
  apply andb_prop in H as [H H3]. apply andb_prop in H as [H1 H2].
  cbn [fids_of ids_of]. apply Z.eqb_eq in H1. subst. f_equal. auto.
Qed.

Lemma fs_ok_vals : forall ms d, fs_ok ms d = true -> vals_ok (tys_of ms) (fvals d) = true.
Proof.
  induction ms as [|i k o t r IH]; intros [|j v d] H; cbn [fs_ok] in H; try discriminate; auto.
  apply andb_prop in H as [H H3]. apply andb_prop in H as [H1 H2].
  cbn [tys_of fvals vals_ok]. rewrite H2. cbn [andb]. auto.
Qed.

Lemma fields_of_ids_vals : forall d1 d2,
  fids_of d1 = fids_of d2 -> fvals d1 = fvals d2 -> d1 = d2.
Proof.
  induction d1 as [|i v d1 IH]; intros [|j w d2] Hi Hv; cbn in *; try discriminate; auto.
  inversion Hi; inversion Hv; subst. f_equal; auto.
Qed.

Lemma enc_fs_fvals : forall ms d pos,
  nodup (ids_of ms) = true -> fs_ok ms d = true -> enc_fs pos ms d = enc_vals pos ms (fvals d).
Proof.
  induction ms as [|i k o t r IH]; intros [|j v d] pos Hn H; cbn [fs_ok] in H; try discriminate; auto.
  apply andb_prop in H as [H H3]. apply andb_prop in H as [H1 H2]. apply Z.eqb_eq in H1. subst j.
  cbn [ids_of nodup] in Hn. apply andb_prop in Hn as [Hm Hn]. apply negb_true_iff in Hm.
  cbn [enc_fs enc_vals fvals]. destruct o; auto.
  unfold get_value. cbn [lookup]. rewrite Z.eqb_refl. cbn [bind].
  destruct (enc_raw pos t v); cbn [bind]; auto.
  rewrite enc_fs_skip by auto. rewrite IH; auto.
Qed.

(* ------------------------------------------------ elements as value lists *)

Definition elem_values (v : value) : list value :=
  match v with
  | VSeqPrim s zs => map (VPrim s) zs
  | VSeqStr ss => map VStr ss
  | VSeqStruct ds => map VStruct (dlist ds)
  | _ => []
  end.

Lemma enc_list_map : forall (A B : Type) (g : A -> B) f l pos,
  enc_list f pos (map g l) = enc_list (fun p a => f p (g a)) pos l.
Proof.
  induction l as [|a l IH]; intros pos; cbn [map enc_list]; auto.
  destruct (f pos (g a)); cbn [bind]; auto. rewrite IH. reflexivity.
Qed.

Lemma struct_not_mutable : forall x ms, ty_ok (TStruct x ms) = true -> x <> Mutable.
Proof. intros x ms H. cbn [ty_ok] in H. destruct x; try discriminate; congruence. Qed.

Lemma enc_raw_struct : forall x ms pos d, x <> Mutable ->
  enc_raw pos (TStruct x ms) (VStruct d) = enc_fs pos ms d.
Proof. intros. destruct x; try congruence; reflexivity. Qed.

Lemma enc_elems_as_list : forall e v nok pos,
  ty_ok e = true -> elems_ok e v nok = true ->
  enc_elems pos e v = enc_list (fun p a => enc_raw p e a) pos (elem_values v).
Proof.
  intros e v nok pos Ht H. destruct e as [p|b|e' b|e' dims|x ms]; cbn [elems_ok] in H; try discriminate.
  - destruct v; try discriminate. apply andb_prop in H as [H _]. apply andb_prop in H as [Hs _].
    cbn [enc_elems elem_values]. rewrite Hs, enc_list_map.
    rewrite (enc_list_ext _ _ (fun p z => Ok (enc_prim p s z))).
    + symmetry. apply enc_prims_as_list.
    + intros. cbn [enc_raw]. rewrite Hs. reflexivity.
  - destruct v; try discriminate. cbn [enc_elems elem_values]. rewrite enc_list_map.
    rewrite (enc_list_ext _ _ (fun p s => Ok (enc_string p s))).
    + symmetry. apply enc_strings_as_list.
    + intros. reflexivity.
  - destruct v; try discriminate. pose proof (struct_not_mutable _ _ Ht) as Hx.
    cbn [enc_elems elem_values]. rewrite enc_list_map.
    assert (G : forall ds pos,
      (fix go (pos : Z) (ds : fieldss) {struct ds} : res (list Z) :=
         match ds with
         | DNil => Ok []
         | DCons d r => b <- enc_fs pos ms d ;; bs <- go (pos + len b) r ;; Ok (b ++ bs)
         end) pos ds =
      enc_list (fun p d => enc_raw p (TStruct x ms) (VStruct d)) pos (dlist ds)).
    { induction ds0 as [|d r IH]; intros q; cbn [dlist enc_list]; auto.
      rewrite enc_raw_struct by auto. destruct (enc_fs q ms d); cbn [bind]; auto. rewrite IH. reflexivity. }
    destruct x; try congruence; apply G.
Qed.

Lemma elems_ok_values : forall e v nok, elems_ok e v nok = true ->
  Forall (fun a => val_ok e a = true) (elem_values v) /\ nok (len (elem_values v)) = true.
Proof.
  intros e v nok H. destruct e as [p|b|e' b|e' dims|x ms]; cbn [elems_ok] in H; try discriminate;
    destruct v; try discriminate; cbn [elem_values].
  - apply andb_prop in H as [H Hn]. apply andb_prop in H as [Hs Hf].
    split; [|unfold len in *; rewrite map_length; auto].
    rewrite forallb_forall in Hf. apply Forall_forall. intros a Ha. apply in_map_iff in Ha as [z [<- Hz]].
    cbn [val_ok]. rewrite Hs. cbn [andb]. auto.
  - apply andb_prop in H as [Hf Hn]. split; [|unfold len in *; rewrite map_length; auto].
    rewrite forallb_forall in Hf. apply Forall_forall. intros a Ha. apply in_map_iff in Ha as [z [<- Hz]].
    cbn [val_ok]. auto.
  - apply andb_prop in H as [Hf Hn]. split.
    + clear Hn. induction ds as [|d r IH]; cbn [dlist map]; constructor.
      * apply andb_prop in Hf as [Hd _]. exact Hd.
      * apply IH. apply andb_prop in Hf as [_ Hr]. exact Hr.
    + rewrite dlen_dlist in Hn. unfold len in *. rewrite map_length. auto.
Qed.

Lemma elem_values_inj : forall e v1 v2 n1 n2,
  elems_ok e v1 n1 = true -> elems_ok e v2 n2 = true -> elem_values v1 = elem_values v2 -> v1 = v2.
Proof.
  intros e v1 v2 n1 n2 H1 H2 H. destruct e as [p|b|e' b|e' dims|x ms]; cbn [elems_ok] in *; try discriminate;
    destruct v1; try discriminate; destruct v2; try discriminate; cbn [elem_values] in H.
  - apply andb_prop in H1 as [H1 _]. apply andb_prop in H1 as [S1 _].
    apply andb_prop in H2 as [H2 _]. apply andb_prop in H2 as [S2 _].
    apply stag_eqb_eq in S1, S2. subst. f_equal.
    revert zs0 H. induction zs as [|z zs IH]; intros [|z' zs'] H; cbn in H; try discriminate; auto.
    inversion H. f_equal; auto.
  - f_equal. clear H1 H2. revert ss0 H. induction ss as [|z zs IH]; intros [|z' zs'] H; cbn in H; try discriminate; auto.
    inversion H. f_equal; auto.
  - f_equal. clear H1 H2. revert ds0 H. induction ds as [|d r IH]; intros [|d' r'] H; cbn in H; try discriminate; auto.
    inversion H. f_equal; auto.
Qed.

Lemma seq_count : forall e v nok, elems_ok e v nok = true ->
  match v with
  | VSeqPrim _ zs => len zs | VSeqStr ss => len ss | VSeqStruct ds => dlen ds | _ => 1
  end = len (elem_values v).
Proof.
  intros e v nok H. destruct e; cbn [elems_ok] in H; try discriminate; destruct v; try discriminate;
    cbn [elem_values]; unfold len; rewrite ?map_length; auto.
  rewrite dlen_dlist. reflexivity.
Qed.

Lemma cnt_ok_u32 : forall b n, 0 <= n -> cnt_ok b n = true ->
  wrap_u32 n = n /\ in_stag SU32 n = true.
Proof.
  intros b n H0 H. unfold cnt_ok in H. apply andb_prop in H as [H _].
  unfold wrap_u32, two32 in *. cbn [in_stag]. unfold two32. split; [rewrite Z.mod_small|]; lia.
Qed.

(* ------------------------------------------------------------ injectivity *)

Definition P_inj (t : ty) : Prop :=
  ty_ok t = true -> prefix_inj (fun v => val_ok t v = true) (fun p v => enc_raw p t v).

Definition Q_inj (ms : members) : Prop :=
  ms_ok ms = true ->
  forall pos vs1 vs2 b1 b2 r1 r2,
    vals_ok (tys_of ms) vs1 = true -> vals_ok (tys_of ms) vs2 = true ->
    enc_vals pos ms vs1 = Ok b1 -> enc_vals pos ms vs2 = Ok b2 -> b1 ++ r1 = b2 ++ r2 -> vs1 = vs2.

Lemma elems_inj : forall e, P_inj e -> ty_ok e = true ->
  forall pos v1 v2 n1 n2 b1 b2 r1 r2,
    elems_ok e v1 n1 = true -> elems_ok e v2 n2 = true ->
    len (elem_values v1) = len (elem_values v2) ->
    enc_elems pos e v1 = Ok b1 -> enc_elems pos e v2 = Ok b2 -> b1 ++ r1 = b2 ++ r2 -> v1 = v2.
Proof.
  intros e IH Ht pos v1 v2 n1 n2 b1 b2 r1 r2 H1 H2 Hl E1 E2 H.
  rewrite (enc_elems_as_list _ _ _ _ Ht H1) in E1. rewrite (enc_elems_as_list _ _ _ _ Ht H2) in E2.
  eapply elem_values_inj; eauto.
  eapply (enc_list_prefix_inj _ _ _ (IH Ht)); eauto.
  - apply (elems_ok_values _ _ _ H1).
  - apply (elems_ok_values _ _ _ H2).
  - unfold len in Hl. lia.
Qed.

Lemma enc_inj : (forall t, P_inj t) /\ (forall ms, Q_inj ms).
Proof.
  apply ty_members_ind.
  - (* prim *) intros p _ pos v1 v2 b1 b2 r1 r2 H1 H2 E1 E2 H.
    destruct v1; cbn [val_ok] in H1; try discriminate. destruct v2; cbn [val_ok] in H2; try discriminate.
    apply andb_prop in H1 as [S1 I1]. apply andb_prop in H2 as [S2 I2].
    cbn [enc_raw] in E1, E2. rewrite S1 in E1. rewrite S2 in E2.
    apply stag_eqb_eq in S1, S2. subst. inversion E1; inversion E2; subst.
    apply enc_prim_prefix_inj in H as [-> _]; auto.
  - (* string *) intros b _ pos v1 v2 b1 b2 r1 r2 H1 H2 E1 E2 H.
    destruct v1; cbn [val_ok] in H1; try discriminate. destruct v2; cbn [val_ok] in H2; try discriminate.
    cbn [enc_raw] in E1, E2. inversion E1; inversion E2; subst.
    eapply enc_string_prefix_inj in H as [-> _]; eauto.
  - (* sequence *) intros e IH b Ht pos v1 v2 b1 b2 r1 r2 H1 H2 E1 E2 H.
    cbn [ty_ok] in Ht. apply andb_prop in Ht as [Ht Hte]. apply andb_prop in Ht as [_ Hsup].
    cbn [val_ok] in H1, H2. cbn [enc_raw] in E1, E2.
    rewrite (seq_count _ _ _ H1) in E1. rewrite (seq_count _ _ _ H2) in E2.
    destruct (elems_ok_values _ _ _ H1) as [_ C1]. destruct (elems_ok_values _ _ _ H2) as [_ C2].
    destruct (cnt_ok_u32 _ _ (len_nonneg _ _) C1) as [W1 I1].
    destruct (cnt_ok_u32 _ _ (len_nonneg _ _) C2) as [W2 I2].
    rewrite W1 in E1. rewrite W2 in E2.
    destruct (enc_elems _ e v1) as [c1| |] eqn:Ec1; cbn [bind] in E1; try discriminate.
    destruct (enc_elems _ e v2) as [c2| |] eqn:Ec2; cbn [bind] in E2; try discriminate.
    inversion E1; inversion E2; subst. rewrite <- !app_assoc in H.
    apply enc_prim_prefix_inj in H as [Hn H]; auto.
    rewrite Hn in Ec1. eapply (elems_inj e IH Hte); eauto.
  - (* array *) intros e IH dims Ht pos v1 v2 b1 b2 r1 r2 H1 H2 E1 E2 H.
    cbn [ty_ok] in Ht. apply andb_prop in Ht as [Ht Hte].
    cbn [val_ok] in H1, H2. cbn [enc_raw] in E1, E2.
    destruct (elems_ok_values _ _ _ H1) as [_ C1]. destruct (elems_ok_values _ _ _ H2) as [_ C2].
    apply Z.eqb_eq in C1, C2.
    eapply (elems_inj e IH Hte); eauto. congruence.
  - (* struct *) intros x ms IH Ht pos v1 v2 b1 b2 r1 r2 H1 H2 E1 E2 H.
    pose proof (struct_not_mutable _ _ Ht) as Hx.
    cbn [ty_ok] in Ht. apply andb_prop in Ht as [Ht _]. apply andb_prop in Ht as [Ht Hms].
    apply andb_prop in Ht as [_ Hnd].
    destruct v1; cbn [val_ok] in H1; try discriminate. destruct v2; cbn [val_ok] in H2; try discriminate.
    rewrite enc_raw_struct in E1, E2 by auto.
    rewrite enc_fs_fvals in E1, E2 by auto.
    f_equal. apply fields_of_ids_vals.
    + rewrite (fs_ok_ids _ _ H1), (fs_ok_ids _ _ H2). reflexivity.
    + eapply (IH Hms); eauto using fs_ok_vals.
  - (* MNil *) intros _ pos vs1 vs2 b1 b2 r1 r2 H1 H2 _ _ _.
    destruct vs1, vs2; cbn in H1, H2; try discriminate; auto.
  - (* MCons *) intros id k o t IHt r IHr Hms pos vs1 vs2 b1 b2 r1 r2 H1 H2 E1 E2 H.
    cbn [ms_ok] in Hms. apply andb_prop in Hms as [Hms Hr]. apply andb_prop in Hms as [Ho Ht].
    apply negb_true_iff in Ho. subst o.
    destruct vs1 as [|v1 vs1]; cbn [tys_of vals_ok] in H1; try discriminate.
    destruct vs2 as [|v2 vs2]; cbn [tys_of vals_ok] in H2; try discriminate.
    apply andb_prop in H1 as [V1 H1]. apply andb_prop in H2 as [V2 H2].
    cbn [enc_vals] in E1, E2.
    destruct (enc_raw pos t v1) as [c1| |] eqn:Ec1; cbn [bind] in E1; try discriminate.
    destruct (enc_vals (pos + len c1) r vs1) as [d1| |] eqn:Ed1; cbn [bind] in E1; try discriminate.
    destruct (enc_raw pos t v2) as [c2| |] eqn:Ec2; cbn [bind] in E2; try discriminate.
    destruct (enc_vals (pos + len c2) r vs2) as [d2| |] eqn:Ed2; cbn [bind] in E2; try discriminate.
    inversion E1; inversion E2; subst. rewrite <- !app_assoc in H.
    assert (v1 = v2) by (eapply (IHt Ht); eauto). subst v2.
    rewrite Ec1 in Ec2. inversion Ec2; subst c2. apply app_inv_head in H.
    f_equal. eapply (IHr Hr); eauto.
Qed.

(* the serialized keys of two well-formed key-value lists, each followed by anything *)
Theorem enc_vals_prefix_inj : forall ms pos vs1 vs2 b1 b2 r1 r2,
  ms_ok ms = true ->
  vals_ok (tys_of ms) vs1 = true -> vals_ok (tys_of ms) vs2 = true ->
  enc_vals pos ms vs1 = Ok b1 -> enc_vals pos ms vs2 = Ok b2 -> b1 ++ r1 = b2 ++ r2 -> vs1 = vs2.
Proof. intros. eapply (proj2 enc_inj ms); eauto. Qed.
