(* Model of dds/src/dcps/xtypes_glue/key_and_instance_handle.rs together with the part
   of xtypes/serializer.rs it drives (serialize_final_without_header: big-endian,
   EncodingVersion1).  Definitions only.

   Representation choices
   * DynamicType: `ty`; a STRUCTURE carries its member_list in declaration order,
     every member with (id, is_key, is_optional, type).
   * DynamicData.abstract_data (BTreeMap<MemberId, DataStorage>): `fields`, a finite
     map searched by member id (first match).  The canonical presentation used by the
     correspondence run lists the entries in member-declaration order.
   * DataStorage: `value`; scalars carry their storage variant (`stag`), so a value of
     the wrong variant makes the typed getters fail exactly as in the code.
   * A nested DynamicData is assumed to carry the type its member descriptor declares.
   * bytes, positions, lengths: Z.
   Not modelled (the model answers Err 9 "unsupported"): optional members inside the
   key, MUTABLE nested key structures (parameter-list encoding), enum/union/bitmask/
   wstring/map members. *)
From DustDDS Require Export Base.Machine KeyHash.Md5Model.
Open Scope Z_scope.

(* ---------------------------------------------------------------- types *)

Inductive prim : Type :=
| PBool | PByte | PU8 | PI8 | PU16 | PI16 | PU32 | PI32 | PU64 | PI64
| PF32 | PF64 | PF128 | PChar8.

(* DataStorage scalar variants / element kind of the DataStorage::Sequence* variants *)
Inductive stag : Type :=
| SBool | SU8 | SI8 | SU16 | SI16 | SU32 | SI32 | SU64 | SI64 | SF32 | SF64 | SF128 | SChar8.

Inductive ext : Type := Final | Appendable | Mutable.

Inductive ty : Type :=
| TPrim (p : prim)
| TStr (bound : Z)                       (* STRING8; 0 = unbounded *)
| TSeq (e : ty) (bound : Z)              (* 0 = unbounded *)
| TArr (e : ty) (dims : list Z)
| TStruct (x : ext) (ms : members)
with members : Type :=
| MNil
| MCons (id : Z) (key opt : bool) (t : ty) (rest : members).

Inductive value : Type :=
| VPrim (s : stag) (z : Z)               (* floats: the IEEE bit pattern; f128: the i128 *)
| VStr (bs : list Z)                     (* the UTF-8 bytes of the String *)
| VStruct (d : fields)                   (* ComplexValue *)
| VSeqPrim (s : stag) (zs : list Z)
| VSeqStr (ss : list (list Z))
| VSeqStruct (ds : fieldss)              (* SequenceComplexValue *)
with fields : Type :=
| FNil
| FCons (id : Z) (v : value) (rest : fields)
with fieldss : Type :=
| DNil
| DCons (d : fields) (rest : fieldss).

(* error codes: XTypesError variants reachable here *)
Definition E_INVALID_ID : Z := 1.
Definition E_INVALID_TYPE : Z := 2.
Definition E_UNSUPPORTED : Z := 9.      (* outside the modelled fragment *)
Definition P_TODO : Z := 1.             (* todo!() in serialize_elements *)

Definition stag_of (p : prim) : stag :=
  match p with
  | PBool => SBool | PByte => SU8 | PU8 => SU8 | PI8 => SI8 | PU16 => SU16 | PI16 => SI16
  | PU32 => SU32 | PI32 => SI32 | PU64 => SU64 | PI64 => SI64
  | PF32 => SF32 | PF64 => SF64 | PF128 => SF128 | PChar8 => SChar8
  end.

Definition stag_eqb (a b : stag) : bool :=
  match a, b with
  | SBool, SBool | SU8, SU8 | SI8, SI8 | SU16, SU16 | SI16, SI16 | SU32, SU32 | SI32, SI32
  | SU64, SU64 | SI64, SI64 | SF32, SF32 | SF64, SF64 | SF128, SF128 | SChar8, SChar8 => true
  | _, _ => false
  end.

(* Ossize::SSIZE *)
Definition ssize (s : stag) : Z :=
  match s with
  | SBool | SU8 | SI8 | SChar8 => 1
  | SU16 | SI16 => 2
  | SU32 | SI32 | SF32 => 4
  | SU64 | SI64 | SF64 => 8
  | SF128 => 16
  end.

(* value range of the Rust scalar held by the variant *)
Definition in_stag (s : stag) (z : Z) : bool :=
  match s with
  | SBool => (0 <=? z) && (z <=? 1)
  | SU8 => (0 <=? z) && (z <? 256)
  | SI8 => (-128 <=? z) && (z <? 128)
  | SU16 => (0 <=? z) && (z <? 65536)
  | SI16 => (-32768 <=? z) && (z <? 32768)
  | SU32 | SF32 => (0 <=? z) && (z <? two32)
  | SI32 => (i32_min <=? z) && (z <=? i32_max)
  | SU64 | SF64 => (0 <=? z) && (z <? two64)
  | SI64 => (i64_min <=? z) && (z <=? i64_max)
  | SF128 => (- (two64 * two64 / 2) <=? z) && (z <? two64 * two64 / 2)
  | SChar8 => (0 <=? z) && (z <? 256)         (* the chars one octet can carry (ISO 8859-1) *)
  end.

(* ------------------------------------------------------------- CdrWriter *)

(* CdrWriter::pad: position.div_ceil(alignment) * alignment - position zero bytes *)
Definition align_up (pos a : Z) : Z := (pos + a - 1) / a * a.
Definition zeros (n : Z) : list Z := repeat 0 (Z.to_nat n).
Definition pad_to (pos a : Z) : list Z := zeros (align_up pos a - pos).

Definition len {A : Type} (b : list A) : Z := Z.of_nat (length b).

(* n bytes, most significant first, of z mod 2^(8n): to_be_bytes of the two's complement *)
Fixpoint be_bytes (n : nat) (z : Z) : list Z :=
  match n with
  | O => []
  | S k => (z / 2 ^ (8 * Z.of_nat k)) mod 256 :: be_bytes k z
  end.

(* AsBytes *)
Definition prim_bytes (s : stag) (z : Z) : list Z :=
  match s with
  | SBool => [if z =? 0 then 0 else 1]
  | SChar8 => [wrap_u8 z]                  (* `*self as u32 as u8`: one octet *)
  | _ => be_bytes (Z.to_nat (ssize s)) z
  end.

(* serialize_primitive_type with EncodingVersion1::align = pad(min(ssize, 8)) *)
Definition enc_prim (pos : Z) (s : stag) (z : Z) : list Z :=
  pad_to pos (Z.min (ssize s) 8) ++ prim_bytes s z.

(* serialize_string_type: (len + 1) as u32, the bytes, NUL *)
Definition enc_string (pos : Z) (bs : list Z) : list Z :=
  enc_prim pos SU32 (wrap_u32 (len bs + 1)) ++ bs ++ [0].

(* serialize_primitive_slice / the loops of serialize_elements *)
Fixpoint enc_prims (pos : Z) (s : stag) (zs : list Z) : list Z :=
  match zs with
  | [] => []
  | z :: r => let b := enc_prim pos s z in b ++ enc_prims (pos + len b) s r
  end.

Fixpoint enc_strings (pos : Z) (ss : list (list Z)) : list Z :=
  match ss with
  | [] => []
  | s :: r => let b := enc_string pos s in b ++ enc_strings (pos + len b) r
  end.

(* -------------------------------------------------- members and the data map *)

Fixpoint mapp (a b : members) : members :=
  match a with
  | MNil => b
  | MCons id k o t r => MCons id k o t (mapp r b)
  end.

(* DynamicType::get_member: the FIRST member with that id *)
Fixpoint find_member (id : Z) (ms : members) : option (bool * bool * ty) :=
  match ms with
  | MNil => None
  | MCons i k o t r => if i =? id then Some (k, o, t) else find_member id r
  end.

(* the member list as the serializer sees it: position i is served by the first
   member whose id equals the id of member i (serialize_fmember / serialize_value
   look the descriptor up by id) *)
Fixpoint resolve_in (all ms : members) : members :=
  match ms with
  | MNil => MNil
  | MCons id k o t r =>
      match find_member id all with
      | Some (k', o', t') => MCons id k' o' t' (resolve_in all r)
      | None => MCons id k o t (resolve_in all r)
      end
  end.
Definition resolve (ms : members) : members := resolve_in ms ms.

(* the same lookup-by-id view applied inside every nested structure *)
Fixpoint norm (t : ty) : ty :=
  match t with
  | TPrim p => TPrim p
  | TStr b => TStr b
  | TSeq e b => TSeq (norm e) b
  | TArr e d => TArr (norm e) d
  | TStruct x ms => TStruct x (resolve (norm_ms ms))
  end
with norm_ms (ms : members) : members :=
  match ms with
  | MNil => MNil
  | MCons id k o t r => MCons id k o (norm t) (norm_ms r)
  end.

(* BTreeMap::get / insert *)
Fixpoint lookup (id : Z) (d : fields) : option value :=
  match d with
  | FNil => None
  | FCons i v r => if i =? id then Some v else lookup id r
  end.

Fixpoint remove (id : Z) (d : fields) : fields :=
  match d with
  | FNil => FNil
  | FCons i v r => if i =? id then remove id r else FCons i v (remove id r)
  end.

(* insert replaces; the new entry is presented last *)
Fixpoint fapp (a b : fields) : fields :=
  match a with FNil => b | FCons i v r => FCons i v (fapp r b) end.
Definition set_value (id : Z) (v : value) (d : fields) : fields :=
  fapp (remove id d) (FCons id v FNil).

Definition get_value (id : Z) (d : fields) : res value :=
  match lookup id d with Some v => Ok v | None => Err E_INVALID_ID end.

Fixpoint dlen (ds : fieldss) : Z := match ds with DNil => 0 | DCons _ r => 1 + dlen r end.

Definition is_struct (t : ty) : bool := match t with TStruct _ _ => true | _ => false end.

(* ----------------------------------------------------------- serializer *)

Definition seq_elem_supported (e : ty) : bool :=
  match e with TSeq _ _ | TArr _ _ => false | _ => true end.

(* serialize_value / serialize_elements / serialize_fstruct_type on a type whose
   member lists are already in lookup-by-id form (norm) *)
Fixpoint enc_raw (pos : Z) (t : ty) (v : value) {struct t} : res (list Z) :=
  match t with
  | TPrim p =>
      match v with
      | VPrim s z => if stag_eqb s (stag_of p) then Ok (enc_prim pos s z) else Err E_INVALID_TYPE
      | _ => Err E_INVALID_TYPE
      end
  | TStr _ =>
      match v with
      | VStr bs => Ok (enc_string pos bs)
      | _ => Err E_INVALID_TYPE
      end
  | TSeq e _ =>
      (* serialize_length: the storage's length (1 for a scalar variant), then the elements *)
      let n := match v with
               | VSeqPrim _ zs => len zs | VSeqStr ss => len ss
               | VSeqStruct ds => dlen ds
               | _ => 1 end in
      let h := enc_prim pos SU32 (wrap_u32 n) in
      b <- enc_elems (pos + len h) e v ;; Ok (h ++ b)
  | TArr e _ => enc_elems pos e v
  | TStruct x ms =>
      match v with
      | VStruct d =>
          match x with
          | Mutable => Err E_UNSUPPORTED
          | _ => enc_fs pos ms d
          end
      | _ => Err E_INVALID_TYPE
      end
  end
with enc_elems (pos : Z) (e : ty) (v : value) {struct e} : res (list Z) :=
  match e with
  | TPrim p =>
      match v with
      | VSeqPrim s zs => if stag_eqb s (stag_of p) then Ok (enc_prims pos s zs) else Err E_INVALID_TYPE
      | _ => Err E_INVALID_TYPE
      end
  | TStr _ =>
      match v with
      | VSeqStr ss => Ok (enc_strings pos ss)
      | _ => Err E_INVALID_TYPE
      end
  | TStruct x ms =>
      match v with
      | VSeqStruct ds =>
          match x with
          | Mutable => Err E_UNSUPPORTED
          | _ =>
            (fix go (pos : Z) (ds : fieldss) : res (list Z) :=
               match ds with
               | DNil => Ok []
               | DCons d r => b <- enc_fs pos ms d ;; bs <- go (pos + len b) r ;; Ok (b ++ bs)
               end) pos ds
          end
      | _ => Err E_INVALID_TYPE
      end
  | TSeq _ _ | TArr _ _ => Panic P_TODO
  end
with enc_fs (pos : Z) (ms : members) (d : fields) {struct ms} : res (list Z) :=
  match ms with
  | MNil => Ok []
  | MCons id _ opt t r =>
      if opt then Err E_UNSUPPORTED
      else v <- get_value id d ;;
           b <- enc_raw pos t v ;;
           bs <- enc_fs (pos + len b) r d ;;
           Ok (b ++ bs)
  end.

(* serialize_fstruct_type on a DynamicData whose type has member list ms *)
Definition enc_fstruct (ms : members) (d : fields) : res (list Z) :=
  enc_fs 0 (resolve (norm_ms ms)) d.

(* ------------------------------------------- key holder (type and data) *)

(* fill_struct_key_holder_type: key members, depth first through non-key, non-optional
   nested structures ... *)
Fixpoint kh_collect (t : ty) : members :=
  match t with
  | TStruct _ ms => kh_collect_ms ms
  | _ => MNil
  end
with kh_collect_ms (ms : members) : members :=
  match ms with
  | MNil => MNil
  | MCons id k o t r =>
      if k then MCons id k o t (kh_collect_ms r)
      else if is_struct t && negb o then mapp (kh_collect t) (kh_collect_ms r)
      else kh_collect_ms r
  end.

(* ... each pushed with id = index = member_list.len(): numbered afresh 0, 1, 2, ...
   (member ids are only unique inside the structure they come from) *)
Fixpoint renumber (n : Z) (ms : members) : members :=
  match ms with
  | MNil => MNil
  | MCons _ k o t r => MCons n k o t (renumber (n + 1) r)
  end.

Definition kh_type (t : ty) : members := renumber 0 (kh_collect t).

(* fill_struct_key_holder_data: set_value(next_key_id, value.get_value(id)?) into ONE map,
   next_key_id counting in the same traversal order; state = (map, next_key_id) *)
Fixpoint kh_fill_ty (t : ty) (d : fields) (st : fields * Z) : res (fields * Z) :=
  match t with
  | TStruct _ ms => kh_fill ms d st
  | _ => Ok st
  end
with kh_fill (ms : members) (d : fields) (st : fields * Z) : res (fields * Z) :=
  match ms with
  | MNil => Ok st
  | MCons id k o t r =>
      if k then v <- get_value id d ;; kh_fill r d (set_value (snd st) v (fst st), snd st + 1)
      else if is_struct t && negb o then
        v <- get_value id d ;;
        match v with
        | VStruct d' => st' <- kh_fill_ty t d' st ;; kh_fill r d st'
        | _ => Err E_INVALID_TYPE
        end
      else kh_fill r d st
  end.

(* KeyHolderData::from_dynamic_data: (member list, data) *)
Definition key_holder_data (t : ty) (d : fields) : res fields :=
  st <- kh_fill_ty t d (FNil, 0) ;; Ok (fst st).

(* the big-endian serialization of the key holder *)
Definition key_bytes (t : ty) (d : fields) : res (list Z) :=
  kd <- key_holder_data t d ;; enc_fstruct (kh_type t) kd.

Definition pad16 (b : list Z) : list Z := b ++ zeros (16 - len b).

(* get_instance_handle_from_key_holder_data: the ACTUAL length decides *)
Definition handle_of_bytes (b : list Z) : list Z :=
  if len b <=? 16 then pad16 b else md5 b.

(* get_instance_handle_from_dynamic_data (writer side: write/register/dispose/
   unregister/lookup_instance; reader side: on the decoded sample) *)
Definition instance_handle (t : ty) (d : fields) : res (list Z) :=
  b <- key_bytes t d ;; Ok (handle_of_bytes b).

(* reader side, NotAlive* change without key hash: the serialized key is decoded with
   the key-holder type (descriptor of the topic type, member list = key members) and
   the handle is computed from that DynamicData *)
Definition key_holder_ty (t : ty) : ty :=
  match t with TStruct x _ => TStruct x (kh_type t) | _ => t end.
Definition reader_handle_from_key (t : ty) (decoded_key : fields) : res (list Z) :=
  instance_handle (key_holder_ty t) decoded_key.

(* reader side with PID_KEY_HASH: the 16 bytes of the inline QoS are the handle *)
Definition reader_handle_from_keyhash (h : list Z) : list Z := h.

(* the whole reader side of communication_methods.rs:218-274 / builtin_data_reader.rs:
   74-123 for a received change (alive or not, optional PID_KEY_HASH, payload), over an
   XCDR decoder for samples and one for serialized keys *)
Definition E_DECODE_SAMPLE : Z := 20.
Definition E_DECODE_KEY : Z := 22.
Definition reader_handle (decode_sample decode_key : ty -> list Z -> option fields)
    (t : ty) (alive : bool) (key_hash : option (list Z)) (payload : list Z) : res (list Z) :=
  match key_hash with
  | Some h => Ok (reader_handle_from_keyhash h)
  | None =>
      if alive then
        match decode_sample t payload with
        | Some d => instance_handle t d
        | None => Err E_DECODE_SAMPLE
        end
      else
        match decode_key (key_holder_ty t) payload with
        | Some kd => reader_handle_from_key t kd
        | None => Err E_DECODE_KEY
        end
  end.

(* two different serialized keys on which MD5 (or MD5 and zero padding) coincide *)
Definition md5_coincidence (b1 b2 : list Z) : Prop :=
  b1 <> b2 /\
  ((16 < len b1 /\ 16 < len b2 /\ md5 b1 = md5 b2) \/
   (len b1 <= 16 < len b2 /\ pad16 b1 = md5 b2) \/
   (len b2 <= 16 < len b1 /\ md5 b1 = pad16 b2)).

(* ------------------------------------------ the key of a sample (specification) *)

(* the values of the key members, in key-holder order *)
Fixpoint key_vals_ty (t : ty) (d : fields) : res (list value) :=
  match t with
  | TStruct _ ms => key_vals ms d
  | _ => Ok []
  end
with key_vals (ms : members) (d : fields) : res (list value) :=
  match ms with
  | MNil => Ok []
  | MCons id k o t r =>
      if k then v <- get_value id d ;; vs <- key_vals r d ;; Ok (v :: vs)
      else if is_struct t && negb o then
        v <- get_value id d ;;
        match v with
        | VStruct d' => a <- key_vals_ty t d' ;; vs <- key_vals r d ;; Ok (a ++ vs)
        | _ => Err E_INVALID_TYPE
        end
      else key_vals r d
  end.

(* ------------------------------------------------- C12: the 7.6.8 rule *)

Definition cap16 (e : Z) : option Z := if e <=? 16 then Some e else None.

Fixpoint iter_opt (n : nat) (f : Z -> option Z) (pos : Z) : option Z :=
  match n with
  | O => Some pos
  | S k => match f pos with Some p => iter_opt k f p | None => None end
  end.

Fixpoint prod (l : list Z) : Z := match l with [] => 1 | x :: r => x * prod r end.

(* Some e: every value of the type written at pos ends at or before e <= 16;
   None: unbounded, or the maximum may pass 16 *)
Fixpoint max_end (pos : Z) (t : ty) : option Z :=
  match t with
  | TPrim p => cap16 (align_up pos (Z.min (ssize (stag_of p)) 8) + ssize (stag_of p))
  | TStr b => if (0 <? b) && (b <=? 16) then cap16 (align_up pos 4 + 4 + b + 1) else None
  | TSeq e b =>
      if (0 <? b) && (b <=? 16) then iter_opt (Z.to_nat b) (fun p => max_end p e) (align_up pos 4 + 4)
      else None
  | TArr e dims =>
      let n := prod dims in
      if (0 <=? n) && (n <=? 16) then iter_opt (Z.to_nat n) (fun p => max_end p e) pos else None
  | TStruct _ ms => max_end_ms pos ms
  end
with max_end_ms (pos : Z) (ms : members) : option Z :=
  match ms with
  | MNil => cap16 pos
  | MCons _ _ _ t r => match max_end pos t with Some p => max_end_ms p r | None => None end
  end.

(* "the key's maximum serialized size is at most 16 bytes" *)
Definition key_max_le16 (t : ty) : bool :=
  match max_end_ms 0 (kh_type t) with Some _ => true | None => false end.

(* DDS-XTypes 7.6.8 as stated by the property *)
Definition spec_handle (t : ty) (d : fields) : res (list Z) :=
  b <- key_bytes t d ;; Ok (if key_max_le16 t then pad16 b else md5 b).

(* the class in which the code's actual-length test and the standard's maximum-size
   test disagree: the key type may pass 16 bytes, this value's key does not *)
Definition short_of_long (t : ty) (d : fields) : bool :=
  negb (key_max_le16 t) &&
  match key_bytes t d with Ok b => len b <=? 16 | _ => false end.

(* ------------------------------------------------------- well-formedness *)

Fixpoint ids_of (ms : members) : list Z :=
  match ms with MNil => [] | MCons id _ _ _ r => id :: ids_of r end.

Fixpoint mem (x : Z) (l : list Z) : bool :=
  match l with [] => false | y :: r => (x =? y) || mem x r end.
Fixpoint nodup (l : list Z) : bool :=
  match l with [] => true | x :: r => negb (mem x r) && nodup r end.

(* the fragment the theorems speak about: inside a key no optional member, no
   MUTABLE structure, no sequence/array of sequence/array (todo!() in the code),
   member ids unique within each structure, non-empty structures, array
   dimensions >= 1, bounds in u32 *)
Fixpoint ty_ok (t : ty) : bool :=
  match t with
  | TPrim _ => true
  | TStr b => (0 <=? b) && (b <? u32_max)
  | TSeq e b => (0 <=? b) && (b <? u32_max) && seq_elem_supported e && ty_ok e
  | TArr e dims => forallb (fun x => 1 <=? x) dims && seq_elem_supported e && ty_ok e
  | TStruct x ms =>
      match x with Mutable => false | _ => true end && nodup (ids_of ms) && ms_ok ms
      && match ms with MNil => false | _ => true end
  end
with ms_ok (ms : members) : bool :=
  match ms with
  | MNil => true
  | MCons _ _ o t r => negb o && ty_ok t && ms_ok r
  end.

Fixpoint fids_of (d : fields) : list Z :=
  match d with FNil => [] | FCons i _ r => i :: fids_of r end.

Definition str_ok (b : Z) (bs : list Z) : bool :=
  forallb (fun x => (0 <=? x) && (x <? 256)) bs && (len bs <? u32_max)
  && ((b =? 0) || (len bs <=? b)).

Definition cnt_ok (b n : Z) : bool := (n <? two32) && ((b =? 0) || (n <=? b)).

(* a value a sample of type t can hold: right storage variant, scalars in range,
   strings/sequences within their bounds, arrays complete, structures presented
   with exactly their members in declaration order *)
Fixpoint val_ok (t : ty) (v : value) {struct t} : bool :=
  match t with
  | TPrim p => match v with VPrim s z => stag_eqb s (stag_of p) && in_stag s z | _ => false end
  | TStr b => match v with VStr bs => str_ok b bs | _ => false end
  | TSeq e b => elems_ok e v (fun n => cnt_ok b n)
  | TArr e dims => elems_ok e v (fun n => n =? prod dims)
  | TStruct _ ms => match v with VStruct d => fs_ok ms d | _ => false end
  end
with elems_ok (e : ty) (v : value) (nok : Z -> bool) {struct e} : bool :=
  match e with
  | TPrim p =>
      match v with
      | VSeqPrim s zs => stag_eqb s (stag_of p) && forallb (in_stag s) zs && nok (len zs)
      | _ => false
      end
  | TStr b => match v with VSeqStr ss => forallb (str_ok b) ss && nok (len ss) | _ => false end
  | TStruct _ ms =>
      match v with
      | VSeqStruct ds =>
          (fix all (ds : fieldss) : bool :=
             match ds with DNil => true | DCons d r => fs_ok ms d && all r end) ds
          && nok (dlen ds)
      | _ => false
      end
  | _ => false
  end
with fs_ok (ms : members) (d : fields) {struct ms} : bool :=
  match ms with
  | MNil => match d with FNil => true | _ => false end
  | MCons id _ _ t r =>
      match d with
      | FCons i v d' => (i =? id) && val_ok t v && fs_ok r d'
      | FNil => false
      end
  end.

Fixpoint tys_of (ms : members) : list ty :=
  match ms with MNil => [] | MCons _ _ _ t r => t :: tys_of r end.

Fixpoint vals_ok (ts : list ty) (vs : list value) : bool :=
  match ts, vs with
  | [], [] => true
  | t :: ts', v :: vs' => val_ok t v && vals_ok ts' vs'
  | _, _ => false
  end.

(* the keyed type is inside the fragment; the flattened key holder has no two members
   with the same id (always true since the members are numbered afresh: fix c1628d5 of
   finding C11-key-id-collision) *)
Definition key_type_ok (t : ty) : bool := ms_ok (kh_type t).
Definition key_ids_unique (t : ty) : bool := nodup (ids_of (kh_type t)).

(* the key members of the sample hold well-formed values *)
Definition key_ok (t : ty) (d : fields) : bool :=
  match key_vals_ty t d with
  | Ok vs => vals_ok (tys_of (kh_type t)) vs
  | _ => false
  end.

(* ------------------------------------------------- decidable equality of values *)

Fixpoint list_eqb {A : Type} (eqb : A -> A -> bool) (a b : list A) : bool :=
  match a, b with
  | [], [] => true
  | x :: a', y :: b' => eqb x y && list_eqb eqb a' b'
  | _, _ => false
  end.

Fixpoint value_eqb (a b : value) {struct a} : bool :=
  match a, b with
  | VPrim s z, VPrim s' z' => stag_eqb s s' && (z =? z')
  | VStr x, VStr y => list_eqb Z.eqb x y
  | VStruct d, VStruct d' => fields_eqb d d'
  | VSeqPrim s zs, VSeqPrim s' zs' => stag_eqb s s' && list_eqb Z.eqb zs zs'
  | VSeqStr x, VSeqStr y => list_eqb (list_eqb Z.eqb) x y
  | VSeqStruct ds, VSeqStruct ds' => fieldss_eqb ds ds'
  | _, _ => false
  end
with fields_eqb (a b : fields) {struct a} : bool :=
  match a, b with
  | FNil, FNil => true
  | FCons i v r, FCons i' v' r' => (i =? i') && value_eqb v v' && fields_eqb r r'
  | _, _ => false
  end
with fieldss_eqb (a b : fieldss) {struct a} : bool :=
  match a, b with
  | DNil, DNil => true
  | DCons d r, DCons d' r' => fields_eqb d d' && fieldss_eqb r r'
  | _, _ => false
  end.

(* "the key members of the two samples are equal" *)
Definition keys_eqb (t : ty) (d1 d2 : fields) : bool :=
  match key_vals_ty t d1, key_vals_ty t d2 with
  | Ok a, Ok b => list_eqb value_eqb a b
  | _, _ => false
  end.
