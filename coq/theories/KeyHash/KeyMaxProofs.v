(* C12: max_end bounds the end offset of every well-formed value, hence the rule of
   DDS-XTypes 7.6.8 holds wherever the actual-length test of the code and the
   maximum-size test of the standard agree. *)
From DustDDS Require Import Base.Machine KeyHash.Md5Model KeyHash.KeyModel
  KeyHash.KeyBytesProofs KeyHash.KeyProofs KeyHash.KeyEncProofs KeyHash.KeyMainProofs.
Open Scope Z_scope.

Ltac Zify.zify_post_hook ::= Z.div_mod_to_equations.

Lemma cap16_some : forall x e, cap16 x = Some e -> e = x /\ x <= 16.
Proof. intros x e H. unfold cap16 in H. destruct (x <=? 16) eqn:E; inversion H. lia. Qed.

Lemma iter_opt_ge : forall (g : Z -> option Z), (forall p e, g p = Some e -> p <= e) ->
  forall n p e, iter_opt n g p = Some e -> p <= e.
Proof.
  intros g Hg. induction n as [|n IH]; intros p e H; cbn [iter_opt] in H.
  - inversion H. lia.
  - destruct (g p) as [q|] eqn:E; try discriminate. apply Hg in E. apply IH in H. lia.
Qed.

Lemma max_end_ge :
  (forall t p e, max_end p t = Some e -> p <= e) /\
  (forall ms p e, max_end_ms p ms = Some e -> p <= e).
Proof.
  apply ty_members_ind.
  - intros pr p e H. cbn [max_end] in H. apply cap16_some in H as [-> _].
    pose proof (align_up_bounds p _ (ssize_pos (stag_of pr))). destruct (stag_of pr); cbn [ssize] in *; lia.
  - intros b p e H. cbn [max_end] in H. destruct ((0 <? b) && (b <=? 16)) eqn:E; try discriminate.
    apply cap16_some in H as [-> _]. pose proof (align_up_bounds p 4). lia.
  - intros t IH b p e H. cbn [max_end] in H. destruct ((0 <? b) && (b <=? 16)); try discriminate.
    apply iter_opt_ge in H; [|exact IH]. pose proof (align_up_bounds p 4). lia.
  - intros t IH dims p e H. cbn [max_end] in H. destruct ((0 <=? prod dims) && (prod dims <=? 16)); try discriminate.
    apply iter_opt_ge in H; [|exact IH]. lia.
  - intros x ms IH p e H. cbn [max_end] in H. eauto.
  - intros p e H. cbn [max_end_ms] in H. apply cap16_some in H as [-> _]. lia.
  - intros id k o t IHt r IHr p e H. cbn [max_end_ms] in H.
    destruct (max_end p t) as [q|] eqn:E; try discriminate. apply IHt in E. apply IHr in H. lia.
Qed.

(* a list written element after element never ends after n iterations of the bound *)
Lemma enc_list_iter_bound : forall (A : Type) (ok : A -> Prop) f (g : Z -> option Z),
  (forall p p' a b e, ok a -> p <= p' -> f p a = Ok b -> g p' = Some e -> p + len b <= e) ->
  (forall p e, g p = Some e -> p <= e) ->
  forall l n p p' b e, Forall ok l -> (length l <= n)%nat -> p <= p' ->
    enc_list f p l = Ok b -> iter_opt n g p' = Some e -> p + len b <= e.
Proof.
  intros A ok f g Hstep Hge. induction l as [|a l IH]; intros n p p' b e F Hn Hp E I.
  - cbn [enc_list] in E. inversion E. rewrite len_nil. apply (iter_opt_ge g Hge) in I. lia.
  - destruct n as [|n]; [cbn in Hn; lia|]. inversion F; subst.
    cbn [enc_list] in E. cbn [iter_opt] in I.
    destruct (f p a) as [c| |] eqn:Ec; cbn [bind] in E; try discriminate.
    destruct (enc_list f (p + len c) l) as [d| |] eqn:Ed; cbn [bind] in E; try discriminate.
    inversion E; subst. destruct (g p') as [q|] eqn:Eq; try discriminate.
    pose proof (Hstep _ _ _ _ _ H1 Hp Ec Eq).
    rewrite len_app. cbn [length] in Hn.
    pose proof (IH n (p + len c) q d e H2 ltac:(lia) H Ed I). lia.
Qed.

Definition P_max (t : ty) : Prop :=
  ty_ok t = true -> forall pos pos' v b e, val_ok t v = true -> pos <= pos' ->
    enc_raw pos t v = Ok b -> max_end pos' t = Some e -> pos + len b <= e.

Definition Q_max (ms : members) : Prop :=
  ms_ok ms = true -> forall pos pos' vs b e, vals_ok (tys_of ms) vs = true -> pos <= pos' ->
    enc_vals pos ms vs = Ok b -> max_end_ms pos' ms = Some e -> pos + len b <= e.

Lemma elems_max : forall e0, P_max e0 -> ty_ok e0 = true ->
  forall v nok n pos pos' b e, elems_ok e0 v nok = true -> (length (elem_values v) <= n)%nat ->
    pos <= pos' -> enc_elems pos e0 v = Ok b -> iter_opt n (fun p => max_end p e0) pos' = Some e ->
    pos + len b <= e.
Proof.
  intros e0 IH Ht v nok n pos pos' b e H Hn Hp E I.
  rewrite (enc_elems_as_list _ _ _ _ Ht H) in E.
  refine (enc_list_iter_bound value (fun a => val_ok e0 a = true) (fun p a => enc_raw p e0 a)
            (fun p => max_end p e0) _ _ (elem_values v) n pos pos' b e _ Hn Hp E I).
  - intros p p' a b0 e1 Ha Hpp Ea Ma. eapply (IH Ht); eauto.
  - intros p e1 Hm. eapply (proj1 max_end_ge); eauto.
  - apply (elems_ok_values _ _ _ H).
Qed.

Lemma max_end_sound : (forall t, P_max t) /\ (forall ms, Q_max ms).
Proof.
  apply ty_members_ind.
  - (* prim *) intros p _ pos pos' v b e V Hp E M.
    destruct v; cbn [val_ok] in V; try discriminate. apply andb_prop in V as [S I].
    cbn [enc_raw] in E. rewrite S in E. apply stag_eqb_eq in S. subst s. inversion E; subst.
    cbn [max_end] in M. apply cap16_some in M as [-> _].
    rewrite len_enc_prim by auto.
    pose proof (align_up_mono pos pos' _ (ssize_pos (stag_of p)) Hp). lia.
  - (* string *) intros bd _ pos pos' v b e V Hp E M.
    destruct v; cbn [val_ok] in V; try discriminate.
    cbn [enc_raw] in E. inversion E; subst.
    cbn [max_end] in M. destruct ((0 <? bd) && (bd <=? 16)) eqn:B; try discriminate.
    apply cap16_some in M as [-> _]. rewrite (len_enc_string _ _ _ V).
    pose proof (align_up_mono pos pos' 4 ltac:(lia) Hp).
    unfold str_ok in V. apply andb_prop in V as [_ V]. lia.
  - (* sequence *) intros e0 IH bd Ht pos pos' v b e V Hp E M.
    cbn [ty_ok] in Ht. apply andb_prop in Ht as [Ht Hte].
    cbn [val_ok] in V. cbn [enc_raw] in E. rewrite (seq_count _ _ _ V) in E.
    destruct (elems_ok_values _ _ _ V) as [_ C].
    destruct (cnt_ok_u32 _ _ (len_nonneg _ _) C) as [W I]. rewrite W in E.
    destruct (enc_elems _ e0 v) as [c| |] eqn:Ec; cbn [bind] in E; try discriminate.
    inversion E; subst. cbn [max_end] in M. destruct ((0 <? bd) && (bd <=? 16)) eqn:B; try discriminate.
    rewrite len_app, len_enc_prim in * by auto. cbn [ssize] in *. change (Z.min 4 8) with 4 in *.
    pose proof (align_up_mono pos pos' 4 ltac:(lia) Hp).
    pose proof (align_up_bounds pos 4 ltac:(lia)).
    assert (G : pos + (align_up pos 4 - pos + 4) + len c <= e).
    { refine (elems_max e0 IH Hte v _ (Z.to_nat bd) _ (align_up pos' 4 + 4) c e V _ _ Ec M); [|lia].
      unfold cnt_ok in C. apply andb_prop in C as [_ C]. unfold len in C. lia. }
    lia.
  - (* array *) intros e0 IH dims Ht pos pos' v b e V Hp E M.
    cbn [ty_ok] in Ht. apply andb_prop in Ht as [Ht Hte].
    cbn [val_ok] in V. cbn [enc_raw] in E.
    destruct (elems_ok_values _ _ _ V) as [_ C]. apply Z.eqb_eq in C.
    cbn [max_end] in M. destruct ((0 <=? prod dims) && (prod dims <=? 16)) eqn:B; try discriminate.
    refine (elems_max e0 IH Hte v _ (Z.to_nat (prod dims)) pos pos' b e V _ Hp E M). unfold len in C. lia.
  - (* struct *) intros x ms IH Ht pos pos' v b e V Hp E M.
    pose proof (struct_not_mutable _ _ Ht) as Hx.
    cbn [ty_ok] in Ht. apply andb_prop in Ht as [Ht _]. apply andb_prop in Ht as [Ht Hms].
    apply andb_prop in Ht as [_ Hnd].
    destruct v; cbn [val_ok] in V; try discriminate.
    rewrite enc_raw_struct in E by auto. rewrite enc_fs_fvals in E by auto.
    cbn [max_end] in M. eapply (IH Hms); eauto using fs_ok_vals.
  - (* MNil *) intros _ pos pos' vs b e V Hp E M.
    destruct vs; cbn in V; try discriminate. cbn [enc_vals] in E. inversion E.
    cbn [max_end_ms] in M. apply cap16_some in M as [-> _]. rewrite len_nil. lia.
  - (* MCons *) intros id k o t IHt r IHr Hms pos pos' vs b e V Hp E M.
    cbn [ms_ok] in Hms. apply andb_prop in Hms as [Hms Hr]. apply andb_prop in Hms as [Ho Ht].
    apply negb_true_iff in Ho. subst o.
    destruct vs as [|v vs]; cbn [tys_of vals_ok] in V; try discriminate.
    apply andb_prop in V as [V1 V2]. cbn [enc_vals] in E.
    destruct (enc_raw pos t v) as [c| |] eqn:Ec; cbn [bind] in E; try discriminate.
    destruct (enc_vals (pos + len c) r vs) as [d| |] eqn:Ed; cbn [bind] in E; try discriminate.
    inversion E; subst. cbn [max_end_ms] in M.
    destruct (max_end pos' t) as [q|] eqn:Eq; try discriminate.
    pose proof (IHt Ht _ _ _ _ _ V1 Hp Ec Eq).
    pose proof (IHr Hr _ _ _ _ _ V2 H Ed M). rewrite len_app. lia.
Qed.

(* a key type whose maximum serialized size is at most 16 bytes never serializes longer *)
Theorem key_max_le16_sound : forall t d b,
  key_type_ok t = true -> key_ids_unique t = true -> key_ok t d = true ->
  key_max_le16 t = true -> key_bytes t d = Ok b -> len b <= 16.
Proof.
  intros t d b Hok Hu K M E. unfold key_ok in K.
  destruct (key_vals_ty t d) as [vs| |] eqn:V; try discriminate.
  rewrite (key_bytes_vals t d vs) in E by auto.
  unfold key_max_le16 in M. destruct (max_end_ms 0 (kh_type t)) as [e|] eqn:Em; try discriminate.
  pose proof (proj2 max_end_sound (kh_type t) Hok 0 0 vs b e K ltac:(lia) E Em).
  assert (e <= 16).
  { clear - Em. revert Em. generalize 0. induction (kh_type t) as [|i k o t0 r IH]; intros p H; cbn [max_end_ms] in H.
    - apply cap16_some in H. lia.
    - destruct (max_end p t0); try discriminate. eauto. }
  lia.
Qed.

(* C12 outside the recorded class: the handle is the one DDS-XTypes 7.6.8 prescribes *)
Theorem spec_handle_outside_class : forall t d,
  key_type_ok t = true -> key_ids_unique t = true -> key_ok t d = true ->
  short_of_long t d = false -> instance_handle t d = spec_handle t d.
Proof.
  intros t d Hok Hu K S. unfold instance_handle, spec_handle, short_of_long in *.
  destruct (key_bytes t d) as [b| |] eqn:E; cbn [bind]; auto. f_equal.
  unfold handle_of_bytes. destruct (key_max_le16 t) eqn:M.
  - pose proof (key_max_le16_sound t d b Hok Hu K M E). destruct (len b <=? 16) eqn:L; auto. lia.
  - cbn [negb andb] in S. rewrite S. reflexivity.
Qed.

(* inside the class the rule is false: unbounded string key "ab" *)
Definition t_string_key : ty := TStruct Final (MCons 0 true false (TStr 0) MNil).
Definition d_ab : fields := FCons 0 (VStr [97; 98]) FNil.

Lemma spec_handle_refuted : exists t d,
  key_type_ok t = true /\ key_ids_unique t = true /\ key_ok t d = true /\
  short_of_long t d = true /\
  instance_handle t d = Ok [0;0;0;3;97;98;0;0;0;0;0;0;0;0;0;0] /\
  instance_handle t d <> spec_handle t d.
Proof.
  exists t_string_key, d_ab. repeat split; try (vm_compute; reflexivity). vm_compute. discriminate.
Qed.

(* without the (always true) uniqueness hypothesis *)
Theorem key_max_le16_sound' : forall t d b,
  key_type_ok t = true -> key_ok t d = true ->
  key_max_le16 t = true -> key_bytes t d = Ok b -> len b <= 16.
Proof. intros. eapply key_max_le16_sound; eauto using key_ids_unique_always. Qed.

Theorem spec_handle_outside_class' : forall t d,
  key_type_ok t = true -> key_ok t d = true ->
  short_of_long t d = false -> instance_handle t d = spec_handle t d.
Proof. intros. apply spec_handle_outside_class; auto using key_ids_unique_always. Qed.
