(* Correspondence vocabulary for C11 and C12 (one model, one harness): a case is one
   call of the real key-hash code with its observed outputs. *)
From DustDDS Require Export Base.Machine KeyHash.KeyModel.
Open Scope Z_scope.

(* whole stack: write / dispose / unregister of a sample through a real writer, the
   simulated network (no key hash reaches the reader) and a real reader *)
Inductive sop : Type := SW | SD | SU.

Inductive KH_op : Type :=
| OpH (t : ty) (d1 d2 : fields)     (* writer-side handles of two samples of one type *)
| OpR (t : ty) (d : fields)         (* writer handle and the six reader-side derivations *)
| OpS (t : ty) (ops : list (sop * fields)).
                                    (* per op: DataWriter::lookup_instance, SampleInfo::instance_handle *)

(* a handle as the harness prints it *)
Inductive hres : Type :=
| H (b : list Z)
| HE (code : Z)
| HP.

Record KH_case : Type := mkKH { c_op : KH_op; c_out : list hres }.

Definition hres_of (r : res (list Z)) : hres :=
  match r with Ok b => H b | Err c => HE c | Panic _ => HP end.

Definition hres_eqb (a b : hres) : bool :=
  match a, b with
  | H x, H y => list_eqb Z.eqb x y
  | HE _, HE _ => true       (* which XTypesError is returned is not part of the property *)
  | HP, HP => true
  | _, _ => false
  end.

(* the serialized sample / key is decoded by the XCDR codec (modelled elsewhere: C09).
   This model predicts the reader-side derivations WITHOUT key hash only for sample
   types on which that codec returns the sample it was given; on the real code it does
   not for MUTABLE structures and multi-dimensional arrays (finding
   C11-reader-derivation-codec; FLOAT128 left the class with 0b5427b, optional members
   with addc370) *)
Fixpoint codec_ok (t : ty) : bool :=
  match t with
  | TPrim _ => true
  | TStr _ => true
  | TSeq e _ => codec_ok e
  | TArr e dims => (len dims =? 1) && codec_ok e
  | TStruct x ms => match x with Mutable => false | _ => true end && codec_ok_ms ms
  end
with codec_ok_ms (ms : members) : bool :=
  match ms with
  | MNil => true
  | MCons _ _ _ t r => codec_ok t && codec_ok_ms r
  end.
Definition codec_in_scope (t : ty) : bool := codec_ok t.

Definition KH_run (o : KH_op) : list (option hres) :=
  match o with
  | OpH t d1 d2 =>
      [Some (hres_of (instance_handle t d1)); Some (hres_of (instance_handle t d2))]
  | OpR t d =>

      let w := hres_of (instance_handle t d) in
      match w with
      | H _ =>
          let a := if codec_in_scope t then Some w else None in
          let k := if codec_in_scope t
                   then Some (hres_of (kd <- key_holder_data t d ;; reader_handle_from_key t kd))
                   else None in
          [Some w; a; a; k; k; Some w; Some w]
      | _ => (* write/dispose fail before any change is handed to the transport *)
          [Some w; Some w; Some w; Some w; Some w; Some w; Some w]
      end
  | OpS t ops =>
      flat_map (fun od : sop * fields =>
        let w := hres_of (instance_handle t (snd od)) in
        match w with
        | H _ => [Some w; if codec_in_scope t then Some w else None]
        | _ => [Some w; Some w]     (* the writer refuses: nothing is sent, nothing is taken *)
        end) ops
  end.

Fixpoint outs_agree (m : list (option hres)) (o : list hres) : bool :=
  match m, o with
  | [], [] => true
  | Some x :: m', y :: o' => hres_eqb x y && outs_agree m' o'
  | None :: m', _ :: o' => outs_agree m' o'
  | _, _ => false
  end.

Definition KH_model_ok (c : KH_case) : bool := outs_agree (KH_run (c_op c)) (c_out c).

(* the type and both keys are inside the fragment the property is stated for *)
Definition case_wf (t : ty) (d : fields) : bool := key_type_ok t && key_ok t d.

Definition is_handle (h : hres) : bool :=
  match h with H b => len b =? 16 | _ => false end.

(* ------------------------------------------------------------------ C11 *)

Definition C11_model_ok := KH_model_ok.

Fixpoint all_eq (h : hres) (l : list hres) : bool :=
  match l with [] => true | x :: r => hres_eqb h x && all_eq h r end.

Fixpoint pair_up (l : list hres) : option (list (hres * hres)) :=
  match l with
  | [] => Some []
  | w :: r :: rest => match pair_up rest with Some p => Some ((w, r) :: p) | None => None end
  | _ => None
  end.

Fixpoint reader_iff (t : ty) (l : list (fields * hres)) : bool :=
  match l with
  | [] => true
  | (d, r) :: rest =>
      forallb (fun dr : fields * hres => Bool.eqb (keys_eqb t d (fst dr)) (hres_eqb r (snd dr))) rest
      && reader_iff t rest
  end.

(* same handle iff same key; writer and every reader derivation agree *)
Definition C11_oracle_ok (c : KH_case) : bool :=
  match c_op c, c_out c with
  | OpH t d1 d2, [h1; h2] =>
      if case_wf t d1 && case_wf t d2 then
        is_handle h1 && is_handle h2 && Bool.eqb (keys_eqb t d1 d2) (hres_eqb h1 h2)
      else if keys_eqb t d1 d2 then hres_eqb h1 h2      (* equal keys: unconditional *)
      else true
  | OpR t d, w :: rest =>
      if case_wf t d then is_handle w && all_eq w rest else all_eq w (skipn 4 rest)
  | OpS t ops, outs =>
      match pair_up outs with
      | Some wr =>
          (length wr =? length ops)%nat &&
          (if forallb (fun od : sop * fields => case_wf t (snd od)) ops then
             (* the reader assigns the writer's handle ... *)
             forallb (fun p : hres * hres => is_handle (fst p) && hres_eqb (fst p) (snd p)) wr &&
             (* ... hence, on the reader too, same handle <-> same key *)
             reader_iff t (combine (map snd ops) (map snd wr))
           else true)
      | None => false
      end
  | _, _ => false
  end.

(* class 1: (was: two members of the flattened key holder share a member id, finding
            C11-key-id-collision; fixed by c1628d5, the class is empty: key_ids_unique_always)
   class 2: sample or key travelling without key hash, sample type outside the
            fragment on which the XCDR codec round-trips (finding C11-reader-derivation-codec) *)
Definition C11_known (c : KH_case) : N :=
  match c_op c with
  | OpH t _ _ => if key_ids_unique t then 0%N else 1%N
  | OpR t _ | OpS t _ => if negb (key_ids_unique t) then 1%N
                         else if negb (codec_in_scope t) then 2%N else 0%N
  end.

(* ------------------------------------------------------------------ C12 *)

Definition C12_model_ok := KH_model_ok.

Definition spec_ok (t : ty) (d : fields) (h : hres) : bool :=
  if case_wf t d && key_ids_unique t then hres_eqb h (hres_of (spec_handle t d)) else true.

Definition C12_oracle_ok (c : KH_case) : bool :=
  match c_op c, c_out c with
  | OpH t d1 d2, [h1; h2] => spec_ok t d1 h1 && spec_ok t d2 h2
  | OpR t d, w :: _ => spec_ok t d w
  | OpS t ops, outs =>
      match pair_up outs with
      | Some wr => forallb (fun x : (sop * fields) * (hres * hres) => spec_ok t (snd (fst x)) (fst (snd x)))
                     (combine ops wr)
      | None => false
      end
  | _, _ => false
  end.

(* class 1: the maximum size of the key exceeds 16 bytes (or is unbounded) but this
   value's serialized key is at most 16 bytes long (finding C12-actual-length) *)
Definition C12_known (c : KH_case) : N :=
  match c_op c with
  | OpH t d1 d2 => if short_of_long t d1 || short_of_long t d2 then 1%N else 0%N
  | OpR t d => if short_of_long t d then 1%N else 0%N
  | OpS t ops => if existsb (fun od : sop * fields => short_of_long t (snd od)) ops then 1%N else 0%N
  end.
