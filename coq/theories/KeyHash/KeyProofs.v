(* Proofs about the key-hash model: MD5 test vectors, the handle is a function of the
   key members (C11, <= direction), the reader-side derivation from the key holder. *)
From DustDDS Require Import Base.Machine KeyHash.Md5Model KeyHash.KeyModel.
Open Scope Z_scope.

(* ------------------------------------------------ RFC 1321, appendix A.5 *)

(* the seven test strings of the RFC as ASCII bytes, digests from the RFC text *)
Lemma md5_rfc_1 : (* MD5 ("") = d41d8cd98f00b204e9800998ecf8427e *)
  md5 [] =
  [212;29;140;217;143;0;178;4;233;128;9;152;236;248;66;126].
Proof. vm_compute. reflexivity. Qed.
Lemma md5_rfc_2 : (* MD5 ("a") = 0cc175b9c0f1b6a831c399e269772661 *)
  md5 [97] =
  [12;193;117;185;192;241;182;168;49;195;153;226;105;119;38;97].
Proof. vm_compute. reflexivity. Qed.
Lemma md5_rfc_3 : (* MD5 ("abc") = 900150983cd24fb0d6963f7d28e17f72 *)
  md5 [97;98;99] =
  [144;1;80;152;60;210;79;176;214;150;63;125;40;225;127;114].
Proof. vm_compute. reflexivity. Qed.
Lemma md5_rfc_4 : (* MD5 ("message digest") = f96b697d7cb7938d525a2f31aaf161d0 *)
  md5 [109;101;115;115;97;103;101;32;100;105;103;101;115;116] =
  [249;107;105;125;124;183;147;141;82;90;47;49;170;241;97;208].
Proof. vm_compute. reflexivity. Qed.
Lemma md5_rfc_5 : (* MD5 ("abcdefghijklmnopqrstuvwxyz") = c3fcd3d76192e4007dfb496cca67e13b *)
  md5 [97;98;99;100;101;102;103;104;105;106;107;108;109;110;111;112;113;114;115;116;117;118;119;120;121;122] =
  [195;252;211;215;97;146;228;0;125;251;73;108;202;103;225;59].
Proof. vm_compute. reflexivity. Qed.
Lemma md5_rfc_6 : (* MD5 ("ABCDEFGHIJKLMNOPQRSTUVWXYZabcdefghijklmnopqrstuvwxyz0123456789") = d174ab98d277d9f5a5611c2c9f419d9f *)
  md5 [65;66;67;68;69;70;71;72;73;74;75;76;77;78;79;80;81;82;83;84;85;86;87;88;89;90;97;98;99;100;101;102;103;104;105;106;107;108;109;110;111;112;113;114;115;116;117;118;119;120;121;122;48;49;50;51;52;53;54;55;56;57] =
  [209;116;171;152;210;119;217;245;165;97;28;44;159;65;157;159].
Proof. vm_compute. reflexivity. Qed.
Lemma md5_rfc_7 : (* MD5 ("12345678901234567890123456789012345678901234567890123456789012345678901234567890") = 57edf4a22be3c955ac49da2e2107b67a *)
  md5 [49;50;51;52;53;54;55;56;57;48;49;50;51;52;53;54;55;56;57;48;49;50;51;52;53;54;55;56;57;48;49;50;51;52;53;54;55;56;57;48;49;50;51;52;53;54;55;56;57;48;49;50;51;52;53;54;55;56;57;48;49;50;51;52;53;54;55;56;57;48;49;50;51;52;53;54;55;56;57;48] =
  [87;237;244;162;43;227;201;85;172;73;218;46;33;7;182;122].
Proof. vm_compute. reflexivity. Qed.

(* ------------------------------------------------------------- induction *)

Scheme ty_mind := Induction for ty Sort Prop
  with members_mind := Induction for members Sort Prop.
Combined Scheme ty_members_ind from ty_mind, members_mind.

(* ------------------------------ the key holder is a function of the key values *)

Fixpoint build (ids : list Z) (vs : list value) (acc : fields) : fields :=
  match ids, vs with
  | i :: ids', v :: vs' => build ids' vs' (set_value i v acc)
  | _, _ => acc
  end.

Lemma build_app : forall i1 v1 i2 v2 acc, length i1 = length v1 ->
  build (i1 ++ i2) (v1 ++ v2) acc = build i2 v2 (build i1 v1 acc).
Proof.
  induction i1 as [|i i1 IH]; intros [|v v1] i2 v2 acc Hl; simpl in Hl; try discriminate; auto.
  simpl. apply IH. congruence.
Qed.

Lemma ids_of_mapp : forall a b, ids_of (mapp a b) = ids_of a ++ ids_of b.
Proof. induction a; intros; simpl; congruence. Qed.

Lemma key_vals_length_raw :
  (forall t d vs, key_vals_ty t d = Ok vs -> length vs = length (ids_of (kh_collect t))) /\
  (forall ms d vs, key_vals ms d = Ok vs -> length vs = length (ids_of (kh_collect_ms ms))).
Proof.
  apply ty_members_ind; intros; simpl in *; try (inversion H; reflexivity).
  - inversion H0; reflexivity.
  - inversion H0; reflexivity.
  - eauto.
  - destruct key.
    + destruct (get_value id d) as [v| |]; simpl in *; try discriminate.
      destruct (key_vals rest d) as [vs'| |] eqn:E; simpl in *; try discriminate.
      inversion H1; subst. simpl. f_equal. eauto.
    + destruct (is_struct t && negb opt) eqn:Es.
      * destruct (get_value id d) as [v| |]; simpl in *; try discriminate.
        destruct v; try discriminate.
        destruct (key_vals_ty t d0) as [a| |] eqn:Ea; simpl in *; try discriminate.
        destruct (key_vals rest d) as [vs'| |] eqn:E; simpl in *; try discriminate.
        inversion H1; subst. rewrite ids_of_mapp, !app_length. f_equal; eauto.
      * eauto.
Qed.

(* n, n+1, ..., n+k-1: the ids fill_struct_key_holder_* hand out *)
Fixpoint zseq (n : Z) (k : nat) : list Z :=
  match k with O => [] | S k' => n :: zseq (n + 1) k' end.

Lemma zseq_length : forall k n, length (zseq n k) = k.
Proof. induction k; intros; simpl; auto. Qed.

Lemma zseq_app : forall a b n, zseq n (a + b) = zseq n a ++ zseq (n + Z.of_nat a) b.
Proof.
  induction a as [|a IH]; intros b n.
  - simpl. f_equal. lia.
  - cbn [plus zseq app]. f_equal. rewrite IH. do 2 f_equal. lia.
Qed.

Lemma ids_of_renumber : forall ms n, ids_of (renumber n ms) = zseq n (length (ids_of ms)).
Proof. induction ms; intros; simpl; auto. rewrite IHms. reflexivity. Qed.

Lemma tys_of_renumber : forall ms n, tys_of (renumber n ms) = tys_of ms.
Proof. induction ms; intros; simpl; auto. rewrite IHms. reflexivity. Qed.

Lemma key_vals_length : forall t d vs,
  key_vals_ty t d = Ok vs -> length vs = length (ids_of (kh_type t)).
Proof.
  intros t d vs H. unfold kh_type. rewrite ids_of_renumber, zseq_length.
  eapply (proj1 key_vals_length_raw); eauto.
Qed.

Lemma kh_fill_factors :
  (forall t d acc n, kh_fill_ty t d (acc, n) =
     (vs <- key_vals_ty t d ;; Ok (build (zseq n (length vs)) vs acc, n + Z.of_nat (length vs)))) /\
  (forall ms d acc n, kh_fill ms d (acc, n) =
     (vs <- key_vals ms d ;; Ok (build (zseq n (length vs)) vs acc, n + Z.of_nat (length vs)))).
Proof.
  apply ty_members_ind; intros; cbn [kh_fill_ty kh_fill key_vals_ty key_vals bind length zseq build];
    try (rewrite Z.add_0_r; reflexivity).
  - apply H.
  - destruct key.
    + destruct (get_value id d) as [v| |]; cbn [bind]; try reflexivity.
      cbn [fst snd]. rewrite H0. destruct (key_vals rest d) as [vs'| |]; cbn [bind]; try reflexivity.
      cbn [length zseq build]. do 2 f_equal. lia.
    + destruct (is_struct t && negb opt) eqn:Es.
      * destruct (get_value id d) as [v| |]; cbn [bind]; try reflexivity.
        destruct v; try reflexivity.
        rewrite H. destruct (key_vals_ty t d0) as [a| |] eqn:Ea; cbn [bind]; try reflexivity.
        rewrite H0. destruct (key_vals rest d) as [vs'| |] eqn:E; cbn [bind]; try reflexivity.
        rewrite app_length, zseq_app, build_app by (rewrite zseq_length; reflexivity).
        do 2 f_equal. lia.
      * apply H0.
Qed.

Lemma key_holder_data_factors : forall t d,
  key_holder_data t d = (vs <- key_vals_ty t d ;; Ok (build (ids_of (kh_type t)) vs FNil)).
Proof.
  intros. unfold key_holder_data. rewrite (proj1 kh_fill_factors).
  destruct (key_vals_ty t d) as [vs| |] eqn:V; cbn [bind fst]; try reflexivity.
  unfold kh_type. rewrite ids_of_renumber.
  rewrite <- (proj1 key_vals_length_raw t d vs V). reflexivity.
Qed.

(* C11 <= : equal key members, equal handles; nothing else of the samples matters *)
Theorem handle_eq_of_key_eq : forall t d1 d2,
  key_vals_ty t d1 = key_vals_ty t d2 -> instance_handle t d1 = instance_handle t d2.
Proof.
  intros t d1 d2 H. unfold instance_handle, key_bytes.
  rewrite !key_holder_data_factors, H. reflexivity.
Qed.
