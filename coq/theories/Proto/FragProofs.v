(* C05 — proofs about the fragmentation / reassembly / NACK_FRAG model. *)
From DustDDS Require Import Base.Machine Proto.FragModel.
From Coq Require Import Lia ZArith List Bool Permutation.
Import ListNotations.
Open Scope Z_scope.

Ltac Zify.zify_post_hook ::= Z.div_mod_to_equations.

(* ------------------------------------------------------------ div_ceil *)

Lemma div_ceil_bounds : forall a b, 0 <= a -> 0 < b ->
  (div_ceil a b - 1) * b < a <= div_ceil a b * b \/ (a = 0 /\ div_ceil a b = 0).
Proof.
  intros a b Ha Hb. unfold div_ceil.
  destruct (Z.eqb_spec (a mod b) 0) as [E|E].
  - destruct (Z.eq_dec a 0) as [->|Hn].
    + right. split; [reflexivity|]. rewrite Z.div_0_l by lia. reflexivity.
    + left. nia.
  - left. nia.
Qed.

(* expected fragment count = ceil(len / f): the least n with n * f >= len *)
Lemma div_ceil_spec : forall a b n, 0 <= a -> 0 < b ->
  (div_ceil a b = n <-> (0 <= n /\ a <= n * b /\ (n - 1) * b < a \/ (a = 0 /\ n = 0))).
Proof.
  intros a b n Ha Hb. pose proof (div_ceil_bounds a b Ha Hb) as H.
  split.
  - intros <-. destruct H as [H|[H1 H2]].
    + left. split; [|lia]. unfold div_ceil. destruct (a mod b =? 0); nia.
    + right. lia.
  - intros [[H0 [H1 H2]]|[H1 H2]].
    + destruct H as [H|[H3 H4]]; [nia|]. subst a. nia.
    + subst. rewrite Z.max_id || idtac. unfold div_ceil. rewrite Z.div_0_l, Z.mod_0_l by lia. reflexivity.
Qed.

Lemma div_ceil_nonneg : forall a b, 0 <= a -> 0 < b -> 0 <= div_ceil a b.
Proof. intros. unfold div_ceil. destruct (a mod b =? 0); nia. Qed.

Lemma div_ceil_gt1 : forall a b, 0 <= a -> 0 < b -> (1 < div_ceil a b <-> b < a).
Proof.
  intros a b Ha Hb. pose proof (div_ceil_bounds a b Ha Hb). nia.
Qed.

(* ------------------------------------------------------------ slices *)

Lemma firstn_app_skipn : forall (A : Type) (a b : nat) (l : list A),
  firstn (a + b) l = firstn a l ++ firstn b (skipn a l).
Proof.
  intros A a. induction a as [|a IH]; intros b l; [reflexivity|].
  destruct l as [|x l]; cbn [Nat.add firstn skipn app].
  - rewrite firstn_nil. reflexivity.
  - rewrite IH. reflexivity.
Qed.

Lemma skipn_skipn' : forall (A : Type) (a b : nat) (l : list A),
  skipn a (skipn b l) = skipn (b + a) l.
Proof.
  intros A a b. induction b as [|b IH]; intros l; [reflexivity|].
  destruct l as [|x l]; cbn [Nat.add skipn]; [apply skipn_nil|apply IH].
Qed.

Lemma chunks_concat : forall (A : Type) (m : nat) (p : list A) (n k : nat),
  concat (map (fun i => firstn m (skipn (i * m) p)) (seq k n)) = firstn (n * m) (skipn (k * m) p).
Proof.
  intros A m p n. induction n as [|n IH]; intros k; [reflexivity|].
  cbn [seq map concat]. rewrite IH.
  replace (S n * m)%nat with (m + n * m)%nat by lia.
  rewrite firstn_app_skipn. f_equal. rewrite skipn_skipn'. f_equal. f_equal. lia.
Qed.

Lemma slice_chunk : forall (p : bytes) f i, 0 < f -> 0 <= i ->
  slice p (i * f) (Z.min ((i + 1) * f) (blen p)) =
  firstn (Z.to_nat f) (skipn (Z.to_nat i * Z.to_nat f) p).
Proof.
  intros p f i Hf Hi. unfold slice, blen.
  replace (Z.to_nat (i * f)) with (Z.to_nat i * Z.to_nat f)%nat by nia.
  set (q := skipn (Z.to_nat i * Z.to_nat f) p).
  assert (Hq : length q = (length p - Z.to_nat i * Z.to_nat f)%nat) by (unfold q; apply skipn_length).
  destruct (Z_le_gt_dec ((i + 1) * f) (Z.of_nat (length p))) as [Hle|Hgt].
  - rewrite Z.min_l by lia. f_equal. nia.
  - rewrite Z.min_r by lia.
    rewrite (firstn_all2 (n := Z.to_nat f)) by nia.
    apply firstn_all2. nia.
Qed.

(* concatenating the fragments, in index order, gives the payload back *)
Lemma concat_frags : forall (p : bytes) f, 0 < f ->
  concat (map (fun i => slice p (i * f) (Z.min ((i + 1) * f) (blen p))) (zseq (div_ceil (blen p) f))) = p.
Proof.
  intros p f Hf. unfold zseq. rewrite map_map.
  rewrite (map_ext _ (fun i : nat => firstn (Z.to_nat f) (skipn (i * Z.to_nat f) p))).
  2:{ intros a. rewrite slice_chunk by lia. rewrite Nat2Z.id. reflexivity. }
  rewrite chunks_concat. cbn [Nat.mul skipn].
  apply firstn_all2.
  assert (H := div_ceil_bounds (blen p) f ltac:(unfold blen; lia) Hf). unfold blen in *. nia.
Qed.
