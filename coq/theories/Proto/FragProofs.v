(* C05 — proofs about the fragmentation / reassembly / NACK_FRAG model. *)
From DustDDS Require Import Base.Machine Proto.FragModel.
From Coq Require Import Lia ZArith List Bool Permutation Sorted.
Import ListNotations.
Open Scope Z_scope.

Ltac Zify.zify_post_hook ::= Z.div_mod_to_equations.

(* ------------------------------------------------------------ div_ceil *)

Lemma div_ceil_bounds : forall a b, 0 <= a -> 0 < b ->
  (div_ceil a b - 1) * b < a <= div_ceil a b * b \/ (a = 0 /\ div_ceil a b = 0).
Proof.
  intros a b Ha Hb. unfold div_ceil.
  destruct (Z.eqb_spec (a mod b) 0) as [E|E].
  - destruct (Z.eq_dec a 0) as [->|Hn].
    + right. split; [reflexivity|]. rewrite Z.div_0_l by lia. reflexivity.
    + left. nia.
  - left. nia.
Qed.

(* expected fragment count = ceil(len / f): the least n with n * f >= len *)
Lemma div_ceil_spec : forall a b n, 0 <= a -> 0 < b ->
  (div_ceil a b = n <-> (0 <= n /\ a <= n * b /\ (n - 1) * b < a \/ (a = 0 /\ n = 0))).
Proof.
  intros a b n Ha Hb. pose proof (div_ceil_bounds a b Ha Hb) as H.
  split.
  - intros <-. destruct H as [H|[H1 H2]].
    + left. split; [|lia]. unfold div_ceil. destruct (a mod b =? 0); nia.
    + right. lia.
  - intros [[H0 [H1 H2]]|[H1 H2]].
    + destruct H as [H|[H3 H4]]; [nia|]. subst a. nia.
    + subst. rewrite Z.max_id || idtac. unfold div_ceil. rewrite Z.div_0_l, Z.mod_0_l by lia. reflexivity.
Qed.

Lemma div_ceil_nonneg : forall a b, 0 <= a -> 0 < b -> 0 <= div_ceil a b.
Proof. intros. unfold div_ceil. destruct (a mod b =? 0); nia. Qed.

Lemma div_ceil_gt1 : forall a b, 0 <= a -> 0 < b -> (1 < div_ceil a b <-> b < a).
Proof.
  intros a b Ha Hb. pose proof (div_ceil_bounds a b Ha Hb). nia.
Qed.

(* ------------------------------------------------------------ slices *)

Lemma firstn_app_skipn : forall (A : Type) (a b : nat) (l : list A),
  firstn (a + b) l = firstn a l ++ firstn b (skipn a l).
Proof.
  intros A a. induction a as [|a IH]; intros b l; [reflexivity|].
  destruct l as [|x l]; cbn [Nat.add firstn skipn app].
  - rewrite firstn_nil. reflexivity.
  - rewrite IH. reflexivity.
Qed.

Lemma skipn_skipn' : forall (A : Type) (a b : nat) (l : list A),
  skipn a (skipn b l) = skipn (b + a) l.
Proof.
  intros A a b. induction b as [|b IH]; intros l; [reflexivity|].
  destruct l as [|x l]; cbn [Nat.add skipn]; [apply skipn_nil|apply IH].
Qed.

Lemma chunks_concat : forall (A : Type) (m : nat) (p : list A) (n k : nat),
  concat (map (fun i => firstn m (skipn (i * m) p)) (seq k n)) = firstn (n * m) (skipn (k * m) p).
Proof.
  intros A m p n. induction n as [|n IH]; intros k; [reflexivity|].
  cbn [seq map concat]. rewrite IH.
  replace (S n * m)%nat with (m + n * m)%nat by lia.
  rewrite firstn_app_skipn. f_equal. rewrite skipn_skipn'. f_equal. f_equal. lia.
Qed.

Lemma slice_chunk : forall (p : bytes) f i, 0 < f -> 0 <= i ->
  slice p (i * f) (Z.min ((i + 1) * f) (blen p)) =
  firstn (Z.to_nat f) (skipn (Z.to_nat i * Z.to_nat f) p).
Proof.
  intros p f i Hf Hi. unfold slice, blen.
  replace (Z.to_nat (i * f)) with (Z.to_nat i * Z.to_nat f)%nat by nia.
  set (q := skipn (Z.to_nat i * Z.to_nat f) p).
  assert (Hq : length q = (length p - Z.to_nat i * Z.to_nat f)%nat) by (unfold q; apply skipn_length).
  destruct (Z_le_gt_dec ((i + 1) * f) (Z.of_nat (length p))) as [Hle|Hgt].
  - rewrite Z.min_l by lia. f_equal. nia.
  - rewrite Z.min_r by lia.
    rewrite (firstn_all2 (n := Z.to_nat f)) by nia.
    apply firstn_all2. nia.
Qed.

(* concatenating the fragments, in index order, gives the payload back *)
Lemma concat_frags : forall (p : bytes) f, 0 < f ->
  concat (map (fun i => slice p (i * f) (Z.min ((i + 1) * f) (blen p))) (zseq (div_ceil (blen p) f))) = p.
Proof.
  intros p f Hf. unfold zseq. rewrite map_map.
  rewrite (map_ext _ (fun i : nat => firstn (Z.to_nat f) (skipn (i * Z.to_nat f) p))).
  2:{ intros a. rewrite slice_chunk by lia. rewrite Nat2Z.id. reflexivity. }
  rewrite chunks_concat. cbn [Nat.mul skipn].
  apply firstn_all2.
  assert (H := div_ceil_bounds (blen p) f ltac:(unfold blen; lia) Hf). unfold blen in *. nia.
Qed.

(* ------------------------------------------------------------ equality, push *)

Lemma bytes_eqb_eq : forall a b, bytes_eqb a b = true <-> a = b.
Proof.
  induction a as [|x a IH]; destruct b as [|y b]; cbn [bytes_eqb]; split; intros H; try congruence; try discriminate.
  - apply andb_true_iff in H as [H1 H2]. apply Z.eqb_eq in H1. apply IH in H2. congruence.
  - inversion H; subst. rewrite Z.eqb_refl. cbn. apply IH. reflexivity.
Qed.

Lemma frag_eqb_eq : forall a b, frag_eqb a b = true <-> a = b.
Proof.
  intros [r1 s1 st1 n1 fs1 d1 b1] [r2 s2 st2 n2 fs2 d2 b2]. unfold frag_eqb.
  cbn [fr_rid fr_sn fr_start fr_nsub fr_fsize fr_dsize fr_data].
  rewrite !andb_true_iff, !Z.eqb_eq, bytes_eqb_eq. split.
  - intros [[[[[[? ?] ?] ?] ?] ?] ?]. congruence.
  - intros H. inversion H. tauto.
Qed.

Lemma existsb_frag_eqb : forall fr buf, existsb (frag_eqb fr) buf = true <-> In fr buf.
Proof.
  intros fr buf. rewrite existsb_exists. split.
  - intros [x [Hin Heq]]. apply frag_eqb_eq in Heq. subst. exact Hin.
  - intros Hin. exists fr. split; [exact Hin|]. apply frag_eqb_eq. reflexivity.
Qed.

Lemma push_frag_in : forall buf fr x, In x (push_frag buf fr) <-> In x buf \/ x = fr.
Proof.
  intros buf fr x. unfold push_frag.
  destruct (existsb (frag_eqb fr) buf) eqn:E.
  - apply existsb_frag_eqb in E. split; [tauto|]. intros [H|H]; [exact H|subst; exact E].
  - rewrite in_app_iff. cbn [In]. intuition.
Qed.

Lemma push_frag_nodup : forall buf fr, NoDup buf -> NoDup (push_frag buf fr).
Proof.
  intros buf fr H. unfold push_frag.
  destruct (existsb (frag_eqb fr) buf) eqn:E; [exact H|].
  assert (Hn : ~ In fr buf).
  { intros Hin. apply existsb_frag_eqb in Hin. congruence. }
  clear E. induction buf as [|a buf IH]; cbn [app].
  - constructor; [intros []|constructor].
  - inversion H; subst. constructor.
    + rewrite in_app_iff. cbn [In]. intros [H1|[H1|[]]]; [tauto|]. subst. apply Hn. left. reflexivity.
    + apply IH; [assumption|]. intros Hin. apply Hn. right. exact Hin.
Qed.

Lemma fold_push_in : forall l buf x,
  In x (fold_left push_frag l buf) <-> In x buf \/ In x l.
Proof.
  induction l as [|a l IH]; intros buf x; cbn [fold_left In]; [tauto|].
  rewrite IH, push_frag_in. intuition.
Qed.

Lemma fold_push_nodup : forall l buf, NoDup buf -> NoDup (fold_left push_frag l buf).
Proof.
  induction l as [|a l IH]; intros buf H; cbn [fold_left]; [exact H|].
  apply IH. apply push_frag_nodup. exact H.
Qed.

(* ------------------------------------------------------------ genuine fragments *)

Lemma wrap_u32_small : forall z, 0 <= z < two32 -> wrap_u32 z = z.
Proof. intros z H. unfold wrap_u32. apply Z.mod_small. exact H. Qed.
Lemma wrap_u16_small : forall z, 0 <= z < 65536 -> wrap_u16 z = z.
Proof. intros z H. unfold wrap_u16. apply Z.mod_small. exact H. Qed.


Lemma blen_nonneg : forall p, 0 <= blen p.
Proof. intros p. unfold blen. lia. Qed.

Lemma div_ceil_le : forall a b, 0 <= a -> 0 < b -> div_ceil a b <= a.
Proof.
  intros a b Ha Hb. destruct (div_ceil_bounds a b Ha Hb) as [H|[H1 H2]]; [|lia].
  destruct (Z_le_gt_dec (div_ceil a b) a); [assumption|]. nia.
Qed.

Section Genuine.
  Variables (f rid sn : Z) (p : bytes).
  Hypothesis Hf : frag_size_ok f.
  Hypothesis Hp : payload_ok p.

  Let n := div_ceil (blen p) f.
  Definition gfrag (i : Z) : frag := mk_data_frag rid sn p f i.

  Lemma n_bounds : 0 <= n <= blen p /\ n < two32.
  Proof.
    unfold n. pose proof (blen_nonneg p). destruct Hf.
    pose proof (div_ceil_nonneg (blen p) f ltac:(lia) ltac:(lia)).
    pose proof (div_ceil_le (blen p) f ltac:(lia) ltac:(lia)).
    unfold payload_ok in Hp. lia.
  Qed.

  Lemma gfrag_fields : forall i, 0 <= i < n ->
    fr_rid (gfrag i) = rid /\ fr_sn (gfrag i) = sn /\ fr_start (gfrag i) = i + 1 /\
    fr_nsub (gfrag i) = 1 /\ fr_fsize (gfrag i) = f /\ fr_dsize (gfrag i) = blen p /\
    fr_data (gfrag i) = slice p (i * f) (Z.min ((i + 1) * f) (blen p)).
  Proof.
    intros i Hi. pose proof n_bounds. unfold gfrag, mk_data_frag.
    cbn [fr_rid fr_sn fr_start fr_nsub fr_fsize fr_dsize fr_data].
    rewrite wrap_u32_small by lia. rewrite wrap_u16_small by (destruct Hf; lia).
    rewrite wrap_u32_small by (pose proof (blen_nonneg p); unfold payload_ok in Hp; lia).
    repeat split; reflexivity.
  Qed.

  Lemma gfrag_expected : forall i, 0 <= i < n -> total_fragments_expected (gfrag i) = Ok n.
  Proof.
    intros i Hi. destruct (gfrag_fields i Hi) as (_ & _ & _ & _ & Hfs & Hds & _).
    unfold total_fragments_expected. rewrite Hfs, Hds.
    destruct (Z.eqb_spec f 0) as [E|E]; [destruct Hf; lia|]. reflexivity.
  Qed.

  Lemma gfrag_inj : forall i j, 0 <= i < n -> 0 <= j < n -> fr_start (gfrag i) = fr_start (gfrag j) -> i = j.
  Proof.
    intros i j Hi Hj H.
    destruct (gfrag_fields i Hi) as (_ & _ & H1 & _). destruct (gfrag_fields j Hj) as (_ & _ & H2 & _). lia.
  Qed.
End Genuine.

(* ------------------------------------------------------------ reconstruct on genuine buffers *)



Lemma sum_nsub_acc : forall l a, fold_left (fun acc fr => acc + fr_nsub fr) l a =
                                 a + fold_left (fun acc fr => acc + fr_nsub fr) l 0.
Proof.
  induction l as [|x l IH]; intros a; cbn [fold_left]; [lia|].
  rewrite IH. rewrite (IH (0 + fr_nsub x)). lia.
Qed.

Lemma sum_nsub_ones : forall l, (forall x, In x l -> fr_nsub x = 1) -> sum_nsub l = Z.of_nat (length l).
Proof.
  unfold sum_nsub. induction l as [|x l IH]; intros H; [reflexivity|].
  cbn [fold_left length]. rewrite sum_nsub_acc. rewrite IH by (intros; apply H; right; assumption).
  rewrite (H x) by (left; reflexivity). lia.
Qed.

Lemma zrange_in : forall n lo k, In k (zrange lo n) <-> lo <= k < lo + Z.of_nat n.
Proof.
  induction n as [|n IH]; intros lo k; cbn [zrange In].
  - lia.
  - rewrite IH. lia.
Qed.

Lemma zrange_length : forall n lo, length (zrange lo n) = n.
Proof. induction n as [|n IH]; intros lo; cbn [zrange length]; [reflexivity|]. rewrite IH. reflexivity. Qed.

Lemma zrange_nodup : forall n lo, NoDup (zrange lo n).
Proof.
  induction n as [|n IH]; intros lo; cbn [zrange]; constructor.
  - rewrite zrange_in. lia.
  - apply IH.
Qed.

Lemma collect_concat : forall buf sn m from,
  collect buf sn m from =
  concat (map (fun k => match find (is_frag sn k) buf with Some fr => fr_data fr | None => [] end) (zrange from m)).
Proof.
  intros buf sn m. induction m as [|m IH]; intros from; cbn [collect zrange map concat]; [reflexivity|].
  rewrite IH. reflexivity.
Qed.

Lemma zrange_shift : forall n lo, zrange (lo + 1) n = map (fun i => i + 1) (zrange lo n).
Proof.
  induction n as [|n IH]; intros lo; cbn [zrange map]; [reflexivity|]. rewrite IH. reflexivity.
Qed.

Lemma zseq_zrange : forall n, zseq n = zrange 0 (Z.to_nat n).
Proof.
  intros n. unfold zseq. generalize (Z.to_nat n) as m. intros m.
  assert (H : forall k, map Z.of_nat (seq k m) = zrange (Z.of_nat k) m).
  { induction m as [|m IH]; intros k; cbn [seq map zrange]; [reflexivity|].
    rewrite IH. f_equal. f_equal. lia. }
  apply (H 0%nat).
Qed.

Section Reconstruct.
  Variables (f rid : Z) (ch : list (Z * bytes)).
  Hypothesis Hf : frag_size_ok f.
  Hypothesis Hch : history_ok ch.

  Variable buf : list frag.
  Hypothesis Hnd : NoDup buf.
  Hypothesis Hgen : forall x, In x buf -> genuine f rid ch x.

  Lemma no_history_no_frag : forall sn, lookup sn ch = None -> find (has_sn sn) buf = None.
  Proof.
    intros sn Hl. destruct (find (has_sn sn) buf) as [x|] eqn:E; [|reflexivity].
    apply find_some in E as [Hin Hs]. unfold has_sn in Hs. apply Z.eqb_eq in Hs.
    destruct (Hgen x Hin) as (p & i & Hlk & _). congruence.
  Qed.

  Variables (sn : Z) (p : bytes).
  Hypothesis Hlk : lookup sn ch = Some p.
  Let n := div_ceil (blen p) f.
  Let G := filter (has_sn sn) buf.

  Lemma G_elem : forall x, In x G -> exists i, 0 <= i < n /\ x = gfrag f rid sn p i.
  Proof.
    intros x Hx. unfold G in Hx. apply filter_In in Hx as [Hin Hs].
    unfold has_sn in Hs. apply Z.eqb_eq in Hs.
    destruct (Hgen x Hin) as (p' & i & Hl & Hi & Hx). rewrite Hs in *.
    assert (p' = p) by congruence. subst p'. exists i. split; [exact Hi|exact Hx].
  Qed.

  Lemma buf_elem_start : forall x k, In x buf -> is_frag sn k x = true ->
    1 <= k <= n /\ x = gfrag f rid sn p (k - 1).
  Proof.
    intros x k Hin Hk. unfold is_frag in Hk. apply andb_true_iff in Hk as [H1 H2].
    apply Z.eqb_eq in H1, H2.
    assert (HG : In x G). { unfold G. apply filter_In. split; [exact Hin|]. unfold has_sn. apply Z.eqb_eq. exact H1. }
    destruct (G_elem x HG) as (i & Hi & Hx).
    pose proof (gfrag_fields f rid sn p Hf (Hch _ _ Hlk) i Hi) as (_ & _ & Hst & _).
    rewrite <- Hx in Hst. replace (k - 1) with i by lia. split; [lia|exact Hx].
  Qed.

  Lemma G_starts_nodup : NoDup (map fr_start G).
  Proof.
    assert (HndG : NoDup G) by (unfold G; apply NoDup_filter; exact Hnd).
    assert (Hel := G_elem). clearbody G.
    induction G as [|x l IH]; cbn [map]; constructor.
    - intros Hin. apply in_map_iff in Hin as (y & Hy & Hyl).
      inversion HndG; subst.
      destruct (Hel x (or_introl eq_refl)) as (i & Hi & Hx).
      destruct (Hel y (or_intror Hyl)) as (j & Hj & Hy').
      assert (i = j).
      { apply (gfrag_inj f rid sn p Hf (Hch _ _ Hlk)); [exact Hi|exact Hj|]. rewrite <- Hx, <- Hy'. symmetry. exact Hy. }
      subst j. apply H1. rewrite Hx, <- Hy'. exact Hyl.
    - inversion HndG; subst. apply IH; [assumption|]. intros y Hy. apply Hel. right. exact Hy.
  Qed.

  Lemma G_starts_incl : incl (map fr_start G) (zrange 1 (Z.to_nat n)).
  Proof.
    intros k Hk. apply in_map_iff in Hk as (x & Hx & Hin).
    destruct (G_elem x Hin) as (i & Hi & Hxi).
    pose proof (gfrag_fields f rid sn p Hf (Hch _ _ Hlk) i Hi) as (_ & _ & Hst & _).
    rewrite <- Hxi in Hst. apply zrange_in. lia.
  Qed.

  Lemma G_total : sum_nsub G = Z.of_nat (length G).
  Proof.
    apply sum_nsub_ones. intros x Hx. destruct (G_elem x Hx) as (i & Hi & Hxi).
    pose proof (gfrag_fields f rid sn p Hf (Hch _ _ Hlk) i Hi) as (_ & _ & _ & Hns & _).
    rewrite Hxi. exact Hns.
  Qed.

  Lemma G_length_le : Z.of_nat (length G) <= n.
  Proof.
    pose proof (NoDup_incl_length G_starts_nodup G_starts_incl) as H.
    rewrite map_length, zrange_length in H.
    pose proof (n_bounds f p Hf (Hch _ _ Hlk)). fold n in H0. lia.
  Qed.

  Local Notation completeS := (complete f rid buf sn p).

  Lemma complete_iff_length : completeS <-> Z.of_nat (length G) = n.
  Proof.
    pose proof (n_bounds f p Hf (Hch _ _ Hlk)) as Hn. fold n in Hn.
    split.
    - intros Hc.
      assert (Hincl : incl (zrange 1 (Z.to_nat n)) (map fr_start G)).
      { intros k Hk. apply zrange_in in Hk. apply in_map_iff. exists (gfrag f rid sn p (k - 1)).
        pose proof (gfrag_fields f rid sn p Hf (Hch _ _ Hlk) (k - 1) ltac:(fold n; lia)) as (_ & Hs & Hst & _).
        split; [lia|]. unfold G. apply filter_In. split; [apply Hc; lia|].
        unfold has_sn. rewrite Hs. apply Z.eqb_refl. }
      pose proof (NoDup_incl_length (zrange_nodup (Z.to_nat n) 1) Hincl) as H.
      rewrite map_length, zrange_length in H. pose proof G_length_le. lia.
    - intros Hlen i Hi.
      assert (Hincl : incl (zrange 1 (Z.to_nat n)) (map fr_start G)).
      { apply NoDup_length_incl; [exact G_starts_nodup| |exact G_starts_incl].
        rewrite map_length, zrange_length. lia. }
      assert (Hk : In (i + 1) (map fr_start G)) by (apply Hincl; apply zrange_in; lia).
      apply in_map_iff in Hk as (x & Hst & Hin).
      destruct (G_elem x Hin) as (j & Hj & Hxj).
      pose proof (gfrag_fields f rid sn p Hf (Hch _ _ Hlk) j Hj) as (_ & _ & Hst' & _).
      rewrite <- Hxj in Hst'. assert (j = i) by lia. subst j.
      change (In (gfrag f rid sn p i) buf). rewrite <- Hxj. unfold G in Hin. apply filter_In in Hin. tauto.
  Qed.

  Lemma find_first_sn : forall x, find (has_sn sn) buf = Some x ->
    total_fragments_expected x = Ok n /\ 1 <= n.
  Proof.
    intros x E. apply find_some in E as [Hin Hs].
    assert (HG : In x G) by (unfold G; apply filter_In; tauto).
    destruct (G_elem x HG) as (i & Hi & Hxi). rewrite Hxi. split; [|lia].
    apply (gfrag_expected f rid sn p Hf (Hch _ _ Hlk)). exact Hi.
  Qed.

  Lemma find_start_complete : forall k, completeS -> 1 <= k <= n ->
    exists x, find (is_frag sn k) buf = Some x /\
              fr_data x = slice p ((k - 1) * f) (Z.min (((k - 1) + 1) * f) (blen p)).
  Proof.
    intros k Hc Hk.
    destruct (find (is_frag sn k) buf) as [x|] eqn:E.
    - exists x. split; [reflexivity|]. apply find_some in E as [Hin Hp].
      destruct (buf_elem_start x k Hin Hp) as [_ Hx].
      pose proof (gfrag_fields f rid sn p Hf (Hch _ _ Hlk) (k - 1) ltac:(fold n; lia)) as (_ & _ & _ & _ & _ & _ & Hd).
      rewrite Hx. exact Hd.
    - exfalso. pose proof (find_none _ _ E (gfrag f rid sn p (k - 1)) (Hc (k - 1) ltac:(lia))) as Hnone.
      pose proof (gfrag_fields f rid sn p Hf (Hch _ _ Hlk) (k - 1) ltac:(fold n; lia)) as (_ & Hs & Hst & _).
      unfold is_frag in Hnone. rewrite Hs, Hst in Hnone.
      rewrite Z.eqb_refl in Hnone. replace (k - 1 + 1 =? k) with true in Hnone by (symmetry; apply Z.eqb_eq; lia).
      discriminate.
  Qed.

  Lemma find_start_zero : find (is_frag sn 0) buf = None.
  Proof.
    destruct (find (is_frag sn 0) buf) as [x|] eqn:E; [|reflexivity].
    apply find_some in E as [Hin Hp]. destruct (buf_elem_start x 0 Hin Hp). lia.
  Qed.

  Lemma collect_complete : completeS -> collect buf sn (Z.to_nat (n + 1)) 0 = p.
  Proof.
    intros Hc. pose proof (n_bounds f p Hf (Hch _ _ Hlk)) as Hn. fold n in Hn.
    replace (Z.to_nat (n + 1)) with (S (Z.to_nat n)) by lia.
    cbn [collect]. rewrite find_start_zero. cbn [app]. replace (0 + 1) with 1 by lia.
    rewrite collect_concat.
    etransitivity; [|apply (concat_frags p f); destruct Hf; lia]. fold n.
    f_equal. rewrite zseq_zrange. replace 1 with (0 + 1) at 1 by lia. rewrite zrange_shift, map_map.
    apply map_ext_in. intros i Hi. apply zrange_in in Hi.
    destruct (find_start_complete (i + 1) Hc ltac:(lia)) as (x & Hfind & Hd).
    rewrite Hfind, Hd. replace (i + 1 - 1) with i by lia. reflexivity.
  Qed.

  (* the heart of C05: on a buffer of genuine fragments, reconstruct returns the written payload
     when every fragment is present, and nothing otherwise *)
  Lemma reconstruct_complete : completeS -> 1 <= n ->
    reconstruct buf sn = Ok (Some p, filter (fun fr => negb (has_sn sn fr)) buf).
  Proof.
    intros Hc Hn1. unfold reconstruct.
    destruct (find_start_complete 1 Hc ltac:(lia)) as (x1 & Hf1 & _).
    destruct (find (has_sn sn) buf) as [x0|] eqn:E0.
    2:{ exfalso. apply find_some in Hf1 as [Hin Hp]. pose proof (find_none _ _ E0 x1 Hin) as H.
        unfold is_frag in Hp. unfold has_sn in H. apply andb_true_iff in Hp. destruct Hp. congruence. }
    destruct (find_first_sn x0 E0) as [He _]. rewrite He. cbn [bind].
    fold G. rewrite G_total. apply complete_iff_length in Hc as Hlen. rewrite Hlen.
    pose proof (n_bounds f p Hf (Hch _ _ Hlk)) as Hn. fold n in Hn.
    replace (u32_max <? n) with false by (symmetry; apply Z.ltb_ge; unfold u32_max, two32 in *; lia).
    rewrite Z.eqb_refl. rewrite collect_complete by exact Hc. rewrite Hf1. reflexivity.
  Qed.

  Lemma reconstruct_incomplete : ~ completeS -> reconstruct buf sn = Ok (None, buf).
  Proof.
    intros Hc. unfold reconstruct.
    destruct (find (has_sn sn) buf) as [x0|] eqn:E0; [|reflexivity].
    destruct (find_first_sn x0 E0) as [He _]. rewrite He. cbn [bind].
    fold G. rewrite G_total.
    pose proof (n_bounds f p Hf (Hch _ _ Hlk)) as Hn. fold n in Hn. pose proof G_length_le as Hle.
    replace (u32_max <? Z.of_nat (length G)) with false
      by (symmetry; apply Z.ltb_ge; unfold u32_max, two32 in *; lia).
    destruct (Z.eqb_spec (Z.of_nat (length G)) n) as [E|E]; [|reflexivity].
    exfalso. apply Hc. apply complete_iff_length. exact E.
  Qed.

  Lemma complete_dec : completeS \/ ~ completeS.
  Proof.
    destruct (Z.eq_dec (Z.of_nat (length G)) n) as [E|E].
    - left. apply complete_iff_length. exact E.
    - right. intros H. apply E. apply complete_iff_length. exact H.
  Qed.

  (* never a wrong payload *)
  Lemma reconstruct_sound : forall d buf', reconstruct buf sn = Ok (Some d, buf') ->
    d = p /\ completeS /\ buf' = filter (fun fr => negb (has_sn sn fr)) buf.
  Proof.
    intros d buf' H. destruct complete_dec as [Hc|Hc].
    - assert (1 <= n).
      { unfold reconstruct in H. destruct (find (has_sn sn) buf) as [x0|] eqn:E0; [|discriminate].
        apply (find_first_sn x0 E0). }
      rewrite (reconstruct_complete Hc H0) in H. injection H as Hd Hb. split; [symmetry; exact Hd|]. split; [exact Hc|symmetry; exact Hb].
    - rewrite (reconstruct_incomplete Hc) in H. discriminate.
  Qed.
End Reconstruct.

(* ------------------------------------------------------------ proxy-level statements *)

Section ProxyLevel.
  Variables (f rid sn : Z) (p : bytes) (l : list frag).
  Hypothesis Hf : frag_size_ok f.
  Hypothesis Hp : payload_ok p.
  (* every element of l that speaks for sn is one of the fragments of p; anything else carries another sn *)
  Hypothesis Hl : forall x, In x l -> fr_sn x = sn ->
                    exists i, 0 <= i < div_ceil (blen p) f /\ x = mk_data_frag rid sn p f i.

  Let buf := fold_left push_frag l [].

  (* reduce to the genuine-buffer lemmas by forgetting the other sequence numbers:
     reconstruct only looks at fragments with fr_sn = sn *)
  Let bufS := filter (has_sn sn) buf.

  Lemma reconstruct_filter_sn : forall b,
    reconstruct b sn =
    match reconstruct (filter (has_sn sn) b) sn with
    | Ok (Some d, _) => Ok (Some d, filter (fun x => negb (has_sn sn x)) b)
    | Ok (None, _) => Ok (None, b)
    | Err e => Err e
    | Panic s => Panic s
    end.
  Proof.
    intros b. unfold reconstruct.
    assert (Hfind : forall q, (forall x, q x = true -> has_sn sn x = true) ->
                     find q (filter (has_sn sn) b) = find q b).
    { intros q Hq. clear - Hq. induction b as [|x b IH]; cbn [filter find]; [reflexivity|].
      destruct (has_sn sn x) eqn:E; cbn [find].
      - destruct (q x); [reflexivity|exact IH].
      - destruct (q x) eqn:Eq; [apply Hq in Eq; congruence|exact IH]. }
    rewrite (Hfind (has_sn sn)) by auto.
    assert (Hff : filter (has_sn sn) (filter (has_sn sn) b) = filter (has_sn sn) b).
    { clear. induction b as [|x b IH]; cbn [filter]; [reflexivity|].
      destruct (has_sn sn x) eqn:E; cbn [filter]; [rewrite E, IH; reflexivity|exact IH]. }
    rewrite Hff.
    assert (Hcol : forall m from, collect (filter (has_sn sn) b) sn m from = collect b sn m from).
    { intros m. induction m as [|m IH]; intros from; cbn [collect]; [reflexivity|].
      rewrite IH. rewrite (Hfind (is_frag sn from)); [reflexivity|].
      intros x Hx. unfold is_frag in Hx. apply andb_true_iff in Hx. unfold has_sn. tauto. }
    rewrite (Hfind (is_frag sn 1)).
    2:{ intros x Hx. unfold is_frag in Hx. apply andb_true_iff in Hx. unfold has_sn. tauto. }
    destruct (find (has_sn sn) b) as [x0|]; [|reflexivity].
    destruct (total_fragments_expected x0) as [e|e|e]; cbn [bind]; try reflexivity.
    destruct (u32_max <? sum_nsub (filter (has_sn sn) b)); [reflexivity|].
    destruct (sum_nsub (filter (has_sn sn) b) =? e); [|reflexivity].
    rewrite Hcol. destruct (find (is_frag sn 1) b); reflexivity.
  Qed.

  Let ch : list (Z * bytes) := [(sn, p)].

  Lemma bufS_nodup : NoDup bufS.
  Proof. unfold bufS, buf. apply NoDup_filter. apply fold_push_nodup. constructor. Qed.

  Lemma bufS_genuine : forall x, In x bufS -> genuine f rid ch x.
  Proof.
    intros x Hx. unfold bufS in Hx. apply filter_In in Hx as [Hin Hs].
    unfold buf in Hin. apply fold_push_in in Hin as [[]|Hin].
    unfold has_sn in Hs. apply Z.eqb_eq in Hs.
    destruct (Hl x Hin Hs) as (i & Hi & Hxi). exists p, i. rewrite Hs. unfold ch. cbn [lookup].
    rewrite Z.eqb_refl. auto.
  Qed.

  Lemma ch_ok : history_ok ch.
  Proof.
    intros s q H. unfold ch in H. cbn [lookup] in H. destruct (sn =? s); [|discriminate]. inversion H; subst. exact Hp.
  Qed.

  Lemma ch_lookup : lookup sn ch = Some p.
  Proof. unfold ch. cbn [lookup]. rewrite Z.eqb_refl. reflexivity. Qed.

  Lemma complete_bufS_iff :
    complete f rid bufS sn p <-> (forall i, 0 <= i < div_ceil (blen p) f -> In (mk_data_frag rid sn p f i) l).
  Proof.
    unfold complete, gfrag. split; intros H i Hi.
    - specialize (H i Hi). unfold bufS in H. apply filter_In in H as [H _]. unfold buf in H.
      apply fold_push_in in H as [[]|H]. exact H.
    - unfold bufS. apply filter_In. split.
      + unfold buf. apply fold_push_in. right. apply H. exact Hi.
      + pose proof (gfrag_fields f rid sn p Hf Hp i Hi) as (_ & Hs & _). unfold gfrag in Hs.
        unfold has_sn. rewrite Hs. apply Z.eqb_refl.
  Qed.

  (* any order, any duplication, any interleaving with other samples' fragments *)
  Lemma reassemble_any_order :
    1 <= div_ceil (blen p) f ->
    (forall i, 0 <= i < div_ceil (blen p) f -> In (mk_data_frag rid sn p f i) l) ->
    reconstruct buf sn = Ok (Some p, filter (fun x => negb (has_sn sn x)) buf).
  Proof.
    intros Hn Hall. rewrite reconstruct_filter_sn. fold bufS.
    rewrite (reconstruct_complete f rid ch Hf ch_ok bufS bufS_nodup bufS_genuine sn p ch_lookup).
    - reflexivity.
    - apply complete_bufS_iff. exact Hall.
    - exact Hn.
  Qed.

  Lemma reassemble_incomplete :
    ~ (forall i, 0 <= i < div_ceil (blen p) f -> In (mk_data_frag rid sn p f i) l) ->
    reconstruct buf sn = Ok (None, buf).
  Proof.
    intros Hall. rewrite reconstruct_filter_sn. fold bufS.
    rewrite (reconstruct_incomplete f rid ch Hf ch_ok bufS bufS_nodup bufS_genuine sn p ch_lookup).
    - reflexivity.
    - intros Hc. apply Hall. apply complete_bufS_iff. exact Hc.
  Qed.

  Lemma reassemble_never_wrong : forall d b',
    reconstruct buf sn = Ok (Some d, b') -> d = p.
  Proof.
    intros d b' H. rewrite reconstruct_filter_sn in H. fold bufS in H.
    destruct (reconstruct bufS sn) as [[[d'|] b'']|e|e] eqn:E; try discriminate.
    inversion H; subst d'.
    apply (reconstruct_sound f rid ch Hf ch_ok bufS bufS_nodup bufS_genuine sn p ch_lookup) in E. tauto.
  Qed.

  Lemma reassemble_no_panic : exists x, reconstruct buf sn = Ok x.
  Proof.
    destruct (complete_dec f rid ch Hf ch_ok bufS bufS_nodup bufS_genuine sn p ch_lookup) as [Hc|Hc].
    - destruct (Z_le_gt_dec 1 (div_ceil (blen p) f)) as [Hn|Hn].
      + eexists. apply reassemble_any_order; [exact Hn|]. apply complete_bufS_iff. exact Hc.
      + eexists. rewrite reconstruct_filter_sn. fold bufS.
        unfold reconstruct at 1.
        destruct (find (has_sn sn) bufS) as [x0|] eqn:E0; [|reflexivity].
        exfalso. destruct (find_first_sn f rid ch Hf ch_ok bufS bufS_genuine sn p ch_lookup x0 E0). lia.
    - eexists. apply reassemble_incomplete. intros H. apply Hc. apply complete_bufS_iff. exact H.
  Qed.
End ProxyLevel.

(* ------------------------------------------------------------ all histories *)

Lemma lookup_app : forall sn a b,
  lookup sn (a ++ b) = match lookup sn a with Some p => Some p | None => lookup sn b end.
Proof.
  intros sn a b. induction a as [|[s q] a IH]; cbn [app lookup]; [reflexivity|].
  destruct (s =? sn); [reflexivity|exact IH].
Qed.

Lemma genuine_mono : forall f rid ch e x, genuine f rid ch x -> genuine f rid (ch ++ e) x.
Proof.
  intros f rid ch e x (p & i & Hl & Hi & Hx). exists p, i. rewrite lookup_app, Hl. auto.
Qed.

Lemma history_ok_app : forall ch sn p, history_ok ch -> payload_ok p -> history_ok (ch ++ [(sn, p)]).
Proof.
  intros ch sn p H Hp s q Hl. rewrite lookup_app in Hl.
  destruct (lookup s ch) eqn:E.
  - inversion Hl; subst. apply (H s q E).
  - cbn [lookup] in Hl. destruct (sn =? s); [|discriminate]. inversion Hl; subst. exact Hp.
Qed.

Lemma sorted_app_one : forall l x, StronglySorted Z.lt l -> Forall (fun y => y < x) l ->
  StronglySorted Z.lt (l ++ [x]).
Proof.
  induction l as [|a l IH]; intros x Hs Hall; cbn [app].
  - constructor; constructor.
  - inversion Hs; subst. inversion Hall; subst. constructor.
    + apply IH; assumption.
    + apply Forall_app. split; [assumption|]. constructor; [assumption|constructor].
Qed.


Lemma rinv_mono : forall f ch e r, rinv f ch r -> rinv f (ch ++ e) r.
Proof.
  intros f ch e r [H1 H2 H3 H4]. constructor; try assumption.
  - intros x Hx. apply genuine_mono. apply H2. exact Hx.
  - eapply Forall_impl; [|exact H3]. intros c [Ha Hb]. rewrite lookup_app, Ha. auto.
Qed.

Lemma r_on_data_inv : forall f ch r sn p, rinv f ch r -> lookup sn ch = Some p -> rinv f ch (r_on_data r sn p).
Proof.
  intros f ch r sn p [H1 H2 H3 H4] Hl.
  assert (Hbuf : forall s, NoDup (filter (fun fr => s <? fr_sn fr) (r_buf r)) /\
                 forall x, In x (filter (fun fr => s <? fr_sn fr) (r_buf r)) -> genuine f 1 ch x).
  { intros s. split; [apply NoDup_filter; exact H1|]. intros x Hx. apply filter_In in Hx. apply H2. tauto. }
  assert (Hnew : available_changes_max r + 1 <= sn ->
     Forall (fun c => lookup (fst c) ch = Some (snd c) /\ fst c <= Z.max (r_highest r) sn) (r_changes r ++ [(sn, p)]) /\
     StronglySorted Z.lt (map fst (r_changes r ++ [(sn, p)]))).
  { intros Hsn. unfold available_changes_max in Hsn. split.
    - apply Forall_app. split.
      + eapply Forall_impl; [|exact H3]. intros c [Ha Hb]. split; [exact Ha|lia].
      + constructor; [|constructor]. cbn [fst snd]. split; [exact Hl|lia].
    - rewrite map_app. cbn [map fst]. apply sorted_app_one; [exact H4|].
      apply Forall_forall. intros y Hy. apply in_map_iff in Hy as (c & Hc & Hin).
      rewrite Forall_forall in H3. destruct (H3 c Hin) as [_ Hb]. lia. }
  unfold r_on_data.
  destruct (r_rel r).
  - destruct (Z.eqb_spec sn (available_changes_max r + 1)) as [E|E]; [|constructor; assumption].
    destruct (Hnew ltac:(lia)) as [Ha Hb]. destruct (Hbuf sn) as [Hc Hd].
    constructor; cbn [r_set received_change_set r_buf r_changes r_highest r_first]; assumption.
  - destruct (Z.leb_spec (available_changes_max r + 1) sn) as [E|E]; [|constructor; assumption].
    destruct (Hnew ltac:(lia)) as [Ha Hb]. destruct (Hbuf sn) as [Hc Hd].
    constructor; cbn [r_set received_change_set r_buf r_changes r_highest r_first]; assumption.
Qed.

Lemma r_on_frag_inv : forall f ch r fr, frag_size_ok f -> history_ok ch ->
  rinv f ch r -> genuine f 1 ch fr ->
  exists r', r_on_frag r fr = Ok r' /\ rinv f ch r'.
Proof.
  intros f ch r fr Hf Hch [H1 H2 H3 H4] Hg.
  unfold r_on_frag.
  set (buf1 := if (if r_rel r then fr_sn fr =? available_changes_max r + 1
                   else available_changes_max r + 1 <=? fr_sn fr)
               then push_frag (r_buf r) fr else r_buf r).
  assert (Hnd : NoDup buf1).
  { unfold buf1. destruct (if r_rel r then _ else _); [apply push_frag_nodup|]; exact H1. }
  assert (Hgen : forall x, In x buf1 -> genuine f 1 ch x).
  { unfold buf1. destruct (if r_rel r then _ else _); [|exact H2].
    intros x Hx. apply push_frag_in in Hx as [Hx|Hx]; [apply H2; exact Hx|subst; exact Hg]. }
  destruct Hg as (p & i & Hl & Hi & Hfr).
  destruct (complete_dec f 1 ch Hf Hch buf1 Hnd Hgen (fr_sn fr) p Hl) as [Hc|Hc].
  - assert (Hn : 1 <= div_ceil (blen p) f) by lia.
    rewrite (reconstruct_complete f 1 ch Hf Hch buf1 Hnd Hgen (fr_sn fr) p Hl Hc Hn).
    cbn [bind fst snd]. eexists. split; [reflexivity|].
    apply r_on_data_inv; [|exact Hl].
    constructor; cbn [r_set r_buf r_changes r_highest]; try assumption.
    + apply NoDup_filter. exact Hnd.
    + intros x Hx. apply filter_In in Hx. apply Hgen. tauto.
  - rewrite (reconstruct_incomplete f 1 ch Hf Hch buf1 Hnd Hgen (fr_sn fr) p Hl Hc).
    cbn [bind fst snd]. eexists. split; [reflexivity|].
    constructor; cbn [r_set r_buf r_changes r_highest]; assumption.
Qed.


Lemma r_deliver_inv : forall f ch r w, frag_size_ok f -> history_ok ch ->
  rinv f ch r -> wire_genuine f ch w -> exists r', r_deliver r w = Ok r' /\ rinv f ch r'.
Proof.
  intros f ch r w Hf Hch Hr Hw. destruct w as [rid sn p|fr|sn]; cbn [r_deliver wire_genuine] in *.
  - eexists. split; [reflexivity|]. apply r_on_data_inv; assumption.
  - apply r_on_frag_inv; assumption.
  - eexists. split; [reflexivity|exact Hr].
Qed.

Lemma r_deliver_all_inv : forall f ch ws r, frag_size_ok f -> history_ok ch ->
  rinv f ch r -> Forall (wire_genuine f ch) ws -> exists r', r_deliver_all r ws = Ok r' /\ rinv f ch r'.
Proof.
  intros f ch ws. induction ws as [|w ws IH]; intros r Hf Hch Hr Hws; cbn [r_deliver_all].
  - eexists. split; [reflexivity|exact Hr].
  - inversion Hws; subst. destruct (r_deliver_inv f ch r w Hf Hch Hr H1) as (r1 & E & Hr1).
    rewrite E. cbn [bind]. apply IH; assumption.
Qed.

(* ------------------------------------------------------------ the whole system *)

Definition reply_ok (x : option (acknack * option nackfrag)) : Prop :=
  match x with
  | Some (_, Some nf) => 0 <= n_base nf /\ Forall (fun k => 0 <= k) (n_set nf)
  | _ => True
  end.

Record sinv (s : sys) : Prop := mksinv {
  si_f : frag_size_ok (w_f (s_w s));
  si_hist : history_ok (w_changes (s_w s));
  si_r : rinv (w_f (s_w s)) (w_changes (s_w s)) (s_r s);
  si_reply : reply_ok (s_reply s)
}.

Lemma mk_data_frag_sn : forall rid sn p f i, fr_sn (mk_data_frag rid sn p f i) = sn.
Proof. reflexivity. Qed.

Lemma genuine_mk : forall f ch sn p k, lookup sn ch = Some p -> 0 <= k < div_ceil (blen p) f ->
  genuine f 1 ch (mk_data_frag 1 sn p f k).
Proof. intros f ch sn p k Hl Hk. exists p, k. rewrite mk_data_frag_sn. auto. Qed.

Lemma w_on_nack_frag_spec : forall w count sn base set w' ws,
  w_on_nack_frag w count sn base set = Ok (w', ws) ->
  w_f w' = w_f w /\ w_changes w' = w_changes w /\
  (0 <= base -> Forall (fun k => 0 <= k) set -> Forall (wire_genuine (w_f w) (w_changes w)) ws).
Proof.
  intros w count sn base set w' ws H. unfold w_on_nack_frag in H.
  remember (base :: set) as L eqn:EL.
  destruct (w_rel w && (w_last_nf w <? count)).
  2:{ inversion H; subst. repeat split; constructor. }
  destruct (lookup sn (w_changes w)) as [p|] eqn:El.
  - destruct (w_f w =? 0); [discriminate|]. injection H as Hw Hws. subst w' ws. repeat split.
    intros Hb Hs. apply Forall_forall. intros x Hx. apply in_map_iff in Hx as (k & Hk & Hin).
    apply filter_In in Hin as [Hin Hlt]. apply Z.ltb_lt in Hlt. subst x. cbn [wire_genuine].
    apply genuine_mk; [exact El|]. split; [|exact Hlt].
    subst L. destruct Hin as [<-|Hin]; [exact Hb|]. rewrite Forall_forall in Hs. apply Hs. exact Hin.
  - inversion H; subst. repeat split. intros _ _. constructor; [exact I|constructor].
Qed.

Lemma ack_resp_spec : forall w set ws, frag_size_ok (w_f w) -> ack_resp w set = Ok ws ->
  Forall (wire_genuine (w_f w) (w_changes w)) ws.
Proof.
  intros w set. induction set as [|sn t IH]; intros ws Hf H; cbn [ack_resp] in H.
  - inversion H. constructor.
  - destruct (ack_resp w t) as [y|e|e] eqn:E.
    2,3: destruct (lookup sn (w_changes w)); [destruct (0 <? sn); [destruct (w_f w =? 0)|]|]; discriminate.
    assert (Hx : exists x, ws = x :: y /\ wire_genuine (w_f w) (w_changes w) x).
    { destruct (lookup sn (w_changes w)) as [p|] eqn:El.
      - destruct (0 <? sn).
        + destruct (w_f w =? 0); [discriminate|]. cbn [bind] in H. inversion H; subst.
          eexists. split; [reflexivity|].
          destruct (Z.ltb_spec 1 (div_ceil (blen p) (w_f w))); cbn [wire_genuine]; [|exact El].
          apply genuine_mk; [exact El|lia].
        + cbn [bind] in H. inversion H; subst. eexists. split; [reflexivity|exact I].
      - cbn [bind] in H. inversion H; subst. eexists. split; [reflexivity|exact I]. }
    destruct Hx as (x & -> & Hx). constructor; [exact Hx|]. apply IH; [exact Hf|reflexivity].
Qed.

Lemma w_on_acknack_spec : forall w count base set w' ws, frag_size_ok (w_f w) ->
  w_on_acknack w count base set = Ok (w', ws) ->
  w_f w' = w_f w /\ w_changes w' = w_changes w /\ Forall (wire_genuine (w_f w) (w_changes w)) ws.
Proof.
  intros w count base set w' ws Hf H. unfold w_on_acknack in H.
  destruct (w_rel w && (w_last_an w <? count)).
  2:{ inversion H; subst. repeat split; constructor. }
  destruct (ack_resp w set) as [y|e|e] eqn:E; try discriminate. cbn [bind] in H. inversion H; subst.
  repeat split. apply (ack_resp_spec w set); assumption.
Qed.

Lemma datagram_of_spec : forall w sn idx x, datagram_of w sn idx 1 = Some x ->
  wire_genuine (w_f w) (w_changes w) x.
Proof.
  intros w sn idx x H. unfold datagram_of in H.
  destruct ((1 <=? 1) && (1 <=? w_nreaders w)); [|discriminate].
  destruct (lookup sn (w_changes w)) as [p|] eqn:El; [|discriminate].
  destruct (w_f w =? 0); [discriminate|].
  destruct (1 <? div_ceil (blen p) (w_f w)).
  - destruct (Z.leb_spec 0 idx); destruct (Z.ltb_spec idx (div_ceil (blen p) (w_f w))); cbn [andb] in H; try discriminate.
    inversion H; subst. cbn [wire_genuine]. apply genuine_mk; [exact El|lia].
  - destruct (idx =? 0); [|discriminate]. inversion H; subst. exact El.
Qed.

Lemma gen_nackfrag_reply_ok : forall r nf, gen_nackfrag r = Ok (Some nf) ->
  0 <= n_base nf /\ Forall (fun k => 0 <= k) (n_set nf) /\ n_count nf = r_nfcount r.
Proof.
  intros r nf H. unfold gen_nackfrag in H.
  destruct (find _ (missing256 r)) as [s|]; [|discriminate].
  destruct (find (has_sn s) (r_buf r)) as [fr|]; [|discriminate].
  destruct (fr_fsize fr =? 0); [discriminate|].
  set (miss := filter _ _) in H.
  assert (Hm : Forall (fun k => 1 <= k) miss).
  { apply Forall_forall. intros k Hk. unfold miss in Hk. apply filter_In in Hk as [Hk _].
    apply zrange_in in Hk. lia. }
  destruct miss as [|b t] eqn:Em; [discriminate|].
  destruct (existsb _ (b :: t)); [discriminate|]. inversion H; subst. cbn [n_base n_set n_count].
  split; [inversion Hm; subst; lia|]. split; [|reflexivity].
  eapply Forall_impl; [|exact Hm]. intros a Ha. cbn beta in Ha. lia.
Qed.

Lemma r_on_heartbeat_spec : forall r first last count final r' x,
  r_on_heartbeat r first last count final = Ok (r', x) ->
  r_buf r' = r_buf r /\ r_changes r' = r_changes r /\ r_highest r' = r_highest r /\
  r_nfcount r' = r_nfcount r /\ r_rel r' = r_rel r /\
  (forall a nf, x = Some (a, Some nf) ->
     0 <= n_base nf /\ Forall (fun k => 0 <= k) (n_set nf) /\ n_count nf = r_nfcount r).
Proof.
  intros r first last count final r' x H. unfold r_on_heartbeat in H.
  destruct (r_hbcount r <? count).
  2:{ inversion H; subst. repeat split; intros; congruence. }
  unfold r_write_message in H. cbn [r_must] in H.
  destruct (negb final || _).
  2:{ inversion H; subst. repeat split; intros; congruence. }
  match type of H with context [gen_nackfrag ?R] => destruct (gen_nackfrag R) as [nfo|e|e] eqn:E end; try discriminate.
  cbn [bind] in H. inversion H; subst. cbn [r_buf r_changes r_highest r_nfcount r_rel].
  split; [reflexivity|]. split; [reflexivity|]. split; [reflexivity|]. split; [reflexivity|]. split; [reflexivity|].
  intros a0 nf Hx. inversion Hx; subst. apply gen_nackfrag_reply_ok in E. cbn [r_nfcount] in E. exact E.
Qed.

Lemma respond_inv : forall s x s' o,
  sinv s ->
  (forall w' ws, x = Ok (w', ws) -> w_f w' = w_f (s_w s) /\ w_changes w' = w_changes (s_w s) /\
                                   Forall (wire_genuine (w_f (s_w s)) (w_changes (s_w s))) ws) ->
  respond s x = Ok (s', o) -> sinv s' /\ w_changes (s_w s') = w_changes (s_w s).
Proof.
  intros s x s' o [Hf Hh Hr Hp] Hx H. unfold respond in H.
  destruct x as [[w' ws]|e|e]; try discriminate. cbn [bind fst snd] in H.
  destruct (Hx w' ws eq_refl) as (E1 & E2 & Hg).
  destruct (r_deliver_all_inv _ _ ws (s_r s) Hf Hh Hr Hg) as (r1 & E & Hr1).
  rewrite E in H. cbn [bind] in H. inversion H; subst. cbn [s_w s_r s_reply].
  split; [|exact E2]. constructor; cbn [s_w s_r s_reply]; rewrite ?E1, ?E2; assumption.
Qed.

Lemma step_inv : forall s o s' b, sinv s -> op_ok o -> step s o = Ok (s', b) ->
  sinv s' /\ w_changes (s_w s') = w_changes (s_w s) ++
             (match o with OWrite p => [(next_sn (s_w s), p)] | _ => [] end).
Proof.
  intros s o s' b Hs Hop H. pose proof Hs as [Hf Hh Hr Hp].
  destruct o as [p|sn idx which| fr |first last count final| |count sn base set| ]; cbn [step op_ok] in *.
  - (* write *)
    unfold w_write in H.
    destruct (send_change 1 _ _ p) as [a|e|e]; try discriminate. cbn [bind] in H.
    destruct (if 2 <=? _ then _ else _) as [c|e|e]; try discriminate. cbn [bind fst snd] in H.
    inversion H; subst. cbn [s_w s_r s_reply set_changes w_f w_changes]. split; [|reflexivity].
    constructor; cbn [s_w s_r s_reply set_changes w_f w_changes]; try assumption.
    + apply history_ok_app; assumption.
    + apply rinv_mono. exact Hr.
  - (* deliver *)
    subst which. rewrite app_nil_r.
    destruct (datagram_of (s_w s) sn idx 1) as [w|] eqn:E.
    + apply datagram_of_spec in E.
      destruct (r_deliver_inv _ _ (s_r s) w Hf Hh Hr E) as (r1 & E1 & Hr1). rewrite E1 in H.
      cbn [bind] in H. inversion H; subst. split; [|reflexivity]. constructor; assumption.
    + inversion H; subst. split; [exact Hs|reflexivity].
  - destruct Hop.
  - (* heartbeat *)
    rewrite app_nil_r.
    destruct (r_on_heartbeat (s_r s) first last count final) as [[r' x]|e|e] eqn:E; try discriminate.
    cbn [bind fst snd] in H. inversion H; subst. cbn [s_w s_r s_reply].
    destruct (r_on_heartbeat_spec _ _ _ _ _ _ _ E) as (E1 & E2 & E3 & _ & _ & Hnf).
    split; [|reflexivity]. constructor; cbn [s_w s_r s_reply]; try assumption.
    + destruct Hr as [R1 R2 R3 R4]. constructor; rewrite ?E1, ?E2, ?E3; assumption.
    + destruct x as [[a [nf|]]|]; cbn [reply_ok]; try exact I; [|exact Hp].
      destruct (Hnf a nf eq_refl) as (? & ? & _). auto.
  - (* the reader's NACK_FRAG to the writer *)
    rewrite app_nil_r.
    destruct (s_reply s) as [[a [nf|]]|] eqn:Er.
    + eapply respond_inv; [exact Hs| |exact H]. intros w' ws Hx.
      destruct (w_on_nack_frag_spec _ _ _ _ _ _ _ Hx) as (E1 & E2 & Hg). cbn [reply_ok] in Hp.
      repeat split; try assumption. apply Hg; tauto.
    + eapply respond_inv; [exact Hs| |exact H]. intros w' ws Hx. inversion Hx; subst. repeat split; constructor.
    + eapply respond_inv; [exact Hs| |exact H]. intros w' ws Hx. inversion Hx; subst. repeat split; constructor.
  - (* forged NACK_FRAG *)
    rewrite app_nil_r. eapply respond_inv; [exact Hs| |exact H]. intros w' ws Hx.
    destruct (w_on_nack_frag_spec _ _ _ _ _ _ _ Hx) as (E1 & E2 & Hg).
    repeat split; try assumption. apply Hg; tauto.
  - (* ACKNACK *)
    rewrite app_nil_r.
    destruct (s_reply s) as [[a nfo]|] eqn:Er.
    + eapply respond_inv; [exact Hs| |exact H]. intros w' ws Hx.
      apply w_on_acknack_spec in Hx; assumption.
    + eapply respond_inv; [exact Hs| |exact H]. intros w' ws Hx. inversion Hx; subst. repeat split; constructor.
Qed.

Fixpoint number_from (k : Z) (l : list bytes) : list (Z * bytes) :=
  match l with [] => [] | p :: t => (k, p) :: number_from (k + 1) t end.

Lemma number_from_length : forall l k, length (number_from k l) = length l.
Proof. induction l as [|p l IH]; intros k; cbn [number_from length]; [reflexivity|]. rewrite IH. reflexivity. Qed.

Lemma lookup_number_from : forall l k sn,
  lookup sn (number_from k l) = if k <=? sn then nth_error l (Z.to_nat (sn - k)) else None.
Proof.
  induction l as [|p l IH]; intros k sn; cbn [number_from lookup].
  - destruct (k <=? sn); [|reflexivity]. destruct (Z.to_nat (sn - k)); reflexivity.
  - destruct (Z.eqb_spec k sn) as [E|E].
    + subst. rewrite Z.leb_refl, Z.sub_diag. reflexivity.
    + rewrite IH. destruct (Z.leb_spec (k + 1) sn); destruct (Z.leb_spec k sn); try lia; [|reflexivity].
      replace (Z.to_nat (sn - k)) with (S (Z.to_nat (sn - (k + 1)))) by lia. reflexivity.
Qed.

Lemma run_inv : forall ops s s' obs, sinv s -> Forall op_ok ops -> run s ops = Ok (s', obs) ->
  sinv s' /\ w_changes (s_w s') = w_changes (s_w s) ++ number_from (next_sn (s_w s)) (written ops).
Proof.
  induction ops as [|o ops IH]; intros s s' obs Hs Hops H; cbn [run] in H.
  - inversion H; subst. cbn [written number_from]. rewrite app_nil_r. auto.
  - inversion Hops; subst.
    destruct (step s o) as [[s1 b]|e|e] eqn:E; try discriminate. cbn [bind fst snd] in H.
    destruct (run s1 ops) as [[s2 obs2]|e|e] eqn:E2; try discriminate. cbn [bind fst snd] in H.
    inversion H; subst.
    destruct (step_inv s o s1 b Hs H2 E) as [Hs1 Hc1].
    destruct (IH s1 s' obs2 Hs1 H3 E2) as [Hs2 Hc2]. split; [exact Hs2|].
    rewrite Hc2, Hc1. unfold next_sn. rewrite Hc1, <- app_assoc. f_equal.
    destruct o; cbn [written number_from app]; rewrite ?app_nil_r; try reflexivity.
    rewrite app_length. cbn [length]. do 2 f_equal. lia.
Qed.

Lemma sinv_init : forall rel nreaders f, frag_size_ok f -> sinv (s_init rel nreaders f).
Proof.
  intros rel nreaders f Hf. constructor; cbn; try assumption.
  - intros sn p H. discriminate.
  - constructor; cbn; try constructor. intros x [].
  - exact I.
Qed.

(* C05, safety half, for ALL histories: whatever the order, duplication, loss, interleaving of
   samples, heartbeats and ACKNACK / NACK_FRAG rounds, the reader only ever holds byte-identical
   payloads, each sequence number at most once and in increasing order *)
Theorem delivered_identical : forall rel nreaders f ops s obs,
  frag_size_ok f -> Forall op_ok ops -> run (s_init rel nreaders f) ops = Ok (s, obs) ->
  StronglySorted Z.lt (map fst (r_changes (s_r s))) /\
  forall sn d, In (sn, d) (r_changes (s_r s)) -> nth_written (written ops) sn = Some d.
Proof.
  intros rel nreaders f ops s obs Hf Hops H.
  destruct (run_inv ops _ s obs (sinv_init rel nreaders f Hf) Hops H) as [[_ _ Hr _] Hc].
  cbn in Hc. destruct Hr as [_ _ R3 R4]. split; [exact R4|].
  intros sn d Hin. rewrite Forall_forall in R3. destruct (R3 _ Hin) as [Hl _]. cbn [fst snd] in Hl.
  rewrite Hc, lookup_number_from in Hl. unfold nth_written. exact Hl.
Qed.

(* ------------------------------------------------------------ NACK_FRAG: the count is never incremented *)

Lemma r_on_data_nfcount : forall r sn p, r_nfcount (r_on_data r sn p) = r_nfcount r /\ r_rel (r_on_data r sn p) = r_rel r.
Proof.
  intros r sn p. unfold r_on_data.
  destruct (r_rel r) eqn:E.
  - destruct (sn =? _); cbn [r_set received_change_set r_nfcount r_rel]; auto.
  - destruct (_ <=? sn); cbn [r_set received_change_set r_nfcount r_rel]; auto.
Qed.

Lemma r_on_frag_nfcount : forall r fr r', r_on_frag r fr = Ok r' -> r_nfcount r' = r_nfcount r /\ r_rel r' = r_rel r.
Proof.
  intros r fr r' H. unfold r_on_frag in H.
  destruct (reconstruct _ (fr_sn fr)) as [[[d|] b]|e|e]; cbn [bind fst snd] in H; try discriminate; inversion H; subst.
  - destruct (r_on_data_nfcount (r_set r (r_first r) (r_highest r) b (r_changes r)) (fr_sn fr) d) as [A B].
    rewrite A, B. cbn [r_set r_nfcount r_rel]. auto.
  - cbn [r_set r_nfcount r_rel]. auto.
Qed.

Lemma r_deliver_all_nfcount : forall ws r r', r_deliver_all r ws = Ok r' ->
  r_nfcount r' = r_nfcount r /\ r_rel r' = r_rel r.
Proof.
  induction ws as [|w ws IH]; intros r r' H; cbn [r_deliver_all] in H.
  - inversion H; auto.
  - destruct (r_deliver r w) as [r1|e|e] eqn:E; try discriminate. cbn [bind] in H.
    destruct (IH r1 r' H) as [A B]. rewrite A, B.
    destruct w as [rid sn p|fr|sn]; cbn [r_deliver] in E.
    + inversion E; subst. apply r_on_data_nfcount.
    + apply r_on_frag_nfcount in E. exact E.
    + inversion E; subst. auto.
Qed.

Record ninv (s : sys) : Prop := mkninv {
  ni_count : r_nfcount (s_r s) = 0;
  ni_last : 0 <= w_last_nf (s_w s);
  ni_reply : forall a nf, s_reply s = Some (a, Some nf) -> n_count nf = 0
}.

Lemma w_on_nack_frag_last : forall w count sn base set w' ws,
  w_on_nack_frag w count sn base set = Ok (w', ws) -> 0 <= w_last_nf w ->
  0 <= w_last_nf w' /\ (count <= w_last_nf w -> ws = [] /\ w' = w).
Proof.
  intros w count sn base set w' ws H Hl. unfold w_on_nack_frag in H.
  destruct (Z.ltb_spec (w_last_nf w) count) as [E|E].
  - destruct (w_rel w); cbn [andb] in H.
    + destruct (lookup sn (w_changes w)); [destruct (w_f w =? 0); [discriminate|]|];
        inversion H; subst; cbn [set_last_nf w_last_nf]; split; lia.
    + inversion H; subst. split; [exact Hl|lia].
  - rewrite andb_false_r in H. inversion H; subst. auto.
Qed.

Lemma w_on_acknack_last : forall w count base set w' ws,
  w_on_acknack w count base set = Ok (w', ws) -> w_last_nf w' = w_last_nf w.
Proof.
  intros w count base set w' ws H. unfold w_on_acknack in H.
  destruct (w_rel w && _); [|inversion H; reflexivity].
  destruct (ack_resp w set); try discriminate. cbn [bind] in H. inversion H; reflexivity.
Qed.

Lemma respond_ninv : forall s x s' o, ninv s ->
  (forall w' ws, x = Ok (w', ws) -> 0 <= w_last_nf w') ->
  respond s x = Ok (s', o) ->
  ninv s' /\ exists w' ws n, x = Ok (w', ws) /\ o = BResp ws n.
Proof.
  intros s x s' o [N1 N2 N3] Hx H. unfold respond in H.
  destruct x as [[w' ws]|e|e]; try discriminate. cbn [bind fst snd] in H.
  destruct (r_deliver_all (s_r s) ws) as [r1|e|e] eqn:E; try discriminate. cbn [bind] in H.
  inversion H; subst. apply r_deliver_all_nfcount in E as [E _]. split.
  - constructor; cbn [s_w s_r s_reply]; [lia|apply (Hx w' ws eq_refl)|exact N3].
  - eauto.
Qed.

(* one step: the invariant holds, the reader's NACK_FRAG is answered with nothing, every NACK_FRAG
   the reader emits carries count 0 *)
Lemma step_ninv : forall s o s' b, ninv s -> step s o = Ok (s', b) ->
  ninv s' /\ (o = ONackFrag -> exists n, b = BResp [] n /\ s_w s' = s_w s) /\
  (forall a nf, b = BReply (Some (a, Some nf)) -> n_count nf = 0).
Proof.
  intros s o s' b Hn H. pose proof Hn as [N1 N2 N3].
  destruct o as [p|sn idx which| fr |first last count final| |count sn base set| ]; cbn [step] in H.
  - unfold w_write in H.
    destruct (send_change 1 _ _ p) as [a|e|e]; try discriminate. cbn [bind] in H.
    destruct (if 2 <=? _ then _ else _) as [c|e|e]; try discriminate. cbn [bind fst snd] in H.
    inversion H; subst. split; [|split; [discriminate|discriminate]].
    constructor; cbn [s_w s_r s_reply set_changes w_last_nf]; assumption.
  - destruct (datagram_of (s_w s) sn idx which) as [w|].
    + destruct (r_deliver (s_r s) w) as [r1|e|e] eqn:E; try discriminate. cbn [bind] in H. inversion H; subst.
      split; [|split; [discriminate|discriminate]].
      assert (E' : r_deliver_all (s_r s) [w] = Ok r1) by (cbn [r_deliver_all]; rewrite E; reflexivity).
      apply r_deliver_all_nfcount in E' as [E' _].
      constructor; cbn [s_w s_r s_reply]; [lia|assumption|assumption].
    + inversion H; subst. split; [exact Hn|split; [discriminate|discriminate]].
  - destruct (r_on_frag (s_r s) fr) as [r1|e|e] eqn:E; try discriminate. cbn [bind] in H. inversion H; subst.
    apply r_on_frag_nfcount in E as [E _].
    split; [|split; [discriminate|discriminate]].
    constructor; cbn [s_w s_r s_reply]; [lia|assumption|assumption].
  - destruct (r_on_heartbeat (s_r s) first last count final) as [[r' x]|e|e] eqn:E; try discriminate.
    cbn [bind fst snd] in H. inversion H; subst.
    destruct (r_on_heartbeat_spec _ _ _ _ _ _ _ E) as (_ & _ & _ & E4 & _ & Hnf).
    split; [|split; [discriminate|]].
    + constructor; cbn [s_w s_r s_reply]; [lia|assumption|].
      intros a nf Hx. destruct x as [[a' [nf'|]]|]; try discriminate.
      * inversion Hx; subst. destruct (Hnf a nf eq_refl) as (_ & _ & Hc). lia.
      * apply (N3 a nf Hx).
    + intros a nf Hb. inversion Hb; subst. destruct (Hnf a nf eq_refl) as (_ & _ & Hc). lia.
  - destruct (s_reply s) as [[a [nf|]]|] eqn:Er.
    + pose proof (N3 a nf eq_refl) as Hc.
      destruct (w_on_nack_frag (s_w s) (n_count nf) (n_sn nf) (n_base nf) (n_set nf)) as [[w' ws]|e|e] eqn:E.
      2,3: unfold respond in H; discriminate.
      destruct (w_on_nack_frag_last _ _ _ _ _ _ _ E N2) as [Hl Hz]. destruct (Hz ltac:(lia)) as [-> ->].
      destruct (respond_ninv s (Ok (s_w s, [])) s' b Hn ltac:(intros ? ? Hx; inversion Hx; subst; exact N2) H)
        as (Hn' & w'' & ws'' & n & Hx & Hb). inversion Hx; subst.
      split; [exact Hn'|split; [|discriminate]]. intros _. exists n. split; [reflexivity|].
      unfold respond in H. cbn [bind fst snd r_deliver_all] in H. inversion H; reflexivity.
    + destruct (respond_ninv s (Ok (s_w s, [])) s' b Hn ltac:(intros ? ? Hx; inversion Hx; subst; exact N2) H)
        as (Hn' & w'' & ws'' & n & Hx & Hb). inversion Hx; subst.
      split; [exact Hn'|split; [|discriminate]]. intros _. exists n. split; [reflexivity|].
      unfold respond in H. cbn [bind fst snd r_deliver_all] in H. inversion H; reflexivity.
    + destruct (respond_ninv s (Ok (s_w s, [])) s' b Hn ltac:(intros ? ? Hx; inversion Hx; subst; exact N2) H)
        as (Hn' & w'' & ws'' & n & Hx & Hb). inversion Hx; subst.
      split; [exact Hn'|split; [|discriminate]]. intros _. exists n. split; [reflexivity|].
      unfold respond in H. cbn [bind fst snd r_deliver_all] in H. inversion H; reflexivity.
  - destruct (respond_ninv s (w_on_nack_frag (s_w s) count sn base set) s' b Hn
               ltac:(intros ? ? Hx; apply w_on_nack_frag_last in Hx; [tauto|exact N2]) H)
      as (Hn' & w'' & ws'' & n & Hx & Hb). subst b.
    split; [exact Hn'|split; discriminate].
  - destruct (s_reply s) as [[a nfo]|] eqn:Er.
    + destruct (respond_ninv s (w_on_acknack (s_w s) (a_count a) (a_base a) (a_set a)) s' b Hn
                 ltac:(intros ? ? Hx; apply w_on_acknack_last in Hx; rewrite Hx; exact N2) H)
        as (Hn' & w'' & ws'' & n & Hx & Hb). subst b.
      split; [exact Hn'|split; discriminate].
    + destruct (respond_ninv s (Ok (s_w s, [])) s' b Hn ltac:(intros ? ? Hx; inversion Hx; subst; exact N2) H)
        as (Hn' & w'' & ws'' & n & Hx & Hb). subst b.
      split; [exact Hn'|split; discriminate].
Qed.

Lemma ninv_init : forall rel nreaders f, ninv (s_init rel nreaders f).
Proof. intros. constructor; cbn; [reflexivity|lia|intros; discriminate]. Qed.

Lemma run_ninv : forall ops s s' obs, ninv s -> run s ops = Ok (s', obs) ->
  ninv s' /\
  Forall2 (fun o b => (o = ONackFrag -> exists n, b = BResp [] n) /\
                      (forall a nf, b = BReply (Some (a, Some nf)) -> n_count nf = 0)) ops obs.
Proof.
  induction ops as [|o ops IH]; intros s s' obs Hn H; cbn [run] in H.
  - inversion H; subst. split; [exact Hn|constructor].
  - destruct (step s o) as [[s1 b]|e|e] eqn:E; try discriminate. cbn [bind fst snd] in H.
    destruct (run s1 ops) as [[s2 obs2]|e|e] eqn:E2; try discriminate. cbn [bind fst snd] in H.
    inversion H; subst.
    destruct (step_ninv s o s1 b Hn E) as (Hn1 & Ha & Hb).
    destruct (IH s1 s' obs2 Hn1 E2) as [Hn2 Hall]. split; [exact Hn2|].
    constructor; [|exact Hall]. split; [|exact Hb].
    intros Ho. destruct (Ha Ho) as (n & Hn' & _). eauto.
Qed.

(* D8a on the model, for ALL histories: every NACK_FRAG the reader ever emits carries count 0, and the
   writer answers every one of them with nothing (its filter is `count > last`, last starts at 0) *)
Theorem nackfrag_always_filtered : forall rel nreaders f ops s obs,
  run (s_init rel nreaders f) ops = Ok (s, obs) ->
  r_nfcount (s_r s) = 0 /\
  Forall2 (fun o b => (o = ONackFrag -> exists n, b = BResp [] n) /\
                      (forall a nf, b = BReply (Some (a, Some nf)) -> n_count nf = 0)) ops obs.
Proof.
  intros rel nreaders f ops s obs H.
  destruct (run_ninv ops _ s obs (ninv_init rel nreaders f) H) as [[N1 _ _] Hall]. auto.
Qed.

(* ------------------------------------------------------------ a lost fragment is never repaired *)

Definition frag_buf1 (r : rstate) (fr : frag) : list frag :=
  if (if r_rel r then fr_sn fr =? available_changes_max r + 1
      else available_changes_max r + 1 <=? fr_sn fr)
  then push_frag (r_buf r) fr else r_buf r.

Lemma r_on_frag_cases : forall f ch r fr q, frag_size_ok f -> history_ok ch ->
  rinv f ch r -> genuine f 1 ch fr -> lookup (fr_sn fr) ch = Some q ->
  let buf1 := frag_buf1 r fr in
    (forall x, In x buf1 -> In x (r_buf r) \/ x = fr) /\ NoDup buf1 /\
    (forall x, In x buf1 -> genuine f 1 ch x) /\
    ((complete f 1 buf1 (fr_sn fr) q /\
      r_on_frag r fr = Ok (r_on_data (r_set r (r_first r) (r_highest r)
                                       (filter (fun x => negb (has_sn (fr_sn fr) x)) buf1) (r_changes r))
                                     (fr_sn fr) q))
     \/ (~ complete f 1 buf1 (fr_sn fr) q /\
         r_on_frag r fr = Ok (r_set r (r_first r) (r_highest r) buf1 (r_changes r)))).
Proof.
  intros f ch r fr q Hf Hch [H1 H2 H3 H4] Hg Hl buf1.
  unfold r_on_frag. fold (frag_buf1 r fr). fold buf1.
  assert (Hsub : forall x, In x buf1 -> In x (r_buf r) \/ x = fr).
  { unfold buf1, frag_buf1. destruct (if r_rel r then _ else _); [|tauto]. intros x Hx. apply push_frag_in in Hx. exact Hx. }
  assert (Hnd : NoDup buf1).
  { unfold buf1, frag_buf1. destruct (if r_rel r then _ else _); [apply push_frag_nodup|]; exact H1. }
  assert (Hgen : forall x, In x buf1 -> genuine f 1 ch x).
  { intros x Hx. destruct (Hsub x Hx) as [Hx'|Hx']; [apply H2; exact Hx'|subst; exact Hg]. }
  split; [exact Hsub|]. split; [exact Hnd|]. split; [exact Hgen|].
  destruct (complete_dec f 1 ch Hf Hch buf1 Hnd Hgen (fr_sn fr) q Hl) as [Hc|Hc].
  - left. split; [exact Hc|].
    assert (Hn : 1 <= div_ceil (blen q) f).
    { destruct Hg as (p' & i & Hl' & Hi & _). assert (p' = q) by congruence. subst. lia. }
    rewrite (reconstruct_complete f 1 ch Hf Hch buf1 Hnd Hgen (fr_sn fr) q Hl Hc Hn). reflexivity.
  - right. split; [exact Hc|].
    rewrite (reconstruct_incomplete f 1 ch Hf Hch buf1 Hnd Hgen (fr_sn fr) q Hl Hc). reflexivity.
Qed.

Section Lost.
  Variables (f sn j : Z) (p : bytes).
  Hypothesis Hf : frag_size_ok f.
  Hypothesis Hj : 1 <= j < div_ceil (blen p) f.

  Definition nolost (r : rstate) : Prop :=
    (forall x, In x (r_buf r) -> ~ (fr_sn x = sn /\ fr_start x = j + 1)) /\
    ~ In sn (map fst (r_changes r)).

  Definition wire_safe (w : wire) : Prop :=
    match w with
    | WFrag fr => ~ (fr_sn fr = sn /\ fr_start fr = j + 1)
    | WData _ sn' _ => sn' <> sn
    | WGap _ => True
    end.

  Lemma r_on_data_nolost : forall r sn' q, sn' <> sn -> nolost r -> nolost (r_on_data r sn' q).
  Proof.
    intros r sn' q Hne [N1 N2]. unfold r_on_data.
    assert (Hb : forall s x, In x (filter (fun fr => s <? fr_sn fr) (r_buf r)) ->
                   ~ (fr_sn x = sn /\ fr_start x = j + 1)).
    { intros s x Hx. apply filter_In in Hx. apply N1. tauto. }
    assert (Hc : ~ In sn (map fst (r_changes r ++ [(sn', q)]))).
    { rewrite map_app, in_app_iff. cbn [map fst In]. intros [H|[H|[]]]; [tauto|congruence]. }
    destruct (r_rel r).
    - destruct (sn' =? _); [|split; assumption].
      split; cbn [r_set received_change_set r_buf r_changes]; [apply Hb|exact Hc].
    - destruct (_ <=? sn'); [|split; assumption].
      split; cbn [r_set received_change_set r_buf r_changes]; [apply Hb|exact Hc].
  Qed.

  Variable ch : list (Z * bytes).
  Hypothesis Hch : history_ok ch.
  Hypothesis Hlk : lookup sn ch = Some p.

  Lemma r_deliver_nolost : forall r w r', rinv f ch r -> wire_genuine f ch w -> wire_safe w ->
    nolost r -> r_deliver r w = Ok r' -> nolost r'.
  Proof.
    intros r w r' Hr Hg Hs Hn H. destruct w as [rid sn' q|fr|sn']; cbn [r_deliver wire_genuine wire_safe] in *.
    - inversion H; subst. apply r_on_data_nolost; assumption.
    - pose proof Hg as (q & i & Hl & Hi & Hfr).
      pose proof (r_on_frag_cases f ch r fr q Hf Hch Hr Hg Hl) as (Hsub & Hnd & Hgen & Hcase).
      set (buf1 := frag_buf1 r fr) in *.
      assert (Hb1 : forall x, In x buf1 -> ~ (fr_sn x = sn /\ fr_start x = j + 1)).
      { intros x Hx. destruct (Hsub x Hx) as [Hx'|Hx']; [apply Hn; exact Hx'|subst; exact Hs]. }
      destruct Hcase as [[Hc E]|[Hc E]]; rewrite E in H; inversion H; subst.
      + (* complete: then this cannot be sample sn, whose fragment j+1 is not there *)
        assert (Hne : fr_sn fr <> sn).
        { intros Heq. rewrite Heq in *. assert (q = p) by congruence. subst q.
          specialize (Hc j ltac:(lia)). apply Hb1 in Hc. apply Hc.
          pose proof (gfrag_fields f 1 sn p Hf (Hch _ _ Hlk) j ltac:(lia)) as (_ & A & B & _). auto. }
        apply r_on_data_nolost; [exact Hne|].
        split; cbn [r_set r_buf r_changes]; [|apply Hn].
        intros x Hx. apply filter_In in Hx. apply Hb1. tauto.
      + split; cbn [r_set r_buf r_changes]; [exact Hb1|apply Hn].
    - inversion H; subst. exact Hn.
  Qed.

  Lemma r_deliver_all_nolost : forall ws r r', rinv f ch r ->
    Forall (wire_genuine f ch) ws -> Forall wire_safe ws ->
    nolost r -> r_deliver_all r ws = Ok r' -> nolost r'.
  Proof.
    induction ws as [|w ws IH]; intros r r' Hr Hg Hs Hn H; cbn [r_deliver_all] in H.
    - inversion H; subst. exact Hn.
    - inversion Hg as [|? ? Hg1 Hg2]; subst. inversion Hs as [|? ? Hs1 Hs2]; subst.
      destruct (r_deliver r w) as [r1|e|e] eqn:E; try discriminate. cbn [bind] in H.
      destruct (r_deliver_inv f ch r w Hf Hch Hr Hg1) as (r1' & E' & Hr1). rewrite E in E'. inversion E'; subst r1'.
      apply (IH r1 r' Hr1 Hg2 Hs2); [|exact H].
      apply (r_deliver_nolost r w r1); assumption.
  Qed.

  (* which submessages of the writer are safe *)
  Lemma mk_frag_safe : forall sn' q idx, lookup sn' ch = Some q -> 0 <= idx < div_ceil (blen q) f ->
    ~ (sn' = sn /\ idx = j) -> wire_safe (WFrag (mk_data_frag 1 sn' q f idx)).
  Proof.
    intros sn' q idx Hl Hi Hne. cbn [wire_safe]. intros [A B]. rewrite mk_data_frag_sn in A. subst sn'.
    pose proof (gfrag_fields f 1 sn q Hf (Hch _ _ Hl) idx Hi) as (_ & _ & C & _). unfold gfrag in C.
    apply Hne. split; [reflexivity|lia].
  Qed.

  Lemma data_safe : forall rid sn' q, lookup sn' ch = Some q -> ~ (1 < div_ceil (blen q) f) -> wire_safe (WData rid sn' q).
  Proof.
    intros rid sn' q Hl Hn. cbn [wire_safe]. intros ->. assert (q = p) by congruence. subst. lia.
  Qed.
End Lost.


Lemma respond_inv2 : forall s x s' o, respond s x = Ok (s', o) ->
  exists w' ws, x = Ok (w', ws) /\ r_deliver_all (s_r s) ws = Ok (s_r s') /\ s_w s' = w'.
Proof.
  intros s x s' o H. unfold respond in H. destruct x as [[w' ws]|e|e]; try discriminate.
  cbn [bind fst snd] in H. destruct (r_deliver_all (s_r s) ws) as [r1|e|e] eqn:E; try discriminate.
  cbn [bind] in H. inversion H; subst. eauto.
Qed.

Lemma ack_resp_safe : forall f sn j p w set ws, frag_size_ok f -> 1 <= j < div_ceil (blen p) f ->
  w_f w = f -> history_ok (w_changes w) -> lookup sn (w_changes w) = Some p ->
  ack_resp w set = Ok ws -> Forall (wire_safe sn j) ws.
Proof.
  intros f sn j p w set. induction set as [|s t IH]; intros ws Hf Hj Hwf Hh Hl H; cbn [ack_resp] in H.
  - inversion H. constructor.
  - destruct (ack_resp w t) as [y|e|e] eqn:E.
    2,3: destruct (lookup s (w_changes w)); [destruct (0 <? s); [destruct (w_f w =? 0)|]|]; discriminate.
    assert (Hx : exists x, ws = x :: y /\ wire_safe sn j x).
    { destruct (lookup s (w_changes w)) as [q|] eqn:El.
      - destruct (0 <? s).
        + destruct (w_f w =? 0); [discriminate|]. cbn [bind] in H. inversion H; subst.
          eexists. split; [reflexivity|].
          destruct (Z.ltb_spec 1 (div_ceil (blen q) (w_f w))).
          * apply (mk_frag_safe (w_f w) sn j Hf (w_changes w) Hh s q 0 El); lia.
          * apply (data_safe (w_f w) sn j p Hj (w_changes w) Hl 1 s q El). lia.
        + cbn [bind] in H. inversion H; subst. eexists. split; [reflexivity|exact I].
      - cbn [bind] in H. inversion H; subst. eexists. split; [reflexivity|exact I]. }
    destruct Hx as (x & -> & Hx). constructor; [exact Hx|]. apply IH; auto.
Qed.

Record linv (sn j : Z) (p : bytes) (s : sys) : Prop := mklinv {
  li_s : sinv s;
  li_n : ninv s;
  li_lk : lookup sn (w_changes (s_w s)) = Some p;
  li_j : 1 <= j < div_ceil (blen p) (w_f (s_w s));
  li_nolost : nolost sn j (s_r s)
}.

Lemma step_linv : forall sn j p s o s' b, linv sn j p s -> op_ok o -> lost_op sn j o ->
  step s o = Ok (s', b) -> linv sn j p s'.
Proof.
  intros sn j p s o s' b [Ls Ln Llk Lj Lno] Hop Hlo H.
  destruct (step_inv s o s' b Ls Hop H) as [Ls' Hc].
  destruct (step_ninv s o s' b Ln H) as (Ln' & Hnf & _).
  pose proof Ls as [Hf Hh Hr Hp].
  assert (Hwf : w_f (s_w s') = w_f (s_w s)).
  { destruct o as [q|sn' idx which| fr |first last count final| |count sn' base set| ]; cbn [step] in H.
    - unfold w_write in H. destruct (send_change 1 _ _ q); try discriminate. cbn [bind] in H.
      destruct (if 2 <=? _ then _ else _); try discriminate. cbn [bind fst snd] in H. inversion H; reflexivity.
    - destruct (datagram_of _ _ _ _); [destruct (r_deliver _ _); try discriminate; cbn [bind] in H|]; inversion H; reflexivity.
    - destruct (r_on_frag _ _); try discriminate. cbn [bind] in H. inversion H; reflexivity.
    - destruct (r_on_heartbeat _ _ _ _ _) as [[? ?]|?|?]; try discriminate. cbn [bind fst snd] in H. inversion H; reflexivity.
    - destruct (Hnf eq_refl) as (n & _ & E). rewrite E. reflexivity.
    - destruct Hlo.
    - destruct (s_reply s) as [[a nfo]|].
      + apply respond_inv2 in H as (w' & ws & Hx & _ & E). rewrite E.
        apply w_on_acknack_spec in Hx; [tauto|exact Hf].
      + apply respond_inv2 in H as (w' & ws & Hx & _ & E). injection Hx as A B. congruence. }
  assert (Llk' : lookup sn (w_changes (s_w s')) = Some p) by (rewrite Hc, lookup_app, Llk; reflexivity).
  constructor; try assumption; [rewrite Hwf; exact Lj|].
  destruct o as [q|sn' idx which| fr |first last count final| |count sn' base set| ]; cbn [step op_ok lost_op] in *.
  - (* write: reader untouched *)
    unfold w_write in H. destruct (send_change 1 _ _ q); try discriminate. cbn [bind] in H.
    destruct (if 2 <=? _ then _ else _); try discriminate. cbn [bind fst snd] in H. inversion H; subst. exact Lno.
  - subst which. destruct (datagram_of (s_w s) sn' idx 1) as [w|] eqn:E.
    + destruct (r_deliver (s_r s) w) as [r1|e|e] eqn:E1; try discriminate. cbn [bind] in H. inversion H; subst.
      cbn [s_r]. apply (r_deliver_nolost (w_f (s_w s)) sn j p Hf Lj (w_changes (s_w s)) Hh Llk (s_r s) w r1 Hr);
        [apply (datagram_of_spec _ _ _ _ E)| |exact Lno|exact E1].
      unfold datagram_of in E. destruct ((1 <=? 1) && _); [|discriminate].
      destruct (lookup sn' (w_changes (s_w s))) as [q|] eqn:El; [|discriminate].
      destruct (w_f (s_w s) =? 0); [discriminate|].
      destruct (Z.ltb_spec 1 (div_ceil (blen q) (w_f (s_w s)))).
      * destruct (Z.leb_spec 0 idx); destruct (Z.ltb_spec idx (div_ceil (blen q) (w_f (s_w s))));
          cbn [andb] in E; try discriminate. inversion E; subst.
        apply (mk_frag_safe (w_f (s_w s)) sn j Hf (w_changes (s_w s)) Hh sn' q idx El); [lia|exact Hlo].
      * destruct (idx =? 0); [|discriminate]. inversion E; subst.
        apply (data_safe (w_f (s_w s)) sn j p Lj (w_changes (s_w s)) Llk 1 sn' q El). lia.
    + inversion H; subst. exact Lno.
  - destruct Hop.
  - destruct (r_on_heartbeat (s_r s) first last count final) as [[r' x]|e|e] eqn:E; try discriminate.
    cbn [bind fst snd] in H. inversion H; subst. cbn [s_r].
    destruct (r_on_heartbeat_spec _ _ _ _ _ _ _ E) as (E1 & E2 & _).
    destruct Lno as [A B]. split; rewrite ?E1, ?E2; assumption.
  - (* the reader's NACK_FRAG: answered with nothing *)
    destruct (Hnf eq_refl) as (n & Hb & _). subst b.
    destruct (s_reply s) as [[a [nf|]]|] eqn:Er.
    + apply respond_inv2 in H as (w' & ws & Hx & Hd & _).
      assert (Hws : ws = []).
      { destruct Ln as [_ N2 N3]. apply w_on_nack_frag_last in Hx as [_ Hz]; [|exact N2].
        apply Hz. rewrite (N3 a nf Er). exact N2. }
      subst ws. cbn [r_deliver_all] in Hd. injection Hd as Hd. rewrite <- Hd. exact Lno.
    + apply respond_inv2 in H as (w' & ws & Hx & Hd & _). injection Hx as A B. subst ws.
      cbn [r_deliver_all] in Hd. injection Hd as Hd. rewrite <- Hd. exact Lno.
    + apply respond_inv2 in H as (w' & ws & Hx & Hd & _). injection Hx as A B. subst ws.
      cbn [r_deliver_all] in Hd. injection Hd as Hd. rewrite <- Hd. exact Lno.
  - destruct Hlo.
  - destruct (s_reply s) as [[a nfo]|].
    + apply respond_inv2 in H as (w' & ws & Hx & Hd & _).
      pose proof Hx as Hx2. apply w_on_acknack_spec in Hx2 as (_ & _ & Hg); [|exact Hf].
      unfold w_on_acknack in Hx. destruct (w_rel (s_w s) && _).
      * destruct (ack_resp (s_w s) (a_set a)) as [y|e|e] eqn:Ea; try discriminate. cbn [bind] in Hx.
        inversion Hx; subst.
        apply (r_deliver_all_nolost (w_f (s_w s)) sn j p Hf Lj (w_changes (s_w s)) Hh Llk ws (s_r s) (s_r s') Hr Hg);
          [|exact Lno|exact Hd].
        apply (ack_resp_safe (w_f (s_w s)) sn j p (s_w s) (a_set a) ws Hf Lj eq_refl Hh Llk Ea).
      * injection Hx as A B. subst ws. cbn [r_deliver_all] in Hd. injection Hd as Hd. rewrite <- Hd. exact Lno.
    + apply respond_inv2 in H as (w' & ws & Hx & Hd & _). injection Hx as A B. subst ws.
      cbn [r_deliver_all] in Hd. injection Hd as Hd. rewrite <- Hd. exact Lno.
Qed.

Lemma run_linv : forall sn j p ops s s' obs, linv sn j p s -> Forall op_ok ops -> Forall (lost_op sn j) ops ->
  run s ops = Ok (s', obs) -> linv sn j p s'.
Proof.
  intros sn j p. induction ops as [|o ops IH]; intros s s' obs Hl Hok Hlo H; cbn [run] in H.
  - inversion H; subst. exact Hl.
  - inversion Hok as [|? ? Ho1 Ho2]; subst. inversion Hlo as [|? ? Hl1 Hl2]; subst.
    destruct (step s o) as [[s1 b]|e|e] eqn:E; try discriminate. cbn [bind fst snd] in H.
    destruct (run s1 ops) as [[s2 obs2]|e|e] eqn:E2; try discriminate. cbn [bind fst snd] in H.
    inversion H; subst. apply (IH s1 s' obs2); try assumption.
    apply (step_linv sn j p s o s1 b); assumption.
Qed.

Lemma run_app : forall a b s, run s (a ++ b) =
  (x <- run s a ;; y <- run (fst x) b ;; Ok (fst y, snd x ++ snd y)).
Proof.
  induction a as [|o a IH]; intros b s; cbn [app run bind fst snd].
  - destruct (run s b) as [[s' obs]|e|e]; reflexivity.
  - destruct (step s o) as [[s1 ob]|e|e]; cbn [bind fst snd]; try reflexivity.
    rewrite IH. destruct (run s1 a) as [[s2 o2]|e|e]; cbn [bind fst snd]; try reflexivity.
    destruct (run s2 b) as [[s3 o3]|e|e]; cbn [bind fst snd]; reflexivity.
Qed.

Lemma written_writes : forall ps, written (map OWrite ps) = ps.
Proof. induction ps as [|p ps IH]; cbn [map written]; [reflexivity|]. rewrite IH. reflexivity. Qed.

Lemma run_writes_reader : forall ps s s' obs, run s (map OWrite ps) = Ok (s', obs) ->
  s_r s' = s_r s /\ s_reply s' = s_reply s /\ w_last_nf (s_w s') = w_last_nf (s_w s).
Proof.
  induction ps as [|p ps IH]; intros s s' obs H; cbn [map run] in H.
  - inversion H; auto.
  - destruct (step s (OWrite p)) as [[s1 b]|e|e] eqn:E; try discriminate. cbn [bind fst snd] in H.
    destruct (run s1 (map OWrite ps)) as [[s2 obs2]|e|e] eqn:E2; try discriminate. cbn [bind fst snd] in H.
    inversion H; subst. destruct (IH s1 s' obs2 E2) as (A & B & C). rewrite A, B, C.
    cbn [step] in E. unfold w_write in E.
    destruct (send_change 1 _ _ p); try discriminate. cbn [bind] in E.
    destruct (if 2 <=? _ then _ else _); try discriminate. cbn [bind fst snd] in E. inversion E; subst. auto.
Qed.

Lemma w_on_nack_frag_wf : forall w count sn base set w' ws,
  w_on_nack_frag w count sn base set = Ok (w', ws) -> w_f w' = w_f w.
Proof. intros. apply w_on_nack_frag_spec in H. tauto. Qed.

Lemma step_wf : forall s o s' b, step s o = Ok (s', b) -> w_f (s_w s') = w_f (s_w s).
Proof.
  intros s o s' b H.
  destruct o as [q|sn' idx which| fr |first last count final| |count sn' base set| ]; cbn [step] in H.
  - unfold w_write in H. destruct (send_change 1 _ _ q); try discriminate. cbn [bind] in H.
    destruct (if 2 <=? _ then _ else _); try discriminate. cbn [bind fst snd] in H. inversion H; reflexivity.
  - destruct (datagram_of _ _ _ _); [destruct (r_deliver _ _); try discriminate; cbn [bind] in H|]; inversion H; reflexivity.
  - destruct (r_on_frag _ _); try discriminate. cbn [bind] in H. inversion H; reflexivity.
  - destruct (r_on_heartbeat _ _ _ _ _) as [[? ?]|?|?]; try discriminate. cbn [bind fst snd] in H. inversion H; reflexivity.
  - destruct (s_reply s) as [[a [nf|]]|]; apply respond_inv2 in H as (w' & ws & Hx & _ & E); rewrite E.
    + apply w_on_nack_frag_wf in Hx. exact Hx.
    + injection Hx as A B. rewrite <- A. reflexivity.
    + injection Hx as A B. rewrite <- A. reflexivity.
  - apply respond_inv2 in H as (w' & ws & Hx & _ & E). rewrite E. apply w_on_nack_frag_wf in Hx. exact Hx.
  - destruct (s_reply s) as [[a nfo]|]; apply respond_inv2 in H as (w' & ws & Hx & _ & E); rewrite E.
    + unfold w_on_acknack in Hx. destruct (w_rel (s_w s) && _).
      * destruct (ack_resp _ _); try discriminate. cbn [bind] in Hx. injection Hx as A B. rewrite <- A. reflexivity.
      * injection Hx as A B. rewrite <- A. reflexivity.
    + injection Hx as A B. rewrite <- A. reflexivity.
Qed.

Lemma run_wf : forall ops s s' obs, run s ops = Ok (s', obs) -> w_f (s_w s') = w_f (s_w s).
Proof.
  induction ops as [|o ops IH]; intros s s' obs H; cbn [run] in H.
  - inversion H; reflexivity.
  - destruct (step s o) as [[s1 b]|e|e] eqn:E; try discriminate. cbn [bind fst snd] in H.
    destruct (run s1 ops) as [[s2 obs2]|e|e] eqn:E2; try discriminate. cbn [bind fst snd] in H.
    inversion H; subst. rewrite (IH s1 s' obs2 E2). apply (step_wf s o s1 b E).
Qed.

(* D8 on the model, for ALL continuations: if fragment j >= 1 (0-based; i.e. any but the first) of
   sample sn is lost in the first transmission, then whatever the environment does afterwards —
   deliver any other datagram in any order, heartbeats, the reader's ACKNACKs and NACK_FRAGs fed to
   the writer and the writer's answers delivered to the reader, further writes — the reader never
   obtains sample sn.  (Refutes the `lost (reliable)` clause of C05.) *)
Theorem lost_fragment_never_repaired : forall rel nreaders f ps ops sn j p s obs,
  frag_size_ok f -> Forall (fun q => blen q < two32) ps ->
  nth_written ps sn = Some p -> 1 <= j < div_ceil (blen p) f ->
  Forall op_ok ops -> Forall (lost_op sn j) ops ->
  run (s_init rel nreaders f) (map OWrite ps ++ ops) = Ok (s, obs) ->
  ~ In sn (map fst (r_changes (s_r s))).
Proof.
  intros rel nreaders f ps ops sn j p s obs Hf Hps Hnth Hj Hok Hlo H.
  rewrite run_app in H.
  destruct (run (s_init rel nreaders f) (map OWrite ps)) as [[s1 o1]|e|e] eqn:E1; try discriminate.
  cbn [bind fst snd] in H.
  destruct (run s1 ops) as [[s2 o2]|e|e] eqn:E2; try discriminate. cbn [bind fst snd] in H.
  inversion H; subst.
  assert (Hokw : Forall op_ok (map OWrite ps)).
  { apply Forall_forall. intros o Ho. apply in_map_iff in Ho as (q & <- & Hq). cbn [op_ok].
    rewrite Forall_forall in Hps. apply Hps. exact Hq. }
  destruct (run_inv _ _ s1 o1 (sinv_init rel nreaders f Hf) Hokw E1) as [Hs1 Hc1].
  destruct (run_ninv _ _ s1 o1 (ninv_init rel nreaders f) E1) as [Hn1 _].
  destruct (run_writes_reader ps _ s1 o1 E1) as (Hr1 & _ & _).
  pose proof (run_wf _ _ _ _ E1) as Hwf. cbn in Hwf.
  cbn in Hc1. rewrite written_writes in Hc1.
  assert (Hl1 : linv sn j p s1).
  { constructor; try assumption.
    - rewrite Hc1, lookup_number_from. unfold nth_written in Hnth. exact Hnth.
    - rewrite Hwf. exact Hj.
    - rewrite Hr1. split; cbn; [intros x []|intros []]. }
  destruct (run_linv sn j p ops s1 s o2 Hl1 Hok Hlo E2) as [_ _ _ _ [_ Hno]]. exact Hno.
Qed.

(* ------------------------------------------------------------ NACK_FRAG numbering *)

(* what the writer answers to a NACK_FRAG that passes the duplicate filter: the fragments whose
   0-based INDEX is the requested (1-based) number, i.e. wire numbers n + 1; base is answered twice
   when it is also a member of the set *)
Theorem nackfrag_resends_successor : forall w count sn base set p,
  frag_size_ok (w_f w) -> payload_ok p -> w_rel w = true -> w_last_nf w < count ->
  lookup sn (w_changes w) = Some p ->
  0 <= base -> Forall (fun k => 0 <= k) set ->
  exists w' ws, w_on_nack_frag w count sn base set = Ok (w', ws) /\
    ws = map (fun k => WFrag (mk_data_frag 1 sn p (w_f w) k))
             (filter (fun k => k <? div_ceil (blen p) (w_f w)) (base :: set)) /\
    forall fr, In (WFrag fr) ws ->
      exists k, In k (base :: set) /\ k < div_ceil (blen p) (w_f w) /\ fr_start fr = k + 1.
Proof.
  intros w count sn base set p Hf Hp Hrel Hc Hl Hb Hs.
  unfold w_on_nack_frag. rewrite Hrel. replace (w_last_nf w <? count) with true by (symmetry; apply Z.ltb_lt; exact Hc).
  cbn [andb]. rewrite Hl. destruct (Z.eqb_spec (w_f w) 0) as [E|E]; [destruct Hf; lia|].
  eexists. eexists. split; [reflexivity|]. split; [reflexivity|].
  intros fr Hin. remember (base :: set) as L eqn:EL.
  apply in_map_iff in Hin as (k & Hk & Hin). apply filter_In in Hin as [Hin Hlt]. apply Z.ltb_lt in Hlt.
  exists k. split; [exact Hin|]. split; [exact Hlt|].
  assert (0 <= k).
  { subst L. destruct Hin as [<-|Hin]; [exact Hb|]. rewrite Forall_forall in Hs. apply Hs. exact Hin. }
  inversion Hk; subst fr.
  pose proof (gfrag_fields (w_f w) 1 sn p Hf Hp k ltac:(lia)) as (_ & _ & A & _). exact A.
Qed.

(* corollary: a request for exactly fragment n (1 <= n <= total) is never answered with fragment n *)
Theorem nackfrag_never_resends_requested : forall w count sn n p,
  frag_size_ok (w_f w) -> payload_ok p -> w_rel w = true -> w_last_nf w < count ->
  lookup sn (w_changes w) = Some p -> 1 <= n <= div_ceil (blen p) (w_f w) ->
  exists w' ws, w_on_nack_frag w count sn n [n] = Ok (w', ws) /\
    (forall fr, In (WFrag fr) ws -> fr_start fr = n + 1) /\
    (n = div_ceil (blen p) (w_f w) -> ws = []).
Proof.
  intros w count sn n p Hf Hp Hrel Hc Hl Hn.
  destruct (nackfrag_resends_successor w count sn n [n] p Hf Hp Hrel Hc Hl ltac:(lia)
              ltac:(constructor; [lia|constructor])) as (w' & ws & E & Hws & Hall).
  exists w', ws. split; [exact E|]. split.
  - intros fr Hin. destruct (Hall fr Hin) as (k & Hk & _ & Hst).
    assert (k = n) by (destruct Hk as [<-|[<-|[]]]; reflexivity). lia.
  - intros ->. rewrite Hws. cbn [filter]. rewrite Z.ltb_irrefl. reflexivity.
Qed.

(* ------------------------------------------------------------ complete set => delivered (RELIABLE reader) *)

Lemma r_on_data_changes : forall r s q, incl (r_changes r) (r_changes (r_on_data r s q)).
Proof.
  intros r s q c Hc. unfold r_on_data.
  destruct (r_rel r); [destruct (s =? _)|destruct (_ <=? s)];
    cbn [r_set received_change_set r_changes]; try exact Hc; apply in_app_iff; left; exact Hc.
Qed.

Lemma r_deliver_mono : forall r w r', r_deliver r w = Ok r' ->
  r_rel r' = r_rel r /\ incl (r_changes r) (r_changes r').
Proof.
  intros r w r' E. destruct w as [rid s q|fr|s]; cbn [r_deliver] in E.
  - inversion E; subst. split; [apply (proj2 (r_on_data_nfcount r s q))|apply r_on_data_changes].
  - pose proof (r_on_frag_nfcount r fr r' E) as [_ B]. split; [exact B|].
    unfold r_on_frag in E. destruct (reconstruct _ _) as [[[d|] b]|e|e]; cbn [bind fst snd] in E; try discriminate;
      inversion E; subst.
    + intros c Hc. apply r_on_data_changes. cbn [r_set r_changes]. exact Hc.
    + cbn [r_set r_changes]. apply incl_refl.
  - inversion E; subst. split; [reflexivity|apply incl_refl].
Qed.

Lemma r_on_data_rel_expected : forall r sn p, r_rel r = true -> sn = available_changes_max r + 1 ->
  r_changes (r_on_data r sn p) = r_changes r ++ [(sn, p)].
Proof.
  intros r sn p Hrel Hs. unfold r_on_data. rewrite Hrel. rewrite <- Hs, Z.eqb_refl. reflexivity.
Qed.

Lemma r_on_data_rel_other : forall r sn p, r_rel r = true -> sn <> available_changes_max r + 1 ->
  r_on_data r sn p = r.
Proof.
  intros r sn p Hrel Hs. unfold r_on_data. rewrite Hrel.
  destruct (Z.eqb_spec sn (available_changes_max r + 1)); [contradiction|reflexivity].
Qed.

Section Complete.
  Variables (f : Z) (ch : list (Z * bytes)) (sn : Z) (p : bytes).
  Hypothesis Hf : frag_size_ok f.
  Hypothesis Hch : history_ok ch.
  Hypothesis Hlk : lookup sn ch = Some p.

  Definition covered (buf : list frag) (ws : list wire) : Prop :=
    forall i, 0 <= i < div_ceil (blen p) f ->
      In (mk_data_frag 1 sn p f i) buf \/ In (WFrag (mk_data_frag 1 sn p f i)) ws.

  (* either the sample has been delivered, or the reader still expects it, holds an incomplete set,
     and every fragment is either buffered or still to come *)
  Definition waiting (r : rstate) (ws : list wire) : Prop :=
    rinv f ch r /\ r_rel r = true /\
    (In (sn, p) (r_changes r) \/
     (available_changes_max r + 1 = sn /\ ~ complete f 1 (r_buf r) sn p /\ covered (r_buf r) ws)).

  Lemma deliver_step : forall r w ws, waiting r (w :: ws) -> wire_genuine f ch w ->
    exists r', r_deliver r w = Ok r' /\ waiting r' ws.
  Proof.
    intros r w ws (Hr & Hrel & Hst) Hg.
    destruct (r_deliver_inv f ch r w Hf Hch Hr Hg) as (r' & E & Hr'). exists r'. split; [exact E|].
    destruct (r_deliver_mono r w r' E) as [Hrel' Hmono].
    split; [exact Hr'|]. split; [congruence|].
    destruct Hst as [Hdel|(Hexp & Hinc & Hcov)]; [left; apply Hmono; exact Hdel|].
    destruct w as [rid s q|fr|s]; cbn [r_deliver wire_genuine] in *.
    - (* DATA *)
      inversion E; subst r'. unfold r_on_data. rewrite Hrel.
      destruct (Z.eqb_spec s (available_changes_max r + 1)) as [Es|Es].
      + left. assert (Hs : s = sn) by lia. assert (q = p) by (rewrite Hs in Hg; congruence).
        cbn [r_set received_change_set r_changes]. apply in_app_iff. right. left. f_equal; assumption.
      + right. split; [exact Hexp|]. split; [exact Hinc|].
        intros i Hi. destruct (Hcov i Hi) as [H|[H|H]]; [left; exact H|discriminate|right; exact H].
    - (* DATA_FRAG *)
      pose proof Hg as (q & i0 & Hl & Hi0 & Hfr).
      pose proof (r_on_frag_cases f ch r fr q Hf Hch Hr Hg Hl) as (Hsub & Hnd & Hgen & Hcase).
      assert (Hb1 : frag_buf1 r fr = if fr_sn fr =? sn then push_frag (r_buf r) fr else r_buf r).
      { unfold frag_buf1. rewrite Hrel, Hexp. reflexivity. }
      set (buf1 := frag_buf1 r fr) in *.
      destruct (Z.eqb_spec (fr_sn fr) sn) as [Es|Es].
      + (* a fragment of the awaited sample: buffered *)
        rewrite Es in *. assert (q = p) by congruence. subst q.
        destruct Hcase as [[Hc Ec]|[Hc Ec]]; rewrite Ec in E; inversion E; subst r'.
        * left. rewrite r_on_data_rel_expected; [|exact Hrel|symmetry; exact Hexp].
          apply in_app_iff. right. left. reflexivity.
        * right. cbn [r_set r_buf r_first r_highest available_changes_max].
          split; [exact Hexp|]. split; [exact Hc|].
          intros i Hi. rewrite Hb1. destruct (Hcov i Hi) as [H|[H|H]].
          -- left. apply push_frag_in. left. exact H.
          -- left. apply push_frag_in. right. inversion H. reflexivity.
          -- right. exact H.
      + (* a fragment of another sample: not buffered; at most some other sample's stale set is dropped *)
        assert (Hkeep : forall x, In x (r_buf r) -> fr_sn x = sn ->
                   In x (filter (fun y => negb (has_sn (fr_sn fr) y)) buf1)).
        { intros x Hx Hs. apply filter_In. split; [rewrite Hb1; exact Hx|].
          unfold has_sn. rewrite Hs. destruct (Z.eqb_spec sn (fr_sn fr)); [congruence|reflexivity]. }
        destruct Hcase as [[Hc Ec]|[Hc Ec]]; rewrite Ec in E; inversion E; subst r'.
        * right. rewrite r_on_data_rel_other; [|exact Hrel|change (fr_sn fr <> available_changes_max r + 1); lia].
          cbn [r_set r_buf r_first r_highest available_changes_max].
          split; [exact Hexp|]. split.
          -- intros Hc'. apply Hinc. intros i Hi. specialize (Hc' i Hi). apply filter_In in Hc' as [Hc' _].
             rewrite Hb1 in Hc'. exact Hc'.
          -- intros i Hi. destruct (Hcov i Hi) as [H|[H|H]].
             ++ left. apply Hkeep; [exact H|apply mk_data_frag_sn].
             ++ exfalso. apply Es. replace fr with (mk_data_frag 1 sn p f i) by congruence. apply mk_data_frag_sn.
             ++ right. exact H.
        * right. cbn [r_set r_buf r_first r_highest available_changes_max]. rewrite Hb1.
          split; [exact Hexp|]. split; [exact Hinc|].
          intros i Hi. destruct (Hcov i Hi) as [H|[H|H]].
          -- left. exact H.
          -- exfalso. apply Es. replace fr with (mk_data_frag 1 sn p f i) by congruence. apply mk_data_frag_sn.
          -- right. exact H.
    - inversion E; subst r'. right. split; [exact Hexp|]. split; [exact Hinc|].
      intros i Hi. destruct (Hcov i Hi) as [H|[H|H]]; [left; exact H|discriminate|right; exact H].
  Qed.

  Lemma deliver_all_waiting : forall ws r, waiting r ws -> Forall (wire_genuine f ch) ws ->
    exists r', r_deliver_all r ws = Ok r' /\ waiting r' [].
  Proof.
    induction ws as [|w ws IH]; intros r Hw Hg; cbn [r_deliver_all].
    - exists r. split; [reflexivity|exact Hw].
    - inversion Hg as [|? ? Hg1 Hg2]; subst.
      destruct (deliver_step r w ws Hw Hg1) as (r1 & E & Hw1). rewrite E. cbn [bind].
      apply IH; assumption.
  Qed.

  (* RELIABLE reader that expects sample sn (and holds an incomplete or empty set of its fragments):
     once every fragment has arrived — in ANY order, with ANY duplication, interleaved with ANY other
     genuine traffic of the writer — the reader holds (sn, p) *)
  Theorem complete_set_is_delivered : forall r ws,
    rinv f ch r -> r_rel r = true -> available_changes_max r + 1 = sn ->
    ~ complete f 1 (r_buf r) sn p ->
    Forall (wire_genuine f ch) ws ->
    (forall i, 0 <= i < div_ceil (blen p) f -> In (WFrag (mk_data_frag 1 sn p f i)) ws) ->
    exists r', r_deliver_all r ws = Ok r' /\ In (sn, p) (r_changes r').
  Proof.
    intros r ws Hr Hrel Hexp Hinc Hg Hall.
    assert (Hw : waiting r ws).
    { split; [exact Hr|]. split; [exact Hrel|]. right. split; [exact Hexp|]. split; [exact Hinc|].
      intros i Hi. right. apply Hall. exact Hi. }
    destruct (deliver_all_waiting ws r Hw Hg) as (r' & E & (_ & _ & Hst)). exists r'. split; [exact E|].
    destruct Hst as [Hdel|(_ & Hinc' & Hcov)]; [exact Hdel|].
    exfalso. apply Hinc'. intros i Hi. destruct (Hcov i Hi) as [H|[]]. exact H.
  Qed.
End Complete.

(* ------------------------------------------------------------ what the writer emits *)

Lemma slice_length : forall (p : bytes) s e, 0 <= s <= e -> e <= blen p -> blen (slice p s e) = e - s.
Proof.
  intros p s e Hs He. unfold slice, blen in *. rewrite firstn_length, skipn_length. lia.
Qed.

Theorem send_change_spec : forall rid f sn p, frag_size_ok f -> payload_ok p ->
  (blen p <= f -> send_change rid f sn p = Ok [WData rid sn p]) /\
  (f < blen p ->
     exists frs, send_change rid f sn p = Ok (map WFrag frs) /\
       Z.of_nat (length frs) = div_ceil (blen p) f /\
       concat (map fr_data frs) = p /\
       forall k fr, nth_error frs k = Some fr ->
         fr_rid fr = rid /\ fr_sn fr = sn /\ fr_start fr = Z.of_nat k + 1 /\ fr_nsub fr = 1 /\
         fr_fsize fr = f /\ fr_dsize fr = blen p /\
         blen (fr_data fr) = Z.min f (blen p - Z.of_nat k * f)).
Proof.
  intros rid f sn p Hf Hp. pose proof (blen_nonneg p) as Hl. destruct Hf as [Hf1 Hf2].
  unfold send_change. destruct (Z.eqb_spec f 0); [lia|].
  pose proof (div_ceil_gt1 (blen p) f Hl Hf1) as Hgt. split.
  - intros Hle. destruct (Z.ltb_spec 1 (div_ceil (blen p) f)); [lia|reflexivity].
  - intros Hlt. destruct (Z.ltb_spec 1 (div_ceil (blen p) f)); [|lia].
    exists (map (fun i => mk_data_frag rid sn p f i) (zseq (div_ceil (blen p) f))).
    split; [rewrite map_map; reflexivity|].
    pose proof (n_bounds f p (conj Hf1 Hf2) Hp) as Hn.
    split; [unfold zseq; rewrite !map_length, seq_length; lia|]. split.
    + rewrite map_map. cbn [mk_data_frag fr_data]. apply concat_frags. exact Hf1.
    + intros k fr Hk. unfold zseq in Hk. rewrite map_map in Hk.
      assert (Hklt : (k < Z.to_nat (div_ceil (blen p) f))%nat).
      { assert (Hx : nth_error (map (fun x => mk_data_frag rid sn p f (Z.of_nat x)) (seq 0 (Z.to_nat (div_ceil (blen p) f)))) k <> None) by congruence.
        apply nth_error_Some in Hx. rewrite map_length, seq_length in Hx. exact Hx. }
      rewrite nth_error_map in Hk. rewrite nth_error_nth' with (d := 0%nat) in Hk by (rewrite seq_length; exact Hklt).
      rewrite seq_nth in Hk by exact Hklt. cbn [option_map Nat.add] in Hk. inversion Hk; subst fr.
      pose proof (gfrag_fields f rid sn p (conj Hf1 Hf2) Hp (Z.of_nat k) ltac:(lia)) as (A & B & C & D & E & F & G).
      unfold gfrag in *. repeat split; try assumption.
      rewrite G.
      assert (Hkf : Z.of_nat k * f < blen p).
      { destruct (div_ceil_bounds (blen p) f Hl Hf1) as [Hb|[Hb1 Hb2]]; [|lia].
        assert (Z.of_nat k * f <= (div_ceil (blen p) f - 1) * f) by (apply Z.mul_le_mono_nonneg_r; lia). lia. }
      rewrite slice_length; lia.
Qed.

(* expected fragment count on the reader side = ceil(len / f), the least n with n * f >= len *)
Theorem expected_count_is_ceil : forall rid f sn p i, frag_size_ok f -> payload_ok p ->
  0 <= i < div_ceil (blen p) f ->
  total_fragments_expected (mk_data_frag rid sn p f i) = Ok (div_ceil (blen p) f) /\
  blen p <= div_ceil (blen p) f * f /\ (div_ceil (blen p) f - 1) * f < blen p.
Proof.
  intros rid f sn p i Hf Hp Hi. split; [apply (gfrag_expected f rid sn p Hf Hp i Hi)|].
  destruct Hf as [Hf1 Hf2]. pose proof (blen_nonneg p).
  destruct (div_ceil_bounds (blen p) f ltac:(lia) Hf1) as [Hb|[Hb1 Hb2]]; lia.
Qed.

(* ------------------------------------------------------------ witnesses (the failing families are inhabited) *)

Definition p21 : bytes := [1;2;3;4;5;6;7;8;9;10;11;12;13;14;15;16;17;18;19;20;21].
Definition p29 : bytes := p21 ++ [22;23;24;25;26;27;28;29].

(* fragment 2 of 3 lost; heartbeat; the reader's NACK_FRAG asks for {2} with count 0; the writer answers nothing *)
Lemma witness_count_zero :
  exists s ack, run (s_init true 1 8) [OWrite p21; ODeliver 1 0 1; ODeliver 1 2 1; OHb 1 1 1 false; ONackFrag] =
    Ok (s, [BSent [WFrag (mk_data_frag 1 1 p21 8 0); WFrag (mk_data_frag 1 1 p21 8 1); WFrag (mk_data_frag 1 1 p21 8 2)];
            BCount 0; BCount 0; BReply (Some (ack, Some (mkNf 1 2 [2] 0))); BResp [] 0]) /\
    r_changes (s_r s) = [].
Proof. eexists. eexists. vm_compute. split; reflexivity. Qed.

(* a NACK_FRAG that passes the filter and asks for fragment 2 is answered with fragment 3, twice *)
Lemma witness_off_by_one :
  exists w', w_on_nack_frag (mkW 8 true 1 [(1, p21)] 0 0) 1 1 2 [2] =
    Ok (w', [WFrag (mk_data_frag 1 1 p21 8 2); WFrag (mk_data_frag 1 1 p21 8 2)]) /\
    fr_start (mk_data_frag 1 1 p21 8 2) = 3.
Proof. eexists. vm_compute. split; reflexivity. Qed.

Lemma witness_fragsize_zero :
  run (s_init true 1 8) [OForeign (mkfrag 1 1 1 1 0 21 [1; 2])] = Panic 28.
Proof. vm_compute. reflexivity. Qed.

(* 300 fragments, only the first received: building the NACK_FRAG indexes the 8-word bitmap at 9 *)
Lemma witness_bitmap_overflow :
  run (s_init true 1 8) [OWrite (repeat 7 2400); ODeliver 1 0 1; OHb 1 1 1 false] = Panic 123.
Proof. vm_compute. reflexivity. Qed.

(* two readers of one participant: fragments 1,2 addressed to R1 and 1,2 addressed to R2 make the
   count 4 = expected 4; the reader delivers the first 16 of 29 bytes as sample 1 *)
Lemma witness_mixed_readerid :
  exists s obs, run (s_init true 2 8) [OWrite p29; ODeliver 1 0 1; ODeliver 1 1 1; ODeliver 1 0 2; ODeliver 1 1 2] =
    Ok (s, obs) /\ r_changes (s_r s) = [(1, firstn 16 p29)] /\ firstn 16 p29 <> p29.
Proof. eexists. eexists. vm_compute. split; [reflexivity|]. split; [reflexivity|discriminate]. Qed.

(* two readers of one participant, 2 fragments: both copies of fragment 2, then both copies of
   fragment 1 — everything arrived, nothing is reassembled (count 4 <> 2), and the heartbeat reply
   panics because no fragment number is missing *)
Lemma witness_none_missing_panic :
  run (s_init true 2 8) [OWrite [1;2;3;4;5;6;7;8;9]; ODeliver 1 1 1; ODeliver 1 1 2; ODeliver 1 0 1; ODeliver 1 0 2;
                         OHb 1 1 1 false] = Panic 4.
Proof. vm_compute. reflexivity. Qed.

(* non-vacuity of the positive theorems: a concrete interleaved, duplicated, reordered schedule *)
Lemma example_reordered :
  exists s obs, run (s_init true 1 8)
    [OWrite p21; OWrite p29; ODeliver 2 1 1; ODeliver 1 2 1; ODeliver 1 0 1; ODeliver 1 2 1; ODeliver 2 0 1;
     ODeliver 1 1 1; ODeliver 2 3 1; ODeliver 2 1 1; ODeliver 2 0 1; ODeliver 2 2 1] = Ok (s, obs) /\
    r_changes (s_r s) = [(1, p21); (2, p29)].
Proof. eexists. eexists. vm_compute. split; reflexivity. Qed.

(* ------------------------------------------------------------ statements in the argument order of Props/C05.v *)

Lemma C05_reassemble_any_order_stmt :
  forall f rid sn (p : bytes) (l : list frag),
    0 < f < 65536 -> blen p < two32 -> 1 <= div_ceil (blen p) f ->
    (forall x, In x l -> fr_sn x = sn -> exists i, 0 <= i < div_ceil (blen p) f /\ x = mk_data_frag rid sn p f i) ->
    (forall i, 0 <= i < div_ceil (blen p) f -> In (mk_data_frag rid sn p f i) l) ->
    reconstruct (fold_left push_frag l []) sn =
      Ok (Some p, filter (fun x => negb (has_sn sn x)) (fold_left push_frag l [])).
Proof. intros f rid sn p l Hf Hp Hn Hl Hall. exact (reassemble_any_order f rid sn p l Hf Hp Hl Hn Hall). Qed.

Lemma C05_incomplete_stmt :
  forall f rid sn (p : bytes) (l : list frag),
    0 < f < 65536 -> blen p < two32 ->
    (forall x, In x l -> fr_sn x = sn -> exists i, 0 <= i < div_ceil (blen p) f /\ x = mk_data_frag rid sn p f i) ->
    ~ (forall i, 0 <= i < div_ceil (blen p) f -> In (mk_data_frag rid sn p f i) l) ->
    reconstruct (fold_left push_frag l []) sn = Ok (None, fold_left push_frag l []).
Proof. intros f rid sn p l Hf Hp Hl Hn. exact (reassemble_incomplete f rid sn p l Hf Hp Hl Hn). Qed.

Lemma C05_never_wrong_stmt :
  forall f rid sn (p : bytes) (l : list frag) d b',
    0 < f < 65536 -> blen p < two32 ->
    (forall x, In x l -> fr_sn x = sn -> exists i, 0 <= i < div_ceil (blen p) f /\ x = mk_data_frag rid sn p f i) ->
    reconstruct (fold_left push_frag l []) sn = Ok (Some d, b') -> d = p.
Proof. intros f rid sn p l d b' Hf Hp Hl H. exact (reassemble_never_wrong f rid sn p l Hf Hp Hl d b' H). Qed.

Lemma C05_complete_set_stmt :
  forall f ch sn p r ws,
    0 < f < 65536 -> history_ok ch -> lookup sn ch = Some p ->
    rinv f ch r -> r_rel r = true -> available_changes_max r + 1 = sn ->
    ~ complete f 1 (r_buf r) sn p ->
    Forall (wire_genuine f ch) ws ->
    (forall i, 0 <= i < div_ceil (blen p) f -> In (WFrag (mk_data_frag 1 sn p f i)) ws) ->
    exists r', r_deliver_all r ws = Ok r' /\ In (sn, p) (r_changes r').
Proof.
  intros f ch sn p r ws Hf Hch Hlk Hr Hrel Hexp Hinc Hg Hall.
  exact (complete_set_is_delivered f ch sn p Hf Hch Hlk r ws Hr Hrel Hexp Hinc Hg Hall).
Qed.

Lemma example_reassemble :
  reconstruct (fold_left push_frag
     [mk_data_frag 1 1 p21 8 2; mk_data_frag 1 2 p29 8 0; mk_data_frag 1 1 p21 8 0; mk_data_frag 1 1 p21 8 2;
      mk_data_frag 1 1 p21 8 1] []) 1 = Ok (Some p21, [mk_data_frag 1 2 p29 8 0]).
Proof. vm_compute. reflexivity. Qed.

(* ------------------------------------------------------------ no panic on the writer's own traffic *)

(* at rest no sample's fragment set is complete in the buffer (a complete set is consumed at once) *)
Definition quiet (f : Z) (ch : list (Z * bytes)) (buf : list frag) : Prop :=
  forall sn p, lookup sn ch = Some p -> 1 <= div_ceil (blen p) f -> ~ complete f 1 buf sn p.

Definition small_history (f : Z) (ch : list (Z * bytes)) : Prop :=
  forall sn p, lookup sn ch = Some p -> div_ceil (blen p) f <= 256.

Lemma complete_incl : forall f rid b1 b2 sn p, (forall x, In x b1 -> In x b2) ->
  complete f rid b1 sn p -> complete f rid b2 sn p.
Proof. intros f rid b1 b2 sn p H Hc i Hi. apply H. apply Hc. exact Hi. Qed.

Lemma quiet_incl : forall f ch b1 b2, (forall x, In x b1 -> In x b2) -> quiet f ch b2 -> quiet f ch b1.
Proof.
  intros f ch b1 b2 H Hq sn p Hl Hn Hc. apply (Hq sn p Hl Hn). apply (complete_incl f 1 b1 b2 sn p H Hc).
Qed.

Lemma quiet_mono : forall f ch e buf, frag_size_ok f -> history_ok (ch ++ e) ->
  (forall x, In x buf -> genuine f 1 ch x) -> quiet f ch buf -> quiet f (ch ++ e) buf.
Proof.
  intros f ch e buf Hf Hh Hg Hq sn p Hl Hn Hc. rewrite lookup_app in Hl.
  destruct (lookup sn ch) as [q|] eqn:E.
  - inversion Hl; subst q. apply (Hq sn p E Hn Hc).
  - (* a sample the buffer cannot know yet *)
    specialize (Hc 0 ltac:(lia)). destruct (Hg _ Hc) as (q & i & Hlq & _).
    rewrite mk_data_frag_sn in Hlq. congruence.
Qed.

Lemma r_on_data_buf_incl : forall r sn p x, In x (r_buf (r_on_data r sn p)) -> In x (r_buf r).
Proof.
  intros r sn p x. unfold r_on_data.
  destruct (r_rel r); [destruct (sn =? _)|destruct (_ <=? sn)];
    cbn [r_set received_change_set r_buf]; try tauto; intros H; apply filter_In in H; tauto.
Qed.

Lemma r_on_frag_quiet : forall f ch r fr r', frag_size_ok f -> history_ok ch ->
  rinv f ch r -> genuine f 1 ch fr -> quiet f ch (r_buf r) -> r_on_frag r fr = Ok r' ->
  quiet f ch (r_buf r').
Proof.
  intros f ch r fr r' Hf Hch Hr Hg Hq H.
  pose proof Hg as (q & i0 & Hl & Hi0 & Hfr).
  pose proof (r_on_frag_cases f ch r fr q Hf Hch Hr Hg Hl) as (Hsub & Hnd & Hgen & Hcase).
  set (buf1 := frag_buf1 r fr) in *.
  destruct Hcase as [[Hc E]|[Hc E]]; rewrite E in H; inversion H; subst r'.
  - (* the set of fr_sn fr is consumed; everything else is a subset of what was quiet *)
    apply (quiet_incl f ch _ (filter (fun x => negb (has_sn (fr_sn fr) x)) buf1)).
    { intros x Hx. apply r_on_data_buf_incl in Hx. cbn [r_set r_buf] in Hx. exact Hx. }
    intros sn p Hlp Hn Hcp.
    destruct (Z.eq_dec sn (fr_sn fr)) as [Es|Es].
    + subst sn. specialize (Hcp 0 ltac:(lia)). apply filter_In in Hcp as [_ Hcp].
      unfold has_sn in Hcp. rewrite mk_data_frag_sn, Z.eqb_refl in Hcp. discriminate.
    + apply (Hq sn p Hlp Hn). intros i Hi. specialize (Hcp i Hi). apply filter_In in Hcp as [Hcp _].
      destruct (Hsub _ Hcp) as [Hin|Heq]; [exact Hin|].
      exfalso. apply Es. rewrite <- Heq. symmetry. apply mk_data_frag_sn.
  - cbn [r_set r_buf]. intros sn p Hlp Hn Hcp.
    destruct (Z.eq_dec sn (fr_sn fr)) as [Es|Es].
    + subst sn. assert (p = q) by congruence. subst p. exact (Hc Hcp).
    + apply (Hq sn p Hlp Hn). intros i Hi. specialize (Hcp i Hi).
      destruct (Hsub _ Hcp) as [Hin|Heq]; [exact Hin|].
      exfalso. apply Es. rewrite <- Heq. symmetry. apply mk_data_frag_sn.
Qed.

Lemma r_deliver_all_quiet : forall f ch ws r r', frag_size_ok f -> history_ok ch ->
  rinv f ch r -> Forall (wire_genuine f ch) ws -> quiet f ch (r_buf r) -> r_deliver_all r ws = Ok r' ->
  quiet f ch (r_buf r').
Proof.
  intros f ch ws. induction ws as [|w ws IH]; intros r r' Hf Hch Hr Hg Hq H; cbn [r_deliver_all] in H.
  - inversion H; subst. exact Hq.
  - inversion Hg as [|? ? Hg1 Hg2]; subst.
    destruct (r_deliver_inv f ch r w Hf Hch Hr Hg1) as (r1 & E & Hr1). rewrite E in H. cbn [bind] in H.
    apply (IH r1 r' Hf Hch Hr1 Hg2); [|exact H].
    destruct w as [rid s q|fr|s]; cbn [r_deliver wire_genuine] in *.
    + inversion E; subst. apply (quiet_incl f ch _ (r_buf r)); [apply r_on_data_buf_incl|exact Hq].
    + apply (r_on_frag_quiet f ch r fr r1); assumption.
    + inversion E; subst. exact Hq.
Qed.

Lemma gen_nackfrag_total : forall f ch r, frag_size_ok f -> history_ok ch -> small_history f ch ->
  rinv f ch r -> quiet f ch (r_buf r) -> exists x, gen_nackfrag r = Ok x.
Proof.
  intros f ch r Hf Hch Hsm Hr Hq. unfold gen_nackfrag.
  destruct (find _ (missing256 r)) as [s|] eqn:Es; [|eexists; reflexivity].
  apply find_some in Es as [_ Hex]. apply existsb_exists in Hex as (x & Hx & Hsx).
  destruct (find (has_sn s) (r_buf r)) as [fr|] eqn:Efr.
  2:{ pose proof (find_none _ _ Efr x Hx). congruence. }
  apply find_some in Efr as [Hfr Hsfr]. unfold has_sn in Hsfr. apply Z.eqb_eq in Hsfr.
  destruct Hr as [R1 R2 R3 R4].
  destruct (R2 fr Hfr) as (p & i & Hl & Hi & Hfe). rewrite Hsfr in *.
  pose proof (gfrag_fields f 1 s p Hf (Hch _ _ Hl) i Hi) as (_ & _ & _ & _ & Hfs & Hds & _).
  unfold gfrag in *. rewrite <- Hfe in Hfs, Hds. rewrite Hfs, Hds.
  destruct (Z.eqb_spec f 0) as [E0|E0]; [destruct Hf; lia|].
  set (n := div_ceil (blen p) f).
  pose proof (n_bounds f p Hf (Hch _ _ Hl)) as Hn. fold n in Hn.
  set (miss := filter _ _).
  assert (Hmiss_in : forall k, In k miss -> 1 <= k <= n).
  { intros k Hk. unfold miss in Hk. apply filter_In in Hk as [Hk _]. apply zrange_in in Hk. lia. }
  destruct miss as [|b t] eqn:Em.
  - (* nothing missing would mean a complete set at rest *)
    exfalso. apply (Hq s p Hl ltac:(fold n; lia)). intros j Hj.
    assert (Hnot : ~ In (j + 1) miss) by (rewrite Em; intros []).
    unfold miss in Hnot. rewrite filter_In in Hnot.
    destruct (existsb (is_frag s (j + 1)) (r_buf r)) eqn:Eex.
    + apply existsb_exists in Eex as (y & Hy & Hyp).
      destruct (buf_elem_start f 1 ch Hf Hch (r_buf r) R2 s p Hl y (j + 1) Hy Hyp) as [_ Hyeq].
      replace (j + 1 - 1) with j in Hyeq by lia. change (In (gfrag f 1 s p j) (r_buf r)). rewrite <- Hyeq. exact Hy.
    + exfalso. apply Hnot. split; [apply zrange_in; fold n in Hj; lia|reflexivity].
  - assert (Hb : 1 <= b <= n) by (apply Hmiss_in; left; reflexivity).
    replace (existsb (fun n0 => 256 <=? n0 - b) (b :: t)) with false; [eexists; reflexivity|].
    symmetry. apply not_true_is_false. intros Hex2. apply existsb_exists in Hex2 as (k & Hk & Hkb).
    apply Z.leb_le in Hkb. pose proof (Hmiss_in k Hk). pose proof (Hsm s p Hl). fold n in H0. lia.
Qed.

Record pinv (s : sys) : Prop := mkpinv {
  pi_s : sinv s;
  pi_quiet : quiet (w_f (s_w s)) (w_changes (s_w s)) (r_buf (s_r s));
  pi_small : small_history (w_f (s_w s)) (w_changes (s_w s))
}.

Lemma ack_resp_total : forall w set, w_f w <> 0 -> exists ws, ack_resp w set = Ok ws.
Proof.
  intros w set Hf. induction set as [|sn t [ws IH]]; cbn [ack_resp]; [eexists; reflexivity|].
  rewrite IH. destruct (lookup sn (w_changes w)) as [p|]; [destruct (0 <? sn)|]; cbn [bind];
    try (eexists; reflexivity).
  destruct (Z.eqb_spec (w_f w) 0); [contradiction|]. cbn [bind]. eexists; reflexivity.
Qed.

Lemma w_on_nack_frag_total : forall w count sn base set, w_f w <> 0 ->
  exists w' ws, w_on_nack_frag w count sn base set = Ok (w', ws).
Proof.
  intros w count sn base set Hf. unfold w_on_nack_frag.
  destruct (w_rel w && _); [|eexists; eexists; reflexivity].
  destruct (lookup sn (w_changes w)); [|eexists; eexists; reflexivity].
  destruct (Z.eqb_spec (w_f w) 0); [contradiction|]. eexists; eexists; reflexivity.
Qed.

Lemma w_on_acknack_total : forall w count base set, w_f w <> 0 ->
  exists w' ws, w_on_acknack w count base set = Ok (w', ws).
Proof.
  intros w count base set Hf. unfold w_on_acknack.
  destruct (w_rel w && _); [|eexists; eexists; reflexivity].
  destruct (ack_resp_total w set Hf) as [ws E]. rewrite E. cbn [bind]. eexists; eexists; reflexivity.
Qed.

Lemma respond_total : forall s x, pinv s ->
  (exists w' ws, x = Ok (w', ws) /\ w_f w' = w_f (s_w s) /\ w_changes w' = w_changes (s_w s) /\
                 Forall (wire_genuine (w_f (s_w s)) (w_changes (s_w s))) ws) ->
  exists s' o, respond s x = Ok (s', o) /\ pinv s'.
Proof.
  intros s x [[Hf Hh Hr Hp] Hq Hsm] (w' & ws & -> & E1 & E2 & Hg).
  unfold respond. cbn [bind fst snd].
  destruct (r_deliver_all_inv _ _ ws (s_r s) Hf Hh Hr Hg) as (r1 & E & Hr1). rewrite E. cbn [bind].
  eexists. eexists. split; [reflexivity|].
  constructor; cbn [s_w s_r s_reply]; rewrite ?E1, ?E2; try assumption.
  - constructor; cbn [s_w s_r s_reply]; rewrite ?E1, ?E2; assumption.
  - apply (r_deliver_all_quiet _ _ ws (s_r s) r1 Hf Hh Hr Hg Hq E).
Qed.

Lemma step_total : forall s o, pinv s -> op_ok o -> small_op (w_f (s_w s)) o ->
  exists s' b, step s o = Ok (s', b) /\ pinv s' /\ w_f (s_w s') = w_f (s_w s).
Proof.
  intros s o Hpi Hop Hso. pose proof Hpi as [Hs Hq Hsm]. pose proof Hs as [Hf Hh Hr Hp].
  assert (Hf0 : w_f (s_w s) <> 0) by (destruct Hf; lia).
  assert (Hres : forall x, (exists s' b, x = Ok (s', b) /\ pinv s') -> step s o = x ->
                 exists s' b, step s o = Ok (s', b) /\ pinv s' /\ w_f (s_w s') = w_f (s_w s)).
  { intros x (s' & b & -> & Hp') E. exists s', b. split; [exact E|]. split; [exact Hp'|]. apply (step_wf s o s' b E). }
  destruct o as [p|sn idx which| fr |first last count final| |count sn base set| ]; cbn [op_ok small_op] in *.
  - (* write *)
    apply (Hres (step s (OWrite p))); [|reflexivity]. cbn [step]. unfold w_write, send_change.
    destruct (Z.eqb_spec (w_f (s_w s)) 0); [contradiction|].
    destruct (1 <? div_ceil (blen p) (w_f (s_w s))); cbn [bind]; destruct (2 <=? w_nreaders (s_w s)); cbn [bind fst snd].
    all: eexists; eexists; split; [reflexivity|].
    all: assert (Hh' : history_ok (w_changes (s_w s) ++ [(next_sn (s_w s), p)])) by (apply history_ok_app; assumption).
    all: constructor; cbn [s_w s_r s_reply set_changes w_f w_changes].
    all: try (constructor; cbn [s_w s_r s_reply set_changes w_f w_changes]; try assumption; apply rinv_mono; exact Hr).
    all: try (apply quiet_mono; [exact Hf|exact Hh'|apply Hr|exact Hq]).
    all: intros sn q Hl; rewrite lookup_app in Hl; destruct (lookup sn (w_changes (s_w s))) eqn:El;
      [inversion Hl; subst; apply (Hsm sn q El)|
       cbn [lookup] in Hl; destruct (next_sn (s_w s) =? sn); [inversion Hl; subst; exact Hso|discriminate]].
  - (* deliver *)
    subst which. apply (Hres (step s (ODeliver sn idx 1))); [|reflexivity]. cbn [step].
    destruct (datagram_of (s_w s) sn idx 1) as [w|] eqn:E.
    + apply datagram_of_spec in E.
      destruct (r_deliver_inv _ _ (s_r s) w Hf Hh Hr E) as (r1 & E1 & Hr1). rewrite E1. cbn [bind].
      eexists. eexists. split; [reflexivity|]. constructor; cbn [s_w s_r s_reply]; try assumption.
      * constructor; assumption.
      * apply (r_deliver_all_quiet _ _ [w] (s_r s) r1 Hf Hh Hr ltac:(constructor; [exact E|constructor]) Hq).
        cbn [r_deliver_all]. rewrite E1. reflexivity.
    + eexists. eexists. split; [reflexivity|exact Hpi].
  - destruct Hop.
  - (* heartbeat *)
    apply (Hres (step s (OHb first last count final))); [|reflexivity]. cbn [step].
    assert (Hhb : exists r' x, r_on_heartbeat (s_r s) first last count final = Ok (r', x)).
    { unfold r_on_heartbeat. destruct (r_hbcount (s_r s) <? count); [|eexists; eexists; reflexivity].
      unfold r_write_message. cbn [r_must]. destruct (negb final || _); [|eexists; eexists; reflexivity].
      match goal with |- context [gen_nackfrag ?R] =>
        destruct (gen_nackfrag_total (w_f (s_w s)) (w_changes (s_w s)) R Hf Hh Hsm) as [x E] end.
      - destruct Hr as [R1 R2 R3 R4]. constructor; cbn [r_buf r_changes r_highest]; assumption.
      - cbn [r_buf]. exact Hq.
      - rewrite E. cbn [bind]. eexists; eexists; reflexivity. }
    destruct Hhb as (r' & x & E). rewrite E. cbn [bind fst snd].
    destruct (r_on_heartbeat_spec _ _ _ _ _ _ _ E) as (E1 & E2 & E3 & _ & _ & Hnf).
    eexists. eexists. split; [reflexivity|]. constructor; cbn [s_w s_r s_reply]; try assumption.
    + constructor; cbn [s_w s_r s_reply]; try assumption.
      * destruct Hr as [R1 R2 R3 R4]. constructor; rewrite ?E1, ?E2, ?E3; assumption.
      * destruct x as [[a [nf|]]|]; cbn [reply_ok]; try exact I; [|exact Hp].
        destruct (Hnf a nf eq_refl) as (? & ? & _). auto.
    + rewrite E1. exact Hq.
  - (* reader's NACK_FRAG *)
    apply (Hres (step s ONackFrag)); [|reflexivity]. cbn [step].
    destruct (s_reply s) as [[a [nf|]]|] eqn:Er.
    + apply respond_total; [exact Hpi|].
      destruct (w_on_nack_frag_total (s_w s) (n_count nf) (n_sn nf) (n_base nf) (n_set nf) Hf0) as (w' & ws & E).
      exists w', ws. split; [exact E|]. destruct (w_on_nack_frag_spec _ _ _ _ _ _ _ E) as (E1 & E2 & Hg).
      cbn [reply_ok] in Hp. repeat split; try assumption. apply Hg; tauto.
    + apply respond_total; [exact Hpi|]. eexists; eexists. repeat split; constructor.
    + apply respond_total; [exact Hpi|]. eexists; eexists. repeat split; constructor.
  - (* forged *)
    apply (Hres (step s (OForged count sn base set))); [|reflexivity]. cbn [step].
    apply respond_total; [exact Hpi|].
    destruct (w_on_nack_frag_total (s_w s) count sn base set Hf0) as (w' & ws & E).
    exists w', ws. split; [exact E|]. destruct (w_on_nack_frag_spec _ _ _ _ _ _ _ E) as (E1 & E2 & Hg).
    repeat split; try assumption. apply Hg; tauto.
  - (* ACKNACK *)
    apply (Hres (step s OAckNack)); [|reflexivity]. cbn [step].
    destruct (s_reply s) as [[a nfo]|] eqn:Er.
    + apply respond_total; [exact Hpi|].
      destruct (w_on_acknack_total (s_w s) (a_count a) (a_base a) (a_set a) Hf0) as (w' & ws & E).
      exists w', ws. split; [exact E|]. apply w_on_acknack_spec in E; [|exact Hf]. exact E.
    + apply respond_total; [exact Hpi|]. eexists; eexists. repeat split; constructor.
Qed.

Lemma pinv_init : forall rel nreaders f, frag_size_ok f -> pinv (s_init rel nreaders f).
Proof.
  intros rel nreaders f Hf. constructor.
  - apply sinv_init. exact Hf.
  - intros sn p H. discriminate.
  - intros sn p H. discriminate.
Qed.

(* outside the known classes C05-fragsize-zero-div (no hand-made fragments) and
   C05-nackfrag-bitmap-overflow (samples of at most 256 fragments) nothing panics, whatever the
   history *)
Theorem run_never_panics : forall rel nreaders f ops,
  frag_size_ok f -> Forall op_ok ops -> Forall (small_op f) ops ->
  exists s obs, run (s_init rel nreaders f) ops = Ok (s, obs).
Proof.
  intros rel nreaders f ops Hf Hok Hsm.
  assert (G : forall ops s, pinv s -> w_f (s_w s) = f -> Forall op_ok ops -> Forall (small_op f) ops ->
              exists s' obs, run s ops = Ok (s', obs)).
  { clear. induction ops as [|o ops IH]; intros s Hp Hwf Hok Hsm; cbn [run]; [eexists; eexists; reflexivity|].
    inversion Hok as [|? ? Ho1 Ho2]; subst. inversion Hsm as [|? ? Hs1 Hs2]; subst.
    destruct (step_total s o Hp Ho1 Hs1) as (s1 & b & E & Hp1 & Hw1). rewrite E. cbn [bind fst snd].
    destruct (IH s1 Hp1 Hw1 Ho2 Hs2) as (s2 & obs & E2). rewrite E2. cbn [bind fst snd].
    eexists; eexists; reflexivity. }
  apply G; [apply pinv_init; exact Hf|reflexivity|exact Hok|exact Hsm].
Qed.

(* ------------------------------------------------------------ the oracle decides the statement *)

Lemma sorted_lt_trans : forall l a b, a < b -> StronglySorted Z.lt (b :: l) -> StronglySorted Z.lt (a :: l).
Proof.
  intros l a b Hab H. inversion H as [|? ? Hs Hall]; subst. constructor; [exact Hs|].
  eapply Forall_impl; [|exact Hall]. intros x Hx. cbn beta in Hx. lia.
Qed.

Theorem identicalb_sound : forall ws ch prev,
  identicalb ws prev ch = true <->
  (StronglySorted Z.lt (prev :: map fst ch) /\
   forall sn d, In (sn, d) ch -> nth_written ws sn = Some d).
Proof.
  intros ws ch. induction ch as [|[sn d] t IH]; intros prev; cbn [identicalb map fst].
  - split; [intros _|reflexivity]. split; [repeat constructor|intros ? ? []].
  - rewrite !andb_true_iff, IH, Z.ltb_lt. split.
    + intros [[Hlt Hm] [Hs Hall]]. split.
      * constructor; [exact Hs|]. constructor; [exact Hlt|].
        inversion Hs as [|? ? _ Hf]; subst. eapply Forall_impl; [|exact Hf]. intros x Hx. cbn beta in Hx. lia.
      * intros sn' d' [Heq|Hin]; [|apply Hall; exact Hin]. inversion Heq; subst.
        destruct (nth_written ws sn') as [p|]; [|discriminate]. apply bytes_eqb_eq in Hm. congruence.
    + intros [Hs Hall]. inversion Hs as [|? ? Hs' Hf]; subst. inversion Hf as [|? ? Hlt Hf']; subst.
      split; [split; [exact Hlt|]|split; [exact Hs'|]].
      * rewrite (Hall sn d (or_introl eq_refl)). apply bytes_eqb_eq. reflexivity.
      * intros sn' d' Hin. apply Hall. right. exact Hin.
Qed.
