(* C05 — proofs about the fragmentation / reassembly / NACK_FRAG model. *)
From DustDDS Require Import Base.Machine Proto.FragModel.
From Coq Require Import Lia ZArith List Bool Permutation Sorted.
Import ListNotations.
Open Scope Z_scope.

Ltac Zify.zify_post_hook ::= Z.div_mod_to_equations.

(* ------------------------------------------------------------ div_ceil *)

Lemma div_ceil_bounds : forall a b, 0 <= a -> 0 < b ->
  (div_ceil a b - 1) * b < a <= div_ceil a b * b \/ (a = 0 /\ div_ceil a b = 0).
Proof.
  intros a b Ha Hb. unfold div_ceil.
  destruct (Z.eqb_spec (a mod b) 0) as [E|E].
  - destruct (Z.eq_dec a 0) as [->|Hn].
    + right. split; [reflexivity|]. rewrite Z.div_0_l by lia. reflexivity.
    + left. nia.
  - left. nia.
Qed.

(* expected fragment count = ceil(len / f): the least n with n * f >= len *)
Lemma div_ceil_spec : forall a b n, 0 <= a -> 0 < b ->
  (div_ceil a b = n <-> (0 <= n /\ a <= n * b /\ (n - 1) * b < a \/ (a = 0 /\ n = 0))).
Proof.
  intros a b n Ha Hb. pose proof (div_ceil_bounds a b Ha Hb) as H.
  split.
  - intros <-. destruct H as [H|[H1 H2]].
    + left. split; [|lia]. unfold div_ceil. destruct (a mod b =? 0); nia.
    + right. lia.
  - intros [[H0 [H1 H2]]|[H1 H2]].
    + destruct H as [H|[H3 H4]]; [nia|]. subst a. nia.
    + subst. rewrite Z.max_id || idtac. unfold div_ceil. rewrite Z.div_0_l, Z.mod_0_l by lia. reflexivity.
Qed.

Lemma div_ceil_nonneg : forall a b, 0 <= a -> 0 < b -> 0 <= div_ceil a b.
Proof. intros. unfold div_ceil. destruct (a mod b =? 0); nia. Qed.

Lemma div_ceil_gt1 : forall a b, 0 <= a -> 0 < b -> (1 < div_ceil a b <-> b < a).
Proof.
  intros a b Ha Hb. pose proof (div_ceil_bounds a b Ha Hb). nia.
Qed.

(* ------------------------------------------------------------ slices *)

Lemma firstn_app_skipn : forall (A : Type) (a b : nat) (l : list A),
  firstn (a + b) l = firstn a l ++ firstn b (skipn a l).
Proof.
  intros A a. induction a as [|a IH]; intros b l; [reflexivity|].
  destruct l as [|x l]; cbn [Nat.add firstn skipn app].
  - rewrite firstn_nil. reflexivity.
  - rewrite IH. reflexivity.
Qed.

Lemma skipn_skipn' : forall (A : Type) (a b : nat) (l : list A),
  skipn a (skipn b l) = skipn (b + a) l.
Proof.
  intros A a b. induction b as [|b IH]; intros l; [reflexivity|].
  destruct l as [|x l]; cbn [Nat.add skipn]; [apply skipn_nil|apply IH].
Qed.

Lemma chunks_concat : forall (A : Type) (m : nat) (p : list A) (n k : nat),
  concat (map (fun i => firstn m (skipn (i * m) p)) (seq k n)) = firstn (n * m) (skipn (k * m) p).
Proof.
  intros A m p n. induction n as [|n IH]; intros k; [reflexivity|].
  cbn [seq map concat]. rewrite IH.
  replace (S n * m)%nat with (m + n * m)%nat by lia.
  rewrite firstn_app_skipn. f_equal. rewrite skipn_skipn'. f_equal. f_equal. lia.
Qed.

Lemma slice_chunk : forall (p : bytes) f i, 0 < f -> 0 <= i ->
  slice p (i * f) (Z.min ((i + 1) * f) (blen p)) =
  firstn (Z.to_nat f) (skipn (Z.to_nat i * Z.to_nat f) p).
Proof.
  intros p f i Hf Hi. unfold slice, blen.
  replace (Z.to_nat (i * f)) with (Z.to_nat i * Z.to_nat f)%nat by nia.
  set (q := skipn (Z.to_nat i * Z.to_nat f) p).
  assert (Hq : length q = (length p - Z.to_nat i * Z.to_nat f)%nat) by (unfold q; apply skipn_length).
  destruct (Z_le_gt_dec ((i + 1) * f) (Z.of_nat (length p))) as [Hle|Hgt].
  - rewrite Z.min_l by lia. f_equal. nia.
  - rewrite Z.min_r by lia.
    rewrite (firstn_all2 (n := Z.to_nat f)) by nia.
    apply firstn_all2. nia.
Qed.

(* concatenating the fragments, in index order, gives the payload back *)
Lemma concat_frags : forall (p : bytes) f, 0 < f ->
  concat (map (fun i => slice p (i * f) (Z.min ((i + 1) * f) (blen p))) (zseq (div_ceil (blen p) f))) = p.
Proof.
  intros p f Hf. unfold zseq. rewrite map_map.
  rewrite (map_ext _ (fun i : nat => firstn (Z.to_nat f) (skipn (i * Z.to_nat f) p))).
  2:{ intros a. rewrite slice_chunk by lia. rewrite Nat2Z.id. reflexivity. }
  rewrite chunks_concat. cbn [Nat.mul skipn].
  apply firstn_all2.
  assert (H := div_ceil_bounds (blen p) f ltac:(unfold blen; lia) Hf). unfold blen in *. nia.
Qed.

(* ------------------------------------------------------------ equality, push *)

Lemma bytes_eqb_eq : forall a b, bytes_eqb a b = true <-> a = b.
Proof.
  induction a as [|x a IH]; destruct b as [|y b]; cbn [bytes_eqb]; split; intros H; try congruence; try discriminate.
  - apply andb_true_iff in H as [H1 H2]. apply Z.eqb_eq in H1. apply IH in H2. congruence.
  - inversion H; subst. rewrite Z.eqb_refl. cbn. apply IH. reflexivity.
Qed.


Lemma same_key_iff : forall a b, same_key a b = true <-> frag_key a = frag_key b.
Proof.
  intros a b. unfold same_key, frag_key. rewrite andb_true_iff, !Z.eqb_eq. split.
  - intros [-> ->]. reflexivity.
  - intros H. inversion H. auto.
Qed.

Lemma existsb_same_key : forall fr buf, existsb (same_key fr) buf = true <-> In (frag_key fr) (map frag_key buf).
Proof.
  intros fr buf. rewrite existsb_exists, in_map_iff. split.
  - intros [x [Hin Hk]]. apply same_key_iff in Hk. exists x. auto.
  - intros [x [Hk Hin]]. exists x. split; [exact Hin|]. apply same_key_iff. auto.
Qed.

Lemma push_frag_in : forall buf fr x, In x (push_frag buf fr) -> In x buf \/ x = fr.
Proof.
  intros buf fr x. unfold push_frag. destruct (existsb (same_key fr) buf); [tauto|].
  rewrite in_app_iff. cbn [In]. intuition.
Qed.

Lemma push_frag_keeps : forall buf fr x, In x buf -> In x (push_frag buf fr).
Proof.
  intros buf fr x H. unfold push_frag. destruct (existsb (same_key fr) buf); [exact H|].
  apply in_app_iff. left. exact H.
Qed.

(* after a push the pushed fragment's key is in the buffer *)
Lemma push_frag_key : forall buf fr, In (frag_key fr) (map frag_key (push_frag buf fr)).
Proof.
  intros buf fr. unfold push_frag. destruct (existsb (same_key fr) buf) eqn:E.
  - apply existsb_same_key. exact E.
  - rewrite map_app, in_app_iff. right. left. reflexivity.
Qed.

Lemma push_frag_keys : forall buf fr, NoDup (map frag_key buf) -> NoDup (map frag_key (push_frag buf fr)).
Proof.
  intros buf fr H. unfold push_frag. destruct (existsb (same_key fr) buf) eqn:E; [exact H|].
  assert (Hn : ~ In (frag_key fr) (map frag_key buf)).
  { intros Hin. apply existsb_same_key in Hin. congruence. }
  rewrite map_app. cbn [map]. clear E.
  induction (map frag_key buf) as [|a l IH]; cbn [app].
  - constructor; [intros []|constructor].
  - inversion H; subst. constructor.
    + rewrite in_app_iff. cbn [In]. intros [H1|[H1|[]]]; [tauto|]. apply Hn. left. symmetry. exact H1.
    + apply IH; [assumption|]. intros Hin. apply Hn. right. exact Hin.
Qed.

Lemma fold_push_in : forall l buf x, In x (fold_left push_frag l buf) -> In x buf \/ In x l.
Proof.
  induction l as [|a l IH]; intros buf x; cbn [fold_left In]; [tauto|].
  intros H. apply IH in H as [H|H]; [|tauto]. apply push_frag_in in H. intuition.
Qed.

Lemma fold_push_keeps : forall l buf x, In x buf -> In x (fold_left push_frag l buf).
Proof.
  induction l as [|a l IH]; intros buf x H; cbn [fold_left]; [exact H|].
  apply IH. apply push_frag_keeps. exact H.
Qed.

Lemma fold_push_key : forall l buf x, In x l -> In (frag_key x) (map frag_key (fold_left push_frag l buf)).
Proof.
  induction l as [|a l IH]; intros buf x Hx; [destruct Hx|]. destruct Hx as [Hx|Hx]; cbn [fold_left].
  - subst a. pose proof (push_frag_key buf x) as H. apply in_map_iff in H as (y & Hy & Hin).
    apply in_map_iff. exists y. split; [exact Hy|]. apply fold_push_keeps. exact Hin.
  - apply IH. exact Hx.
Qed.

Lemma fold_push_keys : forall l buf, NoDup (map frag_key buf) -> NoDup (map frag_key (fold_left push_frag l buf)).
Proof.
  induction l as [|a l IH]; intros buf H; cbn [fold_left]; [exact H|].
  apply IH. apply push_frag_keys. exact H.
Qed.

(* ------------------------------------------------------------ genuine fragments *)

Lemma wrap_u32_small : forall z, 0 <= z < two32 -> wrap_u32 z = z.
Proof. intros z H. unfold wrap_u32. apply Z.mod_small. exact H. Qed.
Lemma wrap_u16_small : forall z, 0 <= z < 65536 -> wrap_u16 z = z.
Proof. intros z H. unfold wrap_u16. apply Z.mod_small. exact H. Qed.


Lemma blen_nonneg : forall p, 0 <= blen p.
Proof. intros p. unfold blen. lia. Qed.

Lemma div_ceil_le : forall a b, 0 <= a -> 0 < b -> div_ceil a b <= a.
Proof.
  intros a b Ha Hb. destruct (div_ceil_bounds a b Ha Hb) as [H|[H1 H2]]; [|lia].
  destruct (Z_le_gt_dec (div_ceil a b) a); [assumption|]. nia.
Qed.

Section Genuine.
  Variables (f rid sn : Z) (p : bytes).
  Hypothesis Hf : frag_size_ok f.
  Hypothesis Hp : payload_ok p.

  Let n := div_ceil (blen p) f.
  Definition gfrag (i : Z) : frag := mk_data_frag rid sn p f i.

  Lemma n_bounds : 0 <= n <= blen p /\ n < two32.
  Proof.
    unfold n. pose proof (blen_nonneg p). destruct Hf.
    pose proof (div_ceil_nonneg (blen p) f ltac:(lia) ltac:(lia)).
    pose proof (div_ceil_le (blen p) f ltac:(lia) ltac:(lia)).
    unfold payload_ok in Hp. lia.
  Qed.

  Lemma gfrag_fields : forall i, 0 <= i < n ->
    fr_rid (gfrag i) = rid /\ fr_sn (gfrag i) = sn /\ fr_start (gfrag i) = i + 1 /\
    fr_nsub (gfrag i) = 1 /\ fr_fsize (gfrag i) = f /\ fr_dsize (gfrag i) = blen p /\
    fr_data (gfrag i) = slice p (i * f) (Z.min ((i + 1) * f) (blen p)).
  Proof.
    intros i Hi. pose proof n_bounds. unfold gfrag, mk_data_frag.
    cbn [fr_rid fr_sn fr_start fr_nsub fr_fsize fr_dsize fr_data].
    rewrite wrap_u32_small by lia. rewrite wrap_u16_small by (destruct Hf; lia).
    rewrite wrap_u32_small by (pose proof (blen_nonneg p); unfold payload_ok in Hp; lia).
    repeat split; reflexivity.
  Qed.

  Lemma gfrag_expected : forall i, 0 <= i < n -> total_fragments_expected (gfrag i) = Ok n.
  Proof.
    intros i Hi. destruct (gfrag_fields i Hi) as (_ & _ & _ & _ & Hfs & Hds & _).
    unfold total_fragments_expected. rewrite Hfs, Hds.
    destruct (Z.eqb_spec f 0) as [E|E]; [destruct Hf; lia|]. reflexivity.
  Qed.

  Lemma gfrag_inj : forall i j, 0 <= i < n -> 0 <= j < n -> fr_start (gfrag i) = fr_start (gfrag j) -> i = j.
  Proof.
    intros i j Hi Hj H.
    destruct (gfrag_fields i Hi) as (_ & _ & H1 & _). destruct (gfrag_fields j Hj) as (_ & _ & H2 & _). lia.
  Qed.
End Genuine.

(* ------------------------------------------------------------ reconstruct on genuine buffers *)

Lemma sum_nsub_acc : forall l a, fold_left (fun acc fr => acc + fr_nsub fr) l a =
                                 a + fold_left (fun acc fr => acc + fr_nsub fr) l 0.
Proof.
  induction l as [|x l IH]; intros a; cbn [fold_left]; [lia|].
  rewrite IH. rewrite (IH (0 + fr_nsub x)). lia.
Qed.

Lemma sum_nsub_ones : forall l, (forall x, In x l -> fr_nsub x = 1) -> sum_nsub l = Z.of_nat (length l).
Proof.
  unfold sum_nsub. induction l as [|x l IH]; intros H; [reflexivity|].
  cbn [fold_left length]. rewrite sum_nsub_acc. rewrite IH by (intros; apply H; right; assumption).
  rewrite (H x) by (left; reflexivity). lia.
Qed.

Lemma zrange_in : forall n lo k, In k (zrange lo n) <-> lo <= k < lo + Z.of_nat n.
Proof.
  induction n as [|n IH]; intros lo k; cbn [zrange In].
  - lia.
  - rewrite IH. lia.
Qed.

Lemma zrange_length : forall n lo, length (zrange lo n) = n.
Proof. induction n as [|n IH]; intros lo; cbn [zrange length]; [reflexivity|]. rewrite IH. reflexivity. Qed.

Lemma zrange_nodup : forall n lo, NoDup (zrange lo n).
Proof.
  induction n as [|n IH]; intros lo; cbn [zrange]; constructor.
  - rewrite zrange_in. lia.
  - apply IH.
Qed.

Lemma collect_concat : forall buf sn m from,
  collect buf sn m from =
  concat (map (fun k => match find (is_frag sn k) buf with Some fr => fr_data fr | None => [] end) (zrange from m)).
Proof.
  intros buf sn m. induction m as [|m IH]; intros from; cbn [collect zrange map concat]; [reflexivity|].
  rewrite IH. reflexivity.
Qed.

Lemma zrange_shift : forall n lo, zrange (lo + 1) n = map (fun i => i + 1) (zrange lo n).
Proof.
  induction n as [|n IH]; intros lo; cbn [zrange map]; [reflexivity|]. rewrite IH. reflexivity.
Qed.

Lemma zseq_zrange : forall n, zseq n = zrange 0 (Z.to_nat n).
Proof.
  intros n. unfold zseq. generalize (Z.to_nat n) as m. intros m.
  assert (H : forall k, map Z.of_nat (seq k m) = zrange (Z.of_nat k) m).
  { induction m as [|m IH]; intros k; cbn [seq map zrange]; [reflexivity|].
    rewrite IH. f_equal. f_equal. lia. }
  apply (H 0%nat).
Qed.


Lemma keys_filter_starts : forall sn buf, NoDup (map frag_key buf) ->
  NoDup (map fr_start (filter (has_sn sn) buf)).
Proof.
  intros sn buf. induction buf as [|x buf IH]; intros H; cbn [filter map]; [constructor|].
  cbn [map] in H. inversion H as [|? ? Hn Hd]; subst.
  destruct (has_sn sn x) eqn:E; [|apply IH; exact Hd].
  cbn [map]. constructor; [|apply IH; exact Hd].
  intros Hin. apply in_map_iff in Hin as (y & Hy & Hyin). apply filter_In in Hyin as [Hyin Hys].
  apply Hn. apply in_map_iff. exists y. split; [|exact Hyin].
  unfold has_sn in *. apply Z.eqb_eq in E, Hys. unfold frag_key. congruence.
Qed.

Section Reconstruct.
  Variables (f : Z) (ch : list (Z * bytes)).
  Hypothesis Hf : frag_size_ok f.
  Hypothesis Hch : history_ok ch.

  Variable buf : list frag.
  Hypothesis Hkeys : NoDup (map frag_key buf).
  Hypothesis Hgen : forall x, In x buf -> genuine f ch x.

  Lemma no_history_no_frag : forall sn, lookup sn ch = None -> find (has_sn sn) buf = None.
  Proof.
    intros sn Hl. destruct (find (has_sn sn) buf) as [x|] eqn:E; [|reflexivity].
    apply find_some in E as [Hin Hs]. unfold has_sn in Hs. apply Z.eqb_eq in Hs.
    destruct (Hgen x Hin) as (rid & p & i & Hlk & _). congruence.
  Qed.

  Variables (sn : Z) (p : bytes).
  Hypothesis Hlk : lookup sn ch = Some p.
  Let n := div_ceil (blen p) f.
  Let G := filter (has_sn sn) buf.
  Local Notation completeS := (complete f buf sn p).

  Lemma G_elem : forall x, In x G -> exists rid i, 0 <= i < n /\ x = gfrag f rid sn p i.
  Proof.
    intros x Hx. unfold G in Hx. apply filter_In in Hx as [Hin Hs].
    unfold has_sn in Hs. apply Z.eqb_eq in Hs.
    destruct (Hgen x Hin) as (rid & p' & i & Hl & Hi & Hx). rewrite Hs in *.
    assert (p' = p) by congruence. subst p'. exists rid, i. split; [exact Hi|exact Hx].
  Qed.

  (* a buffered fragment of sn numbered k is fragment k - 1 of p: same bytes whoever it was addressed to *)
  Lemma buf_elem_start : forall x k, In x buf -> fr_sn x = sn -> fr_start x = k ->
    1 <= k <= n /\ fr_nsub x = 1 /\ fr_fsize x = f /\ fr_dsize x = blen p /\
    fr_data x = slice p ((k - 1) * f) (Z.min (((k - 1) + 1) * f) (blen p)).
  Proof.
    intros x k Hin H1 H2.
    assert (HG : In x G). { unfold G. apply filter_In. split; [exact Hin|]. unfold has_sn. apply Z.eqb_eq. exact H1. }
    destruct (G_elem x HG) as (rid & i & Hi & Hx).
    pose proof (gfrag_fields f rid sn p Hf (Hch _ _ Hlk) i Hi) as (_ & _ & Hst & Hns & Hfs & Hds & Hd).
    rewrite <- Hx in *. replace (k - 1) with i by lia. repeat split; try assumption; lia.
  Qed.

  Lemma G_starts_nodup : NoDup (map fr_start G).
  Proof. unfold G. apply keys_filter_starts. exact Hkeys. Qed.

  Lemma G_starts_incl : incl (map fr_start G) (zrange 1 (Z.to_nat n)).
  Proof.
    intros k Hk. apply in_map_iff in Hk as (x & Hx & Hin).
    unfold G in Hin. apply filter_In in Hin as [Hin Hs]. unfold has_sn in Hs. apply Z.eqb_eq in Hs.
    destruct (buf_elem_start x k Hin Hs Hx) as [Hk _]. apply zrange_in. lia.
  Qed.

  Lemma G_total : sum_nsub G = Z.of_nat (length G).
  Proof.
    apply sum_nsub_ones. intros x Hx. unfold G in Hx. apply filter_In in Hx as [Hin Hs].
    unfold has_sn in Hs. apply Z.eqb_eq in Hs.
    destruct (buf_elem_start x (fr_start x) Hin Hs eq_refl) as (_ & H & _). exact H.
  Qed.

  Lemma G_length_le : Z.of_nat (length G) <= n.
  Proof.
    pose proof (NoDup_incl_length G_starts_nodup G_starts_incl) as H.
    rewrite map_length, zrange_length in H.
    pose proof (n_bounds f p Hf (Hch _ _ Hlk)). fold n in H0. lia.
  Qed.

  Lemma present_G : forall k, present buf sn k <-> In k (map fr_start G).
  Proof.
    intros k. unfold present. rewrite in_map_iff. split.
    - intros (x & Hin & Hs & Hk). exists x. split; [exact Hk|]. unfold G. apply filter_In.
      split; [exact Hin|]. unfold has_sn. apply Z.eqb_eq. exact Hs.
    - intros (x & Hk & Hin). unfold G in Hin. apply filter_In in Hin as [Hin Hs].
      unfold has_sn in Hs. apply Z.eqb_eq in Hs. exists x. auto.
  Qed.

  Lemma complete_iff_length : completeS <-> Z.of_nat (length G) = n.
  Proof.
    pose proof (n_bounds f p Hf (Hch _ _ Hlk)) as Hn. fold n in Hn.
    split.
    - intros Hc.
      assert (Hincl : incl (zrange 1 (Z.to_nat n)) (map fr_start G)).
      { intros k Hk. apply zrange_in in Hk. apply present_G.
        replace k with ((k - 1) + 1) by lia. apply Hc. fold n. lia. }
      pose proof (NoDup_incl_length (zrange_nodup (Z.to_nat n) 1) Hincl) as H.
      rewrite map_length, zrange_length in H. pose proof G_length_le. lia.
    - intros Hlen i Hi. fold n in Hi.
      assert (Hincl : incl (zrange 1 (Z.to_nat n)) (map fr_start G)).
      { apply NoDup_length_incl; [exact G_starts_nodup| |exact G_starts_incl].
        rewrite map_length, zrange_length. lia. }
      apply present_G. apply Hincl. apply zrange_in. lia.
  Qed.

  Lemma find_first_sn : forall x, find (has_sn sn) buf = Some x ->
    total_fragments_expected x = Ok n /\ 1 <= n.
  Proof.
    intros x E. apply find_some in E as [Hin Hs]. unfold has_sn in Hs. apply Z.eqb_eq in Hs.
    destruct (buf_elem_start x (fr_start x) Hin Hs eq_refl) as (Hk & _ & Hfs & Hds & _).
    split; [|lia]. unfold total_fragments_expected. rewrite Hfs, Hds.
    destruct (Z.eqb_spec f 0); [destruct Hf; lia|]. reflexivity.
  Qed.

  Lemma find_start_complete : forall k, completeS -> 1 <= k <= n ->
    exists x, find (is_frag sn k) buf = Some x /\
              fr_data x = slice p ((k - 1) * f) (Z.min (((k - 1) + 1) * f) (blen p)).
  Proof.
    intros k Hc Hk.
    destruct (find (is_frag sn k) buf) as [x|] eqn:E.
    - exists x. split; [reflexivity|]. apply find_some in E as [Hin Hp].
      unfold is_frag in Hp. apply andb_true_iff in Hp as [H1 H2]. apply Z.eqb_eq in H1, H2.
      apply (buf_elem_start x k Hin H1 H2).
    - exfalso. destruct (Hc (k - 1) ltac:(fold n; lia)) as (y & Hy & Hs & Hst).
      pose proof (find_none _ _ E y Hy) as Hnone. unfold is_frag in Hnone.
      rewrite Hs, Hst, Z.eqb_refl in Hnone.
      replace (k - 1 + 1 =? k) with true in Hnone by (symmetry; apply Z.eqb_eq; lia). discriminate.
  Qed.

  Lemma find_start_zero : find (is_frag sn 0) buf = None.
  Proof.
    destruct (find (is_frag sn 0) buf) as [x|] eqn:E; [|reflexivity].
    apply find_some in E as [Hin Hp]. unfold is_frag in Hp. apply andb_true_iff in Hp as [H1 H2].
    apply Z.eqb_eq in H1, H2. destruct (buf_elem_start x 0 Hin H1 H2). lia.
  Qed.

  Lemma collect_complete : completeS -> collect buf sn (Z.to_nat (n + 1)) 0 = p.
  Proof.
    intros Hc. pose proof (n_bounds f p Hf (Hch _ _ Hlk)) as Hn. fold n in Hn.
    replace (Z.to_nat (n + 1)) with (S (Z.to_nat n)) by lia.
    cbn [collect]. rewrite find_start_zero. cbn [app]. replace (0 + 1) with 1 by lia.
    rewrite collect_concat.
    etransitivity; [|apply (concat_frags p f); destruct Hf; lia]. fold n.
    f_equal. rewrite zseq_zrange. replace 1 with (0 + 1) at 1 by lia. rewrite zrange_shift, map_map.
    apply map_ext_in. intros i Hi. apply zrange_in in Hi.
    destruct (find_start_complete (i + 1) Hc ltac:(lia)) as (x & Hfind & Hd).
    rewrite Hfind, Hd. replace (i + 1 - 1) with i by lia. reflexivity.
  Qed.

  (* the heart of C05: on a buffer of genuine fragments, reconstruct returns the written payload
     when every fragment is present, and nothing otherwise *)
  Lemma reconstruct_complete : completeS -> 1 <= n ->
    reconstruct buf sn = Ok (Some p, filter (fun fr => negb (has_sn sn fr)) buf).
  Proof.
    intros Hc Hn1. unfold reconstruct.
    destruct (find_start_complete 1 Hc ltac:(lia)) as (x1 & Hf1 & _).
    destruct (find (has_sn sn) buf) as [x0|] eqn:E0.
    2:{ exfalso. apply find_some in Hf1 as [Hin Hp]. pose proof (find_none _ _ E0 x1 Hin) as H.
        unfold is_frag in Hp. unfold has_sn in H. apply andb_true_iff in Hp. destruct Hp. congruence. }
    destruct (find_first_sn x0 E0) as [He _]. rewrite He. cbn [bind].
    fold G. rewrite G_total. apply complete_iff_length in Hc as Hlen. rewrite Hlen.
    pose proof (n_bounds f p Hf (Hch _ _ Hlk)) as Hn. fold n in Hn.
    replace (u32_max <? n) with false by (symmetry; apply Z.ltb_ge; unfold u32_max, two32 in *; lia).
    rewrite Z.eqb_refl. rewrite collect_complete by exact Hc. rewrite Hf1. reflexivity.
  Qed.

  Lemma reconstruct_incomplete : ~ completeS -> reconstruct buf sn = Ok (None, buf).
  Proof.
    intros Hc. unfold reconstruct.
    destruct (find (has_sn sn) buf) as [x0|] eqn:E0; [|reflexivity].
    destruct (find_first_sn x0 E0) as [He _]. rewrite He. cbn [bind].
    fold G. rewrite G_total.
    pose proof (n_bounds f p Hf (Hch _ _ Hlk)) as Hn. fold n in Hn. pose proof G_length_le as Hle.
    replace (u32_max <? Z.of_nat (length G)) with false
      by (symmetry; apply Z.ltb_ge; unfold u32_max, two32 in *; lia).
    destruct (Z.eqb_spec (Z.of_nat (length G)) n) as [E|E]; [|reflexivity].
    exfalso. apply Hc. apply complete_iff_length. exact E.
  Qed.

  Lemma complete_dec : completeS \/ ~ completeS.
  Proof.
    destruct (Z.eq_dec (Z.of_nat (length G)) n) as [E|E].
    - left. apply complete_iff_length. exact E.
    - right. intros H. apply E. apply complete_iff_length. exact H.
  Qed.

  Lemma present_dec : forall k, present buf sn k \/ ~ present buf sn k.
  Proof.
    intros k. destruct (in_dec Z.eq_dec k (map fr_start G)) as [H|H].
    - left. apply present_G. exact H.
    - right. intros Hp. apply H. apply present_G. exact Hp.
  Qed.

  (* never a wrong payload *)
  Lemma reconstruct_sound : forall d buf', reconstruct buf sn = Ok (Some d, buf') ->
    d = p /\ completeS /\ buf' = filter (fun fr => negb (has_sn sn fr)) buf.
  Proof.
    intros d buf' H. destruct complete_dec as [Hc|Hc].
    - assert (1 <= n).
      { unfold reconstruct in H. destruct (find (has_sn sn) buf) as [x0|] eqn:E0; [|discriminate].
        apply (find_first_sn x0 E0). }
      rewrite (reconstruct_complete Hc H0) in H. injection H as Hd Hb. split; [symmetry; exact Hd|]. split; [exact Hc|symmetry; exact Hb].
    - rewrite (reconstruct_incomplete Hc) in H. discriminate.
  Qed.
End Reconstruct.

(* ------------------------------------------------------------ proxy-level statements *)

Lemma keys_filter : forall (q : frag -> bool) buf, NoDup (map frag_key buf) -> NoDup (map frag_key (filter q buf)).
Proof.
  intros q buf. induction buf as [|x buf IH]; intros H; cbn [filter map]; [constructor|].
  cbn [map] in H. inversion H as [|? ? Hn Hd]; subst.
  destruct (q x); [|apply IH; exact Hd]. cbn [map]. constructor; [|apply IH; exact Hd].
  intros Hin. apply Hn. apply in_map_iff in Hin as (y & Hy & Hyin). apply filter_In in Hyin as [Hyin _].
  apply in_map_iff. exists y. auto.
Qed.

Lemma reconstruct_filter_sn : forall sn b,
  reconstruct b sn =
  match reconstruct (filter (has_sn sn) b) sn with
  | Ok (Some d, _) => Ok (Some d, filter (fun x => negb (has_sn sn x)) b)
  | Ok (None, _) => Ok (None, b)
  | Err e => Err e
  | Panic s => Panic s
  end.
Proof.
  intros sn b. unfold reconstruct.
  assert (Hfind : forall q, (forall x, q x = true -> has_sn sn x = true) ->
                   find q (filter (has_sn sn) b) = find q b).
  { intros q Hq. clear - Hq. induction b as [|x b IH]; cbn [filter find]; [reflexivity|].
    destruct (has_sn sn x) eqn:E; cbn [find].
    - destruct (q x); [reflexivity|exact IH].
    - destruct (q x) eqn:Eq; [apply Hq in Eq; congruence|exact IH]. }
  rewrite (Hfind (has_sn sn)) by auto.
  assert (Hff : filter (has_sn sn) (filter (has_sn sn) b) = filter (has_sn sn) b).
  { clear. induction b as [|x b IH]; cbn [filter]; [reflexivity|].
    destruct (has_sn sn x) eqn:E; cbn [filter]; [rewrite E, IH; reflexivity|exact IH]. }
  rewrite Hff.
  assert (Hcol : forall m from, collect (filter (has_sn sn) b) sn m from = collect b sn m from).
  { intros m. induction m as [|m IH]; intros from; cbn [collect]; [reflexivity|].
    rewrite IH. rewrite (Hfind (is_frag sn from)); [reflexivity|].
    intros x Hx. unfold is_frag in Hx. apply andb_true_iff in Hx. unfold has_sn. tauto. }
  rewrite (Hfind (is_frag sn 1)).
  2:{ intros x Hx. unfold is_frag in Hx. apply andb_true_iff in Hx. unfold has_sn. tauto. }
  destruct (find (has_sn sn) b) as [x0|]; [|reflexivity].
  destruct (total_fragments_expected x0) as [e|e|e]; cbn [bind]; try reflexivity.
  destruct (u32_max <? sum_nsub (filter (has_sn sn) b)); [reflexivity|].
  destruct (sum_nsub (filter (has_sn sn) b) =? e); [|reflexivity].
  rewrite Hcol. destruct (find (is_frag sn 1) b); reflexivity.
Qed.

Section ProxyLevel.
  Variables (f sn : Z) (p : bytes) (l : list frag).
  Hypothesis Hf : frag_size_ok f.
  Hypothesis Hp : payload_ok p.
  (* every element of l that speaks for sn is one of the fragments of p, addressed to whichever
     reader; anything else carries another sn *)
  Hypothesis Hl : forall x, In x l -> fr_sn x = sn ->
                    exists rid i, 0 <= i < div_ceil (blen p) f /\ x = mk_data_frag rid sn p f i.

  Let buf := fold_left push_frag l [].
  Let bufS := filter (has_sn sn) buf.
  Let ch : list (Z * bytes) := [(sn, p)].

  Lemma bufS_keys : NoDup (map frag_key bufS).
  Proof. unfold bufS, buf. apply keys_filter. apply fold_push_keys. constructor. Qed.

  Lemma bufS_genuine : forall x, In x bufS -> genuine f ch x.
  Proof.
    intros x Hx. unfold bufS in Hx. apply filter_In in Hx as [Hin Hs].
    unfold buf in Hin. apply fold_push_in in Hin as [[]|Hin].
    unfold has_sn in Hs. apply Z.eqb_eq in Hs.
    destruct (Hl x Hin Hs) as (rid & i & Hi & Hxi). exists rid, p, i. rewrite Hs. unfold ch. cbn [lookup].
    rewrite Z.eqb_refl. auto.
  Qed.

  Lemma ch_ok : history_ok ch.
  Proof.
    intros s q H. unfold ch in H. cbn [lookup] in H. destruct (sn =? s); [|discriminate]. inversion H; subst. exact Hp.
  Qed.

  Lemma ch_lookup : lookup sn ch = Some p.
  Proof. unfold ch. cbn [lookup]. rewrite Z.eqb_refl. reflexivity. Qed.

  Definition all_arrived : Prop :=
    forall i, 0 <= i < div_ceil (blen p) f -> exists rid, In (mk_data_frag rid sn p f i) l.

  Lemma complete_bufS_iff : complete f bufS sn p <-> all_arrived.
  Proof.
    unfold complete, all_arrived, present. split; intros H i Hi.
    - destruct (H i Hi) as (x & Hx & Hs & Hst). unfold bufS in Hx. apply filter_In in Hx as [Hx _].
      unfold buf in Hx. apply fold_push_in in Hx as [[]|Hx].
      destruct (Hl x Hx Hs) as (rid & j & Hj & Hxj).
      pose proof (gfrag_fields f rid sn p Hf Hp j Hj) as (_ & _ & Hstj & _). unfold gfrag in Hstj.
      rewrite <- Hxj in Hstj. assert (j = i) by lia. subst j. exists rid. rewrite <- Hxj. exact Hx.
    - destruct (H i Hi) as (rid & Hin).
      pose proof (fold_push_key l [] _ Hin) as Hk. fold buf in Hk.
      apply in_map_iff in Hk as (y & Hy & Hyin). unfold frag_key in Hy. inversion Hy as [[Hy1 Hy2]].
      pose proof (gfrag_fields f rid sn p Hf Hp i Hi) as (_ & Hs & Hst & _). unfold gfrag in *.
      exists y. split; [|split; congruence]. unfold bufS. apply filter_In. split; [exact Hyin|].
      unfold has_sn. apply Z.eqb_eq. congruence.
  Qed.

  (* any order, any duplication, any interleaving with other samples' fragments *)
  Lemma reassemble_any_order :
    1 <= div_ceil (blen p) f -> all_arrived ->
    reconstruct buf sn = Ok (Some p, filter (fun x => negb (has_sn sn x)) buf).
  Proof.
    intros Hn Hall. rewrite reconstruct_filter_sn. fold bufS.
    rewrite (reconstruct_complete f ch Hf ch_ok bufS bufS_keys bufS_genuine sn p ch_lookup).
    - reflexivity.
    - apply complete_bufS_iff. exact Hall.
    - exact Hn.
  Qed.

  Lemma reassemble_incomplete : ~ all_arrived -> reconstruct buf sn = Ok (None, buf).
  Proof.
    intros Hall. rewrite reconstruct_filter_sn. fold bufS.
    rewrite (reconstruct_incomplete f ch Hf ch_ok bufS bufS_keys bufS_genuine sn p ch_lookup).
    - reflexivity.
    - intros Hc. apply Hall. apply complete_bufS_iff. exact Hc.
  Qed.

  Lemma reassemble_never_wrong : forall d b',
    reconstruct buf sn = Ok (Some d, b') -> d = p.
  Proof.
    intros d b' H. rewrite reconstruct_filter_sn in H. fold bufS in H.
    destruct (reconstruct bufS sn) as [[[d'|] b'']|e|e] eqn:E; try discriminate.
    inversion H; subst d'.
    apply (reconstruct_sound f ch Hf ch_ok bufS bufS_keys bufS_genuine sn p ch_lookup) in E. tauto.
  Qed.
End ProxyLevel.

(* ------------------------------------------------------------ all histories *)

Lemma lookup_app : forall sn a b,
  lookup sn (a ++ b) = match lookup sn a with Some p => Some p | None => lookup sn b end.
Proof.
  intros sn a b. induction a as [|[s q] a IH]; cbn [app lookup]; [reflexivity|].
  destruct (s =? sn); [reflexivity|exact IH].
Qed.

Lemma genuine_mono : forall f ch e x, genuine f ch x -> genuine f (ch ++ e) x.
Proof.
  intros f ch e x (rid & p & i & Hl & Hi & Hx). exists rid, p, i. rewrite lookup_app, Hl. auto.
Qed.

Lemma history_ok_app : forall ch sn p, history_ok ch -> payload_ok p -> history_ok (ch ++ [(sn, p)]).
Proof.
  intros ch sn p H Hp s q Hl. rewrite lookup_app in Hl.
  destruct (lookup s ch) eqn:E.
  - inversion Hl; subst. apply (H s q E).
  - cbn [lookup] in Hl. destruct (sn =? s); [|discriminate]. inversion Hl; subst. exact Hp.
Qed.

Lemma sorted_app_one : forall l x, StronglySorted Z.lt l -> Forall (fun y => y < x) l ->
  StronglySorted Z.lt (l ++ [x]).
Proof.
  induction l as [|a l IH]; intros x Hs Hall; cbn [app].
  - constructor; constructor.
  - inversion Hs; subst. inversion Hall; subst. constructor.
    + apply IH; assumption.
    + apply Forall_app. split; [assumption|]. constructor; [assumption|constructor].
Qed.


Lemma rinv_mono : forall f ch e r, rinv f ch r -> rinv f (ch ++ e) r.
Proof.
  intros f ch e r [H1 H2 H3 H4]. constructor; try assumption.
  - intros x Hx. apply genuine_mono. apply H2. exact Hx.
  - eapply Forall_impl; [|exact H3]. intros c [Ha Hb]. rewrite lookup_app, Ha. auto.
Qed.

Lemma r_on_data_inv : forall f ch r sn p, rinv f ch r -> lookup sn ch = Some p -> rinv f ch (r_on_data r sn p).
Proof.
  intros f ch r sn p [H1 H2 H3 H4] Hl.
  assert (Hbuf : forall s, NoDup (map frag_key (filter (fun fr => s <? fr_sn fr) (r_buf r))) /\
                 forall x, In x (filter (fun fr => s <? fr_sn fr) (r_buf r)) -> genuine f ch x).
  { intros s. split; [apply keys_filter; exact H1|]. intros x Hx. apply filter_In in Hx. apply H2. tauto. }
  assert (Hnew : available_changes_max r + 1 <= sn ->
     Forall (fun c => lookup (fst c) ch = Some (snd c) /\ fst c <= Z.max (r_highest r) sn) (r_changes r ++ [(sn, p)]) /\
     StronglySorted Z.lt (map fst (r_changes r ++ [(sn, p)]))).
  { intros Hsn. unfold available_changes_max in Hsn. split.
    - apply Forall_app. split.
      + eapply Forall_impl; [|exact H3]. intros c [Ha Hb]. split; [exact Ha|lia].
      + constructor; [|constructor]. cbn [fst snd]. split; [exact Hl|lia].
    - rewrite map_app. cbn [map fst]. apply sorted_app_one; [exact H4|].
      apply Forall_forall. intros y Hy. apply in_map_iff in Hy as (c & Hc & Hin).
      rewrite Forall_forall in H3. destruct (H3 c Hin) as [_ Hb]. lia. }
  unfold r_on_data. destruct (sn =? i64_max); [constructor; assumption|].
  destruct (r_rel r).
  - destruct (Z.eqb_spec sn (available_changes_max r + 1)) as [E|E]; [|constructor; assumption].
    destruct (Hnew ltac:(lia)) as [Ha Hb]. destruct (Hbuf sn) as [Hc Hd].
    constructor; cbn [r_set received_change_set r_buf r_changes r_highest r_first]; assumption.
  - destruct (Z.leb_spec (available_changes_max r + 1) sn) as [E|E]; [|constructor; assumption].
    destruct (Hnew ltac:(lia)) as [Ha Hb]. destruct (Hbuf sn) as [Hc Hd].
    constructor; cbn [r_set received_change_set r_buf r_changes r_highest r_first]; assumption.
Qed.

Definition frag_accept (r : rstate) (fr : frag) : bool :=
  if r_rel r then fr_sn fr =? available_changes_max r + 1
  else available_changes_max r + 1 <=? fr_sn fr.
Definition frag_buf1 (r : rstate) (fr : frag) : list frag :=
  if frag_accept r fr then push_frag (r_buf r) fr else r_buf r.

Lemma genuine_fsize : forall f ch fr, frag_size_ok f -> history_ok ch -> genuine f ch fr -> fr_fsize fr = f.
Proof.
  intros f ch fr Hf Hch (rid & p & i & Hl & Hi & Hfr).
  pose proof (gfrag_fields f rid (fr_sn fr) p Hf (Hch _ _ Hl) i Hi) as (_ & _ & _ & _ & H & _).
  unfold gfrag in H. rewrite <- Hfr in H. exact H.
Qed.

Lemma genuine_nsub : forall f ch fr, frag_size_ok f -> history_ok ch -> genuine f ch fr -> fr_nsub fr = 1.
Proof.
  intros f ch fr Hf Hch (rid & p & i & Hl & Hi & Hfr).
  pose proof (gfrag_fields f rid (fr_sn fr) p Hf (Hch _ _ Hl) i Hi) as (_ & _ & _ & H & _).
  unfold gfrag in H. rewrite <- Hfr in H. exact H.
Qed.

Lemma r_on_frag_cases : forall f ch r fr q, frag_size_ok f -> history_ok ch ->
  rinv f ch r -> genuine f ch fr -> lookup (fr_sn fr) ch = Some q -> fr_sn fr <> i64_max ->
  let buf1 := frag_buf1 r fr in
    (forall x, In x buf1 -> In x (r_buf r) \/ x = fr) /\
    (forall x, In x (r_buf r) -> In x buf1) /\
    (frag_accept r fr = true -> In (frag_key fr) (map frag_key buf1)) /\
    NoDup (map frag_key buf1) /\
    (forall x, In x buf1 -> genuine f ch x) /\
    ((complete f buf1 (fr_sn fr) q /\
      r_on_frag r fr = Ok (r_on_data (r_set r (r_first r) (r_highest r)
                                       (filter (fun x => negb (has_sn (fr_sn fr) x)) buf1) (r_changes r))
                                     (fr_sn fr) q))
     \/ (~ complete f buf1 (fr_sn fr) q /\
         r_on_frag r fr = Ok (r_set r (r_first r) (r_highest r) buf1 (r_changes r)))).
Proof.
  intros f ch r fr q Hf Hch [H1 H2 H3 H4] Hg Hl Hmax buf1.
  unfold r_on_frag. rewrite (genuine_fsize f ch fr Hf Hch Hg), (genuine_nsub f ch fr Hf Hch Hg).
  destruct (Z.eqb_spec f 0) as [E0|E0]; [destruct Hf; lia|].
  destruct (Z.eqb_spec (fr_sn fr) i64_max) as [E1|E1]; [contradiction|]. cbn [orb].
  replace (blen (fr_data fr) + 1 <? 1) with false by (symmetry; apply Z.ltb_ge; pose proof (blen_nonneg (fr_data fr)); lia).
  fold (frag_accept r fr). fold (frag_buf1 r fr). fold buf1.
  assert (Hsub : forall x, In x buf1 -> In x (r_buf r) \/ x = fr).
  { unfold buf1, frag_buf1. destruct (frag_accept r fr); [|tauto]. intros x Hx. apply push_frag_in in Hx. exact Hx. }
  assert (Hsup : forall x, In x (r_buf r) -> In x buf1).
  { unfold buf1, frag_buf1. destruct (frag_accept r fr); [|tauto]. intros x Hx. apply push_frag_keeps. exact Hx. }
  assert (Hkey : frag_accept r fr = true -> In (frag_key fr) (map frag_key buf1)).
  { unfold buf1, frag_buf1. intros ->. apply push_frag_key. }
  assert (Hnd : NoDup (map frag_key buf1)).
  { unfold buf1, frag_buf1. destruct (frag_accept r fr); [apply push_frag_keys|]; exact H1. }
  assert (Hgen : forall x, In x buf1 -> genuine f ch x).
  { intros x Hx. destruct (Hsub x Hx) as [Hx'|Hx']; [apply H2; exact Hx'|subst; exact Hg]. }
  split; [exact Hsub|]. split; [exact Hsup|]. split; [exact Hkey|]. split; [exact Hnd|]. split; [exact Hgen|].
  destruct (complete_dec f ch Hf Hch buf1 Hnd Hgen (fr_sn fr) q Hl) as [Hc|Hc].
  - left. split; [exact Hc|].
    assert (Hn : 1 <= div_ceil (blen q) f).
    { destruct Hg as (rid & p' & i & Hl' & Hi & _). assert (p' = q) by congruence. subst. lia. }
    rewrite (reconstruct_complete f ch Hf Hch buf1 Hnd Hgen (fr_sn fr) q Hl Hc Hn). reflexivity.
  - right. split; [exact Hc|].
    rewrite (reconstruct_incomplete f ch Hf Hch buf1 Hnd Hgen (fr_sn fr) q Hl Hc). reflexivity.
Qed.

Lemma r_on_frag_inv : forall f ch r fr, frag_size_ok f -> history_ok ch ->
  rinv f ch r -> genuine f ch fr ->
  exists r', r_on_frag r fr = Ok r' /\ rinv f ch r'.
Proof.
  intros f ch r fr Hf Hch Hr Hg. pose proof Hg as (rid & q & i & Hl & _).
  destruct (Z.eq_dec (fr_sn fr) i64_max) as [Emax|Emax].
  { exists r. split; [|exact Hr]. unfold r_on_frag. rewrite Emax, Z.eqb_refl, orb_true_r. reflexivity. }
  pose proof (r_on_frag_cases f ch r fr q Hf Hch Hr Hg Hl Emax) as (_ & _ & _ & Hnd & Hgen & Hcase).
  destruct Hr as [H1 H2 H3 H4].
  destruct Hcase as [[_ E]|[_ E]]; rewrite E; eexists; (split; [reflexivity|]).
  - apply r_on_data_inv; [|exact Hl]. constructor; cbn [r_set r_buf r_changes r_highest]; try assumption.
    + apply keys_filter. exact Hnd.
    + intros x Hx. apply filter_In in Hx. apply Hgen. tauto.
  - constructor; cbn [r_set r_buf r_changes r_highest]; assumption.
Qed.

Lemma r_deliver_inv : forall f ch r w, frag_size_ok f -> history_ok ch ->
  rinv f ch r -> wire_genuine f ch w -> exists r', r_deliver r w = Ok r' /\ rinv f ch r'.
Proof.
  intros f ch r w Hf Hch Hr Hw. destruct w as [rid sn p|fr|sn]; cbn [r_deliver wire_genuine] in *.
  - eexists. split; [reflexivity|]. apply r_on_data_inv; assumption.
  - apply r_on_frag_inv; assumption.
  - eexists. split; [reflexivity|exact Hr].
Qed.

Lemma r_deliver_all_inv : forall f ch ws r, frag_size_ok f -> history_ok ch ->
  rinv f ch r -> Forall (wire_genuine f ch) ws -> exists r', r_deliver_all r ws = Ok r' /\ rinv f ch r'.
Proof.
  intros f ch ws. induction ws as [|w ws IH]; intros r Hf Hch Hr Hws; cbn [r_deliver_all].
  - eexists. split; [reflexivity|exact Hr].
  - inversion Hws; subst. destruct (r_deliver_inv f ch r w Hf Hch Hr H1) as (r1 & E & Hr1).
    rewrite E. cbn [bind]. apply IH; assumption.
Qed.

(* ------------------------------------------------------------ the whole system *)

Record sinv (s : sys) : Prop := mksinv {
  si_f : frag_size_ok (w_f (s_w s));
  si_hist : history_ok (w_changes (s_w s));
  si_r : rinv (w_f (s_w s)) (w_changes (s_w s)) (s_r s)
}.

Lemma mk_data_frag_sn : forall rid sn p f i, fr_sn (mk_data_frag rid sn p f i) = sn.
Proof. reflexivity. Qed.

Lemma genuine_mk : forall f ch rid sn p k, lookup sn ch = Some p -> 0 <= k < div_ceil (blen p) f ->
  genuine f ch (mk_data_frag rid sn p f k).
Proof. intros f ch rid sn p k Hl Hk. exists rid, p, k. rewrite mk_data_frag_sn. auto. Qed.

Lemma w_on_nack_frag_spec : forall w count sn base set w' ws,
  w_on_nack_frag w count sn base set = Ok (w', ws) ->
  w_f w' = w_f w /\ w_changes w' = w_changes w /\ w_rel w' = w_rel w /\ w_last_an w' = w_last_an w /\
  Forall (wire_genuine (w_f w) (w_changes w)) ws.
Proof.
  intros w count sn base set w' ws H. unfold w_on_nack_frag in H.
  remember (nack_requests base set) as L eqn:EL.
  destruct (w_rel w && (w_last_nf w <? count)).
  2:{ inversion H; subst. repeat split; constructor. }
  destruct (lookup sn (w_changes w)) as [p|] eqn:El.
  - destruct (w_f w =? 0); [discriminate|]. injection H as Hw Hws. subst w' ws. repeat split.
    apply Forall_forall. intros x Hx. apply in_map_iff in Hx as (k & Hk & Hin).
    apply filter_In in Hin as [Hin Hlt]. apply andb_true_iff in Hlt as [H1 H2].
    apply Z.leb_le in H1, H2. subst x. cbn [wire_genuine].
    apply genuine_mk; [exact El|lia].
  - inversion H; subst. repeat split. constructor; [exact I|constructor].
Qed.

Lemma ack_resp_spec : forall w set ws, ack_resp w set = Ok ws ->
  Forall (wire_genuine (w_f w) (w_changes w)) ws.
Proof.
  intros w set. induction set as [|sn t IH]; intros ws H; cbn [ack_resp] in H.
  - inversion H. constructor.
  - destruct (ack_resp w t) as [y|e|e] eqn:E.
    2,3: destruct (lookup sn (w_changes w)); [destruct (0 <? sn); [destruct (w_f w =? 0)|]|]; discriminate.
    assert (Hx : exists x, ws = x :: y /\ wire_genuine (w_f w) (w_changes w) x).
    { destruct (lookup sn (w_changes w)) as [p|] eqn:El.
      - destruct (0 <? sn).
        + destruct (w_f w =? 0); [discriminate|]. cbn [bind] in H. inversion H; subst.
          eexists. split; [reflexivity|].
          destruct (Z.ltb_spec 1 (div_ceil (blen p) (w_f w))); cbn [wire_genuine]; [|exact El].
          apply genuine_mk; [exact El|lia].
        + cbn [bind] in H. inversion H; subst. eexists. split; [reflexivity|exact I].
      - cbn [bind] in H. inversion H; subst. eexists. split; [reflexivity|exact I]. }
    destruct Hx as (x & -> & Hx). constructor; [exact Hx|]. apply IH; reflexivity.
Qed.

Lemma w_on_acknack_spec : forall w count base set w' ws,
  w_on_acknack w count base set = Ok (w', ws) ->
  w_f w' = w_f w /\ w_changes w' = w_changes w /\ w_rel w' = w_rel w /\ w_last_nf w' = w_last_nf w /\
  Forall (wire_genuine (w_f w) (w_changes w)) ws.
Proof.
  intros w count base set w' ws H. unfold w_on_acknack in H.
  destruct (w_rel w && (w_last_an w <? count)).
  2:{ inversion H; subst. repeat split; constructor. }
  destruct (ack_resp w set) as [y|e|e] eqn:E; try discriminate. cbn [bind] in H. inversion H; subst.
  repeat split. apply (ack_resp_spec w set); assumption.
Qed.

Lemma datagram_of_spec : forall w sn idx which x, datagram_of w sn idx which = Some x ->
  wire_genuine (w_f w) (w_changes w) x.
Proof.
  intros w sn idx which x H. unfold datagram_of in H.
  destruct ((1 <=? which) && (which <=? w_nreaders w)); [|discriminate].
  destruct (lookup sn (w_changes w)) as [p|] eqn:El; [|discriminate].
  destruct (w_f w =? 0); [discriminate|].
  destruct (1 <? div_ceil (blen p) (w_f w)).
  - destruct (Z.leb_spec 0 idx); destruct (Z.ltb_spec idx (div_ceil (blen p) (w_f w))); cbn [andb] in H; try discriminate.
    inversion H; subst. cbn [wire_genuine]. apply genuine_mk; [exact El|lia].
  - destruct (idx =? 0); [|discriminate]. inversion H; subst. exact El.
Qed.

Lemma r_on_heartbeat_spec : forall r first last count final r' x,
  r_on_heartbeat r first last count final = Ok (r', x) ->
  r_buf r' = r_buf r /\ r_changes r' = r_changes r /\ r_highest r' = r_highest r /\ r_rel r' = r_rel r.
Proof.
  intros r first last count final r' x H. unfold r_on_heartbeat in H.
  destruct (first <=? 0); [inversion H; subst; repeat split|].
  destruct (r_hbcount r <? count).
  2:{ inversion H; subst. repeat split. }
  unfold r_write_message in H. cbn [r_must] in H.
  destruct (negb final || _).
  2:{ inversion H; subst. repeat split. }
  match type of H with context [gen_nackfrag ?R] => destruct (gen_nackfrag R) as [nfo|e|e] eqn:E end; try discriminate.
  cbn [bind] in H. inversion H; subst. cbn [r_buf r_changes r_highest r_rel]. repeat split.
Qed.

Lemma respond_inv : forall s x s' o,
  sinv s ->
  (forall w' ws, x = Ok (w', ws) -> w_f w' = w_f (s_w s) /\ w_changes w' = w_changes (s_w s) /\
                                   Forall (wire_genuine (w_f (s_w s)) (w_changes (s_w s))) ws) ->
  respond s x = Ok (s', o) -> sinv s' /\ w_changes (s_w s') = w_changes (s_w s).
Proof.
  intros s x s' o [Hf Hh Hr] Hx H. unfold respond in H.
  destruct x as [[w' ws]|e|e]; try discriminate. cbn [bind fst snd] in H.
  destruct (Hx w' ws eq_refl) as (E1 & E2 & Hg).
  destruct (r_deliver_all_inv _ _ ws (s_r s) Hf Hh Hr Hg) as (r1 & E & Hr1).
  rewrite E in H. cbn [bind] in H. inversion H; subst. cbn [s_w s_r s_reply].
  split; [|exact E2]. constructor; cbn [s_w s_r s_reply]; rewrite ?E1, ?E2; assumption.
Qed.

Lemma step_inv : forall s o s' b, sinv s -> op_ok o -> step s o = Ok (s', b) ->
  sinv s' /\ w_changes (s_w s') = w_changes (s_w s) ++
             (match o with OWrite p => [(next_sn (s_w s), p)] | _ => [] end).
Proof.
  intros s o s' b Hs Hop H. pose proof Hs as [Hf Hh Hr].
  destruct o as [p|sn idx which| fr |first last count final| |count sn base set| ]; cbn [step op_ok] in *.
  - (* write *)
    unfold w_write in H.
    destruct (send_change 1 _ _ p) as [a|e|e]; try discriminate. cbn [bind] in H.
    destruct (if 2 <=? _ then _ else _) as [c|e|e]; try discriminate. cbn [bind fst snd] in H.
    inversion H; subst. cbn [s_w s_r s_reply set_changes w_f w_changes]. split; [|reflexivity].
    constructor; cbn [s_w s_r s_reply set_changes w_f w_changes]; try assumption.
    + apply history_ok_app; assumption.
    + apply rinv_mono. exact Hr.
  - (* deliver *)
    rewrite app_nil_r.
    destruct (datagram_of (s_w s) sn idx which) as [w|] eqn:E.
    + apply datagram_of_spec in E.
      destruct (r_deliver_inv _ _ (s_r s) w Hf Hh Hr E) as (r1 & E1 & Hr1). rewrite E1 in H.
      cbn [bind] in H. inversion H; subst. split; [|reflexivity]. constructor; assumption.
    + inversion H; subst. split; [exact Hs|reflexivity].
  - destruct Hop.
  - (* heartbeat *)
    rewrite app_nil_r.
    destruct (r_on_heartbeat (s_r s) first last count final) as [[r' x]|e|e] eqn:E; try discriminate.
    cbn [bind fst snd] in H. inversion H; subst. cbn [s_w s_r s_reply].
    destruct (r_on_heartbeat_spec _ _ _ _ _ _ _ E) as (E1 & E2 & E3 & _).
    split; [|reflexivity]. constructor; cbn [s_w s_r s_reply]; try assumption.
    destruct Hr as [R1 R2 R3 R4]. constructor; rewrite ?E1, ?E2, ?E3; assumption.
  - (* the reader's NACK_FRAG to the writer *)
    rewrite app_nil_r.
    destruct (s_reply s) as [[a [nf|]]|] eqn:Er.
    + eapply respond_inv; [exact Hs| |exact H]. intros w' ws Hx.
      destruct (w_on_nack_frag_spec _ _ _ _ _ _ _ Hx) as (E1 & E2 & _ & _ & Hg). auto.
    + eapply respond_inv; [exact Hs| |exact H]. intros w' ws Hx. inversion Hx; subst. repeat split; constructor.
    + eapply respond_inv; [exact Hs| |exact H]. intros w' ws Hx. inversion Hx; subst. repeat split; constructor.
  - (* forged NACK_FRAG *)
    rewrite app_nil_r. eapply respond_inv; [exact Hs| |exact H]. intros w' ws Hx.
    destruct (w_on_nack_frag_spec _ _ _ _ _ _ _ Hx) as (E1 & E2 & _ & _ & Hg). auto.
  - (* ACKNACK *)
    rewrite app_nil_r.
    destruct (s_reply s) as [[a nfo]|] eqn:Er.
    + eapply respond_inv; [exact Hs| |exact H]. intros w' ws Hx.
      apply w_on_acknack_spec in Hx. tauto.
    + eapply respond_inv; [exact Hs| |exact H]. intros w' ws Hx. inversion Hx; subst. repeat split; constructor.
Qed.

Fixpoint number_from (k : Z) (l : list bytes) : list (Z * bytes) :=
  match l with [] => [] | p :: t => (k, p) :: number_from (k + 1) t end.

Lemma number_from_length : forall l k, length (number_from k l) = length l.
Proof. induction l as [|p l IH]; intros k; cbn [number_from length]; [reflexivity|]. rewrite IH. reflexivity. Qed.

Lemma lookup_number_from : forall l k sn,
  lookup sn (number_from k l) = if k <=? sn then nth_error l (Z.to_nat (sn - k)) else None.
Proof.
  induction l as [|p l IH]; intros k sn; cbn [number_from lookup].
  - destruct (k <=? sn); [|reflexivity]. destruct (Z.to_nat (sn - k)); reflexivity.
  - destruct (Z.eqb_spec k sn) as [E|E].
    + subst. rewrite Z.leb_refl, Z.sub_diag. reflexivity.
    + rewrite IH. destruct (Z.leb_spec (k + 1) sn); destruct (Z.leb_spec k sn); try lia; [|reflexivity].
      replace (Z.to_nat (sn - k)) with (S (Z.to_nat (sn - (k + 1)))) by lia. reflexivity.
Qed.

Lemma run_inv : forall ops s s' obs, sinv s -> Forall op_ok ops -> run s ops = Ok (s', obs) ->
  sinv s' /\ w_changes (s_w s') = w_changes (s_w s) ++ number_from (next_sn (s_w s)) (written ops).
Proof.
  induction ops as [|o ops IH]; intros s s' obs Hs Hops H; cbn [run] in H.
  - inversion H; subst. cbn [written number_from]. rewrite app_nil_r. auto.
  - inversion Hops; subst.
    destruct (step s o) as [[s1 b]|e|e] eqn:E; try discriminate. cbn [bind fst snd] in H.
    destruct (run s1 ops) as [[s2 obs2]|e|e] eqn:E2; try discriminate. cbn [bind fst snd] in H.
    inversion H; subst.
    destruct (step_inv s o s1 b Hs H2 E) as [Hs1 Hc1].
    destruct (IH s1 s' obs2 Hs1 H3 E2) as [Hs2 Hc2]. split; [exact Hs2|].
    rewrite Hc2, Hc1. unfold next_sn. rewrite Hc1, <- app_assoc. f_equal.
    destruct o; cbn [written number_from app]; rewrite ?app_nil_r; try reflexivity.
    rewrite app_length. cbn [length]. do 2 f_equal. lia.
Qed.

Lemma sinv_init : forall rel nreaders f, frag_size_ok f -> sinv (s_init rel nreaders f).
Proof.
  intros rel nreaders f Hf. constructor; cbn; try assumption.
  - intros sn p H. discriminate.
  - constructor; cbn; try constructor. intros x [].
Qed.

(* C05, safety half, for ALL histories: whatever the order, duplication, loss, interleaving of
   samples, heartbeats and ACKNACK / NACK_FRAG rounds, the reader only ever holds byte-identical
   payloads, each sequence number at most once and in increasing order *)
Theorem delivered_identical : forall rel nreaders f ops s obs,
  frag_size_ok f -> Forall op_ok ops -> run (s_init rel nreaders f) ops = Ok (s, obs) ->
  StronglySorted Z.lt (map fst (r_changes (s_r s))) /\
  forall sn d, In (sn, d) (r_changes (s_r s)) -> nth_written (written ops) sn = Some d.
Proof.
  intros rel nreaders f ops s obs Hf Hops H.
  destruct (run_inv ops _ s obs (sinv_init rel nreaders f Hf) Hops H) as [[_ _ Hr] Hc].
  cbn in Hc. destruct Hr as [_ _ R3 R4]. split; [exact R4|].
  intros sn d Hin. rewrite Forall_forall in R3. destruct (R3 _ Hin) as [Hl _]. cbn [fst snd] in Hl.
  rewrite Hc, lookup_number_from in Hl. unfold nth_written. exact Hl.
Qed.

(* ------------------------------------------------------------ what the writer emits *)

Lemma slice_length : forall (p : bytes) s e, 0 <= s <= e -> e <= blen p -> blen (slice p s e) = e - s.
Proof.
  intros p s e Hs He. unfold slice, blen in *. rewrite firstn_length, skipn_length. lia.
Qed.

Theorem send_change_spec : forall rid f sn p, frag_size_ok f -> payload_ok p ->
  (blen p <= f -> send_change rid f sn p = Ok [WData rid sn p]) /\
  (f < blen p ->
     exists frs, send_change rid f sn p = Ok (map WFrag frs) /\
       Z.of_nat (length frs) = div_ceil (blen p) f /\
       concat (map fr_data frs) = p /\
       forall k fr, nth_error frs k = Some fr ->
         fr_rid fr = rid /\ fr_sn fr = sn /\ fr_start fr = Z.of_nat k + 1 /\ fr_nsub fr = 1 /\
         fr_fsize fr = f /\ fr_dsize fr = blen p /\
         blen (fr_data fr) = Z.min f (blen p - Z.of_nat k * f)).
Proof.
  intros rid f sn p Hf Hp. pose proof (blen_nonneg p) as Hl. destruct Hf as [Hf1 Hf2].
  unfold send_change. destruct (Z.eqb_spec f 0); [lia|].
  pose proof (div_ceil_gt1 (blen p) f Hl Hf1) as Hgt. split.
  - intros Hle. destruct (Z.ltb_spec 1 (div_ceil (blen p) f)); [lia|reflexivity].
  - intros Hlt. destruct (Z.ltb_spec 1 (div_ceil (blen p) f)); [|lia].
    exists (map (fun i => mk_data_frag rid sn p f i) (zseq (div_ceil (blen p) f))).
    split; [rewrite map_map; reflexivity|].
    pose proof (n_bounds f p (conj Hf1 Hf2) Hp) as Hn.
    split; [unfold zseq; rewrite !map_length, seq_length; lia|]. split.
    + rewrite map_map. cbn [mk_data_frag fr_data]. apply concat_frags. exact Hf1.
    + intros k fr Hk. unfold zseq in Hk. rewrite map_map in Hk.
      assert (Hklt : (k < Z.to_nat (div_ceil (blen p) f))%nat).
      { assert (Hx : nth_error (map (fun x => mk_data_frag rid sn p f (Z.of_nat x)) (seq 0 (Z.to_nat (div_ceil (blen p) f)))) k <> None) by congruence.
        apply nth_error_Some in Hx. rewrite map_length, seq_length in Hx. exact Hx. }
      rewrite nth_error_map in Hk. rewrite nth_error_nth' with (d := 0%nat) in Hk by (rewrite seq_length; exact Hklt).
      rewrite seq_nth in Hk by exact Hklt. cbn [option_map Nat.add] in Hk. inversion Hk; subst fr.
      pose proof (gfrag_fields f rid sn p (conj Hf1 Hf2) Hp (Z.of_nat k) ltac:(lia)) as (A & B & C & D & E & F & G).
      unfold gfrag in *. repeat split; try assumption.
      rewrite G.
      assert (Hkf : Z.of_nat k * f < blen p).
      { destruct (div_ceil_bounds (blen p) f Hl Hf1) as [Hb|[Hb1 Hb2]]; [|lia].
        assert (Z.of_nat k * f <= (div_ceil (blen p) f - 1) * f) by (apply Z.mul_le_mono_nonneg_r; lia). lia. }
      rewrite slice_length; lia.
Qed.

(* expected fragment count on the reader side = ceil(len / f), the least n with n * f >= len *)
Theorem expected_count_is_ceil : forall rid f sn p i, frag_size_ok f -> payload_ok p ->
  0 <= i < div_ceil (blen p) f ->
  total_fragments_expected (mk_data_frag rid sn p f i) = Ok (div_ceil (blen p) f) /\
  blen p <= div_ceil (blen p) f * f /\ (div_ceil (blen p) f - 1) * f < blen p.
Proof.
  intros rid f sn p i Hf Hp Hi. split; [apply (gfrag_expected f rid sn p Hf Hp i Hi)|].
  destruct Hf as [Hf1 Hf2]. pose proof (blen_nonneg p).
  destruct (div_ceil_bounds (blen p) f ltac:(lia) Hf1) as [Hb|[Hb1 Hb2]]; lia.
Qed.


(* ------------------------------------------------------------ the oracle decides the statement *)

Lemma sorted_lt_trans : forall l a b, a < b -> StronglySorted Z.lt (b :: l) -> StronglySorted Z.lt (a :: l).
Proof.
  intros l a b Hab H. inversion H as [|? ? Hs Hall]; subst. constructor; [exact Hs|].
  eapply Forall_impl; [|exact Hall]. intros x Hx. cbn beta in Hx. lia.
Qed.

Theorem identicalb_sound : forall ws ch prev,
  identicalb ws prev ch = true <->
  (StronglySorted Z.lt (prev :: map fst ch) /\
   forall sn d, In (sn, d) ch -> nth_written ws sn = Some d).
Proof.
  intros ws ch. induction ch as [|[sn d] t IH]; intros prev; cbn [identicalb map fst].
  - split; [intros _|reflexivity]. split; [repeat constructor|intros ? ? []].
  - rewrite !andb_true_iff, IH, Z.ltb_lt. split.
    + intros [[Hlt Hm] [Hs Hall]]. split.
      * constructor; [exact Hs|]. constructor; [exact Hlt|].
        inversion Hs as [|? ? _ Hf]; subst. eapply Forall_impl; [|exact Hf]. intros x Hx. cbn beta in Hx. lia.
      * intros sn' d' [Heq|Hin]; [|apply Hall; exact Hin]. inversion Heq; subst.
        destruct (nth_written ws sn') as [p|]; [|discriminate]. apply bytes_eqb_eq in Hm. congruence.
    + intros [Hs Hall]. inversion Hs as [|? ? Hs' Hf]; subst. inversion Hf as [|? ? Hlt Hf']; subst.
      split; [split; [exact Hlt|]|split; [exact Hs'|]].
      * rewrite (Hall sn d (or_introl eq_refl)). apply bytes_eqb_eq. reflexivity.
      * intros sn' d' Hin. apply Hall. right. exact Hin.
Qed.


(* ------------------------------------------------------------ deliveries leave the counters alone *)

Definition same_ctrl (r r' : rstate) : Prop :=
  r_rel r' = r_rel r /\ r_last r' = r_last r /\ r_must r' = r_must r /\ r_hbcount r' = r_hbcount r /\
  r_ackcount r' = r_ackcount r /\ r_nfcount r' = r_nfcount r.

Lemma same_ctrl_refl : forall r, same_ctrl r r.
Proof. intros r. repeat split. Qed.
Lemma same_ctrl_trans : forall a b c, same_ctrl a b -> same_ctrl b c -> same_ctrl a c.
Proof. unfold same_ctrl. intros a b c H1 H2. intuition congruence. Qed.

Lemma r_on_data_ctrl : forall r sn p, same_ctrl r (r_on_data r sn p).
Proof.
  intros r sn p. unfold r_on_data, same_ctrl. destruct (sn =? i64_max); [auto 10|].
  destruct (r_rel r) eqn:E.
  - destruct (sn =? _); cbn [r_set received_change_set r_nfcount r_rel r_last r_must r_hbcount r_ackcount]; auto 10.
  - destruct (_ <=? sn); cbn [r_set received_change_set r_nfcount r_rel r_last r_must r_hbcount r_ackcount]; auto 10.
Qed.

Lemma r_on_frag_ctrl : forall r fr r', r_on_frag r fr = Ok r' -> same_ctrl r r'.
Proof.
  intros r fr r' H. unfold r_on_frag in H.
  destruct ((fr_fsize fr =? 0) || _); [inversion H; apply same_ctrl_refl|].
  destruct (_ <? fr_nsub fr); [inversion H; apply same_ctrl_refl|].
  destruct (reconstruct _ (fr_sn fr)) as [[[d|] b]|e|e]; cbn [bind fst snd] in H; try discriminate; inversion H; subst.
  - eapply same_ctrl_trans; [|apply r_on_data_ctrl]. repeat split.
  - repeat split.
Qed.

Lemma r_deliver_ctrl : forall r w r', r_deliver r w = Ok r' -> same_ctrl r r'.
Proof.
  intros r w r' E. destruct w as [rid s q|fr|s]; cbn [r_deliver] in E.
  - inversion E; subst. apply r_on_data_ctrl.
  - apply (r_on_frag_ctrl r fr r' E).
  - inversion E; subst. apply same_ctrl_refl.
Qed.

Lemma r_deliver_all_ctrl : forall ws r r', r_deliver_all r ws = Ok r' -> same_ctrl r r'.
Proof.
  induction ws as [|w ws IH]; intros r r' H; cbn [r_deliver_all] in H.
  - inversion H; subst. apply same_ctrl_refl.
  - destruct (r_deliver r w) as [r1|e|e] eqn:E; try discriminate. cbn [bind] in H.
    eapply same_ctrl_trans; [apply (r_deliver_ctrl r w r1 E)|apply (IH r1 r' H)].
Qed.

Lemma r_on_data_changes : forall r s q, incl (r_changes r) (r_changes (r_on_data r s q)).
Proof.
  intros r s q c Hc. unfold r_on_data. destruct (s =? i64_max); [exact Hc|].
  destruct (r_rel r); [destruct (s =? _)|destruct (_ <=? s)];
    cbn [r_set received_change_set r_changes]; try exact Hc; apply in_app_iff; left; exact Hc.
Qed.

Lemma r_deliver_mono : forall r w r', r_deliver r w = Ok r' -> incl (r_changes r) (r_changes r').
Proof.
  intros r w r' E. destruct w as [rid s q|fr|s]; cbn [r_deliver] in E.
  - inversion E; subst. apply r_on_data_changes.
  - unfold r_on_frag in E. destruct ((fr_fsize fr =? 0) || _); [inversion E; apply incl_refl|].
    destruct (_ <? fr_nsub fr); [inversion E; apply incl_refl|].
    destruct (reconstruct _ _) as [[[d|] b]|e|e]; cbn [bind fst snd] in E; try discriminate;
      inversion E; subst.
    + intros c Hc. apply r_on_data_changes. cbn [r_set r_changes]. exact Hc.
    + cbn [r_set r_changes]. apply incl_refl.
  - inversion E; subst. apply incl_refl.
Qed.

Lemma r_deliver_all_mono : forall ws r r', r_deliver_all r ws = Ok r' -> incl (r_changes r) (r_changes r').
Proof.
  induction ws as [|w ws IH]; intros r r' H; cbn [r_deliver_all] in H.
  - inversion H; subst. apply incl_refl.
  - destruct (r_deliver r w) as [r1|e|e] eqn:E; try discriminate. cbn [bind] in H.
    eapply incl_tran; [apply (r_deliver_mono r w r1 E)|apply (IH r1 r' H)].
Qed.

Lemma r_on_data_rel_expected : forall r sn p, r_rel r = true -> sn = available_changes_max r + 1 ->
  sn <> i64_max -> r_changes (r_on_data r sn p) = r_changes r ++ [(sn, p)].
Proof.
  intros r sn p Hrel Hs Hmax. unfold r_on_data. destruct (Z.eqb_spec sn i64_max); [contradiction|].
  rewrite Hrel. rewrite <- Hs, Z.eqb_refl. reflexivity.
Qed.

Lemma r_on_data_rel_other : forall r sn p, r_rel r = true -> sn <> available_changes_max r + 1 ->
  r_on_data r sn p = r.
Proof.
  intros r sn p Hrel Hs. unfold r_on_data. destruct (sn =? i64_max); [reflexivity|]. rewrite Hrel.
  destruct (Z.eqb_spec sn (available_changes_max r + 1)); [contradiction|reflexivity].
Qed.

(* ------------------------------------------------------------ complete set => delivered (RELIABLE reader) *)

Lemma present_incl : forall b1 b2 sn k, (forall x, In x b1 -> In x b2) -> present b1 sn k -> present b2 sn k.
Proof. intros b1 b2 sn k H (x & Hx & Hs & Hk). exists x. auto. Qed.

Lemma complete_incl : forall f b1 b2 sn p, (forall x, In x b1 -> In x b2) ->
  complete f b1 sn p -> complete f b2 sn p.
Proof. intros f b1 b2 sn p H Hc i Hi. apply (present_incl b1 b2 sn _ H). apply Hc. exact Hi. Qed.

Section Waiting.
  Variables (f : Z) (ch : list (Z * bytes)) (sn : Z) (p : bytes).
  Hypothesis Hf : frag_size_ok f.
  Hypothesis Hch : history_ok ch.
  Hypothesis Hlk : lookup sn ch = Some p.
  Hypothesis Hsnmax : sn < i64_max.
  Let n := div_ceil (blen p) f.

  Variable I : Z -> Prop.     (* the fragment numbers (1-based) we keep track of *)
  Variable keep : bool.       (* also track that the buffer only holds fragments of sn *)

  Local Notation only_sn := (only_sn sn).

  Definition covered (buf : list frag) (ws : list wire) : Prop :=
    forall k, 1 <= k <= n -> I k ->
      present buf sn k \/ exists rid, In (WFrag (mk_data_frag rid sn p f (k - 1))) ws.

  (* either the sample has been delivered, or the reader still expects it, holds an incomplete set,
     and every tracked fragment is either buffered or still to come *)
  Definition waiting (r : rstate) (ws : list wire) : Prop :=
    rinv f ch r /\ r_rel r = true /\
    (In (sn, p) (r_changes r) \/
     (available_changes_max r + 1 = sn /\ ~ complete f (r_buf r) sn p /\ covered (r_buf r) ws /\
      (keep = true -> only_sn (r_buf r)))).

  Lemma deliver_step : forall r w ws, waiting r (w :: ws) -> wire_genuine f ch w ->
    exists r', r_deliver r w = Ok r' /\ waiting r' ws.
  Proof.
    intros r w ws (Hr & Hrel & Hst) Hg.
    destruct (r_deliver_inv f ch r w Hf Hch Hr Hg) as (r' & E & Hr'). exists r'. split; [exact E|].
    pose proof (r_deliver_ctrl r w r' E) as (Hrel' & _).
    pose proof (r_deliver_mono r w r' E) as Hmono.
    split; [exact Hr'|]. split; [congruence|].
    destruct Hst as [Hdel|(Hexp & Hinc & Hcov & Honly)]; [left; apply Hmono; exact Hdel|].
    destruct w as [rid s q|fr|s]; cbn [r_deliver wire_genuine] in *.
    - (* DATA *)
      inversion E; subst r'. unfold r_on_data.
      destruct (Z.eqb_spec s i64_max) as [Em|Em].
      { right. split; [exact Hexp|]. split; [exact Hinc|]. split; [|exact Honly].
        intros k Hk HI. destruct (Hcov k Hk HI) as [H|(rid' & [H|H])]; [left; exact H|discriminate|right; eauto]. }
      rewrite Hrel.
      destruct (Z.eqb_spec s (available_changes_max r + 1)) as [Es|Es].
      + left. assert (Hs : s = sn) by lia. assert (q = p) by (rewrite Hs in Hg; congruence).
        cbn [r_set received_change_set r_changes]. apply in_app_iff. right. left. f_equal; assumption.
      + right. split; [exact Hexp|]. split; [exact Hinc|]. split; [|exact Honly].
        intros k Hk HI. destruct (Hcov k Hk HI) as [H|(rid' & [H|H])]; [left; exact H|discriminate|right; eauto].
    - (* DATA_FRAG *)
      pose proof Hg as (rid0 & q & i0 & Hl & Hi0 & Hfr).
      destruct (Z.eq_dec (fr_sn fr) i64_max) as [Emax|Emax].
      { (* ignored *)
        assert (r' = r).
        { unfold r_on_frag in E. rewrite Emax, Z.eqb_refl, orb_true_r in E. congruence. }
        subst r'. right. split; [exact Hexp|]. split; [exact Hinc|]. split; [|exact Honly].
        intros k Hk HI. destruct (Hcov k Hk HI) as [H|(rid' & [H|H])]; [left; exact H| |right; eauto].
        exfalso. assert (fr_sn fr = sn) by (replace fr with (mk_data_frag rid' sn p f (k - 1)) by congruence; apply mk_data_frag_sn). lia. }
      pose proof (r_on_frag_cases f ch r fr q Hf Hch Hr Hg Hl Emax) as (Hsub & Hsup & Hkey & Hnd & Hgen & Hcase).
      assert (Hacc : frag_accept r fr = (fr_sn fr =? sn)).
      { unfold frag_accept. rewrite Hrel, Hexp. reflexivity. }
      set (buf1 := frag_buf1 r fr) in *.
      destruct (Z.eqb_spec (fr_sn fr) sn) as [Es|Es].
      + (* a fragment of the awaited sample: buffered *)
        rewrite Es in *. assert (q = p) by congruence. subst q.
        destruct Hcase as [[Hc Ec]|[Hc Ec]]; rewrite Ec in E; inversion E; subst r'.
        * left. rewrite r_on_data_rel_expected; [|exact Hrel|symmetry; exact Hexp|lia].
          apply in_app_iff. right. left. reflexivity.
        * right. cbn [r_set r_buf r_first r_highest available_changes_max].
          split; [exact Hexp|]. split; [exact Hc|]. split.
          -- intros k Hk HI. destruct (Hcov k Hk HI) as [H|(rid' & [H|H])].
             ++ left. apply (present_incl (r_buf r) buf1 sn k Hsup H).
             ++ left. injection H as H.
                pose proof (Hkey Hacc) as Hk1. apply in_map_iff in Hk1 as (y & Hy & Hyin).
                unfold frag_key in Hy. injection Hy as Hy1 Hy2.
                pose proof (gfrag_fields f rid' sn p Hf (Hch _ _ Hlk) (k - 1) ltac:(fold n; lia)) as (_ & A & B & _).
                unfold gfrag in A, B. rewrite H in Hy1, Hy2. rewrite A in Hy1. rewrite B in Hy2.
                exists y. split; [exact Hyin|]. split; [exact Hy1|lia].
             ++ right. eauto.
          -- intros Hk x Hx. destruct (Hsub x Hx) as [Hx'|Hx']; [apply (Honly Hk x Hx')|subst; exact Es].
      + (* a fragment of another sample: not buffered; at most some other sample's stale set is dropped *)
        assert (Hb1 : buf1 = r_buf r).
        { unfold buf1, frag_buf1. rewrite Hacc. destruct (Z.eqb_spec (fr_sn fr) sn); [contradiction|reflexivity]. }
        destruct Hcase as [[Hc Ec]|[Hc Ec]]; rewrite Ec in E; inversion E; subst r'.
        * right. rewrite r_on_data_rel_other; [|exact Hrel|change (fr_sn fr <> available_changes_max r + 1); lia].
          cbn [r_set r_buf r_first r_highest available_changes_max]. rewrite Hb1.
          split; [exact Hexp|]. split; [|split].
          -- intros Hc'. apply Hinc.
             apply (complete_incl f (filter (fun x => negb (has_sn (fr_sn fr) x)) (r_buf r)) (r_buf r) sn p); [|exact Hc'].
             intros x Hx. apply filter_In in Hx. tauto.
          -- intros k Hk HI. destruct (Hcov k Hk HI) as [(x & Hx & Hs & Hst)|(rid' & [H|H])].
             ++ left. exists x. split; [|auto]. apply filter_In. split; [exact Hx|].
                unfold has_sn. rewrite Hs. destruct (Z.eqb_spec sn (fr_sn fr)); [congruence|reflexivity].
             ++ exfalso. apply Es. replace fr with (mk_data_frag rid' sn p f (k - 1)) by congruence. apply mk_data_frag_sn.
             ++ right. eauto.
          -- intros Hk x Hx. apply filter_In in Hx. apply (Honly Hk). tauto.
        * right. cbn [r_set r_buf r_first r_highest available_changes_max]. rewrite Hb1.
          split; [exact Hexp|]. split; [exact Hinc|]. split; [|exact Honly].
          intros k Hk HI. destruct (Hcov k Hk HI) as [H|(rid' & [H|H])].
          -- left. exact H.
          -- exfalso. apply Es. replace fr with (mk_data_frag rid' sn p f (k - 1)) by congruence. apply mk_data_frag_sn.
          -- right. eauto.
    - inversion E; subst r'. right. split; [exact Hexp|]. split; [exact Hinc|]. split; [|exact Honly].
      intros k Hk HI. destruct (Hcov k Hk HI) as [H|(rid' & [H|H])]; [left; exact H|discriminate|right; eauto].
  Qed.

  Lemma deliver_all_waiting : forall ws r, waiting r ws -> Forall (wire_genuine f ch) ws ->
    exists r', r_deliver_all r ws = Ok r' /\ waiting r' [].
  Proof.
    induction ws as [|w ws IH]; intros r Hw Hg; cbn [r_deliver_all].
    - exists r. split; [reflexivity|exact Hw].
    - inversion Hg as [|? ? Hg1 Hg2]; subst.
      destruct (deliver_step r w ws Hw Hg1) as (r1 & E & Hw1). rewrite E. cbn [bind].
      apply IH; assumption.
  Qed.

  Lemma waiting_end : forall r, waiting r [] ->
    In (sn, p) (r_changes r) \/
    (available_changes_max r + 1 = sn /\ ~ complete f (r_buf r) sn p /\
     (forall k, 1 <= k <= n -> I k -> present (r_buf r) sn k) /\ (keep = true -> only_sn (r_buf r))).
  Proof.
    intros r (_ & _ & [H|(A & B & C & D)]); [left; exact H|right].
    split; [exact A|]. split; [exact B|]. split; [|exact D].
    intros k Hk HI. destruct (C k Hk HI) as [H|(rid & [])]. exact H.
  Qed.
End Waiting.

(* RELIABLE reader that expects sample sn (and holds an incomplete or empty set of its fragments):
   once every fragment has arrived — in ANY order, with ANY duplication, addressed to whichever reader,
   interleaved with ANY other genuine traffic of the writer — the reader holds (sn, p) *)
Theorem complete_set_is_delivered : forall f ch sn p r ws,
  frag_size_ok f -> history_ok ch -> lookup sn ch = Some p -> sn < i64_max ->
  rinv f ch r -> r_rel r = true -> available_changes_max r + 1 = sn ->
  ~ complete f (r_buf r) sn p ->
  Forall (wire_genuine f ch) ws ->
  (forall i, 0 <= i < div_ceil (blen p) f -> exists rid, In (WFrag (mk_data_frag rid sn p f i)) ws) ->
  exists r', r_deliver_all r ws = Ok r' /\ In (sn, p) (r_changes r').
Proof.
  intros f ch sn p r ws Hf Hch Hlk Hmax Hr Hrel Hexp Hinc Hg Hall.
  assert (Hw : waiting f ch sn p (fun _ => True) false r ws).
  { split; [exact Hr|]. split; [exact Hrel|]. right. split; [exact Hexp|]. split; [exact Hinc|].
    split; [|discriminate]. intros k Hk _. right. apply Hall. lia. }
  destruct (deliver_all_waiting f ch sn p Hf Hch Hlk Hmax _ _ ws r Hw Hg) as (r' & E & Hw').
  exists r'. split; [exact E|].
  destruct (waiting_end f ch sn p _ _ r' Hw') as [Hdel|(_ & Hinc' & Hcov & _)]; [exact Hdel|].
  exfalso. apply Hinc'. intros i Hi. apply Hcov; [lia|exact I].
Qed.

(* ------------------------------------------------------------ NACK_FRAG numbering *)

Lemma nack_requests_in : forall base set k, In k (nack_requests base set) <-> In k (base :: set).
Proof.
  intros base set k. unfold nack_requests. cbn [In]. rewrite filter_In. split.
  - intros [H|[H _]]; auto.
  - intros [H|H]; [auto|]. destruct (Z.eq_dec k base) as [E|E]; [auto|].
    right. split; [exact H|]. destruct (Z.eqb_spec k base); [contradiction|reflexivity].
Qed.

(* what the writer answers to a NACK_FRAG that passes the duplicate filter: exactly the requested
   fragments — wire number k for every requested k in 1..total (the base once) *)
Theorem nackfrag_resends_requested : forall w count sn base set p,
  frag_size_ok (w_f w) -> payload_ok p -> w_rel w = true -> w_last_nf w < count ->
  lookup sn (w_changes w) = Some p ->
  exists ws, w_on_nack_frag w count sn base set = Ok (set_last_nf w count, ws) /\
    ws = map (fun k => WFrag (mk_data_frag 1 sn p (w_f w) (k - 1)))
             (filter (fun k => (1 <=? k) && (k <=? div_ceil (blen p) (w_f w))) (nack_requests base set)) /\
    (forall fr, In (WFrag fr) ws ->
       exists k, In k (base :: set) /\ 1 <= k <= div_ceil (blen p) (w_f w) /\
                 fr = mk_data_frag 1 sn p (w_f w) (k - 1) /\ fr_start fr = k) /\
    (forall k, In k (base :: set) -> 1 <= k <= div_ceil (blen p) (w_f w) ->
       In (WFrag (mk_data_frag 1 sn p (w_f w) (k - 1))) ws).
Proof.
  intros w count sn base set p Hf Hp Hrel Hc Hl.
  unfold w_on_nack_frag. rewrite Hrel. replace (w_last_nf w <? count) with true by (symmetry; apply Z.ltb_lt; exact Hc).
  cbn [andb]. rewrite Hl. destruct (Z.eqb_spec (w_f w) 0) as [E|E]; [destruct Hf; lia|].
  eexists. split; [reflexivity|]. split; [reflexivity|].
  remember (nack_requests base set) as L eqn:EL. split.
  - intros fr Hin. apply in_map_iff in Hin as (k & Hk & Hin). apply filter_In in Hin as [Hin Hlt].
    apply andb_true_iff in Hlt as [H1 H2]. apply Z.leb_le in H1, H2.
    exists k. split; [subst L; apply nack_requests_in; exact Hin|]. split; [lia|].
    injection Hk as Hk. split; [symmetry; exact Hk|]. subst fr.
    pose proof (gfrag_fields (w_f w) 1 sn p Hf Hp (k - 1) ltac:(lia)) as (_ & _ & A & _). unfold gfrag in A. lia.
  - intros k Hk Hr. apply in_map_iff. exists k. split; [reflexivity|]. apply filter_In.
    split; [subst L; apply nack_requests_in; exact Hk|].
    apply andb_true_iff. split; apply Z.leb_le; lia.
Qed.

(* the fragment resent for requested number n is fragment n — for every 1 <= n <= total, the last included *)
Theorem nackfrag_resends_fragment_n : forall w count sn n p,
  frag_size_ok (w_f w) -> payload_ok p -> w_rel w = true -> w_last_nf w < count ->
  lookup sn (w_changes w) = Some p -> 1 <= n <= div_ceil (blen p) (w_f w) ->
  w_on_nack_frag w count sn n [n] =
    Ok (set_last_nf w count, [WFrag (mk_data_frag 1 sn p (w_f w) (n - 1))]) /\
  fr_start (mk_data_frag 1 sn p (w_f w) (n - 1)) = n.
Proof.
  intros w count sn n p Hf Hp Hrel Hc Hl Hn.
  destruct (nackfrag_resends_requested w count sn n [n] p Hf Hp Hrel Hc Hl) as (ws & E & Hws & _).
  rewrite E, Hws. unfold nack_requests. cbn [filter]. rewrite Z.eqb_refl. cbn [negb filter].
  replace ((1 <=? n) && (n <=? div_ceil (blen p) (w_f w))) with true
    by (symmetry; apply andb_true_iff; split; apply Z.leb_le; lia).
  cbn [map]. split; [reflexivity|].
  pose proof (gfrag_fields (w_f w) 1 sn p Hf Hp (n - 1) ltac:(lia)) as (_ & _ & A & _). unfold gfrag in A. lia.
Qed.

(* ------------------------------------------------------------ NACK_FRAG / ACKNACK counts are fresh *)

Lemma wrap_i32_small : forall z, i32_min <= z <= i32_max -> wrap_i32 z = z.
Proof.
  intros z H. unfold wrap_i32, i32_min, i32_max, two32 in *.
  rewrite Z.mod_small by lia. lia.
Qed.

Lemma gen_nackfrag_count : forall r nf, gen_nackfrag r = Ok (Some nf) -> n_count nf = r_nfcount r.
Proof.
  intros r nf H. unfold gen_nackfrag in H.
  destruct (find _ (missing256 r)) as [s|]; [|discriminate].
  destruct (find (has_sn s) (r_buf r)) as [fr|]; [|discriminate].
  destruct (fr_fsize fr =? 0); [discriminate|]. inversion H; subst. reflexivity.
Qed.

(* a heartbeat either produces no reply and changes no counter, or produces a reply whose ACKNACK and
   NACK_FRAG carry the freshly incremented counters *)
Lemma r_on_heartbeat_counts : forall r first last count final r' x,
  r_on_heartbeat r first last count final = Ok (r', x) ->
  (x = None /\ r_ackcount r' = r_ackcount r /\ r_nfcount r' = r_nfcount r) \/
  (exists a nfo, x = Some (a, nfo) /\
     r_ackcount r' = wrap_i32 (r_ackcount r + 1) /\ r_nfcount r' = wrap_i32 (r_nfcount r + 1) /\
     a_count a = r_ackcount r' /\ (forall nf, nfo = Some nf -> n_count nf = r_nfcount r')).
Proof.
  intros r first last count final r' x H. unfold r_on_heartbeat in H.
  destruct (first <=? 0); [inversion H; subst; left; auto|].
  destruct (r_hbcount r <? count).
  2:{ inversion H; subst. left. auto. }
  unfold r_write_message in H. cbn [r_must] in H.
  destruct (negb final || _).
  2:{ inversion H; subst. left. auto. }
  match type of H with context [gen_nackfrag ?R] => destruct (gen_nackfrag R) as [nfo|e|e] eqn:E end; try discriminate.
  cbn [bind] in H. inversion H; subst. right. eexists. eexists. split; [reflexivity|].
  cbn [r_ackcount r_nfcount a_count]. repeat split.
  intros nf ->. apply gen_nackfrag_count in E. cbn [r_nfcount] in E. exact E.
Qed.


Lemma respond_inv2 : forall s x s' o, respond s x = Ok (s', o) ->
  exists w' ws, x = Ok (w', ws) /\ r_deliver_all (s_r s) ws = Ok (s_r s') /\ s_w s' = w' /\
                s_reply s' = s_reply s /\ o = BResp ws (nchanges (s_r s')).
Proof.
  intros s x s' o H. unfold respond in H. destruct x as [[w' ws]|e|e]; try discriminate.
  cbn [bind fst snd] in H. destruct (r_deliver_all (s_r s) ws) as [r1|e|e] eqn:E; try discriminate.
  cbn [bind] in H. inversion H; subst. exists w', ws. cbn [s_r s_w s_reply]. auto.
Qed.

Lemma w_on_nack_frag_last : forall w count sn base set w' ws,
  w_on_nack_frag w count sn base set = Ok (w', ws) ->
  w_last_nf w' = w_last_nf w \/ (w_last_nf w < count /\ w_last_nf w' = count).
Proof.
  intros w count sn base set w' ws H. unfold w_on_nack_frag in H.
  destruct (Z.ltb_spec (w_last_nf w) count) as [E|E].
  - destruct (w_rel w); cbn [andb] in H; [|inversion H; auto].
    destruct (lookup sn (w_changes w)); [destruct (w_f w =? 0); [discriminate|]|];
      inversion H; subst; cbn [set_last_nf w_last_nf]; auto.
  - rewrite andb_false_r in H. inversion H; auto.
Qed.

Lemma w_on_acknack_last : forall w count base set w' ws,
  w_on_acknack w count base set = Ok (w', ws) ->
  w_last_an w' = w_last_an w \/ (w_last_an w < count /\ w_last_an w' = count).
Proof.
  intros w count base set w' ws H. unfold w_on_acknack in H.
  destruct (Z.ltb_spec (w_last_an w) count) as [E|E].
  - destruct (w_rel w); cbn [andb] in H; [|inversion H; auto].
    destruct (ack_resp w set); try discriminate. cbn [bind] in H. inversion H; subst.
    cbn [set_last_an w_last_an]. auto.
  - rewrite andb_false_r in H. inversion H; auto.
Qed.

Lemma step_cinv : forall N s o s' b, cinv N s -> N < i32_max -> no_forged o -> step s o = Ok (s', b) ->
  cinv (N + 1) s'.
Proof.
  intros N s o s' b [C1 C2 [C3 C4] C5] HN Hno H.
  assert (Hdel : forall w' ws, r_deliver_all (s_r s) ws = Ok (s_r s') -> s_w s' = w' -> s_reply s' = s_reply s ->
            0 <= w_last_nf w' <= r_nfcount (s_r s) -> 0 <= w_last_an w' <= r_ackcount (s_r s) -> cinv (N + 1) s').
  { intros w' ws Hd Hw Hrp Hn Ha. apply r_deliver_all_ctrl in Hd as (_ & _ & _ & _ & Ea & En).
    constructor; rewrite ?Hw, ?Ea, ?En, ?Hrp; try assumption; try lia; try exact C5. }
  destruct o as [p|sn idx which| fr |first last count final| |count sn base set| ]; cbn [step no_forged] in *.
  - unfold w_write in H. destruct (send_change 1 _ _ p); try discriminate. cbn [bind] in H.
    destruct (if 2 <=? _ then _ else _); try discriminate. cbn [bind fst snd] in H. inversion H; subst.
    constructor; cbn [s_w s_r s_reply set_changes w_last_nf w_last_an]; try assumption. lia.
  - destruct (datagram_of (s_w s) sn idx which) as [w|].
    + destruct (r_deliver (s_r s) w) as [r1|e|e] eqn:E; try discriminate. cbn [bind] in H. inversion H; subst.
      apply (Hdel (s_w s) [w]); cbn [s_r s_w s_reply r_deliver_all]; try reflexivity; try assumption.
      rewrite E. reflexivity.
    + inversion H; subst. constructor; try assumption. lia.
  - destruct (r_on_frag (s_r s) fr) as [r1|e|e] eqn:E; try discriminate. cbn [bind] in H. inversion H; subst.
    apply (Hdel (s_w s) [WFrag fr]); cbn [s_r s_w s_reply r_deliver_all r_deliver]; try reflexivity; try assumption.
    rewrite E. reflexivity.
  - destruct (r_on_heartbeat (s_r s) first last count final) as [[r' x]|e|e] eqn:E; try discriminate.
    cbn [bind fst snd] in H. inversion H; subst. cbn [s_w s_r s_reply].
    destruct (r_on_heartbeat_counts _ _ _ _ _ _ _ E) as [(-> & Ea & En)|(a & nfo & -> & Ea & En & Hac & Hnc)].
    + constructor; cbn [s_w s_r s_reply]; rewrite ?Ea, ?En; try assumption. lia.
    + rewrite wrap_i32_small in Ea, En by (unfold i32_min, i32_max in *; lia).
      constructor; cbn [s_w s_r s_reply]; rewrite ?Ea, ?En; try lia.
      intros a' nfo' Hx. inversion Hx; subst. split; [lia|]. intros nf Hnf. rewrite (Hnc nf Hnf). lia.
  - destruct (s_reply s) as [[a [nf|]]|] eqn:Er;
      apply respond_inv2 in H as (w' & ws & Hx & Hd & Hw & Hrp & _).
    + destruct (C5 a (Some nf) eq_refl) as [_ Hn]. specialize (Hn nf eq_refl).
      pose proof (w_on_nack_frag_spec _ _ _ _ _ _ _ Hx) as (_ & _ & _ & Ean & _).
      apply (Hdel w' ws Hd Hw); [rewrite Hrp; exact Er| |rewrite Ean; exact C2].
      destruct (w_on_nack_frag_last _ _ _ _ _ _ _ Hx) as [E|[E1 E2]]; lia.
    + injection Hx as A B. subst w' ws. apply (Hdel (s_w s) [] Hd Hw); [rewrite Hrp; exact Er|exact C1|exact C2].
    + injection Hx as A B. subst w' ws. apply (Hdel (s_w s) [] Hd Hw); [rewrite Hrp; exact Er|exact C1|exact C2].
  - destruct Hno.
  - destruct (s_reply s) as [[a nfo]|] eqn:Er;
      apply respond_inv2 in H as (w' & ws & Hx & Hd & Hw & Hrp & _).
    + destruct (C5 a nfo eq_refl) as [Ha _].
      pose proof (w_on_acknack_spec _ _ _ _ _ _ Hx) as (_ & _ & _ & Enf & _).
      apply (Hdel w' ws Hd Hw); [rewrite Hrp; exact Er|rewrite Enf; exact C1|].
      destruct (w_on_acknack_last _ _ _ _ _ _ Hx) as [E|[E1 E2]]; lia.
    + injection Hx as A B. subst w' ws. apply (Hdel (s_w s) [] Hd Hw); [rewrite Hrp; exact Er|exact C1|exact C2].
Qed.

Lemma cinv_init : forall rel nreaders f, cinv 0 (s_init rel nreaders f).
Proof. intros. constructor; cbn; try lia. intros; discriminate. Qed.

Lemma run_cinv : forall ops N s s' obs, cinv N s -> N + Z.of_nat (length ops) <= i32_max ->
  Forall no_forged ops -> run s ops = Ok (s', obs) -> cinv (N + Z.of_nat (length ops)) s'.
Proof.
  induction ops as [|o ops IH]; intros N s s' obs Hc HN Hno H; cbn [run] in H.
  - inversion H; subst. cbn [length]. replace (N + Z.of_nat 0) with N by lia. exact Hc.
  - inversion Hno as [|? ? Hn1 Hn2]; subst.
    destruct (step s o) as [[s1 b]|e|e] eqn:E; try discriminate. cbn [bind fst snd] in H.
    destruct (run s1 ops) as [[s2 obs2]|e|e] eqn:E2; try discriminate. cbn [bind fst snd] in H.
    inversion H; subst. cbn [length] in *.
    replace (N + Z.of_nat (S (length ops))) with ((N + 1) + Z.of_nat (length ops)) by lia.
    apply (IH (N + 1) s1 s' obs2); [|lia|exact Hn2|exact E2].
    apply (step_cinv N s o s1 b Hc ltac:(lia) Hn1 E).
Qed.

(* After ANY history (no forged NACK_FRAGs, fewer than 2^31 - 1 operations): the next heartbeat that
   makes the reader emit a NACK_FRAG gives it a count one above the previous one and strictly above
   everything the writer has seen, so the writer processes it — the first one and every later one *)
Theorem nackfrag_is_processed : forall rel nreaders f ops s obs,
  Forall no_forged ops -> Z.of_nat (length ops) < i32_max ->
  run (s_init rel nreaders f) ops = Ok (s, obs) ->
  forall first last count final s' a nf,
    step s (OHb first last count final) = Ok (s', BReply (Some (a, Some nf))) ->
    n_count nf = r_nfcount (s_r s) + 1 /\ r_nfcount (s_r s') = n_count nf /\
    w_last_nf (s_w s') < n_count nf /\
    (forall sn' p', w_rel (s_w s') = true -> frag_size_ok (w_f (s_w s')) -> payload_ok p' ->
       lookup sn' (w_changes (s_w s')) = Some p' ->
       exists ws, w_on_nack_frag (s_w s') (n_count nf) sn' (n_base nf) (n_set nf)
                  = Ok (set_last_nf (s_w s') (n_count nf), ws) /\
         forall k, In k (n_base nf :: n_set nf) -> 1 <= k <= div_ceil (blen p') (w_f (s_w s')) ->
           In (WFrag (mk_data_frag 1 sn' p' (w_f (s_w s')) (k - 1))) ws).
Proof.
  intros rel nreaders f ops s obs Hno Hlen H first last count final s' a nf Hs.
  pose proof (run_cinv ops 0 _ s obs (cinv_init rel nreaders f) ltac:(lia) Hno H) as [C1 C2 [C3 C4] C5].
  cbn [step] in Hs.
  destruct (r_on_heartbeat (s_r s) first last count final) as [[r' x]|e|e] eqn:E; try discriminate.
  cbn [bind fst snd] in Hs. injection Hs as Hs' Hx. subst s' x. cbn [s_w s_r].
  destruct (r_on_heartbeat_counts _ _ _ _ _ _ _ E) as [(Hn & _)|(a' & nfo & Hx & Ea & En & Hac & Hnc)]; [discriminate|].
  injection Hx as Ha Hnfo. subst a' nfo.
  rewrite wrap_i32_small in En by (unfold i32_min, i32_max in *; lia).
  rewrite (Hnc nf eq_refl), En.
  split; [reflexivity|]. split; [reflexivity|]. split; [lia|].
  intros sn' p' Hrel Hf Hp Hl.
  destruct (nackfrag_resends_requested (s_w s) (r_nfcount (s_r s) + 1) sn' (n_base nf) (n_set nf) p' Hf Hp Hrel ltac:(lia) Hl)
    as (ws & Ew & _ & _ & Hall).
  exists ws. split; [exact Ew|exact Hall].
Qed.

(* ------------------------------------------------------------ no panic *)

Lemma gen_nackfrag_total : forall f ch r, frag_size_ok f -> history_ok ch -> rinv f ch r ->
  exists x, gen_nackfrag r = Ok x.
Proof.
  intros f ch r Hf Hch Hr. unfold gen_nackfrag.
  destruct (find _ (missing256 r)) as [s|] eqn:Es; [|eexists; reflexivity].
  apply find_some in Es as [_ Hex]. apply existsb_exists in Hex as (x & Hx & Hsx).
  destruct (find (has_sn s) (r_buf r)) as [fr|] eqn:Efr.
  2:{ pose proof (find_none _ _ Efr x Hx). congruence. }
  apply find_some in Efr as [Hfr _].
  rewrite (genuine_fsize f ch fr Hf Hch (ri_genuine f ch r Hr fr Hfr)).
  destruct (Z.eqb_spec f 0); [destruct Hf; lia|]. eexists; reflexivity.
Qed.

Lemma r_on_heartbeat_total : forall f ch r first last count final, frag_size_ok f -> history_ok ch ->
  rinv f ch r -> exists r' x, r_on_heartbeat r first last count final = Ok (r', x).
Proof.
  intros f ch r first last count final Hf Hch Hr. unfold r_on_heartbeat.
  destruct (first <=? 0); [eexists; eexists; reflexivity|].
  destruct (r_hbcount r <? count); [|eexists; eexists; reflexivity].
  unfold r_write_message. cbn [r_must]. destruct (negb final || _); [|eexists; eexists; reflexivity].
  match goal with |- context [gen_nackfrag ?R] =>
    destruct (gen_nackfrag_total f ch R Hf Hch) as [x E] end.
  - destruct Hr as [R1 R2 R3 R4]. constructor; cbn [r_buf r_changes r_highest]; assumption.
  - rewrite E. cbn [bind]. eexists; eexists; reflexivity.
Qed.

Lemma ack_resp_total : forall w set, w_f w <> 0 -> exists ws, ack_resp w set = Ok ws.
Proof.
  intros w set Hf. induction set as [|sn t [ws IH]]; cbn [ack_resp]; [eexists; reflexivity|].
  rewrite IH. destruct (lookup sn (w_changes w)) as [p|]; [destruct (0 <? sn)|]; cbn [bind];
    try (eexists; reflexivity).
  destruct (Z.eqb_spec (w_f w) 0); [contradiction|]. cbn [bind]. eexists; reflexivity.
Qed.

Lemma w_on_nack_frag_total : forall w count sn base set, w_f w <> 0 ->
  exists w' ws, w_on_nack_frag w count sn base set = Ok (w', ws).
Proof.
  intros w count sn base set Hf. unfold w_on_nack_frag.
  destruct (w_rel w && _); [|eexists; eexists; reflexivity].
  destruct (lookup sn (w_changes w)); [|eexists; eexists; reflexivity].
  destruct (Z.eqb_spec (w_f w) 0); [contradiction|]. eexists; eexists; reflexivity.
Qed.

Lemma w_on_acknack_total : forall w count base set, w_f w <> 0 ->
  exists w' ws, w_on_acknack w count base set = Ok (w', ws).
Proof.
  intros w count base set Hf. unfold w_on_acknack.
  destruct (w_rel w && _); [|eexists; eexists; reflexivity].
  destruct (ack_resp_total w set Hf) as [ws E]. rewrite E. cbn [bind]. eexists; eexists; reflexivity.
Qed.

Lemma respond_total : forall s x, sinv s ->
  (exists w' ws, x = Ok (w', ws) /\ Forall (wire_genuine (w_f (s_w s)) (w_changes (s_w s))) ws) ->
  exists s' o, respond s x = Ok (s', o).
Proof.
  intros s x [Hf Hh Hr] (w' & ws & -> & Hg). unfold respond. cbn [bind fst snd].
  destruct (r_deliver_all_inv _ _ ws (s_r s) Hf Hh Hr Hg) as (r1 & E & _). rewrite E. cbn [bind].
  eexists; eexists; reflexivity.
Qed.

Lemma step_total : forall s o, sinv s -> op_ok o -> exists s' b, step s o = Ok (s', b).
Proof.
  intros s o Hs Hop. pose proof Hs as [Hf Hh Hr].
  assert (Hf0 : w_f (s_w s) <> 0) by (destruct Hf; lia).
  destruct o as [p|sn idx which| fr |first last count final| |count sn base set| ]; cbn [step op_ok] in *.
  - unfold w_write, send_change. destruct (Z.eqb_spec (w_f (s_w s)) 0); [contradiction|].
    destruct (1 <? div_ceil (blen p) (w_f (s_w s))); cbn [bind]; destruct (2 <=? w_nreaders (s_w s)); cbn [bind fst snd];
      eexists; eexists; reflexivity.
  - destruct (datagram_of (s_w s) sn idx which) as [w|] eqn:E; [|eexists; eexists; reflexivity].
    apply datagram_of_spec in E. destruct (r_deliver_inv _ _ (s_r s) w Hf Hh Hr E) as (r1 & E1 & _).
    rewrite E1. cbn [bind]. eexists; eexists; reflexivity.
  - destruct Hop.
  - destruct (r_on_heartbeat_total _ _ (s_r s) first last count final Hf Hh Hr) as (r' & x & E).
    rewrite E. cbn [bind fst snd]. eexists; eexists; reflexivity.
  - destruct (s_reply s) as [[a [nf|]]|].
    + apply respond_total; [exact Hs|].
      destruct (w_on_nack_frag_total (s_w s) (n_count nf) (n_sn nf) (n_base nf) (n_set nf) Hf0) as (w' & ws & E).
      exists w', ws. split; [exact E|]. apply w_on_nack_frag_spec in E. tauto.
    + apply respond_total; [exact Hs|]. eexists; eexists. split; [reflexivity|constructor].
    + apply respond_total; [exact Hs|]. eexists; eexists. split; [reflexivity|constructor].
  - apply respond_total; [exact Hs|].
    destruct (w_on_nack_frag_total (s_w s) count sn base set Hf0) as (w' & ws & E).
    exists w', ws. split; [exact E|]. apply w_on_nack_frag_spec in E. tauto.
  - destruct (s_reply s) as [[a nfo]|].
    + apply respond_total; [exact Hs|].
      destruct (w_on_acknack_total (s_w s) (a_count a) (a_base a) (a_set a) Hf0) as (w' & ws & E).
      exists w', ws. split; [exact E|]. apply w_on_acknack_spec in E. tauto.
    + apply respond_total; [exact Hs|]. eexists; eexists. split; [reflexivity|constructor].
Qed.

Lemma run_total : forall ops s, sinv s -> Forall op_ok ops -> exists s' obs, run s ops = Ok (s', obs).
Proof.
  induction ops as [|o ops IH]; intros s Hs Hok; cbn [run]; [eexists; eexists; reflexivity|].
  inversion Hok as [|? ? Ho1 Ho2]; subst.
  destruct (step_total s o Hs Ho1) as (s1 & b & E). rewrite E. cbn [bind fst snd].
  destruct (step_inv s o s1 b Hs Ho1 E) as [Hs1 _].
  destruct (IH s1 Hs1 Ho2) as (s2 & obs & E2). rewrite E2. cbn [bind fst snd]. eexists; eexists; reflexivity.
Qed.

(* no history of the fault-schedule language panics (fragment size 1..65535, payloads below 4 GiB, no
   hand-made fragments).  What remains outside: data_max_size_serialized = 0 (the writer divides by it),
   fragment sizes above 65535 (the u16 wire field), hand-made fragments (C06) *)
Theorem run_never_panics : forall rel nreaders f ops,
  frag_size_ok f -> Forall op_ok ops -> exists s obs, run (s_init rel nreaders f) ops = Ok (s, obs).
Proof. intros rel nreaders f ops Hf Hok. apply run_total; [apply sinv_init; exact Hf|exact Hok]. Qed.

(* changes are never taken back *)
Lemma step_mono : forall s o s' b, step s o = Ok (s', b) -> incl (r_changes (s_r s)) (r_changes (s_r s')).
Proof.
  intros s o s' b H.
  destruct o as [p|sn idx which| fr |first last count final| |count sn base set| ]; cbn [step] in H.
  - unfold w_write in H. destruct (send_change 1 _ _ p); try discriminate. cbn [bind] in H.
    destruct (if 2 <=? _ then _ else _); try discriminate. cbn [bind fst snd] in H. inversion H; apply incl_refl.
  - destruct (datagram_of _ _ _ _) as [w|]; [|inversion H; apply incl_refl].
    destruct (r_deliver (s_r s) w) as [r1|e|e] eqn:E; try discriminate. cbn [bind] in H. inversion H; subst.
    apply (r_deliver_mono _ _ _ E).
  - destruct (r_on_frag (s_r s) fr) as [r1|e|e] eqn:E; try discriminate. cbn [bind] in H. inversion H; subst.
    apply (r_deliver_mono (s_r s) (WFrag fr) r1 E).
  - destruct (r_on_heartbeat _ _ _ _ _) as [[r' x]|?|?] eqn:E; try discriminate. cbn [bind fst snd] in H.
    inversion H; subst. cbn [s_r]. apply r_on_heartbeat_spec in E as (_ & E2 & _). rewrite E2. apply incl_refl.
  - destruct (s_reply s) as [[a [nf|]]|]; apply respond_inv2 in H as (w' & ws & _ & Hd & _);
      apply (r_deliver_all_mono _ _ _ Hd).
  - apply respond_inv2 in H as (w' & ws & _ & Hd & _). apply (r_deliver_all_mono _ _ _ Hd).
  - destruct (s_reply s) as [[a nfo]|]; apply respond_inv2 in H as (w' & ws & _ & Hd & _);
      apply (r_deliver_all_mono _ _ _ Hd).
Qed.

Lemma run_mono : forall ops s s' obs, run s ops = Ok (s', obs) -> incl (r_changes (s_r s)) (r_changes (s_r s')).
Proof.
  induction ops as [|o ops IH]; intros s s' obs H; cbn [run] in H.
  - inversion H; apply incl_refl.
  - destruct (step s o) as [[s1 b]|e|e] eqn:E; try discriminate. cbn [bind fst snd] in H.
    destruct (run s1 ops) as [[s2 obs2]|e|e] eqn:E2; try discriminate. cbn [bind fst snd] in H.
    inversion H; subst. eapply incl_tran; [apply (step_mono _ _ _ _ E)|apply (IH _ _ _ E2)].
Qed.

(* ------------------------------------------------------------ repair: heartbeat -> NACK_FRAG -> resend *)

Lemma zrange_sorted : forall n lo, StronglySorted Z.lt (zrange lo n).
Proof.
  induction n as [|n IH]; intros lo; cbn [zrange]; constructor; [apply IH|].
  apply Forall_forall. intros k Hk. apply zrange_in in Hk. lia.
Qed.

Lemma filter_sorted : forall (q : Z -> bool) l, StronglySorted Z.lt l -> StronglySorted Z.lt (filter q l).
Proof.
  intros q l H. induction H as [|a l Hs IH Hall]; cbn [filter]; [constructor|].
  destruct (q a); [|exact IH]. constructor; [exact IH|].
  apply Forall_forall. intros k Hk. apply filter_In in Hk as [Hk _]. rewrite Forall_forall in Hall. auto.
Qed.

Lemma take_while_window : forall b l, StronglySorted Z.lt l ->
  forall k, In k (take_while (fun n => n - b <? 256) l) <-> In k l /\ k - b < 256.
Proof.
  intros b l H. induction H as [|a l Hs IH Hall]; intros k; cbn [take_while In]; [tauto|].
  destruct (Z.ltb_spec (a - b) 256) as [E|E]; cbn [In].
  - rewrite IH. split; [intros [->|[? ?]]; auto|intros [[->|?] ?]; auto].
  - split; [intros []|]. intros [[->|Hk] Hlt]; [lia|]. rewrite Forall_forall in Hall. specialize (Hall k Hk). lia.
Qed.

Lemma existsb_is_frag : forall buf sn k, existsb (is_frag sn k) buf = true <-> present buf sn k.
Proof.
  intros buf sn k. rewrite existsb_exists. unfold present, is_frag. split.
  - intros (x & Hx & Hp). apply andb_true_iff in Hp as [H1 H2]. apply Z.eqb_eq in H1, H2. eauto.
  - intros (x & Hx & H1 & H2). exists x. split; [exact Hx|]. apply andb_true_iff. split; apply Z.eqb_eq; assumption.
Qed.

Definition missing_list (buf : list frag) (sn n : Z) : list Z :=
  filter (fun k => negb (existsb (is_frag sn k) buf)) (zrange 1 (Z.to_nat n)).

Lemma missing_list_in : forall buf sn n k, 0 <= n ->
  In k (missing_list buf sn n) <-> 1 <= k <= n /\ ~ present buf sn k.
Proof.
  intros buf sn n k Hn. unfold missing_list. rewrite filter_In, zrange_in, negb_true_iff.
  rewrite <- existsb_is_frag. destruct (existsb (is_frag sn k) buf); split; intros [H1 H2]; split; try lia; try congruence.
Qed.

Lemma present_decb : forall buf sn k, present buf sn k \/ ~ present buf sn k.
Proof.
  intros buf sn k. destruct (existsb (is_frag sn k) buf) eqn:E.
  - left. apply existsb_is_frag. exact E.
  - right. intros H. apply existsb_is_frag in H. congruence.
Qed.

(* the NACK_FRAG built from the missing list: everything below its base is present, and every
   missing number less than 256 above the base is requested *)
Lemma nack_window : forall buf sn n, 0 <= n ->
  let miss := missing_list buf sn n in
  let b := match miss with [] => 1 | b :: _ => b end in
  let win := take_while (fun k => k - b <? 256) miss in
  exists L, 1 <= L /\ (forall k, 1 <= k < L -> k <= n -> present buf sn k) /\
    (forall k, 1 <= k <= n -> ~ present buf sn k -> k < L + 256 -> In k win) /\
    (forall k, In k win -> 1 <= k <= n) /\ (L <= n -> ~ present buf sn L).
Proof.
  intros buf sn n Hn miss b win.
  assert (Hs : StronglySorted Z.lt miss) by (apply filter_sorted; apply zrange_sorted).
  assert (Hwin : forall k, In k win -> 1 <= k <= n).
  { intros k Hk. apply (take_while_window b miss Hs) in Hk as [Hk _]. apply missing_list_in in Hk; tauto. }
  destruct miss as [|b0 t] eqn:Em.
  - exists (n + 1). split; [lia|]. split; [|split; [|split; [exact Hwin|lia]]].
    + intros k Hk1 Hk2. destruct (present_decb buf sn k) as [H|H]; [exact H|].
      exfalso. assert (Hin : In k (missing_list buf sn n)) by (apply missing_list_in; [exact Hn|split; [lia|exact H]]).
      fold miss in Hin. rewrite Em in Hin. destruct Hin.
    + intros k Hk Hnp _. exfalso.
      assert (Hin : In k (missing_list buf sn n)) by (apply missing_list_in; [exact Hn|split; [lia|exact Hnp]]).
      fold miss in Hin. rewrite Em in Hin. destruct Hin.
  - assert (Hb0 : 1 <= b0 <= n /\ ~ present buf sn b0).
    { apply (missing_list_in buf sn n b0 Hn). fold miss. rewrite Em. left. reflexivity. }
    exists b0. split; [lia|]. split; [|split; [|split; [exact Hwin|tauto]]].
    + intros k Hk1 Hk2. destruct (present_decb buf sn k) as [H|H]; [exact H|].
      exfalso. assert (Hin : In k (missing_list buf sn n)) by (apply missing_list_in; [exact Hn|split; [lia|exact H]]).
      fold miss in Hin. rewrite Em in Hin. destruct Hin as [->|Hin]; [lia|].
      inversion Hs as [|? ? _ Hall]; subst. rewrite Forall_forall in Hall. specialize (Hall k Hin). lia.
    + intros k Hk Hnp Hlt. apply (take_while_window b (b0 :: t) Hs). split; [|unfold b; lia].
      rewrite <- Em. apply missing_list_in; [exact Hn|split; [lia|exact Hnp]].
Qed.

(* the reader after a processed heartbeat that demands a reply *)
Definition hb_state (r : rstate) (first last c : Z) : rstate :=
  mkR (r_rel r) first last (r_highest r) (r_buf r) false c
      (wrap_i32 (r_ackcount r + 1)) (wrap_i32 (r_nfcount r + 1)) (r_changes r).

Lemma hb_eval : forall r first last c final, 0 < first ->
  r_hbcount r < c -> Z.max first (r_highest r + 1) <= Z.max last (r_highest r) ->
  r_on_heartbeat r first last c final =
    (nf <- gen_nackfrag (hb_state r first last c) ;;
     Ok (hb_state r first last c,
         Some (mkAck (available_changes_max (hb_state r first last c) + 1)
                     (take_while (fun x => x <? match min_sn (r_buf r) None with Some m => m | None => i64_max end)
                                 (missing256 (hb_state r first last c)))
                     (wrap_i32 (r_ackcount r + 1)), nf))).
Proof.
  intros r first last c final Hfi Hc Hm. unfold r_on_heartbeat.
  replace (first <=? 0) with false by (symmetry; apply Z.leb_gt; exact Hfi).
  replace (r_hbcount r <? c) with true by (symmetry; apply Z.ltb_lt; exact Hc).
  unfold any_missing. cbn [r_first r_last r_highest].
  replace (Z.max first (r_highest r + 1) <=? Z.max last (r_highest r)) with true by (symmetry; apply Z.leb_le; exact Hm).
  rewrite orb_true_r. unfold r_write_message. cbn [r_must r_rel r_first r_last r_highest r_buf r_hbcount r_ackcount r_nfcount r_changes].
  reflexivity.
Qed.

Lemma min_sn_only : forall sn buf acc, (forall x, In x buf -> fr_sn x = sn) ->
  (acc = None \/ acc = Some sn) -> buf <> [] \/ acc = Some sn -> min_sn buf acc = Some sn.
Proof.
  intros sn buf. induction buf as [|x buf IH]; intros acc Ho Hacc Hne; cbn [min_sn].
  - destruct Hne as [H|H]; [congruence|exact H].
  - assert (Hx : fr_sn x = sn) by (apply Ho; left; reflexivity).
    apply IH; [intros y Hy; apply Ho; right; exact Hy| |].
    + right. destruct Hacc as [->| ->]; rewrite Hx; [reflexivity|rewrite Z.min_id; reflexivity].
    + right. destruct Hacc as [->| ->]; rewrite Hx; [reflexivity|rewrite Z.min_id; reflexivity].
Qed.

Lemma step_frame : forall s o s' b, step s o = Ok (s', b) ->
  w_rel (s_w s') = w_rel (s_w s) /\ r_rel (s_r s') = r_rel (s_r s) /\ w_nreaders (s_w s') = w_nreaders (s_w s).
Proof.
  intros s o s' b H.
  assert (Hresp : forall x, (forall w' ws, x = Ok (w', ws) -> w_rel w' = w_rel (s_w s) /\ w_nreaders w' = w_nreaders (s_w s)) ->
            respond s x = Ok (s', b) ->
            w_rel (s_w s') = w_rel (s_w s) /\ r_rel (s_r s') = r_rel (s_r s) /\ w_nreaders (s_w s') = w_nreaders (s_w s)).
  { intros x Hx Hr. apply respond_inv2 in Hr as (w' & ws & Ex & Hd & Hw & _).
    destruct (Hx w' ws Ex) as [A B]. apply r_deliver_all_ctrl in Hd as (Hrel & _). rewrite Hw. auto. }
  destruct o as [p|sn idx which| fr |first last count final| |count sn base set| ]; cbn [step] in H.
  - unfold w_write in H. destruct (send_change 1 _ _ p); try discriminate. cbn [bind] in H.
    destruct (if 2 <=? _ then _ else _); try discriminate. cbn [bind fst snd] in H. inversion H; subst. auto.
  - destruct (datagram_of _ _ _ _) as [w|]; [|inversion H; auto].
    destruct (r_deliver (s_r s) w) as [r1|e|e] eqn:E; try discriminate. cbn [bind] in H. inversion H; subst.
    apply r_deliver_ctrl in E as (Hrel & _). auto.
  - destruct (r_on_frag (s_r s) fr) as [r1|e|e] eqn:E; try discriminate. cbn [bind] in H. inversion H; subst.
    apply r_on_frag_ctrl in E as (Hrel & _). auto.
  - destruct (r_on_heartbeat _ _ _ _ _) as [[r' x]|?|?] eqn:E; try discriminate. cbn [bind fst snd] in H.
    inversion H; subst. apply r_on_heartbeat_spec in E as (_ & _ & _ & E4). auto.
  - destruct (s_reply s) as [[a [nf|]]|]; (eapply Hresp; [|exact H]); intros w' ws Hx.
    + unfold w_on_nack_frag in Hx. destruct (w_rel (s_w s) && _); [|inversion Hx; auto].
      destruct (lookup _ _); [destruct (w_f (s_w s) =? 0); [discriminate|]|]; inversion Hx; auto.
    + inversion Hx; auto.
    + inversion Hx; auto.
  - eapply Hresp; [|exact H]. intros w' ws Hx.
    unfold w_on_nack_frag in Hx. destruct (w_rel (s_w s) && _); [|inversion Hx; auto].
    destruct (lookup _ _); [destruct (w_f (s_w s) =? 0); [discriminate|]|]; inversion Hx; auto.
  - destruct (s_reply s) as [[a nfo]|]; (eapply Hresp; [|exact H]); intros w' ws Hx.
    + unfold w_on_acknack in Hx. destruct (w_rel (s_w s) && _); [|inversion Hx; auto].
      destruct (ack_resp _ _); try discriminate. cbn [bind] in Hx. inversion Hx; auto.
    + inversion Hx; auto.
Qed.

Lemma step_wf : forall s o s' b, step s o = Ok (s', b) -> w_f (s_w s') = w_f (s_w s).
Proof.
  intros s o s' b H.
  destruct o as [q|sn' idx which| fr |first last count final| |count sn' base set| ]; cbn [step] in H.
  - unfold w_write in H. destruct (send_change 1 _ _ q); try discriminate. cbn [bind] in H.
    destruct (if 2 <=? _ then _ else _); try discriminate. cbn [bind fst snd] in H. inversion H; reflexivity.
  - destruct (datagram_of _ _ _ _); [destruct (r_deliver _ _); try discriminate; cbn [bind] in H|]; inversion H; reflexivity.
  - destruct (r_on_frag _ _); try discriminate. cbn [bind] in H. inversion H; reflexivity.
  - destruct (r_on_heartbeat _ _ _ _ _) as [[? ?]|?|?]; try discriminate. cbn [bind fst snd] in H. inversion H; reflexivity.
  - destruct (s_reply s) as [[a [nf|]]|]; apply respond_inv2 in H as (w' & ws & Hx & _ & E & _); rewrite E.
    + apply w_on_nack_frag_spec in Hx. tauto.
    + injection Hx as A B. rewrite <- A. reflexivity.
    + injection Hx as A B. rewrite <- A. reflexivity.
  - apply respond_inv2 in H as (w' & ws & Hx & _ & E & _). rewrite E. apply w_on_nack_frag_spec in Hx. tauto.
  - destruct (s_reply s) as [[a nfo]|]; apply respond_inv2 in H as (w' & ws & Hx & _ & E & _); rewrite E.
    + apply w_on_acknack_spec in Hx. tauto.
    + injection Hx as A B. rewrite <- A. reflexivity.
Qed.

Lemma run_frame : forall ops s s' obs, run s ops = Ok (s', obs) ->
  w_rel (s_w s') = w_rel (s_w s) /\ r_rel (s_r s') = r_rel (s_r s) /\ w_f (s_w s') = w_f (s_w s).
Proof.
  induction ops as [|o ops IH]; intros s s' obs H; cbn [run] in H.
  - inversion H; auto.
  - destruct (step s o) as [[s1 b]|e|e] eqn:E; try discriminate. cbn [bind fst snd] in H.
    destruct (run s1 ops) as [[s2 obs2]|e|e] eqn:E2; try discriminate. cbn [bind fst snd] in H.
    inversion H; subst. destruct (IH s1 s' obs2 E2) as (A & B & C).
    destruct (step_frame s o s1 b E) as (A' & B' & _). pose proof (step_wf s o s1 b E). repeat split; congruence.
Qed.

Lemma run_app : forall a b s, run s (a ++ b) =
  (x <- run s a ;; y <- run (fst x) b ;; Ok (fst y, snd x ++ snd y)).
Proof.
  induction a as [|o a IH]; intros b s; cbn [app run bind fst snd].
  - destruct (run s b) as [[s' obs]|e|e]; reflexivity.
  - destruct (step s o) as [[s1 ob]|e|e]; cbn [bind fst snd]; try reflexivity.
    rewrite IH. destruct (run s1 a) as [[s2 o2]|e|e]; cbn [bind fst snd]; try reflexivity.
    destruct (run s2 b) as [[s3 o3]|e|e]; cbn [bind fst snd]; reflexivity.
Qed.

Lemma r_on_data_first : forall r sn p, r_rel r = true -> r_first (r_on_data r sn p) = r_first r.
Proof.
  intros r sn p Hrel. unfold r_on_data. destruct (sn =? i64_max); [reflexivity|]. rewrite Hrel.
  destruct (sn =? _); cbn [r_set received_change_set r_first]; reflexivity.
Qed.

Lemma r_deliver_first : forall r w r', r_rel r = true -> r_deliver r w = Ok r' -> r_first r' = r_first r.
Proof.
  intros r w r' Hrel E. destruct w as [rid s q|fr|s]; cbn [r_deliver] in E.
  - inversion E; subst. apply r_on_data_first. exact Hrel.
  - unfold r_on_frag in E. destruct ((fr_fsize fr =? 0) || _); [inversion E; reflexivity|].
    destruct (_ <? fr_nsub fr); [inversion E; reflexivity|].
    destruct (reconstruct _ _) as [[[d|] b]|e|e]; cbn [bind fst snd] in E; try discriminate; inversion E; subst.
    + rewrite r_on_data_first; [reflexivity|exact Hrel].
    + reflexivity.
  - inversion E; reflexivity.
Qed.

Lemma r_deliver_all_first : forall ws r r', r_rel r = true -> r_deliver_all r ws = Ok r' -> r_first r' = r_first r.
Proof.
  induction ws as [|w ws IH]; intros r r' Hrel H; cbn [r_deliver_all] in H.
  - inversion H; reflexivity.
  - destruct (r_deliver r w) as [r1|e|e] eqn:E; try discriminate. cbn [bind] in H.
    pose proof (r_deliver_ctrl r w r1 E) as (Hrel1 & _).
    rewrite (IH r1 r' ltac:(congruence) H). apply (r_deliver_first r w r1 Hrel E).
Qed.

Section Repair.
  Variables (sn : Z) (p : bytes) (first last : Z).
  Hypothesis Hfirst : 0 < first.   (* a HEARTBEAT with firstSN <= 0 is ignored *)

  Local Notation rep := (rep sn p last).
  Local Notation pending := (pending sn p first).
  Local Notation round := (round first last).

  Lemma hb_state_rinv : forall f ch r c, rinv f ch r -> rinv f ch (hb_state r first last c).
  Proof. intros f ch r c [R1 R2 R3 R4]. constructor; cbn [hb_state r_buf r_changes r_highest]; assumption. Qed.

  (* the heartbeat step of a pending state *)
  Lemma hb_step : forall L N c final s, rep s -> pending L s -> cinv N s -> N < i32_max ->
    r_hbcount (s_r s) < c ->
    let r := s_r s in let n := div_ceil (blen p) (w_f (s_w s)) in
    exists ack nfo,
      step s (OHb first last c final) =
        Ok (mkS (s_w s) (hb_state r first last c) (Some (ack, nfo)), BReply (Some (ack, nfo))) /\
      a_count ack = r_ackcount r + 1 /\
      r_ackcount (hb_state r first last c) = r_ackcount r + 1 /\
      r_nfcount (hb_state r first last c) = r_nfcount r + 1 /\
      ((r_buf r = [] /\ nfo = None /\ exists t, a_set ack = sn :: t) \/
       (r_buf r <> [] /\ a_set ack = [] /\
        exists nf, nfo = Some nf /\ n_sn nf = sn /\ n_count nf = r_nfcount r + 1 /\
          (forall k, 1 <= k <= n -> ~ present (r_buf r) sn k -> k < L + 256 -> In k (n_set nf)))).
  Proof.
    intros L N c final s [Hf Hh Hr Hwrel Hrrel Hlk Hn [Hsn Hlast]] (Hmax & Hexp & Hinc & Honly & Hpres)
           [C1 C2 [C3 C4] C5] HN Hc r n.
    pose proof (mksinv s Hf Hh Hr) as Hs.
    assert (Hwa : wrap_i32 (r_ackcount r + 1) = r_ackcount r + 1)
      by (apply wrap_i32_small; unfold i32_min, i32_max in *; fold r in C2, C4; lia).
    assert (Hwn : wrap_i32 (r_nfcount r + 1) = r_nfcount r + 1)
      by (apply wrap_i32_small; unfold i32_min, i32_max in *; fold r in C1, C3; lia).
    cbn [step]. fold r.
    rewrite (hb_eval r first last c final Hfirst Hc) by (fold r in Hmax; lia).
    set (r3 := hb_state r first last c).
    assert (Hm256 : exists t, missing256 r3 = sn :: t).
    { unfold missing256, r3. cbn [hb_state r_first r_last r_highest]. fold r in Hmax. rewrite Hmax.
      set (hi := Z.max last (r_highest r)).
      assert (1 <= Z.min 256 (hi - sn + 1)) by (unfold hi; lia).
      destruct (Z.to_nat (Z.min 256 (hi - sn + 1))) as [|m] eqn:Em; [lia|]. cbn [zrange]. eauto. }
    destruct Hm256 as (t & Hm256).
    destruct (r_buf r) as [|x0 buf0] eqn:Ebuf.
    - (* nothing buffered: no NACK_FRAG, the ACKNACK asks for the whole sample *)
      assert (Egen : gen_nackfrag r3 = Ok None).
      { unfold gen_nackfrag. replace (r_buf r3) with (r_buf r) by reflexivity. rewrite Ebuf.
        replace (find _ (missing256 r3)) with (@None Z); [reflexivity|].
        symmetry. generalize (missing256 r3). intros l. induction l as [|a l IHl]; cbn [find existsb]; auto. }
      rewrite Egen. cbn [bind min_sn].
      eexists. eexists. split; [reflexivity|]. cbn [a_count a_set]. split; [exact Hwa|].
      split; [exact Hwa|]. split; [exact Hwn|]. left. split; [reflexivity|]. split; [reflexivity|].
      rewrite Hm256. cbn [take_while]. replace (sn <? i64_max) with true by (symmetry; apply Z.ltb_lt; lia). eauto.
    - (* some fragments buffered: the NACK_FRAG asks for the missing ones *)
      rewrite <- Ebuf in *.
      assert (Hne : r_buf r <> []) by (rewrite Ebuf; discriminate).
      assert (Hx0 : In x0 (r_buf r)) by (rewrite Ebuf; left; reflexivity).
      assert (Hmin : min_sn (r_buf r) None = Some sn).
      { apply min_sn_only; [exact Honly|left; reflexivity|left; exact Hne]. }
      rewrite Hmin.
      assert (Hfind : find (fun s0 => existsb (has_sn s0) (r_buf r3)) (missing256 r3) = Some sn).
      { rewrite Hm256. cbn [find]. replace (r_buf r3) with (r_buf r) by reflexivity.
        replace (existsb (has_sn sn) (r_buf r)) with true; [reflexivity|].
        symmetry. apply existsb_exists. exists x0. split; [exact Hx0|]. unfold has_sn. apply Z.eqb_eq. apply Honly. exact Hx0. }
      assert (Hfr : exists fr, find (has_sn sn) (r_buf r) = Some fr).
      { destruct (find (has_sn sn) (r_buf r)) as [fr|] eqn:E; [eauto|].
        pose proof (find_none _ _ E x0 Hx0) as Hc0. unfold has_sn in Hc0. rewrite (Honly x0 Hx0), Z.eqb_refl in Hc0. discriminate. }
      destruct Hfr as (fr & Hfr). pose proof Hfr as Hfr2. apply find_some in Hfr2 as [Hfrin Hfrs].
      unfold has_sn in Hfrs. apply Z.eqb_eq in Hfrs.
      destruct (buf_elem_start _ _ Hf Hh (r_buf r) (ri_genuine _ _ _ Hr) sn p Hlk fr (fr_start fr) Hfrin Hfrs eq_refl)
        as (_ & _ & Hfs & Hds & _).
      assert (Egen : gen_nackfrag r3 =
                Ok (Some (mkNf sn (match missing_list (r_buf r) sn n with [] => 1 | b :: _ => b end)
                               (take_while (fun k => k - (match missing_list (r_buf r) sn n with [] => 1 | b :: _ => b end) <? 256)
                                           (missing_list (r_buf r) sn n))
                               (r_nfcount r3)))).
      { unfold gen_nackfrag. rewrite Hfind. replace (r_buf r3) with (r_buf r) by reflexivity. rewrite Hfr.
        rewrite Hfs, Hds. destruct (Z.eqb_spec (w_f (s_w s)) 0) as [E0|E0]; [destruct Hf; lia|]. reflexivity. }
      rewrite Egen. cbn [bind].
      eexists. eexists. split; [reflexivity|]. cbn [a_count a_set]. split; [exact Hwa|].
      split; [exact Hwa|]. split; [exact Hwn|]. right. split; [exact Hne|]. split.
      + rewrite Hm256. cbn [take_while]. rewrite Z.ltb_irrefl. reflexivity.
      + eexists. split; [reflexivity|]. cbn [n_sn n_count n_set]. split; [reflexivity|]. split; [exact Hwn|].
        pose proof (n_bounds _ p Hf (Hh _ _ Hlk)) as Hnb. fold n in Hnb.
        destruct (nack_window (r_buf r) sn n ltac:(lia)) as (L' & HL1 & HLp & HLw & _ & HLn).
        intros k Hk Hnp Hlt. apply HLw; [exact Hk|exact Hnp|].
        (* L <= L': the base is missing, everything below L is present *)
        destruct (Z_le_gt_dec L' n) as [Hle|Hgt]; [|lia].
        assert (~ (L' < L)) by (intros Hlt'; apply (HLn Hle); apply Hpres; lia). lia.
  Qed.

  (* delivering genuine submessages to a reader that waits for sn: either the sample gets delivered, or
     the reader still waits and every tracked fragment number J that was buffered or carried is buffered *)
  Lemma deliver_pending : forall f ch r ws (J : Z -> Prop),
    frag_size_ok f -> history_ok ch -> lookup sn ch = Some p -> sn < i64_max ->
    rinv f ch r -> r_rel r = true -> available_changes_max r + 1 = sn ->
    ~ complete f (r_buf r) sn p -> only_sn sn (r_buf r) ->
    Forall (wire_genuine f ch) ws ->
    (forall k, 1 <= k <= div_ceil (blen p) f -> J k ->
       present (r_buf r) sn k \/ exists rid, In (WFrag (mk_data_frag rid sn p f (k - 1))) ws) ->
    exists r', r_deliver_all r ws = Ok r' /\ rinv f ch r' /\ same_ctrl r r' /\ r_first r' = r_first r /\
      (In (sn, p) (r_changes r') \/
       (available_changes_max r' + 1 = sn /\ ~ complete f (r_buf r') sn p /\ only_sn sn (r_buf r') /\
        forall k, 1 <= k <= div_ceil (blen p) f -> J k -> present (r_buf r') sn k)).
  Proof.
    intros f ch r ws J Hf Hch Hl Hsm Hr Hrel Hexp Hinc Honly Hg Hcov.
    assert (Hw : waiting f ch sn p J true r ws).
    { split; [exact Hr|]. split; [exact Hrel|]. right. split; [exact Hexp|]. split; [exact Hinc|].
      split; [exact Hcov|]. intros _. exact Honly. }
    destruct (deliver_all_waiting f ch sn p Hf Hch Hl Hsm J true ws r Hw Hg) as (r' & E & Hw').
    exists r'. split; [exact E|]. split; [apply Hw'|]. split; [apply (r_deliver_all_ctrl ws r r' E)|].
    split; [apply (r_deliver_all_first ws r r' Hrel E)|].
    destruct (waiting_end f ch sn p J true r' Hw') as [Hd|(A & B & C & D)]; [left; exact Hd|right].
    split; [exact A|]. split; [exact B|]. split; [apply D; reflexivity|exact C].
  Qed.

  Lemma r_on_heartbeat_hb : forall r fi la c final r' x, r_hbcount r < c -> 0 < fi ->
    r_on_heartbeat r fi la c final = Ok (r', x) -> r_hbcount r' = c /\ r_first r' = fi.
  Proof.
    intros r fi la c final r' x Hc Hfi H. unfold r_on_heartbeat in H.
    replace (fi <=? 0) with false in H by (symmetry; apply Z.leb_gt; exact Hfi).
    replace (r_hbcount r <? c) with true in H by (symmetry; apply Z.ltb_lt; exact Hc).
    unfold r_write_message in H. cbn [r_must] in H.
    destruct (negb final || _); [|inversion H; subst; auto].
    match type of H with context [gen_nackfrag ?R] => destruct (gen_nackfrag R) as [nfo|e|e] end; try discriminate.
    cbn [bind] in H. inversion H; subst. auto.
  Qed.

  Lemma pending_expected : forall r, r_first r = first -> available_changes_max r + 1 = sn ->
    Z.max first (r_highest r + 1) = sn.
  Proof. intros r Hfi H. unfold available_changes_max in H. rewrite Hfi in H. lia. Qed.

  Lemma round_progress : forall L N c final s, rep s -> cinv N s -> N + 3 <= i32_max ->
    r_hbcount (s_r s) < c ->
    (In (sn, p) (r_changes (s_r s)) \/ pending L s) ->
    exists s' obs, run s (round c final) = Ok (s', obs) /\ rep s' /\ cinv (N + 3) s' /\
      r_hbcount (s_r s') = c /\
      (In (sn, p) (r_changes (s_r s')) \/
       pending (match r_buf (s_r s) with [] => 2 | _ => L + 256 end) s').
  Proof.
    intros L N c final s Hrep Hc HN Hhb Hst. pose proof Hrep as [Hf0 Hh0 Hr0 Hwrel Hrrel Hlk Hn [Hsn Hlast]].
    pose proof (mksinv s Hf0 Hh0 Hr0) as Hs.
    assert (Hok : Forall op_ok (round c final)) by (repeat constructor).
    assert (Hnf : Forall no_forged (round c final)) by (repeat constructor).
    destruct (run_total (round c final) s Hs Hok) as (s' & obs & E).
    exists s', obs. split; [exact E|].
    destruct (run_inv _ _ _ _ Hs Hok E) as [Hs' Hch']. cbn [round written number_from] in Hch'. rewrite app_nil_r in Hch'.
    destruct (run_frame _ _ _ _ E) as (Fw & Fr & Ff).
    pose proof (run_cinv (round c final) N s s' obs Hc ltac:(cbn [round length]; lia) Hnf E) as Hc'.
    cbn [round length] in Hc'. replace (N + Z.of_nat 3) with (N + 3) in Hc' by lia.
    assert (Hrep' : rep s').
    { destruct Hs' as [A1 A2 A3]. constructor; rewrite ?Fw, ?Fr, ?Ff, ?Hch' in *; auto. }
    split; [exact Hrep'|]. split; [exact Hc'|].
    (* unfold the three steps *)
    pose proof E as E0. cbn [run round] in E.
    destruct (step s (OHb first last c final)) as [[s1 b1]|e|e] eqn:E1; try discriminate. cbn [bind fst snd] in E.
    destruct (step s1 OAckNack) as [[s2 b2]|e|e] eqn:E2; try discriminate. cbn [bind fst snd] in E.
    destruct (step s2 ONackFrag) as [[s3 b3]|e|e] eqn:E3; try discriminate. cbn [bind fst snd] in E.
    injection E as Es' _. subst s3.
    assert (Hhb' : r_hbcount (s_r s') = c).
    { cbn [step] in E1. destruct (r_on_heartbeat (s_r s) first last c final) as [[r1 x1]|?|?] eqn:Eh; try discriminate.
      cbn [bind fst snd] in E1. injection E1 as E1 _. subst s1.
      destruct (r_on_heartbeat_hb _ _ _ _ _ _ _ Hhb Hfirst Eh) as [Hh1 _].
      cbn [step] in E2, E3.
      assert (H2 : r_hbcount (s_r s2) = c).
      { cbn [s_reply s_w s_r] in E2. destruct (match x1 with Some y => Some y | None => s_reply s end) as [[a nfo]|];
          apply respond_inv2 in E2 as (? & ? & _ & Hd & _); apply r_deliver_all_ctrl in Hd as (_ & _ & _ & Hd & _);
          cbn [s_r] in Hd; congruence. }
      destruct (s_reply s2) as [[a [nf|]]|];
        apply respond_inv2 in E3 as (? & ? & _ & Hd & _); apply r_deliver_all_ctrl in Hd as (_ & _ & _ & Hd & _); congruence. }
    split; [exact Hhb'|].
    destruct Hst as [Hdel|Hpend].
    { left. apply (run_mono (round c final) s s' obs E0). exact Hdel. }
    (* pending: follow the protocol *)
    pose proof Hs as [Hf Hh Hr]. pose proof Hc as [C1 C2 [C3 C4] C5].
    set (f := w_f (s_w s)) in *. set (ch := w_changes (s_w s)) in *. set (r := s_r s) in *.
    set (n := div_ceil (blen p) f) in *.
    destruct (hb_step L N c final s Hrep Hpend Hc ltac:(lia) Hhb)
      as (ack & nfo & Eh & Hac & Hack3 & Hnf3 & Hcase).
    fold r in Eh, Hac, Hack3, Hnf3, Hcase. rewrite Eh in E1. injection E1 as E1 _. subst s1.
    destruct Hpend as (Hmax & Hexp & Hinc & Honly & Hpres). fold r f in Hmax, Hexp, Hinc, Honly, Hpres.
    set (r3 := hb_state r first last c) in *.
    assert (Hr3 : rinv f ch r3) by (apply hb_state_rinv; exact Hr).
    assert (Hexp3 : available_changes_max r3 + 1 = sn).
    { unfold available_changes_max, r3. cbn [hb_state r_first r_highest]. lia. }
    cbn [step s_reply s_w s_r] in E2.
    destruct Hcase as [(Hempty & -> & (t & Hset))|(Hne & Hset & nf & -> & Hnsn & Hncount & Hwin)].
    - (* nothing was buffered: the ACKNACK fetches fragment 1; no NACK_FRAG in this round *)
      rewrite Hempty.
      apply respond_inv2 in E2 as (w2 & ws2 & Ex2 & Hd2 & Hw2 & Hrp2 & _). cbn [s_r s_w s_reply] in Hd2, Hrp2.
      unfold w_on_acknack in Ex2. rewrite Hwrel in Ex2.
      replace (w_last_an (s_w s) <? a_count ack) with true in Ex2 by (symmetry; apply Z.ltb_lt; fold r in C2; lia).
      cbn [andb] in Ex2.
      destruct (ack_resp (s_w s) (a_set ack)) as [y|?|?] eqn:Ea; try discriminate. cbn [bind] in Ex2.
      injection Ex2 as Ew2 Ews2. subst ws2.
      pose proof (ack_resp_spec _ _ _ Ea) as Hgen2.
      assert (Hhead : In (WFrag (mk_data_frag 1 sn p f 0)) y).
      { rewrite Hset in Ea. cbn [ack_resp] in Ea. fold ch in Ea. rewrite Hlk in Ea.
        replace (0 <? sn) with true in Ea by (symmetry; apply Z.ltb_lt; lia).
        fold f in Ea. destruct (Z.eqb_spec f 0); [destruct Hf; lia|].
        replace (1 <? div_ceil (blen p) f) with true in Ea by (symmetry; apply Z.ltb_lt; exact Hn).
        destruct (ack_resp (s_w s) t) as [y'|?|?]; try discriminate. cbn [bind] in Ea. injection Ea as <-. left. reflexivity. }
      destruct (deliver_pending f ch r3 y (fun k => k = 1) Hf Hh Hlk ltac:(lia) Hr3 Hrrel Hexp3 Hinc Honly Hgen2)
        as (r4 & Ed & Hr4 & Hctrl4 & Hfi4 & Hres4).
      { intros k Hk ->. right. exists 1. exact Hhead. }
      rewrite Ed in Hd2. injection Hd2 as Hd2.
      (* ONackFrag does nothing: there is no NACK_FRAG in the reply *)
      cbn [step] in E3. rewrite Hrp2 in E3.
      apply respond_inv2 in E3 as (w3 & ws3 & Ex3 & Hd3 & Hw3 & _). injection Ex3 as Ew3 Ews3. subst ws3.
      cbn [r_deliver_all] in Hd3. injection Hd3 as Hd3.
      destruct Hres4 as [Hdel|(A & B & C & D)]; [left; rewrite <- Hd3, <- Hd2; exact Hdel|right].
      unfold pending. rewrite <- Hd3, <- Hd2, Ff.
      split; [apply pending_expected; [rewrite Hfi4; reflexivity|exact A]|].
      split; [exact A|]. split; [exact B|]. split; [exact C|].
      intros k Hk1 Hk2. apply D; [fold n; lia|lia].
    - (* fragments buffered: the ACKNACK asks for nothing, the NACK_FRAG is answered with the window *)
      destruct (r_buf r) as [|x0 b0] eqn:Eb; [congruence|]. rewrite <- Eb in *.
      apply respond_inv2 in E2 as (w2 & ws2 & Ex2 & Hd2 & Hw2 & Hrp2 & _). cbn [s_r s_w s_reply] in Hd2, Hrp2.
      assert (Hw2' : ws2 = [] /\ w_f w2 = f /\ w_changes w2 = ch /\ w_rel w2 = true /\ w_last_nf w2 = w_last_nf (s_w s)).
      { pose proof (w_on_acknack_spec _ _ _ _ _ _ Ex2) as (A & B & C & D & _).
        split; [|unfold f, ch; repeat split; congruence].
        unfold w_on_acknack in Ex2. rewrite Hset in Ex2. destruct (w_rel (s_w s) && _); cbn [ack_resp bind] in Ex2; congruence. }
      destruct Hw2' as (-> & Hf2 & Hch2 & Hrel2 & Hlast2).
      cbn [r_deliver_all] in Hd2. injection Hd2 as Hd2.
      cbn [step] in E3. rewrite Hrp2 in E3.
      apply respond_inv2 in E3 as (w3 & ws3 & Ex3 & Hd3 & Hw3 & _).
      rewrite Hw2, Hnsn in Ex3.
      destruct (nackfrag_resends_requested w2 (n_count nf) sn (n_base nf) (n_set nf) p
                  ltac:(rewrite Hf2; exact Hf) (Hh _ _ Hlk) Hrel2
                  ltac:(rewrite Hlast2, Hncount; fold r in C1; lia) ltac:(rewrite Hch2; exact Hlk))
        as (ws & Ews & _ & _ & Hall).
      rewrite Ews in Ex3. injection Ex3 as Ew3 Ews3. subst ws3.
      pose proof (w_on_nack_frag_spec _ _ _ _ _ _ _ Ews) as (_ & _ & _ & _ & Hgen3). rewrite Hf2, Hch2 in Hgen3.
      rewrite <- Hd2 in Hd3.
      destruct (deliver_pending f ch r3 ws (fun k => k < L + 256) Hf Hh Hlk ltac:(lia) Hr3 Hrrel Hexp3 Hinc Honly Hgen3)
        as (r5 & Ed & Hr5 & Hctrl5 & Hfi5 & Hres5).
      { intros k Hk Hlt. destruct (present_decb (r_buf r) sn k) as [Hp|Hp]; [left; exact Hp|].
        right. exists 1. rewrite <- Hf2. apply Hall; [right; apply Hwin; assumption|rewrite Hf2; exact Hk]. }
      rewrite Ed in Hd3. injection Hd3 as Hd3.
      destruct Hres5 as [Hdel|(A & B & C & D)]; [left; rewrite <- Hd3; exact Hdel|right].
      unfold pending. rewrite <- Hd3, Ff.
      split; [apply pending_expected; [rewrite Hfi5; reflexivity|exact A]|].
      split; [exact A|]. split; [exact B|]. split; [exact C|].
      intros k Hk1 Hk2. apply D; [fold n; lia|lia].
  Qed.

  Local Notation rounds := (rounds first last).

  Lemma pending_weaken : forall L L' s, L <= L' -> pending L' s -> pending L s.
  Proof.
    intros L L' s HL (A & B & C & D & E). repeat split; try assumption. intros k Hk Hk2. apply E; lia.
  Qed.

  Lemma pending_nonempty : forall L s, rep s -> 2 <= L -> pending L s -> r_buf (s_r s) <> [].
  Proof.
    intros L s [_ _ _ _ _ _ Hn _] HL (_ & _ & _ & _ & E) Hnil.
    destruct (E 1 ltac:(lia) ltac:(lia)) as (x & Hx & _). rewrite Hnil in Hx. destruct Hx.
  Qed.

  (* everything below L present with L beyond the last fragment number contradicts `incomplete` *)
  Lemma pending_full : forall L s, div_ceil (blen p) (w_f (s_w s)) < L -> ~ pending L s.
  Proof.
    intros L s HL (_ & _ & C & _ & E). apply C. intros i Hi. apply E; lia.
  Qed.

  Lemma rounds_progress : forall k L N c final s, rep s -> cinv N s -> N + 3 * Z.of_nat k <= i32_max ->
    r_hbcount (s_r s) < c -> 2 <= L ->
    (In (sn, p) (r_changes (s_r s)) \/ pending L s) ->
    exists s' obs, run s (rounds c final k) = Ok (s', obs) /\ rep s' /\ cinv (N + 3 * Z.of_nat k) s' /\
      (In (sn, p) (r_changes (s_r s')) \/ pending (L + 256 * Z.of_nat k) s').
  Proof.
    induction k as [|k IH]; intros L N c final s Hrep Hc HN Hhb HL Hst.
    - cbn [FragModel.rounds run]. exists s, []. split; [reflexivity|]. split; [exact Hrep|].
      replace (N + 3 * Z.of_nat 0) with N by lia. replace (L + 256 * Z.of_nat 0) with L by lia. auto.
    - cbn [FragModel.rounds]. rewrite run_app.
      destruct (round_progress L N c final s Hrep Hc ltac:(lia) Hhb Hst) as (s1 & o1 & E1 & Hrep1 & Hc1 & Hhb1 & Hst1).
      rewrite E1. cbn [bind fst snd].
      assert (Hst1' : In (sn, p) (r_changes (s_r s1)) \/ pending (L + 256) s1).
      { destruct Hst1 as [H|H]; [left; exact H|right].
        destruct Hst as [Hd|Hp].
        - (* cannot be: delivered stays delivered; but we only need the weaker claim *)
          destruct (r_buf (s_r s)); [|exact H].
          exfalso. destruct H as (_ & Hexp & _). pose proof (run_mono _ _ _ _ E1 _ Hd) as Hd1.
          destruct Hrep1 as [_ _ [_ _ R3 _] _ _ _ _ _]. rewrite Forall_forall in R3.
          destruct (R3 _ Hd1) as [_ Hle]. cbn [fst] in Hle. unfold available_changes_max in Hexp. lia.
        - pose proof (pending_nonempty L s Hrep HL Hp) as Hne.
          destruct (r_buf (s_r s)); [congruence|exact H]. }
      destruct (IH (L + 256) (N + 3) (c + 1) final s1 Hrep1 Hc1 ltac:(lia) ltac:(lia) ltac:(lia) Hst1')
        as (s2 & o2 & E2 & Hrep2 & Hc2 & Hst2).
      rewrite E2. cbn [bind fst snd]. eexists. eexists. split; [reflexivity|]. split; [exact Hrep2|].
      replace (N + 3 * Z.of_nat (S k)) with (N + 3 + 3 * Z.of_nat k) by lia.
      replace (L + 256 * Z.of_nat (S k)) with (L + 256 + 256 * Z.of_nat k) by lia. auto.
  Qed.

  (* REPAIR, one round: at least one fragment of the sample arrived, any others are lost, and all the
     missing ones lie within 256 of L (everything below L arrived): heartbeat -> NACK_FRAG -> resend
     delivers the sample *)
  Theorem repair_one_round : forall L N c final s, rep s -> cinv N s -> N + 3 <= i32_max ->
    r_hbcount (s_r s) < c -> pending L s -> r_buf (s_r s) <> [] ->
    div_ceil (blen p) (w_f (s_w s)) < L + 256 ->
    exists s' obs, run s (round c final) = Ok (s', obs) /\ In (sn, p) (r_changes (s_r s')).
  Proof.
    intros L N c final s Hrep Hc HN Hhb Hp Hne Hn.
    destruct (round_progress L N c final s Hrep Hc HN Hhb (or_intror Hp)) as (s1 & o1 & E1 & Hrep1 & _ & _ & Hst1).
    exists s1, o1. split; [exact E1|]. destruct Hst1 as [H|H]; [exact H|].
    exfalso. destruct (r_buf (s_r s)); [congruence|].
    destruct (run_frame _ _ _ _ E1) as (_ & _ & Ff). apply (pending_full (L + 256) s1); [rewrite Ff; exact Hn|exact H].
  Qed.

  (* REPAIR, in general: ANY loss pattern (even every fragment lost), k rounds with
     total <= 1 + 256 (k - 1): the first round fetches at least fragment 1, every further round the
     next 256 fragment numbers *)
  Theorem repair_k_rounds : forall k N c final s, rep s -> cinv N s ->
    N + 3 * (1 + Z.of_nat k) <= i32_max -> r_hbcount (s_r s) < c -> pending 1 s ->
    div_ceil (blen p) (w_f (s_w s)) < 2 + 256 * Z.of_nat k ->
    exists s' obs, run s (rounds c final (S k)) = Ok (s', obs) /\ In (sn, p) (r_changes (s_r s')).
  Proof.
    intros k N c final s Hrep Hc HN Hhb Hp Hn.
    cbn [FragModel.rounds]. rewrite run_app.
    destruct (round_progress 1 N c final s Hrep Hc ltac:(lia) Hhb (or_intror Hp)) as (s1 & o1 & E1 & Hrep1 & Hc1 & Hhb1 & Hst1).
    rewrite E1. cbn [bind fst snd].
    assert (Hst1' : In (sn, p) (r_changes (s_r s1)) \/ pending 2 s1).
    { destruct Hst1 as [H|H]; [left; exact H|right]. destruct (r_buf (s_r s)); [exact H|].
      apply (pending_weaken 2 (1 + 256)); [lia|exact H]. }
    destruct (rounds_progress k 2 (N + 3) (c + 1) final s1 Hrep1 Hc1 ltac:(lia) ltac:(lia) ltac:(lia) Hst1')
      as (s2 & o2 & E2 & Hrep2 & _ & Hst2).
    rewrite E2. cbn [bind fst snd]. eexists. eexists. split; [reflexivity|]. cbn [fst].
    destruct Hst2 as [H|H]; [exact H|]. exfalso.
    destruct (run_frame _ _ _ _ E1) as (_ & _ & Ff1). destruct (run_frame _ _ _ _ E2) as (_ & _ & Ff2).
    apply (pending_full (2 + 256 * Z.of_nat k) s2); [rewrite Ff2, Ff1; exact Hn|exact H].
  Qed.
End Repair.

(* ------------------------------------------------------------ regression examples: the inputs that used to fail *)

Definition p21 : bytes := [1;2;3;4;5;6;7;8;9;10;11;12;13;14;15;16;17;18;19;20;21].
Definition p29 : bytes := p21 ++ [22;23;24;25;26;27;28;29].

(* fragment 2 of 3 lost: the reader's NACK_FRAG {2} now carries count 1, the writer answers with
   fragment 2, the sample is delivered (was: count 0, dropped; C05-nackfrag-count-zero) *)
Lemma regress_count_zero :
  exists s ack, run (s_init true 1 8) [OWrite p21; ODeliver 1 0 1; ODeliver 1 2 1; OHb 1 1 1 false; ONackFrag] =
    Ok (s, [BSent [WFrag (mk_data_frag 1 1 p21 8 0); WFrag (mk_data_frag 1 1 p21 8 1); WFrag (mk_data_frag 1 1 p21 8 2)];
            BCount 0; BCount 0; BReply (Some (ack, Some (mkNf 1 2 [2] 1)));
            BResp [WFrag (mk_data_frag 1 1 p21 8 1)] 1]) /\
    r_changes (s_r s) = [(1, p21)].
Proof. eexists. eexists. vm_compute. split; reflexivity. Qed.

(* a NACK_FRAG asking for fragment 2 is answered with fragment 2, once; asking for the last one works
   (was: fragment 3 twice / nothing; C05-nackfrag-off-by-one) *)
Lemma regress_off_by_one :
  (exists w', w_on_nack_frag (mkW 8 true 1 [(1, p21)] 0 0) 1 1 2 [2] =
     Ok (w', [WFrag (mk_data_frag 1 1 p21 8 1)]) /\ fr_start (mk_data_frag 1 1 p21 8 1) = 2) /\
  (exists w', w_on_nack_frag (mkW 8 true 1 [(1, p21)] 0 0) 1 1 3 [3] =
     Ok (w', [WFrag (mk_data_frag 1 1 p21 8 2)]) /\ fr_start (mk_data_frag 1 1 p21 8 2) = 3).
Proof. split; eexists; vm_compute; split; reflexivity. Qed.

(* a DATA_FRAG announcing fragment size 0 is ignored (was: divide by zero; C05-fragsize-zero-div) *)
Lemma regress_fragsize_zero :
  exists s, run (s_init true 1 8) [OForeign (mkfrag 1 1 1 1 0 21 [1; 2]); OHb 1 1 1 false] =
    Ok (s, [BCount 0; BReply (Some (mkAck 1 [1] 1, None))]) /\ r_buf (s_r s) = [].
Proof. eexists. vm_compute. split; reflexivity. Qed.

(* 300 fragments, only the first received: two rounds (numbers 2..257, then 258..300) deliver the sample
   (was: index out of bounds building the NACK_FRAG; C05-nackfrag-bitmap-overflow) *)
Lemma regress_bitmap_overflow :
  exists s obs, run (s_init true 1 8)
      ([OWrite (repeat 7 2400); ODeliver 1 0 1] ++ rounds 1 1 1 false 2) = Ok (s, obs) /\
    r_changes (s_r s) = [(1, repeat 7 2400)].
Proof. eexists. eexists. vm_compute. split; reflexivity. Qed.

(* two readers of one participant: copies addressed to the other reader are not buffered twice, the full
   payload is delivered (was: 16 of 29 bytes; C05-mixed-readerid-truncation) *)
Lemma regress_mixed_readerid :
  exists s obs, run (s_init true 2 8)
      [OWrite p29; ODeliver 1 0 1; ODeliver 1 1 1; ODeliver 1 0 2; ODeliver 1 1 2; ODeliver 1 2 2; ODeliver 1 3 1] =
    Ok (s, obs) /\ r_changes (s_r s) = [(1, p29)].
Proof. eexists. eexists. vm_compute. split; reflexivity. Qed.

(* both copies of fragment 2 before fragment 1: delivered when fragment 1 arrives; the heartbeat reply is
   a plain ACKNACK (was: never reassembled + panic; C05-nackfrag-none-missing-panic) *)
Lemma regress_none_missing :
  exists s obs, run (s_init true 2 8) [OWrite [1;2;3;4;5;6;7;8;9]; ODeliver 1 1 1; ODeliver 1 1 2; ODeliver 1 0 1; ODeliver 1 0 2;
                         OHb 1 1 1 false] = Ok (s, obs) /\ r_changes (s_r s) = [(1, [1;2;3;4;5;6;7;8;9])].
Proof. eexists. eexists. vm_compute. split; reflexivity. Qed.

(* non-vacuity of the positive theorems: a concrete interleaved, duplicated, reordered schedule *)
Lemma example_reordered :
  exists s obs, run (s_init true 1 8)
    [OWrite p21; OWrite p29; ODeliver 2 1 1; ODeliver 1 2 1; ODeliver 1 0 1; ODeliver 1 2 1; ODeliver 2 0 1;
     ODeliver 1 1 1; ODeliver 2 3 1; ODeliver 2 1 1; ODeliver 2 0 1; ODeliver 2 2 1] = Ok (s, obs) /\
    r_changes (s_r s) = [(1, p21); (2, p29)].
Proof. eexists. eexists. vm_compute. split; reflexivity. Qed.

Lemma example_reassemble :
  reconstruct (fold_left push_frag
     [mk_data_frag 1 1 p21 8 2; mk_data_frag 1 2 p29 8 0; mk_data_frag 2 1 p21 8 0; mk_data_frag 1 1 p21 8 2;
      mk_data_frag 1 1 p21 8 1] []) 1 = Ok (Some p21, [mk_data_frag 1 2 p29 8 0]).
Proof. vm_compute. reflexivity. Qed.

(* non-vacuity of the repair theorems: the state after writing 21 bytes with f = 8 and losing fragment 2
   meets their hypotheses (L = 1, N = 0) *)
Lemma example_repair_hypotheses :
  exists s obs, run (s_init true 1 8) [OWrite p21; ODeliver 1 0 1; ODeliver 1 2 1] = Ok (s, obs) /\
    rep 1 p21 1 s /\ cinv 0 s /\ pending 1 p21 1 1 s /\ r_buf (s_r s) <> [] /\ r_hbcount (s_r s) < 1 /\
    div_ceil (blen p21) (w_f (s_w s)) < 1 + 256.
Proof.
  set (ops0 := [OWrite p21; ODeliver 1 0 1; ODeliver 1 2 1]).
  assert (Hf8 : frag_size_ok 8) by (unfold frag_size_ok; lia).
  assert (Hok : Forall op_ok ops0) by (repeat constructor; cbn; unfold two32; lia).
  destruct (run_total ops0 (s_init true 1 8) (sinv_init true 1 8 Hf8) Hok) as (s & obs & E).
  exists s, obs. split; [exact E|].
  destruct (run_inv ops0 (s_init true 1 8) s obs (sinv_init true 1 8 Hf8) Hok E) as [[Hf Hh Hr] _].
  assert (Hc : cinv (0 + Z.of_nat (length ops0)) s).
  { apply (run_cinv ops0 0 (s_init true 1 8) s obs (cinv_init true 1 8)); [cbn; unfold i32_max; lia|repeat constructor|exact E]. }
  vm_compute in E. injection E as Es _. subst s.
  split; [constructor; try assumption; vm_compute; try reflexivity; repeat split; discriminate|].
  split.
  { destruct Hc as [C1 C2 C3 C4]. constructor; try assumption; vm_compute; repeat split; discriminate. }
  split.
  { unfold pending. split; [reflexivity|]. split; [reflexivity|]. split; [|split].
    - intros Hc'. destruct (Hc' 1 ltac:(vm_compute; split; discriminate || reflexivity)) as (x & Hx & _ & Hst).
      cbn in Hx. destruct Hx as [<-|[<-|[]]]; vm_compute in Hst; discriminate.
    - intros x Hx. cbn in Hx. destruct Hx as [<-|[<-|[]]]; reflexivity.
    - intros k Hk. lia. }
  split; [discriminate|]. split; [reflexivity|]. vm_compute. reflexivity.
Qed.

(* ------------------------------------------------------------ statements in the argument order of Props/C05.v *)

Lemma C05_reassemble_any_order_stmt :
  forall f sn (p : bytes) (l : list frag),
    0 < f < 65536 -> blen p < two32 -> 1 <= div_ceil (blen p) f ->
    (forall x, In x l -> fr_sn x = sn ->
       exists rid i, 0 <= i < div_ceil (blen p) f /\ x = mk_data_frag rid sn p f i) ->
    (forall i, 0 <= i < div_ceil (blen p) f -> exists rid, In (mk_data_frag rid sn p f i) l) ->
    reconstruct (fold_left push_frag l []) sn =
      Ok (Some p, filter (fun x => negb (has_sn sn x)) (fold_left push_frag l [])).
Proof. intros f sn p l Hf Hp Hn Hl Hall. exact (reassemble_any_order f sn p l Hf Hp Hl Hn Hall). Qed.

Lemma C05_incomplete_stmt :
  forall f sn (p : bytes) (l : list frag),
    0 < f < 65536 -> blen p < two32 ->
    (forall x, In x l -> fr_sn x = sn ->
       exists rid i, 0 <= i < div_ceil (blen p) f /\ x = mk_data_frag rid sn p f i) ->
    ~ (forall i, 0 <= i < div_ceil (blen p) f -> exists rid, In (mk_data_frag rid sn p f i) l) ->
    reconstruct (fold_left push_frag l []) sn = Ok (None, fold_left push_frag l []).
Proof. intros f sn p l Hf Hp Hl Hn. exact (reassemble_incomplete f sn p l Hf Hp Hl Hn). Qed.

Lemma C05_never_wrong_stmt :
  forall f sn (p : bytes) (l : list frag) d b',
    0 < f < 65536 -> blen p < two32 ->
    (forall x, In x l -> fr_sn x = sn ->
       exists rid i, 0 <= i < div_ceil (blen p) f /\ x = mk_data_frag rid sn p f i) ->
    reconstruct (fold_left push_frag l []) sn = Ok (Some d, b') -> d = p.
Proof. intros f sn p l d b' Hf Hp Hl H. exact (reassemble_never_wrong f sn p l Hf Hp Hl d b' H). Qed.
