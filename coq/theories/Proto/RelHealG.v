(* C01/C03/C04 — liveness for histories with holes, part 2: the counter invariant of the live class and the
   healing invariant, re-based on KS (general soundness invariant + the class facts of RelLiveG.v). *)
From DustDDS Require Import Base.Machine Proto.RelModel Proto.RelProofs Proto.RelSound Proto.RelSoundG Proto.RelLive Proto.RelLiveG.
Open Scope Z_scope.

(* ------------------------------------------------------------------ the live-class invariant *)
Definition klsub (hbc last wan : Z) (m : submsg) : Prop :=
  match m with
  | SHb f l c => 1 <= f /\ 1 <= c <= hbc /\ (c = hbc -> l = last /\ (0 < last -> f <= last))
  | SAck b set c => c <= wan
  | SFrag _ _ | SNack _ _ _ _ => False
  | _ => True
  end.
Definition kldg (hbc last wan : Z) (d : dgram) : Prop := Forall (klsub hbc last wan) (dg_subs d).

Lemma kldg_mono hbc hbc' last wan wan' d :
  hbc <= hbc' -> wan <= wan' -> kldg hbc last wan d -> kldg hbc' last wan' d.
Proof.
  intros A B H. unfold kldg in *. eapply Forall_impl; [|exact H]. intros m.
  destruct m; cbn; try tauto; try lia.
Qed.

Lemma kldg_mono_write hbc hbc' last last' wan d :
  hbc < hbc' -> kldg hbc last wan d -> kldg hbc' last' wan d.
Proof.
  intros A H. unfold kldg in *. eapply Forall_impl; [|exact H]. intros m.
  destruct m; cbn; try tauto; try lia.
Qed.

Lemma khdg_kldg lo hi last wan d : 0 <= lo -> khdg lo hi last d -> kldg hi last wan d.
Proof.
  intros H0 [_ H]. unfold kldg. eapply Forall_impl; [|exact H]. intros m. destruct m; cbn; try tauto.
  intros (A & B & C & D). split; [assumption|]. split; [lia|]. intros _. split; assumption.
Qed.

Record KLOk (strict : bool) (s : state) (p : rproxy) (w : wproxy) : Prop := mkKLOk {
  kl_hs : strict = true -> rp_hs p = s_last s;
  kl_ha0 : 0 <= rp_ha p;
  kl_hb : 0 <= wp_hb w <= rp_hbc p;
  kl_an : rp_an p <= wp_an w;
  kl_hbt : rp_hbt p <= s_now s;
  kl_frags : wp_frags w = [];
  kl_net : Forall (kldg (rp_hbc p) (s_last s) (wp_an w)) (s_net s)
}.

Definition KLInv (strict : bool) (cf : cfg) (s : state) : Prop :=
  0 <= s_now s /\ unfrag cf (s_changes s) /\ s_rdead s = false /\
  (forall r, s_rd s = Some r -> rd_alive r = true) /\
  forall p r w, s_rp s = Some p -> rp_rel p = true -> s_rd s = Some r -> rd_wp r = Some w -> KLOk strict s p w.

Ltac klinv_split := split; [|split; [|split; [|split]]].

Lemma KLInv_weaken cf s : KLInv true cf s -> KLInv false cf s.
Proof.
  intros (A & B & C & D & E). klinv_split; try assumption. intros p r w H1 H2 H3 H4.
  destruct (E p r w H1 H2 H3 H4). constructor; try assumption. discriminate.
Qed.

Lemma filter_rdead_false (dead : bool) out : dead = false -> filter (fun d : dgram => negb (dg_toR d && dead)) out = out.
Proof. intros ->. induction out as [|x t IH]; cbn; [reflexivity|]. rewrite andb_false_r. cbn. f_equal. assumption. Qed.

(* --- poke *)
Lemma KLInv_poke cf s b : KS s -> KLInv b cf s -> KLInv true cf (poke cf s).
Proof.
  intros (HG & HN & [HK Hp]) (L1 & L2 & L3 & L4 & L5). unfold poke.
  destruct (s_rp s) as [p|] eqn:Ep.
  2:{ klinv_split; try assumption. intros q r w Hq. congruence. }
  destruct Hp as [Hhs Hfr].
  unfold write_message. destruct (rp_rel p) eqn:Erel.
  2:{ pose proof (write_be_static (S (2 * length (s_changes s))) cf (s_changes s) p []) as Hs.
      destruct (write_be_loop (S (2 * length (s_changes s))) cf (s_changes s) p []) as [p1 out]. cbn [fst] in Hs.
      apply static_fr in Hs. destruct Hs as (_ & Hrel & _).
      klinv_split; try assumption. intros q r w Hq Hqrel. cbn in Hq. inversion Hq; subst. congruence. }
  destruct (s_rd s) as [r|] eqn:Er.
  2:{ destruct (write_rel cf (s_now s) (s_changes s) p) as [p1 out].
      klinv_split; cbn; try rewrite Er; try assumption. intros q r w _ _ Hr. discriminate. }
  destruct (rd_wp r) as [w|] eqn:Ew.
  2:{ destruct (write_rel cf (s_now s) (s_changes s) p) as [p1 out].
      klinv_split; cbn; try rewrite Er; try assumption. intros q r' w _ _ Hr Hw. inversion Hr; subst. congruence. }
  destruct (L5 p r w eq_refl Erel eq_refl Ew) as [K1 K2 K3 K4 K6 K7 K8].
  pose proof (write_rel_liveK cf (s_now s) (s_changes s) (s_last s) HK L2 p Hhs K2) as H. lazy zeta in H.
  pose proof (write_rel_ha cf (s_now s) (s_changes s) p) as Hha.
  pose proof (write_rel_an cf (s_now s) (s_changes s) p) as Han.
  destruct (write_rel cf (s_now s) (s_changes s) p) as [p1 out]. cbn [fst snd] in *.
  destruct H as (W1 & W2 & W3 & W4 & W5 & _).
  klinv_split; cbn; try rewrite Er; try assumption.
  intros q r' w' Hq Hqrel Hr' Hw'. inversion Hq; subst q. inversion Hr'; subst r'.
  assert (w' = w) by congruence. subst w'.
  constructor; cbn.
  - intros _. assumption.
  - lia.
  - lia.
  - lia.
  - destruct W5 as [[_ ->]|[_ ->]]; lia.
  - assumption.
  - apply Forall_app; split.
    + eapply Forall_impl; [|exact K8]. intros d. apply kldg_mono; lia.
    + apply Forall_filter. eapply Forall_impl; [|exact W3]. intros d. apply khdg_kldg. lia.
Qed.

(* --- delivery to the reader *)
Definition KRL (hbc : Z) (w : wproxy) : Prop := 0 <= wp_hb w <= hbc /\ wp_frags w = [].

Lemma deliver_sub_R_liveK hbc last wan cf r w m r1 out :
  rd_wp r = Some w -> KRL hbc w -> klsub hbc last wan m ->
  deliver_sub_R cf r m = (r1, out) ->
  exists w1, rd_wp r1 = Some w1 /\ rd_alive r1 = rd_alive r /\ rd_rel r1 = rd_rel r /\ KRL hbc w1 /\
     wp_an w <= wp_an w1 /\ Forall (kldg hbc last (wp_an w1)) out.
Proof.
  intros Ew (R1 & R3) Hm E. unfold deliver_sub_R in E. rewrite Ew in E.
  destruct m as [c|c k|a b|f l c| |]; cbn in Hm; try contradiction.
  - destruct (on_data (rd_rel r) w c) as [w1 oc] eqn:Ed. inversion E; subst.
    destruct (on_data_fields _ _ _ _ _ Ed) as (F1 & F2 & F3 & F4).
    exists w1. destruct (rd_present_proj r w1 oc) as [P1 P2].
    refine (conj P1 (conj _ (conj _ (conj _ (conj _ _))))); try (destruct oc; reflexivity); try constructor; try lia.
    all: try (unfold KRL; split; [lia|auto]). all: try (apply F4; assumption).
  - inversion E; subst. exists (on_gap w a b). cbn [rd_present rd_wp rd_alive rd_rel].
    assert (F : wp_hb (on_gap w a b) = wp_hb w /\ wp_an (on_gap w a b) = wp_an w /\
                wp_frags (on_gap w a b) = wp_frags w).
    { unfold on_gap. destruct (_ && _); cbn; tauto. }
    destruct F as (F1 & F2 & F4).
    refine (conj eq_refl (conj eq_refl (conj eq_refl (conj _ (conj _ _))))); try constructor; try lia.
    all: try (unfold KRL; split; [lia|rewrite F4; assumption]). all: try (rewrite F4; assumption).
  - destruct Hm as [Hf1 [Hc1 Hc2]].
    assert (Ef0 : f <=? 0 = false) by (apply Z.leb_gt; lia). rewrite Ef0 in E.
    destruct (on_hb cf w f l c) as [w1 o] eqn:Eh.
    rewrite (on_hb_nofrag cf w f l c R3) in Eh.
    assert (Hr1 : rd_wp r1 = Some w1 /\ rd_alive r1 = rd_alive r /\ rd_rel r1 = rd_rel r /\ out = o).
    { destruct (hist_received (rd_wp (rd_present r w1 None))); inversion E; subst; cbn; auto. }
    destruct Hr1 as (Q1 & Q2 & Q3 & ->). exists w1.
    destruct (Z.ltb_spec (wp_hb w) c) as [Hlt|Hge]; inversion Eh; subst w1 o.
    + refine (conj Q1 (conj Q2 (conj Q3 (conj _ (conj _ _))))); cbn [wp_an].
      * unfold KRL; cbn. split; [lia|reflexivity].
      * lia.
      * constructor; [|constructor]. unfold kldg; cbn. constructor; [cbn; lia|constructor].
    + refine (conj Q1 (conj Q2 (conj Q3 (conj _ (conj _ _))))); [unfold KRL; tauto|lia|constructor].
  - inversion E; subst. exists w.
    refine (conj Ew (conj eq_refl (conj eq_refl (conj _ (conj _ _))))); [unfold KRL; tauto|lia|constructor].
Qed.

Lemma deliver_subs_R_liveK hbc last wan cf l : forall r w acc r1 out,
  rd_wp r = Some w -> KRL hbc w -> Forall (klsub hbc last wan) l ->
  Forall (kldg hbc last (wp_an w)) acc ->
  deliver_subs_R cf r l acc = (r1, out) ->
  exists w1, rd_wp r1 = Some w1 /\ rd_alive r1 = rd_alive r /\ rd_rel r1 = rd_rel r /\ KRL hbc w1 /\
     wp_an w <= wp_an w1 /\ Forall (kldg hbc last (wp_an w1)) out.
Proof.
  induction l as [|m t IH]; intros r w acc r1 out Ew HR Hl Ha E; cbn in E.
  - inversion E; subst. exists w. refine (conj Ew (conj eq_refl (conj eq_refl (conj HR (conj _ Ha))))). lia.
  - inversion Hl; subst. destruct (deliver_sub_R cf r m) as [r' o] eqn:Em.
    destruct (deliver_sub_R_liveK hbc last wan cf r w m r' o Ew HR H1 Em) as (w' & A & B & B' & C & D & F).
    assert (Hacc : Forall (kldg hbc last (wp_an w')) (acc ++ o)).
    { apply Forall_app; split; [|assumption]. eapply Forall_impl; [|exact Ha]. intros d. apply kldg_mono; lia. }
    destruct (IH r' w' (acc ++ o) r1 out A C H2 Hacc E) as (w1 & A1 & B1 & B1' & C1 & D1 & F1).
    exists w1. refine (conj A1 (conj _ (conj _ (conj C1 (conj _ F1))))); try congruence. lia.
Qed.

Lemma KLOk_deliver_R cf s b p r w d rest r1 out :
  s_rdead s = false -> KLOk b s p w -> rd_wp r = Some w -> In d (s_net s) ->
  (forall x, In x rest -> In x (s_net s)) ->
  deliver_subs_R cf r (dg_subs d) [] = (r1, out) ->
  exists w1, rd_wp r1 = Some w1 /\ rd_alive r1 = rd_alive r /\ rd_rel r1 = rd_rel r /\
    KLOk b (send (set_rd (set_net s rest) (Some r1)) out) p w1.
Proof.
  intros Hdead [K1 K2 K3 K4 K6 K7 K8] Ew Hd Hrest E.
  assert (Hsubs : Forall (klsub (rp_hbc p) (s_last s) (wp_an w)) (dg_subs d)).
  { rewrite Forall_forall in K8. apply (K8 d Hd). }
  destruct (deliver_subs_R_liveK (rp_hbc p) (s_last s) (wp_an w) cf (dg_subs d) r w [] r1 out Ew
              (conj K3 K7) Hsubs (Forall_nil _) E) as (w1 & A & B & B' & (C1 & C3) & D & F).
  exists w1. refine (conj A (conj B (conj B' _))). constructor; cbn; try assumption; try lia.
  apply Forall_app; split.
  - rewrite Forall_forall in *. intros x Hx. eapply kldg_mono; [apply Z.le_refl|exact D|]. apply K8. apply Hrest. assumption.
  - apply Forall_filter. assumption.
Qed.

(* --- delivery of a submessage to the writer *)
Lemma KLOk_deliver_sub_W cf s b p w m :
  KS s -> unfrag cf (s_changes s) -> s_rdead s = false ->
  s_rp s = Some p -> rp_rel p = true -> KLOk b s p w ->
  klsub (rp_hbc p) (s_last s) (wp_an w) m ->
  exists q, s_rp (deliver_sub_W cf s m) = Some q /\ rp_static q = rp_static p /\
            KLOk b (deliver_sub_W cf s m) q w /\ rp_hbc p <= rp_hbc q.
Proof.
  intros (HG & HN & [HK Hp]) Hu Hdead Ep Hrel [K1 K2 K3 K4 K6 K7 K8] Hl.
  rewrite Ep in Hp. destruct Hp as [Hhs Hfr].
  unfold deliver_sub_W. rewrite Ep.
  destruct m as [c|c k|a b0|f l c|base set count|sn base set count]; cbn in Hl; try contradiction;
    try (exists p; refine (conj Ep (conj eq_refl (conj _ _))); [constructor; assumption|lia]).
  unfold on_acknack. replace (rp_rel p && (rp_an p <? count)) with (rp_an p <? count) by (rewrite Hrel; reflexivity).
  destruct (Z.ltb_spec (rp_an p) count) as [Hacc|Hnacc].
  2:{ exists p. cbn. refine (conj eq_refl (conj eq_refl (conj _ _))); [|lia].
      constructor; cbn; try assumption. rewrite app_nil_r. assumption. }
  lazy beta iota zeta.
  set (p1 := mkRP (rp_rel p) (rp_tl p) (rp_hs p) (if rp_ha p <? base - 1 then base - 1 else rp_ha p)
                  (req_add (rp_req p) set) (rp_fr p) count (rp_nf p) (rp_hbc p) (rp_hbt p)).
  assert (Hha1 : 0 <= rp_ha p1) by (cbn; destruct (rp_ha p <? base - 1) eqn:E; [apply Z.ltb_lt in E; lia|assumption]).
  pose proof (write_rel_liveK cf (s_now s) (s_changes s) (s_last s) HK Hu p1 Hhs Hha1) as H. lazy zeta in H.
  pose proof (write_rel_static cf (s_now s) (s_changes s) p1) as Hst.
  pose proof (write_rel_an cf (s_now s) (s_changes s) p1) as Han.
  pose proof (write_rel_ha cf (s_now s) (s_changes s) p1) as Hha.
  destruct (write_rel cf (s_now s) (s_changes s) p1) as [p2 out]. cbn [fst snd] in *.
  destruct H as (W1 & W2 & W3 & W4 & W5 & _).
  exists p2.
  assert (E1 : rp_hbc p1 = rp_hbc p) by reflexivity.
  assert (E2 : rp_hbt p1 = rp_hbt p) by reflexivity.
  assert (E3 : rp_an p1 = count) by reflexivity.
  assert (HL : KLOk b (send (set_rp s (Some p2)) out) p2 w).
  { constructor; cbn.
    - intros _. assumption.
    - lia.
    - lia.
    - lia.
    - destruct W5 as [[_ ->]|[_ ->]]; lia.
    - assumption.
    - apply Forall_app; split.
      + eapply Forall_impl; [|exact K8]. intros d. apply kldg_mono; lia.
      + apply Forall_filter. eapply Forall_impl; [|exact W3]. intros d. apply khdg_kldg. lia. }
  destruct (is_acked (Some p2) (s_last s)).
  - refine (conj eq_refl (conj Hst (conj _ _))); [destruct HL; constructor; assumption|rewrite <- E1; exact W2].
  - refine (conj eq_refl (conj Hst (conj HL _))). rewrite <- E1; exact W2.
Qed.
