(* C01/C03/C04 — liveness for histories with holes, part 2: the counter invariant of the live class and the
   healing invariant, re-based on KS (general soundness invariant + the class facts of RelLiveG.v). *)
From DustDDS Require Import Base.Machine Proto.RelModel Proto.RelProofs Proto.RelSound Proto.RelSoundG Proto.RelLive Proto.RelLiveG.
Open Scope Z_scope.

(* ------------------------------------------------------------------ the live-class invariant *)
Definition klsub (hbc last wan : Z) (m : submsg) : Prop :=
  match m with
  | SHb f l c => 1 <= f /\ 1 <= c <= hbc /\ (c = hbc -> l = last /\ (0 < last -> f <= last))
  | SAck b set c => c <= wan
  | SFrag _ _ | SNack _ _ _ _ => False
  | _ => True
  end.
Definition kldg (hbc last wan : Z) (d : dgram) : Prop := Forall (klsub hbc last wan) (dg_subs d).

Lemma kldg_mono hbc hbc' last wan wan' d :
  hbc <= hbc' -> wan <= wan' -> kldg hbc last wan d -> kldg hbc' last wan' d.
Proof.
  intros A B H. unfold kldg in *. eapply Forall_impl; [|exact H]. intros m.
  destruct m; cbn; try tauto; try lia.
Qed.

Lemma kldg_mono_write hbc hbc' last last' wan d :
  hbc < hbc' -> kldg hbc last wan d -> kldg hbc' last' wan d.
Proof.
  intros A H. unfold kldg in *. eapply Forall_impl; [|exact H]. intros m.
  destruct m; cbn; try tauto; try lia.
Qed.

Lemma khdg_kldg lo hi last wan d : 0 <= lo -> khdg lo hi last d -> kldg hi last wan d.
Proof.
  intros H0 [_ H]. unfold kldg. eapply Forall_impl; [|exact H]. intros m. destruct m; cbn; try tauto.
  intros (A & B & C & D). split; [assumption|]. split; [lia|]. intros _. split; assumption.
Qed.

Record KLOk (strict : bool) (s : state) (p : rproxy) (w : wproxy) : Prop := mkKLOk {
  kl_hs : strict = true -> rp_hs p = s_last s;
  kl_ha0 : 0 <= rp_ha p;
  kl_hb : 0 <= wp_hb w <= rp_hbc p;
  kl_an : rp_an p <= wp_an w;
  kl_hbt : rp_hbt p <= s_now s;
  kl_frags : wp_frags w = [];
  kl_net : Forall (kldg (rp_hbc p) (s_last s) (wp_an w)) (s_net s)
}.

Definition KLInv (strict : bool) (cf : cfg) (s : state) : Prop :=
  0 <= s_now s /\ unfrag cf (s_changes s) /\ s_rdead s = false /\
  (forall r, s_rd s = Some r -> rd_alive r = true) /\
  forall p r w, s_rp s = Some p -> rp_rel p = true -> s_rd s = Some r -> rd_wp r = Some w -> KLOk strict s p w.

Ltac klinv_split := split; [|split; [|split; [|split]]].

Lemma KLInv_weaken cf s : KLInv true cf s -> KLInv false cf s.
Proof.
  intros (A & B & C & D & E). klinv_split; try assumption. intros p r w H1 H2 H3 H4.
  destruct (E p r w H1 H2 H3 H4). constructor; try assumption. discriminate.
Qed.

Lemma filter_rdead_false (dead : bool) out : dead = false -> filter (fun d : dgram => negb (dg_toR d && dead)) out = out.
Proof. intros ->. induction out as [|x t IH]; cbn; [reflexivity|]. rewrite andb_false_r. cbn. f_equal. assumption. Qed.

(* --- poke *)
Lemma KLInv_poke cf s b : KS s -> KLInv b cf s -> KLInv true cf (poke cf s).
Proof.
  intros (HG & HN & [HK Hp]) (L1 & L2 & L3 & L4 & L5). unfold poke.
  destruct (s_rp s) as [p|] eqn:Ep.
  2:{ klinv_split; try assumption. intros q r w Hq. congruence. }
  destruct Hp as [Hhs Hfr].
  unfold write_message. destruct (rp_rel p) eqn:Erel.
  2:{ pose proof (write_be_static (S (2 * length (s_changes s))) cf (s_changes s) p []) as Hs.
      destruct (write_be_loop (S (2 * length (s_changes s))) cf (s_changes s) p []) as [p1 out]. cbn [fst] in Hs.
      apply static_fr in Hs. destruct Hs as (_ & Hrel & _).
      klinv_split; try assumption. intros q r w Hq Hqrel. cbn in Hq. inversion Hq; subst. congruence. }
  destruct (s_rd s) as [r|] eqn:Er.
  2:{ destruct (write_rel cf (s_now s) (s_changes s) p) as [p1 out].
      klinv_split; cbn; try rewrite Er; try assumption. intros q r w _ _ Hr. discriminate. }
  destruct (rd_wp r) as [w|] eqn:Ew.
  2:{ destruct (write_rel cf (s_now s) (s_changes s) p) as [p1 out].
      klinv_split; cbn; try rewrite Er; try assumption. intros q r' w _ _ Hr Hw. inversion Hr; subst. congruence. }
  destruct (L5 p r w eq_refl Erel eq_refl Ew) as [K1 K2 K3 K4 K6 K7 K8].
  pose proof (write_rel_liveK cf (s_now s) (s_changes s) (s_last s) HK L2 p Hhs K2) as H. lazy zeta in H.
  pose proof (write_rel_ha cf (s_now s) (s_changes s) p) as Hha.
  pose proof (write_rel_an cf (s_now s) (s_changes s) p) as Han.
  destruct (write_rel cf (s_now s) (s_changes s) p) as [p1 out]. cbn [fst snd] in *.
  destruct H as (W1 & W2 & W3 & W4 & W5 & _).
  klinv_split; cbn; try rewrite Er; try assumption.
  intros q r' w' Hq Hqrel Hr' Hw'. inversion Hq; subst q. inversion Hr'; subst r'.
  assert (w' = w) by congruence. subst w'.
  constructor; cbn.
  - intros _. assumption.
  - lia.
  - lia.
  - lia.
  - destruct W5 as [[_ ->]|[_ ->]]; lia.
  - assumption.
  - apply Forall_app; split.
    + eapply Forall_impl; [|exact K8]. intros d. apply kldg_mono; lia.
    + apply Forall_filter. eapply Forall_impl; [|exact W3]. intros d. apply khdg_kldg. lia.
Qed.

(* --- delivery to the reader *)
Definition KRL (hbc : Z) (w : wproxy) : Prop := 0 <= wp_hb w <= hbc /\ wp_frags w = [].

Lemma deliver_sub_R_liveK hbc last wan cf r w m r1 out :
  rd_wp r = Some w -> KRL hbc w -> klsub hbc last wan m ->
  deliver_sub_R cf r m = (r1, out) ->
  exists w1, rd_wp r1 = Some w1 /\ rd_alive r1 = rd_alive r /\ rd_rel r1 = rd_rel r /\ KRL hbc w1 /\
     wp_an w <= wp_an w1 /\ Forall (kldg hbc last (wp_an w1)) out.
Proof.
  intros Ew (R1 & R3) Hm E. unfold deliver_sub_R in E. rewrite Ew in E.
  destruct m as [c|c k|a b|f l c| |]; cbn in Hm; try contradiction.
  - destruct (on_data (rd_rel r) w c) as [w1 oc] eqn:Ed. inversion E; subst.
    destruct (on_data_fields _ _ _ _ _ Ed) as (F1 & F2 & F3 & F4).
    exists w1. destruct (rd_present_proj r w1 oc) as [P1 P2].
    refine (conj P1 (conj _ (conj _ (conj _ (conj _ _))))); try (destruct oc; reflexivity); try constructor; try lia.
    all: try (unfold KRL; split; [lia|auto]). all: try (apply F4; assumption).
  - inversion E; subst. exists (on_gap w a b). cbn [rd_present rd_wp rd_alive rd_rel].
    assert (F : wp_hb (on_gap w a b) = wp_hb w /\ wp_an (on_gap w a b) = wp_an w /\
                wp_frags (on_gap w a b) = wp_frags w).
    { unfold on_gap. destruct (_ && _); cbn; tauto. }
    destruct F as (F1 & F2 & F4).
    refine (conj eq_refl (conj eq_refl (conj eq_refl (conj _ (conj _ _))))); try constructor; try lia.
    all: try (unfold KRL; split; [lia|rewrite F4; assumption]). all: try (rewrite F4; assumption).
  - destruct Hm as [Hf1 [Hc1 Hc2]].
    assert (Ef0 : f <=? 0 = false) by (apply Z.leb_gt; lia). rewrite Ef0 in E.
    destruct (on_hb cf w f l c) as [w1 o] eqn:Eh.
    rewrite (on_hb_nofrag cf w f l c R3) in Eh.
    assert (Hr1 : rd_wp r1 = Some w1 /\ rd_alive r1 = rd_alive r /\ rd_rel r1 = rd_rel r /\ out = o).
    { destruct (hist_received (rd_wp (rd_present r w1 None))); inversion E; subst; cbn; auto. }
    destruct Hr1 as (Q1 & Q2 & Q3 & ->). exists w1.
    destruct (Z.ltb_spec (wp_hb w) c) as [Hlt|Hge]; inversion Eh; subst w1 o.
    + refine (conj Q1 (conj Q2 (conj Q3 (conj _ (conj _ _))))); cbn [wp_an].
      * unfold KRL; cbn. split; [lia|reflexivity].
      * lia.
      * constructor; [|constructor]. unfold kldg; cbn. constructor; [cbn; lia|constructor].
    + refine (conj Q1 (conj Q2 (conj Q3 (conj _ (conj _ _))))); [unfold KRL; tauto|lia|constructor].
  - inversion E; subst. exists w.
    refine (conj Ew (conj eq_refl (conj eq_refl (conj _ (conj _ _))))); [unfold KRL; tauto|lia|constructor].
Qed.

Lemma deliver_subs_R_liveK hbc last wan cf l : forall r w acc r1 out,
  rd_wp r = Some w -> KRL hbc w -> Forall (klsub hbc last wan) l ->
  Forall (kldg hbc last (wp_an w)) acc ->
  deliver_subs_R cf r l acc = (r1, out) ->
  exists w1, rd_wp r1 = Some w1 /\ rd_alive r1 = rd_alive r /\ rd_rel r1 = rd_rel r /\ KRL hbc w1 /\
     wp_an w <= wp_an w1 /\ Forall (kldg hbc last (wp_an w1)) out.
Proof.
  induction l as [|m t IH]; intros r w acc r1 out Ew HR Hl Ha E; cbn in E.
  - inversion E; subst. exists w. refine (conj Ew (conj eq_refl (conj eq_refl (conj HR (conj _ Ha))))). lia.
  - inversion Hl; subst. destruct (deliver_sub_R cf r m) as [r' o] eqn:Em.
    destruct (deliver_sub_R_liveK hbc last wan cf r w m r' o Ew HR H1 Em) as (w' & A & B & B' & C & D & F).
    assert (Hacc : Forall (kldg hbc last (wp_an w')) (acc ++ o)).
    { apply Forall_app; split; [|assumption]. eapply Forall_impl; [|exact Ha]. intros d. apply kldg_mono; lia. }
    destruct (IH r' w' (acc ++ o) r1 out A C H2 Hacc E) as (w1 & A1 & B1 & B1' & C1 & D1 & F1).
    exists w1. refine (conj A1 (conj _ (conj _ (conj C1 (conj _ F1))))); try congruence. lia.
Qed.

Lemma KLOk_deliver_R cf s b p r w d rest r1 out :
  s_rdead s = false -> KLOk b s p w -> rd_wp r = Some w -> In d (s_net s) ->
  (forall x, In x rest -> In x (s_net s)) ->
  deliver_subs_R cf r (dg_subs d) [] = (r1, out) ->
  exists w1, rd_wp r1 = Some w1 /\ rd_alive r1 = rd_alive r /\ rd_rel r1 = rd_rel r /\
    KLOk b (send (set_rd (set_net s rest) (Some r1)) out) p w1.
Proof.
  intros Hdead [K1 K2 K3 K4 K6 K7 K8] Ew Hd Hrest E.
  assert (Hsubs : Forall (klsub (rp_hbc p) (s_last s) (wp_an w)) (dg_subs d)).
  { rewrite Forall_forall in K8. apply (K8 d Hd). }
  destruct (deliver_subs_R_liveK (rp_hbc p) (s_last s) (wp_an w) cf (dg_subs d) r w [] r1 out Ew
              (conj K3 K7) Hsubs (Forall_nil _) E) as (w1 & A & B & B' & (C1 & C3) & D & F).
  exists w1. refine (conj A (conj B (conj B' _))). constructor; cbn; try assumption; try lia.
  apply Forall_app; split.
  - rewrite Forall_forall in *. intros x Hx. eapply kldg_mono; [apply Z.le_refl|exact D|]. apply K8. apply Hrest. assumption.
  - apply Forall_filter. assumption.
Qed.

(* --- delivery of a submessage to the writer *)
Lemma KLOk_deliver_sub_W cf s b p w m :
  KS s -> unfrag cf (s_changes s) -> s_rdead s = false ->
  s_rp s = Some p -> rp_rel p = true -> KLOk b s p w ->
  klsub (rp_hbc p) (s_last s) (wp_an w) m ->
  exists q, s_rp (deliver_sub_W cf s m) = Some q /\ rp_static q = rp_static p /\
            KLOk b (deliver_sub_W cf s m) q w /\ rp_hbc p <= rp_hbc q.
Proof.
  intros (HG & HN & [HK Hp]) Hu Hdead Ep Hrel [K1 K2 K3 K4 K6 K7 K8] Hl.
  rewrite Ep in Hp. destruct Hp as [Hhs Hfr].
  unfold deliver_sub_W. rewrite Ep.
  destruct m as [c|c k|a b0|f l c|base set count|sn base set count]; cbn in Hl; try contradiction;
    try (exists p; refine (conj Ep (conj eq_refl (conj _ _))); [constructor; assumption|lia]).
  unfold on_acknack. replace (rp_rel p && (rp_an p <? count)) with (rp_an p <? count) by (rewrite Hrel; reflexivity).
  destruct (Z.ltb_spec (rp_an p) count) as [Hacc|Hnacc].
  2:{ exists p. cbn. refine (conj eq_refl (conj eq_refl (conj _ _))); [|lia].
      constructor; cbn; try assumption. rewrite app_nil_r. assumption. }
  lazy beta iota zeta.
  set (p1 := mkRP (rp_rel p) (rp_tl p) (rp_hs p) (if rp_ha p <? base - 1 then base - 1 else rp_ha p)
                  (req_add (rp_req p) set) (rp_fr p) count (rp_nf p) (rp_hbc p) (rp_hbt p)).
  assert (Hha1 : 0 <= rp_ha p1) by (cbn; destruct (rp_ha p <? base - 1) eqn:E; [apply Z.ltb_lt in E; lia|assumption]).
  pose proof (write_rel_liveK cf (s_now s) (s_changes s) (s_last s) HK Hu p1 Hhs Hha1) as H. lazy zeta in H.
  pose proof (write_rel_static cf (s_now s) (s_changes s) p1) as Hst.
  pose proof (write_rel_an cf (s_now s) (s_changes s) p1) as Han.
  pose proof (write_rel_ha cf (s_now s) (s_changes s) p1) as Hha.
  destruct (write_rel cf (s_now s) (s_changes s) p1) as [p2 out]. cbn [fst snd] in *.
  destruct H as (W1 & W2 & W3 & W4 & W5 & _).
  exists p2.
  assert (E1 : rp_hbc p1 = rp_hbc p) by reflexivity.
  assert (E2 : rp_hbt p1 = rp_hbt p) by reflexivity.
  assert (E3 : rp_an p1 = count) by reflexivity.
  assert (HL : KLOk b (send (set_rp s (Some p2)) out) p2 w).
  { constructor; cbn.
    - intros _. assumption.
    - lia.
    - lia.
    - lia.
    - destruct W5 as [[_ ->]|[_ ->]]; lia.
    - assumption.
    - apply Forall_app; split.
      + eapply Forall_impl; [|exact K8]. intros d. apply kldg_mono; lia.
      + apply Forall_filter. eapply Forall_impl; [|exact W3]. intros d. apply khdg_kldg. lia. }
  destruct (is_acked (Some p2) (s_last s)).
  - refine (conj eq_refl (conj Hst (conj _ _))); [destruct HL; constructor; assumption|rewrite <- E1; exact W2].
  - refine (conj eq_refl (conj Hst (conj HL _))). rewrite <- E1; exact W2.
Qed.

(* ------------------------------------------------------------------ state-level preservation *)
Definition KLive (b : bool) (cf : cfg) (s : state) : Prop := KS s /\ KLInv b cf s.

Lemma KLOk_subnet b s p w n : KLOk b s p w -> (forall x, In x n -> In x (s_net s)) -> KLOk b (set_net s n) p w.
Proof.
  intros [K1 K2 K3 K4 K6 K7 K8] Hn. constructor; cbn; try assumption.
  rewrite Forall_forall in *. intros x Hx. apply K8. apply Hn. assumption.
Qed.

Lemma KS_deliver_sub_W cf s m : KS s ->
  (forall p, s_rp s = Some p -> gsub (rp_fr p) (s_changes s) (presented s) (s_last s) (rp_rel p) m) ->
  KS (deliver_sub_W cf s m).
Proof.
  intros (HG & HN & HK) Hm. destruct (s_rp s) as [p|] eqn:Ep.
  - split; [split; [apply deliver_sub_W_SInv; apply HG|eapply GI_deliver_sub_W; [exact HG|exact Ep|apply Hm; reflexivity]]|].
    split; [|apply KI_deliver_sub_W; assumption].
    intros Hn. rewrite deliver_sub_W_rd in Hn. destruct (HN Hn) as [_ Hp]. congruence.
  - assert (Hs : deliver_sub_W cf s m = s) by (unfold deliver_sub_W; rewrite Ep; reflexivity).
    rewrite Hs. split; [|split]; assumption.
Qed.

Lemma KLive_fold_W cf b l : forall s, KLive b cf s ->
  (forall p, s_rp s = Some p -> Forall (gsub (rp_fr p) (s_changes s) (presented s) (s_last s) (rp_rel p)) l) ->
  (forall p r w, s_rp s = Some p -> rp_rel p = true -> s_rd s = Some r -> rd_wp r = Some w ->
     Forall (klsub (rp_hbc p) (s_last s) (wp_an w)) l) ->
  KLive b cf (fold_left (deliver_sub_W cf) l s).
Proof.
  induction l as [|m t IH]; intros s HL Hn Hl; cbn [fold_left]; [assumption|].
  destruct HL as [HC (L1 & L2 & L3 & L4 & L5)].
  assert (HC1 : KS (deliver_sub_W cf s m)).
  { apply KS_deliver_sub_W; [assumption|]. intros p Ep. specialize (Hn p Ep). inversion Hn; assumption. }
  destruct (core_proj _ _ (deliver_sub_W_core cf s m)) as (C1 & C2 & _ & C4 & C5).
  destruct (deliver_sub_W_frame cf s m) as (F1 & F2 & F3).
  apply IH.
  - split; [assumption|]. klinv_split; try congruence.
    + rewrite C1. assumption.
    + intros r Hr. apply L4. congruence.
    + intros p' r w Ep' Hrel' Er Ew. rewrite F1 in Er.
      destruct (s_rp s) as [p|] eqn:Ep.
      2:{ assert (Hs : deliver_sub_W cf s m = s) by (unfold deliver_sub_W; rewrite Ep; reflexivity).
          rewrite Hs in Ep'. congruence. }
      destruct (F3 p eq_refl) as [q [Eq Hst]]. assert (p' = q) by congruence. subst p'.
      apply static_fr in Hst. destruct Hst as (_ & Hrelq & _).
      assert (Hrel : rp_rel p = true) by congruence.
      specialize (Hl p r w eq_refl Hrel Er Ew). inversion Hl; subst.
      destruct (KLOk_deliver_sub_W cf s b p w m HC L2 L3 Ep Hrel (L5 p r w eq_refl Hrel Er Ew) H1) as (q' & Eq' & _ & HLq & _).
      assert (q' = q) by congruence. subst q'. exact HLq.
  - intros q Eq. rewrite deliver_sub_W_presented, C1, C2.
    destruct (s_rp s) as [p|] eqn:Ep.
    2:{ assert (Hs : deliver_sub_W cf s m = s) by (unfold deliver_sub_W; rewrite Ep; reflexivity).
        rewrite Hs in Eq. congruence. }
    destruct (F3 p eq_refl) as [q' [Eq' Hst]]. assert (q' = q) by congruence. subst q'.
    apply static_fr in Hst. destruct Hst as (Hfr & Hrl & _). rewrite Hfr, Hrl.
    specialize (Hn p eq_refl). inversion Hn; assumption.
  - intros q r w Eq Hrelq Er Ew. rewrite F1 in Er. rewrite C2.
    destruct (s_rp s) as [p|] eqn:Ep.
    2:{ assert (Hs : deliver_sub_W cf s m = s) by (unfold deliver_sub_W; rewrite Ep; reflexivity).
        rewrite Hs in Eq. congruence. }
    destruct (F3 p eq_refl) as [q' [Eq' Hst]]. assert (q' = q) by congruence. subst q'.
    apply static_fr in Hst. destruct Hst as (_ & Hrelq' & _).
    assert (Hrel : rp_rel p = true) by congruence.
    pose proof (Hl p r w eq_refl Hrel Er Ew) as Hl'. inversion Hl'; subst.
    destruct (KLOk_deliver_sub_W cf s b p w m HC L2 L3 Ep Hrel (L5 p r w eq_refl Hrel Er Ew) H1) as (q' & Eq'' & _ & _ & Hmono).
    assert (q' = q) by congruence. subst q'.
    eapply Forall_impl; [|exact H2]. intros x Hx.
    destruct x; cbn in *; try tauto; try lia.
Qed.

Lemma deliver_subs_R_alive cf : forall l r acc r1 out, deliver_subs_R cf r l acc = (r1, out) -> rd_alive r1 = rd_alive r.
Proof.
  induction l as [|m t IH]; intros r0 acc r2 out0 E0; cbn in E0; [inversion E0; reflexivity|].
  destruct (deliver_sub_R cf r0 m) as [r' o] eqn:Em. apply IH in E0. rewrite E0.
  unfold deliver_sub_R in Em. destruct (rd_wp r0) as [w0|]; [|inversion Em; reflexivity].
  destruct m; try (inversion Em; reflexivity).
  - destruct (on_data _ _ _) as [w1 oc]. inversion Em. destruct oc; reflexivity.
  - destruct (on_frag _ _ _ _ _) as [w1 oc]. inversion Em. destruct oc; reflexivity.
  - destruct (first <=? 0); [inversion Em; reflexivity|].
    destruct (on_hb _ _ _ _ _) as [w1 o1]. destruct (hist_received _); inversion Em; reflexivity.
Qed.

Lemma KS_gdg s p d : KS s -> s_rp s = Some p -> In d (s_net s) ->
  gdg (rp_fr p) (s_changes s) (presented s) (s_last s) (rp_rel p) d.
Proof.
  intros ((_ & _ & G) & _ & _) Ep Hd. rewrite Ep in G. destruct G as (_ & _ & C & _). rewrite Forall_forall in C. auto.
Qed.

Lemma KS_subnet s n : KS s -> (forall x, In x n -> In x (s_net s)) -> (s_rd s = None -> n = []) -> KS (set_net s n).
Proof.
  intros ((HS & HG) & HN & HK) Hn Hnil. split; [split|split].
  - apply SInv_set_net; [assumption|]. pose proof (si_net s HS) as H. rewrite Forall_forall in *. auto.
  - apply GI_subnet; assumption.
  - intros Hr. cbn in *. destruct (HN Hr) as [_ E2]. split; [auto|assumption].
  - exact HK.
Qed.

Lemma KLive_deliver cf b s d rest : KLive b cf s -> In d (s_net s) -> (forall x, In x rest -> In x (s_net s)) ->
  KLive b cf (deliver_dgram cf (set_net s rest) d).
Proof.
  intros [HC HL] Hd Hrest. split; [apply KS_deliver; assumption|].
  pose proof HC as (HG & HN & HK). pose proof HL as (L1 & L2 & L3 & L4 & L5).
  assert (HLr : KLive b cf (set_net s rest)).
  { split.
    - apply KS_subnet; [assumption|assumption|]. intros Hr. destruct (HN Hr) as [E1 _]. rewrite E1 in Hd. contradiction.
    - klinv_split; try assumption. intros p r w Ep Hrel Er Ew. apply KLOk_subnet; [|assumption]. apply (L5 p r w); assumption. }
  unfold deliver_dgram. destruct (dg_toR d) eqn:Edir.
  - cbn [s_rdead set_net]. rewrite L3. cbn [s_rd set_net].
    destruct (s_rd s) as [r|] eqn:Er; [|apply (proj2 HLr)].
    rewrite (L4 r eq_refl).
    destruct (deliver_subs_R cf r (dg_subs d) []) as [r1 out] eqn:E.
    assert (Halive : rd_alive r1 = true) by (rewrite (deliver_subs_R_alive cf _ _ _ _ _ E); exact (L4 r eq_refl)).
    destruct (rd_wp r) as [w|] eqn:Ew.
    2:{ rewrite (deliver_subs_R_nowp cf r (dg_subs d) [] Ew) in E. inversion E; subst r1 out.
        klinv_split; cbn; try assumption.
        all: try (intros r' Hr'; injection Hr' as <-; exact (L4 r eq_refl)).
        intros p r' w Ep Hrel Er' Ew'. injection Er' as <-. congruence. }
    destruct (s_rp s) as [p|] eqn:Ep.
    2:{ klinv_split; cbn; try assumption.
        all: try (intros r' Hr'; injection Hr' as <-; assumption).
        intros q r' w' Eq. congruence. }
    destruct (rp_rel p) eqn:Erel.
    2:{ klinv_split; cbn; try assumption.
        all: try (intros r' Hr'; injection Hr' as <-; assumption).
        intros q r' w' Eq Hq. congruence. }
    pose proof (L5 p r w eq_refl Erel eq_refl Ew) as HLOk.
    destruct (KLOk_deliver_R cf s b p r w d rest r1 out L3 HLOk Ew Hd Hrest E) as (w1 & Q1 & Q2 & Q3 & Q4).
    klinv_split; cbn; try assumption.
    all: try (intros r' Hr'; injection Hr' as <-; assumption).
    intros q r' w' Eq Hq Er' Ew'. assert (q = p) by congruence. subst q. injection Er' as <-.
    assert (w' = w1) by congruence. subst w'. exact Q4.
  - refine (proj2 (KLive_fold_W cf b (dg_subs d) (set_net s rest) HLr _ _)).
    + intros p Ep. cbn in Ep. apply (KS_gdg s p d HC Ep Hd).
    + intros p r w Ep Hrel Er Ew. cbn in *.
      destruct (L5 p r w Ep Hrel Er Ew) as [_ _ _ _ _ _ K8]. rewrite Forall_forall in K8. apply (K8 d Hd).
Qed.

Lemma KLive_poke cf b s : KLive b cf s -> KLive true cf (poke cf s).
Proof. intros [HC HL]. split; [apply KS_poke; assumption|eapply KLInv_poke; eassumption]. Qed.

Lemma KLive_pump cf fuel : forall s n, KLive true cf s -> KLive true cf (fst (pump fuel cf s n)).
Proof.
  induction fuel as [|f IH]; intros s n H; cbn [pump]; [assumption|].
  destruct (s_net s) as [|d t] eqn:En; [assumption|].
  apply IH. apply KLive_poke with (b := true). apply KLive_deliver; [assumption|rewrite En; left; reflexivity|].
  intros x Hx. rewrite En. right. assumption.
Qed.

Lemma KLive_same_elements cf b s n : KLive b cf s -> (forall x, In x n -> In x (s_net s)) ->
  (s_rd s = None -> n = []) -> KLive b cf (set_net s n).
Proof.
  intros [HC (L1 & L2 & L3 & L4 & L5)] Hn Hnil. split; [apply KS_subnet; assumption|].
  klinv_split; try assumption. intros p r w Ep Hrel Er Ew. apply KLOk_subnet; [|assumption]. apply (L5 p r w); assumption.
Qed.

Lemma KLive_dup cf b s d rest : KLive b cf s -> In d (s_net s) -> (forall x, In x rest -> In x (s_net s)) ->
  KLive b cf (deliver_dgram cf (poke cf (deliver_dgram cf (set_net s rest) d)) d).
Proof.
  intros HL Hd Hrest.
  assert (H0 : KLive b cf (set_net s (d :: rest))).
  { apply KLive_same_elements; [assumption| |].
    - intros x [<-|Hx]; auto.
    - intros Hr. destruct HL as [(_ & HN & _) _]. destruct (HN Hr) as [E _]. rewrite E in Hd. contradiction. }
  assert (H1 : KLive b cf (deliver_dgram cf (set_net (set_net s (d :: rest)) (d :: rest)) d)).
  { apply KLive_deliver; [assumption|left; reflexivity|auto]. }
  assert (E1 : set_net (set_net s (d :: rest)) (d :: rest) = add_front d (set_net s rest)) by reflexivity.
  rewrite E1, deliver_dgram_add_front in H1.
  apply KLive_poke in H1. rewrite poke_add_front in H1.
  set (s2 := poke cf (deliver_dgram cf (set_net s rest) d)) in *.
  pose proof (KLive_deliver cf true (add_front d s2) d (s_net s2) H1 (or_introl eq_refl)) as H2.
  rewrite set_net_add_front in H2. destruct H2 as [X Y]; [intros x Hx; right; assumption|].
  split; [assumption|]. destruct b; [assumption|apply KLInv_weaken; assumption].
Qed.

Lemma KLInv_write cf s key len sum : 0 < fsz cf -> 0 <= len <= fsz cf ->
  KLive true cf s -> KLive true cf (fst (step cf s (AWrite key len sum))).
Proof.
  intros Hf Hlen [HC HL].
  assert (Hla : live_act cf (AWrite key len sum) = true).
  { cbn. apply andb_true_intro. split; apply Z.leb_le; lia. }
  split; [apply KS_step; assumption|].
  pose proof (KS_act cf s (AWrite key len sum) Hla HC) as HC1.
  unfold step in *. cbn [act] in *.
  pose proof (do_write_frame cf s key len sum) as (F1 & F2 & F3 & F4 & F5 & F6 & F7).
  pose proof (do_write_spec cf s key len sum) as Hw.
  destruct (do_write cf s key len sum) as [s1 code]. cbn [fst snd] in *.
  destruct Hw as [[-> _]|[chs1 (W1 & W2 & W3 & W4 & W5 & W6)]].
  { eapply KLInv_poke; eassumption. }
  destruct HL as (L1 & L2 & L3 & L4 & L5).
  assert (Hu1 : unfrag cf (s_changes s1)).
  { rewrite W2. intros c Hc. apply in_app_or in Hc. destruct Hc as [Hc|[<-|[]]]; [apply L2; apply W1; assumption|].
    apply nfrags_le1; assumption. }
  pose proof HC1 as (HG1 & HN1 & [HK1 Hp1]).
  assert (Hun : 0 <= s_now s1 /\ s_rdead s1 = false /\ (forall r, s_rd s1 = Some r -> rd_alive r = true)).
  { rewrite F4, F7, F2. auto. }
  destruct Hun as (U1 & U3 & U4).
  unfold poke. rewrite F1 in *.
  destruct (s_rp s) as [p|] eqn:Ep.
  2:{ klinv_split; try assumption. intros q r w Eq. congruence. }
  destruct Hp1 as [Hhs1 Hfr1].
  unfold write_message. destruct (rp_rel p) eqn:Erel.
  2:{ pose proof (write_be_static (S (2 * length (s_changes s1))) cf (s_changes s1) p []) as Hs.
      destruct (write_be_loop (S (2 * length (s_changes s1))) cf (s_changes s1) p []) as [p1 out]. cbn [fst] in Hs.
      apply static_fr in Hs. destruct Hs as (_ & Hrel & _).
      klinv_split; cbn; try assumption.
      intros q r w Eq Hq. injection Eq as <-. congruence. }
  destruct (s_rd s) as [r|] eqn:Er.
  2:{ destruct (write_rel cf (s_now s1) (s_changes s1) p) as [p1 out].
      klinv_split; cbn; try assumption. intros q r w _ _ Hr. congruence. }
  destruct (rd_wp r) as [w|] eqn:Ew.
  2:{ destruct (write_rel cf (s_now s1) (s_changes s1) p) as [p1 out].
      klinv_split; cbn; try assumption.
      intros q r' w _ _ Hr Hw. assert (r' = r) by congruence. subst r'. congruence. }
  destruct (L5 p r w eq_refl Erel eq_refl Ew) as [K1 K2 K3 K4 K6 K7 K8].
  pose proof (write_rel_liveK cf (s_now s1) (s_changes s1) (s_last s1) HK1 Hu1 p Hhs1 K2) as H. lazy zeta in H.
  pose proof (write_rel_ha cf (s_now s1) (s_changes s1) p) as Hha.
  pose proof (write_rel_an cf (s_now s1) (s_changes s1) p) as Han.
  destruct (write_rel cf (s_now s1) (s_changes s1) p) as [p1 out]. cbn [fst snd] in *.
  destruct H as (V1 & V2 & V3 & V4 & V5 & _ & _ & V8).
  assert (Hfr0 : rp_fr p <= s_last s) by (destruct HC as (_ & _ & [_ X]); rewrite Ep in X; lia).
  assert (Hstrict : rp_hbc p < rp_hbc p1) by (apply V8; [rewrite (K1 eq_refl); lia|lia]).
  klinv_split; cbn; try assumption.
  intros q r' w' Eq Hq Er' Ew'. injection Eq as <-. assert (r' = r) by congruence. subst r'.
  assert (w' = w) by congruence. subst w'.
  constructor; cbn.
  - intros _. assumption.
  - lia.
  - lia.
  - lia.
  - destruct V5 as [[_ ->]|[_ ->]]; lia.
  - assumption.
  - apply Forall_app; split.
    + rewrite F3. eapply Forall_impl; [|exact K8]. intros d. apply kldg_mono_write. assumption.
    + apply Forall_filter. eapply Forall_impl; [|exact V3]. intros d. apply khdg_kldg. lia.
Qed.

(* states that differ only in fields the live invariant does not look at *)
Lemma KLInv_ext cf b s s' :
  KLInv b cf s -> s_now s <= s_now s' ->
  s_changes s' = s_changes s -> s_last s' = s_last s -> s_rp s' = s_rp s -> s_rdead s' = s_rdead s ->
  s_net s' = s_net s ->
  (forall r', s_rd s' = Some r' -> exists r, s_rd s = Some r /\ rd_alive r' = rd_alive r /\ rd_wp r' = rd_wp r) ->
  KLInv b cf s'.
Proof.
  intros (L1 & L2 & L3 & L4 & L5) Hnow Hc Hl Hp Hd Hn Hr. klinv_split.
  - lia.
  - rewrite Hc. assumption.
  - congruence.
  - intros r' Hr'. destruct (Hr r' Hr') as (r & E1 & E2 & _). rewrite E2. apply L4. assumption.
  - intros p r' w Ep Hrel Er' Ew. destruct (Hr r' Er') as (r & E1 & _ & E3).
    rewrite Hp in Ep. rewrite E3 in Ew. destruct (L5 p r w Ep Hrel E1 Ew) as [K1 K2 K3 K4 K6 K7 K8].
    constructor; try assumption; try (rewrite Hl; assumption); try lia. rewrite Hl, Hn. assumption.
Qed.

Lemma KLive_step cf s a : 0 < fsz cf -> live_act cf a = true ->
  KLive true cf s -> KLive true cf (fst (step cf s a)).
Proof.
  intros Hf Ha HL. pose proof HL as [HC HLI].
  assert (Simple : KLInv true cf (fst (act cf s a)) -> KLive true cf (fst (step cf s a))).
  { intros H. unfold step. pose proof (KS_act cf s a Ha HC) as HC1.
    destruct (act cf s a) as [s1 o]. cbn [fst] in *. apply KLive_poke with (b := true). split; assumption. }
  destruct a; try discriminate.
  - (* AWrite *) cbn in Ha. apply andb_prop in Ha. destruct Ha as [H1 H2]. apply Z.leb_le in H1. apply Z.leb_le in H2.
    apply KLInv_write; try assumption. lia.
  - (* ATick *) apply Simple. cbn [act fst].
    eapply KLInv_ext; [exact HLI|cbn; unfold tick_ms; lia|reflexivity|reflexivity|reflexivity|reflexivity|reflexivity|].
    intros r' Hr'. exists r'. auto.
  - (* ADeliver *) unfold step. cbn [act]. destruct (nth_error (s_net s) i) as [d|] eqn:E; cbn [fst].
    + apply KLive_poke with (b := true). apply KLive_deliver; [assumption|eapply nth_error_In; eassumption|].
      intros x Hx. eapply remove_nth_in. exact Hx.
    + apply KLive_poke with (b := true). assumption.
  - (* ADrop *) unfold step. cbn [act]. destruct (nth_error (s_net s) i) as [d|] eqn:E; cbn [fst].
    + apply KLive_poke with (b := true). apply KLive_same_elements; [assumption| |].
      * intros x Hx. eapply remove_nth_in. exact Hx.
      * intros Hr. destruct HC as (_ & HN & _). destruct (HN Hr) as [En _]. rewrite En in E. destruct i; discriminate.
    + apply KLive_poke with (b := true). assumption.
  - (* ADup *) unfold step. cbn [act]. destruct (nth_error (s_net s) i) as [d|] eqn:E; cbn [fst].
    + apply KLive_poke with (b := true). apply KLive_dup; [assumption|eapply nth_error_In; eassumption|].
      intros x Hx. eapply remove_nth_in. exact Hx.
    + apply KLive_poke with (b := true). assumption.
  - (* APump *) unfold step. cbn [act]. pose proof (KLive_pump cf pump_fuel s 0 HL) as Hp.
    destruct (pump pump_fuel cf s 0) as [s1 n]. cbn [fst] in *. apply KLive_poke with (b := true). assumption.
  - (* ATake *) apply Simple. cbn [act]. destruct (s_rd s) as [r|] eqn:Er; [|exact HLI].
    destruct (rd_alive r) eqn:Eal; cbn [fst]; [|exact HLI].
    eapply KLInv_ext; [exact HLI|cbn; lia|reflexivity|reflexivity|reflexivity|reflexivity|reflexivity|].
    intros r' Hr'. cbn in Hr'. injection Hr' as <-. exists r. cbn. auto.
  - (* AMatch *) unfold step. pose proof (KS_act cf s (AMatch rel tl) Ha HC) as HC1. cbn [act] in *.
    destruct (s_rd s) as [r|] eqn:Er; cbn [fst] in *; [apply KLive_poke with (b := true); assumption|].
    destruct HC as (HG & HN & HK). destruct (HN Er) as [Hnet Hrp]. rewrite Hrp in *. rewrite orb_false_r in *.
    destruct HLI as (L1 & L2 & L3 & L4 & L5). rewrite L3 in *.
    destruct (rxo_ok cf rel tl); cbn [fst] in *.
    + apply KLive_poke with (b := true). split; [exact HC1|].
      (* the state after the inner poke *)
      match type of HC1 with KS (poke cf ?st) =>
        assert (HKst : KS st /\ KLInv false cf st); [|destruct HKst as [X Y]; eapply KLInv_poke; eassumption] end.
      split.
      * (* KS of the freshly matched state: as in KS_act, before the poke *)
        split; [|split].
        -- pose proof (GS_act cf s (AMatch rel tl) HN HG) as Hx. cbn [act] in Hx. rewrite Er, Hrp, L3 in Hx. cbn [orb] in Hx.
           (* GS_act gives the state after the poke; redo the pre-poke part directly *)
           clear Hx. destruct HG as [HS [G0 _]]. split.
           ++ destruct HS as [S1 S2 S3 S4 S5]. constructor; cbn; try assumption.
              unfold ARInv, RInv, WOk; cbn. repeat split; constructor.
           ++ split; [exact G0|]. cbn.
              assert (Hack : AckOk (if tl then 0 else last_sn (s_changes s)) (s_changes s) [] (s_last s) 0).
              { split; [assumption|]. intros c Hc Hfr Hle. exfalso. destruct tl; [lia|].
                apply in_le_last_sn in Hc. lia. }
              unfold GP, RdPart, presented, RdOk. cbn. rewrite Hnet.
              split; [constructor|]. split; [intros _; exact Hack|]. split; [constructor|]. split; [reflexivity|].
              split; [lia|]. split; [lia|]. split; [lia|]. split; [constructor|]. intros _. exact Hack.
        -- intros Hn. cbn in Hn. discriminate.
        -- destruct HK as [HKC _]. split; [exact HKC|]. cbn. destruct HKC as (K0 & Kb & Kl). rewrite Kl. destruct tl; lia.
      * klinv_split; cbn; try assumption; try reflexivity.
        -- intros r' Hr'. injection Hr' as <-. reflexivity.
        -- intros p r' w Ep Hrel Er' Ew. injection Ep as <-. injection Er' as <-. cbn in Ew. injection Ew as <-.
           constructor; cbn; try lia; try reflexivity; try discriminate.
           rewrite Hnet. constructor.
    + apply KLive_poke with (b := true). split; [exact HC1|].
      klinv_split; cbn; try assumption; try reflexivity.
      * intros r' Hr'. injection Hr' as <-. reflexivity.
      * intros p r' w Ep. congruence.
  - (* AWfa *) apply Simple. cbn [act].
    destruct (is_acked (s_rp s) (s_last s)); cbn [fst];
      (eapply KLInv_ext; [exact HLI|cbn; lia|reflexivity|reflexivity|reflexivity|reflexivity|reflexivity|]);
      intros r' Hr'; exists r'; auto.
  - (* AWfaPoll *) apply Simple. cbn [act]. destruct (poll (s_waits s)) as [wl o]. cbn [fst].
    eapply KLInv_ext; [exact HLI|cbn; lia|reflexivity|reflexivity|reflexivity|reflexivity|reflexivity|].
    intros r' Hr'. exists r'. auto.
  - (* AWfh *) apply Simple. cbn [act].
    destruct (s_rd s) as [r|] eqn:Er; [|exact HLI].
    destruct (negb (rd_alive r)); [exact HLI|].
    destruct (negb (rd_tl r)); [exact HLI|].
    destruct (hist_received (rd_wp r)); cbn [fst];
      (eapply KLInv_ext; [exact HLI|cbn; lia|reflexivity|reflexivity|reflexivity|reflexivity|reflexivity|]);
      intros r' Hr'; cbn in Hr'; injection Hr' as <-; exists r; cbn; auto.
  - (* AWfhPoll *) apply Simple. cbn [act].
    destruct (s_rd s) as [r|] eqn:Er; [|exact HLI].
    destruct (poll (rd_hwaits r)) as [wl o]. cbn [fst].
    eapply KLInv_ext; [exact HLI|cbn; lia|reflexivity|reflexivity|reflexivity|reflexivity|reflexivity|].
    intros r' Hr'. cbn in Hr'. injection Hr' as <-. exists r. cbn. auto.
  - (* AQuery *) apply Simple. exact HLI.
  - (* ANow *) apply Simple. exact HLI.
Qed.

Lemma KLive_run cf l : 0 < fsz cf -> forallb (live_act cf) l = true ->
  forall s, KLive true cf s -> KLive true cf (run cf s l).
Proof.
  intros Hf. induction l as [|a t IH]; intros Hl s H; [exact H|]. cbn in Hl. apply andb_prop in Hl.
  destruct Hl as [Ha Ht]. rewrite run_cons. apply IH; [assumption|]. apply KLive_step; assumption.
Qed.

Lemma KLive_init cf : KLive true cf init.
Proof.
  split; [apply KS_init|]. klinv_split; cbn; try lia; try reflexivity.
  - intros c [].
  - intros r Hr. discriminate.
  - intros p r w Hp. discriminate.
Qed.
