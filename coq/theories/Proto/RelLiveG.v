(* C01/C03/C04 — liveness for histories WITH holes (KEEP_LAST with any number of instances), unfragmented
   samples, no explicit removal, no deletion: the healing argument of RelLive.v re-based on the general
   soundness invariant of RelSoundG.v.  After a heartbeat period (5 ticks) any loss-free delivery that
   drains the network leaves the reliable reader with every relevant change the writer holds. *)
From DustDDS Require Import Base.Machine Proto.RelModel Proto.RelProofs Proto.RelSound Proto.RelSoundG Proto.RelLive.
Open Scope Z_scope.

(* ------------------------------------------------------------------ the history cache of the class *)
(* sequence numbers are positive, the last written sample is held *)
Definition KC (chs : list change) (last : Z) : Prop :=
  0 <= last /\ (forall c, In c chs -> 1 <= c_sn c <= last) /\ last_sn chs = last.

Lemma KC_sns chs last n : KC chs last -> In n (sns chs) -> 1 <= n <= last.
Proof. intros (_ & H & _) Hin. unfold sns in Hin. apply in_map_iff in Hin. destruct Hin as [c [<- Hc]]. auto. Qed.

Lemma KC_last_in chs last : KC chs last -> 0 < last -> In last (sns chs).
Proof.
  intros (H0 & Hb & Hl) Hpos. unfold last_sn in Hl. destruct (zmax_list (sns chs)) as [m|] eqn:E; [|lia].
  apply zmax_list_spec in E. destruct E as [Hin _]. subst m. assumption.
Qed.

Lemma KC_first chs last : KC chs last -> 1 <= first_sn chs /\ (0 < last -> first_sn chs <= last).
Proof.
  intros HK. unfold first_sn. destruct (zmin_list (sns chs)) as [m|] eqn:E.
  - apply zmin_list_spec in E. destruct E as [Hin _]. pose proof (KC_sns chs last m HK Hin). lia.
  - split; [lia|]. intros Hpos. apply zmin_list_none in E. pose proof (KC_last_in chs last HK Hpos) as Hin.
    rewrite E in Hin. contradiction.
Qed.

(* ------------------------------------------------------------------ the unsent loop terminates *)
Section Term.
Variable chs : list change.

Definition nu (hs : Z) : option Z := zmin_list (filter (fun s => hs <? s) (sns chs)).
Definition cnt (hs : Z) : nat := length (filter (fun s => hs <? s) (sns chs)).
Definition adjb (hs : Z) : bool := match nu hs with Some n => negb (hs + 1 <? n) | None => true end.

Lemma next_unsent_nu p : next_unsent p chs = nu (rp_hs p).
Proof. reflexivity. Qed.

Lemma nu_spec hs n : nu hs = Some n -> In n (sns chs) /\ hs < n /\ forall x, In x (sns chs) -> hs < x -> n <= x.
Proof.
  unfold nu. intros H. apply zmin_list_spec in H. destruct H as [Hin Hall].
  apply filter_In in Hin. destruct Hin as [Hin Hlt]. apply Z.ltb_lt in Hlt.
  split; [assumption|]. split; [assumption|]. intros x Hx Hs. rewrite Forall_forall in Hall. apply Hall.
  apply filter_In. split; [assumption|apply Z.ltb_lt; assumption].
Qed.

Lemma nu_none hs : nu hs = None -> forall x, In x (sns chs) -> x <= hs.
Proof.
  unfold nu. intros H x Hx. apply zmin_list_none in H.
  destruct (Z.le_gt_cases x hs) as [|Hgt]; [assumption|].
  assert (Hin : In x (filter (fun s => hs <? s) (sns chs))) by (apply filter_In; split; [assumption|apply Z.ltb_lt; lia]).
  rewrite H in Hin. contradiction.
Qed.

Lemma cnt_zero hs : cnt hs = 0%nat -> nu hs = None.
Proof. unfold cnt, nu. intros H. apply length_zero_iff_nil in H. rewrite H. reflexivity. Qed.

Lemma filter_same_hole hs n : nu hs = Some n ->
  filter (fun s => n - 1 <? s) (sns chs) = filter (fun s => hs <? s) (sns chs).
Proof.
  intros H. apply nu_spec in H. destruct H as (_ & Hlt & Hmin). apply filter_ext_in. intros x Hx.
  destruct (Z.ltb_spec hs x) as [Hs|Hs].
  - specialize (Hmin x Hx Hs). apply Z.ltb_lt. lia.
  - apply Z.ltb_ge. lia.
Qed.

Lemma filter_length_lt {A} (f g : A -> bool) a l :
  (forall x, f x = true -> g x = true) -> In a l -> g a = true -> f a = false ->
  (length (filter f l) < length (filter g l))%nat.
Proof.
  intros Hfg. induction l as [|x t IH]; intros Hin Hg Hf; [contradiction|]. cbn.
  assert (Hle : (length (filter f t) <= length (filter g t))%nat).
  { clear - Hfg. induction t as [|y t IH]; cbn; [lia|]. destruct (f y) eqn:Ef.
    - rewrite (Hfg y Ef). cbn. lia.
    - destruct (g y); cbn; lia. }
  destruct Hin as [->|Hin].
  - rewrite Hf, Hg. cbn. lia.
  - specialize (IH Hin Hg Hf). destruct (f x) eqn:Ef.
    + rewrite (Hfg x Ef). cbn. lia.
    + destruct (g x); cbn; lia.
Qed.

Lemma cnt_change hs n : nu hs = Some n -> (cnt n < cnt hs)%nat.
Proof.
  intros H. apply nu_spec in H. destruct H as (Hin & Hlt & _). unfold cnt.
  apply filter_length_lt with (a := n); [|assumption|apply Z.ltb_lt; assumption|apply Z.ltb_ge; lia].
  intros x Hx. apply Z.ltb_lt in Hx. apply Z.ltb_lt. lia.
Qed.

Lemma set_hs_hs p n : rp_hs p <= n -> rp_hs (set_hs p n) = n.
Proof. intros H. cbn. destruct (Z.ltb_spec (rp_hs p) n); lia. Qed.

Lemma unsent_rel_done cf now : forall fuel p acc,
  (2 * cnt (rp_hs p) <= fuel + (if adjb (rp_hs p) then 1 else 0))%nat ->
  nu (rp_hs (fst (unsent_rel fuel cf now chs p acc))) = None.
Proof.
  induction fuel as [|f IH]; intros p acc Hm; cbn [unsent_rel].
  { cbn [fst]. apply cnt_zero. destruct (adjb (rp_hs p)) eqn:Ea; [|lia].
    destruct (cnt (rp_hs p)) as [|k] eqn:Ec; [reflexivity|lia]. }
  rewrite next_unsent_nu. destruct (nu (rp_hs p)) as [n|] eqn:En; [|cbn [fst]; assumption].
  pose proof (nu_spec _ _ En) as (Hin & Hlt & Hmin).
  assert (Hadj : adjb (rp_hs p) = negb (rp_hs p + 1 <? n)) by (unfold adjb; rewrite En; reflexivity).
  destruct (Z.ltb_spec (rp_hs p + 1) n) as [Hhole|Hnh].
  - (* a hole: highest_sent := n - 1, the next iteration handles n *)
    rewrite Hadj in Hm. cbn [negb] in Hm. unfold gen_hb. apply IH.
    rewrite set_hs_hs by (cbn; lia).
    assert (Hc : cnt (n - 1) = cnt (rp_hs p)) by (unfold cnt; rewrite (filter_same_hole _ _ En); reflexivity).
    assert (Hn' : nu (n - 1) = Some n) by (unfold nu; rewrite (filter_same_hole _ _ En); exact En).
    unfold adjb. rewrite Hn', Hc. replace (n - 1 + 1 <? n) with false by (symmetry; apply Z.ltb_ge; lia). cbn. lia.
  - assert (n = rp_hs p + 1) by lia. rewrite Hadj in Hm.
    replace (rp_hs p + 1 <? n) with false in Hm by (symmetry; apply Z.ltb_ge; lia). cbn [negb] in Hm.
    pose proof (cnt_change _ _ En) as Hc.
    assert (Hgoal : forall q acc', rp_hs q = rp_hs p -> nu (rp_hs (fst (unsent_rel f cf now chs (set_hs q n) acc'))) = None).
    { intros q acc' Hq. apply IH. rewrite set_hs_hs by lia. destruct (adjb n); lia. }
    destruct (lookup_relevant p n chs) as [c|].
    + unfold gen_hb. destruct (1 <? nfrags cf c); apply Hgoal; reflexivity.
    + apply Hgoal. reflexivity.
Qed.

Lemma cnt_le_len hs : (cnt hs <= length chs)%nat.
Proof. unfold cnt. etransitivity; [apply filter_len_le|]. unfold sns. rewrite map_length. lia. Qed.

Lemma unsent_rel_done_full cf now p acc :
  nu (rp_hs (fst (unsent_rel (S (2 * length chs)) cf now chs p acc))) = None.
Proof. apply unsent_rel_done. pose proof (cnt_le_len (rp_hs p)). destruct (adjb (rp_hs p)); lia. Qed.
End Term.

(* ------------------------------------------------------------------ the writer, heartbeat counts *)
(* what write_message_reliable emits: DATA+HEARTBEAT, GAP(+HEARTBEAT), HEARTBEAT; every heartbeat is fresh,
   announces a positive first sequence number and the last sequence number *)
Definition khsub (lo hi last : Z) (m : submsg) : Prop :=
  match m with
  | SHb f l c => lo < c <= hi /\ 1 <= f /\ (0 < last -> f <= last) /\ l = last
  | SFrag _ _ | SAck _ _ _ | SNack _ _ _ _ => False
  | _ => True
  end.
Definition khdg (lo hi last : Z) (d : dgram) : Prop := dg_toR d = true /\ Forall (khsub lo hi last) (dg_subs d).

Lemma khdg_mono lo lo' hi hi' last d : lo' <= lo -> hi <= hi' -> khdg lo hi last d -> khdg lo' hi' last d.
Proof.
  intros A B [T H]. split; [assumption|]. eapply Forall_impl; [|exact H]. intros m. destruct m; cbn; try tauto.
  intros (X & Y); split; [lia|assumption].
Qed.

Definition khas_hb (c last : Z) (l : list dgram) : Prop := exists d f, In d l /\ In (SHb f last c) (dg_subs d).

Lemma khas_hb_app c last l l' : khas_hb c last l -> khas_hb c last (l ++ l').
Proof. intros (d & f & Hd & Hs). exists d, f. split; [apply in_or_app; left; assumption|assumption]. Qed.

Section WriterLive.
Variables (cf : cfg) (now : Z) (chs : list change) (last : Z).
Hypothesis HK : KC chs last.
Hypothesis Hu : unfrag cf chs.

Lemma hb_fields : 1 <= first_sn chs /\ (0 < last -> first_sn chs <= last) /\ last_sn chs = last.
Proof. destruct (KC_first chs last HK) as [A B]. destruct HK as (_ & _ & C). tauto. Qed.

Ltac hb_sub := cbn; pose proof hb_fields as (X1 & X2 & X3); rewrite ?X3; repeat split; try lia; try assumption.

Lemma unsent_rel_liveK fuel : forall p acc lo, 0 <= rp_hs p <= last ->
  lo <= rp_hbc p -> Forall (khdg lo (rp_hbc p) last) acc ->
  (lo < rp_hbc p -> khas_hb (rp_hbc p) last acc) ->
  let r := unsent_rel fuel cf now chs p acc in
  0 <= rp_hs (fst r) <= last /\ rp_hs p <= rp_hs (fst r) /\ rp_hbc p <= rp_hbc (fst r) /\
  Forall (khdg lo (rp_hbc (fst r)) last) (snd r) /\
  (lo < rp_hbc (fst r) -> khas_hb (rp_hbc (fst r)) last (snd r)) /\
  ((rp_hbc p = rp_hbc (fst r) /\ rp_hbt (fst r) = rp_hbt p) \/ (rp_hbc p < rp_hbc (fst r) /\ rp_hbt (fst r) = now)) /\
  (rp_hs p < last -> rp_hs (fst r) = last -> rp_fr p < last -> rp_hbc p < rp_hbc (fst r)).
Proof.
  induction fuel as [|f IH]; intros p acc lo Hhs Hlo Ha Hhb; cbn [unsent_rel].
  { cbn. repeat split; try lia; try assumption; try (left; split; reflexivity). }
  destruct (next_unsent p chs) as [n|] eqn:En.
  2:{ cbn. repeat split; try lia; try assumption; try (left; split; reflexivity). }
  apply next_unsent_spec in En. destruct En as (Hin & Hlt & Hmin).
  pose proof (KC_sns chs last n HK Hin) as Hnb.
  destruct (Z.ltb_spec (rp_hs p + 1) n) as [Hhole|Hnh].
  - (* hole *)
    unfold gen_hb.
    match goal with |- context [unsent_rel f cf now chs ?q ?a] => specialize (IH q a lo) end.
    cbn [rp_hs rp_hbc rp_hbt rp_fr set_hs fst snd] in IH.
    destruct (Z.ltb_spec (rp_hs p) (n - 1)); [|lia].
    destruct IH as (A & B & C & D & E & F & G); try lia.
    + apply Forall_app; split.
      * eapply Forall_impl; [|exact Ha]. intros d. apply khdg_mono; lia.
      * constructor; [|constructor]. split; [reflexivity|]. constructor; [exact I|]. constructor; [|constructor]. hb_sub.
    + intros _. exists (toR [SGap (rp_hs p + 1) n; SHb (first_sn chs) (last_sn chs) (rp_hbc p + 1)]), (first_sn chs).
      split; [apply in_or_app; right; left; reflexivity|]. destruct hb_fields as (_ & _ & X3). rewrite X3. right. left. reflexivity.
    + repeat split; try assumption; try lia.
  - assert (Hn : n = rp_hs p + 1) by lia.
    destruct (lookup_relevant p n chs) as [c|] eqn:El.
    + unfold gen_hb. apply lookup_relevant_in in El. destruct El as (Hcin & _ & _).
      assert (1 <? nfrags cf c = false) as -> by (apply Z.ltb_ge; apply Hu; assumption).
      match goal with |- context [unsent_rel f cf now chs ?q ?a] => specialize (IH q a lo) end.
      cbn [rp_hs rp_hbc rp_hbt rp_fr set_hs fst snd] in IH.
      destruct (Z.ltb_spec (rp_hs p) n); [|lia].
      destruct IH as (A & B & C & D & E & F & G); try lia.
      * apply Forall_app; split.
        -- eapply Forall_impl; [|exact Ha]. intros d. apply khdg_mono; lia.
        -- constructor; [|constructor]. split; [reflexivity|]. constructor; [exact I|]. constructor; [|constructor]. hb_sub.
      * intros _. exists (toR [SData c; SHb (first_sn chs) (last_sn chs) (rp_hbc p + 1)]), (first_sn chs).
        split; [apply in_or_app; right; left; reflexivity|]. destruct hb_fields as (_ & _ & X3). rewrite X3. right. left. reflexivity.
      * repeat split; try assumption; try lia.
    + match goal with |- context [unsent_rel f cf now chs ?q ?a] => specialize (IH q a lo) end.
      cbn [rp_hs rp_hbc rp_hbt rp_fr set_hs fst snd] in IH.
      destruct (Z.ltb_spec (rp_hs p) n); [|lia].
      destruct IH as (A & B & C & D & E & F & G); try lia; try assumption.
      * apply Forall_app; split; [assumption|].
        constructor; [|constructor]. split; [reflexivity|]. constructor; [exact I|constructor].
      * intros Hl. apply khas_hb_app. auto.
      * repeat split; try assumption; try lia.
        intros H1 H2 H3. destruct (Z.eq_dec n last) as [->|Hne].
        -- (* n = last is held and relevant: the lookup cannot fail *)
           exfalso. destruct (lookup_relevant_some p chs last Hin H3) as [c [Hc _]]. congruence.
        -- apply G; lia.
Qed.

Lemma req_loop_liveK fuel : forall p acc lo,
  lo <= rp_hbc p -> Forall (khdg lo (rp_hbc p) last) acc ->
  (lo < rp_hbc p -> khas_hb (rp_hbc p) last acc) ->
  (Z.of_nat (length (rp_req p)) < Z.of_nat fuel) ->
  let r := req_loop fuel cf now chs p acc in
  rp_hbc p <= rp_hbc (fst r) /\
  Forall (khdg lo (rp_hbc (fst r)) last) (snd r) /\
  (lo < rp_hbc (fst r) -> khas_hb (rp_hbc (fst r)) last (snd r)) /\
  ((rp_hbc p = rp_hbc (fst r) /\ rp_hbt (fst r) = rp_hbt p) \/ (rp_hbc p < rp_hbc (fst r) /\ rp_hbt (fst r) = now)) /\
  ((exists n, In n (rp_req p) /\ rp_fr p < n /\ In n (sns chs)) -> rp_hbc p < rp_hbc (fst r)).
Proof.
  induction fuel as [|f IH]; intros p acc lo Hlo Ha Hhb Hfuel; cbn [req_loop].
  { lia. }
  destruct (zmin_list (rp_req p)) as [n|] eqn:En.
  2:{ apply zmin_list_none in En. cbn. repeat split; try lia; try assumption; try (left; split; reflexivity).
      intros [n [Hn _]]. rewrite En in Hn. contradiction. }
  apply zmin_list_spec in En. destruct En as [Hn Hmin].
  set (p0 := set_req p (filter (fun s => negb (s =? n)) (rp_req p))).
  assert (E1 : rp_hbc p0 = rp_hbc p) by reflexivity.
  assert (E2 : rp_hbt p0 = rp_hbt p) by reflexivity.
  assert (E3 : rp_fr p0 = rp_fr p) by reflexivity.
  assert (Hlen0 : Z.of_nat (length (rp_req p0)) < Z.of_nat f).
  { subst p0. cbn [rp_req set_req].
    assert (length (filter (fun s => negb (Z.eqb s n)) (rp_req p)) < length (rp_req p))%nat; [|lia].
    clear - Hn. induction (rp_req p) as [|x t IHt]; [contradiction|]. cbn.
    destruct (Z.eqb_spec x n) as [->|Hne]; cbn.
    - pose proof (filter_len_le (fun s => negb (Z.eqb s n)) t). lia.
    - destruct Hn as [Hx|Hn]; [congruence|]. specialize (IHt Hn). lia. }
  destruct (lookup_relevant p0 n chs) as [c|] eqn:El.
  - unfold gen_hb. apply lookup_relevant_in in El. destruct El as (Hcin & _ & _).
    assert (1 <? nfrags cf c = false) as -> by (apply Z.ltb_ge; apply Hu; assumption).
    match goal with |- context [req_loop f cf now chs ?q ?a] => specialize (IH q a lo) end.
    cbn [rp_req rp_hbc rp_hbt rp_fr fst snd] in IH.
    destruct IH as (A & B & C & D & E); try lia; try assumption.
    + apply Forall_app; split.
      * eapply Forall_impl; [|exact Ha]. intros d. apply khdg_mono; lia.
      * constructor; [|constructor]. split; [reflexivity|]. constructor; [exact I|]. constructor; [|constructor]. hb_sub.
    + intros _. exists (toR [SData c; SHb (first_sn chs) (last_sn chs) (rp_hbc p0 + 1)]), (first_sn chs).
      split; [apply in_or_app; right; left; reflexivity|]. destruct hb_fields as (_ & _ & X3). rewrite X3. right. left. reflexivity.
    + repeat split; try assumption; try lia.
  - specialize (IH p0 (acc ++ [toR [SGap n (n + 1)]]) lo).
    destruct IH as (A & B & C & D & E); try lia; try assumption.
    + apply Forall_app; split; [rewrite E1; assumption|].
      constructor; [|constructor]. split; [reflexivity|]. constructor; [exact I|constructor].
    + rewrite E1. intros Hl. apply khas_hb_app. auto.
    + repeat split; try assumption; try lia.
      intros [m (Hm & Hfr & Hheld)]. rewrite <- E1. apply E. exists m.
      destruct (Z.eq_dec m n) as [->|Hne].
      * exfalso. destruct (lookup_relevant_some p0 chs n Hheld) as [c [Hc _]]; [rewrite E3; assumption|congruence].
      * split; [|split; [rewrite E3; assumption|assumption]].
        subst p0. cbn [rp_req set_req]. apply filter_In. split; [assumption|]. apply negb_true_iff. apply Z.eqb_neq. assumption.
Qed.

Lemma req_loop_hs fuel : forall p acc, rp_hs (fst (req_loop fuel cf now chs p acc)) = rp_hs p.
Proof.
  induction fuel as [|f IH]; intros p acc; cbn [req_loop]; [reflexivity|].
  destruct (zmin_list (rp_req p)) as [n|]; [|reflexivity].
  match goal with |- context [lookup_relevant ?q n chs] => destruct (lookup_relevant q n chs) as [c|] end.
  - unfold gen_hb. destruct (1 <? nfrags cf c); rewrite IH; reflexivity.
  - rewrite IH. reflexivity.
Qed.

Lemma write_rel_liveK p :
  0 <= rp_hs p <= last -> 0 <= rp_ha p ->
  let r := write_rel cf now chs p in
  rp_hs (fst r) = last /\ rp_hbc p <= rp_hbc (fst r) /\
  Forall (khdg (rp_hbc p) (rp_hbc (fst r)) last) (snd r) /\
  (rp_hbc p < rp_hbc (fst r) -> khas_hb (rp_hbc (fst r)) last (snd r)) /\
  ((rp_hbc p = rp_hbc (fst r) /\ rp_hbt (fst r) = rp_hbt p) \/ (rp_hbc p < rp_hbc (fst r) /\ rp_hbt (fst r) = now)) /\
  ((exists n, In n (rp_req p) /\ rp_fr p < n /\ In n (sns chs)) -> rp_hbc p < rp_hbc (fst r)) /\
  (rp_hs p = last -> rp_ha p < last -> hb_period <= now - rp_hbt p -> rp_hbc p < rp_hbc (fst r)) /\
  (rp_hs p < last -> rp_fr p < last -> rp_hbc p < rp_hbc (fst r)).
Proof.
  intros Hhs Hha. unfold write_rel.
  match goal with |- context [let '(p1, out1) := ?X in _] => destruct X as [p1 out1] eqn:E1 end.
  assert (H1 : rp_hs p1 = last /\ rp_hbc p <= rp_hbc p1 /\ Forall (khdg (rp_hbc p) (rp_hbc p1) last) out1 /\
               (rp_hbc p < rp_hbc p1 -> khas_hb (rp_hbc p1) last out1) /\
               ((rp_hbc p = rp_hbc p1 /\ rp_hbt p1 = rp_hbt p) \/ (rp_hbc p < rp_hbc p1 /\ rp_hbt p1 = now)) /\
               rp_req p1 = rp_req p /\ rp_fr p1 = rp_fr p /\
               (rp_hs p = last -> rp_ha p < last -> hb_period <= now - rp_hbt p -> rp_hbc p < rp_hbc p1) /\
               (rp_hs p < last -> rp_fr p < last -> rp_hbc p < rp_hbc p1)).
  { destruct (next_unsent p chs) as [n0|] eqn:En.
    - pose proof (unsent_rel_liveK (S (2 * length chs)) p [] (rp_hbc p) Hhs (Z.le_refl _) (Forall_nil _)) as H.
      lazy zeta in H. rewrite E1 in H. cbn [fst snd] in H.
      destruct H as (A & B & C & D & E & F & G); [intros; lia|].
      pose proof (unsent_rel_done_full chs cf now p []) as Hdone. rewrite E1 in Hdone. cbn [fst] in Hdone.
      pose proof (unsent_rel_req chs (S (2 * length chs)) cf now p []) as Hreq1. rewrite E1 in Hreq1. cbn [fst] in Hreq1.
      pose proof (unsent_rel_fr (S (2 * length chs)) cf now chs p []) as Hfr1. rewrite E1 in Hfr1. cbn [fst] in Hfr1.
      apply next_unsent_spec in En. destruct En as (Hin0 & Hlt0 & _).
      pose proof (KC_sns chs last n0 HK Hin0) as Hb0.
      assert (Hhs1 : rp_hs p1 = last).
      { pose proof (nu_none chs _ Hdone last (KC_last_in chs last HK ltac:(lia))). lia. }
      repeat split; try assumption; try lia.
      all: try (intros X1 X2; apply G; assumption).
    - pose proof (nu_none chs (rp_hs p) En) as Hnone.
      assert (Hhs' : rp_hs p = last).
      { destruct (Z.eq_dec last 0) as [->|Hne]; [lia|]. pose proof (Hnone last (KC_last_in chs last HK ltac:(lia))). lia. }
      destruct (negb (unacked p (zmax_list (sns chs)))) eqn:Eu.
      + injection E1 as <- <-. repeat split; try lia; try constructor; try (left; split; reflexivity).
        intros _ Hlt _. exfalso. apply negb_true_iff in Eu. unfold unacked in Eu.
        assert (Hlp : 0 < last) by lia.
        destruct HK as (_ & _ & Hl). unfold last_sn in Hl. destruct (zmax_list (sns chs)) as [m|]; [|lia].
        subst m. apply Z.ltb_ge in Eu. lia.
      + destruct (time_for_hb p now) eqn:Et; unfold gen_hb in E1; injection E1 as <- <-; cbn.
        * repeat split; try lia.
          all: try (constructor; [|constructor]; split; [reflexivity|]; constructor; [|constructor]; hb_sub).
          all: try (intros _; exists (toR [SHb (first_sn chs) (last_sn chs) (rp_hbc p + 1)]), (first_sn chs);
                    split; [left; reflexivity|]; destruct hb_fields as (_ & _ & X3); rewrite X3; left; reflexivity).
          all: try (right; split; [lia|reflexivity]).
        * repeat split; try lia; try constructor; try (left; split; reflexivity).
          intros _ _ Hper. unfold time_for_hb in Et. apply Z.leb_gt in Et. lia. }
  destruct H1 as (A & B & C & D & E & F & G & T & U).
  pose proof (req_loop_liveK (S (length (rp_req p1))) p1 out1 (rp_hbc p) B C D) as H.
  lazy zeta in H. destruct H as (H1 & H2 & H3 & H4 & H5); [lia|].
  rewrite req_loop_hs.
  repeat split; try assumption; try lia.
  all: try (destruct E as [[E1' E2']|[E1' E2']], H4 as [[H41 H42]|[H41 H42]];
            [left; split; congruence|right; split; [lia|assumption]|right; split; [lia|congruence]|right; split; [lia|assumption]]).
  all: try (intros (n & Hn1 & Hn2 & Hn3);
            assert (X : rp_hbc p1 < rp_hbc (fst (req_loop (S (length (rp_req p1))) cf now chs p1 out1)))
              by (apply H5; exists n; rewrite F, G; auto); lia).
  all: try (intros X1 X2 X3; specialize (T X1 X2 X3); lia).
  all: try (intros X1 X2; specialize (U X1 X2); lia).
Qed.
End WriterLive.

(* ------------------------------------------------------------------ the class at state level *)
Definition KI (s : state) : Prop :=
  KC (s_changes s) (s_last s) /\
  match s_rp s with Some p => 0 <= rp_hs p <= s_last s /\ 0 <= rp_fr p <= s_last s | None => True end.

Definition KS (s : state) : Prop := GS s /\ NInv s /\ KI s.

Lemma unsent_rel_hsb chs last fuel cf now : KC chs last -> forall p acc, 0 <= rp_hs p <= last ->
  0 <= rp_hs (fst (unsent_rel fuel cf now chs p acc)) <= last.
Proof.
  intros HK. induction fuel as [|f IH]; intros p acc Hhs; cbn [unsent_rel]; [assumption|].
  destruct (next_unsent p chs) as [n|] eqn:En; [|assumption].
  apply next_unsent_spec in En. destruct En as (Hin & Hlt & _). pose proof (KC_sns chs last n HK Hin) as Hb.
  destruct (rp_hs p + 1 <? n) eqn:Eh.
  - apply Z.ltb_lt in Eh. unfold gen_hb. apply IH. rewrite set_hs_hs by (cbn; lia). lia.
  - destruct (lookup_relevant p n chs) as [c|]; [|apply IH; rewrite set_hs_hs by lia; lia].
    unfold gen_hb. destruct (1 <? nfrags cf c); apply IH; rewrite set_hs_hs by (cbn; lia); lia.
Qed.

Lemma write_be_hsb chs last fuel cf : KC chs last -> forall p acc, 0 <= rp_hs p <= last ->
  0 <= rp_hs (fst (write_be_loop fuel cf chs p acc)) <= last.
Proof.
  intros HK. induction fuel as [|f IH]; intros p acc Hhs; cbn [write_be_loop]; [assumption|].
  destruct (next_unsent p chs) as [n|] eqn:En; [|assumption].
  apply next_unsent_spec in En. destruct En as (Hin & Hlt & _). pose proof (KC_sns chs last n HK Hin) as Hb.
  destruct (rp_hs p + 1 <? n) eqn:Eh.
  - apply Z.ltb_lt in Eh. apply IH. rewrite set_hs_hs by lia. lia.
  - destruct (lookup_relevant p n chs) as [c|]; [|apply IH; rewrite set_hs_hs by lia; lia].
    destruct (1 <? nfrags cf c); apply IH; rewrite set_hs_hs by lia; lia.
Qed.

Lemma write_rel_hsb chs last cf now p : KC chs last -> 0 <= rp_hs p <= last ->
  0 <= rp_hs (fst (write_rel cf now chs p)) <= last.
Proof.
  intros HK Hhs. unfold write_rel.
  match goal with |- context [let '(p1, out1) := ?X in _] => destruct X as [p1 out1] eqn:E1 end.
  rewrite req_loop_hs.
  destruct (next_unsent p chs).
  - replace p1 with (fst (unsent_rel (S (2 * length chs)) cf now chs p [])) by (rewrite E1; reflexivity).
    apply unsent_rel_hsb; assumption.
  - destruct (negb _); [inversion E1; subst; assumption|].
    destruct (time_for_hb p now); unfold gen_hb in E1; inversion E1; subst; assumption.
Qed.

Lemma write_message_hsb chs last cf now p : KC chs last -> 0 <= rp_hs p <= last ->
  0 <= rp_hs (fst (write_message cf now chs p)) <= last.
Proof.
  intros HK Hhs. unfold write_message. destruct (rp_rel p); [apply write_rel_hsb|apply write_be_hsb]; assumption.
Qed.

Lemma on_acknack_hsb chs last cf now p base set count : KC chs last -> 0 <= rp_hs p <= last ->
  0 <= rp_hs (fst (fst (on_acknack cf now chs p base set count))) <= last.
Proof.
  intros HK Hhs. unfold on_acknack. destruct (rp_rel p && _); [|assumption].
  match goal with |- context [write_rel cf now chs ?q] =>
    pose proof (write_rel_hsb chs last cf now q HK) as H; destruct (write_rel cf now chs q) as [p2 out] end.
  cbn [fst] in *. apply H. assumption.
Qed.

Lemma on_nackfrag_hs cf chs p sn base set count : rp_hs (fst (on_nackfrag cf chs p sn base set count)) = rp_hs p.
Proof. unfold on_nackfrag. destruct (rp_rel p && _); [|reflexivity]. destruct (find_change sn chs); reflexivity. Qed.

Lemma KI_poke cf s : KI s -> KI (poke cf s).
Proof.
  intros [HK Hp]. unfold poke. destruct (s_rp s) as [p|] eqn:Ep; [|split; [assumption|rewrite Ep; exact I]].
  pose proof (write_message_hsb (s_changes s) (s_last s) cf (s_now s) p HK (proj1 Hp)) as Hb.
  pose proof (write_message_static cf (s_now s) (s_changes s) p) as Hst.
  destruct (write_message cf (s_now s) (s_changes s) p) as [p1 out]. cbn [fst] in *.
  apply static_fr in Hst. destruct Hst as (S1 & _). split; [exact HK|]. cbn. rewrite S1. tauto.
Qed.

Lemma KI_deliver_sub_W cf s m : KI s -> KI (deliver_sub_W cf s m).
Proof.
  intros [HK Hp]. unfold deliver_sub_W. destruct (s_rp s) as [p|] eqn:Ep; [|split; [assumption|rewrite Ep; exact I]].
  assert (Same : KI s) by (split; [assumption|rewrite Ep; assumption]).
  destruct m; try exact Same.
  - pose proof (on_acknack_hsb (s_changes s) (s_last s) cf (s_now s) p base set count HK (proj1 Hp)) as Hb.
    pose proof (on_acknack_static cf (s_now s) (s_changes s) p base set count) as Hst.
    destruct (on_acknack cf (s_now s) (s_changes s) p base set count) as [[p1 out] sm]. cbn [fst] in *.
    apply static_fr in Hst. destruct Hst as (S1 & _).
    destruct (sm && _); (split; [exact HK|]); cbn; rewrite S1; tauto.
  - pose proof (on_nackfrag_hs cf (s_changes s) p sn base set count) as Hb.
    pose proof (on_nackfrag_static cf (s_changes s) p sn base set count) as Hst.
    destruct (on_nackfrag cf (s_changes s) p sn base set count) as [p1 out]. cbn [fst] in *.
    apply static_fr in Hst. destruct Hst as (S1 & _). split; [exact HK|]. cbn. rewrite S1, Hb. tauto.
Qed.

Lemma KI_deliver_dgram cf s d : KI s -> KI (deliver_dgram cf s d).
Proof.
  intros H. unfold deliver_dgram. destruct (dg_toR d).
  - destruct (s_rdead s); [assumption|]. destruct (s_rd s) as [r|]; [|assumption]. destruct (rd_alive r); [|assumption].
    destruct (deliver_subs_R _ _ _ _). exact H.
  - revert s H. induction (dg_subs d) as [|m t IH]; intros s H; cbn [fold_left]; [assumption|].
    apply IH. apply KI_deliver_sub_W. assumption.
Qed.

Lemma KI_set_net s n : KI s -> KI (set_net s n).
Proof. intros H. exact H. Qed.

Lemma KS_poke cf s : KS s -> KS (poke cf s).
Proof.
  intros (HG & HN & HK). split; [apply GS_poke; assumption|]. split; [|apply KI_poke; assumption].
  destruct (s_rp s) as [p|] eqn:Ep.
  - intros Hn. rewrite poke_rd in Hn. destruct (HN Hn) as [_ Hp]. congruence.
  - rewrite poke_rp_none by assumption. assumption.
Qed.

Lemma KS_deliver cf s d rest : KS s -> In d (s_net s) -> (forall x, In x rest -> In x (s_net s)) ->
  KS (deliver_dgram cf (set_net s rest) d).
Proof.
  intros (HG & HN & HK) Hd Hrest. split; [apply GS_deliver; assumption|]. split.
  - intros Hn. pose proof (deliver_dgram_rd cf (set_net s rest) d) as Hrd. cbn [s_rd set_net] in Hrd.
    destruct (s_rd s) as [r|] eqn:Er; [destruct Hrd as [r' Hr']; congruence|].
    destruct (HN Er) as [Hnet _]. rewrite Hnet in Hd. contradiction.
  - apply KI_deliver_dgram. exact HK.
Qed.

Lemma KS_pump cf fuel : forall s n, KS s -> KS (fst (pump fuel cf s n)).
Proof.
  induction fuel as [|f IH]; intros s n H; cbn [pump]; [assumption|].
  destruct (s_net s) as [|d t] eqn:En; [assumption|].
  apply IH. apply KS_poke. apply KS_deliver; [assumption|rewrite En; left; reflexivity|].
  intros x Hx. rewrite En. right. assumption.
Qed.

Lemma last_sn_char l m : (forall c, In c l -> c_sn c <= m) -> In m (sns l) -> last_sn l = m.
Proof.
  intros Hle Hin. unfold last_sn. destruct (zmax_list (sns l)) as [m'|] eqn:E.
  - apply zmax_list_spec in E. destruct E as [Hin' Hall]. rewrite Forall_forall in Hall. specialize (Hall m Hin).
    unfold sns in Hin'. apply in_map_iff in Hin'. destruct Hin' as [c [<- Hc]]. specialize (Hle c Hc). lia.
  - apply zmax_list_none in E. rewrite E in Hin. contradiction.
Qed.

Lemma live_not_del cf a : live_act cf a = true ->
  match a with ARemove _ | ADelReader | ADelPart => False | _ => True end.
Proof. destruct a; cbn; auto; discriminate. Qed.

(* the class is closed under every action of the live class: any history depth *)
Lemma KS_act cf s a : live_act cf a = true -> KS s -> KS (fst (act cf s a)).
Proof.
  intros Ha H. pose proof H as (HG & HN & HK).
  assert (HG1 : GS (fst (act cf s a))) by (apply GS_act; assumption).
  split; [exact HG1|].
  destruct a; try discriminate; cbn [act] in *.
  - (* AWrite *)
    pose proof (do_write_frame cf s key len sum) as (F1 & F2 & F3 & F4 & F5 & F6 & F7).
    pose proof (do_write_spec cf s key len sum) as Hw.
    destruct (do_write cf s key len sum) as [s1 code]. cbn [fst snd] in *.
    destruct Hw as [[-> _]|[chs1 (W1 & W2 & W3 & W4 & W5 & W6)]]; [split; assumption|].
    split.
    + intros Hn. rewrite F2 in Hn. destruct (HN Hn) as [A B]. rewrite F3, F1. tauto.
    + destruct HK as [(K0 & Kb & Kl) Kp]. split.
      * split; [lia|]. split.
        -- intros c Hc. rewrite W2 in Hc. apply in_app_or in Hc. destruct Hc as [Hc|[<-|[]]].
           ++ specialize (Kb c (W1 c Hc)). lia.
           ++ cbn. lia.
        -- rewrite W2, W3. apply last_sn_char.
           ++ intros c Hc. apply in_app_or in Hc. destruct Hc as [Hc|[<-|[]]]; [specialize (Kb c (W1 c Hc)); lia|cbn; lia].
           ++ rewrite sns_app. apply in_or_app. right. left. reflexivity.
      * rewrite F1, W3. destruct (s_rp s); [lia|exact I].
  - (* ATick *) split; [intros Hn; cbn in *; apply HN; assumption|exact HK].
  - (* ADeliver *) destruct (nth_error (s_net s) i) as [d|] eqn:E; [|split; assumption]. cbn [fst] in *.
    apply (KS_deliver cf s d (remove_nth i (s_net s)) H);
      [eapply nth_error_In; eassumption|intros x Hx; eapply remove_nth_in; exact Hx].
  - (* ADrop *) destruct (nth_error (s_net s) i) as [d|] eqn:E; [|split; assumption]. cbn [fst] in *. split; [|exact HK].
    intros Hn. cbn in *. destruct (HN Hn) as [A B]. rewrite A in E. destruct i; discriminate.
  - (* ADup *) destruct (nth_error (s_net s) i) as [d|] eqn:E; [|split; assumption]. cbn [fst] in *. split.
    + intros Hn.
      pose proof (deliver_dgram_rd cf (set_net s (remove_nth i (s_net s))) d) as Hd1. cbn [s_rd set_net] in Hd1.
      destruct (s_rd s) as [r|] eqn:Er.
      * destruct Hd1 as [r1 Hr1].
        pose proof (deliver_dgram_rd cf (poke cf (deliver_dgram cf (set_net s (remove_nth i (s_net s))) d)) d) as Hd2.
        rewrite poke_rd, Hr1 in Hd2. destruct Hd2 as [r2 Hr2]. congruence.
      * destruct (HN Er) as [A _]. rewrite A in E. destruct i; discriminate.
    + apply KI_deliver_dgram. apply KI_poke. apply KI_deliver_dgram. exact HK.
  - (* APump *) pose proof (KS_pump cf pump_fuel s 0 H) as Hp.
    destruct (pump pump_fuel cf s 0) as [s1 n]. cbn [fst] in *. destruct Hp as (_ & A & B). split; assumption.
  - (* ATake *) destruct (s_rd s) as [r|] eqn:Er; [|split; assumption]. destruct (rd_alive r); [|split; assumption].
    cbn [fst] in *. split; [intros Hn; cbn in Hn; discriminate|exact HK].
  - (* AMatch *) destruct (s_rd s) as [r|] eqn:Er; [split; assumption|].
    destruct (HN Er) as [Hnet Ep]. rewrite Ep in *. rewrite orb_false_r in *.
    destruct (s_rdead s); [split; assumption|].
    destruct (rxo_ok cf rel tl); cbn [fst] in *.
    + split; [intros Hn; rewrite poke_rd in Hn; cbn in Hn; discriminate|].
      apply KI_poke. destruct HK as [HKC _]. split; [exact HKC|]. cbn.
      destruct HKC as (K0 & Kb & Kl). rewrite Kl. destruct tl; lia.
    + split; [intros Hn; cbn in Hn; discriminate|]. destruct HK as [HKC _]. split; [exact HKC|]. cbn. rewrite Ep. exact I.
  - (* AWfa *) destruct (is_acked (s_rp s) (s_last s)); cbn [fst] in *; (split; [exact HN|exact HK]).
  - (* AWfaPoll *) destruct (poll (s_waits s)). cbn [fst] in *. split; [exact HN|exact HK].
  - (* AWfh *) destruct (s_rd s) as [r|] eqn:Er; [|split; assumption]. destruct (negb (rd_alive r)); [split; assumption|].
    destruct (negb (rd_tl r)); [split; assumption|].
    destruct (hist_received (rd_wp r)); cbn [fst] in *; (split; [intros Hn; cbn in Hn; discriminate|exact HK]).
  - (* AWfhPoll *) destruct (s_rd s) as [r|] eqn:Er; [|split; assumption]. destruct (poll (rd_hwaits r)). cbn [fst] in *.
    split; [intros Hn; cbn in Hn; discriminate|exact HK].
  - split; assumption.
  - split; assumption.
Qed.

Lemma KS_step cf s a : live_act cf a = true -> KS s -> KS (fst (step cf s a)).
Proof.
  intros Ha H. unfold step. pose proof (KS_act cf s a Ha H) as H1.
  destruct (act cf s a) as [s1 o]. cbn [fst] in *. apply KS_poke. assumption.
Qed.

Lemma KS_init : KS init.
Proof.
  split; [apply GS_init|]. split; [apply init_NInv|]. split; [|exact I].
  split; [cbn; lia|]. split; [intros c []|reflexivity].
Qed.
