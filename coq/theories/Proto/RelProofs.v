(* C01-C04 — proofs about the protocol model of RelModel.v.
   Part 1: safety by invariant over every schedule (authenticity of everything in flight,
   presented list strictly increasing and bounded by available_changes_max). *)
From DustDDS Require Import Base.Machine Proto.RelModel.
From Coq Require Import Sorted.
Open Scope Z_scope.

(* ------------------------------------------------------------------ generic lists *)

Lemma Forall_app_iff {A} (P : A -> Prop) l1 l2 : Forall P (l1 ++ l2) <-> Forall P l1 /\ Forall P l2.
Proof. apply Forall_app. Qed.

Lemma Forall_filter {A} (P : A -> Prop) f l : Forall P l -> Forall P (filter f l).
Proof.
  induction 1 as [|x l Hx Hl IH]; cbn; [constructor|].
  destruct (f x); [constructor|]; assumption.
Qed.

Lemma Forall_remove_nth {A} (P : A -> Prop) n l : Forall P l -> Forall P (remove_nth n l).
Proof.
  revert n; induction l as [|x l IH]; intros n H; destruct n; cbn; try constructor;
    inversion H; subst; auto.
Qed.

Lemma Forall_nth_error {A} (P : A -> Prop) l n x : Forall P l -> nth_error l n = Some x -> P x.
Proof. intros H E. apply nth_error_In in E. rewrite Forall_forall in H. auto. Qed.

Lemma sorted_app_one l x :
  StronglySorted Z.lt l -> Forall (fun y => y < x) l -> StronglySorted Z.lt (l ++ [x]).
Proof.
  induction 1 as [|a l Hs IH Ha]; intros Hx; cbn.
  - constructor; constructor.
  - inversion Hx; subst. constructor; [apply IH; assumption|].
    apply Forall_app; split; [assumption| constructor; [assumption|constructor]].
Qed.

(* a list sorted by sequence number whose elements all belong to a log sorted by sequence
   number is a subsequence of that log *)
Lemma sorted_incl_sublist (p l : list change) :
  StronglySorted Z.lt (sns l) -> StronglySorted Z.lt (sns p) ->
  Forall (fun c => In c l) p -> sublist p l.
Proof.
  revert p; induction l as [|x l IH]; intros p Hl Hp Hin.
  - destruct p; [constructor|]. inversion Hin; subst. contradiction.
  - cbn in Hl. inversion Hl as [|? ? Hl' Hx]; subst.
    destruct p as [|c p]; [constructor|].
    cbn in Hp. inversion Hp as [|? ? Hp' Hc]; subst.
    inversion Hin as [|? ? Hc_in Hrest]; subst.
    destruct Hc_in as [Heq|Hc_in].
    + subst x. apply sub_take. apply IH; try assumption.
      rewrite Forall_forall in *. intros d Hd. destruct (Hrest d Hd) as [Hdc|]; [|assumption].
      subst d. exfalso.
      assert (c_sn c < c_sn c) by (apply Hc; unfold sns; apply in_map; exact Hd). lia.
    + apply sub_skip. apply IH; [assumption | first [assumption | constructor; assumption] | ].
      constructor; [assumption|].
      rewrite Forall_forall in *. intros d Hd. destruct (Hrest d Hd) as [Hdx|]; [|assumption].
      subst d. exfalso.
      assert (c_sn x < c_sn c) by (apply Hx; unfold sns; apply in_map; exact Hc_in).
      assert (c_sn c < c_sn x) by (apply Hc; unfold sns; apply in_map; exact Hd). lia.
Qed.

Lemma sublist_NoDup {A} (p l : list A) : sublist p l -> NoDup l -> NoDup p.
Proof.
  induction 1; intros Hn.
  - constructor.
  - inversion Hn; subst; auto.
  - inversion Hn; subst. constructor; [|auto].
    intros Hin. assert (In x l2); [|contradiction].
    clear - H Hin. induction H; [contradiction| right; auto | destruct Hin as [->|]; [left; reflexivity| right; auto]].
Qed.

(* ------------------------------------------------------------------ data-carrying invariants *)

(* Generic part: a predicate P on changes (and Q on the sequence number named by a NACK_FRAG) that
   holds for every change the writer may transmit holds for everything in flight, buffered and
   presented.  Instances: P = "belongs to the publication log" (authenticity, safety) and
   P = "sequence number above the match boundary" (VOLATILE readers). *)
Section DataInv.
Variable P : change -> Prop.
Variable Q : Z -> Prop.
Hypothesis PQ : forall c, P c -> Q (c_sn c).

Definition data_sub (m : submsg) : Prop :=
  match m with SData c => P c | SFrag c _ => P c | SNack sn _ _ _ => Q sn | _ => True end.
Definition data_dg (d : dgram) : Prop := Forall data_sub (dg_subs d).

(* reader side: the presented list satisfies P, is strictly increasing and bounded by
   highest_received_change_sn; buffered fragments satisfy P *)
Definition WOk (w : wproxy) (pres : list change) : Prop :=
  Forall P pres /\
  StronglySorted Z.lt (sns pres) /\
  Forall (fun c => c_sn c <= wp_hr w) pres /\
  Forall (fun f => P (fst f)) (wp_frags w).

Definition RInv (r : reader) : Prop :=
  match rd_wp r with
  | None => rd_pres r = []
  | Some w => WOk w (rd_pres r)
  end.

(* --- everything the writer emits is cut from changes it holds (and relevant ones on the reliable path) *)
Lemma data_frag_dgrams c k extra :
  P c -> Forall data_sub extra -> Forall data_dg (frag_dgrams c k extra).
Proof.
  intros Hc He. unfold frag_dgrams. apply Forall_app; split.
  - apply Forall_forall. intros d Hd. apply in_map_iff in Hd. destruct Hd as [i [<- _]].
    unfold data_dg; cbn. constructor; [exact Hc|constructor].
  - constructor; [|constructor]. unfold data_dg; cbn. constructor; assumption.
Qed.

Lemma lookup_relevant_in p n chs c : lookup_relevant p n chs = Some c -> In c chs /\ c_sn c = n /\ rp_fr p < n.
Proof.
  unfold lookup_relevant. intros H. apply find_some in H. destruct H as [H1 H2].
  apply andb_prop in H2. destruct H2 as [H2 H3]. apply Z.eqb_eq in H2. apply Z.ltb_lt in H3. tauto.
Qed.
Lemma find_change_in n chs c : find_change n chs = Some c -> In c chs /\ c_sn c = n.
Proof. unfold find_change. intros H. apply find_some in H. destruct H as [H1 H2]. apply Z.eqb_eq in H2. tauto. Qed.

Lemma unsent_rel_data fr fuel cf now chs : (forall c, In c chs -> fr < c_sn c -> P c) ->
  forall p acc, rp_fr p = fr -> Forall data_dg acc -> Forall data_dg (snd (unsent_rel fuel cf now chs p acc)).
Proof.
  intros Hi. induction fuel as [|f IH]; intros p acc Hfr Ha; cbn; [assumption|].
  destruct (next_unsent p chs) as [n|]; [|assumption].
  destruct (rp_hs p + 1 <? n).
  - unfold gen_hb. apply IH; [exact Hfr|]. apply Forall_app; split; [assumption|].
    constructor; [|constructor]. unfold data_dg; cbn. repeat constructor.
  - destruct (lookup_relevant p n chs) as [c|] eqn:El.
    + apply lookup_relevant_in in El. destruct El as (Hin & Hsn & Hlt).
      assert (Pc : P c) by (apply Hi; [assumption|lia]). unfold gen_hb.
      destruct (1 <? nfrags cf c); apply IH; try exact Hfr; apply Forall_app; split; try assumption.
      * apply data_frag_dgrams; [assumption| repeat constructor].
      * constructor; [|constructor]. unfold data_dg; cbn. repeat constructor. exact Pc.
    + apply IH; [exact Hfr|]. apply Forall_app; split; [assumption|].
      constructor; [|constructor]. unfold data_dg; cbn. repeat constructor.
Qed.

Lemma req_loop_data fr fuel cf now chs : (forall c, In c chs -> fr < c_sn c -> P c) ->
  forall p acc, rp_fr p = fr -> Forall data_dg acc -> Forall data_dg (snd (req_loop fuel cf now chs p acc)).
Proof.
  intros Hi. induction fuel as [|f IH]; intros p acc Hfr Ha; cbn; [assumption|].
  destruct (zmin_list (rp_req p)) as [n|]; [|assumption].
  match goal with |- context [lookup_relevant ?q n chs] => destruct (lookup_relevant q n chs) as [c|] eqn:El end.
  - apply lookup_relevant_in in El. destruct El as (Hin & Hsn & Hlt). cbn in Hlt.
    assert (Pc : P c) by (apply Hi; [assumption|lia]). unfold gen_hb.
    destruct (1 <? nfrags cf c); apply IH; try exact Hfr; apply Forall_app; split; try assumption;
      (constructor; [|constructor]); unfold data_dg; cbn; repeat constructor; exact Pc.
  - apply IH; [exact Hfr|]. apply Forall_app; split; [assumption|].
    constructor; [|constructor]. unfold data_dg; cbn. repeat constructor.
Qed.

Lemma unsent_rel_fr fuel cf now chs : forall p acc, rp_fr (fst (unsent_rel fuel cf now chs p acc)) = rp_fr p.
Proof.
  induction fuel as [|f IH]; intros p acc; cbn; [reflexivity|].
  destruct (next_unsent p chs) as [n|]; [|reflexivity].
  destruct (rp_hs p + 1 <? n); [unfold gen_hb; rewrite IH; reflexivity|].
  destruct (lookup_relevant p n chs) as [c|]; [|rewrite IH; reflexivity].
  unfold gen_hb. destruct (1 <? nfrags cf c); rewrite IH; reflexivity.
Qed.

Lemma write_rel_data cf now chs p : (forall c, In c chs -> rp_fr p < c_sn c -> P c) ->
  Forall data_dg (snd (write_rel cf now chs p)).
Proof.
  intros Hi. unfold write_rel.
  match goal with |- context [let '(p1, out1) := ?X in _] => destruct X as [p1 out1] eqn:E1 end.
  assert (Hp1 : rp_fr p1 = rp_fr p /\ Forall data_dg out1).
  { destruct (next_unsent p chs).
    - replace p1 with (fst (unsent_rel (S (length chs)) cf now chs p [])) by (rewrite E1; reflexivity).
      replace out1 with (snd (unsent_rel (S (length chs)) cf now chs p [])) by (rewrite E1; reflexivity).
      split; [apply unsent_rel_fr|]. apply unsent_rel_data with (fr := rp_fr p); [assumption|reflexivity|constructor].
    - destruct (negb (unacked p (zmax_list (sns chs)))); [inversion E1; subst; split; [reflexivity|constructor]|].
      destruct (time_for_hb p now); unfold gen_hb in E1; inversion E1; subst; (split; [reflexivity|]); [|constructor].
      constructor; [|constructor]. unfold data_dg; cbn. repeat constructor. }
  destruct Hp1 as [Hfr Ho]. apply req_loop_data with (fr := rp_fr p); assumption.
Qed.

Lemma write_be_data fuel cf chs : (forall c, In c chs -> P c) ->
  forall p acc, Forall data_dg acc -> Forall data_dg (snd (write_be_loop fuel cf chs p acc)).
Proof.
  intros Hi. induction fuel as [|f IH]; intros p acc Ha; cbn; [assumption|].
  destruct (next_unsent p chs) as [n|]; [|assumption].
  destruct (rp_hs p + 1 <? n).
  - apply IH. apply Forall_app; split; [assumption|].
    constructor; [|constructor]. unfold data_dg; cbn. repeat constructor.
  - destruct (find_change n chs) as [c|] eqn:El.
    + apply find_change_in in El. destruct El as [El _]. apply Hi in El.
      destruct (1 <? nfrags cf c); apply IH; apply Forall_app; split; try assumption.
      * apply data_frag_dgrams; [assumption| constructor].
      * constructor; [|constructor]. unfold data_dg; cbn. repeat constructor. exact El.
    + apply IH. apply Forall_app; split; [assumption|].
      constructor; [|constructor]. unfold data_dg; cbn. repeat constructor.
Qed.

Lemma on_acknack_data cf now chs p base set count : (forall c, In c chs -> rp_fr p < c_sn c -> P c) ->
  Forall data_dg (snd (fst (on_acknack cf now chs p base set count))).
Proof.
  intros Hi. unfold on_acknack. destruct (rp_rel p && (rp_an p <? count)); [|constructor].
  match goal with |- context [write_rel cf now chs ?q] =>
    pose proof (write_rel_data cf now chs q Hi) as H; destruct (write_rel cf now chs q) as [p2 out] end.
  exact H.
Qed.

Lemma on_nackfrag_data cf chs p sn base set count : (forall c, In c chs -> Q (c_sn c) -> P c) -> Q sn ->
  Forall data_dg (snd (on_nackfrag cf chs p sn base set count)).
Proof.
  intros Hi Hq. unfold on_nackfrag. destruct (rp_rel p && (rp_nf p <? count)); [|constructor].
  destruct (find_change sn chs) as [c|] eqn:El; cbn [snd].
  - apply find_change_in in El. destruct El as [El Hsn]. assert (Pc : P c) by (apply Hi; [assumption|rewrite Hsn; assumption]).
    apply Forall_forall. intros d Hd. apply in_flat_map in Hd. destruct Hd as [f [_ Hd]].
    destruct (f <? nfrags cf c); [|contradiction]. destruct Hd as [<-|[]].
    unfold data_dg; cbn. repeat constructor. exact Pc.
  - constructor; [|constructor]. unfold data_dg; cbn. repeat constructor.
Qed.

(* --- reader side *)
Definition opt_list {A} (o : option A) : list A := match o with Some x => [x] | None => [] end.

Lemma sns_app a b : sns (a ++ b) = sns a ++ sns b.
Proof. unfold sns. apply map_app. Qed.

Lemma WOk_accept w pres c w1 :
  P c -> WOk w pres -> wp_hr w < c_sn c ->
  wp_hr w1 = c_sn c -> (forall f, In f (wp_frags w1) -> In f (wp_frags w)) ->
  WOk w1 (pres ++ [c]).
Proof.
  intros Hc (Hin & Hs & Hb & Hf) Hlt Hhr Hfr. repeat split.
  - apply Forall_app; split; [assumption|constructor; [assumption|constructor]].
  - rewrite sns_app. cbn. apply sorted_app_one; [assumption|].
    unfold sns. apply Forall_forall. intros y Hy. apply in_map_iff in Hy. destruct Hy as [d [<- Hd]].
    rewrite Forall_forall in Hb. specialize (Hb d Hd). lia.
  - apply Forall_app; split; [|constructor; [lia|constructor]].
    eapply Forall_impl; [|exact Hb]. cbn. intros; lia.
  - rewrite Forall_forall in *. intros f Hf'. apply Hf. apply Hfr. assumption.
Qed.

Lemma WOk_keep w pres w1 :
  WOk w pres -> wp_hr w <= wp_hr w1 -> (forall f, In f (wp_frags w1) -> In f (wp_frags w)) ->
  WOk w1 pres.
Proof.
  intros (Hin & Hs & Hb & Hf) Hhr Hfr. repeat split; try assumption.
  - eapply Forall_impl; [|exact Hb]. cbn. intros; lia.
  - rewrite Forall_forall in *. intros f Hf'. apply Hf. apply Hfr. assumption.
Qed.

Lemma avail_max_ge_hr w : wp_hr w <= avail_max w.
Proof. unfold avail_max. lia. Qed.

Lemma on_data_WOk rel w c pres w1 oc :
  P c -> WOk w pres -> on_data rel w c = (w1, oc) -> WOk w1 (pres ++ opt_list oc).
Proof.
  intros Hc Hw E. pose proof (avail_max_ge_hr w) as Hav. unfold on_data in E. destruct rel.
  - destruct (Z.eqb_spec (c_sn c) (avail_max w + 1)) as [Heq|]; inversion E; subst; cbn [opt_list].
    + apply WOk_accept with (w := w); try assumption; [lia| |].
      * unfold received_set; cbn. destruct (Z.ltb_spec (wp_hr w) (c_sn c)); lia.
      * unfold received_set; cbn. intros f Hf. apply filter_In in Hf. tauto.
    + rewrite app_nil_r. assumption.
  - destruct (Z.leb_spec (avail_max w + 1) (c_sn c)) as [Hle|]; inversion E; subst; cbn [opt_list].
    + apply WOk_accept with (w := w); try assumption; [lia| |].
      * destruct (avail_max w + 1 <? c_sn c); unfold set_fa, received_set; cbn;
          destruct (Z.ltb_spec (wp_hr w) (c_sn c)); lia.
      * destruct (avail_max w + 1 <? c_sn c); unfold set_fa, received_set; cbn;
          intros f Hf; apply filter_In in Hf; tauto.
    + rewrite app_nil_r. assumption.
Qed.

Lemma push_frag_frags w f g : In g (wp_frags (push_frag w f)) -> g = f \/ In g (wp_frags w).
Proof.
  unfold push_frag. destruct (existsb (frag_eqb f) (wp_frags w)); [tauto|].
  unfold set_frags; cbn. intros H. apply in_app_or in H. destruct H as [H|[H|[]]]; auto.
Qed.
Lemma push_frag_hr w f : wp_hr (push_frag w f) = wp_hr w.
Proof. unfold push_frag. destruct (existsb _ _); reflexivity. Qed.
Lemma push_frag_avail w f : avail_max (push_frag w f) = avail_max w.
Proof. unfold push_frag. destruct (existsb _ _); reflexivity. Qed.

Lemma reconstruct_spec cf w sn d w2 :
  reconstruct cf w sn = Some (d, w2) ->
  In d (map fst (wp_frags w)) /\ c_sn d = sn /\ wp_hr w2 = wp_hr w /\ avail_max w2 = avail_max w /\
  (forall f, In f (wp_frags w2) -> In f (wp_frags w)).
Proof.
  unfold reconstruct. destruct (find _ (wp_frags w)) as [f0|]; [|discriminate].
  destruct (_ =? _); [|discriminate].
  destruct (find (fun f => (frag_sn f =? sn) && (snd f =? 1)) (wp_frags w)) as [f1|] eqn:E1; [|discriminate].
  intros H; inversion H; subst. apply find_some in E1. destruct E1 as [E1 E2].
  apply andb_prop in E2. destruct E2 as [E2 _]. apply Z.eqb_eq in E2.
  repeat split.
  - apply in_map. assumption.
  - exact E2.
  - unfold set_frags; cbn. intros f Hf. apply filter_In in Hf. tauto.
Qed.

Lemma on_frag_WOk cf rel w c k pres w1 oc :
  P c -> WOk w pres -> on_frag cf rel w c k = (w1, oc) -> WOk w1 (pres ++ opt_list oc).
Proof.
  intros Hc Hw E. unfold on_frag in E.
  set (wa := if (if rel then c_sn c =? avail_max w + 1 else avail_max w + 1 <=? c_sn c)
             then push_frag w (c, k) else w) in *.
  assert (Hwa : WOk wa pres).
  { subst wa. destruct (if rel then _ else _); [|assumption].
    destruct Hw as (Hin & Hs & Hb & Hf). repeat split; try assumption.
    - rewrite push_frag_hr. assumption.
    - apply Forall_forall. intros g Hg. apply push_frag_frags in Hg. destruct Hg as [->|Hg]; [exact Hc|].
      rewrite Forall_forall in Hf. auto. }
  destruct (reconstruct cf wa (c_sn c)) as [[d w2]|] eqn:Er.
  - apply reconstruct_spec in Er. destruct Er as (Hd & _ & Hhr & _ & Hfr).
    eapply on_data_WOk; [| |exact E].
    + destruct Hwa as (_ & _ & _ & Hf). apply in_map_iff in Hd. destruct Hd as [g [<- Hg]].
      rewrite Forall_forall in Hf. auto.
    + eapply WOk_keep; [exact Hwa|lia|exact Hfr].
  - inversion E; subst. cbn [opt_list]. rewrite app_nil_r. assumption.
Qed.

Lemma on_gap_WOk w a b pres : WOk w pres -> WOk (on_gap w a b) pres.
Proof.
  intros Hw. unfold on_gap. destruct ((a <? b) && (wp_hr w <? b - 1)) eqn:E; [|assumption].
  apply andb_prop in E. destruct E as [_ E]. apply Z.ltb_lt in E.
  eapply WOk_keep; [exact Hw| cbn; lia | cbn; auto].
Qed.

Lemma acknack_of_spec cf w : Forall (fun f => P (fst f)) (wp_frags w) ->
  wp_hr (fst (acknack_of cf w)) = wp_hr w /\
  wp_frags (fst (acknack_of cf w)) = wp_frags w /\
  Forall data_sub (snd (acknack_of cf w)).
Proof.
  intros Hf. unfold acknack_of. cbn [wp_frags wp_hr wp_fa wp_la wp_an wp_nf].
  match goal with |- context [find ?g (firstn 256 ?m)] => destruct (find g (firstn 256 m)) as [s|] eqn:Es end.
  2:{ cbn. repeat split. repeat constructor. }
  destruct (find (fun f => frag_sn f =? s) (wp_frags w)) as [f0|] eqn:Ef0.
  2:{ cbn. repeat split. repeat constructor. }
  match goal with |- context [match ?l with [] => _ | _ :: _ => _ end] => destruct l as [|b t] end.
  - cbn. repeat split. repeat constructor.
  - cbn. repeat split. constructor; [exact I|]. constructor; [|constructor]. cbn.
    apply find_some in Ef0. destruct Ef0 as [Hin Heq]. apply Z.eqb_eq in Heq. unfold frag_sn in Heq. rewrite <- Heq.
    apply PQ. rewrite Forall_forall in Hf. apply Hf. assumption.
Qed.

Lemma on_hb_WOk cf w f l c pres w1 out :
  WOk w pres -> on_hb cf w f l c = (w1, out) -> WOk w1 pres /\ Forall data_dg out.
Proof.
  intros Hw E. unfold on_hb in E. destruct (wp_hb w <? c).
  - match type of E with context [acknack_of cf ?q] =>
      assert (Hq : Forall (fun f => P (fst f)) (wp_frags q)) by (cbn; apply Hw);
      pose proof (acknack_of_spec cf q Hq) as (Hhr & Hfr & Ha); destruct (acknack_of cf q) as [w2 subs] end.
    inversion E; subst. cbn in Hhr, Hfr, Ha. split.
    + eapply WOk_keep; [exact Hw| rewrite Hhr; lia | rewrite Hfr; auto].
    + constructor; [|constructor]. unfold data_dg; cbn. exact Ha.
  - inversion E; subst. split; [assumption|constructor].
Qed.

Lemma rd_present_proj r w oc :
  rd_wp (rd_present r w oc) = Some w /\ rd_pres (rd_present r w oc) = rd_pres r ++ opt_list oc.
Proof. destruct oc; cbn; split; try reflexivity. rewrite app_nil_r. reflexivity. Qed.

Lemma deliver_sub_R_RInv cf r m r1 out :
  data_sub m -> RInv r -> deliver_sub_R cf r m = (r1, out) ->
  RInv r1 /\ Forall data_dg out.
Proof.
  intros Ha Hr E. unfold deliver_sub_R in E. unfold RInv in Hr.
  destruct (rd_wp r) as [w|] eqn:Ew.
  2:{ inversion E; subst. split; [unfold RInv; rewrite Ew; assumption|constructor]. }
  destruct m as [c|c k|a b|f l c| |]; cbn in Ha.
  - destruct (on_data (rd_rel r) w c) as [w1 oc] eqn:Ed. inversion E; subst. split; [|constructor].
    unfold RInv. destruct (rd_present_proj r w1 oc) as [-> ->]. eapply on_data_WOk; eassumption.
  - destruct (on_frag cf (rd_rel r) w c k) as [w1 oc] eqn:Ed. inversion E; subst. split; [|constructor].
    unfold RInv. destruct (rd_present_proj r w1 oc) as [-> ->]. eapply on_frag_WOk; eassumption.
  - inversion E; subst. split; [|constructor].
    unfold RInv, rd_present; cbn. apply on_gap_WOk. assumption.
  - destruct (on_hb cf w f l c) as [w1 o] eqn:Eh.
    destruct (on_hb_WOk cf w f l c (rd_pres r) w1 o Hr Eh) as [Hw Ho].
    destruct (hist_received (rd_wp (rd_present r w1 None))); inversion E; subst; (split; [|assumption]);
      unfold RInv, rd_present; cbn; assumption.
  - inversion E; subst. split; [unfold RInv; rewrite Ew; assumption|constructor].
  - inversion E; subst. split; [unfold RInv; rewrite Ew; assumption|constructor].
Qed.

Lemma deliver_subs_R_RInv cf l : forall r acc r1 out,
  Forall data_sub l -> RInv r -> Forall data_dg acc ->
  deliver_subs_R cf r l acc = (r1, out) -> RInv r1 /\ Forall data_dg out.
Proof.
  induction l as [|m t IH]; intros r acc r1 out Hl Hr Ha E; cbn in E.
  - inversion E; subst. split; assumption.
  - inversion Hl; subst. destruct (deliver_sub_R cf r m) as [r' o] eqn:Em.
    destruct (deliver_sub_R_RInv cf r m r' o H1 Hr Em) as [Hr' Ho].
    eapply IH; [exact H2|exact Hr'| |exact E]. apply Forall_app; split; assumption.
Qed.

End DataInv.

(* ------------------------------------------------------------------ safety invariant *)
(* authentic = cut from a change of the publication log *)
Definition auth_sub (log : list change) : submsg -> Prop := data_sub (fun c => In c log) (fun _ => True).
Definition auth_dg (log : list change) : dgram -> Prop := data_dg (fun c => In c log) (fun _ => True).
Definition ARInv (log : list change) : reader -> Prop := RInv (fun c => In c log).

Record SInv (s : state) : Prop := mkSInv {
  si_sorted : StronglySorted Z.lt (sns (s_log s));
  si_le : Forall (fun c => c_sn c <= s_last s) (s_log s);
  si_chs : incl (s_changes s) (s_log s);
  si_net : Forall (auth_dg (s_log s)) (s_net s);
  si_rd : match s_rd s with None => True | Some r => ARInv (s_log s) r end
}.

Lemma auth_dg_mono l1 l2 d : incl l1 l2 -> auth_dg l1 d -> auth_dg l2 d.
Proof.
  intros Hi H. unfold auth_dg, data_dg in *. eapply Forall_impl; [|exact H].
  intros m. destruct m; cbn; auto.
Qed.

Lemma write_message_auth log cf now chs p : incl chs log ->
  Forall (auth_dg log) (snd (write_message cf now chs p)).
Proof.
  intros Hi. unfold write_message. destruct (rp_rel p).
  - apply write_rel_data. intros c Hc _. apply Hi. assumption.
  - apply write_be_data; [|constructor]. intros c Hc. apply Hi. assumption.
Qed.
Lemma on_acknack_auth log cf now chs p base set count : incl chs log ->
  Forall (auth_dg log) (snd (fst (on_acknack cf now chs p base set count))).
Proof. intros Hi. apply on_acknack_data. intros c Hc _. apply Hi. assumption. Qed.
Lemma on_nackfrag_auth log cf chs p sn base set count : incl chs log ->
  Forall (auth_dg log) (snd (on_nackfrag cf chs p sn base set count)).
Proof. intros Hi. apply on_nackfrag_data; [|exact I]. intros c Hc _. apply Hi. assumption. Qed.

(* --- state level *)
Lemma SInv_send s out : SInv s -> Forall (auth_dg (s_log s)) out -> SInv (send s out).
Proof.
  intros [H1 H2 H3 H4 H5] Ho. constructor; cbn; try assumption.
  apply Forall_app; split; [assumption|]. apply Forall_filter. assumption.
Qed.

Lemma SInv_set_rp s p : SInv s -> SInv (set_rp s p).
Proof. intros [H1 H2 H3 H4 H5]. constructor; cbn; assumption. Qed.
Lemma SInv_set_waits s w : SInv s -> SInv (set_waits s w).
Proof. intros [H1 H2 H3 H4 H5]. constructor; cbn; assumption. Qed.
Lemma SInv_set_net s n : SInv s -> Forall (auth_dg (s_log s)) n -> SInv (set_net s n).
Proof. intros [H1 H2 H3 H4 H5] Hn. constructor; cbn; assumption. Qed.
Lemma SInv_set_rd s r : SInv s -> ARInv (s_log s) r -> SInv (set_rd s (Some r)).
Proof. intros [H1 H2 H3 H4 H5] Hr. constructor; cbn; assumption. Qed.

Lemma poke_SInv cf s : SInv s -> SInv (poke cf s).
Proof.
  intros H. unfold poke. destruct (s_rp s) as [p|]; [|assumption].
  pose proof (write_message_auth (s_log s) cf (s_now s) (s_changes s) p (si_chs s H)) as Ha.
  destruct (write_message cf (s_now s) (s_changes s) p) as [p1 out]. cbn in Ha.
  apply SInv_send; [apply SInv_set_rp; assumption|assumption].
Qed.

Lemma deliver_sub_W_SInv cf s m : SInv s -> SInv (deliver_sub_W cf s m).
Proof.
  intros H. unfold deliver_sub_W. destruct (s_rp s) as [p|]; [|assumption].
  destruct m; try assumption.
  - pose proof (on_acknack_auth (s_log s) cf (s_now s) (s_changes s) p base set count (si_chs s H)) as Ha.
    destruct (on_acknack cf (s_now s) (s_changes s) p base set count) as [[p1 out] some]. cbn in Ha.
    assert (SInv (send (set_rp s (Some p1)) out)) by (apply SInv_send; [apply SInv_set_rp; assumption|assumption]).
    destruct (some && is_acked (Some p1) (s_last s)); [apply SInv_set_waits|]; assumption.
  - pose proof (on_nackfrag_auth (s_log s) cf (s_changes s) p sn base set count (si_chs s H)) as Ha.
    destruct (on_nackfrag cf (s_changes s) p sn base set count) as [p1 out]. cbn in Ha.
    apply SInv_send; [apply SInv_set_rp; assumption|assumption].
Qed.

Lemma fold_deliver_sub_W_SInv cf l : forall s, SInv s -> SInv (fold_left (deliver_sub_W cf) l s).
Proof. induction l; intros s H; cbn; [assumption|]. apply IHl. apply deliver_sub_W_SInv. assumption. Qed.

Lemma deliver_dgram_SInv cf s d : SInv s -> auth_dg (s_log s) d -> SInv (deliver_dgram cf s d).
Proof.
  intros H Hd. unfold deliver_dgram. destruct (dg_toR d).
  - destruct (s_rdead s); [assumption|]. destruct (s_rd s) as [r|] eqn:Er; [|assumption].
    destruct (deliver_subs_R cf r (dg_subs d) []) as [r1 out] eqn:E.
    pose proof (si_rd s H) as Hr. rewrite Er in Hr.
    destruct (deliver_subs_R_RInv (fun c => In c (s_log s)) (fun _ => True) (fun _ _ => I) cf (dg_subs d) r [] r1 out Hd Hr (Forall_nil _) E) as [Hr1 Ho].
    apply SInv_send; [apply SInv_set_rd; assumption|assumption].
  - apply fold_deliver_sub_W_SInv. assumption.
Qed.

Lemma SInv_take_net s i d :
  SInv s -> nth_error (s_net s) i = Some d ->
  SInv (set_net s (remove_nth i (s_net s))) /\ auth_dg (s_log s) d.
Proof.
  intros H E. split.
  - apply SInv_set_net; [assumption|]. apply Forall_remove_nth. apply (si_net s H).
  - eapply Forall_nth_error; [apply (si_net s H)|exact E].
Qed.

Lemma pump_SInv cf fuel : forall s n, SInv s -> SInv (fst (pump fuel cf s n)).
Proof.
  induction fuel as [|f IH]; intros s n H; cbn; [assumption|].
  destruct (s_net s) as [|d t] eqn:En; [assumption|].
  apply IH. apply poke_SInv.
  assert (Hd : auth_dg (s_log s) d /\ Forall (auth_dg (s_log s)) t).
  { pose proof (si_net s H) as Hn. rewrite En in Hn. inversion Hn; subst. split; assumption. }
  apply deliver_dgram_SInv; [apply SInv_set_net; tauto|cbn; tauto].
Qed.

Lemma init_SInv : SInv init.
Proof. constructor; cbn; try constructor. intros x []. Qed.

Lemma do_write_SInv cf s key len sum : SInv s -> SInv (fst (do_write cf s key len sum)).
Proof.
  intros H. unfold do_write.
  match goal with |- context [if ?b then (s, 10) else _] => destruct b end; [assumption|].
  match goal with |- context [let '(chs1, inst1) := ?X in _] => destruct X as [chs1 inst1] eqn:E end.
  assert (Hc : incl chs1 (s_log s)).
  { pose proof (si_chs s H) as Hi.
    match type of E with (match ?o with _ => _ end) = _ => destruct o end; inversion E; subst; [|assumption].
    intros x Hx. apply filter_In in Hx. apply Hi. tauto. }
  destruct H as [H1 H2 H3 H4 H5]. cbn [fst]. constructor; cbn.
  - rewrite sns_app. cbn. apply sorted_app_one; [assumption|].
    unfold sns. apply Forall_forall. intros y Hy. apply in_map_iff in Hy. destruct Hy as [d [<- Hd]].
    rewrite Forall_forall in H2. specialize (H2 d Hd). lia.
  - apply Forall_app; split; [|constructor; [cbn; lia|constructor]].
    eapply Forall_impl; [|exact H2]. cbn. intros; lia.
  - intros x Hx. apply in_app_or in Hx. apply in_or_app. destruct Hx as [Hx|Hx]; [left; auto|right; assumption].
  - eapply Forall_impl; [|exact H4]. intros d. apply auth_dg_mono. apply incl_appl. apply incl_refl.
  - destruct (s_rd s) as [r|]; [|exact I]. unfold ARInv, RInv in *. destruct (rd_wp r); [|assumption].
    destruct H5 as (A & B & C & D). repeat split; try assumption.
    + eapply Forall_impl; [|exact A]. cbn. intros; apply in_or_app; auto.
    + eapply Forall_impl; [|exact D]. cbn. intros; apply in_or_app; auto.
Qed.

Lemma act_SInv cf s a : SInv s -> SInv (fst (act cf s a)).
Proof.
  intros H. destruct a; cbn [act].
  - pose proof (do_write_SInv cf s key len sum H) as Hw.
    destruct (do_write cf s key len sum) as [s1 code]. exact Hw.
  - destruct H as [H1 H2 H3 H4 H5]. constructor; cbn; try assumption.
    intros x Hx. apply filter_In in Hx. apply H3. tauto.
  - destruct H as [H1 H2 H3 H4 H5]. constructor; cbn; assumption.
  - destruct (nth_error (s_net s) i) as [d|] eqn:E; [|assumption]. cbn [fst].
    destruct (SInv_take_net s i d H E) as [Hs Hd]. apply deliver_dgram_SInv; assumption.
  - destruct (nth_error (s_net s) i) as [d|] eqn:E; [|assumption]. cbn [fst].
    destruct (SInv_take_net s i d H E) as [Hs Hd]. assumption.
  - destruct (nth_error (s_net s) i) as [d|] eqn:E; [|assumption]. cbn [fst].
    destruct (SInv_take_net s i d H E) as [Hs Hd].
    assert (Hlog : forall s', s_log (poke cf s') = s_log s').
    { intros s'. unfold poke. destruct (s_rp s'); [|reflexivity]. destruct (write_message _ _ _ _). reflexivity. }
    assert (Hlog2 : forall s' d', s_log (deliver_dgram cf s' d') = s_log s').
    { intros s' d'. unfold deliver_dgram. destruct (dg_toR d').
      - destruct (s_rdead s'); [reflexivity|]. destruct (s_rd s'); [|reflexivity].
        destruct (deliver_subs_R _ _ _ _). reflexivity.
      - generalize s'. induction (dg_subs d') as [|m t IH]; intros s0; cbn; [reflexivity|].
        rewrite IH. unfold deliver_sub_W. destruct (s_rp s0); [|reflexivity].
        destruct m; try reflexivity.
        + destruct (on_acknack _ _ _ _ _ _ _) as [[p1 o] sm]. destruct (sm && _); reflexivity.
        + destruct (on_nackfrag _ _ _ _ _ _ _). reflexivity. }
    apply deliver_dgram_SInv.
    + apply poke_SInv. apply deliver_dgram_SInv; assumption.
    + rewrite Hlog, Hlog2. cbn. assumption.
  - pose proof (pump_SInv cf pump_fuel s 0 H) as Hp.
    destruct (pump pump_fuel cf s 0) as [s1 n]. exact Hp.
  - destruct (s_rd s) as [r|] eqn:Er; [|assumption]. cbn [fst].
    pose proof (si_rd s H) as Hr. rewrite Er in Hr.
    destruct H as [H1 H2 H3 H4 H5]. constructor; cbn; try assumption.
  - destruct (s_rd s) as [r|] eqn:Er; [assumption|].
    destruct (s_rdead s || _); [assumption|].
    destruct (rxo_ok cf rel tl); cbn [fst].
    + apply poke_SInv. destruct H as [H1 H2 H3 H4 H5]. constructor; cbn; try assumption.
      unfold ARInv, RInv, WOk; cbn. repeat split; constructor.
    + destruct H as [H1 H2 H3 H4 H5]. constructor; cbn; try assumption. reflexivity.
  - destruct H as [H1 H2 H3 H4 H5]. constructor; cbn; try assumption. exact I.
  - destruct H as [H1 H2 H3 H4 H5]. constructor; cbn; try assumption. exact I.
  - destruct (is_acked (s_rp s) (s_last s)); cbn [fst]; apply SInv_set_waits; assumption.
  - destruct (poll (s_waits s)). cbn [fst]. apply SInv_set_waits; assumption.
  - destruct (s_rd s) as [r|] eqn:Er; [|assumption].
    pose proof (si_rd s H) as Hr. rewrite Er in Hr.
    destruct (negb (rd_tl r)); [assumption|].
    destruct (hist_received (rd_wp r)); cbn [fst]; apply SInv_set_rd; assumption.
  - destruct (s_rd s) as [r|] eqn:Er; [|assumption].
    pose proof (si_rd s H) as Hr. rewrite Er in Hr.
    destruct (poll (rd_hwaits r)). cbn [fst]. apply SInv_set_rd; assumption.
  - assumption.
  - assumption.
Qed.

Lemma step_SInv cf s a : SInv s -> SInv (fst (step cf s a)).
Proof.
  intros H. unfold step. pose proof (act_SInv cf s a H) as Ha.
  destruct (act cf s a) as [s1 o]. cbn [fst] in *. apply poke_SInv. assumption.
Qed.

Lemma run_out_fst cf l : forall s, fst (run_out cf s l) = fold_left (fun st a => fst (step cf st a)) l s.
Proof.
  induction l as [|a t IH]; intros s; cbn; [reflexivity|].
  destruct (step cf s a) as [s1 o] eqn:E. destruct (run_out cf s1 t) as [s2 os] eqn:E2. cbn.
  rewrite <- IH. rewrite E2. reflexivity.
Qed.

Lemma run_SInv cf l : forall s, SInv s -> SInv (run cf s l).
Proof.
  unfold run. induction l as [|a t IH]; intros s H; cbn; [assumption|].
  pose proof (step_SInv cf s a H) as Hs. destruct (step cf s a) as [s1 o]. cbn [fst] in Hs.
  specialize (IH s1 Hs). destruct (run_out cf s1 t) as [s2 os]. exact IH.
Qed.

(* ------------------------------------------------------------------ safety theorems *)

Lemma SInv_presented s : SInv s ->
  Forall (fun c => In c (s_log s)) (presented s) /\ strictly_increasing (presented s).
Proof.
  intros H. unfold presented, strictly_increasing. pose proof (si_rd s H) as Hr.
  destruct (s_rd s) as [r|]; [|split; constructor].
  unfold ARInv, RInv in Hr. destruct (rd_wp r).
  - destruct Hr as (A & B & _). split; assumption.
  - rewrite Hr. split; constructor.
Qed.

Lemma sorted_NoDup l : StronglySorted Z.lt l -> NoDup l.
Proof.
  induction 1; constructor; [|assumption].
  intros Hin. rewrite Forall_forall in H0. specialize (H0 a Hin). lia.
Qed.

(* for every configuration (RELIABLE or BEST_EFFORT, any durability/history) and EVERY schedule of
   writes, removals, ticks, deliveries in any order, drops, duplications, matches and deletions: the
   list the reader presented is a subsequence of the publication log (same records, so same payload),
   in publication order, with strictly increasing sequence numbers (hence without duplicates) *)
Theorem safety_all cf l :
  let s := run cf init l in
  sublist (presented s) (s_log s) /\ strictly_increasing (presented s) /\ NoDup (presented s).
Proof.
  intros s. pose proof (run_SInv cf l init init_SInv) as H. fold s in H.
  destruct (SInv_presented s H) as [Hin Hs]. split; [|split].
  - apply sorted_incl_sublist; [apply (si_sorted s H)|exact Hs|exact Hin].
  - exact Hs.
  - unfold strictly_increasing in Hs. apply sorted_NoDup in Hs.
    unfold sns in Hs. eapply NoDup_map_inv. exact Hs.
Qed.

(* duplicates of a fragment are recognised and not buffered twice *)
Lemma change_eqb_refl c : change_eqb c c = true.
Proof. unfold change_eqb. rewrite !Z.eqb_refl. reflexivity. Qed.
Lemma frag_eqb_refl f : frag_eqb f f = true.
Proof. unfold frag_eqb. rewrite change_eqb_refl, Z.eqb_refl. reflexivity. Qed.

Lemma push_frag_idem w f : push_frag (push_frag w f) f = push_frag w f.
Proof.
  unfold push_frag at 2 3. destruct (existsb (frag_eqb f) (wp_frags w)) eqn:E.
  - unfold push_frag. rewrite E. reflexivity.
  - unfold push_frag. cbn. rewrite existsb_app. cbn. rewrite frag_eqb_refl, orb_true_r. reflexivity.
Qed.

(* ------------------------------------------------------------------ frame facts *)
(* reliability kind, durability kind and first relevant sample of a reader proxy never change *)
Definition rp_static (p : rproxy) : bool * bool * Z := (rp_rel p, rp_tl p, rp_fr p).

Lemma unsent_rel_static fuel cf now chs : forall p acc,
  rp_static (fst (unsent_rel fuel cf now chs p acc)) = rp_static p.
Proof.
  induction fuel as [|f IH]; intros p acc; cbn; [reflexivity|].
  destruct (next_unsent p chs) as [n|]; [|reflexivity].
  destruct (rp_hs p + 1 <? n); [unfold gen_hb; rewrite IH; reflexivity|].
  destruct (lookup_relevant p n chs) as [c|]; [|rewrite IH; reflexivity].
  unfold gen_hb. destruct (1 <? nfrags cf c); rewrite IH; reflexivity.
Qed.
Lemma req_loop_static fuel cf now chs : forall p acc,
  rp_static (fst (req_loop fuel cf now chs p acc)) = rp_static p.
Proof.
  induction fuel as [|f IH]; intros p acc; cbn; [reflexivity|].
  destruct (zmin_list (rp_req p)) as [n|]; [|reflexivity].
  match goal with |- context [lookup_relevant ?q n chs] => destruct (lookup_relevant q n chs) as [c|] end.
  - unfold gen_hb. destruct (1 <? nfrags cf c); rewrite IH; reflexivity.
  - rewrite IH. reflexivity.
Qed.
Lemma write_rel_static cf now chs p : rp_static (fst (write_rel cf now chs p)) = rp_static p.
Proof.
  unfold write_rel.
  match goal with |- context [let '(p1, out1) := ?X in _] => destruct X as [p1 out1] eqn:E1 end.
  rewrite req_loop_static.
  destruct (next_unsent p chs).
  - replace p1 with (fst (unsent_rel (S (length chs)) cf now chs p [])) by (rewrite E1; reflexivity).
    apply unsent_rel_static.
  - destruct (negb _); [inversion E1; reflexivity|].
    destruct (time_for_hb p now); unfold gen_hb in E1; inversion E1; reflexivity.
Qed.
Lemma write_be_static fuel cf chs : forall p acc,
  rp_static (fst (write_be_loop fuel cf chs p acc)) = rp_static p.
Proof.
  induction fuel as [|f IH]; intros p acc; cbn; [reflexivity|].
  destruct (next_unsent p chs) as [n|]; [|reflexivity].
  destruct (rp_hs p + 1 <? n); [rewrite IH; reflexivity|].
  destruct (find_change n chs) as [c|]; [|rewrite IH; reflexivity].
  destruct (1 <? nfrags cf c); rewrite IH; reflexivity.
Qed.
Lemma write_message_static cf now chs p : rp_static (fst (write_message cf now chs p)) = rp_static p.
Proof. unfold write_message. destruct (rp_rel p); [apply write_rel_static|apply write_be_static]. Qed.
Lemma on_acknack_static cf now chs p base set count :
  rp_static (fst (fst (on_acknack cf now chs p base set count))) = rp_static p.
Proof.
  unfold on_acknack. destruct (rp_rel p && _); [|reflexivity].
  match goal with |- context [write_rel cf now chs ?q] =>
    pose proof (write_rel_static cf now chs q) as H; destruct (write_rel cf now chs q) as [p2 out] end.
  exact H.
Qed.
Lemma on_nackfrag_static cf chs p sn base set count :
  rp_static (fst (on_nackfrag cf chs p sn base set count)) = rp_static p.
Proof.
  unfold on_nackfrag. destruct (rp_rel p && _); [|reflexivity].
  destruct (find_change sn chs); reflexivity.
Qed.

Lemma static_fr p q : rp_static p = rp_static q -> rp_fr p = rp_fr q /\ rp_rel p = rp_rel q /\ rp_tl p = rp_tl q.
Proof. unfold rp_static. intros H. inversion H. auto. Qed.

Lemma zmax_list_none l : zmax_list l = None -> l = [].
Proof. destruct l as [|x t]; [reflexivity|]. cbn. destruct (zmax_list t); discriminate. Qed.
Lemma zmin_list_none l : zmin_list l = None -> l = [].
Proof. destruct l as [|x t]; [reflexivity|]. cbn. destruct (zmin_list t); discriminate. Qed.

Lemma zmax_list_ge l m x : zmax_list l = Some m -> In x l -> x <= m.
Proof.
  revert m; induction l as [|y t IH]; intros m E Hin; [contradiction|].
  cbn in E. destruct (zmax_list t) as [m'|] eqn:Et.
  - inversion E; subst. destruct Hin as [->|Hin]; [lia|]. specialize (IH m' eq_refl Hin). lia.
  - inversion E; subst. apply zmax_list_none in Et. subst t. destruct Hin as [->|[]]. lia.
Qed.

Lemma in_le_last_sn c chs : In c chs -> c_sn c <= last_sn chs.
Proof.
  intros H. unfold last_sn. destruct (zmax_list (sns chs)) as [m|] eqn:E.
  - eapply zmax_list_ge; [exact E|]. unfold sns. apply in_map. exact H.
  - apply zmax_list_none in E. unfold sns in E. destruct chs; [contradiction|discriminate].
Qed.

(* ------------------------------------------------------------------ before the match nothing is in flight *)
Definition NInv (s : state) : Prop :=
  s_rp s = None -> s_net s = [] /\ match s_rd s with Some r => rd_wp r = None | None => True end.

Lemma poke_rp_none cf s : s_rp s = None -> poke cf s = s.
Proof. intros H. unfold poke. rewrite H. reflexivity. Qed.

Lemma poke_rp_some cf s p : s_rp s = Some p -> exists q, s_rp (poke cf s) = Some q /\ rp_static q = rp_static p.
Proof.
  intros H. unfold poke. rewrite H.
  pose proof (write_message_static cf (s_now s) (s_changes s) p) as Hs.
  destruct (write_message cf (s_now s) (s_changes s) p) as [p1 out]. exists p1. split; [reflexivity|exact Hs].
Qed.

Lemma deliver_dgram_rp cf s d : forall p, s_rp s = Some p ->
  exists q, s_rp (deliver_dgram cf s d) = Some q /\ rp_static q = rp_static p.
Proof.
  intros p Hp. unfold deliver_dgram. destruct (dg_toR d).
  - destruct (s_rdead s); [eauto|]. destruct (s_rd s); [|eauto].
    destruct (deliver_subs_R _ _ _ _). cbn. eauto.
  - revert s p Hp. induction (dg_subs d) as [|m t IH]; intros s p Hp; cbn; [eauto|].
    assert (H : exists q, s_rp (deliver_sub_W cf s m) = Some q /\ rp_static q = rp_static p).
    { unfold deliver_sub_W. rewrite Hp. destruct m; eauto.
      - pose proof (on_acknack_static cf (s_now s) (s_changes s) p base set count) as Hs.
        destruct (on_acknack _ _ _ _ _ _ _) as [[p1 o] sm]. cbn in Hs.
        destruct (sm && _); cbn; eauto.
      - pose proof (on_nackfrag_static cf (s_changes s) p sn base set count) as Hs.
        destruct (on_nackfrag _ _ _ _ _ _ _) as [p1 o]. cbn in Hs. cbn. eauto. }
    destruct H as [q [Hq Hqs]]. destruct (IH _ _ Hq) as [q' [Hq' Hqs']]. exists q'. split; [assumption|congruence].
Qed.

Lemma pump_rp cf fuel : forall s n p, s_rp s = Some p ->
  exists q, s_rp (fst (pump fuel cf s n)) = Some q /\ rp_static q = rp_static p.
Proof.
  induction fuel as [|f IH]; intros s n p Hp; cbn; [eauto|].
  destruct (s_net s) as [|d t]; [eauto|].
  destruct (deliver_dgram_rp cf (set_net s t) d p Hp) as [q [Hq Hs]].
  destruct (poke_rp_some cf _ q Hq) as [q2 [Hq2 Hs2]].
  destruct (IH _ (n + 1) q2 Hq2) as [q3 [Hq3 Hs3]]. exists q3. split; [assumption|congruence].
Qed.

Lemma do_write_frame cf s key len sum :
  let s1 := fst (do_write cf s key len sum) in
  s_rp s1 = s_rp s /\ s_rd s1 = s_rd s /\ s_net s1 = s_net s /\ s_now s1 = s_now s /\
  s_dcps s1 = s_dcps s /\ s_waits s1 = s_waits s /\ s_rdead s1 = s_rdead s.
Proof.
  unfold do_write.
  match goal with |- context [if ?b then (s, 10) else _] => destruct b end; [cbn; tauto|].
  match goal with |- context [let '(chs1, inst1) := ?X in _] => destruct X as [chs1 inst1] end. cbn. tauto.
Qed.

(* once a reader proxy exists it stays, with the same static fields *)
Lemma step_rp cf s a p : s_rp s = Some p ->
  exists q, s_rp (fst (step cf s a)) = Some q /\ rp_static q = rp_static p.
Proof.
  intros Hp. unfold step.
  assert (H : exists q, s_rp (fst (act cf s a)) = Some q /\ rp_static q = rp_static p).
  { destruct a; cbn [act]; eauto.
    - pose proof (do_write_frame cf s key len sum) as (Hf & _).
      destruct (do_write cf s key len sum) as [s1 code]. cbn [fst] in *. rewrite Hf. eauto.
    - destruct (nth_error (s_net s) i); [|eauto]. cbn [fst]. apply deliver_dgram_rp. exact Hp.
    - destruct (nth_error (s_net s) i); eauto.
    - destruct (nth_error (s_net s) i); [|eauto]. cbn [fst].
      destruct (deliver_dgram_rp cf (set_net s (remove_nth i (s_net s))) d p Hp) as [q [Hq Hs]].
      destruct (poke_rp_some cf _ q Hq) as [q2 [Hq2 Hs2]].
      destruct (deliver_dgram_rp cf _ d q2 Hq2) as [q3 [Hq3 Hs3]]. exists q3. split; [assumption|congruence].
    - pose proof (pump_rp cf pump_fuel s 0 p Hp) as H. destruct (pump pump_fuel cf s 0). exact H.
    - destruct (s_rd s); eauto.
    - destruct (s_rd s); [eauto|]. rewrite Hp. rewrite orb_true_r. eauto.
    - destruct (is_acked _ _); eauto.
    - destruct (poll (s_waits s)). cbn. eauto.
    - destruct (s_rd s) as [r|]; [|eauto]. destruct (negb _); [eauto|]. destruct (hist_received _); cbn; eauto.
    - destruct (s_rd s) as [r|]; [|eauto]. destruct (poll (rd_hwaits r)). cbn. eauto. }
  destruct H as [q [Hq Hs]]. destruct (act cf s a) as [s1 o]. cbn [fst] in *.
  destruct (poke_rp_some cf s1 q Hq) as [q2 [Hq2 Hs2]]. exists q2. split; [assumption|congruence].
Qed.

Lemma step_NInv cf s a : NInv s -> NInv (fst (step cf s a)).
Proof.
  intros H. destruct (s_rp s) as [p|] eqn:Hp.
  { destruct (step_rp cf s a p Hp) as [q [Hq _]]. intros Hn. congruence. }
  destruct (H Hp) as [Hnet Hrd]. unfold step.
  destruct a; cbn [act]; try (cbn; rewrite poke_rp_none by (cbn; assumption); intros _; cbn; tauto).
  - pose proof (do_write_frame cf s key len sum) as (Hf1 & Hf2 & Hf3 & _).
    destruct (do_write cf s key len sum) as [s1 code]. cbn [fst] in *.
    rewrite poke_rp_none by congruence. intros _. rewrite Hf2, Hf3. tauto.
  - rewrite Hnet. destruct i; cbn; rewrite poke_rp_none by assumption; exact H.
  - rewrite Hnet. destruct i; cbn; rewrite poke_rp_none by assumption; exact H.
  - rewrite Hnet. destruct i; cbn; rewrite poke_rp_none by assumption; exact H.
  - unfold pump_fuel. cbn. rewrite Hnet. cbn. rewrite poke_rp_none by assumption. exact H.
  - destruct (s_rd s) as [r|] eqn:Er; cbn; rewrite poke_rp_none by (cbn; assumption); [|exact H].
    intros _; cbn; tauto.
  - destruct (s_rd s) as [r|] eqn:Er; [cbn; rewrite poke_rp_none by assumption; exact H|].
    rewrite Hp. rewrite orb_false_r. destruct (s_rdead s); cbn [orb].
    + cbn. rewrite poke_rp_none by assumption. exact H.
    + destruct (rxo_ok cf rel tl).
      * cbn [fst]. intros Hn. exfalso.
        match type of Hn with s_rp (poke cf (poke cf ?st)) = None =>
          destruct (poke_rp_some cf st _ eq_refl) as [q [Hq _]];
          destruct (poke_rp_some cf _ q Hq) as [q2 [Hq2 _]] end.
        congruence.
      * cbn. rewrite poke_rp_none by (cbn; assumption). intros _; cbn; tauto.
  - rewrite Hp. cbn. rewrite poke_rp_none by (cbn; assumption). intros _; cbn; tauto.
  - destruct (poll (s_waits s)). cbn. rewrite poke_rp_none by (cbn; assumption). intros _; cbn; tauto.
  - destruct (s_rd s) as [r|] eqn:Er; [|cbn; rewrite poke_rp_none by assumption; exact H].
    destruct (negb (rd_tl r)); [cbn; rewrite poke_rp_none by assumption; exact H|].
    destruct (hist_received (rd_wp r)); cbn; rewrite poke_rp_none by (cbn; assumption); intros _; cbn; tauto.
  - destruct (s_rd s) as [r|] eqn:Er; [|cbn; rewrite poke_rp_none by assumption; exact H].
    destruct (poll (rd_hwaits r)). cbn; rewrite poke_rp_none by (cbn; assumption); intros _; cbn; tauto.
Qed.

Lemma run_NInv cf l : forall s, NInv s -> NInv (run cf s l).
Proof.
  unfold run. induction l as [|a t IH]; intros s H; cbn; [assumption|].
  pose proof (step_NInv cf s a H) as Hs. destruct (step cf s a) as [s1 o]. cbn [fst] in Hs.
  specialize (IH s1 Hs). destruct (run_out cf s1 t) as [s2 os]. exact IH.
Qed.

Lemma init_NInv : NInv init.
Proof. intros _. cbn. tauto. Qed.
