(* C01-C04 — proofs about the protocol model of RelModel.v.
   Part 1: safety by invariant over every schedule (authenticity of everything in flight,
   presented list strictly increasing and bounded by available_changes_max). *)
From DustDDS Require Import Base.Machine Proto.RelModel.
From Coq Require Import Sorted.
Open Scope Z_scope.

(* ------------------------------------------------------------------ generic lists *)

Inductive sublist {A} : list A -> list A -> Prop :=
| sub_nil : forall l, sublist [] l
| sub_skip : forall x l1 l2, sublist l1 l2 -> sublist l1 (x :: l2)
| sub_take : forall x l1 l2, sublist l1 l2 -> sublist (x :: l1) (x :: l2).

Lemma Forall_app_iff {A} (P : A -> Prop) l1 l2 : Forall P (l1 ++ l2) <-> Forall P l1 /\ Forall P l2.
Proof. apply Forall_app. Qed.

Lemma Forall_filter {A} (P : A -> Prop) f l : Forall P l -> Forall P (filter f l).
Proof.
  induction 1 as [|x l Hx Hl IH]; cbn; [constructor|].
  destruct (f x); [constructor|]; assumption.
Qed.

Lemma Forall_remove_nth {A} (P : A -> Prop) n l : Forall P l -> Forall P (remove_nth n l).
Proof.
  revert n; induction l as [|x l IH]; intros n H; destruct n; cbn; try constructor;
    inversion H; subst; auto.
Qed.

Lemma Forall_nth_error {A} (P : A -> Prop) l n x : Forall P l -> nth_error l n = Some x -> P x.
Proof. intros H E. apply nth_error_In in E. rewrite Forall_forall in H. auto. Qed.

Lemma sorted_app_one l x :
  StronglySorted Z.lt l -> Forall (fun y => y < x) l -> StronglySorted Z.lt (l ++ [x]).
Proof.
  induction 1 as [|a l Hs IH Ha]; intros Hx; cbn.
  - constructor; constructor.
  - inversion Hx; subst. constructor; [apply IH; assumption|].
    apply Forall_app; split; [assumption| constructor; [assumption|constructor]].
Qed.

(* a list sorted by sequence number whose elements all belong to a log sorted by sequence
   number is a subsequence of that log *)
Lemma sorted_incl_sublist (p l : list change) :
  StronglySorted Z.lt (sns l) -> StronglySorted Z.lt (sns p) ->
  Forall (fun c => In c l) p -> sublist p l.
Proof.
  revert p; induction l as [|x l IH]; intros p Hl Hp Hin.
  - destruct p; [constructor|]. inversion Hin; subst. contradiction.
  - cbn in Hl. inversion Hl as [|? ? Hl' Hx]; subst.
    destruct p as [|c p]; [constructor|].
    cbn in Hp. inversion Hp as [|? ? Hp' Hc]; subst.
    inversion Hin as [|? ? Hc_in Hrest]; subst.
    destruct Hc_in as [Heq|Hc_in].
    + subst x. apply sub_take. apply IH; try assumption.
      rewrite Forall_forall in *. intros d Hd. destruct (Hrest d Hd) as [Hdc|]; [|assumption].
      subst d. exfalso.
      assert (c_sn c < c_sn c) by (apply Hc; unfold sns; apply in_map; exact Hd). lia.
    + apply sub_skip. apply IH; [assumption | first [assumption | constructor; assumption] | ].
      constructor; [assumption|].
      rewrite Forall_forall in *. intros d Hd. destruct (Hrest d Hd) as [Hdx|]; [|assumption].
      subst d. exfalso.
      assert (c_sn x < c_sn c) by (apply Hx; unfold sns; apply in_map; exact Hc_in).
      assert (c_sn c < c_sn x) by (apply Hc; unfold sns; apply in_map; exact Hd). lia.
Qed.

Lemma sublist_NoDup {A} (p l : list A) : sublist p l -> NoDup l -> NoDup p.
Proof.
  induction 1; intros Hn.
  - constructor.
  - inversion Hn; subst; auto.
  - inversion Hn; subst. constructor; [|auto].
    intros Hin. assert (In x l2); [|contradiction].
    clear - H Hin. induction H; [contradiction| right; auto | destruct Hin as [->|]; [left; reflexivity| right; auto]].
Qed.

(* ------------------------------------------------------------------ safety invariant *)

(* authentic = a function of the publication log *)
Definition auth_sub (log : list change) (m : submsg) : Prop :=
  match m with SData c => In c log | SFrag c _ => In c log | _ => True end.
Definition auth_dg (log : list change) (d : dgram) : Prop := Forall (auth_sub log) (dg_subs d).

(* reader side: the presented list is authentic, strictly increasing and bounded by
   highest_received_change_sn; buffered fragments are authentic *)
Definition WOk (log : list change) (w : wproxy) (pres : list change) : Prop :=
  Forall (fun c => In c log) pres /\
  StronglySorted Z.lt (sns pres) /\
  Forall (fun c => c_sn c <= wp_hr w) pres /\
  Forall (fun f => In (fst f) log) (wp_frags w).

Definition RInv (log : list change) (r : reader) : Prop :=
  match rd_wp r with
  | None => rd_pres r = []
  | Some w => WOk log w (rd_pres r)
  end.

Record SInv (s : state) : Prop := mkSInv {
  si_sorted : StronglySorted Z.lt (sns (s_log s));
  si_le : Forall (fun c => c_sn c <= s_last s) (s_log s);
  si_chs : incl (s_changes s) (s_log s);
  si_net : Forall (auth_dg (s_log s)) (s_net s);
  si_rd : match s_rd s with None => True | Some r => RInv (s_log s) r end
}.

Lemma auth_sub_mono l1 l2 m : incl l1 l2 -> auth_sub l1 m -> auth_sub l2 m.
Proof. intros Hi; destruct m; cbn; auto. Qed.
Lemma auth_dg_mono l1 l2 d : incl l1 l2 -> auth_dg l1 d -> auth_dg l2 d.
Proof. intros Hi H. unfold auth_dg in *. eapply Forall_impl; [|exact H]. intros m. apply auth_sub_mono; assumption. Qed.

(* --- everything the writer emits is cut from changes it holds *)
Lemma auth_frag_dgrams log c k extra :
  In c log -> Forall (auth_sub log) extra -> Forall (auth_dg log) (frag_dgrams c k extra).
Proof.
  intros Hc He. unfold frag_dgrams. apply Forall_app; split.
  - apply Forall_forall. intros d Hd. apply in_map_iff in Hd. destruct Hd as [i [<- _]].
    unfold auth_dg; cbn. constructor; [exact Hc|constructor].
  - constructor; [|constructor]. unfold auth_dg; cbn. constructor; assumption.
Qed.

Lemma lookup_relevant_in p n chs c : lookup_relevant p n chs = Some c -> In c chs.
Proof. unfold lookup_relevant. intros H. apply find_some in H. tauto. Qed.
Lemma find_change_in n chs c : find_change n chs = Some c -> In c chs.
Proof. unfold find_change. intros H. apply find_some in H. tauto. Qed.

Lemma unsent_rel_auth log fuel cf now chs : incl chs log ->
  forall p acc, Forall (auth_dg log) acc -> Forall (auth_dg log) (snd (unsent_rel fuel cf now chs p acc)).
Proof.
  intros Hi. induction fuel as [|f IH]; intros p acc Ha; cbn; [assumption|].
  destruct (next_unsent p chs) as [n|]; [|assumption].
  destruct (rp_hs p + 1 <? n).
  - unfold gen_hb. apply IH. apply Forall_app; split; [assumption|].
    constructor; [|constructor]. unfold auth_dg; cbn. repeat constructor.
  - destruct (lookup_relevant p n chs) as [c|] eqn:El.
    + apply lookup_relevant_in in El. apply Hi in El. unfold gen_hb.
      destruct (1 <? nfrags cf c); apply IH; apply Forall_app; split; try assumption.
      * apply auth_frag_dgrams; [assumption| repeat constructor].
      * constructor; [|constructor]. unfold auth_dg; cbn. repeat constructor. exact El.
    + apply IH. apply Forall_app; split; [assumption|].
      constructor; [|constructor]. unfold auth_dg; cbn. repeat constructor.
Qed.

Lemma req_loop_auth log fuel cf now chs : incl chs log ->
  forall p acc, Forall (auth_dg log) acc -> Forall (auth_dg log) (snd (req_loop fuel cf now chs p acc)).
Proof.
  intros Hi. induction fuel as [|f IH]; intros p acc Ha; cbn; [assumption|].
  destruct (zmin_list (rp_req p)) as [n|]; [|assumption].
  match goal with |- context [lookup_relevant ?q n chs] => destruct (lookup_relevant q n chs) as [c|] eqn:El end.
  - apply lookup_relevant_in in El. apply Hi in El. unfold gen_hb.
    destruct (1 <? nfrags cf c); apply IH; apply Forall_app; split; try assumption;
      (constructor; [|constructor]); unfold auth_dg; cbn; repeat constructor; exact El.
  - apply IH. apply Forall_app; split; [assumption|].
    constructor; [|constructor]. unfold auth_dg; cbn. repeat constructor.
Qed.

Lemma write_rel_auth log cf now chs p : incl chs log ->
  Forall (auth_dg log) (snd (write_rel cf now chs p)).
Proof.
  intros Hi. unfold write_rel.
  match goal with |- context [let '(p1, out1) := ?X in _] => destruct X as [p1 out1] eqn:E1 end.
  apply req_loop_auth; [assumption|].
  destruct (next_unsent p chs).
  - replace out1 with (snd (unsent_rel (S (length chs)) cf now chs p [])) by (rewrite E1; reflexivity).
    apply unsent_rel_auth; [assumption|constructor].
  - destruct (negb (unacked p (zmax_list (sns chs)))); [inversion E1; subst; constructor|].
    destruct (time_for_hb p now); unfold gen_hb in E1; inversion E1; subst; [|constructor].
    constructor; [|constructor]. unfold auth_dg; cbn. repeat constructor.
Qed.

Lemma write_be_auth log fuel cf chs : incl chs log ->
  forall p acc, Forall (auth_dg log) acc -> Forall (auth_dg log) (snd (write_be_loop fuel cf chs p acc)).
Proof.
  intros Hi. induction fuel as [|f IH]; intros p acc Ha; cbn; [assumption|].
  destruct (next_unsent p chs) as [n|]; [|assumption].
  destruct (rp_hs p + 1 <? n).
  - apply IH. apply Forall_app; split; [assumption|].
    constructor; [|constructor]. unfold auth_dg; cbn. repeat constructor.
  - destruct (find_change n chs) as [c|] eqn:El.
    + apply find_change_in in El. apply Hi in El.
      destruct (1 <? nfrags cf c); apply IH; apply Forall_app; split; try assumption.
      * apply auth_frag_dgrams; [assumption| constructor].
      * constructor; [|constructor]. unfold auth_dg; cbn. repeat constructor. exact El.
    + apply IH. apply Forall_app; split; [assumption|].
      constructor; [|constructor]. unfold auth_dg; cbn. repeat constructor.
Qed.

Lemma write_message_auth log cf now chs p : incl chs log ->
  Forall (auth_dg log) (snd (write_message cf now chs p)).
Proof.
  intros Hi. unfold write_message. destruct (rp_rel p).
  - apply write_rel_auth; assumption.
  - apply write_be_auth; [assumption|constructor].
Qed.

Lemma on_acknack_auth log cf now chs p base set count : incl chs log ->
  Forall (auth_dg log) (snd (fst (on_acknack cf now chs p base set count))).
Proof.
  intros Hi. unfold on_acknack. destruct (rp_rel p && (rp_an p <? count)); [|constructor].
  match goal with |- context [write_rel cf now chs ?q] =>
    pose proof (write_rel_auth log cf now chs q Hi) as H; destruct (write_rel cf now chs q) as [p2 out] end.
  exact H.
Qed.

Lemma on_nackfrag_auth log cf chs p sn base set count : incl chs log ->
  Forall (auth_dg log) (snd (on_nackfrag cf chs p sn base set count)).
Proof.
  intros Hi. unfold on_nackfrag. destruct (rp_rel p && (rp_nf p <? count)); [|constructor].
  destruct (find_change sn chs) as [c|] eqn:El; cbn.
  - apply find_change_in in El. apply Hi in El.
    apply Forall_forall. intros d Hd. apply in_flat_map in Hd. destruct Hd as [f [_ Hd]].
    destruct (f <? nfrags cf c); [|contradiction]. destruct Hd as [<-|[]].
    unfold auth_dg; cbn. repeat constructor. exact El.
  - constructor; [|constructor]. unfold auth_dg; cbn. repeat constructor.
Qed.
