(* C01-C04 — proofs about the protocol model of RelModel.v.
   Part 1: safety by invariant over every schedule (authenticity of everything in flight,
   presented list strictly increasing and bounded by available_changes_max). *)
From DustDDS Require Import Base.Machine Proto.RelModel.
From Coq Require Import Sorted.
Open Scope Z_scope.

(* ------------------------------------------------------------------ generic lists *)

Lemma Forall_app_iff {A} (P : A -> Prop) l1 l2 : Forall P (l1 ++ l2) <-> Forall P l1 /\ Forall P l2.
Proof. apply Forall_app. Qed.

Lemma Forall_filter {A} (P : A -> Prop) f l : Forall P l -> Forall P (filter f l).
Proof.
  induction 1 as [|x l Hx Hl IH]; cbn; [constructor|].
  destruct (f x); [constructor|]; assumption.
Qed.

Lemma Forall_remove_nth {A} (P : A -> Prop) n l : Forall P l -> Forall P (remove_nth n l).
Proof.
  revert n; induction l as [|x l IH]; intros n H; destruct n; cbn; try constructor;
    inversion H; subst; auto.
Qed.

Lemma Forall_nth_error {A} (P : A -> Prop) l n x : Forall P l -> nth_error l n = Some x -> P x.
Proof. intros H E. apply nth_error_In in E. rewrite Forall_forall in H. auto. Qed.

Lemma sorted_app_one l x :
  StronglySorted Z.lt l -> Forall (fun y => y < x) l -> StronglySorted Z.lt (l ++ [x]).
Proof.
  induction 1 as [|a l Hs IH Ha]; intros Hx; cbn.
  - constructor; constructor.
  - inversion Hx; subst. constructor; [apply IH; assumption|].
    apply Forall_app; split; [assumption| constructor; [assumption|constructor]].
Qed.

(* a list sorted by sequence number whose elements all belong to a log sorted by sequence
   number is a subsequence of that log *)
Lemma sorted_incl_sublist (p l : list change) :
  StronglySorted Z.lt (sns l) -> StronglySorted Z.lt (sns p) ->
  Forall (fun c => In c l) p -> sublist p l.
Proof.
  revert p; induction l as [|x l IH]; intros p Hl Hp Hin.
  - destruct p; [constructor|]. inversion Hin; subst. contradiction.
  - cbn in Hl. inversion Hl as [|? ? Hl' Hx]; subst.
    destruct p as [|c p]; [constructor|].
    cbn in Hp. inversion Hp as [|? ? Hp' Hc]; subst.
    inversion Hin as [|? ? Hc_in Hrest]; subst.
    destruct Hc_in as [Heq|Hc_in].
    + subst x. apply sub_take. apply IH; try assumption.
      rewrite Forall_forall in *. intros d Hd. destruct (Hrest d Hd) as [Hdc|]; [|assumption].
      subst d. exfalso.
      assert (c_sn c < c_sn c) by (apply Hc; unfold sns; apply in_map; exact Hd). lia.
    + apply sub_skip. apply IH; [assumption | first [assumption | constructor; assumption] | ].
      constructor; [assumption|].
      rewrite Forall_forall in *. intros d Hd. destruct (Hrest d Hd) as [Hdx|]; [|assumption].
      subst d. exfalso.
      assert (c_sn x < c_sn c) by (apply Hx; unfold sns; apply in_map; exact Hc_in).
      assert (c_sn c < c_sn x) by (apply Hc; unfold sns; apply in_map; exact Hd). lia.
Qed.

Lemma sublist_NoDup {A} (p l : list A) : sublist p l -> NoDup l -> NoDup p.
Proof.
  induction 1; intros Hn.
  - constructor.
  - inversion Hn; subst; auto.
  - inversion Hn; subst. constructor; [|auto].
    intros Hin. assert (In x l2); [|contradiction].
    clear - H Hin. induction H; [contradiction| right; auto | destruct Hin as [->|]; [left; reflexivity| right; auto]].
Qed.

(* ------------------------------------------------------------------ data-carrying invariants *)

(* Generic part: a predicate P on changes (and Q on the sequence number named by a NACK_FRAG) that
   holds for every change the writer may transmit holds for everything in flight, buffered and
   presented.  Instances: P = "belongs to the publication log" (authenticity, safety) and
   P = "sequence number above the match boundary" (VOLATILE readers). *)
Section DataInv.
Variable P : change -> Prop.
Variable Q : Z -> Prop.
Hypothesis PQ : forall c, P c -> Q (c_sn c).

Definition data_sub (m : submsg) : Prop :=
  match m with SData c => P c | SFrag c _ => P c | SNack sn _ _ _ => Q sn | _ => True end.
Definition data_dg (d : dgram) : Prop := Forall data_sub (dg_subs d).

(* reader side: the presented list satisfies P, is strictly increasing and bounded by
   highest_received_change_sn; buffered fragments satisfy P *)
Definition WOk (w : wproxy) (pres : list change) : Prop :=
  Forall P pres /\
  StronglySorted Z.lt (sns pres) /\
  Forall (fun c => c_sn c <= wp_hr w) pres /\
  Forall (fun f => P (fst f)) (wp_frags w).

Definition RInv (r : reader) : Prop :=
  match rd_wp r with
  | None => rd_pres r = []
  | Some w => WOk w (rd_pres r)
  end.

(* --- everything the writer emits is cut from changes it holds (and relevant ones on the reliable path) *)
Lemma data_frag_dgrams c k extra :
  P c -> Forall data_sub extra -> Forall data_dg (frag_dgrams c k extra).
Proof.
  intros Hc He. unfold frag_dgrams. apply Forall_app; split.
  - apply Forall_forall. intros d Hd. apply in_map_iff in Hd. destruct Hd as [i [<- _]].
    unfold data_dg; cbn. constructor; [exact Hc|constructor].
  - constructor; [|constructor]. unfold data_dg; cbn. constructor; assumption.
Qed.

Lemma lookup_relevant_in p n chs c : lookup_relevant p n chs = Some c -> In c chs /\ c_sn c = n /\ rp_fr p < n.
Proof.
  unfold lookup_relevant. intros H. apply find_some in H. destruct H as [H1 H2].
  apply andb_prop in H2. destruct H2 as [H2 H3]. apply Z.eqb_eq in H2. apply Z.ltb_lt in H3. tauto.
Qed.
Lemma find_change_in n chs c : find_change n chs = Some c -> In c chs /\ c_sn c = n.
Proof. unfold find_change. intros H. apply find_some in H. destruct H as [H1 H2]. apply Z.eqb_eq in H2. tauto. Qed.

Lemma unsent_rel_data fr fuel cf now chs : (forall c, In c chs -> fr < c_sn c -> P c) ->
  forall p acc, rp_fr p = fr -> Forall data_dg acc -> Forall data_dg (snd (unsent_rel fuel cf now chs p acc)).
Proof.
  intros Hi. induction fuel as [|f IH]; intros p acc Hfr Ha; cbn; [assumption|].
  destruct (next_unsent p chs) as [n|]; [|assumption].
  destruct (rp_hs p + 1 <? n).
  - unfold gen_hb. apply IH; [exact Hfr|]. apply Forall_app; split; [assumption|].
    constructor; [|constructor]. unfold data_dg; cbn. repeat constructor.
  - destruct (lookup_relevant p n chs) as [c|] eqn:El.
    + apply lookup_relevant_in in El. destruct El as (Hin & Hsn & Hlt).
      assert (Pc : P c) by (apply Hi; [assumption|lia]). unfold gen_hb.
      destruct (1 <? nfrags cf c); apply IH; try exact Hfr; apply Forall_app; split; try assumption.
      * apply data_frag_dgrams; [assumption| repeat constructor].
      * constructor; [|constructor]. unfold data_dg; cbn. repeat constructor. exact Pc.
    + apply IH; [exact Hfr|]. apply Forall_app; split; [assumption|].
      constructor; [|constructor]. unfold data_dg; cbn. repeat constructor.
Qed.

Lemma req_loop_data fr fuel cf now chs : (forall c, In c chs -> fr < c_sn c -> P c) ->
  forall p acc, rp_fr p = fr -> Forall data_dg acc -> Forall data_dg (snd (req_loop fuel cf now chs p acc)).
Proof.
  intros Hi. induction fuel as [|f IH]; intros p acc Hfr Ha; cbn; [assumption|].
  destruct (zmin_list (rp_req p)) as [n|]; [|assumption].
  match goal with |- context [lookup_relevant ?q n chs] => destruct (lookup_relevant q n chs) as [c|] eqn:El end.
  - apply lookup_relevant_in in El. destruct El as (Hin & Hsn & Hlt). cbn in Hlt.
    assert (Pc : P c) by (apply Hi; [assumption|lia]). unfold gen_hb.
    destruct (1 <? nfrags cf c); apply IH; try exact Hfr; apply Forall_app; split; try assumption;
      (constructor; [|constructor]); unfold data_dg; cbn; repeat constructor; exact Pc.
  - apply IH; [exact Hfr|]. apply Forall_app; split; [assumption|].
    constructor; [|constructor]. unfold data_dg; cbn. repeat constructor.
Qed.

Lemma unsent_rel_fr fuel cf now chs : forall p acc, rp_fr (fst (unsent_rel fuel cf now chs p acc)) = rp_fr p.
Proof.
  induction fuel as [|f IH]; intros p acc; cbn; [reflexivity|].
  destruct (next_unsent p chs) as [n|]; [|reflexivity].
  destruct (rp_hs p + 1 <? n); [unfold gen_hb; rewrite IH; reflexivity|].
  destruct (lookup_relevant p n chs) as [c|]; [|rewrite IH; reflexivity].
  unfold gen_hb. destruct (1 <? nfrags cf c); rewrite IH; reflexivity.
Qed.

Lemma write_rel_data cf now chs p : (forall c, In c chs -> rp_fr p < c_sn c -> P c) ->
  Forall data_dg (snd (write_rel cf now chs p)).
Proof.
  intros Hi. unfold write_rel.
  match goal with |- context [let '(p1, out1) := ?X in _] => destruct X as [p1 out1] eqn:E1 end.
  assert (Hp1 : rp_fr p1 = rp_fr p /\ Forall data_dg out1).
  { destruct (next_unsent p chs).
    - replace p1 with (fst (unsent_rel (S (2 * length chs)) cf now chs p [])) by (rewrite E1; reflexivity).
      replace out1 with (snd (unsent_rel (S (2 * length chs)) cf now chs p [])) by (rewrite E1; reflexivity).
      split; [apply unsent_rel_fr|]. apply unsent_rel_data with (fr := rp_fr p); [assumption|reflexivity|constructor].
    - destruct (negb (unacked p (zmax_list (sns chs)))); [inversion E1; subst; split; [reflexivity|constructor]|].
      destruct (time_for_hb p now); unfold gen_hb in E1; inversion E1; subst; (split; [reflexivity|]); [|constructor].
      constructor; [|constructor]. unfold data_dg; cbn. repeat constructor. }
  destruct Hp1 as [Hfr Ho]. apply req_loop_data with (fr := rp_fr p); assumption.
Qed.

Lemma write_be_data fr fuel cf chs : (forall c, In c chs -> fr < c_sn c -> P c) ->
  forall p acc, rp_fr p = fr -> Forall data_dg acc -> Forall data_dg (snd (write_be_loop fuel cf chs p acc)).
Proof.
  intros Hi. induction fuel as [|f IH]; intros p acc Hfr Ha; cbn; [assumption|].
  destruct (next_unsent p chs) as [n|]; [|assumption].
  destruct (rp_hs p + 1 <? n).
  - apply IH; [exact Hfr|]. apply Forall_app; split; [assumption|].
    constructor; [|constructor]. unfold data_dg; cbn. repeat constructor.
  - destruct (lookup_relevant p n chs) as [c|] eqn:El.
    + apply lookup_relevant_in in El. destruct El as (Hin & Hsn & Hlt).
      assert (Pc : P c) by (apply Hi; [assumption|lia]).
      destruct (1 <? nfrags cf c); apply IH; try exact Hfr; apply Forall_app; split; try assumption.
      * apply data_frag_dgrams; [assumption| constructor].
      * constructor; [|constructor]. unfold data_dg; cbn. repeat constructor. exact Pc.
    + apply IH; [exact Hfr|]. apply Forall_app; split; [assumption|].
      constructor; [|constructor]. unfold data_dg; cbn. repeat constructor.
Qed.

Lemma on_acknack_data cf now chs p base set count : (forall c, In c chs -> rp_fr p < c_sn c -> P c) ->
  Forall data_dg (snd (fst (on_acknack cf now chs p base set count))).
Proof.
  intros Hi. unfold on_acknack. destruct (rp_rel p && (rp_an p <? count)); [|constructor].
  match goal with |- context [write_rel cf now chs ?q] =>
    pose proof (write_rel_data cf now chs q Hi) as H; destruct (write_rel cf now chs q) as [p2 out] end.
  exact H.
Qed.

Lemma on_nackfrag_data cf chs p sn base set count : (forall c, In c chs -> Q (c_sn c) -> P c) -> Q sn ->
  Forall data_dg (snd (on_nackfrag cf chs p sn base set count)).
Proof.
  intros Hi Hq. unfold on_nackfrag. destruct (rp_rel p && (rp_nf p <? count)); [|constructor].
  destruct (find_change sn chs) as [c|] eqn:El; cbn [snd].
  - apply find_change_in in El. destruct El as [El Hsn]. assert (Pc : P c) by (apply Hi; [assumption|rewrite Hsn; assumption]).
    apply Forall_forall. intros d Hd. apply in_flat_map in Hd. destruct Hd as [f [_ Hd]].
    destruct ((1 <=? f) && (f <=? nfrags cf c)); [|contradiction]. destruct Hd as [<-|[]].
    unfold data_dg; cbn. repeat constructor. exact Pc.
  - constructor; [|constructor]. unfold data_dg; cbn. repeat constructor.
Qed.

(* --- reader side *)
Definition opt_list {A} (o : option A) : list A := match o with Some x => [x] | None => [] end.

Lemma sns_app a b : sns (a ++ b) = sns a ++ sns b.
Proof. unfold sns. apply map_app. Qed.

Lemma WOk_accept w pres c w1 :
  P c -> WOk w pres -> wp_hr w < c_sn c ->
  wp_hr w1 = c_sn c -> (forall f, In f (wp_frags w1) -> In f (wp_frags w)) ->
  WOk w1 (pres ++ [c]).
Proof.
  intros Hc (Hin & Hs & Hb & Hf) Hlt Hhr Hfr. repeat split.
  - apply Forall_app; split; [assumption|constructor; [assumption|constructor]].
  - rewrite sns_app. cbn. apply sorted_app_one; [assumption|].
    unfold sns. apply Forall_forall. intros y Hy. apply in_map_iff in Hy. destruct Hy as [d [<- Hd]].
    rewrite Forall_forall in Hb. specialize (Hb d Hd). lia.
  - apply Forall_app; split; [|constructor; [lia|constructor]].
    eapply Forall_impl; [|exact Hb]. cbn. intros; lia.
  - rewrite Forall_forall in *. intros f Hf'. apply Hf. apply Hfr. assumption.
Qed.

Lemma WOk_keep w pres w1 :
  WOk w pres -> wp_hr w <= wp_hr w1 -> (forall f, In f (wp_frags w1) -> In f (wp_frags w)) ->
  WOk w1 pres.
Proof.
  intros (Hin & Hs & Hb & Hf) Hhr Hfr. repeat split; try assumption.
  - eapply Forall_impl; [|exact Hb]. cbn. intros; lia.
  - rewrite Forall_forall in *. intros f Hf'. apply Hf. apply Hfr. assumption.
Qed.

Lemma avail_max_ge_hr w : wp_hr w <= avail_max w.
Proof. unfold avail_max. lia. Qed.

Lemma on_data_WOk rel w c pres w1 oc :
  P c -> WOk w pres -> on_data rel w c = (w1, oc) -> WOk w1 (pres ++ opt_list oc).
Proof.
  intros Hc Hw E. pose proof (avail_max_ge_hr w) as Hav. unfold on_data in E. destruct rel.
  - destruct (Z.eqb_spec (c_sn c) (avail_max w + 1)) as [Heq|]; inversion E; subst; cbn [opt_list].
    + apply WOk_accept with (w := w); try assumption; [lia| |].
      * unfold received_set; cbn. destruct (Z.ltb_spec (wp_hr w) (c_sn c)); lia.
      * unfold received_set; cbn. intros f Hf. apply filter_In in Hf. tauto.
    + rewrite app_nil_r. assumption.
  - destruct (Z.leb_spec (avail_max w + 1) (c_sn c)) as [Hle|]; inversion E; subst; cbn [opt_list].
    + apply WOk_accept with (w := w); try assumption; [lia| |].
      * destruct (avail_max w + 1 <? c_sn c); unfold set_fa, received_set; cbn;
          destruct (Z.ltb_spec (wp_hr w) (c_sn c)); lia.
      * destruct (avail_max w + 1 <? c_sn c); unfold set_fa, received_set; cbn;
          intros f Hf; apply filter_In in Hf; tauto.
    + rewrite app_nil_r. assumption.
Qed.

Lemma push_frag_frags w f g : In g (wp_frags (push_frag w f)) -> g = f \/ In g (wp_frags w).
Proof.
  unfold push_frag. destruct (existsb (frag_eqb f) (wp_frags w)); [tauto|].
  unfold set_frags; cbn. intros H. apply in_app_or in H. destruct H as [H|[H|[]]]; auto.
Qed.
Lemma push_frag_hr w f : wp_hr (push_frag w f) = wp_hr w.
Proof. unfold push_frag. destruct (existsb _ _); reflexivity. Qed.
Lemma push_frag_avail w f : avail_max (push_frag w f) = avail_max w.
Proof. unfold push_frag. destruct (existsb _ _); reflexivity. Qed.

Lemma reconstruct_spec cf w sn d w2 :
  reconstruct cf w sn = Some (d, w2) ->
  In d (map fst (wp_frags w)) /\ c_sn d = sn /\ wp_hr w2 = wp_hr w /\ avail_max w2 = avail_max w /\
  (forall f, In f (wp_frags w2) -> In f (wp_frags w)).
Proof.
  unfold reconstruct. destruct (find _ (wp_frags w)) as [f0|]; [|discriminate].
  destruct (_ =? _); [|discriminate].
  destruct (find (fun f => (frag_sn f =? sn) && (snd f =? 1)) (wp_frags w)) as [f1|] eqn:E1; [|discriminate].
  intros H; inversion H; subst. apply find_some in E1. destruct E1 as [E1 E2].
  apply andb_prop in E2. destruct E2 as [E2 _]. apply Z.eqb_eq in E2.
  repeat split.
  - apply in_map. assumption.
  - exact E2.
  - unfold set_frags; cbn. intros f Hf. apply filter_In in Hf. tauto.
Qed.

Lemma on_frag_WOk cf rel w c k pres w1 oc :
  P c -> WOk w pres -> on_frag cf rel w c k = (w1, oc) -> WOk w1 (pres ++ opt_list oc).
Proof.
  intros Hc Hw E. unfold on_frag in E.
  set (wa := if (if rel then c_sn c =? avail_max w + 1 else avail_max w + 1 <=? c_sn c)
             then push_frag w (c, k) else w) in *.
  assert (Hwa : WOk wa pres).
  { subst wa. destruct (if rel then _ else _); [|assumption].
    destruct Hw as (Hin & Hs & Hb & Hf). repeat split; try assumption.
    - rewrite push_frag_hr. assumption.
    - apply Forall_forall. intros g Hg. apply push_frag_frags in Hg. destruct Hg as [->|Hg]; [exact Hc|].
      rewrite Forall_forall in Hf. auto. }
  destruct (reconstruct cf wa (c_sn c)) as [[d w2]|] eqn:Er.
  - apply reconstruct_spec in Er. destruct Er as (Hd & _ & Hhr & _ & Hfr).
    eapply on_data_WOk; [| |exact E].
    + destruct Hwa as (_ & _ & _ & Hf). apply in_map_iff in Hd. destruct Hd as [g [<- Hg]].
      rewrite Forall_forall in Hf. auto.
    + eapply WOk_keep; [exact Hwa|lia|exact Hfr].
  - inversion E; subst. cbn [opt_list]. rewrite app_nil_r. assumption.
Qed.

Lemma on_gap_WOk w a b pres : WOk w pres -> WOk (on_gap w a b) pres.
Proof.
  intros Hw. unfold on_gap. destruct ((a <? b) && (a <=? avail_max w + 1) && (wp_hr w <? b - 1)) eqn:E; [|assumption].
  apply andb_prop in E. destruct E as [_ E]. apply Z.ltb_lt in E.
  eapply WOk_keep; [exact Hw| cbn; lia | cbn; auto].
Qed.

Lemma acknack_of_spec cf w : Forall (fun f => P (fst f)) (wp_frags w) ->
  wp_hr (fst (acknack_of cf w)) = wp_hr w /\
  wp_frags (fst (acknack_of cf w)) = wp_frags w /\
  Forall data_sub (snd (acknack_of cf w)).
Proof.
  intros Hf. unfold acknack_of. cbn [wp_frags wp_hr wp_fa wp_la wp_an wp_nf].
  match goal with |- context [find ?g (firstn 256 ?m)] => destruct (find g (firstn 256 m)) as [s|] eqn:Es end.
  2:{ cbn. repeat split. repeat constructor. }
  destruct (find (fun f => frag_sn f =? s) (wp_frags w)) as [f0|] eqn:Ef0.
  2:{ cbn. repeat split. repeat constructor. }
  cbn [fst snd wp_hr wp_frags]. repeat split. constructor; [exact I|]. constructor; [|constructor]. cbn [data_sub].
  apply find_some in Ef0. destruct Ef0 as [Hin Heq]. apply Z.eqb_eq in Heq. unfold frag_sn in Heq. rewrite <- Heq.
  apply PQ. rewrite Forall_forall in Hf. apply Hf. assumption.
Qed.

Lemma on_hb_WOk cf w f l c pres w1 out :
  WOk w pres -> on_hb cf w f l c = (w1, out) -> WOk w1 pres /\ Forall data_dg out.
Proof.
  intros Hw E. unfold on_hb in E. destruct (wp_hb w <? c).
  - match type of E with context [acknack_of cf ?q] =>
      assert (Hq : Forall (fun f => P (fst f)) (wp_frags q)) by (cbn; apply Hw);
      pose proof (acknack_of_spec cf q Hq) as (Hhr & Hfr & Ha); destruct (acknack_of cf q) as [w2 subs] end.
    inversion E; subst. cbn in Hhr, Hfr, Ha. split.
    + eapply WOk_keep; [exact Hw| rewrite Hhr; lia | rewrite Hfr; auto].
    + constructor; [|constructor]. unfold data_dg; cbn. exact Ha.
  - inversion E; subst. split; [assumption|constructor].
Qed.

Lemma rd_present_proj r w oc :
  rd_wp (rd_present r w oc) = Some w /\ rd_pres (rd_present r w oc) = rd_pres r ++ opt_list oc.
Proof. destruct oc; cbn; split; try reflexivity. rewrite app_nil_r. reflexivity. Qed.

Lemma deliver_sub_R_RInv cf r m r1 out :
  data_sub m -> RInv r -> deliver_sub_R cf r m = (r1, out) ->
  RInv r1 /\ Forall data_dg out.
Proof.
  intros Ha Hr E. unfold deliver_sub_R in E. unfold RInv in Hr.
  destruct (rd_wp r) as [w|] eqn:Ew.
  2:{ inversion E; subst. split; [unfold RInv; rewrite Ew; assumption|constructor]. }
  destruct m as [c|c k|a b|f l c| |]; cbn in Ha.
  - destruct (on_data (rd_rel r) w c) as [w1 oc] eqn:Ed. inversion E; subst. split; [|constructor].
    unfold RInv. destruct (rd_present_proj r w1 oc) as [-> ->]. eapply on_data_WOk; eassumption.
  - destruct (on_frag cf (rd_rel r) w c k) as [w1 oc] eqn:Ed. inversion E; subst. split; [|constructor].
    unfold RInv. destruct (rd_present_proj r w1 oc) as [-> ->]. eapply on_frag_WOk; eassumption.
  - inversion E; subst. split; [|constructor].
    unfold RInv, rd_present; cbn. apply on_gap_WOk. assumption.
  - destruct (f <=? 0); [inversion E; subst; split; [unfold RInv; rewrite Ew; assumption|constructor]|].
    destruct (on_hb cf w f l c) as [w1 o] eqn:Eh.
    destruct (on_hb_WOk cf w f l c (rd_pres r) w1 o Hr Eh) as [Hw Ho].
    destruct (hist_received (rd_wp (rd_present r w1 None))); inversion E; subst; (split; [|assumption]);
      unfold RInv, rd_present; cbn; assumption.
  - inversion E; subst. split; [unfold RInv; rewrite Ew; assumption|constructor].
  - inversion E; subst. split; [unfold RInv; rewrite Ew; assumption|constructor].
Qed.

Lemma deliver_subs_R_RInv cf l : forall r acc r1 out,
  Forall data_sub l -> RInv r -> Forall data_dg acc ->
  deliver_subs_R cf r l acc = (r1, out) -> RInv r1 /\ Forall data_dg out.
Proof.
  induction l as [|m t IH]; intros r acc r1 out Hl Hr Ha E; cbn in E.
  - inversion E; subst. split; assumption.
  - inversion Hl; subst. destruct (deliver_sub_R cf r m) as [r' o] eqn:Em.
    destruct (deliver_sub_R_RInv cf r m r' o H1 Hr Em) as [Hr' Ho].
    eapply IH; [exact H2|exact Hr'| |exact E]. apply Forall_app; split; assumption.
Qed.

End DataInv.

(* ------------------------------------------------------------------ safety invariant *)
(* authentic = cut from a change of the publication log *)
Definition auth_sub (log : list change) : submsg -> Prop := data_sub (fun c => In c log) (fun _ => True).
Definition auth_dg (log : list change) : dgram -> Prop := data_dg (fun c => In c log) (fun _ => True).
Definition ARInv (log : list change) : reader -> Prop := RInv (fun c => In c log).

Record SInv (s : state) : Prop := mkSInv {
  si_sorted : StronglySorted Z.lt (sns (s_log s));
  si_le : Forall (fun c => c_sn c <= s_last s) (s_log s);
  si_chs : incl (s_changes s) (s_log s);
  si_net : Forall (auth_dg (s_log s)) (s_net s);
  si_rd : match s_rd s with None => True | Some r => ARInv (s_log s) r end
}.

Lemma auth_dg_mono l1 l2 d : incl l1 l2 -> auth_dg l1 d -> auth_dg l2 d.
Proof.
  intros Hi H. unfold auth_dg, data_dg in *. eapply Forall_impl; [|exact H].
  intros m. destruct m; cbn; auto.
Qed.

Lemma write_message_auth log cf now chs p : incl chs log ->
  Forall (auth_dg log) (snd (write_message cf now chs p)).
Proof.
  intros Hi. unfold write_message. destruct (rp_rel p).
  - apply write_rel_data. intros c Hc _. apply Hi. assumption.
  - apply write_be_data with (fr := rp_fr p); [|reflexivity|constructor]. intros c Hc _. apply Hi. assumption.
Qed.
Lemma on_acknack_auth log cf now chs p base set count : incl chs log ->
  Forall (auth_dg log) (snd (fst (on_acknack cf now chs p base set count))).
Proof. intros Hi. apply on_acknack_data. intros c Hc _. apply Hi. assumption. Qed.
Lemma on_nackfrag_auth log cf chs p sn base set count : incl chs log ->
  Forall (auth_dg log) (snd (on_nackfrag cf chs p sn base set count)).
Proof. intros Hi. apply on_nackfrag_data; [|exact I]. intros c Hc _. apply Hi. assumption. Qed.

(* --- state level *)
Lemma SInv_send s out : SInv s -> Forall (auth_dg (s_log s)) out -> SInv (send s out).
Proof.
  intros [H1 H2 H3 H4 H5] Ho. constructor; cbn; try assumption.
  apply Forall_app; split; [assumption|]. apply Forall_filter. assumption.
Qed.

Lemma SInv_set_rp s p : SInv s -> SInv (set_rp s p).
Proof. intros [H1 H2 H3 H4 H5]. constructor; cbn; assumption. Qed.
Lemma SInv_set_waits s w : SInv s -> SInv (set_waits s w).
Proof. intros [H1 H2 H3 H4 H5]. constructor; cbn; assumption. Qed.
Lemma SInv_set_net s n : SInv s -> Forall (auth_dg (s_log s)) n -> SInv (set_net s n).
Proof. intros [H1 H2 H3 H4 H5] Hn. constructor; cbn; assumption. Qed.
Lemma SInv_set_rd s r : SInv s -> ARInv (s_log s) r -> SInv (set_rd s (Some r)).
Proof. intros [H1 H2 H3 H4 H5] Hr. constructor; cbn; assumption. Qed.

Lemma poke_SInv cf s : SInv s -> SInv (poke cf s).
Proof.
  intros H. unfold poke. destruct (s_rp s) as [p|]; [|assumption].
  pose proof (write_message_auth (s_log s) cf (s_now s) (s_changes s) p (si_chs s H)) as Ha.
  destruct (write_message cf (s_now s) (s_changes s) p) as [p1 out]. cbn in Ha.
  apply SInv_send; [apply SInv_set_rp; assumption|assumption].
Qed.

Lemma deliver_sub_W_SInv cf s m : SInv s -> SInv (deliver_sub_W cf s m).
Proof.
  intros H. unfold deliver_sub_W. destruct (s_rp s) as [p|]; [|assumption].
  destruct m; try assumption.
  - pose proof (on_acknack_auth (s_log s) cf (s_now s) (s_changes s) p base set count (si_chs s H)) as Ha.
    destruct (on_acknack cf (s_now s) (s_changes s) p base set count) as [[p1 out] some]. cbn in Ha.
    assert (SInv (send (set_rp s (Some p1)) out)) by (apply SInv_send; [apply SInv_set_rp; assumption|assumption]).
    destruct (some && is_acked (Some p1) (s_last s)); [apply SInv_set_waits|]; assumption.
  - pose proof (on_nackfrag_auth (s_log s) cf (s_changes s) p sn base set count (si_chs s H)) as Ha.
    destruct (on_nackfrag cf (s_changes s) p sn base set count) as [p1 out]. cbn in Ha.
    apply SInv_send; [apply SInv_set_rp; assumption|assumption].
Qed.

Lemma fold_deliver_sub_W_SInv cf l : forall s, SInv s -> SInv (fold_left (deliver_sub_W cf) l s).
Proof. induction l; intros s H; cbn; [assumption|]. apply IHl. apply deliver_sub_W_SInv. assumption. Qed.

Lemma deliver_dgram_SInv cf s d : SInv s -> auth_dg (s_log s) d -> SInv (deliver_dgram cf s d).
Proof.
  intros H Hd. unfold deliver_dgram. destruct (dg_toR d).
  - destruct (s_rdead s); [assumption|]. destruct (s_rd s) as [r|] eqn:Er; [|assumption].
    destruct (rd_alive r); [|assumption].
    destruct (deliver_subs_R cf r (dg_subs d) []) as [r1 out] eqn:E.
    pose proof (si_rd s H) as Hr. rewrite Er in Hr.
    destruct (deliver_subs_R_RInv (fun c => In c (s_log s)) (fun _ => True) (fun _ _ => I) cf (dg_subs d) r [] r1 out Hd Hr (Forall_nil _) E) as [Hr1 Ho].
    apply SInv_send; [apply SInv_set_rd; assumption|assumption].
  - apply fold_deliver_sub_W_SInv. assumption.
Qed.

Lemma SInv_take_net s i d :
  SInv s -> nth_error (s_net s) i = Some d ->
  SInv (set_net s (remove_nth i (s_net s))) /\ auth_dg (s_log s) d.
Proof.
  intros H E. split.
  - apply SInv_set_net; [assumption|]. apply Forall_remove_nth. apply (si_net s H).
  - eapply Forall_nth_error; [apply (si_net s H)|exact E].
Qed.

Lemma pump_SInv cf fuel : forall s n, SInv s -> SInv (fst (pump fuel cf s n)).
Proof.
  induction fuel as [|f IH]; intros s n H; cbn; [assumption|].
  destruct (s_net s) as [|d t] eqn:En; [assumption|].
  apply IH. apply poke_SInv.
  assert (Hd : auth_dg (s_log s) d /\ Forall (auth_dg (s_log s)) t).
  { pose proof (si_net s H) as Hn. rewrite En in Hn. inversion Hn; subst. split; assumption. }
  apply deliver_dgram_SInv; [apply SInv_set_net; tauto|cbn; tauto].
Qed.

Lemma init_SInv : SInv init.
Proof. constructor; cbn; try constructor. intros x []. Qed.

Lemma do_write_SInv cf s key len sum : SInv s -> SInv (fst (do_write cf s key len sum)).
Proof.
  intros H. unfold do_write.
  match goal with |- context [if ?b then (s, 10) else _] => destruct b end; [assumption|].
  match goal with |- context [let '(chs1, inst1) := ?X in _] => destruct X as [chs1 inst1] eqn:E end.
  assert (Hc : incl chs1 (s_log s)).
  { pose proof (si_chs s H) as Hi.
    match type of E with (match ?o with _ => _ end) = _ => destruct o end; inversion E; subst; [|assumption].
    intros x Hx. apply filter_In in Hx. apply Hi. tauto. }
  destruct H as [H1 H2 H3 H4 H5]. cbn [fst]. constructor; cbn.
  - rewrite sns_app. cbn. apply sorted_app_one; [assumption|].
    unfold sns. apply Forall_forall. intros y Hy. apply in_map_iff in Hy. destruct Hy as [d [<- Hd]].
    rewrite Forall_forall in H2. specialize (H2 d Hd). lia.
  - apply Forall_app; split; [|constructor; [cbn; lia|constructor]].
    eapply Forall_impl; [|exact H2]. cbn. intros; lia.
  - intros x Hx. apply in_app_or in Hx. apply in_or_app. destruct Hx as [Hx|Hx]; [left; auto|right; assumption].
  - eapply Forall_impl; [|exact H4]. intros d. apply auth_dg_mono. apply incl_appl. apply incl_refl.
  - destruct (s_rd s) as [r|]; [|exact I]. unfold ARInv, RInv in *. destruct (rd_wp r); [|assumption].
    destruct H5 as (A & B & C & D). repeat split; try assumption.
    + eapply Forall_impl; [|exact A]. cbn. intros; apply in_or_app; auto.
    + eapply Forall_impl; [|exact D]. cbn. intros; apply in_or_app; auto.
Qed.

Lemma act_SInv cf s a : SInv s -> SInv (fst (act cf s a)).
Proof.
  intros H. destruct a; cbn [act].
  - pose proof (do_write_SInv cf s key len sum H) as Hw.
    destruct (do_write cf s key len sum) as [s1 code]. exact Hw.
  - destruct H as [H1 H2 H3 H4 H5]. constructor; cbn; try assumption.
    intros x Hx. apply filter_In in Hx. apply H3. tauto.
  - destruct H as [H1 H2 H3 H4 H5]. constructor; cbn; assumption.
  - destruct (nth_error (s_net s) i) as [d|] eqn:E; [|assumption]. cbn [fst].
    destruct (SInv_take_net s i d H E) as [Hs Hd]. apply deliver_dgram_SInv; assumption.
  - destruct (nth_error (s_net s) i) as [d|] eqn:E; [|assumption]. cbn [fst].
    destruct (SInv_take_net s i d H E) as [Hs Hd]. assumption.
  - destruct (nth_error (s_net s) i) as [d|] eqn:E; [|assumption]. cbn [fst].
    destruct (SInv_take_net s i d H E) as [Hs Hd].
    assert (Hlog : forall s', s_log (poke cf s') = s_log s').
    { intros s'. unfold poke. destruct (s_rp s'); [|reflexivity]. destruct (write_message _ _ _ _). reflexivity. }
    assert (Hlog2 : forall s' d', s_log (deliver_dgram cf s' d') = s_log s').
    { intros s' d'. unfold deliver_dgram. destruct (dg_toR d').
      - destruct (s_rdead s'); [reflexivity|]. destruct (s_rd s') as [r'|]; [|reflexivity].
        destruct (rd_alive r'); [|reflexivity].
        destruct (deliver_subs_R _ _ _ _). reflexivity.
      - generalize s'. induction (dg_subs d') as [|m t IH]; intros s0; cbn; [reflexivity|].
        rewrite IH. unfold deliver_sub_W. destruct (s_rp s0); [|reflexivity].
        destruct m; try reflexivity.
        + destruct (on_acknack _ _ _ _ _ _ _) as [[p1 o] sm]. destruct (sm && _); reflexivity.
        + destruct (on_nackfrag _ _ _ _ _ _ _). reflexivity. }
    apply deliver_dgram_SInv.
    + apply poke_SInv. apply deliver_dgram_SInv; assumption.
    + rewrite Hlog, Hlog2. cbn. assumption.
  - pose proof (pump_SInv cf pump_fuel s 0 H) as Hp.
    destruct (pump pump_fuel cf s 0) as [s1 n]. exact Hp.
  - destruct (s_rd s) as [r|] eqn:Er; [|assumption]. destruct (rd_alive r); [|assumption]. cbn [fst].
    pose proof (si_rd s H) as Hr. rewrite Er in Hr.
    destruct H as [H1 H2 H3 H4 H5]. constructor; cbn; try assumption.
  - destruct (s_rd s) as [r|] eqn:Er; [assumption|].
    destruct (s_rdead s || _); [assumption|].
    destruct (rxo_ok cf rel tl); cbn [fst].
    + apply poke_SInv. destruct H as [H1 H2 H3 H4 H5]. constructor; cbn; try assumption.
      unfold ARInv, RInv, WOk; cbn. repeat split; constructor.
    + destruct H as [H1 H2 H3 H4 H5]. constructor; cbn; try assumption. reflexivity.
  - pose proof (si_rd s H) as Hr. destruct H as [H1 H2 H3 H4 H5]. constructor; cbn; try assumption.
    destruct (s_rd s) as [r|]; cbn; [exact Hr|exact I].
  - pose proof (si_rd s H) as Hr. destruct H as [H1 H2 H3 H4 H5]. constructor; cbn; try assumption.
    destruct (s_rd s) as [r|]; cbn; [exact Hr|exact I].
  - destruct (is_acked (s_rp s) (s_last s)); cbn [fst]; apply SInv_set_waits; assumption.
  - destruct (poll (s_waits s)). cbn [fst]. apply SInv_set_waits; assumption.
  - destruct (s_rd s) as [r|] eqn:Er; [|assumption].
    pose proof (si_rd s H) as Hr. rewrite Er in Hr.
    destruct (negb (rd_alive r)); [assumption|].
    destruct (negb (rd_tl r)); [assumption|].
    destruct (hist_received (rd_wp r)); cbn [fst]; apply SInv_set_rd; assumption.
  - destruct (s_rd s) as [r|] eqn:Er; [|assumption].
    pose proof (si_rd s H) as Hr. rewrite Er in Hr.
    destruct (poll (rd_hwaits r)). cbn [fst]. apply SInv_set_rd; assumption.
  - assumption.
  - assumption.
Qed.

Lemma step_SInv cf s a : SInv s -> SInv (fst (step cf s a)).
Proof.
  intros H. unfold step. pose proof (act_SInv cf s a H) as Ha.
  destruct (act cf s a) as [s1 o]. cbn [fst] in *. apply poke_SInv. assumption.
Qed.

Lemma run_out_fst cf l : forall s, fst (run_out cf s l) = fold_left (fun st a => fst (step cf st a)) l s.
Proof.
  induction l as [|a t IH]; intros s; cbn; [reflexivity|].
  destruct (step cf s a) as [s1 o] eqn:E. destruct (run_out cf s1 t) as [s2 os] eqn:E2. cbn.
  rewrite <- IH. rewrite E2. reflexivity.
Qed.

Lemma run_SInv cf l : forall s, SInv s -> SInv (run cf s l).
Proof.
  unfold run. induction l as [|a t IH]; intros s H; cbn; [assumption|].
  pose proof (step_SInv cf s a H) as Hs. destruct (step cf s a) as [s1 o]. cbn [fst] in Hs.
  specialize (IH s1 Hs). destruct (run_out cf s1 t) as [s2 os]. exact IH.
Qed.

(* ------------------------------------------------------------------ safety theorems *)

Lemma SInv_presented s : SInv s ->
  Forall (fun c => In c (s_log s)) (presented s) /\ strictly_increasing (presented s).
Proof.
  intros H. unfold presented, strictly_increasing. pose proof (si_rd s H) as Hr.
  destruct (s_rd s) as [r|]; [|split; constructor].
  unfold ARInv, RInv in Hr. destruct (rd_wp r).
  - destruct Hr as (A & B & _). split; assumption.
  - rewrite Hr. split; constructor.
Qed.

Lemma sorted_NoDup l : StronglySorted Z.lt l -> NoDup l.
Proof.
  induction 1; constructor; [|assumption].
  intros Hin. rewrite Forall_forall in H0. specialize (H0 a Hin). lia.
Qed.

(* for every configuration (RELIABLE or BEST_EFFORT, any durability/history) and EVERY schedule of
   writes, removals, ticks, deliveries in any order, drops, duplications, matches and deletions: the
   list the reader presented is a subsequence of the publication log (same records, so same payload),
   in publication order, with strictly increasing sequence numbers (hence without duplicates) *)
Theorem safety_all cf l :
  let s := run cf init l in
  sublist (presented s) (s_log s) /\ strictly_increasing (presented s) /\ NoDup (presented s).
Proof.
  intros s. pose proof (run_SInv cf l init init_SInv) as H. fold s in H.
  destruct (SInv_presented s H) as [Hin Hs]. split; [|split].
  - apply sorted_incl_sublist; [apply (si_sorted s H)|exact Hs|exact Hin].
  - exact Hs.
  - unfold strictly_increasing in Hs. apply sorted_NoDup in Hs.
    unfold sns in Hs. eapply NoDup_map_inv. exact Hs.
Qed.

(* duplicates of a fragment are recognised and not buffered twice *)
Lemma change_eqb_refl c : change_eqb c c = true.
Proof. unfold change_eqb. rewrite !Z.eqb_refl. reflexivity. Qed.
Lemma frag_eqb_refl f : frag_eqb f f = true.
Proof. unfold frag_eqb. rewrite !Z.eqb_refl. reflexivity. Qed.

Lemma push_frag_idem w f : push_frag (push_frag w f) f = push_frag w f.
Proof.
  unfold push_frag at 2 3. destruct (existsb (frag_eqb f) (wp_frags w)) eqn:E.
  - unfold push_frag. rewrite E. reflexivity.
  - unfold push_frag. cbn. rewrite existsb_app. cbn. rewrite frag_eqb_refl, orb_true_r. reflexivity.
Qed.

(* ------------------------------------------------------------------ frame facts *)
(* reliability kind, durability kind and first relevant sample of a reader proxy never change *)
Definition rp_static (p : rproxy) : bool * bool * Z := (rp_rel p, rp_tl p, rp_fr p).

Lemma unsent_rel_static fuel cf now chs : forall p acc,
  rp_static (fst (unsent_rel fuel cf now chs p acc)) = rp_static p.
Proof.
  induction fuel as [|f IH]; intros p acc; cbn; [reflexivity|].
  destruct (next_unsent p chs) as [n|]; [|reflexivity].
  destruct (rp_hs p + 1 <? n); [unfold gen_hb; rewrite IH; reflexivity|].
  destruct (lookup_relevant p n chs) as [c|]; [|rewrite IH; reflexivity].
  unfold gen_hb. destruct (1 <? nfrags cf c); rewrite IH; reflexivity.
Qed.
Lemma req_loop_static fuel cf now chs : forall p acc,
  rp_static (fst (req_loop fuel cf now chs p acc)) = rp_static p.
Proof.
  induction fuel as [|f IH]; intros p acc; cbn; [reflexivity|].
  destruct (zmin_list (rp_req p)) as [n|]; [|reflexivity].
  match goal with |- context [lookup_relevant ?q n chs] => destruct (lookup_relevant q n chs) as [c|] end.
  - unfold gen_hb. destruct (1 <? nfrags cf c); rewrite IH; reflexivity.
  - rewrite IH. reflexivity.
Qed.
Lemma write_rel_static cf now chs p : rp_static (fst (write_rel cf now chs p)) = rp_static p.
Proof.
  unfold write_rel.
  match goal with |- context [let '(p1, out1) := ?X in _] => destruct X as [p1 out1] eqn:E1 end.
  rewrite req_loop_static.
  destruct (next_unsent p chs).
  - replace p1 with (fst (unsent_rel (S (2 * length chs)) cf now chs p [])) by (rewrite E1; reflexivity).
    apply unsent_rel_static.
  - destruct (negb _); [inversion E1; reflexivity|].
    destruct (time_for_hb p now); unfold gen_hb in E1; inversion E1; reflexivity.
Qed.
Lemma write_be_static fuel cf chs : forall p acc,
  rp_static (fst (write_be_loop fuel cf chs p acc)) = rp_static p.
Proof.
  induction fuel as [|f IH]; intros p acc; cbn; [reflexivity|].
  destruct (next_unsent p chs) as [n|]; [|reflexivity].
  destruct (rp_hs p + 1 <? n); [rewrite IH; reflexivity|].
  destruct (lookup_relevant p n chs) as [c|]; [|rewrite IH; reflexivity].
  destruct (1 <? nfrags cf c); rewrite IH; reflexivity.
Qed.
Lemma write_message_static cf now chs p : rp_static (fst (write_message cf now chs p)) = rp_static p.
Proof. unfold write_message. destruct (rp_rel p); [apply write_rel_static|apply write_be_static]. Qed.
Lemma on_acknack_static cf now chs p base set count :
  rp_static (fst (fst (on_acknack cf now chs p base set count))) = rp_static p.
Proof.
  unfold on_acknack. destruct (rp_rel p && _); [|reflexivity].
  match goal with |- context [write_rel cf now chs ?q] =>
    pose proof (write_rel_static cf now chs q) as H; destruct (write_rel cf now chs q) as [p2 out] end.
  exact H.
Qed.
Lemma on_nackfrag_static cf chs p sn base set count :
  rp_static (fst (on_nackfrag cf chs p sn base set count)) = rp_static p.
Proof.
  unfold on_nackfrag. destruct (rp_rel p && _); [|reflexivity].
  destruct (find_change sn chs); reflexivity.
Qed.

Lemma static_fr p q : rp_static p = rp_static q -> rp_fr p = rp_fr q /\ rp_rel p = rp_rel q /\ rp_tl p = rp_tl q.
Proof. unfold rp_static. intros H. inversion H. auto. Qed.

Lemma zmax_list_none l : zmax_list l = None -> l = [].
Proof. destruct l as [|x t]; [reflexivity|]. cbn. destruct (zmax_list t); discriminate. Qed.
Lemma zmin_list_none l : zmin_list l = None -> l = [].
Proof. destruct l as [|x t]; [reflexivity|]. cbn. destruct (zmin_list t); discriminate. Qed.

Lemma zmax_list_ge l m x : zmax_list l = Some m -> In x l -> x <= m.
Proof.
  revert m; induction l as [|y t IH]; intros m E Hin; [contradiction|].
  cbn in E. destruct (zmax_list t) as [m'|] eqn:Et.
  - inversion E; subst. destruct Hin as [->|Hin]; [lia|]. specialize (IH m' eq_refl Hin). lia.
  - inversion E; subst. apply zmax_list_none in Et. subst t. destruct Hin as [->|[]]. lia.
Qed.

Lemma in_le_last_sn c chs : In c chs -> c_sn c <= last_sn chs.
Proof.
  intros H. unfold last_sn. destruct (zmax_list (sns chs)) as [m|] eqn:E.
  - eapply zmax_list_ge; [exact E|]. unfold sns. apply in_map. exact H.
  - apply zmax_list_none in E. unfold sns in E. destruct chs; [contradiction|discriminate].
Qed.

(* ------------------------------------------------------------------ before the match nothing is in flight *)
Definition NInv (s : state) : Prop := s_rd s = None -> s_net s = [] /\ s_rp s = None.

Lemma poke_rp_none cf s : s_rp s = None -> poke cf s = s.
Proof. intros H. unfold poke. rewrite H. reflexivity. Qed.

Lemma poke_rp_some cf s p : s_rp s = Some p -> exists q, s_rp (poke cf s) = Some q /\ rp_static q = rp_static p.
Proof.
  intros H. unfold poke. rewrite H.
  pose proof (write_message_static cf (s_now s) (s_changes s) p) as Hs.
  destruct (write_message cf (s_now s) (s_changes s) p) as [p1 out]. exists p1. split; [reflexivity|exact Hs].
Qed.

Lemma poke_rd cf s : s_rd (poke cf s) = s_rd s.
Proof. unfold poke. destruct (s_rp s); [|reflexivity]. destruct (write_message _ _ _ _). reflexivity. Qed.

Lemma deliver_sub_W_rd cf s m : s_rd (deliver_sub_W cf s m) = s_rd s.
Proof.
  unfold deliver_sub_W. destruct (s_rp s); [|reflexivity]. destruct m; try reflexivity.
  - destruct (on_acknack _ _ _ _ _ _ _) as [[p1 o] sm]. destruct (sm && _); reflexivity.
  - destruct (on_nackfrag _ _ _ _ _ _ _). reflexivity.
Qed.

Lemma fold_W_rd cf l : forall s, s_rd (fold_left (deliver_sub_W cf) l s) = s_rd s.
Proof.
  induction l as [|m t IH]; intros s; cbn [fold_left]; [reflexivity|].
  rewrite IH. apply deliver_sub_W_rd.
Qed.

(* deliveries never create or forget the reader *)
Lemma deliver_dgram_rd cf s d :
  match s_rd s with
  | Some _ => exists r', s_rd (deliver_dgram cf s d) = Some r'
  | None => s_rd (deliver_dgram cf s d) = None
  end.
Proof.
  unfold deliver_dgram. destruct (dg_toR d).
  - destruct (s_rdead s); [destruct (s_rd s); eauto|]. destruct (s_rd s) as [r|] eqn:Er; [|assumption].
    destruct (rd_alive r); [|rewrite Er; eauto]. destruct (deliver_subs_R _ _ _ _). cbn. eauto.
  - rewrite fold_W_rd. destruct (s_rd s); eauto.
Qed.

Lemma pump_rd cf fuel : forall s n,
  match s_rd s with
  | Some _ => exists r', s_rd (fst (pump fuel cf s n)) = Some r'
  | None => s_rd (fst (pump fuel cf s n)) = None
  end.
Proof.
  induction fuel as [|f IHf]; intros s n; cbn [pump].
  { cbn [fst]. destruct (s_rd s); eauto. }
  destruct (s_net s) as [|d t].
  { cbn [fst]. destruct (s_rd s); eauto. }
  pose proof (IHf (poke cf (deliver_dgram cf (set_net s t) d)) (n + 1)) as IH. rewrite poke_rd in IH.
  pose proof (deliver_dgram_rd cf (set_net s t) d) as Hd. cbn [s_rd set_net] in Hd.
  destruct (s_rd s); [destruct Hd as [r' Hr']; rewrite Hr' in IH; exact IH|rewrite Hd in IH; exact IH].
Qed.

Lemma deliver_dgram_rp cf s d : forall p, s_rp s = Some p ->
  exists q, s_rp (deliver_dgram cf s d) = Some q /\ rp_static q = rp_static p.
Proof.
  intros p Hp. unfold deliver_dgram. destruct (dg_toR d).
  - destruct (s_rdead s); [eauto|]. destruct (s_rd s) as [r|]; [|eauto]. destruct (rd_alive r); [|eauto].
    destruct (deliver_subs_R _ _ _ _). cbn. eauto.
  - revert s p Hp. induction (dg_subs d) as [|m t IH]; intros s p Hp; cbn; [eauto|].
    assert (H : exists q, s_rp (deliver_sub_W cf s m) = Some q /\ rp_static q = rp_static p).
    { unfold deliver_sub_W. rewrite Hp. destruct m; eauto.
      - pose proof (on_acknack_static cf (s_now s) (s_changes s) p base set count) as Hs.
        destruct (on_acknack _ _ _ _ _ _ _) as [[p1 o] sm]. cbn in Hs.
        destruct (sm && _); cbn; eauto.
      - pose proof (on_nackfrag_static cf (s_changes s) p sn base set count) as Hs.
        destruct (on_nackfrag _ _ _ _ _ _ _) as [p1 o]. cbn in Hs. cbn. eauto. }
    destruct H as [q [Hq Hqs]]. destruct (IH _ _ Hq) as [q' [Hq' Hqs']]. exists q'. split; [assumption|congruence].
Qed.

Lemma deliver_dgram_rp_none cf s d : s_rp s = None -> s_rp (deliver_dgram cf s d) = None.
Proof.
  intros Hp. unfold deliver_dgram. destruct (dg_toR d).
  - destruct (s_rdead s); [assumption|]. destruct (s_rd s) as [r|]; [|assumption]. destruct (rd_alive r); [|assumption].
    destruct (deliver_subs_R _ _ _ _). cbn. assumption.
  - revert s Hp. induction (dg_subs d) as [|m t IH]; intros s Hp; cbn [fold_left]; [assumption|].
    apply IH. unfold deliver_sub_W. rewrite Hp. assumption.
Qed.

Lemma pump_rp cf fuel : forall s n p, s_rp s = Some p ->
  exists q, s_rp (fst (pump fuel cf s n)) = Some q /\ rp_static q = rp_static p.
Proof.
  induction fuel as [|f IH]; intros s n p Hp; cbn; [eauto|].
  destruct (s_net s) as [|d t]; [eauto|].
  destruct (deliver_dgram_rp cf (set_net s t) d p Hp) as [q [Hq Hs]].
  destruct (poke_rp_some cf _ q Hq) as [q2 [Hq2 Hs2]].
  destruct (IH _ (n + 1) q2 Hq2) as [q3 [Hq3 Hs3]]. exists q3. split; [assumption|congruence].
Qed.

Lemma do_write_frame cf s key len sum :
  let s1 := fst (do_write cf s key len sum) in
  s_rp s1 = s_rp s /\ s_rd s1 = s_rd s /\ s_net s1 = s_net s /\ s_now s1 = s_now s /\
  s_dcps s1 = s_dcps s /\ s_waits s1 = s_waits s /\ s_rdead s1 = s_rdead s.
Proof.
  unfold do_write.
  match goal with |- context [if ?b then (s, 10) else _] => destruct b end; [cbn; tauto|].
  match goal with |- context [let '(chs1, inst1) := ?X in _] => destruct X as [chs1 inst1] end. cbn. tauto.
Qed.

Lemma pump_nil cf fuel s n : s_net s = [] -> pump fuel cf s n = (s, n).
Proof. intros H. destruct fuel; cbn; [reflexivity|]. rewrite H. reflexivity. Qed.

(* once a reader exists (alive or deleted) there is one for ever: no second match *)
Lemma step_rd_some cf s a r : s_rd s = Some r -> exists r', s_rd (fst (step cf s a)) = Some r'.
Proof.
  intros Er. unfold step.
  assert (H : exists r', s_rd (fst (act cf s a)) = Some r').
  { destruct a; cbn [act].
    - pose proof (do_write_frame cf s key len sum) as (_ & Hf & _).
      destruct (do_write cf s key len sum) as [s1 code]. cbn [fst] in *. rewrite Hf. eauto.
    - cbn. eauto.
    - cbn. eauto.
    - destruct (nth_error (s_net s) i); [|eauto]. cbn [fst].
      pose proof (deliver_dgram_rd cf (set_net s (remove_nth i (s_net s))) d) as Hd. cbn [s_rd set_net] in Hd.
      rewrite Er in Hd. exact Hd.
    - destruct (nth_error (s_net s) i); cbn; eauto.
    - destruct (nth_error (s_net s) i); [|eauto]. cbn [fst].
      pose proof (deliver_dgram_rd cf (set_net s (remove_nth i (s_net s))) d) as Hd. cbn [s_rd set_net] in Hd.
      rewrite Er in Hd. destruct Hd as [r1 Hr1].
      pose proof (deliver_dgram_rd cf (poke cf (deliver_dgram cf (set_net s (remove_nth i (s_net s))) d)) d) as Hd2.
      rewrite poke_rd, Hr1 in Hd2. exact Hd2.
    - pose proof (pump_rd cf pump_fuel s 0) as Hp. rewrite Er in Hp. destruct (pump pump_fuel cf s 0). exact Hp.
    - rewrite Er. destruct (rd_alive r); cbn; eauto.
    - rewrite Er. eauto.
    - cbn. rewrite Er. cbn. eauto.
    - cbn. rewrite Er. cbn. eauto.
    - destruct (is_acked _ _); cbn; eauto.
    - destruct (poll (s_waits s)). cbn. eauto.
    - rewrite Er. destruct (negb (rd_alive r)); [eauto|]. destruct (negb (rd_tl r)); [eauto|].
      destruct (hist_received _); cbn; eauto.
    - rewrite Er. destruct (poll (rd_hwaits r)). cbn. eauto.
    - eauto.
    - eauto. }
  destruct H as [r' Hr']. destruct (act cf s a) as [s1 o]. cbn [fst] in *. rewrite poke_rd. eauto.
Qed.

Lemma step_NInv cf s a : NInv s -> NInv (fst (step cf s a)).
Proof.
  intros H. destruct (s_rd s) as [r|] eqn:Er.
  { destruct (step_rd_some cf s a r Er) as [r' Hr']. intros Hn. congruence. }
  destruct (H Er) as [Hnet Hrp]. unfold step.
  assert (Triv : forall s1, s_rp s1 = None -> s_net s1 = [] -> NInv (poke cf s1)).
  { intros s1 A B. rewrite poke_rp_none by assumption. intros _. tauto. }
  destruct a; cbn [act].
  - (* AWrite *) pose proof (do_write_frame cf s key len sum) as (Hf1 & Hf2 & Hf3 & _).
    destruct (do_write cf s key len sum) as [s1 code]. cbn [fst] in *.
    apply Triv; congruence.
  - (* ARemove *) cbn [fst]. apply Triv; cbn; assumption.
  - (* ATick *) cbn [fst]. apply Triv; cbn; assumption.
  - (* ADeliver *) rewrite Hnet. destruct i; cbn [nth_error fst]; apply Triv; assumption.
  - (* ADrop *) rewrite Hnet. destruct i; cbn [nth_error fst]; apply Triv; assumption.
  - (* ADup *) rewrite Hnet. destruct i; cbn [nth_error fst]; apply Triv; assumption.
  - (* APump *) rewrite (pump_nil cf pump_fuel s 0 Hnet). cbn [fst]. apply Triv; assumption.
  - (* ATake *) rewrite Er. cbn [fst]. apply Triv; assumption.
  - (* AMatch *) rewrite Er, Hrp. rewrite orb_false_r. destruct (s_rdead s).
    + cbn [fst]. apply Triv; assumption.
    + destruct (rxo_ok cf rel tl); cbn [fst].
      * intros Hn. rewrite !poke_rd in Hn. cbn in Hn. discriminate.
      * intros Hn. rewrite poke_rd in Hn. cbn in Hn. discriminate.
  - (* ADelReader *) cbn [fst]. apply Triv; cbn; try assumption; reflexivity.
  - (* ADelPart *) cbn [fst]. apply Triv; cbn; try assumption; reflexivity.
  - (* AWfa *) destruct (is_acked (s_rp s) (s_last s)); cbn [fst]; apply Triv; cbn; assumption.
  - (* AWfaPoll *) destruct (poll (s_waits s)). cbn [fst]. apply Triv; cbn; assumption.
  - (* AWfh *) rewrite Er. cbn [fst]. apply Triv; assumption.
  - (* AWfhPoll *) rewrite Er. cbn [fst]. apply Triv; assumption.
  - (* AQuery *) cbn [fst]. apply Triv; assumption.
  - (* ANow *) cbn [fst]. apply Triv; assumption.
Qed.

Lemma run_NInv cf l : forall s, NInv s -> NInv (run cf s l).
Proof.
  unfold run. induction l as [|a t IH]; intros s H; cbn; [assumption|].
  pose proof (step_NInv cf s a H) as Hs. destruct (step cf s a) as [s1 o]. cbn [fst] in Hs.
  specialize (IH s1 Hs). destruct (run_out cf s1 t) as [s2 os]. exact IH.
Qed.

Lemma init_NInv : NInv init.
Proof. intros _. cbn. tauto. Qed.

(* ------------------------------------------------------------------ VOLATILE readers *)
(* B = the writer's last sequence number at match time.  For a reader proxy (RELIABLE or BEST_EFFORT)
   whose first relevant sample is <= B (VOLATILE: first relevant = highest held sequence number), nothing
   with a sequence number <= B is ever in flight towards the reader, buffered or presented. *)
Definition above (B : Z) (c : change) : Prop := B < c_sn c.

Record VInv (B : Z) (s : state) : Prop := mkVInv {
  v_rp : match s_rp s with
         | Some p => forall c, In c (s_changes s) -> rp_fr p < c_sn c -> B < c_sn c
         | None => True     (* the reader was deleted: nothing is sent any more *)
         end;
  v_rd_some : s_rd s <> None;
  v_last : B <= s_last s;
  v_net : Forall (data_dg (above B) (Z.lt B)) (s_net s);
  v_rd : match s_rd s with None => True | Some r => RInv (above B) r end
}.

Lemma VInv_send B s out : VInv B s -> Forall (data_dg (above B) (Z.lt B)) out -> VInv B (send s out).
Proof.
  intros [H1 H0 H2 H3 H4] Ho. constructor; cbn; try assumption.
  apply Forall_app; split; [assumption|]. apply Forall_filter. assumption.
Qed.

Lemma VInv_set_rp B s p q : VInv B s -> s_rp s = Some p -> rp_static q = rp_static p -> VInv B (set_rp s (Some q)).
Proof.
  intros [H1 H0 H2 H3 H4] Hp Hs. rewrite Hp in H1. apply static_fr in Hs. destruct Hs as (A & B' & _).
  constructor; cbn; try assumption. rewrite A. exact H1.
Qed.
Lemma VInv_set_waits B s w : VInv B s -> VInv B (set_waits s w).
Proof. intros [H1 H0 H2 H3 H4]. constructor; cbn; assumption. Qed.
Lemma VInv_set_net B s n : VInv B s -> Forall (data_dg (above B) (Z.lt B)) n -> VInv B (set_net s n).
Proof. intros [H1 H0 H2 H3 H4] Hn. constructor; cbn; assumption. Qed.
Lemma VInv_set_rd B s r : VInv B s -> RInv (above B) r -> VInv B (set_rd s (Some r)).
Proof. intros [H1 H0 H2 H3 H4] Hr. constructor; cbn; try assumption. discriminate. Qed.

Lemma poke_VInv B cf s : VInv B s -> VInv B (poke cf s).
Proof.
  intros H. unfold poke. pose proof (v_rp B s H) as Hp. destruct (s_rp s) as [p|] eqn:Ep; [|assumption].
  rename Hp into Hch.
  pose proof (write_message_static cf (s_now s) (s_changes s) p) as Hs.
  assert (Ha : Forall (data_dg (above B) (Z.lt B)) (snd (write_message cf (s_now s) (s_changes s) p))).
  { unfold write_message. destruct (rp_rel p); [apply write_rel_data; exact Hch|].
    apply write_be_data with (fr := rp_fr p); [exact Hch|reflexivity|constructor]. }
  destruct (write_message cf (s_now s) (s_changes s) p) as [p1 out]. cbn in Ha, Hs.
  apply VInv_send; [eapply VInv_set_rp; eassumption|assumption].
Qed.

Lemma deliver_sub_W_VInv B cf s m : VInv B s -> data_sub (above B) (Z.lt B) m -> VInv B (deliver_sub_W cf s m).
Proof.
  intros H Hm. unfold deliver_sub_W. pose proof (v_rp B s H) as Hp.
  destruct (s_rp s) as [p|] eqn:Ep; [|assumption]. rename Hp into Hch.
  destruct m; try assumption.
  - pose proof (on_acknack_data (above B) (Z.lt B) cf (s_now s) (s_changes s) p base set count Hch) as Ha.
    pose proof (on_acknack_static cf (s_now s) (s_changes s) p base set count) as Hs.
    destruct (on_acknack cf (s_now s) (s_changes s) p base set count) as [[p1 out] some]. cbn in Ha, Hs.
    assert (VInv B (send (set_rp s (Some p1)) out)) by (apply VInv_send; [eapply VInv_set_rp; eassumption|assumption]).
    destruct (some && is_acked (Some p1) (s_last s)); [apply VInv_set_waits|]; assumption.
  - cbn in Hm.
    assert (Ha : Forall (data_dg (above B) (Z.lt B)) (snd (on_nackfrag cf (s_changes s) p sn base set count))).
    { apply on_nackfrag_data; [|exact Hm]. intros c _ Hq. exact Hq. }
    pose proof (on_nackfrag_static cf (s_changes s) p sn base set count) as Hs.
    destruct (on_nackfrag cf (s_changes s) p sn base set count) as [p1 out]. cbn in Ha, Hs.
    apply VInv_send; [eapply VInv_set_rp; eassumption|assumption].
Qed.

Lemma fold_deliver_sub_W_VInv B cf l : forall s, VInv B s -> Forall (data_sub (above B) (Z.lt B)) l ->
  VInv B (fold_left (deliver_sub_W cf) l s).
Proof.
  induction l; intros s H Hl; cbn; [assumption|]. inversion Hl; subst.
  apply IHl; [apply deliver_sub_W_VInv; assumption|assumption].
Qed.

Lemma deliver_dgram_VInv B cf s d : VInv B s -> data_dg (above B) (Z.lt B) d -> VInv B (deliver_dgram cf s d).
Proof.
  intros H Hd. unfold deliver_dgram. destruct (dg_toR d).
  - destruct (s_rdead s); [assumption|]. destruct (s_rd s) as [r|] eqn:Er; [|assumption].
    destruct (rd_alive r); [|assumption].
    destruct (deliver_subs_R cf r (dg_subs d) []) as [r1 out] eqn:E.
    pose proof (v_rd B s H) as Hr. rewrite Er in Hr.
    destruct (deliver_subs_R_RInv (above B) (Z.lt B) (fun c Hc => Hc) cf (dg_subs d) r [] r1 out Hd Hr (Forall_nil _) E)
      as [Hr1 Ho].
    apply VInv_send; [apply VInv_set_rd; assumption|assumption].
  - apply fold_deliver_sub_W_VInv; assumption.
Qed.

Lemma VInv_take_net B s i d :
  VInv B s -> nth_error (s_net s) i = Some d ->
  VInv B (set_net s (remove_nth i (s_net s))) /\ data_dg (above B) (Z.lt B) d.
Proof.
  intros H E. split.
  - apply VInv_set_net; [assumption|]. apply Forall_remove_nth. apply (v_net B s H).
  - eapply Forall_nth_error; [apply (v_net B s H)|exact E].
Qed.

Lemma pump_VInv B cf fuel : forall s n, VInv B s -> VInv B (fst (pump fuel cf s n)).
Proof.
  induction fuel as [|f IH]; intros s n H; cbn [pump]; [assumption|].
  destruct (s_net s) as [|d t] eqn:En; [assumption|].
  apply IH. apply poke_VInv.
  assert (Hd : data_dg (above B) (Z.lt B) d /\ Forall (data_dg (above B) (Z.lt B)) t).
  { pose proof (v_net B s H) as Hn. rewrite En in Hn. inversion Hn; subst. split; assumption. }
  apply deliver_dgram_VInv; [apply VInv_set_net; tauto|tauto].
Qed.

Lemma do_write_VInv B cf s key len sum : VInv B s -> VInv B (fst (do_write cf s key len sum)).
Proof.
  intros H. unfold do_write.
  match goal with |- context [if ?b then (s, 10) else _] => destruct b end; [assumption|].
  match goal with |- context [let '(chs1, inst1) := ?X in _] => destruct X as [chs1 inst1] eqn:E end.
  assert (Hc : incl chs1 (s_changes s)).
  { match type of E with (match ?o with _ => _ end) = _ => destruct o end; inversion E; subst; [|apply incl_refl].
    intros x Hx. apply filter_In in Hx. tauto. }
  destruct H as [H1 H0 H2 H3 H4]. cbn [fst]. constructor; cbn; try assumption; [|lia].
  destruct (s_rp s) as [p|]; [|exact I]. rename H1 into Hch.
  intros c Hin Hlt. apply in_app_or in Hin. destruct Hin as [Hin|[<-|[]]]; [apply Hch; auto|cbn; lia].
Qed.

Lemma act_VInv B cf s a : VInv B s -> VInv B (fst (act cf s a)).
Proof.
  intros H. destruct a; cbn [act].
  - (* AWrite *) pose proof (do_write_VInv B cf s key len sum H) as Hw.
    destruct (do_write cf s key len sum) as [s1 code]. exact Hw.
  - (* ARemove *) destruct H as [H1 H0 H2 H3 H4]. constructor; cbn; try assumption.
    destruct (s_rp s) as [p|]; [|exact I]. rename H1 into Hch.
    intros c Hin. apply filter_In in Hin. apply Hch. tauto.
  - (* ATick *) destruct H as [H1 H0 H2 H3 H4]. constructor; cbn; assumption.
  - (* ADeliver *) destruct (nth_error (s_net s) i) as [d|] eqn:E; [|assumption]. cbn [fst].
    destruct (VInv_take_net B s i d H E) as [Hs Hd]. apply deliver_dgram_VInv; assumption.
  - (* ADrop *) destruct (nth_error (s_net s) i) as [d|] eqn:E; [|assumption]. cbn [fst].
    destruct (VInv_take_net B s i d H E) as [Hs Hd]. assumption.
  - (* ADup *) destruct (nth_error (s_net s) i) as [d|] eqn:E; [|assumption]. cbn [fst].
    destruct (VInv_take_net B s i d H E) as [Hs Hd].
    apply deliver_dgram_VInv; [|assumption]. apply poke_VInv. apply deliver_dgram_VInv; assumption.
  - (* APump *) pose proof (pump_VInv B cf pump_fuel s 0 H) as Hp.
    destruct (pump pump_fuel cf s 0) as [s1 n]. exact Hp.
  - (* ATake *) destruct (s_rd s) as [r|] eqn:Er; [|assumption]. destruct (rd_alive r); [|assumption]. cbn [fst].
    pose proof (v_rd B s H) as Hr. rewrite Er in Hr.
    destruct H as [H1 H0 H2 H3 H4]. constructor; cbn; try assumption. discriminate.
  - (* AMatch *) destruct (s_rd s) as [r|] eqn:Er; [assumption|].
    exfalso. apply (v_rd_some B s H). assumption.
  - (* ADelReader *) destruct H as [H1 H0 H2 H3 H4]. constructor; cbn; try assumption; try exact I.
    + destruct (s_rd s); [cbn; discriminate|contradiction].
    + destruct (s_rd s) as [r|]; cbn; [exact H4|exact I].
  - (* ADelPart *) destruct H as [H1 H0 H2 H3 H4]. constructor; cbn; try assumption; try exact I.
    + destruct (s_rd s); [cbn; discriminate|contradiction].
    + destruct (s_rd s) as [r|]; cbn; [exact H4|exact I].
  - (* AWfa *) destruct (is_acked (s_rp s) (s_last s)); cbn [fst]; apply VInv_set_waits; assumption.
  - (* AWfaPoll *) destruct (poll (s_waits s)). cbn [fst]. apply VInv_set_waits; assumption.
  - (* AWfh *) destruct (s_rd s) as [r|] eqn:Er; [|assumption].
    pose proof (v_rd B s H) as Hr. rewrite Er in Hr.
    destruct (negb (rd_alive r)); [assumption|].
    destruct (negb (rd_tl r)); [assumption|].
    destruct (hist_received (rd_wp r)); cbn [fst]; apply VInv_set_rd; assumption.
  - (* AWfhPoll *) destruct (s_rd s) as [r|] eqn:Er; [|assumption].
    pose proof (v_rd B s H) as Hr. rewrite Er in Hr.
    destruct (poll (rd_hwaits r)). cbn [fst]. apply VInv_set_rd; assumption.
  - assumption.
  - assumption.
Qed.

Lemma step_VInv B cf s a : VInv B s -> VInv B (fst (step cf s a)).
Proof.
  intros H. unfold step. pose proof (act_VInv B cf s a H) as Ha.
  destruct (act cf s a) as [s1 o]. cbn [fst] in *. apply poke_VInv. assumption.
Qed.

Lemma run_VInv B cf l : forall s, VInv B s -> VInv B (run cf s l).
Proof.
  unfold run. induction l as [|a t IH]; intros s H; cbn; [assumption|].
  pose proof (step_VInv B cf s a H) as Hs. destruct (step cf s a) as [s1 o]. cbn [fst] in Hs.
  specialize (IH s1 Hs). destruct (run_out cf s1 t) as [s2 os]. exact IH.
Qed.

Lemma run_app cf l1 l2 s : run cf s (l1 ++ l2) = run cf (run cf s l1) l2.
Proof.
  unfold run. rewrite !run_out_fst. rewrite fold_left_app. reflexivity.
Qed.

Lemma run_cons cf a l s : run cf s (a :: l) = run cf (fst (step cf s a)) l.
Proof. unfold run. rewrite !run_out_fst. reflexivity. Qed.

(* the state right after an effective match of a VOLATILE reader satisfies VInv with B = s_last *)
Lemma match_VInv cf s rel : NInv s -> s_rd s = None -> s_rp s = None -> s_rdead s = false ->
  rxo_ok cf rel false = true ->
  VInv (s_last s) (fst (step cf s (AMatch rel false))).
Proof.
  intros HN Hrd Hrp Hdead Hrxo. unfold step. cbn [act]. rewrite Hrd, Hrp, Hdead, Hrxo. cbn [orb].
  destruct (HN Hrd) as [Hnet _].
  cbn [fst]. apply poke_VInv. apply poke_VInv.
  constructor; cbn.
  - intros c Hin Hlt. apply in_le_last_sn in Hin. lia.
  - discriminate.
  - lia.
  - rewrite Hnet. constructor.
  - unfold RInv, WOk; cbn. repeat split; constructor.
Qed.

Lemma VInv_presented B s : VInv B s -> Forall (above B) (presented s).
Proof.
  intros H. unfold presented. pose proof (v_rd B s H) as Hr.
  destruct (s_rd s) as [r|]; [|constructor]. unfold RInv in Hr. destruct (rd_wp r).
  - apply Hr.
  - rewrite Hr. constructor.
Qed.

(* A VOLATILE reader, RELIABLE or BEST_EFFORT, never presents a sample that was written before it was
   matched - whatever is lost, duplicated, reordered, removed or deleted afterwards *)
Theorem volatile_no_history cf rel before after :
  let s1 := run cf init before in
  s_rd s1 = None -> s_rp s1 = None -> s_rdead s1 = false -> rxo_ok cf rel false = true ->
  let s := run cf init (before ++ AMatch rel false :: after) in
  forall c, In c (s_log s1) -> ~ In c (presented s).
Proof.
  intros s1 Hrd Hrp Hdead Hrel s c Hc Hin. subst s. rewrite run_app in Hin. fold s1 in Hin. rewrite run_cons in Hin.
  assert (HS : SInv s1) by (apply run_SInv; apply init_SInv).
  assert (HN : NInv s1) by (apply run_NInv; apply init_NInv).
  assert (Hle : c_sn c <= s_last s1).
  { pose proof (si_le s1 HS) as Hl. rewrite Forall_forall in Hl. auto. }
  pose proof (match_VInv cf s1 rel HN Hrd Hrp Hdead Hrel) as HV.
  pose proof (run_VInv (s_last s1) cf after _ HV) as HV2.
  apply VInv_presented in HV2. rewrite Forall_forall in HV2. specialize (HV2 c Hin). unfold above in HV2. lia.
Qed.

(* ------------------------------------------------------------------ the history cache only changes by write/remove *)
Definition core (s : state) := (s_changes s, s_last s, s_inst s, s_log s, s_now s).

Lemma poke_core cf s : core (poke cf s) = core s.
Proof. unfold poke. destruct (s_rp s); [|reflexivity]. destruct (write_message _ _ _ _). reflexivity. Qed.

Lemma deliver_sub_W_core cf s m : core (deliver_sub_W cf s m) = core s.
Proof.
  unfold deliver_sub_W. destruct (s_rp s); [|reflexivity]. destruct m; try reflexivity.
  - destruct (on_acknack _ _ _ _ _ _ _) as [[p1 o] sm]. destruct (sm && _); reflexivity.
  - destruct (on_nackfrag _ _ _ _ _ _ _). reflexivity.
Qed.

Lemma deliver_dgram_core cf s d : core (deliver_dgram cf s d) = core s.
Proof.
  unfold deliver_dgram. destruct (dg_toR d).
  - destruct (s_rdead s); [reflexivity|]. destruct (s_rd s) as [r|]; [|reflexivity].
    destruct (rd_alive r); [|reflexivity].
    destruct (deliver_subs_R _ _ _ _). reflexivity.
  - revert s. induction (dg_subs d) as [|m t IH]; intros s; cbn [fold_left]; [reflexivity|].
    rewrite IH. apply deliver_sub_W_core.
Qed.

Lemma pump_core cf fuel : forall s n, core (fst (pump fuel cf s n)) = core s.
Proof.
  induction fuel as [|f IH]; intros s n; cbn [pump]; [reflexivity|].
  destruct (s_net s) as [|d t]; [reflexivity|].
  rewrite IH, poke_core, deliver_dgram_core. reflexivity.
Qed.

Lemma core_proj s1 s2 : core s1 = core s2 ->
  s_changes s1 = s_changes s2 /\ s_last s1 = s_last s2 /\ s_inst s1 = s_inst s2 /\ s_log s1 = s_log s2 /\
  s_now s1 = s_now s2.
Proof. unfold core. intros H. inversion H. tauto. Qed.

Lemma do_write_spec cf s key len sum :
  let s1 := fst (do_write cf s key len sum) in
  (s1 = s /\ snd (do_write cf s key len sum) = 10) \/
  (exists chs1, incl chs1 (s_changes s) /\
     s_changes s1 = chs1 ++ [mkCh (s_last s + 1) key len sum] /\ s_last s1 = s_last s + 1 /\
     s_log s1 = s_log s ++ [mkCh (s_last s + 1) key len sum] /\ snd (do_write cf s key len sum) = 0 /\
     (depth cf = 0 -> chs1 = s_changes s)).
Proof.
  unfold do_write.
  match goal with |- context [if ?b then (s, 10) else _] => destruct b end; [left; cbn; tauto|].
  right.
  match goal with |- context [let '(chs1, inst1) := ?X in _] => destruct X as [chs1 inst1] eqn:E end.
  exists chs1. cbn. repeat split.
  - match type of E with (match ?o with _ => _ end) = _ => destruct o end; inversion E; subst; [|apply incl_refl].
    intros x Hx. apply filter_In in Hx. tauto.
  - intros Hd. rewrite Hd in E. cbn in E. inversion E. reflexivity.
Qed.

Lemma step_last cf s a : s_last s <= s_last (fst (step cf s a)).
Proof.
  unfold step.
  assert (H : s_last s <= s_last (fst (act cf s a))).
  { destruct a; cbn [act].
    - pose proof (do_write_spec cf s key len sum) as Hw. destruct (do_write cf s key len sum) as [s1 code].
      cbn [fst snd] in *. destruct Hw as [[-> _]|[chs1 (_ & _ & -> & _)]]; lia.
    - cbn. lia.
    - cbn. lia.
    - destruct (nth_error (s_net s) i); [|cbn; lia]. cbn [fst].
      destruct (core_proj _ _ (deliver_dgram_core cf (set_net s (remove_nth i (s_net s))) d)) as (_ & -> & _). cbn. lia.
    - destruct (nth_error (s_net s) i); cbn; lia.
    - destruct (nth_error (s_net s) i); [|cbn; lia]. cbn [fst].
      destruct (core_proj _ _ (deliver_dgram_core cf (poke cf (deliver_dgram cf (set_net s (remove_nth i (s_net s))) d)) d)) as (_ & -> & _).
      destruct (core_proj _ _ (poke_core cf (deliver_dgram cf (set_net s (remove_nth i (s_net s))) d))) as (_ & -> & _).
      destruct (core_proj _ _ (deliver_dgram_core cf (set_net s (remove_nth i (s_net s))) d)) as (_ & -> & _). cbn. lia.
    - pose proof (pump_core cf pump_fuel s 0) as Hc. destruct (pump pump_fuel cf s 0) as [s1 n]. cbn [fst] in *.
      destruct (core_proj _ _ Hc) as (_ & -> & _). lia.
    - destruct (s_rd s) as [r|]; [destruct (rd_alive r)|]; cbn; lia.
    - destruct (s_rd s); [cbn; lia|]. destruct (s_rdead s || _); [cbn; lia|].
      destruct (rxo_ok cf rel tl); cbn [fst]; [|cbn; lia].
      match goal with |- _ <= s_last (poke cf ?st) => destruct (core_proj _ _ (poke_core cf st)) as (_ & -> & _) end.
      cbn. lia.
    - cbn. lia.
    - cbn. lia.
    - destruct (is_acked _ _); cbn; lia.
    - destruct (poll (s_waits s)). cbn. lia.
    - destruct (s_rd s) as [r|]; [|cbn; lia]. destruct (negb (rd_alive r)); [cbn; lia|].
      destruct (negb (rd_tl r)); [cbn; lia|]. destruct (hist_received _); cbn; lia.
    - destruct (s_rd s) as [r|]; [|cbn; lia]. destruct (poll (rd_hwaits r)). cbn. lia.
    - cbn. lia.
    - cbn. lia. }
  destruct (act cf s a) as [s1 o]. cbn [fst] in *.
  destruct (core_proj _ _ (poke_core cf s1)) as (_ & -> & _). exact H.
Qed.

Lemma run_last cf l : forall s, s_last s <= s_last (run cf s l).
Proof.
  induction l as [|a t IH]; intros s; [cbn; lia|]. rewrite run_cons.
  pose proof (step_last cf s a). specialize (IH (fst (step cf s a))). lia.
Qed.

Lemma last_sn_le s : SInv s -> 0 <= s_last s -> last_sn (s_changes s) <= s_last s.
Proof.
  intros HS H0. unfold last_sn. destruct (zmax_list (sns (s_changes s))) as [m|] eqn:E; [|assumption].
  assert (Hin : In m (sns (s_changes s))).
  { clear - E. revert m E. induction (sns (s_changes s)) as [|x t IH]; intros m E; [discriminate|].
    cbn in E. destruct (zmax_list t) as [m'|] eqn:Et.
    - inversion E; subst. destruct (Z.max_spec x m') as [[_ ->]|[_ ->]]; [right; auto|left; reflexivity].
    - inversion E; subst. left. reflexivity. }
  unfold sns in Hin. apply in_map_iff in Hin. destruct Hin as [c [<- Hc]].
  apply (si_chs s HS) in Hc. pose proof (si_le s HS) as Hl. rewrite Forall_forall in Hl. auto.
Qed.

(* the log only grows at the end, with strictly larger sequence numbers *)
Ltac log_same := exists []; rewrite app_nil_r; split; [reflexivity|constructor].

Lemma step_log_grow cf s a :
  exists e, s_log (fst (step cf s a)) = s_log s ++ e /\ Forall (fun d => s_last s < c_sn d) e.
Proof.
  unfold step.
  assert (Hact : exists e, s_log (fst (act cf s a)) = s_log s ++ e /\ Forall (fun d => s_last s < c_sn d) e).
  { destruct a; cbn [act].
    - (* AWrite *) pose proof (do_write_spec cf s key len sum) as Hw. destruct (do_write cf s key len sum) as [s1 code].
      cbn [fst snd] in *. destruct Hw as [[-> _]|[chs1 (_ & _ & _ & -> & _)]].
      + log_same.
      + eexists. split; [reflexivity|]. constructor; [cbn; lia|constructor].
    - (* ARemove *) log_same.
    - (* ATick *) log_same.
    - (* ADeliver *) destruct (nth_error (s_net s) i); [|log_same].
      cbn [fst]. destruct (core_proj _ _ (deliver_dgram_core cf (set_net s (remove_nth i (s_net s))) d)) as (_ & _ & _ & -> & _).
      log_same.
    - (* ADrop *) destruct (nth_error (s_net s) i); log_same.
    - (* ADup *) destruct (nth_error (s_net s) i); [|log_same].
      cbn [fst].
      destruct (core_proj _ _ (deliver_dgram_core cf (poke cf (deliver_dgram cf (set_net s (remove_nth i (s_net s))) d)) d)) as (_ & _ & _ & -> & _).
      destruct (core_proj _ _ (poke_core cf (deliver_dgram cf (set_net s (remove_nth i (s_net s))) d))) as (_ & _ & _ & -> & _).
      destruct (core_proj _ _ (deliver_dgram_core cf (set_net s (remove_nth i (s_net s))) d)) as (_ & _ & _ & -> & _).
      log_same.
    - (* APump *) pose proof (pump_core cf pump_fuel s 0) as Hc. destruct (pump pump_fuel cf s 0) as [s1 n]. cbn [fst] in *.
      destruct (core_proj _ _ Hc) as (_ & _ & _ & -> & _). log_same.
    - (* ATake *) destruct (s_rd s) as [r|]; [destruct (rd_alive r)|]; log_same.
    - (* AMatch *) destruct (s_rd s); [log_same|].
      destruct (s_rdead s || _); [log_same|].
      destruct (rxo_ok cf rel tl); cbn [fst]; [|log_same].
      match goal with |- context [poke cf ?st] => destruct (core_proj _ _ (poke_core cf st)) as (_ & _ & _ & -> & _) end.
      log_same.
    - (* ADelReader *) log_same.
    - (* ADelPart *) log_same.
    - (* AWfa *) destruct (is_acked _ _); log_same.
    - (* AWfaPoll *) destruct (poll (s_waits s)). log_same.
    - (* AWfh *) destruct (s_rd s) as [r|]; [|log_same].
      destruct (negb (rd_alive r)); [log_same|].
      destruct (negb (rd_tl r)); [log_same|]. destruct (hist_received _); log_same.
    - (* AWfhPoll *) destruct (s_rd s) as [r|]; [|log_same]. destruct (poll (rd_hwaits r)). log_same.
    - (* AQuery *) log_same.
    - (* ANow *) log_same. }
  destruct Hact as [e [He Hf]]. destruct (act cf s a) as [sa o]. cbn [fst] in *.
  destruct (core_proj _ _ (poke_core cf sa)) as (_ & _ & _ & -> & _). exists e. split; assumption.
Qed.

Lemma run_log_grow cf l : forall s, exists ext, s_log (run cf s l) = s_log s ++ ext /\
  Forall (fun d => s_last s < c_sn d) ext.
Proof.
  induction l as [|a t IH]; intros s.
  - exists []. cbn. rewrite app_nil_r. split; [reflexivity|constructor].
  - rewrite run_cons. destruct (step_log_grow cf s a) as [e [He Hf]].
    destruct (IH (fst (step cf s a))) as [ext [Hext Hfe]].
    exists (e ++ ext). rewrite Hext, He, app_assoc. split; [reflexivity|].
    apply Forall_app; split; [assumption|].
    eapply Forall_impl; [|exact Hfe]. cbn. intros d Hd. pose proof (step_last cf s a). lia.
Qed.

(* The boundary: the first relevant sample of the new proxy is 0 for a TRANSIENT_LOCAL reader and the
   highest held sequence number for a VOLATILE one; every change held at that moment is at or below it,
   every sample written afterwards is above it: a sample is classified by its sequence number only. *)
Theorem match_boundary cf before rel tl :
  let s1 := run cf init before in
  s_rd s1 = None -> s_rp s1 = None -> s_rdead s1 = false -> rxo_ok cf rel tl = true ->
  let s2 := fst (step cf s1 (AMatch rel tl)) in
  exists p, s_rp s2 = Some p /\ rp_rel p = rel /\
    rp_fr p = (if tl then 0 else last_sn (s_changes s1)) /\
    rp_fr p <= s_last s1 /\
    (tl = false -> forall c, In c (s_changes s1) -> c_sn c <= rp_fr p) /\
    (forall c, In c (s_log s1) -> c_sn c <= s_last s1) /\
    (forall after c, In c (s_log (run cf s2 after)) -> ~ In c (s_log s1) -> s_last s1 < c_sn c).
Proof.
  intros s1 Hrd Hrp Hdead Hrxo s2.
  assert (HS : SInv s1) by (apply run_SInv; apply init_SInv).
  assert (H0 : 0 <= s_last s1).
  { pose proof (run_last cf before init) as Hl. change (s_last init) with 0 in Hl. exact Hl. }
  set (p0 := new_rproxy rel tl (s_changes s1)).
  assert (Hs2 : exists q, s_rp s2 = Some q /\ rp_static q = rp_static p0).
  { subst s2. unfold step. cbn [act]. rewrite Hrd, Hrp, Hdead, Hrxo. cbn [orb fst].
    match goal with |- context [poke cf (poke cf ?st)] =>
      destruct (poke_rp_some cf st p0 eq_refl) as [q [Hq Hqs]];
      destruct (poke_rp_some cf _ q Hq) as [q2 [Hq2 Hqs2]] end.
    exists q2. split; [assumption|congruence]. }
  destruct Hs2 as [q [Hq Hqs]]. apply static_fr in Hqs. destruct Hqs as (Hfr & Hrel & _).
  exists q. split; [assumption|]. split; [rewrite Hrel; reflexivity|].
  assert (Hfr' : rp_fr q = (if tl then 0 else last_sn (s_changes s1))) by (rewrite Hfr; reflexivity).
  split; [assumption|]. split; [|split; [|split]].
  - rewrite Hfr'. destruct tl; [assumption|]. apply last_sn_le; assumption.
  - intros -> c Hc. rewrite Hfr'. apply in_le_last_sn. assumption.
  - intros c Hc. pose proof (si_le s1 HS) as Hl. rewrite Forall_forall in Hl. auto.
  - intros after c Hin Hnot.
    assert (HS3 : SInv (run cf s2 after)) by (apply run_SInv; apply step_SInv; assumption).
    pose proof (run_log_grow cf) as Hgrow.
    destruct (Hgrow (AMatch rel tl :: after) s1) as [ext [Hext Hfe]].
    rewrite run_cons in Hext. fold s2 in Hext. rewrite Hext in Hin.
    apply in_app_or in Hin. destruct Hin as [Hin|Hin]; [contradiction|].
    rewrite Forall_forall in Hfe. auto.
Qed.
