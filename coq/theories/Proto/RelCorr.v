(* Correspondence vocabulary shared by C01, C02, C03, C04: one case = one scenario run
   through the simulated real stack (harness bin `proto`), i.e. the list of actions with
   the observation each produced.  Rel_model_ok replays the actions on the model and
   compares every observation; the C0x_oracle_ok functions state the properties on the
   OBSERVATIONS of the implementation only (they never look at the model state). *)
From DustDDS Require Export Base.Machine Proto.RelModel.
Open Scope Z_scope.

Record Rel_case : Type := mkCase { k_cfg : cfg; k_trace : list (action * out) }.

(* ---------------------------------------------------------------- comparison *)
Fixpoint list_eqb {A} (e : A -> A -> bool) (x y : list A) : bool :=
  match x, y with
  | [], [] => true
  | a :: x', b :: y' => e a b && list_eqb e x' y'
  | _, _ => false
  end.

(* what take() shows of a sample *)
Definition obs : Type := (Z * Z * Z)%type.
Definition obs_of (c : change) : obs := (c_key c, c_len c, c_sum c).
Definition obs_eqb (a b : obs) : bool :=
  let '(k1, l1, s1) := a in let '(k2, l2, s2) := b in (k1 =? k2) && (l1 =? l2) && (s1 =? s2).
Definition taken_eqb (a b : change) : bool := obs_eqb (obs_of a) (obs_of b).
(* what the queue listing shows of a change: sequence number and serialized length *)
Definition q_change_eqb (a b : change) : bool := (c_sn a =? c_sn b) && (c_len a =? c_len b).

Definition submsg_eqb (a b : submsg) : bool :=
  match a, b with
  | SData c, SData d => q_change_eqb c d
  | SFrag c i, SFrag d j => q_change_eqb c d && (i =? j)
  | SGap a1 b1, SGap a2 b2 => (a1 =? a2) && (b1 =? b2)
  | SHb f1 l1 c1, SHb f2 l2 c2 => (f1 =? f2) && (l1 =? l2) && (c1 =? c2)
  | SAck b1 s1 c1, SAck b2 s2 c2 => (b1 =? b2) && list_eqb Z.eqb s1 s2 && (c1 =? c2)
  | SNack n1 b1 s1 c1, SNack n2 b2 s2 c2 => (n1 =? n2) && (b1 =? b2) && list_eqb Z.eqb s1 s2 && (c1 =? c2)
  | _, _ => false
  end.
Definition dgram_eqb (a b : dgram) : bool :=
  Bool.eqb (dg_toR a) (dg_toR b) && list_eqb submsg_eqb (dg_subs a) (dg_subs b).

Definition out_eqb (a b : out) : bool :=
  match a, b with
  | ONone, ONone => true
  | OCode x, OCode y => x =? y
  | OTake x, OTake y => list_eqb taken_eqb x y
  | OPoll x, OPoll y => list_eqb Z.eqb x y
  | OQuery x, OQuery y => list_eqb dgram_eqb x y
  | OCount x, OCount y => x =? y
  | _, _ => false
  end.

Definition Rel_model_ok (k : Rel_case) : bool :=
  let '(_, outs) := run_out (k_cfg k) init (map fst (k_trace k)) in
  list_eqb out_eqb outs (map snd (k_trace k)).

(* ------------------------------------------- the properties on the observations *)

(* x is a subsequence of y (greedy matching is complete) *)
Fixpoint subseq_b (x y : list obs) : bool :=
  match x, y with
  | [], _ => true
  | _ :: _, [] => false
  | a :: x', b :: y' => if obs_eqb a b then subseq_b x' y' else subseq_b x y'
  end.

(* Specification-level bookkeeping over the trace (never the model state):
   the publication log, the retained history per the HISTORY QoS (KEEP_ALL, or the last
   `depth` samples per instance), the reader's QoS and the log length at match time, whether
   the reader (or its participant) was deleted, everything take() returned so far. *)
Record ost : Type := mkO {
  o_log : list obs;
  o_held : list (Z * nat);              (* (key, index in o_log) of the retained samples *)
  o_rd : option (bool * bool * nat);    (* (reliable, transient-local, |log| at match time) *)
  o_gone : bool;
  o_taken : list obs;
  o_need : option (list obs);           (* a wait_for_acknowledgments just succeeded: what must be received *)
  o_sound : bool
}.
Definition o_init : ost := mkO [] [] None false [] None true.

Definition count_key (key : Z) (h : list (Z * nat)) : nat := length (filter (fun e => fst e =? key) h).
Fixpoint drop_first_key (key : Z) (h : list (Z * nat)) : list (Z * nat) :=
  match h with
  | [] => []
  | e :: t => if fst e =? key then t else e :: drop_first_key key t
  end.
Definition retain (d : Z) (h : list (Z * nat)) (key : Z) (ix : nat) : list (Z * nat) :=
  (if (0 <? d) && (Z.of_nat (count_key key h) =? d) then drop_first_key key h else h) ++ [(key, ix)].

Definition nth_obs (l : list obs) (i : nat) : obs := nth i l (0, 0, 0).
(* retained samples that are relevant for the reader: all of them for a TRANSIENT_LOCAL reader,
   those written after the match for a VOLATILE one *)
Definition relevant_held (o : ost) : list obs :=
  match o_rd o with
  | Some (_, tl, m) => map (fun e => nth_obs (o_log o) (snd e))
                           (filter (fun e => tl || (m <=? snd e)%nat) (o_held o))
  | None => []
  end.
Definition rel_matched (cf : cfg) (o : ost) : bool :=
  match o_rd o with Some (rel, tl, _) => rel && rxo_ok cf rel tl && negb (o_gone o) | None => false end.

Definition wfa_succeeded (ao : action * out) : bool :=
  match ao with
  | (AWfa, OCode 0) => true
  | (AWfaPoll, OPoll l) => existsb (Z.eqb 0) l
  | _ => false
  end.

Definition ostep (cf : cfg) (o : ost) (ao : action * out) : ost :=
  (* a pending soundness obligation is checked by a take that follows immediately *)
  let o1 :=
    match o_need o, ao with
    | Some need, (ATake, OTake l) =>
      mkO (o_log o) (o_held o) (o_rd o) (o_gone o) (o_taken o) None
          (o_sound o && subseq_b need (o_taken o ++ map obs_of l))
    | Some _, _ => mkO (o_log o) (o_held o) (o_rd o) (o_gone o) (o_taken o) None (o_sound o)
    | None, _ => o
    end in
  let o2 :=
    match ao with
    | (AWrite key len sum, OCode 0) =>
      mkO (o_log o1 ++ [(key, len, sum)]) (retain (depth cf) (o_held o1) key (length (o_log o1)))
          (o_rd o1) (o_gone o1) (o_taken o1) (o_need o1) (o_sound o1)
    | (AMatch rel tl, _) =>
      match o_rd o1 with
      | None => mkO (o_log o1) (o_held o1) (Some (rel, tl, length (o_log o1))) (o_gone o1) (o_taken o1)
                    (o_need o1) (o_sound o1)
      | Some _ => o1
      end
    | (ADelReader, _) | (ADelPart, _) =>
      mkO (o_log o1) (o_held o1) (o_rd o1) true (o_taken o1) (o_need o1) (o_sound o1)
    | (ATake, OTake l) =>
      mkO (o_log o1) (o_held o1) (o_rd o1) (o_gone o1) (o_taken o1 ++ map obs_of l) (o_need o1) (o_sound o1)
    | _ => o1
    end in
  if wfa_succeeded ao && rel_matched cf o2
  then mkO (o_log o2) (o_held o2) (o_rd o2) (o_gone o2) (o_taken o2) (Some (relevant_held o2)) (o_sound o2)
  else o2.

Definition orun (k : Rel_case) : ost := fold_left (ostep (k_cfg k)) (k_trace k) o_init.

(* The scenario ends with enough healing rounds (each: 5 ticks = 250 ms, then loss-free FIFO delivery until
   nothing is queued) followed only by observations: returns those final observations. *)
Definition harmless (a : action) : bool :=
  match a with
  | ATake | AQuery | ANow | AWfa | AWfaPoll | AWfh | AWfhPoll => true
  | _ => false
  end.
Fixpoint count_rounds (l : list (action * out)) : nat :=
  match l with
  | (APump, _) :: (ATick, _) :: (ATick, _) :: (ATick, _) :: (ATick, _) :: (ATick, _) :: t => S (count_rounds t)
  | _ => O
  end.
Fixpoint healed_tail_rev (l : list (action * out)) (acc : list (action * out))
  : option (list (action * out) * nat) :=
  match l with
  | (APump, _) :: (ATick, _) :: (ATick, _) :: (ATick, _) :: (ATick, _) :: (ATick, _) :: _ => Some (acc, count_rounds l)
  | ao :: t => if harmless (fst ao) then healed_tail_rev t (ao :: acc) else None
  | [] => None
  end.
(* rounds granted: two, plus two per fragmented sample (ACKNACK -> fragment 1, NACK_FRAG -> the rest) *)
Definition frag_writes (k : Rel_case) : nat :=
  length (filter (fun ao => match ao with (AWrite _ len _, OCode 0) => fsz (k_cfg k) <? len | _ => false end) (k_trace k)).
Definition healed_tail (k : Rel_case) : option (list (action * out)) :=
  match healed_tail_rev (rev (k_trace k)) [] with
  | Some (tail, n) => if (2 + 2 * frag_writes k <=? n)%nat then Some tail else None
  | None => None
  end.

Definition no_pending (ao : action * out) (is_wfa : bool) : bool :=
  match ao with
  | (AWfa, OCode c) => if is_wfa then c =? 0 else true
  | (AWfaPoll, OPoll l) => if is_wfa then negb (existsb (Z.eqb 1) l) else true
  | (AWfh, OCode c) => if is_wfa then true else c =? 0
  | (AWfhPoll, OPoll l) => if is_wfa then true else negb (existsb (Z.eqb 1) l)
  | _ => true
  end.

(* safety: what the reader presented is an in-order, duplicate-free, identical subsequence of the log *)
Definition safe_ok (k : Rel_case) : bool := let o := orun k in subseq_b (o_taken o) (o_log o).
(* liveness: after healing, every retained relevant sample has been presented *)
Definition live_ok (k : Rel_case) : bool :=
  let o := orun k in
  match healed_tail k with
  | Some _ => if rel_matched (k_cfg k) o then subseq_b (relevant_held o) (o_taken o) else true
  | None => true
  end.

Definition C01_model_ok := Rel_model_ok.
Definition C02_model_ok := Rel_model_ok.
Definition C03_model_ok := Rel_model_ok.
Definition C04_model_ok := Rel_model_ok.

Definition C01_oracle_ok (k : Rel_case) : bool := safe_ok k && live_ok k.
Definition C02_oracle_ok (k : Rel_case) : bool := safe_ok k.
Definition C03_oracle_ok (k : Rel_case) : bool :=
  o_sound (orun k) &&
  match healed_tail k with
  | Some tail => forallb (fun ao => no_pending ao true) tail
  | None => true
  end.
Definition C04_oracle_ok (k : Rel_case) : bool :=
  let o := orun k in
  match o_rd o with
  | Some (rel, tl, m) =>
    if tl then
      (* history: after healing a reliable TRANSIENT_LOCAL reader presented the retained history and
         wait_for_historical_data completes *)
      live_ok k &&
      match healed_tail k with
      | Some tail => if rel_matched (k_cfg k) o then forallb (fun ao => no_pending ao false) tail else true
      | None => true
      end
    else
      (* a VOLATILE reader presents only samples written after it was matched *)
      subseq_b (o_taken o) (skipn m (o_log o))
  | None => true
  end.

(* ----------------------------------------------------------- known-finding classes *)
(* none: the three defects found with these checks (GAP skip, stale waiter, best-effort VOLATILE history) are
   repaired in the code (91937ff, 66b3297, 0faf897) and the model follows the repaired code *)
Definition C01_known (k : Rel_case) : N := 0%N.
Definition C02_known (k : Rel_case) : N := 0%N.
Definition C03_known (k : Rel_case) : N := 0%N.
Definition C04_known (k : Rel_case) : N := 0%N.
