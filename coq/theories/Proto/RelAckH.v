(* C03 — completion of wait_for_acknowledgments for histories with holes: phase 2 of RelAck.v (once the reader
   has the last sample, a heartbeat period and any loss-free delivery that drains the network leave the writer
   with highest_acked >= last) over the class KLive of RelHealG.v. *)
From DustDDS Require Import Base.Machine Proto.RelModel Proto.RelProofs Proto.RelSound Proto.RelSoundG Proto.RelLive
  Proto.RelAck Proto.RelLiveG Proto.RelHealG Proto.RelLiveH.
Open Scope Z_scope.

Lemma A_pokeK cf s : KLive true cf s -> AInv2 s -> AInv2 (poke cf s).
Proof.
  intros [HC HL] HG q r w Eq Hrelq Er Ew.
  pose proof HC as (HGS & HN & [HK Hp]). destruct HL as (L1 & L2 & L3 & L4 & L5).
  rewrite poke_rd in Er. unfold poke in *.
  destruct (s_rp s) as [p|] eqn:Ep; [|congruence].
  destruct Hp as [Hhs Hfr].
  pose proof (write_message_static cf (s_now s) (s_changes s) p) as Hst.
  unfold write_message in *. destruct (rp_rel p) eqn:Erel.
  2:{ destruct (write_be_loop _ _ _ _ _) as [p1 out]. cbn [fst] in Hst. cbn in Eq. injection Eq as <-.
      apply static_fr in Hst. destruct Hst as (_ & Hr & _). congruence. }
  destruct (L5 p r w eq_refl Erel Er Ew) as [K1 K2 K3 K4 K6 K7 K8].
  pose proof (write_rel_liveK cf (s_now s) (s_changes s) (s_last s) HK L2 p Hhs K2) as H. lazy zeta in H.
  pose proof (write_rel_an cf (s_now s) (s_changes s) p) as Han.
  pose proof (write_rel_ha cf (s_now s) (s_changes s) p) as Hha.
  destruct (write_rel cf (s_now s) (s_changes s) p) as [p1 out]. cbn [fst snd] in *. cbn in Eq. injection Eq as <-.
  destruct H as (W1 & W2 & W3 & W4 & _).
  specialize (HG p r w Ep Erel Er Ew). unfold AOk in *. cbn [s_last s_net send set_rp set_net].
  rewrite Hha. cbn [s_rdead set_rp].
  rewrite (filter_rdead_false (s_rdead s) out L3).
  destruct HG as [HD|(G0 & GA & GC)]; [left; exact HD|].
  destruct (Z.eq_dec (rp_hbc p) (rp_hbc p1)) as [Eh|Nh].
  - right. rewrite <- Eh, Han. split; [assumption|]. split.
    + destruct GA as [GA|(d & f & l & Hd & Hs)]; [left; assumption|right]. exists d, f, l. split; [apply in_or_app; left; assumption|assumption].
    + intros Hp'. destruct (GC Hp') as (C1 & (d & Hd & Hk) & C3). split; [assumption|]. split.
      * exists d. split; [apply in_or_app; left; assumption|assumption].
      * intros d' b set Hd' Hs'. apply in_app_or in Hd'. destruct Hd' as [Hd'|Hd']; [eapply C3; eassumption|].
        exfalso. rewrite Forall_forall in W3. destruct (W3 d' Hd') as [_ Hsub]. rewrite Forall_forall in Hsub.
        specialize (Hsub _ Hs'). exact Hsub.
  - right. split; [lia|]. split.
    + right. apply (khas_hb_in (rp_hbc p1) (s_last s) out); [apply W4; lia|]. intros d Hd. apply in_or_app. right. assumption.
    + intros Hp'. lia.
Qed.

Lemma A_deliverK cf s i d : KLive true cf s -> ShInv s -> AInv2 s -> RDone s -> s_last s <= 256 ->
  nth_error (s_net s) i = Some d ->
  AInv2 (deliver_dgram cf (set_net s (remove_nth i (s_net s))) d) /\
  RDone (deliver_dgram cf (set_net s (remove_nth i (s_net s))) d).
Proof.
  intros [HC HL] [Hsh Hfrags] HG HR H256 Ei.
  pose proof HC as (HGS & HN & [HK Hp]). destruct HL as (L1 & L2 & L3 & L4 & L5).
  assert (Hd : In d (s_net s)) by (eapply nth_error_In; eassumption).
  assert (Hshd : nshape d) by (rewrite Forall_forall in Hsh; auto).
  set (rest := remove_nth i (s_net s)) in *.
  assert (Hrest : forall x, In x rest -> In x (s_net s)) by (intros x Hx; eapply remove_nth_in; exact Hx).
  assert (Hother : forall x, In x (s_net s) -> x <> d -> In x rest) by (intros x Hx Hne; eapply in_remove_nth_other; eassumption).
  assert (Both : forall q r' w', s_rp (deliver_dgram cf (set_net s rest) d) = Some q -> rp_rel q = true ->
             s_rd (deliver_dgram cf (set_net s rest) d) = Some r' -> rd_wp r' = Some w' ->
             AOk (deliver_dgram cf (set_net s rest) d) q w' /\ s_last (deliver_dgram cf (set_net s rest) d) <= wp_hr w').
  2:{ split; intros q r' w' Eq Hq Er' Ew'; apply (Both q r' w' Eq Hq Er' Ew'). }
  intros q r' w' Eq Hrelq Er' Ew'.
  unfold deliver_dgram in *. destruct (dg_toR d) eqn:Edir.
  - (* towards the reader *)
    cbn [s_rdead s_rd set_net] in *. rewrite L3 in *.
    destruct (s_rd s) as [r|] eqn:Er; [|cbn in Er'; congruence].
    rewrite (L4 r eq_refl) in *.
    destruct (deliver_subs_R cf r (dg_subs d) []) as [r1 out] eqn:E.
    cbn [s_rp s_rd send set_rd set_net] in Eq, Er'. injection Er' as <-.
    destruct (rd_wp r) as [w|] eqn:Ew.
    2:{ rewrite (deliver_subs_R_nowp cf r (dg_subs d) [] Ew) in E. inversion E; subst. congruence. }
    destruct (deliver_R_shape cf r w d r1 out Ew (Hfrags r w eq_refl Ew) Hshd Edir E) as (w1 & B1 & B2 & B3 & Hcase).
    assert (w' = w1) by congruence. subst w'.
    destruct (L5 q r w Eq Hrelq eq_refl Ew) as [K1 K2 K3 K4 K6 K7 K8].
    assert (Hlsub : Forall (klsub (rp_hbc q) (s_last s) (wp_an w)) (dg_subs d)).
    { rewrite Forall_forall in K8. apply (K8 d Hd). }
    pose proof (HR q r w Eq Hrelq Er Ew) as Hdone.
    specialize (HG q r w Eq Hrelq Er Ew). unfold AOk in *.
    cbn [s_last s_net send set_rd set_net s_rdead]. rewrite L3.
    assert (Hfil : forall o, filter (fun d0 => negb (dg_toR d0 && false)) o = o).
    { clear. induction o as [|x t IH]; cbn; [reflexivity|]. rewrite andb_false_r. cbn. f_equal. assumption. }
    rewrite Hfil. split; [|lia].
    destruct HG as [HD|(G0 & GA & GC)]; [left; exact HD|].
    right. split; [assumption|].
    destruct Hcase as [(C1 & C2 & C3 & -> & C5)|(f & l & c & C0 & C1 & C2 & C3 & C4 & ->)].
    + rewrite C1, C2, app_nil_r. split.
      * destruct GA as [GA|(d0 & f0 & l0 & Hd0 & Hs0)]; [left; assumption|].
        destruct (dgram_eq_dec d0 d) as [->|Hne].
        -- left. destruct (C5 f0 l0 _ Hs0) as [Hle|Hle]; [lia|].
           rewrite Forall_forall in Hlsub. pose proof (Hlsub _ Hs0) as Hq. cbn in Hq. lia.
        -- right. exists d0, f0, l0. split; [apply Hother; assumption|assumption].
      * intros Hp'. destruct (GC Hp') as (D1 & (d0 & Hd0 & Hk0) & D3). split; [assumption|]. split.
        -- exists d0. split; [|assumption]. apply Hother; [assumption|]. intros ->.
           destruct Hk0 as [b [set Hk0]]. eapply shape_toR_no_ack; eassumption.
        -- intros d' b set Hd' Hs'. eapply D3; [apply Hrest; eassumption|eassumption].
    + rewrite Forall_forall in Hlsub. pose proof (Hlsub _ C0) as Hl. cbn in Hl. destruct Hl as (Hf1 & Hc1 & Hc2).
      rewrite C2, C3. split.
      * destruct (Z.eq_dec c (rp_hbc q)) as [->|Hne]; [left; reflexivity|].
        destruct GA as [GA|(d0 & f0 & l0 & Hd0 & Hs0)]; [lia|]. right. exists d0, f0, l0. split; [|assumption].
        apply in_or_app. left. apply Hother; [assumption|]. intros ->.
        destruct (shape_one_hb d _ _ _ _ _ _ Hshd C0 Hs0) as (_ & _ & E3). congruence.
      * intros Hp'. split; [lia|]. split.
        -- eexists. split; [apply in_or_app; right; left; reflexivity|]. eexists _, _. left. reflexivity.
        -- intros d' b set Hd' Hs'. apply in_app_or in Hd'. destruct Hd' as [Hd'|[<-|[]]].
           ++ exfalso. rewrite Forall_forall in K8. specialize (K8 d' (Hrest _ Hd')). unfold kldg in K8. rewrite Forall_forall in K8.
              specialize (K8 _ Hs'). cbn in K8. lia.
           ++ cbn in Hs'. destruct Hs' as [Hs'|[]]. inversion Hs'; subst. lia.
  - (* towards the writer: one ACKNACK *)
    destruct Hshd; cbn in Edir; try discriminate. cbn [dg_subs toW fold_left] in *.
    assert (Hrd : s_rd (deliver_sub_W cf (set_net s rest) (SAck b set cnt)) = s_rd s) by (rewrite deliver_sub_W_rd; reflexivity).
    rewrite Hrd in Er'.
    unfold deliver_sub_W in *. cbn [s_rp set_net s_now s_changes s_last] in *.
    destruct (s_rp s) as [p|] eqn:Ep; [|cbn in Eq; congruence].
    destruct Hp as [Hhs Hfr].
    assert (Hstat : rp_rel p = true).
    { pose proof (on_acknack_static cf (s_now s) (s_changes s) p b set cnt) as Hst.
      destruct (on_acknack cf (s_now s) (s_changes s) p b set cnt) as [[p1 o] sm]. cbn [fst] in Hst.
      apply static_fr in Hst. destruct Hst as (_ & Hr & _).
      destruct (sm && _); cbn in Eq; injection Eq as <-; congruence. }
    destruct (L5 p r' w' eq_refl Hstat Er' Ew') as [K1 K2 K3 K4 K6 K7 K8].
    assert (Hld : kldg (rp_hbc p) (s_last s) (wp_an w') (toW [SAck b set cnt])) by (rewrite Forall_forall in K8; auto).
    unfold kldg in Hld. cbn in Hld. apply Forall_inv in Hld. cbn in Hld. rename Hld into Hcnt.
    pose proof (on_acknack_GK (s_last s) cf (s_now s) (s_changes s) p b set cnt HK L2 Hstat Hhs K2) as H. lazy zeta in H.
    pose proof (on_acknack_ha cf (s_now s) (s_changes s) p b set cnt) as [Hha1 Hha2].
    destruct (on_acknack cf (s_now s) (s_changes s) p b set cnt) as [[p1 out] sm]. cbn [fst snd] in *.
    destruct H as (W1 & W2 & W2' & W3 & W4 & W5 & W6).
    assert (Hq : q = p1) by (destruct (sm && _); cbn in Eq; congruence). subst q.
    pose proof (HR p r' w' Ep Hstat Er' Ew') as Hdone.
    specialize (HG p r' w' Ep Hstat Er' Ew'). unfold AOk in *.
    assert (Hnet' : s_net (if sm && is_acked (Some p1) (s_last s)
                   then set_waits (send (set_rp (set_net s rest) (Some p1)) out) (drain (s_waits (send (set_rp (set_net s rest) (Some p1)) out)))
                   else send (set_rp (set_net s rest) (Some p1)) out) = rest ++ out).
    { destruct (sm && _); cbn; rewrite (filter_rdead_false (s_rdead s) out L3); reflexivity. }
    assert (Hlast' : s_last (if sm && is_acked (Some p1) (s_last s)
                   then set_waits (send (set_rp (set_net s rest) (Some p1)) out) (drain (s_waits (send (set_rp (set_net s rest) (Some p1)) out)))
                   else send (set_rp (set_net s rest) (Some p1)) out) = s_last s) by (destruct (sm && _); reflexivity).
    rewrite Hnet', Hlast'. split; [|assumption].
    destruct HG as [HD|(G0 & GA & GC)]; [left; lia|].
    destruct (Z.le_gt_cases (s_last s) (rp_ha p1)) as [Hack|Hnack]; [left; assumption|].
    right.
    destruct (Z.eq_dec (rp_hbc p) (rp_hbc p1)) as [Eh|Nh].
    + rewrite <- Eh. split; [assumption|]. split.
      * destruct GA as [GA|(d0 & f0 & l0 & Hd0 & Hs0)]; [left; assumption|right]. exists d0, f0, l0. split; [|assumption].
        apply in_or_app. left. apply Hother; [assumption|]. intros ->. cbn in Hs0. destruct Hs0 as [Hs0|[]]. discriminate.
      * intros Hp'. destruct (GC Hp') as (D1 & (d0 & Hd0 & Hk0) & D3).
        assert (Hne : cnt <> wp_an w').
        { intros ->. assert (Hb : s_last s <= b - 1) by (eapply D3; [exact Hd|left; reflexivity]).
          specialize (Hha2 Hstat D1). lia. }
        split; [rewrite W4; destruct (rp_an p <? cnt); lia|]. split.
        -- exists d0. split; [|assumption]. apply in_or_app. left. apply Hother; [assumption|]. intros ->.
           destruct Hk0 as [b0 [set0 [Hk0|[]]]]. inversion Hk0; subst. congruence.
        -- intros d' b' set' Hd' Hs'. apply in_app_or in Hd'. destruct Hd' as [Hd'|Hd']; [eapply D3; [apply Hrest; eassumption|eassumption]|].
           exfalso. rewrite Forall_forall in W2. destruct (W2 d' Hd') as [_ Hsub]. rewrite Forall_forall in Hsub.
           specialize (Hsub _ Hs'). exact Hsub.
    + split; [lia|]. split.
      * right. apply (khas_hb_in (rp_hbc p1) (s_last s) out); [apply W3; lia|]. intros x Hx. apply in_or_app. right. assumption.
      * intros Hp'. lia.
Qed.

Definition KHeal2 (cf : cfg) (s : state) : Prop :=
  KLive true cf s /\ ShInv s /\ AInv2 s /\ RDone s /\ s_last s <= 256.

Lemma KHeal2_poke cf s : KLive true cf s -> ShInv s -> AInv2 s -> RDone s -> s_last s <= 256 -> KHeal2 cf (poke cf s).
Proof.
  intros HL HS HG HR H256. split; [apply KLive_poke with (b := true); assumption|]. split.
  - apply Sh_poke; [destruct HL as [_ (_ & L2 & _)]; assumption|assumption].
  - split; [apply A_pokeK; assumption|]. split; [apply RDone_poke; assumption|].
    destruct (core_proj _ _ (poke_core cf s)) as (_ & C2 & _). lia.
Qed.

Lemma KHeal2_deliver cf s i d : KHeal2 cf s -> nth_error (s_net s) i = Some d ->
  KHeal2 cf (poke cf (deliver_dgram cf (set_net s (remove_nth i (s_net s))) d)).
Proof.
  intros (HL & HS & HG & HR & H256) E.
  assert (Hd : In d (s_net s)) by (eapply nth_error_In; eassumption).
  assert (Hrest : forall x, In x (remove_nth i (s_net s)) -> In x (s_net s)) by (intros x Hx; eapply remove_nth_in; exact Hx).
  destruct (core_proj _ _ (deliver_dgram_core cf (set_net s (remove_nth i (s_net s))) d)) as (C1 & C2 & _).
  destruct (A_deliverK cf s i d HL HS HG HR H256 E) as [HA HR'].
  apply KHeal2_poke; try assumption.
  - apply KLive_deliver; assumption.
  - apply Sh_deliver.
    + cbn. destruct HL as [_ (_ & L2 & _)]. assumption.
    + destruct HS as [X Y]. split; [apply Forall_remove_nth; assumption|assumption].
    + destruct HS as [X _]. rewrite Forall_forall in X. auto.
  - rewrite C2. assumption.
Qed.

Lemma KHeal2_pump cf fuel : forall s n, KHeal2 cf s -> KHeal2 cf (fst (pump fuel cf s n)).
Proof.
  induction fuel as [|f IH]; intros s n H; cbn [pump]; [assumption|].
  destruct (s_net s) as [|d t] eqn:En; [assumption|].
  apply IH. pose proof (KHeal2_deliver cf s 0 d H) as Hd. rewrite En in Hd. cbn in Hd. apply Hd. reflexivity.
Qed.

Lemma KHeal2_step cf s a : is_delivery a = true -> KHeal2 cf s -> KHeal2 cf (fst (step cf s a)).
Proof.
  intros Ha H. destruct a; try discriminate; unfold step; cbn [act].
  - destruct (nth_error (s_net s) i) as [d|] eqn:E; cbn [fst].
    + exact (KHeal2_deliver cf s i d H E).
    + destruct H as (A & B & C & D & F). apply KHeal2_poke; assumption.
  - pose proof (KHeal2_pump cf pump_fuel s 0 H) as Hp. destruct (pump pump_fuel cf s 0) as [s1 n]. cbn [fst] in *.
    destruct Hp as (A & B & C & D & F). apply KHeal2_poke; assumption.
Qed.

Lemma KHeal2_run cf l : forallb is_delivery l = true -> forall s, KHeal2 cf s -> KHeal2 cf (run cf s l).
Proof.
  induction l as [|a t IH]; intros Hl s H; [exact H|]. cbn in Hl. apply andb_prop in Hl. destruct Hl as [Ha Ht].
  rewrite run_cons. apply IH; [assumption|]. apply KHeal2_step; assumption.
Qed.

Lemma KHeal2_quiescent cf s : KHeal2 cf s -> s_net s = [] ->
  forall p r w, s_rp s = Some p -> rp_rel p = true -> s_rd s = Some r -> rd_wp r = Some w ->
    s_last s <= rp_ha p /\ ackd s = true.
Proof.
  intros (_ & _ & HG & _ & _) Hnet p r w Ep Erel Er Ew.
  assert (Hha : s_last s <= rp_ha p).
  { destruct (HG p r w Ep Erel Er Ew) as [HD|(G0 & GA & GC)]; [assumption|].
    exfalso. rewrite Hnet in *. destruct GA as [GA|(d & f & l & [] & _)].
    destruct (GC GA) as (_ & (d & [] & _) & _). }
  split; [assumption|]. unfold ackd, is_acked. rewrite Ep, Erel. cbn. apply negb_true_iff. apply Z.ltb_ge. assumption.
Qed.

Lemma tick_stale2K cf s b : KLive true cf s -> ShInv s -> Stale2 b s ->
  Stale2 b (fst (step cf s ATick)) /\ (hb_period <= s_now s + tick_ms - b -> AInv2 (fst (step cf s ATick))).
Proof.
  intros HL HSh HSt. rewrite step_tick.
  pose proof (KLive_tick_state cf s HL) as HL1. set (s1 := tick_state s) in *.
  assert (Key : forall q r w, s_rp (poke cf s1) = Some q -> rp_rel q = true -> s_rd (poke cf s1) = Some r -> rd_wp r = Some w ->
            AOk (poke cf s1) q w \/ (rp_hbt q <= b /\ ~ hb_period <= s_now s + tick_ms - b)).
  { intros q r w Eq Hrelq Er Ew. rewrite poke_rd in Er.
    pose proof HL1 as [HC1 (L1 & L2 & L3 & L4 & L5)]. pose proof HC1 as (HGS1 & HN1 & [HK1 Hp1]).
    destruct (s_rp s1) as [p|] eqn:Ep; [|rewrite poke_rp_none in Eq by assumption; congruence].
    destruct (poke_rp_some cf s1 p Ep) as [q' [Eq' Hst]]. assert (q' = q) by congruence. subst q'.
    apply static_fr in Hst. destruct Hst as (Hfr1 & Hrel1 & _).
    assert (Hrel : rp_rel p = true) by congruence.
    destruct (HSt p r w Ep Hrel Er Ew) as [HG|Hb].
    - left. assert (HG1 : AInv2 s1).
      { intros p2 r2 w2 E2 _ Er2 Ew2. assert (p2 = p) by congruence. assert (r2 = r) by congruence. subst p2 r2.
        assert (w2 = w) by congruence. subst w2. exact HG. }
      apply (A_pokeK cf s1 HL1 HG1 q r w); try assumption. rewrite poke_rd. assumption.
    - destruct Hp1 as [Hhs Hfr].
      destruct (L5 p r w eq_refl Hrel Er Ew) as [K1 K2 K3 K4 K6 K7 K8].
      unfold poke in Eq. rewrite Ep in Eq. unfold write_message in Eq. rewrite Hrel in Eq.
      pose proof (write_rel_liveK cf (s_now s1) (s_changes s1) (s_last s1) HK1 L2 p Hhs K2) as H. lazy zeta in H.
      pose proof (write_rel_ha cf (s_now s1) (s_changes s1) p) as Hha.
      unfold poke. rewrite Ep. unfold write_message. rewrite Hrel.
      destruct (write_rel cf (s_now s1) (s_changes s1) p) as [p1 out]. cbn [fst snd] in *. cbn in Eq. injection Eq as <-.
      destruct H as (W1 & W2 & W3 & W4 & W5 & _ & W7 & _).
      destruct (Z.le_gt_cases (s_last s1) (rp_ha p)) as [HD|HnD].
      { left. left. cbn [s_last send set_rp set_net]. rewrite Hha. exact HD. }
      destruct W5 as [[Eh Et]|[Hlt Et]].
      + right. split; [lia|]. intros Hdue. assert (rp_hbc p < rp_hbc p1); [|lia].
        apply W7; [apply K1; reflexivity|lia|]. cbn [s_now s1 tick_state]. lia.
      + left. right. cbn [s_net s_last send set_rp]. split; [lia|]. split.
        * right. apply (khas_hb_in (rp_hbc p1) (s_last s1) out); [apply W4; assumption|].
          intros x Hx. apply in_or_app. right. apply filter_In. split; [assumption|]. cbn [s_rdead set_rp]. rewrite L3, andb_false_r. reflexivity.
        * intros Hp. lia. }
  split.
  - intros q r w Eq Hrelq Er Ew. destruct (Key q r w Eq Hrelq Er Ew) as [H|[H _]]; [left|right]; assumption.
  - intros Hdue q r w Eq Hrelq Er Ew. destruct (Key q r w Eq Hrelq Er Ew) as [H|[_ H]]; [assumption|contradiction].
Qed.

Lemma five_ticks_heal2K cf s : 0 < fsz cf -> KLive true cf s -> ShInv s -> RDone s -> s_last s <= 256 ->
  KHeal2 cf (run cf s five_ticks).
Proof.
  intros Hf HL HS HR H256.
  assert (Step : forall s0 b, KLive true cf s0 -> ShInv s0 -> Stale2 b s0 -> RDone s0 ->
            let s1 := fst (step cf s0 ATick) in
            KLive true cf s1 /\ ShInv s1 /\ Stale2 b s1 /\ RDone s1 /\ s_now s1 = s_now s0 + tick_ms /\ s_last s1 = s_last s0 /\
            (hb_period <= s_now s0 + tick_ms - b -> AInv2 s1)).
  { intros s0 b HL0 HS0 HSt0 HR0. cbn zeta.
    destruct (tick_stale2K cf s0 b HL0 HS0 HSt0) as [T1 T2].
    split; [apply KLive_step; [assumption|reflexivity|assumption]|].
    split; [apply (Sh_stepK cf s0 ATick Hf eq_refl); [destruct HL0 as [_ (_ & L2 & _)]; assumption|assumption]|].
    split; [assumption|]. split; [apply RDone_tick; assumption|]. rewrite step_tick.
    destruct (core_proj _ _ (poke_core cf (tick_state s0))) as (_ & C2 & _ & _ & C5).
    split; [rewrite C5; reflexivity|]. split; [rewrite C2; reflexivity|]. rewrite <- step_tick. assumption. }
  assert (HSt0 : Stale2 (s_now s) s).
  { intros p r w Ep Hrel Er Ew. right. destruct HL as [_ (_ & _ & _ & _ & L5)]. destruct (L5 p r w Ep Hrel Er Ew). assumption. }
  unfold five_ticks. rewrite !run_cons. cbn [run run_out fst].
  destruct (Step s (s_now s) HL HS HSt0 HR) as (L1 & S1 & T1 & R1 & N1 & E1 & _).
  destruct (Step _ (s_now s) L1 S1 T1 R1) as (L2 & S2 & T2 & R2 & N2 & E2 & _).
  destruct (Step _ (s_now s) L2 S2 T2 R2) as (L3 & S3 & T3 & R3 & N3 & E3 & _).
  destruct (Step _ (s_now s) L3 S3 T3 R3) as (L4 & S4 & T4 & R4 & N4 & E4 & G4).
  assert (HG4 : AInv2 (fst (step cf (fst (step cf (fst (step cf (fst (step cf s ATick)) ATick)) ATick)) ATick))).
  { apply G4. unfold hb_period, tick_ms in *. lia. }
  set (s4 := fst (step cf (fst (step cf (fst (step cf (fst (step cf s ATick)) ATick)) ATick)) ATick)) in *.
  assert (HSt4 : Stale2 (s_now s4 - 1000) s4).
  { intros p r w Ep Hrel Er Ew. left. exact (HG4 p r w Ep Hrel Er Ew). }
  destruct (Step s4 (s_now s4 - 1000) L4 S4 HSt4 R4) as (L5 & S5 & T5 & R5 & N5 & E5 & G5).
  split; [assumption|]. split; [assumption|]. split; [apply G5; unfold hb_period, tick_ms; lia|]. split; [assumption|]. lia.
Qed.

(* the reader has the last sample once phase 1 is over and some sample is relevant for it *)
Lemma KHeal_quiescent_RDone cf s : KHeal cf s -> s_net s = [] ->
  (forall p, s_rp s = Some p -> rp_fr p < s_last s) -> RDone s.
Proof.
  intros (_ & _ & HG & _) Hnet Hfr p r w Ep Hrel Er Ew.
  destruct (HG p r w Ep Hrel Er Ew) as [[HD|HD]|(G0 & GA & GC)]; [assumption|specialize (Hfr p Ep); lia|].
  exfalso. rewrite Hnet in *. destruct GA as [GA|(d & f & l & [] & _)].
  destruct (GC GA) as (_ & (d & [] & _) & _).
Qed.

(* COMPLETION for histories with holes.  ANY history QoS, unfragmented samples, no explicit removal, no deletion,
   any faults; k + 1 healing rounds after which nothing is queued, one more healing round after which nothing
   is queued: for a matched RELIABLE pair with at least one relevant sample the acknowledgement test holds and
   no caller of wait_for_acknowledgments is parked any more. *)
Theorem wfa_completes_holes cf sched k :
  0 < fsz cf -> forallb (live_act cf) sched = true ->
  let s1 := run cf init (sched ++ heal (S k)) in
  let s2 := run cf s1 heal_round in
  s_last s2 <= 256 -> s_net s1 = [] -> s_net s2 = [] ->
  (forall p, s_rp s1 = Some p -> rp_fr p < s_last s1) ->
  forall p r w, s_rp s2 = Some p -> rp_rel p = true -> s_rd s2 = Some r -> rd_wp r = Some w ->
    ackd s2 = true /\ npend s2 = 0%nat.
Proof.
  intros Hf Hs s1 s2 H256 Hn1 Hn2 Hfr p r w Ep Hrel Er Ew.
  assert (Hl1 : s_last s1 <= 256) by (pose proof (run_last cf heal_round s1) as X; fold s2 in X; lia).
  (* phase 1 *)
  assert (HK1 : KHeal cf s1).
  { unfold s1. rewrite heal_snoc.
    replace (sched ++ heal k ++ heal_round) with ((sched ++ heal k) ++ five_ticks ++ [APump])
      by (rewrite <- !app_assoc; reflexivity).
    rewrite run_app, run_app.
    set (s0 := run cf init (sched ++ heal k)).
    assert (Hc0 : forallb (live_act cf) (sched ++ heal k) = true) by (rewrite forallb_app, Hs, heal_live; reflexivity).
    assert (HL0 : KLive true cf s0) by (apply KLive_run; [assumption|assumption|apply KLive_init]).
    destruct (ShInv_runK cf (sched ++ heal k) Hf Hc0 init) as [HS0 _]; [intros c []|apply ShInv_init|]. fold s0 in HS0.
    assert (Hlast : s_last s0 <= 256).
    { assert (E : s1 = run cf (run cf s0 five_ticks) [APump]).
      { unfold s1. rewrite heal_snoc.
        replace (sched ++ heal k ++ heal_round) with ((sched ++ heal k) ++ five_ticks ++ [APump])
          by (rewrite <- !app_assoc; reflexivity).
        rewrite run_app, run_app. reflexivity. }
      pose proof (run_last cf [APump] (run cf s0 five_ticks)). pose proof (run_last cf five_ticks s0). rewrite <- E in H. lia. }
    pose proof (five_ticks_healK cf s0 Hf HL0 HS0 Hlast) as H5.
    apply (KHeal_run cf [APump] eq_refl _ H5). }
  pose proof (KHeal_quiescent_RDone cf s1 HK1 Hn1 Hfr) as HR1.
  (* phase 2 *)
  destruct HK1 as (HL1 & HS1 & _ & _).
  pose proof (five_ticks_heal2K cf s1 Hf HL1 HS1 HR1 Hl1) as H5.
  pose proof (KHeal2_run cf [APump] eq_refl _ H5) as Hend.
  assert (E2 : run cf (run cf s1 five_ticks) [APump] = s2) by (unfold s2; change heal_round with (five_ticks ++ [APump]); rewrite run_app; reflexivity).
  rewrite E2 in Hend.
  pose proof (KHeal2_quiescent cf s2 Hend Hn2 p r w Ep Hrel Er Ew) as Hack.
  split; [apply Hack|].
  assert (E3 : s2 = run cf init ((sched ++ heal (S k)) ++ heal_round)) by (rewrite run_app; reflexivity).
  rewrite E3. apply (wfa_no_stale_waiter cf ((sched ++ heal (S k)) ++ heal_round)). rewrite <- E3. apply Hack.
Qed.
