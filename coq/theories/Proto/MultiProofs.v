(* C03 — several endpoints: every (writer, reader) pair of the product model evolves exactly like the single-pair
   model (each step of the product is a `step` of RelModel.v on every pair), so the theorems proved for one pair
   hold for every pair; the test of wait_for_acknowledgments ranges over all the pairs of the writer, hence it
   is sound for any number of matched readers. *)
From DustDDS Require Import Base.Machine Proto.RelModel Proto.RelProofs Proto.RelSound Proto.RelSoundG Proto.MultiModel.
Open Scope Z_scope.

Definition Reach (cf : cfg) (s : state) : Prop := exists l, s = run cf init l.
(* reachable up to the closing poke of the worker iteration *)
Definition PreReach (cf : cfg) (s : state) : Prop := exists s0 a, Reach cf s0 /\ s = fst (act cf s0 a).

Lemma step_fst cf s a : fst (step cf s a) = poke cf (fst (act cf s a)).
Proof. unfold step. destruct (act cf s a). reflexivity. Qed.

Lemma Reach_step cf s a : Reach cf s -> Reach cf (fst (step cf s a)).
Proof. intros [l ->]. exists (l ++ [a]). rewrite run_app, run_cons. reflexivity. Qed.

Lemma Reach_Pre cf s : Reach cf s -> PreReach cf s.
Proof. intros H. exists s, ANow. split; [assumption|reflexivity]. Qed.

Lemma Pre_poke cf s : PreReach cf s -> Reach cf (poke cf s).
Proof. intros (s0 & a & H & ->). rewrite <- step_fst. apply Reach_step. assumption. Qed.

Definition AllReach (cf : cfg) (ms : mstate) : Prop := Forall (fun p => Reach cf (pr_st p)) (m_pairs ms).
Definition AllPre (cf : cfg) (ps : list pairst) : Prop := Forall (fun p => PreReach cf (pr_st p)) ps.

Lemma AllReach_Pre cf ms : AllReach cf ms -> AllPre cf (m_pairs ms).
Proof. intros H. eapply Forall_impl; [|exact H]. intros p. apply Reach_Pre. Qed.

Lemma mpoke_reach cf ps o w rc : AllPre cf ps -> AllReach cf (mpoke cf (mkMS ps o w rc)).
Proof.
  intros H. unfold AllReach, mpoke, poke_all. cbn. apply Forall_forall. intros p Hp.
  apply in_map_iff in Hp. destruct Hp as [q [<- Hq]]. cbn. apply Pre_poke.
  unfold AllPre in H. rewrite Forall_forall in H. auto.
Qed.

Lemma Forall_upd {A} (P : A -> Prop) k x l : Forall P l -> P x -> Forall P (upd k x l).
Proof.
  revert k. induction l as [|y t IH]; intros k Hl Hx; destruct k; cbn; try constructor; inversion Hl; subst; auto.
Qed.

Lemma act_on_pre cf sel a ps : Forall (fun p => Reach cf (pr_st p)) ps -> AllPre cf (act_on cf sel a ps).
Proof.
  intros H. unfold AllPre, act_on. apply Forall_forall. intros p Hp. apply in_map_iff in Hp.
  destruct Hp as [q [<- Hq]]. rewrite Forall_forall in H. specialize (H q Hq).
  destruct (sel q); cbn; [exists (pr_st q), a; auto|apply Reach_Pre; assumption].
Qed.

Lemma mdeliver_reach cf ms i ms1 : AllReach cf ms -> mdeliver cf ms i = Some ms1 -> AllReach cf ms1.
Proof.
  intros H E. unfold mdeliver in E. destruct (nth_error (m_order ms) i) as [p|]; [|discriminate].
  destruct (nth_error (m_pairs ms) p) as [pr|] eqn:Ep; [|discriminate]. inversion E; subst.
  apply mpoke_reach. apply Forall_upd; [apply AllReach_Pre; assumption|]. cbn [pr_st].
  exists (pr_st pr), (ADeliver (length (filter (Nat.eqb p) (firstn i (m_order ms))))). split; [|reflexivity].
  unfold AllReach in H. rewrite Forall_forall in H. apply H. eapply nth_error_In. eassumption.
Qed.

Lemma mpump_reach cf fuel : forall ms n, AllReach cf ms -> AllReach cf (fst (mpump fuel cf ms n)).
Proof.
  induction fuel as [|f IH]; intros ms n H; cbn [mpump]; [assumption|].
  destruct (m_order ms); [assumption|].
  destruct (mdeliver cf ms 0) as [ms1|] eqn:E; [|assumption].
  apply IH. eapply mdeliver_reach; eassumption.
Qed.

Lemma ms_eta ms : ms = mkMS (m_pairs ms) (m_order ms) (m_waits ms) (m_rcache ms).
Proof. destruct ms. reflexivity. Qed.

Lemma mpoke_reach' cf ms : AllReach cf ms -> AllReach cf (mpoke cf ms).
Proof. intros H. rewrite (ms_eta ms). apply mpoke_reach. apply AllReach_Pre. assumption. Qed.

Lemma mstep_reach cf ms a : AllReach cf ms -> AllReach cf (fst (mstep cf ms a)).
Proof.
  intros H. destruct a; cbn [mstep].
  - cbn [fst]. apply mpoke_reach. apply act_on_pre. exact H.
  - cbn [fst]. apply mpoke_reach. apply act_on_pre. exact H.
  - destruct (mdeliver cf ms i) as [ms1|] eqn:E; cbn [fst]; [eapply mdeliver_reach; eassumption|apply mpoke_reach'; assumption].
  - destruct (nth_error (m_order ms) i) as [p|]; [|cbn [fst]; apply mpoke_reach'; assumption].
    destruct (nth_error (m_pairs ms) p) as [pr|] eqn:Ep; [|cbn [fst]; apply mpoke_reach'; assumption].
    cbn [fst]. apply mpoke_reach. apply Forall_upd; [apply AllReach_Pre; assumption|]. cbn [pr_st].
    exists (pr_st pr), (ADrop (length (filter (Nat.eqb p) (firstn i (m_order ms))))). split; [|reflexivity].
    unfold AllReach in H. rewrite Forall_forall in H. apply H. eapply nth_error_In. eassumption.
  - pose proof (mpump_reach cf pump_fuel ms 0 H) as Hp. destruct (mpump pump_fuel cf ms 0) as [ms1 n].
    cbn [fst] in *. apply mpoke_reach'. assumption.
  - destruct (nth_error (m_rcache ms) r); cbn [fst]; [apply mpoke_reach; apply AllReach_Pre; assumption|apply mpoke_reach'; assumption].
  - cbn [fst]. apply mpoke_reach. apply act_on_pre. exact H.
  - destruct (all_acked w (m_pairs ms)); cbn [fst]; apply mpoke_reach; apply AllReach_Pre; assumption.
  - destruct (poll (map snd (m_waits ms))). cbn [fst]. apply mpoke_reach. apply AllReach_Pre. assumption.
  - cbn [fst]. apply mpoke_reach'. assumption.
Qed.

Lemma mrun_cons cf a l ms : mrun cf ms (a :: l) = mrun cf (fst (mstep cf ms a)) l.
Proof.
  unfold mrun. cbn [mrun_out]. destruct (mstep cf ms a) as [ms1 o]. cbn [fst]. destruct (mrun_out cf ms1 l) as [ms2 os]. reflexivity.
Qed.

Lemma mrun_reach cf l : forall ms, AllReach cf ms -> AllReach cf (mrun cf ms l).
Proof.
  induction l as [|a t IH]; intros ms H; [exact H|]. rewrite mrun_cons. apply IH. apply mstep_reach. assumption.
Qed.

Lemma minit_reach cf nw nr : AllReach cf (minit nw nr).
Proof.
  unfold AllReach, minit. cbn. apply Forall_forall. intros p Hp. apply in_flat_map in Hp. destruct Hp as [i [_ Hp]].
  apply in_map_iff in Hp. destruct Hp as [j [<- _]]. cbn. exists []. reflexivity.
Qed.

(* PROJECTION: in every reachable state of the product, the state of every (writer, reader) pair is a reachable
   state of the single-pair model *)
Theorem pairs_are_single_runs cf nw nr l :
  forall p, In p (m_pairs (mrun cf (minit nw nr) l)) -> exists l', pr_st p = run cf init l'.
Proof.
  intros p Hp. pose proof (mrun_reach cf l _ (minit_reach cf nw nr)) as H.
  unfold AllReach in H. rewrite Forall_forall in H. exact (H p Hp).
Qed.

(* SOUNDNESS with any number of writers and readers, every schedule of the product (per-reader loss, delay,
   reordering, late joiners): whenever the test of wait_for_acknowledgments of writer w - over ALL its reader
   proxies - succeeds, every RELIABLE reader matched with w has been given every change w holds that is relevant
   for it *)
Theorem mwfa_sound cf nw nr l w :
  let ms := mrun cf (minit nw nr) l in mackd w ms = true -> mdelivered w ms.
Proof.
  intros ms Hack p Hp Hw.
  destruct (pairs_are_single_runs cf nw nr l p Hp) as [l' E]. rewrite E.
  apply (wfa_sound cf l'). rewrite <- E.
  unfold mackd, all_acked in Hack. rewrite forallb_forall in Hack. specialize (Hack p Hp).
  rewrite Hw, Nat.eqb_refl in Hack. exact Hack.
Qed.

(* ------------------------------------------------------------------ a parked caller is only answered when ALL have acknowledged *)
Lemma ackd_poke cf s : ackd s = true -> ackd (poke cf s) = true.
Proof. apply (Mono_poke cf s). Qed.

Lemma ackd_act_deliver cf s li : ackd s = true -> ackd (fst (act cf s (ADeliver li))) = true.
Proof.
  cbn [act]. destruct (nth_error (s_net s) li) as [d|]; [|auto]. cbn [fst].
  apply (Mono_trans _ _ _ (Mono_set_net s _) (Mono_deliver_dgram cf _ d)).
Qed.

Lemma all_acked_poke cf w ps : all_acked w ps = true -> all_acked w (poke_all cf ps) = true.
Proof.
  unfold all_acked, poke_all. rewrite !forallb_forall. intros H p Hp. apply in_map_iff in Hp.
  destruct Hp as [q [<- Hq]]. cbn. specialize (H q Hq). apply orb_true_iff in H. apply orb_true_iff.
  destruct H as [H|H]; [left; assumption|right; apply ackd_poke; assumption].
Qed.

Lemma all_acked_upd w ps k pr x : nth_error ps k = Some pr -> pr_w x = pr_w pr ->
  (ackd (pr_st pr) = true -> ackd (pr_st x) = true) ->
  all_acked w ps = true -> all_acked w (upd k x ps) = true.
Proof.
  unfold all_acked. revert k. induction ps as [|y t IH]; intros k E Hw Hm H; destruct k; cbn in *; try discriminate.
  - inversion E; subst y. apply andb_prop in H. destruct H as [H1 H2]. rewrite H2, Hw.
    apply orb_true_iff in H1. destruct H1 as [H1|H1]; [rewrite H1; reflexivity|rewrite (Hm H1), orb_true_r; reflexivity].
  - apply andb_prop in H. destruct H as [H1 H2]. rewrite H1. cbn. eapply IH; eassumption.
Qed.

Definition pendb (w : nat) (e : nat * wstat) : bool :=
  Nat.eqb (fst e) w && match snd e with WPending => true | _ => false end.

Definition npl (w : nat) (l : list (nat * wstat)) : nat := length (filter (pendb w) l).
Lemma mnpend_npl w ms : mnpend w ms = npl w (m_waits ms).
Proof. reflexivity. Qed.

Lemma mnpend_drain_same w l : npl w (drain_w w l) = 0%nat.
Proof.
  unfold npl, pendb, drain_w. induction l as [|[w' st] t IH]; [reflexivity|]. cbn.
  destruct (Nat.eqb_spec w' w) as [->|Hne]; cbn.
  - rewrite Nat.eqb_refl. destruct st; cbn; assumption.
  - destruct (Nat.eqb_spec w' w); [contradiction|]. cbn. assumption.
Qed.

Lemma mnpend_drain_other w w' l : w' <> w -> npl w (drain_w w' l) = npl w l.
Proof.
  intros Hne. unfold npl, pendb, drain_w. induction l as [|[x st] t IH]; [reflexivity|]. cbn.
  destruct (Nat.eqb_spec x w') as [->|Hx]; cbn.
  - destruct (Nat.eqb_spec w' w); [contradiction|]. cbn. assumption.
  - destruct (Nat.eqb x w && _); cbn; rewrite IH; reflexivity.
Qed.

Lemma mnpend_mpoke cf w ms : mnpend w (mpoke cf ms) = mnpend w ms.
Proof. reflexivity. Qed.
Lemma mackd_mpoke cf w ms : mackd w ms = true -> mackd w (mpoke cf ms) = true.
Proof. unfold mackd, mpoke. cbn. apply all_acked_poke. Qed.

Definition MMono (w : nat) (a b : mstate) : Prop :=
  (mackd w a = true -> mackd w b = true) /\ (mnpend w b <= mnpend w a)%nat /\
  ((mnpend w b < mnpend w a)%nat -> mackd w b = true).

Lemma MMono_refl w a : MMono w a a.
Proof. unfold MMono. repeat split; auto; lia. Qed.
Lemma MMono_trans w a b c : MMono w a b -> MMono w b c -> MMono w a c.
Proof.
  intros (A1 & A2 & A3) (B1 & B2 & B3). unfold MMono. repeat split; auto; try lia.
  intros H. destruct (Nat.lt_ge_cases (mnpend w b) (mnpend w a)) as [Hl|Hg]; [apply B1, A3; assumption|apply B3; lia].
Qed.

Lemma MMono_mpoke cf w ms : MMono w ms (mpoke cf ms).
Proof.
  unfold MMono. rewrite mnpend_mpoke. split; [apply mackd_mpoke|]. split; [lia|intros; lia].
Qed.

Lemma mdeliver_mono cf w ms i ms1 : mdeliver cf ms i = Some ms1 -> MMono w ms ms1.
Proof.
  intros E. unfold mdeliver in E. destruct (nth_error (m_order ms) i) as [p|]; [|discriminate].
  destruct (nth_error (m_pairs ms) p) as [pr|] eqn:Ep; [|discriminate]. inversion E; subst ms1. clear E.
  set (li := length (filter (Nat.eqb p) (firstn i (m_order ms)))).
  set (s1 := fst (act cf (pr_st pr) (ADeliver li))).
  set (ps1 := upd p (mkPair (pr_w pr) (pr_r pr) s1) (m_pairs ms)).
  assert (Hacks : forall w0, all_acked w0 (m_pairs ms) = true -> all_acked w0 ps1 = true).
  { intros w0. apply all_acked_upd with (pr := pr); [assumption|reflexivity|]. cbn. apply ackd_act_deliver. }
  eapply MMono_trans; [|apply MMono_mpoke].
  unfold MMono, mackd. rewrite !mnpend_npl. cbn [m_pairs m_waits]. fold ps1. split; [apply Hacks|].
  match goal with |- context [if ?b then _ else _] => destruct b eqn:Eb end.
  - apply andb_prop in Eb. destruct Eb as [_ Eall].
    destruct (Nat.eq_dec (pr_w pr) w) as [Hw|Hw].
    + rewrite Hw in *. pose proof (mnpend_drain_same w (m_waits ms)) as Hz. rewrite Hz.
      split; [lia|]. intros _. exact Eall.
    + pose proof (mnpend_drain_other w (pr_w pr) (m_waits ms) Hw) as Hz. rewrite Hz.
      split; [lia|intros; lia].
  - split; [lia|intros; lia].
Qed.

Lemma mpump_mono cf w fuel : forall ms n, MMono w ms (fst (mpump fuel cf ms n)).
Proof.
  induction fuel as [|f IH]; intros ms n; cbn [mpump]; [apply MMono_refl|].
  destruct (m_order ms); [apply MMono_refl|].
  destruct (mdeliver cf ms 0) as [ms1|] eqn:E; [|apply MMono_refl].
  eapply MMono_trans; [eapply mdeliver_mono; eassumption|apply IH].
Qed.

Lemma mnpend_app w l e : npl w (l ++ [e]) = (npl w l + (if pendb w e then 1 else 0))%nat.
Proof. unfold npl. rewrite filter_app, app_length. cbn. destruct (pendb w e); reflexivity. Qed.

Lemma mnpend_poll w l :
  npl w (combine (map fst l) (fst (poll (map snd l)))) = npl w l.
Proof.
  unfold npl, pendb, poll. cbn [fst]. induction l as [|[x st] t IH]; [reflexivity|]. cbn.
  destruct st; cbn; destruct (Nat.eqb x w); cbn; rewrite IH; reflexivity.
Qed.

Lemma mstep_answered_acked cf ms a w :
  (mnpend w (fst (mstep cf ms a)) < mnpend w ms)%nat -> mackd w (fst (mstep cf ms a)) = true.
Proof.
  destruct a; cbn [mstep].
  - cbn [fst]. rewrite mnpend_mpoke. unfold mnpend; cbn. lia.
  - cbn [fst]. rewrite mnpend_mpoke. unfold mnpend; cbn. lia.
  - destruct (mdeliver cf ms i) as [ms1|] eqn:E; cbn [fst].
    + apply (mdeliver_mono cf w ms i ms1 E).
    + rewrite mnpend_mpoke. lia.
  - destruct (nth_error (m_order ms) i) as [p|]; [|cbn [fst]; rewrite mnpend_mpoke; lia].
    destruct (nth_error (m_pairs ms) p) as [pr|]; cbn [fst]; rewrite mnpend_mpoke; unfold mnpend; cbn; lia.
  - pose proof (mpump_mono cf w pump_fuel ms 0) as Hp. destruct (mpump pump_fuel cf ms 0) as [ms1 n]. cbn [fst] in *.
    apply (MMono_trans w _ _ _ Hp (MMono_mpoke cf w ms1)).
  - destruct (nth_error (m_rcache ms) r); cbn [fst]; rewrite mnpend_mpoke; unfold mnpend; cbn; lia.
  - cbn [fst]. rewrite mnpend_mpoke. unfold mnpend; cbn. lia.
  - destruct (all_acked w0 (m_pairs ms)); cbn [fst]; rewrite mnpend_mpoke, !mnpend_npl; cbn [m_waits]; rewrite mnpend_app; lia.
  - pose proof (mnpend_poll w (m_waits ms)) as Hp. destruct (poll (map snd (m_waits ms))) as [ws o]. cbn [fst] in *.
    rewrite mnpend_mpoke, !mnpend_npl. cbn [m_waits]. rewrite Hp. lia.
  - cbn [fst]. rewrite mnpend_mpoke. lia.
Qed.

Lemma mrun_snoc cf l a ms : mrun cf ms (l ++ [a]) = fst (mstep cf (mrun cf ms l) a).
Proof.
  revert ms. induction l as [|b t IH]; intros ms.
  - cbn [app]. rewrite mrun_cons. reflexivity.
  - cbn [app]. rewrite !mrun_cons. apply IH.
Qed.

(* ... and a caller of writer w parked earlier is only answered (while an ACKNACK of ONE reader is processed) when,
   at the end of that step, EVERY reader matched with w has been given everything relevant *)
Theorem mwfa_sound_answered cf nw nr l a w :
  let ms := mrun cf (minit nw nr) l in let ms' := fst (mstep cf ms a) in
  (mnpend w ms' < mnpend w ms)%nat -> mdelivered w ms'.
Proof.
  intros ms ms' Hlt.
  assert (E : ms' = mrun cf (minit nw nr) (l ++ [a])) by (rewrite mrun_snoc; reflexivity).
  rewrite E. apply mwfa_sound. rewrite <- E. apply mstep_answered_acked. assumption.
Qed.
