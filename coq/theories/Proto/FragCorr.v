(* Correspondence vocabulary for C05: one case = a configuration, a whole operation
   sequence driven on the real RtpsStatefulWriter / RtpsStatefulReader, and the
   implementation's observed trace + final reader changes. *)
From DustDDS Require Export Base.Machine Proto.FragModel.
From Coq Require Import PrimInt63.
Open Scope Z_scope.

(* ---------------------------------------------------------------- big data
   Payloads and fragments above 1024 bytes are not written out in the case files
   (coqc needs > 100 us per numeral): the input payload is a pattern computed in
   Coq, and the implementation's data is reported by the harness as
   (length, 63-bit FNV-1a digest), which is compared with the digest of the
   model's bytes.  Primitive 63-bit integers are used for that digest only. *)

(* Z <-> int for the small values used here (PrimInt63 only: loading Uint63 costs more than all cases) *)
Fixpoint int_of_pos (p : positive) : int :=
  match p with
  | xH => 1%uint63
  | xO q => PrimInt63.lsl (int_of_pos q) 1
  | xI q => PrimInt63.lor (PrimInt63.lsl (int_of_pos q) 1) 1
  end.
Definition int_of_Z (z : Z) : int := match z with Zpos p => int_of_pos p | _ => 0%uint63 end.
Fixpoint Z_of_int_bits (n : nat) (i : int) : Z :=
  match n with
  | O => 0
  | S n' => (if PrimInt63.eqb (PrimInt63.land i 1) 0 then 0 else 1) + 2 * Z_of_int_bits n' (PrimInt63.lsr i 1)
  end.
Definition byte_of_int (i : int) : Z := Z_of_int_bits 8 (PrimInt63.land i 255).

Fixpoint patb' (n : nat) (x : int) : bytes :=
  match n with
  | O => []
  | S n' => byte_of_int (PrimInt63.lsr x 33)
            :: patb' n' (PrimInt63.add (PrimInt63.mul x 6364136223846793005) 1442695040888963407)
  end.
Definition patb (seed len : Z) : bytes := patb' (Z.to_nat len) (int_of_Z seed).

Definition fnv (b : bytes) : int :=
  fold_left (fun h x => PrimInt63.mul (PrimInt63.lxor h (int_of_Z x)) 1099511628211) b 1469598103934665603%uint63.

Inductive odata : Type := Raw (b : bytes) | Dig (len h : Z).

Definition od_matches (b : bytes) (o : odata) : bool :=
  match o with
  | Raw b' => bytes_eqb b b'
  | Dig l h => (blen b =? l) && PrimInt63.eqb (fnv b) (int_of_Z h)
  end.
Definition od_len (o : odata) : Z := match o with Raw b => blen b | Dig l _ => l end.

(* observed counterparts of frag / wire / obs *)
Record ofrag : Type := mkofrag {
  of_rid : Z; of_sn : Z; of_start : Z; of_nsub : Z; of_fsize : Z; of_dsize : Z; of_data : odata }.
Inductive owire : Type := VData (rid sn : Z) (d : odata) | VFrag (fr : ofrag) | VGap (sn : Z).
Inductive oobs : Type :=
| VSent (ws : list owire)
| VCount (n : Z)
| VReply (x : option (acknack * option nackfrag))
| VResp (ws : list owire) (n : Z).

Record C05_case : Type := mkC05 {
  c_rel : bool; c_nreaders : Z; c_f : Z;
  c_ops : list op;
  c_fair : bool;   (* the schedule ends with enough loss-free repair rounds: everything must arrive *)
  c_out : res (list oobs * list (Z * odata))
}.

(* ---------------------------------------------------------------- equality *)

Definition frag_matches (a : frag) (b : ofrag) : bool :=
  (fr_rid a =? of_rid b) && (fr_sn a =? of_sn b) && (fr_start a =? of_start b) &&
  (fr_nsub a =? of_nsub b) && (fr_fsize a =? of_fsize b) && (fr_dsize a =? of_dsize b) &&
  od_matches (fr_data a) (of_data b).

Definition wire_matches (a : wire) (b : owire) : bool :=
  match a, b with
  | WData r s p, VData r' s' p' => (r =? r') && (s =? s') && od_matches p p'
  | WFrag x, VFrag y => frag_matches x y
  | WGap s, VGap s' => s =? s'
  | _, _ => false
  end.

Fixpoint list_matches {A B} (e : A -> B -> bool) (a : list A) (b : list B) : bool :=
  match a, b with
  | [], [] => true
  | x :: a', y :: b' => e x y && list_matches e a' b'
  | _, _ => false
  end.

Definition opt_eqb {A} (e : A -> A -> bool) (a b : option A) : bool :=
  match a, b with
  | None, None => true
  | Some x, Some y => e x y
  | _, _ => false
  end.

Definition ack_eqb (a b : acknack) : bool :=
  (a_base a =? a_base b) && bytes_eqb (a_set a) (a_set b) && (a_count a =? a_count b).
Definition nf_eqb (a b : nackfrag) : bool :=
  (n_sn a =? n_sn b) && (n_base a =? n_base b) && bytes_eqb (n_set a) (n_set b) && (n_count a =? n_count b).
Definition reply_eqb (a b : acknack * option nackfrag) : bool :=
  ack_eqb (fst a) (fst b) && opt_eqb nf_eqb (snd a) (snd b).

Definition obs_matches (a : obs) (b : oobs) : bool :=
  match a, b with
  | BSent x, VSent y => list_matches wire_matches x y
  | BCount n, VCount m => n =? m
  | BReply x, VReply y => opt_eqb reply_eqb x y
  | BResp x n, VResp y m => list_matches wire_matches x y && (n =? m)
  | _, _ => false
  end.

Definition change_matches (a : Z * bytes) (b : Z * odata) : bool := (fst a =? fst b) && od_matches (snd a) (snd b).

Definition C05_run (c : C05_case) : res (list obs * list (Z * bytes)) :=
  x <- run (s_init (c_rel c) (c_nreaders c) (c_f c)) (c_ops c) ;;
  Ok (snd x, r_changes (s_r (fst x))).

Definition C05_model_ok (c : C05_case) : bool :=
  match C05_run c, c_out c with
  | Ok (o, ch), Ok (o', ch') => list_matches obs_matches o o' && list_matches change_matches ch ch'
  | Panic _, Panic _ => true
  | Err a, Err b => a =? b
  | _, _ => false
  end.

(* ------------------------------------------------------------------ oracle
   The property, judged on the IMPLEMENTATION's trace only (no model run). *)

(* sns a hand-made fragment speaks for: no claim is made about those *)
Fixpoint foreign_sns (ops : list op) : list Z :=
  match ops with
  | [] => []
  | OForeign fr :: t => fr_sn fr :: foreign_sns t
  | _ :: t => foreign_sns t
  end.

Definition zmem (x : Z) (l : list Z) : bool := existsb (Z.eqb x) l.

(* (1) byte identity and order: every change the reader holds for a written sn carries exactly the
   written payload; sns strictly increase (no duplicate delivery) *)
Fixpoint identical_from (ws : list bytes) (foreign : list Z) (prev : Z) (ch : list (Z * odata)) : bool :=
  match ch with
  | [] => true
  | (sn, d) :: t =>
      (prev <? sn) &&
      (if zmem sn foreign then true
       else match nth_written ws sn with Some p => od_matches p d | None => false end) &&
      identical_from ws foreign sn t
  end.

(* (2) what a writer emits for one sample towards one reader: DATA with p, or fragments numbered
   1..ceil(len/f), each of f bytes but the last, announcing f and len, concatenating to p *)
Fixpoint frags_ok (rid sn f len : Z) (k : Z) (ws : list owire) (rest : bytes) : option (list owire) :=
  (* consumes the fragments k, k+1, ... of this sample; returns the remaining wire items *)
  match ws with
  | VFrag fr :: t =>
      if (of_rid fr =? rid) && (of_sn fr =? sn) && (of_start fr =? k) && (of_nsub fr =? 1)
         && (of_fsize fr =? f) && (of_dsize fr =? len)
         && od_matches (firstn (Z.to_nat f) rest) (of_data fr) && (0 <? od_len (of_data fr))
      then
        let rest' := skipn (Z.to_nat f) rest in
        match rest' with
        | [] => Some t
        | _ => frags_ok rid sn f len (k + 1) t rest'
        end
      else None
  | _ => None
  end.

Definition sent_ok_one (rid sn f : Z) (p : bytes) (ws : list owire) : option (list owire) :=
  if blen p <=? f then
    match ws with
    | VData r s d :: t => if (r =? rid) && (s =? sn) && od_matches p d then Some t else None
    | _ => None
    end
  else frags_ok rid sn f (blen p) 1 ws p.

Definition sent_ok (nreaders sn f : Z) (p : bytes) (ws : list owire) : bool :=
  match sent_ok_one 1 sn f p ws with
  | Some t =>
      if 2 <=? nreaders then
        match sent_ok_one 2 sn f p t with Some [] => true | _ => false end
      else match t with [] => true | _ => false end
  | None => false
  end.

Definition frag_numbers (ws : list owire) : list Z :=
  flat_map (fun w => match w with VFrag fr => [of_start fr] | _ => [] end) ws.

Definition subset (a b : list Z) : bool := forallb (fun x => zmem x b) a.

(* walk ops and observations together; `part` selects the clause that is judged
     0: (2) what the writer emits per sample
     1: (4)+(3) for the reader's own NACK_FRAG fed back to the writer
     2: (3) for forged NACK_FRAGs
   sn = next sequence number, last = highest NACK_FRAG count the writer has been given so far,
   reply = the reader's last reply as the implementation produced it *)
Fixpoint walk (part : Z) (rel : bool) (nreaders f : Z) (ws : list bytes) (ops : list op) (os : list oobs)
         (sn last : Z) (reply : option (acknack * option nackfrag)) : bool :=
  match ops, os with
  | [], [] => true
  | OWrite p :: t, VSent x :: t' =>
      ((negb (part =? 0)) || sent_ok nreaders sn f p x) && walk part rel nreaders f ws t t' (sn + 1) last reply
  | ODeliver _ _ _ :: t, VCount _ :: t' => walk part rel nreaders f ws t t' sn last reply
  | OForeign _ :: t, VCount _ :: t' => walk part rel nreaders f ws t t' sn last reply
  | OHb _ _ _ _ :: t, VReply x :: t' =>
      walk part rel nreaders f ws t t' sn last (match x with Some y => Some y | None => reply end)
  | ONackFrag :: t, VResp x _ :: t' =>
      (* (4) a NACK_FRAG the reader produced must not be filtered as a duplicate when the writer has
         processed no NACK_FRAG before, and (3) the fragments resent are the requested ones *)
      ((negb (part =? 1)) ||
       match reply with
       | Some (_, Some nf) =>
           if rel && (last =? 0) then
             match nth_written ws (n_sn nf) with
             | Some p =>
                 if (n_sn nf <? sn) && (f <? blen p) then
                   subset (filter (fun n => (1 <=? n) && (n <=? div_ceil (blen p) f)) (n_set nf)) (frag_numbers x)
                   && subset (frag_numbers x) (n_base nf :: n_set nf)
                 else true
             | None => true
             end
           else true
       | _ => true
       end)
      && walk part rel nreaders f ws t t' sn
              (match reply with Some (_, Some nf) => Z.max last (Z.max 1 (n_count nf)) | _ => last end) reply
  | OForged count s base set :: t, VResp x _ :: t' =>
      (* (3) NACK_FRAG numbering: a fresh NACK_FRAG for fragments N of an available fragmented sample is
         answered with exactly the fragments N (as a set; the base may be answered as well) *)
      ((negb (part =? 2)) ||
       (if rel && (last <? count) then
          match nth_written ws s with
          | Some p =>
              if (s <? sn) && (f <? blen p) then
                subset (filter (fun n => (1 <=? n) && (n <=? div_ceil (blen p) f)) set) (frag_numbers x)
                && subset (frag_numbers x) (base :: set)
              else true
          | None => true
          end
        else true))
      && walk part rel nreaders f ws t t' sn (Z.max last count) reply
  | OAckNack :: t, VResp _ _ :: t' => walk part rel nreaders f ws t t' sn last reply
  | _, _ => false
  end.

Definition all_delivered (ws : list bytes) (ch : list (Z * odata)) : bool :=
  list_matches change_matches (combine (map (fun k => Z.of_nat k + 1) (seq 0 (length ws))) ws) ch.

Definition o_identity (c : C05_case) : bool :=
  match c_out c with
  | Ok (_, ch) => identical_from (written (c_ops c)) (foreign_sns (c_ops c)) 0 ch
  | _ => true
  end.
Definition o_part (part : Z) (c : C05_case) : bool :=
  match c_out c with
  | Ok (os, _) => walk part (c_rel c) (c_nreaders c) (c_f c) (written (c_ops c)) (c_ops c) os 1 0 None
  | _ => true
  end.
Definition o_sent (c : C05_case) : bool := o_part 0 c.     (* (2) emission *)
Definition o_nack (c : C05_case) : bool := o_part 1 c.     (* (4) first NACK_FRAG processed, answered right *)
Definition o_forged (c : C05_case) : bool := o_part 2 c.   (* (3) NACK_FRAG numbering *)
Definition o_fair (c : C05_case) : bool :=
  match c_out c with
  | Ok (_, ch) => if c_fair c then all_delivered (written (c_ops c)) ch else true
  | _ => true
  end.
Definition o_nopanic (c : C05_case) : bool := match c_out c with Panic _ => false | _ => true end.

Definition C05_oracle_ok (c : C05_case) : bool :=
  o_nopanic c && o_identity c && o_sent c && o_forged c && o_nack c && o_fair c.

(* ------------------------------------------------------- known-finding classes
   none: the six defects found by this check (C05-nackfrag-count-zero, C05-nackfrag-off-by-one,
   C05-fragsize-zero-div, C05-nackfrag-bitmap-overflow, C05-mixed-readerid-truncation,
   C05-nackfrag-none-missing-panic) are repaired in /repo; their witnesses are regression cases *)
Definition C05_known (c : C05_case) : N := 0%N.
