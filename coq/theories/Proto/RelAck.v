(* C03 — completion of wait_for_acknowledgments in the stage-1 class (KEEP_ALL, unfragmented, no
   removal, no deletion).  Once the reader has everything (highest_received >= last sequence number),
   one more heartbeat period and any loss-free delivery that drains the network leave the writer with
   highest_acked >= last; and in the class a caller can only be parked while the acknowledgement test
   fails, so nobody is parked any more. *)
From DustDDS Require Import Base.Machine Proto.RelModel Proto.RelProofs Proto.RelSound Proto.RelLive.
Open Scope Z_scope.

(* acknowledged, or: the newest heartbeat is on its way or processed, and once it is processed the newest
   ACKNACK, whose base is beyond the last sample, is on its way and not yet processed by the writer *)
Definition AOk (s : state) (p : rproxy) (w : wproxy) : Prop :=
  s_last s <= rp_ha p \/
  (0 < rp_hbc p /\
   (wp_hb w = rp_hbc p \/ hb_in_net (rp_hbc p) (s_net s)) /\
   (wp_hb w = rp_hbc p ->
      rp_an p < wp_an w /\ (exists d, In d (s_net s) /\ ack_in (wp_an w) d) /\
      (forall d b set, In d (s_net s) -> In (SAck b set (wp_an w)) (dg_subs d) -> s_last s <= b - 1))).

(* the reader has everything *)
Definition RDone (s : state) : Prop :=
  forall p r w, s_rp s = Some p -> rp_rel p = true -> s_rd s = Some r -> rd_wp r = Some w -> s_last s <= wp_hr w.

Definition AInv2 (s : state) : Prop :=
  forall p r w, s_rp s = Some p -> rp_rel p = true -> s_rd s = Some r -> rd_wp r = Some w -> AOk s p w.

Lemma A_poke cf s : Live true cf s -> AInv2 s -> AInv2 (poke cf s).
Proof.
  intros [HC HL] HG q r w Eq Hrelq Er Ew.
  pose proof HC as (HS & HN & [A1 A2 A3]). destruct HL as (L1 & L2 & L3 & L4 & L5).
  rewrite poke_rd in Er. unfold poke in *.
  destruct (s_rp s) as [p|] eqn:Ep; [|congruence].
  destruct A3 as (Hfr & Hhs & Hreq & Hnet & Hrd).
  pose proof (write_message_static cf (s_now s) (s_changes s) p) as Hst.
  unfold write_message in *. destruct (rp_rel p) eqn:Erel.
  2:{ destruct (write_be_loop _ _ _ _ _) as [p1 out]. cbn [fst] in Hst. cbn in Eq. injection Eq as <-.
      apply static_fr in Hst. destruct Hst as (_ & Hr & _). congruence. }
  destruct (L5 p r w eq_refl Erel Er Ew) as [K1 K2 K3 K4 K5 K6 K7 K8].
  pose proof (write_rel_live (s_last s) cf (s_now s) (s_changes s) p) as H. rewrite A1 in H.
  specialize (H A2). rewrite <- A1 in H. specialize (H L2 Hhs K2 Hreq). lazy zeta in H.
  pose proof (write_rel_an cf (s_now s) (s_changes s) p) as Han.
  pose proof (write_rel_ha cf (s_now s) (s_changes s) p) as Hha.
  destruct (write_rel cf (s_now s) (s_changes s) p) as [p1 out]. cbn [fst snd] in *. cbn in Eq. injection Eq as <-.
  destruct H as (W1 & W2 & W3 & W4 & _).
  specialize (HG p r w Ep Erel Er Ew). unfold AOk in *. cbn [s_last s_net send set_rp set_net].
  rewrite Hha. cbn [s_rdead set_rp].
  assert (Hfil : filter (fun d => negb (dg_toR d && s_rdead s)) out = out).
  { rewrite L3. clear. induction out as [|x t IH]; cbn; [reflexivity|]. rewrite andb_false_r. cbn. f_equal. assumption. }
  rewrite Hfil.
  destruct HG as [HD|(G0 & GA & GC)]; [left; exact HD|].
  destruct (Z.eq_dec (rp_hbc p) (rp_hbc p1)) as [Eh|Nh].
  - right. rewrite <- Eh, Han. split; [assumption|]. split.
    + destruct GA as [GA|(d & f & l & Hd & Hs)]; [left; assumption|right]. exists d, f, l. split; [apply in_or_app; left; assumption|assumption].
    + intros Hp. destruct (GC Hp) as (C1 & (d & Hd & Hk) & C3). split; [assumption|]. split.
      * exists d. split; [apply in_or_app; left; assumption|assumption].
      * intros d' b set Hd' Hs'. apply in_app_or in Hd'. destruct Hd' as [Hd'|Hd']; [eapply C3; eassumption|].
        exfalso. rewrite Forall_forall in W3. destruct (W3 d' Hd') as [_ Hsub]. rewrite Forall_forall in Hsub.
        specialize (Hsub _ Hs'). exact Hsub.
  - right. split; [lia|]. split.
    + right. apply (has_hb_in (rp_hbc p1) (s_last s) out); [apply W4; lia|]. intros d Hd. apply in_or_app. right. assumption.
    + intros Hp. lia.
Qed.

Lemma RDone_poke cf s : RDone s -> RDone (poke cf s).
Proof.
  intros H q r w Eq Hrel Er Ew. rewrite poke_rd in Er.
  destruct (core_proj _ _ (poke_core cf s)) as (_ & C2 & _). rewrite C2.
  destruct (s_rp s) as [p|] eqn:Ep; [|rewrite poke_rp_none in Eq by assumption; congruence].
  destruct (poke_rp_some cf s p Ep) as [q' [Eq' Hst]]. assert (q' = q) by congruence. subst q'.
  apply static_fr in Hst. destruct Hst as (_ & Hr & _). apply (H p r w); try assumption; congruence.
Qed.

Lemma on_acknack_ha cf now chs p base set count :
  rp_ha p <= rp_ha (fst (fst (on_acknack cf now chs p base set count))) /\
  (rp_rel p = true -> rp_an p < count -> base - 1 <= rp_ha (fst (fst (on_acknack cf now chs p base set count)))).
Proof.
  unfold on_acknack. destruct (rp_rel p) eqn:Erel; cbn [andb]; [|cbn; split; [lia|discriminate]].
  destruct (Z.ltb_spec (rp_an p) count) as [Hacc|Hn]; [|cbn; split; [lia|intros _ H; lia]].
  match goal with |- context [write_rel cf now chs ?q] =>
    pose proof (write_rel_ha cf now chs q) as Hha; destruct (write_rel cf now chs q) as [p2 out] end.
  cbn [fst] in *. rewrite Hha. cbn. destruct (Z.ltb_spec (rp_ha p) (base - 1)); split; intros; lia.
Qed.

Lemma A_deliver cf s i d : Live true cf s -> ShInv s -> AInv2 s -> RDone s -> s_last s <= 256 ->
  nth_error (s_net s) i = Some d ->
  AInv2 (deliver_dgram cf (set_net s (remove_nth i (s_net s))) d) /\
  RDone (deliver_dgram cf (set_net s (remove_nth i (s_net s))) d).
Proof.
  intros [HC HL] [Hsh Hfrags] HG HR H256 Ei.
  pose proof HC as (HS & HN & [A1 A2 A3]). destruct HL as (L1 & L2 & L3 & L4 & L5).
  assert (Hd : In d (s_net s)) by (eapply nth_error_In; eassumption).
  assert (Hshd : nshape d) by (rewrite Forall_forall in Hsh; auto).
  set (rest := remove_nth i (s_net s)) in *.
  assert (Hrest : forall x, In x rest -> In x (s_net s)) by (intros x Hx; eapply remove_nth_in; exact Hx).
  assert (Hother : forall x, In x (s_net s) -> x <> d -> In x rest) by (intros x Hx Hne; eapply in_remove_nth_other; eassumption).
  assert (Both : forall q r' w', s_rp (deliver_dgram cf (set_net s rest) d) = Some q -> rp_rel q = true ->
             s_rd (deliver_dgram cf (set_net s rest) d) = Some r' -> rd_wp r' = Some w' ->
             AOk (deliver_dgram cf (set_net s rest) d) q w' /\ s_last (deliver_dgram cf (set_net s rest) d) <= wp_hr w').
  2:{ split; intros q r' w' Eq Hq Er' Ew'; apply (Both q r' w' Eq Hq Er' Ew'). }
  intros q r' w' Eq Hrelq Er' Ew'.
  unfold deliver_dgram in *. destruct (dg_toR d) eqn:Edir.
  - (* towards the reader *)
    cbn [s_rdead s_rd set_net] in *. rewrite L3 in *.
    destruct (s_rd s) as [r|] eqn:Er; [|cbn in Er'; congruence].
    rewrite (L4 r eq_refl) in *.
    destruct (deliver_subs_R cf r (dg_subs d) []) as [r1 out] eqn:E.
    cbn [s_rp s_rd send set_rd set_net] in Eq, Er'. injection Er' as <-.
    destruct (rd_wp r) as [w|] eqn:Ew.
    2:{ rewrite (deliver_subs_R_nowp cf r (dg_subs d) [] Ew) in E. inversion E; subst. congruence. }
    destruct (deliver_R_shape cf r w d r1 out Ew (Hfrags r w eq_refl Ew) Hshd Edir E) as (w1 & B1 & B2 & B3 & Hcase).
    assert (w' = w1) by congruence. subst w'.
    rewrite Eq in A3. destruct A3 as (Hfr & Hhs & Hreq & Hnet & Hrd).
    unfold ROk in Hrd. rewrite Ew in Hrd. destruct Hrd as ((R1 & R2 & R3 & R4) & Hrr & Hrc).
    destruct (L5 q r w Eq Hrelq eq_refl Ew) as [K1 K2 K3 K4 K5 K6 K7 K8].
    assert (Hlsub : Forall (lsub (rp_hbc q) (s_last s) (wp_an w)) (dg_subs d)).
    { rewrite Forall_forall in K8. apply (K8 d Hd). }
    pose proof (HR q r w Eq Hrelq Er Ew) as Hdone.
    specialize (HG q r w Eq Hrelq Er Ew). unfold AOk in *.
    cbn [s_last s_net send set_rd set_net s_rdead]. rewrite L3.
    assert (Hfil : forall o, filter (fun d0 => negb (dg_toR d0 && false)) o = o).
    { clear. induction o as [|x t IH]; cbn; [reflexivity|]. rewrite andb_false_r. cbn. f_equal. assumption. }
    rewrite Hfil. split; [|lia].
    destruct HG as [HD|(G0 & GA & GC)]; [left; exact HD|].
    right. split; [assumption|].
    destruct Hcase as [(C1 & C2 & C3 & -> & C5)|(f & l & c & C0 & C1 & C2 & C3 & C4 & ->)].
    + rewrite C1, C2, app_nil_r. split.
      * destruct GA as [GA|(d0 & f0 & l0 & Hd0 & Hs0)]; [left; assumption|].
        destruct (dgram_eq_dec d0 d) as [->|Hne].
        -- left. destruct (C5 f0 l0 _ Hs0) as [Hle|Hle]; [lia|].
           rewrite Forall_forall in Hlsub. pose proof (Hlsub _ Hs0) as Hq. cbn in Hq. lia.
        -- right. exists d0, f0, l0. split; [apply Hother; assumption|assumption].
      * intros Hp. destruct (GC Hp) as (D1 & (d0 & Hd0 & Hk0) & D3). split; [assumption|]. split.
        -- exists d0. split; [|assumption]. apply Hother; [assumption|]. intros ->.
           destruct Hk0 as [b [set Hk0]]. eapply shape_toR_no_ack; eassumption.
        -- intros d' b set Hd' Hs'. eapply D3; [apply Hrest; eassumption|eassumption].
    + rewrite Forall_forall in Hlsub. pose proof (Hlsub _ C0) as Hl. cbn in Hl. destruct Hl as (Hf1 & Hc1 & Hc2). subst f.
      rewrite C2, C3. split.
      * destruct (Z.eq_dec c (rp_hbc q)) as [->|Hne]; [left; reflexivity|].
        destruct GA as [GA|(d0 & f0 & l0 & Hd0 & Hs0)]; [lia|]. right. exists d0, f0, l0. split; [|assumption].
        apply in_or_app. left. apply Hother; [assumption|]. intros ->.
        destruct (shape_one_hb d _ _ _ _ _ _ Hshd C0 Hs0) as (_ & _ & E3). congruence.
      * intros Hp. split; [lia|]. split.
        -- eexists. split; [apply in_or_app; right; left; reflexivity|]. eexists _, _. left. reflexivity.
        -- intros d' b set Hd' Hs'. apply in_app_or in Hd'. destruct Hd' as [Hd'|[<-|[]]].
           ++ exfalso. rewrite Forall_forall in K8. specialize (K8 d' (Hrest _ Hd')). unfold ldg in K8. rewrite Forall_forall in K8.
              specialize (K8 _ Hs'). cbn in K8. lia.
           ++ cbn in Hs'. destruct Hs' as [Hs'|[]]. inversion Hs'; subst. lia.
  - (* towards the writer: one ACKNACK *)
    destruct Hshd; cbn in Edir; try discriminate. cbn [dg_subs toW fold_left] in *.
    assert (Hrd : s_rd (deliver_sub_W cf (set_net s rest) (SAck b set cnt)) = s_rd s) by (rewrite deliver_sub_W_rd; reflexivity).
    rewrite Hrd in Er'.
    unfold deliver_sub_W in *. cbn [s_rp set_net s_now s_changes s_last] in *.
    destruct (s_rp s) as [p|] eqn:Ep; [|cbn in Eq; congruence].
    destruct A3 as (Hfr & Hhs & Hreq & Hnet & Hrdk).
    assert (Hstat : rp_rel p = true).
    { pose proof (on_acknack_static cf (s_now s) (s_changes s) p b set cnt) as Hst.
      destruct (on_acknack cf (s_now s) (s_changes s) p b set cnt) as [[p1 o] sm]. cbn [fst] in Hst.
      apply static_fr in Hst. destruct Hst as (_ & Hr & _).
      destruct (sm && _); cbn in Eq; injection Eq as <-; congruence. }
    destruct (L5 p r' w' eq_refl Hstat Er' Ew') as [K1 K2 K3 K4 K5 K6 K7 K8].
    assert (Hnd : ndg (rp_fr p) (s_last s) (hr_of s) (toW [SAck b set cnt])) by (rewrite Forall_forall in Hnet; auto).
    unfold ndg in Hnd. cbn in Hnd. apply Forall_inv in Hnd. cbn in Hnd. destruct Hnd as [Hset _].
    assert (Hld : ldg (rp_hbc p) (s_last s) (wp_an w') (toW [SAck b set cnt])) by (rewrite Forall_forall in K8; auto).
    unfold ldg in Hld. cbn in Hld. apply Forall_inv in Hld. cbn in Hld. rename Hld into Hcnt.
    pose proof (on_acknack_G (s_last s) cf (s_now s) (s_changes s) p b set cnt) as H. rewrite A1 in H.
    specialize (H A2). rewrite <- A1 in H. specialize (H L2 Hstat Hhs K2 Hreq Hset). lazy zeta in H.
    pose proof (on_acknack_ha cf (s_now s) (s_changes s) p b set cnt) as [Hha1 Hha2].
    destruct (on_acknack cf (s_now s) (s_changes s) p b set cnt) as [[p1 out] sm]. cbn [fst snd] in *.
    destruct H as (W1 & W2 & W2' & W3 & W4 & W5 & W6).
    assert (Hq : q = p1) by (destruct (sm && _); cbn in Eq; congruence). subst q.
    pose proof (HR p r' w' Ep Hstat Er' Ew') as Hdone.
    specialize (HG p r' w' Ep Hstat Er' Ew'). unfold AOk in *.
    assert (Hnet' : s_net (if sm && is_acked (Some p1) (s_last s)
                   then set_waits (send (set_rp (set_net s rest) (Some p1)) out) (drain (s_waits (send (set_rp (set_net s rest) (Some p1)) out)))
                   else send (set_rp (set_net s rest) (Some p1)) out) = rest ++ out).
    { destruct (sm && _); cbn; rewrite L3;
        (assert (Hfil : forall o, filter (fun d0 => negb (dg_toR d0 && false)) o = o)
           by (clear; induction o as [|x t IH]; cbn; [reflexivity|]; rewrite andb_false_r; cbn; f_equal; assumption));
        rewrite Hfil; reflexivity. }
    assert (Hlast' : s_last (if sm && is_acked (Some p1) (s_last s)
                   then set_waits (send (set_rp (set_net s rest) (Some p1)) out) (drain (s_waits (send (set_rp (set_net s rest) (Some p1)) out)))
                   else send (set_rp (set_net s rest) (Some p1)) out) = s_last s) by (destruct (sm && _); reflexivity).
    rewrite Hnet', Hlast'. split; [|assumption].
    destruct HG as [HD|(G0 & GA & GC)]; [left; lia|].
    destruct (Z.le_gt_cases (s_last s) (rp_ha p1)) as [Hack|Hnack]; [left; assumption|].
    right.
    destruct (Z.eq_dec (rp_hbc p) (rp_hbc p1)) as [Eh|Nh].
    + rewrite <- Eh. split; [assumption|]. split.
      * destruct GA as [GA|(d0 & f0 & l0 & Hd0 & Hs0)]; [left; assumption|right]. exists d0, f0, l0. split; [|assumption].
        apply in_or_app. left. apply Hother; [assumption|]. intros ->. cbn in Hs0. destruct Hs0 as [Hs0|[]]. discriminate.
      * intros Hp. destruct (GC Hp) as (D1 & (d0 & Hd0 & Hk0) & D3).
        assert (Hne : cnt <> wp_an w').
        { intros ->. assert (Hb : s_last s <= b - 1) by (eapply D3; [exact Hd|left; reflexivity]).
          specialize (Hha2 Hstat D1). lia. }
        split; [rewrite W4; destruct (rp_an p <? cnt); lia|]. split.
        -- exists d0. split; [|assumption]. apply in_or_app. left. apply Hother; [assumption|]. intros ->.
           destruct Hk0 as [b0 [set0 [Hk0|[]]]]. inversion Hk0; subst. congruence.
        -- intros d' b' set' Hd' Hs'. apply in_app_or in Hd'. destruct Hd' as [Hd'|Hd']; [eapply D3; [apply Hrest; eassumption|eassumption]|].
           exfalso. rewrite Forall_forall in W2. destruct (W2 d' Hd') as [_ Hsub]. rewrite Forall_forall in Hsub.
           specialize (Hsub _ Hs'). exact Hsub.
    + split; [lia|]. split.
      * right. apply (has_hb_in (rp_hbc p1) (s_last s) out); [apply W3; lia|]. intros x Hx. apply in_or_app. right. assumption.
      * intros Hp. lia.
Qed.

Definition Heal2 (cf : cfg) (s : state) : Prop :=
  Live true cf s /\ ShInv s /\ AInv2 s /\ RDone s /\ s_last s <= 256.

Lemma Heal2_poke cf s : Live true cf s -> ShInv s -> AInv2 s -> RDone s -> s_last s <= 256 -> Heal2 cf (poke cf s).
Proof.
  intros HL HS HG HR H256. split; [apply Live_poke with (b := true); assumption|]. split.
  - apply Sh_poke; [destruct HL as [_ (_ & L2 & _)]; assumption|assumption].
  - split; [apply A_poke; assumption|]. split; [apply RDone_poke; assumption|].
    destruct (core_proj _ _ (poke_core cf s)) as (_ & C2 & _). lia.
Qed.

Lemma Heal2_deliver cf s i d : Heal2 cf s -> nth_error (s_net s) i = Some d ->
  Heal2 cf (poke cf (deliver_dgram cf (set_net s (remove_nth i (s_net s))) d)).
Proof.
  intros (HL & HS & HG & HR & H256) E.
  assert (Hd : In d (s_net s)) by (eapply nth_error_In; eassumption).
  assert (Hrest : forall x, In x (remove_nth i (s_net s)) -> In x (s_net s)) by (intros x Hx; eapply remove_nth_in; exact Hx).
  destruct (core_proj _ _ (deliver_dgram_core cf (set_net s (remove_nth i (s_net s))) d)) as (C1 & C2 & _).
  destruct (A_deliver cf s i d HL HS HG HR H256 E) as [HA HR'].
  apply Heal2_poke; try assumption.
  - apply Live_deliver; assumption.
  - apply Sh_deliver.
    + cbn. destruct HL as [_ (_ & L2 & _)]. assumption.
    + destruct HS as [X Y]. split; [apply Forall_remove_nth; assumption|assumption].
    + destruct HS as [X _]. rewrite Forall_forall in X. auto.
  - rewrite C2. assumption.
Qed.

Lemma Heal2_pump cf fuel : forall s n, Heal2 cf s -> Heal2 cf (fst (pump fuel cf s n)).
Proof.
  induction fuel as [|f IH]; intros s n H; cbn [pump]; [assumption|].
  destruct (s_net s) as [|d t] eqn:En; [assumption|].
  apply IH. pose proof (Heal2_deliver cf s 0 d H) as Hd. rewrite En in Hd. cbn in Hd. apply Hd. reflexivity.
Qed.

Lemma Heal2_step cf s a : is_delivery a = true -> Heal2 cf s -> Heal2 cf (fst (step cf s a)).
Proof.
  intros Ha H. destruct a; try discriminate; unfold step; cbn [act].
  - destruct (nth_error (s_net s) i) as [d|] eqn:E; cbn [fst].
    + exact (Heal2_deliver cf s i d H E).
    + destruct H as (A & B & C & D & F). apply Heal2_poke; assumption.
  - pose proof (Heal2_pump cf pump_fuel s 0 H) as Hp. destruct (pump pump_fuel cf s 0) as [s1 n]. cbn [fst] in *.
    destruct Hp as (A & B & C & D & F). apply Heal2_poke; assumption.
Qed.

Lemma Heal2_run cf l : forallb is_delivery l = true -> forall s, Heal2 cf s -> Heal2 cf (run cf s l).
Proof.
  induction l as [|a t IH]; intros Hl s H; [exact H|]. cbn in Hl. apply andb_prop in Hl. destruct Hl as [Ha Ht].
  rewrite run_cons. apply IH; [assumption|]. apply Heal2_step; assumption.
Qed.

Lemma Heal2_quiescent cf s : Heal2 cf s -> s_net s = [] ->
  forall p r w, s_rp s = Some p -> rp_rel p = true -> s_rd s = Some r -> rd_wp r = Some w ->
    s_last s <= rp_ha p /\ ackd s = true.
Proof.
  intros (_ & _ & HG & _ & _) Hnet p r w Ep Erel Er Ew.
  assert (Hha : s_last s <= rp_ha p).
  { destruct (HG p r w Ep Erel Er Ew) as [HD|(G0 & GA & GC)]; [assumption|].
    exfalso. rewrite Hnet in *. destruct GA as [GA|(d & f & l & [] & _)].
    destruct (GC GA) as (_ & (d & [] & _) & _). }
  split; [assumption|]. unfold ackd, is_acked. rewrite Ep, Erel. cbn. apply negb_true_iff. apply Z.ltb_ge. assumption.
Qed.

Definition Stale2 (b : Z) (s : state) : Prop :=
  forall p r w, s_rp s = Some p -> rp_rel p = true -> s_rd s = Some r -> rd_wp r = Some w ->
    AOk s p w \/ rp_hbt p <= b.

Lemma tick_stale2 cf s b : depth cf = 0 -> Live true cf s -> ShInv s -> Stale2 b s ->
  Stale2 b (fst (step cf s ATick)) /\ (hb_period <= s_now s + tick_ms - b -> AInv2 (fst (step cf s ATick))).
Proof.
  intros Hd HL HSh HSt. rewrite step_tick.
  pose proof (Live_tick_state cf s Hd HL) as HL1. set (s1 := tick_state s) in *.
  assert (Key : forall q r w, s_rp (poke cf s1) = Some q -> rp_rel q = true -> s_rd (poke cf s1) = Some r -> rd_wp r = Some w ->
            AOk (poke cf s1) q w \/ (rp_hbt q <= b /\ ~ hb_period <= s_now s + tick_ms - b)).
  { intros q r w Eq Hrelq Er Ew. rewrite poke_rd in Er.
    pose proof HL1 as [HC1 (L1 & L2 & L3 & L4 & L5)]. pose proof HC1 as (HS1 & HN1 & [A1 A2 A3]).
    destruct (s_rp s1) as [p|] eqn:Ep; [|rewrite poke_rp_none in Eq by assumption; congruence].
    destruct (poke_rp_some cf s1 p Ep) as [q' [Eq' Hst]]. assert (q' = q) by congruence. subst q'.
    apply static_fr in Hst. destruct Hst as (Hfr1 & Hrel1 & _).
    assert (Hrel : rp_rel p = true) by congruence.
    destruct (HSt p r w Ep Hrel Er Ew) as [HG|Hb].
    - left. assert (HG1 : AInv2 s1).
      { intros p2 r2 w2 E2 _ Er2 Ew2. assert (p2 = p) by congruence. assert (r2 = r) by congruence. subst p2 r2.
        assert (w2 = w) by congruence. subst w2. exact HG. }
      apply (A_poke cf s1 HL1 HG1 q r w); try assumption. rewrite poke_rd. assumption.
    - destruct A3 as (Hfr & Hhs & Hreq & Hnet & Hrd).
      destruct (L5 p r w eq_refl Hrel Er Ew) as [K1 K2 K3 K4 K5 K6 K7 K8].
      unfold poke in Eq. rewrite Ep in Eq. unfold write_message in Eq. rewrite Hrel in Eq.
      pose proof (write_rel_live (s_last s1) cf (s_now s1) (s_changes s1) p) as H. rewrite A1 in H.
      specialize (H A2). rewrite <- A1 in H. specialize (H L2 Hhs K2 Hreq). lazy zeta in H.
      pose proof (write_rel_ha cf (s_now s1) (s_changes s1) p) as Hha.
      unfold poke. rewrite Ep. unfold write_message. rewrite Hrel.
      destruct (write_rel cf (s_now s1) (s_changes s1) p) as [p1 out]. cbn [fst snd] in *. cbn in Eq. injection Eq as <-.
      destruct H as (W1 & W2 & W3 & W4 & W5 & _ & W7 & _).
      destruct (Z.le_gt_cases (s_last s1) (rp_ha p)) as [HD|HnD].
      { left. left. cbn [s_last send set_rp set_net]. rewrite Hha. exact HD. }
      destruct W5 as [[Eh Et]|[Hlt Et]].
      + right. split; [lia|]. intros Hdue. assert (rp_hbc p < rp_hbc p1); [|lia].
        apply W7; [apply K1; reflexivity|lia|]. cbn [s_now s1 tick_state]. lia.
      + left. right. cbn [s_net s_last send set_rp]. split; [lia|]. split.
        * right. apply (has_hb_in (rp_hbc p1) (s_last s1) out); [apply W4; assumption|].
          intros x Hx. apply in_or_app. right. apply filter_In. split; [assumption|]. cbn [s_rdead set_rp]. rewrite L3, andb_false_r. reflexivity.
        * intros Hp. lia. }
  split.
  - intros q r w Eq Hrelq Er Ew. destruct (Key q r w Eq Hrelq Er Ew) as [H|[H _]]; [left|right]; assumption.
  - intros Hdue q r w Eq Hrelq Er Ew. destruct (Key q r w Eq Hrelq Er Ew) as [H|[_ H]]; [assumption|contradiction].
Qed.

Lemma RDone_tick cf s : RDone s -> RDone (fst (step cf s ATick)).
Proof.
  intros H. rewrite step_tick. apply RDone_poke. intros p r w Ep Hrel Er Ew. apply (H p r w Ep Hrel Er Ew).
Qed.

Lemma five_ticks_heal2 cf s : 0 < fsz cf -> depth cf = 0 -> Live true cf s -> ShInv s -> RDone s -> s_last s <= 256 ->
  Heal2 cf (run cf s five_ticks).
Proof.
  intros Hf Hd HL HS HR H256.
  assert (Step : forall s0 b, Live true cf s0 -> ShInv s0 -> Stale2 b s0 -> RDone s0 ->
            let s1 := fst (step cf s0 ATick) in
            Live true cf s1 /\ ShInv s1 /\ Stale2 b s1 /\ RDone s1 /\ s_now s1 = s_now s0 + tick_ms /\ s_last s1 = s_last s0 /\
            (hb_period <= s_now s0 + tick_ms - b -> AInv2 s1)).
  { intros s0 b HL0 HS0 HSt0 HR0. cbn zeta.
    destruct (tick_stale2 cf s0 b Hd HL0 HS0 HSt0) as [T1 T2].
    split; [apply Live_step; [assumption|assumption|reflexivity|assumption]|].
    split; [apply (Sh_step cf s0 ATick Hf Hd eq_refl); [destruct HL0 as [_ (_ & L2 & _)]; assumption|assumption]|].
    split; [assumption|]. split; [apply RDone_tick; assumption|]. rewrite step_tick.
    destruct (core_proj _ _ (poke_core cf (tick_state s0))) as (_ & C2 & _ & _ & C5).
    split; [rewrite C5; reflexivity|]. split; [rewrite C2; reflexivity|]. rewrite <- step_tick. assumption. }
  assert (HSt0 : Stale2 (s_now s) s).
  { intros p r w Ep Hrel Er Ew. right. destruct HL as [_ (_ & _ & _ & _ & L5)]. destruct (L5 p r w Ep Hrel Er Ew). assumption. }
  unfold five_ticks. rewrite !run_cons. cbn [run run_out fst].
  destruct (Step s (s_now s) HL HS HSt0 HR) as (L1 & S1 & T1 & R1 & N1 & E1 & _).
  destruct (Step _ (s_now s) L1 S1 T1 R1) as (L2 & S2 & T2 & R2 & N2 & E2 & _).
  destruct (Step _ (s_now s) L2 S2 T2 R2) as (L3 & S3 & T3 & R3 & N3 & E3 & _).
  destruct (Step _ (s_now s) L3 S3 T3 R3) as (L4 & S4 & T4 & R4 & N4 & E4 & G4).
  assert (HG4 : AInv2 (fst (step cf (fst (step cf (fst (step cf (fst (step cf s ATick)) ATick)) ATick)) ATick))).
  { apply G4. unfold hb_period, tick_ms in *. lia. }
  set (s4 := fst (step cf (fst (step cf (fst (step cf (fst (step cf s ATick)) ATick)) ATick)) ATick)) in *.
  assert (HSt4 : Stale2 (s_now s4 - 1000) s4).
  { intros p r w Ep Hrel Er Ew. left. exact (HG4 p r w Ep Hrel Er Ew). }
  destruct (Step s4 (s_now s4 - 1000) L4 S4 HSt4 R4) as (L5 & S5 & T5 & R5 & N5 & E5 & G5).
  split; [assumption|]. split; [assumption|]. split; [apply G5; unfold hb_period, tick_ms; lia|]. split; [assumption|]. lia.
Qed.

(* ACKNOWLEDGEMENT, stage 1: from a class state in which the reader has everything, a heartbeat period
   and any loss-free delivery that drains the network leave the writer with everything acknowledged *)
Theorem acked_after_heal cf sched dels :
  0 < fsz cf -> depth cf = 0 -> forallb (live_act cf) sched = true -> forallb is_delivery dels = true ->
  let s1 := run cf init sched in
  RDone s1 ->
  let s := run cf s1 (five_ticks ++ dels) in
  s_last s <= 256 -> s_net s = [] ->
  forall p r w, s_rp s = Some p -> rp_rel p = true -> s_rd s = Some r -> rd_wp r = Some w ->
    s_last s <= rp_ha p /\ ackd s = true.
Proof.
  intros Hf Hd Hs Hdel s1 HR s H256 Hnet. subst s. rewrite run_app in *.
  assert (HL0 : Live true cf s1) by (apply Live_run; [assumption|assumption|assumption|apply Live_init]).
  destruct (ShInv_run cf sched Hf Hd Hs init) as [HS0 _]; [intros c []|apply ShInv_init|]. fold s1 in HS0.
  assert (Hlast : s_last s1 <= 256).
  { pose proof (run_last cf dels (run cf s1 five_ticks)). pose proof (run_last cf five_ticks s1). lia. }
  pose proof (five_ticks_heal2 cf s1 Hf Hd HL0 HS0 HR Hlast) as H5.
  pose proof (Heal2_run cf dels Hdel _ H5) as Hend.
  apply (Heal2_quiescent cf _ Hend Hnet).
Qed.

(* ------------------------------------------------------------------ parked callers *)
(* a caller is parked only while the acknowledgement test fails: the wait list is re-evaluated whenever
   the test may have become true (an ACKNACK is accepted, the reader proxy is removed) *)
Definition PInv (s : state) : Prop := ackd s = true -> npend s = 0%nat.

Lemma PInv_ext s s' : PInv s -> s_waits s' = s_waits s -> (ackd s' = true -> ackd s = true) -> PInv s'.
Proof. intros H Hw Ha Hs'. unfold npend. rewrite Hw. apply H. apply Ha. assumption. Qed.

Lemma PInv_poke cf s : PInv s -> PInv (poke cf s).
Proof.
  intros H. unfold poke. destruct (s_rp s) as [p|] eqn:Ep; [|assumption].
  pose proof (write_message_ha cf (s_now s) (s_changes s) p) as Hha.
  pose proof (write_message_static cf (s_now s) (s_changes s) p) as Hst.
  destruct (write_message cf (s_now s) (s_changes s) p) as [p1 out]. cbn [fst] in *.
  apply static_fr in Hst. destruct Hst as (_ & Hrel & _).
  eapply PInv_ext; [exact H|reflexivity|]. unfold ackd; cbn. rewrite Ep. unfold is_acked. rewrite Hrel, Hha. auto.
Qed.

Lemma PInv_deliver_sub_W cf s m : PInv s -> PInv (deliver_sub_W cf s m).
Proof.
  intros H. unfold deliver_sub_W. destruct (s_rp s) as [p|] eqn:Ep; [|assumption].
  destruct m; try assumption.
  - unfold on_acknack. destruct (rp_rel p && (rp_an p <? count)) eqn:Eacc.
    + match goal with |- context [write_rel cf (s_now s) (s_changes s) ?q] =>
        destruct (write_rel cf (s_now s) (s_changes s) q) as [p2 out] end.
      cbn [andb]. destruct (is_acked (Some p2) (s_last s)) eqn:Ea.
      * intros _. unfold npend; cbn. apply npend_drain.
      * intros Hs'. unfold ackd in Hs'. cbn in Hs'. unfold is_acked in Ea. congruence.
    + cbn [andb]. eapply PInv_ext; [exact H|reflexivity|]. unfold ackd; cbn. rewrite Ep. auto.
  - pose proof (on_nackfrag_static cf (s_changes s) p sn base set count) as Hs.
    assert (Hha : rp_ha (fst (on_nackfrag cf (s_changes s) p sn base set count)) = rp_ha p).
    { unfold on_nackfrag. destruct (rp_rel p && _); [|reflexivity]. destruct (find_change sn (s_changes s)); reflexivity. }
    destruct (on_nackfrag cf (s_changes s) p sn base set count) as [p1 out]. cbn [fst] in *.
    apply static_fr in Hs. destruct Hs as (_ & Hrel & _).
    eapply PInv_ext; [exact H|reflexivity|]. unfold ackd; cbn. rewrite Ep. unfold is_acked. rewrite Hrel, Hha. auto.
Qed.

Lemma PInv_deliver_dgram cf s d : PInv s -> PInv (deliver_dgram cf s d).
Proof.
  intros H. unfold deliver_dgram. destruct (dg_toR d).
  - destruct (s_rdead s); [assumption|]. destruct (s_rd s) as [r|]; [|assumption]. destruct (rd_alive r); [|assumption].
    destruct (deliver_subs_R _ _ _ _). eapply PInv_ext; [exact H|reflexivity|auto].
  - revert s H. induction (dg_subs d) as [|m t IH]; intros s H; cbn [fold_left]; [assumption|].
    apply IH. apply PInv_deliver_sub_W. assumption.
Qed.

Lemma PInv_pump cf fuel : forall s n, PInv s -> PInv (fst (pump fuel cf s n)).
Proof.
  induction fuel as [|f IH]; intros s n H; cbn [pump]; [assumption|].
  destruct (s_net s) as [|d t]; [assumption|].
  apply IH. apply PInv_poke. apply PInv_deliver_dgram. eapply PInv_ext; [exact H|reflexivity|auto].
Qed.

Lemma PInv_step cf s a : PInv s -> PInv (fst (step cf s a)).
Proof.
  intros H. unfold step.
  assert (H1 : PInv (fst (act cf s a))).
  { destruct a; cbn [act].
    - pose proof (do_write_frame cf s key len sum) as (F1 & _ & _ & _ & _ & F6 & _).
      pose proof (do_write_spec cf s key len sum) as Hw.
      destruct (do_write cf s key len sum) as [s1 code]. cbn [fst snd] in *.
      destruct Hw as [[-> _]|[chs1 (_ & _ & W3 & _)]]; [assumption|].
      eapply PInv_ext; [exact H|assumption|]. unfold ackd. rewrite F1, W3. unfold is_acked.
      destruct (s_rp s) as [p|]; [|auto]. destruct (rp_rel p); [|auto]. cbn.
      intros E. apply negb_true_iff in E. apply Z.ltb_ge in E. apply negb_true_iff. apply Z.ltb_ge. lia.
    - eapply PInv_ext; [exact H|reflexivity|auto].
    - eapply PInv_ext; [exact H|reflexivity|auto].
    - destruct (nth_error (s_net s) i); [|assumption]. cbn [fst]. apply PInv_deliver_dgram.
      eapply PInv_ext; [exact H|reflexivity|auto].
    - destruct (nth_error (s_net s) i); [|assumption]. cbn [fst]. eapply PInv_ext; [exact H|reflexivity|auto].
    - destruct (nth_error (s_net s) i); [|assumption]. cbn [fst].
      apply PInv_deliver_dgram. apply PInv_poke. apply PInv_deliver_dgram. eapply PInv_ext; [exact H|reflexivity|auto].
    - pose proof (PInv_pump cf pump_fuel s 0 H) as Hp. destruct (pump pump_fuel cf s 0). exact Hp.
    - destruct (s_rd s) as [r|]; [|assumption]. destruct (rd_alive r); [|assumption]. cbn [fst].
      eapply PInv_ext; [exact H|reflexivity|auto].
    - destruct (s_rd s); [assumption|]. destruct (s_rdead s || match s_rp s with Some _ => true | None => false end) eqn:Eb; [assumption|].
      destruct (rxo_ok cf rel tl); cbn [fst].
      + apply PInv_poke. intros _. cbn.
        apply orb_false_iff in Eb. destruct Eb as [_ Eb]. destruct (s_rp s) eqn:Ep; [discriminate|].
        apply H. unfold ackd. rewrite Ep. reflexivity.
      + eapply PInv_ext; [exact H|reflexivity|auto].
    - intros _. unfold npend; cbn. apply npend_drain.
    - intros _. unfold npend; cbn. apply npend_drain.
    - destruct (is_acked (s_rp s) (s_last s)) eqn:Ea; cbn [fst].
      + intros _. unfold npend; cbn. rewrite filter_app, app_length. cbn. rewrite Nat.add_0_r. apply H. exact Ea.
      + intros Hs'. unfold ackd in Hs'. cbn in Hs'. congruence.
    - destruct (poll (s_waits s)) as [wl o] eqn:Ep. cbn [fst]. intros Hs'. unfold npend; cbn.
      unfold poll in Ep. inversion Ep; subst.
      assert (Hl : forall l, length (filter (fun w => match w with WPending => true | _ => false end)
                 (map (fun w => match w with WDone => WReported | x => x end) l)) =
              length (filter (fun w => match w with WPending => true | _ => false end) l)).
      { induction l as [|x t IH]; [reflexivity|]. cbn. destruct x; cbn; lia. }
      rewrite Hl. apply H. exact Hs'.
    - destruct (s_rd s) as [r|]; [|assumption]. destruct (negb (rd_alive r)); [assumption|].
      destruct (negb (rd_tl r)); [assumption|]. destruct (hist_received _); cbn [fst]; (eapply PInv_ext; [exact H|reflexivity|auto]).
    - destruct (s_rd s) as [r|]; [|assumption]. destruct (poll (rd_hwaits r)). cbn [fst]. eapply PInv_ext; [exact H|reflexivity|auto].
    - assumption.
    - assumption. }
  destruct (act cf s a) as [s1 o]. cbn [fst] in *. apply PInv_poke. assumption.
Qed.

Lemma PInv_run cf l : forall s, PInv s -> PInv (run cf s l).
Proof.
  induction l as [|a t IH]; intros s H; [exact H|].
  rewrite run_cons. apply IH. apply PInv_step; assumption.
Qed.

Lemma PInv_init : PInv init.
Proof. intros _. reflexivity. Qed.

(* the reader has everything once phase 1 is over and some sample is relevant for it *)
Lemma Heal_quiescent_RDone cf s : Heal cf s -> s_net s = [] ->
  (forall p, s_rp s = Some p -> rp_fr p < s_last s) -> RDone s.
Proof.
  intros (_ & _ & HG & _) Hnet Hfr p r w Ep Hrel Er Ew.
  destruct (HG p r w Ep Hrel Er Ew) as [[HD|HD]|(G0 & GA & GC)]; [assumption|specialize (Hfr p Ep); lia|].
  exfalso. rewrite Hnet in *. destruct GA as [GA|(d & f & l & [] & _)].
  destruct (GC GA) as (_ & (d & [] & _) & _).
Qed.

(* COMPLETION, stage 1.  Class schedule (KEEP_ALL, unfragmented, no removal, no deletion, any faults),
   k + 1 healing rounds after which nothing is queued, one more healing round after which nothing is queued:
   for a matched RELIABLE pair with at least one relevant sample the acknowledgement test holds and no caller
   of wait_for_acknowledgments is parked any more. *)
Theorem wfa_completes_unfragmented cf sched k :
  0 < fsz cf -> depth cf = 0 -> forallb (live_act cf) sched = true ->
  let s1 := run cf init (sched ++ heal (S k)) in
  let s2 := run cf s1 heal_round in
  s_last s2 <= 256 -> s_net s1 = [] -> s_net s2 = [] ->
  (forall p, s_rp s1 = Some p -> rp_fr p < s_last s1) ->
  forall p r w, s_rp s2 = Some p -> rp_rel p = true -> s_rd s2 = Some r -> rd_wp r = Some w ->
    ackd s2 = true /\ npend s2 = 0%nat.
Proof.
  intros Hf Hd Hs s1 s2 H256 Hn1 Hn2 Hfr p r w Ep Hrel Er Ew.
  assert (Hcls : forallb (live_act cf) (sched ++ heal (S k)) = true) by (rewrite forallb_app, Hs, heal_live; reflexivity).
  assert (Hl1 : s_last s1 <= 256) by (pose proof (run_last cf heal_round s1) as X; fold s2 in X; lia).
  (* phase 1 *)
  assert (HR1 : RDone s1).
  { clear H256 Hn2 Ep Er. clearbody s2. clear s2. unfold s1 in *. rewrite heal_snoc in *.
    replace (sched ++ heal k ++ heal_round) with ((sched ++ heal k) ++ five_ticks ++ [APump]) in *
      by (rewrite <- !app_assoc; reflexivity).
    rewrite run_app, run_app in *.
    set (s0 := run cf init (sched ++ heal k)) in *.
    assert (Hc0 : forallb (live_act cf) (sched ++ heal k) = true) by (rewrite forallb_app, Hs, heal_live; reflexivity).
    assert (HL0 : Live true cf s0) by (apply Live_run; [assumption|assumption|assumption|apply Live_init]).
    destruct (ShInv_run cf (sched ++ heal k) Hf Hd Hc0 init) as [HS0 _]; [intros c []|apply ShInv_init|]. fold s0 in HS0.
    assert (Hlast : s_last s0 <= 256).
    { pose proof (run_last cf [APump] (run cf s0 five_ticks)). pose proof (run_last cf five_ticks s0). lia. }
    pose proof (five_ticks_heal cf s0 Hf Hd HL0 HS0 Hlast) as H5.
    pose proof (Heal_run cf [APump] eq_refl _ H5) as Hend.
    apply (Heal_quiescent_RDone cf _ Hend Hn1 Hfr). }
  (* phase 2 *)
  assert (Hack : s_last s2 <= rp_ha p /\ ackd s2 = true).
  { pose proof (acked_after_heal cf (sched ++ heal (S k)) [APump] Hf Hd Hcls eq_refl HR1) as H. lazy zeta in H.
    change (five_ticks ++ [APump]) with heal_round in H. fold s1 in H. fold s2 in H.
    apply (H H256 Hn2 p r w Ep Hrel Er Ew). }
  split; [apply Hack|].
  assert (HP : PInv s2).
  { unfold s2, s1. rewrite <- run_app. apply PInv_run. apply PInv_init. }
  apply HP. apply Hack.
Qed.

(* NO STALE WAITER, every configuration and EVERY schedule (faults, removals, deletion of the reader or of
   its participant): whenever the acknowledgement test holds, nobody is parked in wait_for_acknowledgments *)
Theorem wfa_no_stale_waiter cf sched :
  let s := run cf init sched in ackd s = true -> npend s = 0%nat.
Proof. intros s. apply (PInv_run cf sched init PInv_init). Qed.

(* in particular once the reader proxy is gone (the matched reader or its participant was deleted) every
   caller has been answered *)
Theorem wfa_completes_after_deletion cf sched :
  let s := run cf init sched in s_rp s = None -> npend s = 0%nat.
Proof.
  intros s Hp. apply (wfa_no_stale_waiter cf sched). unfold ackd. fold s. rewrite Hp. reflexivity.
Qed.
