(* C05 — model of DATA_FRAG production, reassembly and NACK_FRAG repair.
   Definitions only.  Transcribed from
     dds/src/rtps/cache_change.rs     as_data_frag_submessage
     dds/src/rtps/stateful_writer.rs  add_change/write_message_{reliable,best_effort},
                                      on_nack_frag_submessage_received, on_acknack_submessage_received
     dds/src/rtps/writer_proxy.rs     total_fragments_expected, push_data_frag,
                                      reconstruct_data_from_frag, received_change_set, missing_changes,
                                      write_message (ACKNACK + NACK_FRAG generation)
     dds/src/rtps/stateful_reader.rs  on_data_submessage, on_data_frag_submessage
     dds/src/rtps_messages/submessage_elements.rs  FragmentNumberSet::new (bitmap index)
   plus the heartbeat handling of dcps/.../communication_methods.rs (the caller of
   RtpsWriterProxy::write_message).
   Integers are Z; `as u16`/`as u32` casts are wrap_u16/wrap_u32; a Vec is a list in
   storage order.  Not modelled: locators, timestamps, inline QoS (always empty here),
   key_flag (always false), HEARTBEAT submessages inside the writer's datagrams (the
   harness feeds heartbeats explicitly).
   Follows /repo after the fix commits 9534038 46bd1ab f7fe2df d6a64f9 a2cc75b d077ac8 and
   1f8d93c (HEARTBEAT firstSN <= 0), 9291c1e (sn = i64::MAX), 84c5233 (fragments_in_submessage bound). *)
From DustDDS Require Export Base.Machine.
From Coq Require Export Sorted.
Open Scope Z_scope.

Definition bytes := list Z.
Definition blen (p : bytes) : Z := Z.of_nat (length p).

(* usize::div_ceil / u32::div_ceil for a non-zero divisor *)
Definition div_ceil (a b : Z) : Z := a / b + (if a mod b =? 0 then 0 else 1).

(* ---------------------------------------------------------------- DATA_FRAG *)

Record frag : Type := mkfrag {
  fr_rid : Z;      (* reader_id (an opaque code) *)
  fr_sn : Z;       (* writer_sn *)
  fr_start : Z;    (* fragment_starting_num, u32, 1-based on the wire *)
  fr_nsub : Z;     (* fragments_in_submessage, u16 *)
  fr_fsize : Z;    (* fragment_size, u16 *)
  fr_dsize : Z;    (* data_size, u32 *)
  fr_data : bytes  (* serialized_payload *)
}.

Fixpoint bytes_eqb (a b : bytes) : bool :=
  match a, b with
  | [], [] => true
  | x :: a', y :: b' => (x =? y) && bytes_eqb a' b'
  | _, _ => false
  end.

(* data[start..end] *)
Definition slice (p : bytes) (s e : Z) : bytes :=
  firstn (Z.to_nat (e - s)) (skipn (Z.to_nat s) p).

(* CacheChange::as_data_frag_submessage(reader_id, _, data_max_size_serialized = f, fragment_number = i) *)
Definition mk_data_frag (rid sn : Z) (p : bytes) (f i : Z) : frag :=
  mkfrag rid sn (wrap_u32 (i + 1)) 1 (wrap_u16 f) (wrap_u32 (blen p))
         (slice p (i * f) (Z.min ((i + 1) * f) (blen p))).

(* data-carrying submessages a writer emits *)
Inductive wire : Type :=
| WData (rid sn : Z) (p : bytes)
| WFrag (fr : frag)
| WGap (sn : Z).

Definition zseq (n : Z) : list Z := map Z.of_nat (seq 0 (Z.to_nat n)).

(* one reader proxy's share of add_change -> write_message: DATA, or all DATA_FRAGs 0..n *)
Definition send_change (rid f sn : Z) (p : bytes) : res (list wire) :=
  if f =? 0 then Panic 1 (* usize::div_ceil(0) *)
  else
    let n := div_ceil (blen p) f in
    if 1 <? n then Ok (map (fun i => WFrag (mk_data_frag rid sn p f i)) (zseq n))
    else Ok [WData rid sn p].

(* ------------------------------------------------------------------- writer *)

Record wstate : Type := mkW {
  w_f : Z;                      (* data_max_size_serialized *)
  w_rel : bool;                 (* reliability of the matched reader proxies *)
  w_nreaders : Z;               (* 1 or 2 matched reader proxies: R1 (rid 1), R2 (rid 2) *)
  w_changes : list (Z * bytes); (* history cache, sn = 1, 2, ... in order *)
  w_last_nf : Z;                (* R1 proxy: last_received_nack_frag_count *)
  w_last_an : Z                 (* R1 proxy: last_received_acknack_count *)
}.

Definition w_init (rel : bool) (nreaders f : Z) : wstate := mkW f rel nreaders [] 0 0.

Fixpoint lookup (sn : Z) (l : list (Z * bytes)) : option bytes :=
  match l with
  | [] => None
  | (s, p) :: t => if s =? sn then Some p else lookup sn t
  end.

Definition next_sn (w : wstate) : Z := Z.of_nat (length (w_changes w)) + 1.

Definition set_changes (w : wstate) (c : list (Z * bytes)) : wstate :=
  mkW (w_f w) (w_rel w) (w_nreaders w) c (w_last_nf w) (w_last_an w).
Definition set_last_nf (w : wstate) (c : Z) : wstate :=
  mkW (w_f w) (w_rel w) (w_nreaders w) (w_changes w) c (w_last_an w).
Definition set_last_an (w : wstate) (c : Z) : wstate :=
  mkW (w_f w) (w_rel w) (w_nreaders w) (w_changes w) (w_last_nf w) c.

(* add_change: the change is stored, then every matched reader proxy sends it *)
Definition w_write (w : wstate) (p : bytes) : res (wstate * list wire) :=
  let sn := next_sn w in
  a <- send_change 1 (w_f w) sn p ;;
  b <- (if 2 <=? w_nreaders w then send_change 2 (w_f w) sn p else Ok []) ;;
  Ok (set_changes w (w_changes w ++ [(sn, p)]), a ++ b).

(* on_nack_frag_submessage_received for a NACK_FRAG from R1:
   `set` is what FragmentNumberSet::set() yields (ascending members).  The requested numbers are the
   base once, then the other members; they are 1-based, the fragment index is n - 1 *)
Definition nack_requests (base : Z) (set : list Z) : list Z :=
  base :: filter (fun k => negb (k =? base)) set.

Definition w_on_nack_frag (w : wstate) (count sn base : Z) (set : list Z) : res (wstate * list wire) :=
  if w_rel w && (w_last_nf w <? count) then
    let w' := set_last_nf w count in
    match lookup sn (w_changes w) with
    | Some p =>
        if w_f w =? 0 then Panic 1
        else
          let n := div_ceil (blen p) (w_f w) in
          Ok (w', map (fun k => WFrag (mk_data_frag 1 sn p (w_f w) (k - 1)))
                      (filter (fun k => (1 <=? k) && (k <=? n)) (nack_requests base set)))
    | None => Ok (w', [WGap sn])
    end
  else Ok (w, []).

(* on_acknack_submessage_received for an ACKNACK from R1 followed by write_message_reliable:
   nothing is unsent (add_change sent everything); every requested sn, in ascending order, is
   answered by DATA, by fragment 0 ONLY (stateful_writer.rs:595), or by GAP *)
Fixpoint ack_resp (w : wstate) (set : list Z) : res (list wire) :=
  match set with
  | [] => Ok []
  | sn :: t =>
      x <- (match lookup sn (w_changes w) with
            | Some p =>
                if 0 <? sn then
                  if w_f w =? 0 then Panic 1
                  else Ok (if 1 <? div_ceil (blen p) (w_f w) then WFrag (mk_data_frag 1 sn p (w_f w) 0)
                           else WData 1 sn p)
                else Ok (WGap sn)
            | None => Ok (WGap sn)
            end) ;;
      y <- ack_resp w t ;;
      Ok (x :: y)
  end.

Definition w_on_acknack (w : wstate) (count base : Z) (set : list Z) : res (wstate * list wire) :=
  if w_rel w && (w_last_an w <? count) then
    y <- ack_resp w set ;;
    Ok (set_last_an w count, y)
  else Ok (w, []).

(* the datagram that carried fragment idx of sample sn to reader `which` (None: no such datagram) *)
Definition datagram_of (w : wstate) (sn idx which : Z) : option wire :=
  if (1 <=? which) && (which <=? w_nreaders w) then
    match lookup sn (w_changes w) with
    | Some p =>
        if w_f w =? 0 then None
        else
          let n := div_ceil (blen p) (w_f w) in
          if 1 <? n then
            if (0 <=? idx) && (idx <? n) then Some (WFrag (mk_data_frag which sn p (w_f w) idx)) else None
          else if idx =? 0 then Some (WData which sn p) else None
    | None => None
    end
  else None.

(* ------------------------------------------------------------------- reader *)

Record rstate : Type := mkR {
  r_rel : bool;                  (* RtpsStatefulReader.reliability *)
  r_first : Z;                   (* first_available_seq_num *)
  r_last : Z;                    (* last_available_seq_num *)
  r_highest : Z;                 (* highest_received_change_sn *)
  r_buf : list frag;             (* frag_buffer *)
  r_must : bool;                 (* must_send_acknacks *)
  r_hbcount : Z;                 (* last_received_heartbeat_count *)
  r_ackcount : Z;                (* acknack_count *)
  r_nfcount : Z;                 (* nack_frag_count *)
  r_changes : list (Z * bytes)   (* RtpsStatefulReader.changes: (sn, data_value) *)
}.

Definition r_init (rel : bool) : rstate := mkR rel 1 0 0 [] false 0 0 0 [].

Definition available_changes_max (r : rstate) : Z := Z.max (r_first r - 1) (r_highest r).

(* total_fragments_expected (writer_proxy.rs:20): u32 `/` panics for fragment_size = 0 *)
Definition total_fragments_expected (fr : frag) : res Z :=
  if fr_fsize fr =? 0 then Panic 28
  else Ok (fr_dsize fr / fr_fsize fr + (if fr_dsize fr mod fr_fsize fr =? 0 then 0 else 1)).

Definition has_sn (sn : Z) (fr : frag) : bool := fr_sn fr =? sn.
Definition is_frag (sn n : Z) (fr : frag) : bool := (fr_sn fr =? sn) && (fr_start fr =? n).

(* push_data_frag: a fragment is identified by (writer_sn, fragment_starting_num) *)
Definition same_key (a b : frag) : bool := (fr_sn a =? fr_sn b) && (fr_start a =? fr_start b).
Definition push_frag (buf : list frag) (fr : frag) : list frag :=
  if existsb (same_key fr) buf then buf else buf ++ [fr].

(* for frag_number in from .. from+k : extend with the first buffered fragment of that number *)
Fixpoint collect (buf : list frag) (sn : Z) (k : nat) (from : Z) : bytes :=
  match k with
  | O => []
  | S k' =>
      (match find (is_frag sn from) buf with Some fr => fr_data fr | None => [] end)
        ++ collect buf sn k' (from + 1)
  end.

Definition sum_nsub (l : list frag) : Z := fold_left (fun acc fr => acc + fr_nsub fr) l 0.

(* reconstruct_data_from_frag: (payload of the rebuilt DATA if any, new frag_buffer) *)
Definition reconstruct (buf : list frag) (sn : Z) : res (option bytes * list frag) :=
  match find (has_sn sn) buf with
  | None => Ok (None, buf)
  | Some f0 =>
      e <- total_fragments_expected f0 ;;
      let total := sum_nsub (filter (has_sn sn) buf) in
      if u32_max <? total then Panic 2 (* u32 overflow of the sum, debug profile *)
      else if total =? e then
        let data := collect buf sn (Z.to_nat (total + 1)) 0 in
        match find (is_frag sn 1) buf with
        | None => Ok (None, buf)
        | Some _ => Ok (Some data, filter (fun fr => negb (has_sn sn fr)) buf)
        end
      else Ok (None, buf)
  end.

Definition r_set (r : rstate) (first highest : Z) (buf : list frag) (changes : list (Z * bytes)) : rstate :=
  mkR (r_rel r) first (r_last r) highest buf (r_must r) (r_hbcount r) (r_ackcount r) (r_nfcount r) changes.

(* received_change_set *)
Definition received_change_set (r : rstate) (sn : Z) : rstate :=
  r_set r (r_first r) (Z.max (r_highest r) sn) (filter (fun fr => sn <? fr_sn fr) (r_buf r)) (r_changes r).

(* on_data_submessage (payload p; try_from_data_submessage cannot fail without inline QoS) *)
Definition r_on_data (r : rstate) (sn : Z) (p : bytes) : rstate :=
  if sn =? i64_max then r (* i64::MAX is not accepted from the wire *) else
  let expected := available_changes_max r + 1 in
  if r_rel r then
    if sn =? expected then
      let r1 := received_change_set r sn in
      r_set r1 (r_first r1) (r_highest r1) (r_buf r1) (r_changes r1 ++ [(sn, p)])
    else r
  else
    if expected <=? sn then
      let r1 := received_change_set r sn in
      let first' := if expected <? sn then sn else r_first r1 in
      r_set r1 first' (r_highest r1) (r_buf r1) (r_changes r1 ++ [(sn, p)])
    else r.

(* on_data_frag_submessage *)
Definition r_on_frag (r : rstate) (fr : frag) : res rstate :=
  (* ignored: fragment size 0, sequence number i64::MAX, more fragments announced than the payload
     can hold (fragments_in_submessage > payload length + 1) *)
  if (fr_fsize fr =? 0) || (fr_sn fr =? i64_max) then Ok r else
  if blen (fr_data fr) + 1 <? fr_nsub fr then Ok r else
  let sn := fr_sn fr in
  let expected := available_changes_max r + 1 in
  let accept := if r_rel r then sn =? expected else expected <=? sn in
  let buf1 := if accept then push_frag (r_buf r) fr else r_buf r in
  x <- reconstruct buf1 sn ;;
  let r1 := r_set r (r_first r) (r_highest r) (snd x) (r_changes r) in
  match fst x with
  | Some d => Ok (r_on_data r1 sn d)
  | None => Ok r1
  end.

Definition r_deliver (r : rstate) (w : wire) : res rstate :=
  match w with
  | WData _ sn p => Ok (r_on_data r sn p)
  | WFrag fr => r_on_frag r fr
  | WGap _ => Ok r
  end.

Fixpoint r_deliver_all (r : rstate) (ws : list wire) : res rstate :=
  match ws with
  | [] => Ok r
  | w :: t => r1 <- r_deliver r w ;; r_deliver_all r1 t
  end.

(* ---- ACKNACK / NACK_FRAG generation (RtpsWriterProxy::write_message) *)

Fixpoint zrange (lo : Z) (n : nat) : list Z :=
  match n with O => [] | S n' => lo :: zrange (lo + 1) n' end.

(* missing_changes().take(256) *)
Definition missing256 (r : rstate) : list Z :=
  let lo := Z.max (r_first r) (r_highest r + 1) in
  let hi := Z.max (r_last r) (r_highest r) in
  zrange lo (Z.to_nat (Z.min 256 (hi - lo + 1))).
Definition any_missing (r : rstate) : bool :=
  Z.max (r_first r) (r_highest r + 1) <=? Z.max (r_last r) (r_highest r).

Fixpoint min_sn (buf : list frag) (acc : option Z) : option Z :=
  match buf with
  | [] => acc
  | fr :: t => min_sn t (match acc with None => Some (fr_sn fr) | Some m => Some (Z.min m (fr_sn fr)) end)
  end.

Fixpoint take_while (p : Z -> bool) (l : list Z) : list Z :=
  match l with [] => [] | x :: t => if p x then x :: take_while p t else [] end.

Record acknack : Type := mkAck { a_base : Z; a_set : list Z; a_count : Z }.
Record nackfrag : Type := mkNf { n_sn : Z; n_base : Z; n_set : list Z; n_count : Z }.

(* the NACK_FRAG part: first missing sn that has a buffered fragment *)
Definition gen_nackfrag (r : rstate) : res (option nackfrag) :=
  match find (fun s => existsb (has_sn s) (r_buf r)) (missing256 r) with
  | None => Ok None
  | Some s =>
      match find (has_sn s) (r_buf r) with
      | None => Panic 3 (* expect("Must exist") — unreachable *)
      | Some fr =>
          if fr_fsize fr =? 0 then Panic 299 (* u32::div_ceil(0) *)
          else
            let e := div_ceil (fr_dsize fr) (fr_fsize fr) in
            let miss := filter (fun n => negb (existsb (is_frag s n) (r_buf r)))
                               (zrange 1 (Z.to_nat e)) in
            (* base = first missing number, or 1 when none is missing; at most 256 numbers from it *)
            let b := match miss with [] => 1 | b :: _ => b end in
            Ok (Some (mkNf s b (take_while (fun n => n - b <? 256) miss) (r_nfcount r)))
      end
  end.

(* write_message: (new state, reply if one is sent) *)
Definition r_write_message (r : rstate) : res (rstate * option (acknack * option nackfrag)) :=
  if r_must r then
    let r1 := mkR (r_rel r) (r_first r) (r_last r) (r_highest r) (r_buf r) false (r_hbcount r)
                  (wrap_i32 (r_ackcount r + 1)) (wrap_i32 (r_nfcount r + 1)) (r_changes r) in
    let bound := match min_sn (r_buf r1) None with Some m => m | None => i64_max end in
    let ack := mkAck (available_changes_max r1 + 1)
                     (take_while (fun x => x <? bound) (missing256 r1)) (r_ackcount r1) in
    nf <- gen_nackfrag r1 ;;
    Ok (r1, Some (ack, nf))
  else Ok (r, None).

(* heartbeat handling of communication_methods.rs (liveliness flag false) *)
Definition r_on_heartbeat (r : rstate) (first last count : Z) (final : bool)
  : res (rstate * option (acknack * option nackfrag)) :=
  if first <=? 0 then Ok (r, None) (* a HEARTBEAT with firstSN <= 0 is ignored *) else
  if r_hbcount r <? count then
    let r1 := mkR (r_rel r) first last (r_highest r) (r_buf r) (r_must r) count
                  (r_ackcount r) (r_nfcount r) (r_changes r) in
    let must := negb final || any_missing r1 in
    let r2 := mkR (r_rel r1) (r_first r1) (r_last r1) (r_highest r1) (r_buf r1) must (r_hbcount r1)
                  (r_ackcount r1) (r_nfcount r1) (r_changes r1) in
    r_write_message r2
  else Ok (r, None).

(* ------------------------------------------------------------- the system *)

Inductive op : Type :=
| OWrite (p : bytes)
| ODeliver (sn idx which : Z)
| OForeign (fr : frag)
| OHb (first last count : Z) (final : bool)
| ONackFrag
| OForged (count sn base : Z) (set : list Z)
| OAckNack.

Inductive obs : Type :=
| BSent (ws : list wire)                               (* what the writer emitted *)
| BCount (n : Z)                                       (* number of changes the reader holds *)
| BReply (x : option (acknack * option nackfrag))      (* the reader's reply to a heartbeat *)
| BResp (ws : list wire) (n : Z).                      (* writer's response, then reader's count *)

Record sys : Type := mkS { s_w : wstate; s_r : rstate; s_reply : option (acknack * option nackfrag) }.

Definition s_init (rel : bool) (nreaders f : Z) : sys := mkS (w_init rel nreaders f) (r_init rel) None.

Definition nchanges (r : rstate) : Z := Z.of_nat (length (r_changes r)).

Definition respond (s : sys) (x : res (wstate * list wire)) : res (sys * obs) :=
  y <- x ;;
  r1 <- r_deliver_all (s_r s) (snd y) ;;
  Ok (mkS (fst y) r1 (s_reply s), BResp (snd y) (nchanges r1)).

Definition step (s : sys) (o : op) : res (sys * obs) :=
  match o with
  | OWrite p =>
      x <- w_write (s_w s) p ;;
      Ok (mkS (fst x) (s_r s) (s_reply s), BSent (snd x))
  | ODeliver sn idx which =>
      match datagram_of (s_w s) sn idx which with
      | Some w => r1 <- r_deliver (s_r s) w ;; Ok (mkS (s_w s) r1 (s_reply s), BCount (nchanges r1))
      | None => Ok (s, BCount (nchanges (s_r s)))
      end
  | OForeign fr =>
      r1 <- r_on_frag (s_r s) fr ;; Ok (mkS (s_w s) r1 (s_reply s), BCount (nchanges r1))
  | OHb first last count final =>
      x <- r_on_heartbeat (s_r s) first last count final ;;
      Ok (mkS (s_w s) (fst x) (match snd x with Some y => Some y | None => s_reply s end), BReply (snd x))
  | ONackFrag =>
      match s_reply s with
      | Some (_, Some nf) => respond s (w_on_nack_frag (s_w s) (n_count nf) (n_sn nf) (n_base nf) (n_set nf))
      | _ => respond s (Ok (s_w s, []))
      end
  | OForged count sn base set => respond s (w_on_nack_frag (s_w s) count sn base set)
  | OAckNack =>
      match s_reply s with
      | Some (a, _) => respond s (w_on_acknack (s_w s) (a_count a) (a_base a) (a_set a))
      | None => respond s (Ok (s_w s, []))
      end
  end.

Fixpoint run (s : sys) (ops : list op) : res (sys * list obs) :=
  match ops with
  | [] => Ok (s, [])
  | o :: t =>
      x <- step s o ;;
      y <- run (fst x) t ;;
      Ok (fst y, snd x :: snd y)
  end.

(* ------------------------------------------------- vocabulary of the statements *)

(* payloads written, in order: sample k (1-based) is the k-th OWrite *)
Fixpoint written (ops : list op) : list bytes :=
  match ops with
  | [] => []
  | OWrite p :: t => p :: written t
  | _ :: t => written t
  end.

Definition nth_written (ws : list bytes) (sn : Z) : option bytes :=
  if 1 <=? sn then nth_error ws (Z.to_nat (sn - 1)) else None.

(* operations of the fault-schedule language the theorems range over: payloads below 4 GiB and
   no hand-made fragments (everything else, including datagrams addressed to the other reader
   and forged NACK_FRAGs, is allowed) *)
Definition op_ok (o : op) : Prop :=
  match o with
  | OWrite p => blen p < two32
  | OForeign _ => False
  | _ => True
  end.

(* ---- vocabulary of the reassembly theorems *)

(* fragment sizes and payload lengths that fit the u16 / u32 wire fields *)
Definition frag_size_ok (f : Z) : Prop := 0 < f < 65536.
Definition payload_ok (p : bytes) : Prop := blen p < two32.

(* a DATA_FRAG the writer (fragment size f, history ch) really produced, for whichever reader *)
Definition genuine (f : Z) (ch : list (Z * bytes)) (fr : frag) : Prop :=
  exists rid p i, lookup (fr_sn fr) ch = Some p /\ 0 <= i < div_ceil (blen p) f /\
                  fr = mk_data_frag rid (fr_sn fr) p f i.

Definition history_ok (ch : list (Z * bytes)) : Prop :=
  forall sn p, lookup sn ch = Some p -> payload_ok p.

(* fragment number k (1-based) of sample sn is in the buffer *)
Definition present (buf : list frag) (sn k : Z) : Prop :=
  exists x, In x buf /\ fr_sn x = sn /\ fr_start x = k.

(* every fragment of sample (sn, p) is in the buffer *)
Definition complete (f : Z) (buf : list frag) (sn : Z) (p : bytes) : Prop :=
  forall i, 0 <= i < div_ceil (blen p) f -> present buf sn (i + 1).

Definition frag_key (x : frag) : Z * Z := (fr_sn x, fr_start x).

(* what a reader state may contain, relative to the writer's history ch: genuine fragments, one per
   (sequence number, fragment number), and changes that carry the written payloads with increasing
   sequence numbers *)
Record rinv (f : Z) (ch : list (Z * bytes)) (r : rstate) : Prop := mkrinv {
  ri_keys : NoDup (map frag_key (r_buf r));
  ri_genuine : forall x, In x (r_buf r) -> genuine f ch x;
  ri_changes : Forall (fun c => lookup (fst c) ch = Some (snd c) /\ fst c <= r_highest r) (r_changes r);
  ri_sorted : StronglySorted Z.lt (map fst (r_changes r))
}.

(* genuine data-carrying submessages of the writer *)
Definition wire_genuine (f : Z) (ch : list (Z * bytes)) (w : wire) : Prop :=
  match w with
  | WData _ sn p => lookup sn ch = Some p
  | WFrag fr => genuine f ch fr
  | WGap _ => True
  end.

Definition no_forged (o : op) : Prop := match o with OForged _ _ _ _ => False | _ => True end.

(* ---- vocabulary of the repair theorems *)

Definition only_sn (sn : Z) (buf : list frag) : Prop := forall x, In x buf -> fr_sn x = sn.

(* counters: what the writer has seen never exceeds what the reader has sent; N bounds both *)
Record cinv (N : Z) (s : sys) : Prop := mkcinv {
  ci_nf : 0 <= w_last_nf (s_w s) <= r_nfcount (s_r s);
  ci_an : 0 <= w_last_an (s_w s) <= r_ackcount (s_r s);
  ci_bound : r_nfcount (s_r s) <= N /\ r_ackcount (s_r s) <= N;
  ci_reply : forall a nfo, s_reply s = Some (a, nfo) ->
               a_count a <= r_ackcount (s_r s) /\ forall nf, nfo = Some nf -> n_count nf <= r_nfcount (s_r s)
}.

(* sample sn = p is written and fragmented, reliable reader matched to reliable writer, and the
   heartbeats announce it (sn <= last) *)
Record rep (sn : Z) (p : bytes) (last : Z) (s : sys) : Prop := mkrep {
  rp_s_f : frag_size_ok (w_f (s_w s));
  rp_s_h : history_ok (w_changes (s_w s));
  rp_s_r : rinv (w_f (s_w s)) (w_changes (s_w s)) (s_r s);
  rp_wrel : w_rel (s_w s) = true;
  rp_rrel : r_rel (s_r s) = true;
  rp_lk : lookup sn (w_changes (s_w s)) = Some p;
  rp_n : 1 < div_ceil (blen p) (w_f (s_w s));
  rp_sn : 1 <= sn < i64_max /\ sn <= last
}.

(* the reader still waits for sn: it is the first sample the heartbeat (first, _) leaves missing, the
   buffer holds an incomplete set of its fragments — ANY subset, possibly none: any loss pattern — and
   nothing else, and all fragment numbers below L are there (L = 1: no assumption) *)
Definition pending (sn : Z) (p : bytes) (first L : Z) (s : sys) : Prop :=
  Z.max first (r_highest (s_r s) + 1) = sn /\ available_changes_max (s_r s) + 1 = sn /\
  ~ complete (w_f (s_w s)) (r_buf (s_r s)) sn p /\ only_sn sn (r_buf (s_r s)) /\
  (forall k, 1 <= k < L -> k <= div_ceil (blen p) (w_f (s_w s)) -> present (r_buf (s_r s)) sn k).

(* one repair round: heartbeat; the reader's ACKNACK to the writer and the answer back; the reader's
   NACK_FRAG to the writer and the resent fragments back — nothing lost in the round *)
Definition round (first last c : Z) (final : bool) : list op := [OHb first last c final; OAckNack; ONackFrag].
Fixpoint rounds (first last c : Z) (final : bool) (k : nat) : list op :=
  match k with O => [] | S k' => round first last c final ++ rounds first last (c + 1) final k' end.

(* the byte-identity oracle on plain bytes (FragCorr.identical_from is the same walk over the
   harness' (bytes | digest) observations) *)
Fixpoint identicalb (ws : list bytes) (prev : Z) (ch : list (Z * bytes)) : bool :=
  match ch with
  | [] => true
  | (sn, d) :: t =>
      (prev <? sn) &&
      (match nth_written ws sn with Some p => bytes_eqb p d | None => false end) &&
      identicalb ws sn t
  end.
