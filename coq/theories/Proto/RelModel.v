(* C01-C04 — model of the RTPS reliability protocol between ONE data writer and ONE
   (possibly late, possibly deleted) data reader, together with the DCPS glue that the
   properties observe.  Definitions only.  Transcribed branch by branch from
     dds/src/rtps/stateful_writer.rs   add_change, remove_change, is_change_acknowledged,
                                       add_matched_reader, write_message_{best_effort,reliable},
                                       on_acknack_submessage_received, on_nack_frag_submessage_received
     dds/src/rtps/reader_proxy.rs      HeartbeatMachine, next_unsent_change, next_requested_change,
                                       requested_changes_set, acked_changes_set, unacked_changes
     dds/src/rtps/writer_proxy.rs      available_changes_max, irrelevant_change_set, lost_changes_update,
                                       missing_changes(_update), received_change_set, push_data_frag,
                                       reconstruct_data_from_frag, write_message (ACKNACK/NACK_FRAG),
                                       is_historical_data_received
     dds/src/rtps/stateful_reader.rs   on_data_submessage, on_data_frag_submessage
     dds/src/dcps/dcps_domain_participant/communication_methods.rs
                                       handle_data (submessage dispatch), handle_gap_submessage,
                                       handle_heartbeat_submessage, ACKNACK -> waiters, poke
     .../writer_methods.rs             write_w_timestamp (KEEP_LAST retention, blocking with
                                       max_blocking_time = 0), notify_acknowledgments
     .../data_writer_entity.rs         write_w_timestamp (sequence numbers, instance bookkeeping)
     .../discovery_methods.rs          add_matched_reader (first relevant sample), remove_discovered_reader,
                                       remove_discovered_participant
     .../reader_methods.rs             notify_historical_data
     dds_async/domain_participant_factory.rs   the worker loop: every event is followed by `poke`
   Integers are Z.  A Vec is a list in storage order.  Time is in milliseconds.
   Abstractions (stated, not hidden):
     * a payload is identified by (key, serialized length, checksum); a DATA_FRAG carries the
       identity of the change it was cut from and its 1-based fragment number (byte-level
       reassembly is the subject of C05, Proto/Frag*.v);
     * INFO_DST / INFO_TS submessages, GUIDs and locators are not represented (one pair);
     * the 32-bit wrap-around of the HEARTBEAT/ACKNACK counters is not represented;
     * all changes are ALIVE (the scenarios only write). *)
From DustDDS Require Export Base.Machine.
From Coq Require Export Sorted.
Open Scope Z_scope.

(* ------------------------------------------------------------------ vocabulary *)

Record change : Type := mkCh { c_sn : Z; c_key : Z; c_len : Z; c_sum : Z }.

Definition change_eqb (a b : change) : bool :=
  (c_sn a =? c_sn b) && (c_key a =? c_key b) && (c_len a =? c_len b) && (c_sum a =? c_sum b).

Inductive submsg : Type :=
| SData (c : change)                         (* DATA: writer_sn, serialized payload *)
| SFrag (c : change) (fnum : Z)              (* DATA_FRAG: fragment_starting_num = fnum, fragments_in_submessage = 1 *)
| SGap (start base : Z)                      (* GAP: gap_start, gap_list.base, empty bitmap *)
| SHb (first last count : Z)                 (* HEARTBEAT, final = false, liveliness = false *)
| SAck (base : Z) (set : list Z) (count : Z) (* ACKNACK *)
| SNack (sn base : Z) (set : list Z) (count : Z). (* NACK_FRAG *)

(* one UDP datagram on the user-traffic channel *)
Record dgram : Type := mkDg { dg_toR : bool; dg_subs : list submsg }.
Definition toR (l : list submsg) : dgram := mkDg true l.
Definition toW (l : list submsg) : dgram := mkDg false l.

(* writer-side configuration of a scenario *)
Record cfg : Type := mkCfg {
  fsz : Z;        (* data_max_size_serialized = transport fragment size *)
  w_rel : bool;   (* writer RELIABLE *)
  w_tl : bool;    (* writer TRANSIENT_LOCAL *)
  depth : Z       (* 0 = KEEP_ALL, d > 0 = KEEP_LAST(d) *)
}.

Definition hb_period : Z := 200.   (* RtpsStatefulWriter::new: Duration::from_millis(200) *)
Definition tick_ms : Z := 50.      (* the worker's poke_time *)

(* usize::div_ceil for a positive divisor *)
Definition div_ceil (a b : Z) : Z := a / b + (if a mod b =? 0 then 0 else 1).
Definition nfrags (cf : cfg) (c : change) : Z := div_ceil (c_len c) (fsz cf).

Fixpoint zmin_list (l : list Z) : option Z :=
  match l with
  | [] => None
  | x :: t => match zmin_list t with None => Some x | Some m => Some (Z.min x m) end
  end.
Fixpoint zmax_list (l : list Z) : option Z :=
  match l with
  | [] => None
  | x :: t => match zmax_list t with None => Some x | Some m => Some (Z.max x m) end
  end.
Definition zmem (x : Z) (l : list Z) : bool := existsb (Z.eqb x) l.
(* a ..= b *)
Definition zrange (a b : Z) : list Z := map (fun i => a + Z.of_nat i) (seq 0 (Z.to_nat (b - a + 1))).
Fixpoint take_while {A} (p : A -> bool) (l : list A) : list A :=
  match l with
  | [] => []
  | x :: t => if p x then x :: take_while p t else []
  end.

Definition sns (l : list change) : list Z := map c_sn l.
Definition find_change (sn : Z) (l : list change) : option change := find (fun c => c_sn c =? sn) l.
Definition first_sn (l : list change) : Z := match zmin_list (sns l) with Some m => m | None => 1 end.
Definition last_sn (l : list change) : Z := match zmax_list (sns l) with Some m => m | None => 0 end.

(* ------------------------------------------------------ writer: RtpsReaderProxy *)

Record rproxy : Type := mkRP {
  rp_rel : bool;      (* reliability of the matched reader *)
  rp_tl : bool;       (* durability of the matched reader is not VOLATILE *)
  rp_hs : Z;          (* highest_sent_seq_num *)
  rp_ha : Z;          (* highest_acked_seq_num *)
  rp_req : list Z;    (* requested_changes *)
  rp_fr : Z;          (* first_relevant_sample_seq_num *)
  rp_an : Z;          (* last_received_acknack_count *)
  rp_nf : Z;          (* last_received_nack_frag_count *)
  rp_hbc : Z;         (* heartbeat_machine.count *)
  rp_hbt : Z          (* heartbeat_machine.last_heartbeat_time (ms) *)
}.

Definition set_hs (p : rproxy) (n : Z) : rproxy :=
  mkRP (rp_rel p) (rp_tl p) (if rp_hs p <? n then n else rp_hs p) (rp_ha p) (rp_req p) (rp_fr p)
       (rp_an p) (rp_nf p) (rp_hbc p) (rp_hbt p).
Definition set_req (p : rproxy) (r : list Z) : rproxy :=
  mkRP (rp_rel p) (rp_tl p) (rp_hs p) (rp_ha p) r (rp_fr p) (rp_an p) (rp_nf p) (rp_hbc p) (rp_hbt p).

(* RtpsStatefulWriter::add_matched_reader *)
Definition new_rproxy (rel tl : bool) (chs : list change) : rproxy :=
  mkRP rel tl 0 0 [] (if tl then 0 else last_sn chs) 0 0 0 0.

(* HeartbeatMachine::generate_new_heartbeat(first_sn, last_sn, now) *)
Definition gen_hb (p : rproxy) (chs : list change) (now : Z) : rproxy * submsg :=
  (mkRP (rp_rel p) (rp_tl p) (rp_hs p) (rp_ha p) (rp_req p) (rp_fr p) (rp_an p) (rp_nf p)
        (rp_hbc p + 1) now,
   SHb (first_sn chs) (last_sn chs) (rp_hbc p + 1)).

Definition next_unsent (p : rproxy) (chs : list change) : option Z :=
  zmin_list (filter (fun s => rp_hs p <? s) (sns chs)).
Definition unacked (p : rproxy) (highest : option Z) : bool :=
  match highest with Some h => rp_ha p <? h | None => false end.
Definition time_for_hb (p : rproxy) (now : Z) : bool := hb_period <=? now - rp_hbt p.

(* the change is sent as DATA/DATA_FRAG only if it is held AND relevant for this reader *)
Definition lookup_relevant (p : rproxy) (n : Z) (chs : list change) : option change :=
  find (fun c => (c_sn c =? n) && (rp_fr p <? n)) chs.

(* first transmission of a fragmented change: fragments 1..k, the heartbeat rides on the last *)
Definition frag_dgrams (c : change) (k : Z) (last_extra : list submsg) : list dgram :=
  map (fun i => toR [SFrag c i]) (zrange 1 (k - 1)) ++ [toR (SFrag c k :: last_extra)].

(* write_message_reliable, top part: `while let Some(next_unsent)` *)
Fixpoint unsent_rel (fuel : nat) (cf : cfg) (now : Z) (chs : list change) (p : rproxy) (acc : list dgram)
  : rproxy * list dgram :=
  match fuel with
  | O => (p, acc)
  | S f =>
    match next_unsent p chs with
    | None => (p, acc)
    | Some n =>
      if rp_hs p + 1 <? n then
        let '(p1, hb) := gen_hb p chs now in
        (* only the hole is marked as sent: the change n itself is sent by the next iteration *)
        unsent_rel f cf now chs (set_hs p1 (n - 1)) (acc ++ [toR [SGap (rp_hs p + 1) n; hb]])
      else
        match lookup_relevant p n chs with
        | Some c =>
          let '(p1, hb) := gen_hb p chs now in
          if 1 <? nfrags cf c
          then unsent_rel f cf now chs (set_hs p1 n) (acc ++ frag_dgrams c (nfrags cf c) [hb])
          else unsent_rel f cf now chs (set_hs p1 n) (acc ++ [toR [SData c; hb]])
        | None => unsent_rel f cf now chs (set_hs p n) (acc ++ [toR [SGap n (n + 1)]])
        end
    end
  end.

(* write_message_reliable, middle part: `while let Some(next_requested_change)` *)
Fixpoint req_loop (fuel : nat) (cf : cfg) (now : Z) (chs : list change) (p : rproxy) (acc : list dgram)
  : rproxy * list dgram :=
  match fuel with
  | O => (p, acc)
  | S f =>
    match zmin_list (rp_req p) with
    | None => (p, acc)
    | Some n =>
      let p0 := set_req p (filter (fun s => negb (s =? n)) (rp_req p)) in
      match lookup_relevant p0 n chs with
      | Some c =>
        let '(p1, hb) := gen_hb p0 chs now in
        if 1 <? nfrags cf c
        then req_loop f cf now chs p1 (acc ++ [toR [SFrag c 1; hb]])   (* only fragment_number 0 is resent *)
        else req_loop f cf now chs p1 (acc ++ [toR [SData c; hb]])
      | None => req_loop f cf now chs p0 (acc ++ [toR [SGap n (n + 1)]])
      end
    end
  end.

Definition write_rel (cf : cfg) (now : Z) (chs : list change) (p : rproxy) : rproxy * list dgram :=
  let '(p1, out1) :=
    match next_unsent p chs with
    | Some _ => unsent_rel (S (2 * length chs)) cf now chs p []   (* a hole and a change per held change at most *)
    | None =>
      if negb (unacked p (zmax_list (sns chs))) then (p, [])
      else if time_for_hb p now then let '(p', hb) := gen_hb p chs now in (p', [toR [hb]])
      else (p, [])
    end in
  req_loop (S (length (rp_req p1))) cf now chs p1 out1.

(* write_message_best_effort *)
Fixpoint write_be_loop (fuel : nat) (cf : cfg) (chs : list change) (p : rproxy) (acc : list dgram)
  : rproxy * list dgram :=
  match fuel with
  | O => (p, acc)
  | S f =>
    match next_unsent p chs with
    | None => (p, acc)
    | Some n =>
      if rp_hs p + 1 <? n then
        (* only the hole is marked as sent: the change n itself is sent by the next iteration *)
        write_be_loop f cf chs (set_hs p (n - 1)) (acc ++ [toR [SGap (rp_hs p + 1) n]])
      else
        match lookup_relevant p n chs with
        | Some c =>
          if 1 <? nfrags cf c
          then write_be_loop f cf chs (set_hs p n) (acc ++ frag_dgrams c (nfrags cf c) [])
          else write_be_loop f cf chs (set_hs p n) (acc ++ [toR [SData c]])
        | None => write_be_loop f cf chs (set_hs p n) (acc ++ [toR [SGap n (n + 1)]])
        end
    end
  end.

(* RtpsReaderProxy::write_message *)
Definition write_message (cf : cfg) (now : Z) (chs : list change) (p : rproxy) : rproxy * list dgram :=
  if rp_rel p then write_rel cf now chs p else write_be_loop (S (2 * length chs)) cf chs p [].

(* requested_changes_set *)
Fixpoint req_add (req : list Z) (set : list Z) : list Z :=
  match set with
  | [] => req
  | s :: t => req_add (if zmem s req then req else req ++ [s]) t
  end.

(* on_acknack_submessage_received; the bool says "returned Some(_)" *)
Definition on_acknack (cf : cfg) (now : Z) (chs : list change) (p : rproxy) (base : Z) (set : list Z) (count : Z)
  : rproxy * list dgram * bool :=
  if rp_rel p && (rp_an p <? count) then
    let acked := base - 1 in
    let p1 := mkRP (rp_rel p) (rp_tl p) (rp_hs p) (if rp_ha p <? acked then acked else rp_ha p)
                   (req_add (rp_req p) set) (rp_fr p) count (rp_nf p) (rp_hbc p) (rp_hbt p) in
    let '(p2, out) := write_rel cf now chs p1 in
    (p2, out, true)
  else (p, [], false).

(* on_nack_frag_submessage_received: the base once, then the other members of the set; a requested
   1-based number n in 1..=number_of_fragments is answered with fragment index n-1, i.e. the
   DATA_FRAG whose fragment_starting_num is n *)
Definition on_nackfrag (cf : cfg) (chs : list change) (p : rproxy) (sn base : Z) (set : list Z) (count : Z)
  : rproxy * list dgram :=
  if rp_rel p && (rp_nf p <? count) then
    let p1 := mkRP (rp_rel p) (rp_tl p) (rp_hs p) (rp_ha p) (rp_req p) (rp_fr p) (rp_an p) count
                   (rp_hbc p) (rp_hbt p) in
    match find_change sn chs with
    | Some c =>
      (p1, flat_map (fun f => if (1 <=? f) && (f <=? nfrags cf c) then [toR [SFrag c f]] else [])
                    (base :: filter (fun n => negb (n =? base)) set))
    | None => (p1, [toR [SGap sn (sn + 1)]])
    end
  else (p, []).

(* is_change_acknowledged(sn) with at most one reader proxy *)
Definition is_acked (op : option rproxy) (sn : Z) : bool :=
  match op with
  | Some p => negb (rp_rel p && (rp_ha p <? sn))
  | None => true
  end.

(* ------------------------------------------------------ reader: RtpsWriterProxy *)

Record wproxy : Type := mkWP {
  wp_fa : Z;                     (* first_available_seq_num *)
  wp_la : Z;                     (* last_available_seq_num *)
  wp_hr : Z;                     (* highest_received_change_sn *)
  wp_hb : Z;                     (* last_received_heartbeat_count *)
  wp_an : Z;                     (* acknack_count *)
  wp_nf : Z;                     (* nack_frag_count *)
  wp_frags : list (change * Z)   (* frag_buffer: (change the fragment was cut from, fragment_starting_num) *)
}.

Definition new_wproxy : wproxy := mkWP 1 0 0 0 0 0 [].
Definition avail_max (w : wproxy) : Z := Z.max (wp_fa w - 1) (wp_hr w).
Definition missing (w : wproxy) : list Z :=
  zrange (Z.max (wp_fa w) (wp_hr w + 1)) (Z.max (wp_la w) (wp_hr w)).

Definition frag_sn (f : change * Z) : Z := c_sn (fst f).
(* push_data_frag identifies a fragment by (writer_sn, fragment_starting_num) *)
Definition frag_eqb (a b : change * Z) : bool := (frag_sn a =? frag_sn b) && (snd a =? snd b).

(* received_change_set *)
Definition received_set (w : wproxy) (sn : Z) : wproxy :=
  mkWP (wp_fa w) (wp_la w) (if wp_hr w <? sn then sn else wp_hr w) (wp_hb w) (wp_an w) (wp_nf w)
       (filter (fun f => sn <? frag_sn f) (wp_frags w)).
(* lost_changes_update *)
Definition set_fa (w : wproxy) (fa : Z) : wproxy :=
  mkWP fa (wp_la w) (wp_hr w) (wp_hb w) (wp_an w) (wp_nf w) (wp_frags w).
Definition set_frags (w : wproxy) (fr : list (change * Z)) : wproxy :=
  mkWP (wp_fa w) (wp_la w) (wp_hr w) (wp_hb w) (wp_an w) (wp_nf w) fr.

(* RtpsStatefulReader::on_data_submessage; returns the change pushed to `changes`, if any *)
Definition on_data (rel : bool) (w : wproxy) (c : change) : wproxy * option change :=
  let expected := avail_max w + 1 in
  if rel then
    if c_sn c =? expected then (received_set w (c_sn c), Some c) else (w, None)
  else
    if expected <=? c_sn c then
      let w1 := received_set w (c_sn c) in
      ((if expected <? c_sn c then set_fa w1 (c_sn c) else w1), Some c)
    else (w, None).

(* push_data_frag *)
Definition push_frag (w : wproxy) (f : change * Z) : wproxy :=
  if existsb (frag_eqb f) (wp_frags w) then w else set_frags w (wp_frags w ++ [f]).

(* reconstruct_data_from_frag *)
Definition reconstruct (cf : cfg) (w : wproxy) (sn : Z) : option (change * wproxy) :=
  match find (fun f => frag_sn f =? sn) (wp_frags w) with
  | None => None
  | Some f0 =>
    let expected := div_ceil (c_len (fst f0)) (fsz cf) in
    let total := Z.of_nat (length (filter (fun f => frag_sn f =? sn) (wp_frags w))) in
    if total =? expected then
      match find (fun f => (frag_sn f =? sn) && (snd f =? 1)) (wp_frags w) with
      | None => None
      | Some f1 => Some (fst f1, set_frags w (filter (fun f => negb (frag_sn f =? sn)) (wp_frags w)))
      end
    else None
  end.

(* RtpsStatefulReader::on_data_frag_submessage *)
Definition on_frag (cf : cfg) (rel : bool) (w : wproxy) (c : change) (fnum : Z) : wproxy * option change :=
  let expected := avail_max w + 1 in
  let w1 := if (if rel then c_sn c =? expected else expected <=? c_sn c) then push_frag w (c, fnum) else w in
  match reconstruct cf w1 (c_sn c) with
  | Some (d, w2) => on_data rel w2 d
  | None => (w1, None)
  end.

(* handle_gap_submessage: irrelevant_change_range(gap_start, base-1) (the bitmap is empty): the range is
   taken only if it is contiguous with what is already accounted for *)
Definition on_gap (w : wproxy) (start base : Z) : wproxy :=
  if (start <? base) && (start <=? avail_max w + 1) && (wp_hr w <? base - 1)
  then mkWP (wp_fa w) (wp_la w) (base - 1) (wp_hb w) (wp_an w) (wp_nf w) (wp_frags w)
  else w.

(* RtpsWriterProxy::write_message after must_send_acknacks was set: ACKNACK (+ NACK_FRAG) *)
Definition min_frag_sn (w : wproxy) : option Z := zmin_list (map frag_sn (wp_frags w)).
Definition acknack_of (cf : cfg) (w : wproxy) : wproxy * list submsg :=
  (* acknack_count and nack_frag_count both get a fresh value for every reply *)
  let w1 := mkWP (wp_fa w) (wp_la w) (wp_hr w) (wp_hb w) (wp_an w + 1) (wp_nf w + 1) (wp_frags w) in
  let miss := firstn 256 (missing w1) in
  let set := take_while (fun x => match min_frag_sn w1 with Some m => x <? m | None => true end) miss in
  let ack := SAck (avail_max w1 + 1) set (wp_an w1) in
  match find (fun s => existsb (fun f => frag_sn f =? s) (wp_frags w1)) miss with
  | Some s =>
    match find (fun f => frag_sn f =? s) (wp_frags w1) with
    | Some f0 =>
      let total := div_ceil (c_len (fst f0)) (fsz cf) in
      let miss_fr := filter (fun k => negb (existsb (fun f => (frag_sn f =? s) && (snd f =? k)) (wp_frags w1)))
                            (zrange 1 total) in
      (* base = first missing fragment number (1 if none is missing); at most 256 numbers from the base *)
      let base := match miss_fr with b :: _ => b | [] => 1 end in
      (w1, [ack; SNack s base (take_while (fun k => k - base <? 256) miss_fr) (wp_nf w1)])
    | None => (w1, [ack])
    end
  | None => (w1, [ack])
  end.

(* handle_heartbeat_submessage for one reader; final flag false => must_send_acknacks = true *)
Definition on_hb (cf : cfg) (w : wproxy) (first last count : Z) : wproxy * list dgram :=
  if wp_hb w <? count then
    let w1 := mkWP first last (wp_hr w) count (wp_an w) (wp_nf w) (wp_frags w) in
    let '(w2, subs) := acknack_of cf w1 in
    (w2, [toW subs])
  else (w, []).

(* is_historical_data_received of the (at most one) matched writer proxy *)
Definition hist_received (ow : option wproxy) : bool :=
  match ow with
  | Some w => (0 <? wp_hb w) && (match missing w with [] => true | _ => false end)
  | None => true
  end.

(* ------------------------------------------------------------------ whole state *)

Inductive wstat : Type := WPending | WDone | WReported.

Record reader : Type := mkRd {
  rd_alive : bool;             (* false once the reader has been deleted (kept for its ghost presented list) *)
  rd_rel : bool;               (* reader RELIABLE *)
  rd_tl : bool;                (* reader TRANSIENT_LOCAL *)
  rd_wp : option wproxy;       (* matched_writers (at most the one writer) *)
  rd_cache : list change;      (* samples available to read/take, in reception order *)
  rd_pres : list change;       (* ghost: every sample ever made available, in order *)
  rd_hwaits : list wstat       (* wait_for_historical_data callers *)
}.

Record state : Type := mkSt {
  s_now : Z;
  s_changes : list change;         (* RtpsStatefulWriter.changes *)
  s_last : Z;                      (* last_change_sequence_number *)
  s_inst : list (Z * list Z);      (* registered_instance_info: key -> samples *)
  s_log : list change;             (* ghost: publication log *)
  s_rp : option rproxy;            (* matched_readers *)
  s_dcps : bool;                   (* the reader is in matched_subscription_list *)
  s_waits : list wstat;            (* wait_for_acknowledgments callers *)
  s_rd : option reader;            (* the data reader, while it exists *)
  s_rdead : bool;                  (* the reader's participant is gone: nothing is queued for it *)
  s_net : list dgram               (* queued user datagrams, oldest first *)
}.

Definition init : state := mkSt 1000 [] 0 [] [] None false [] None false [].

Definition set_net (s : state) (n : list dgram) : state :=
  mkSt (s_now s) (s_changes s) (s_last s) (s_inst s) (s_log s) (s_rp s) (s_dcps s) (s_waits s) (s_rd s)
       (s_rdead s) n.
Definition set_rp (s : state) (p : option rproxy) : state :=
  mkSt (s_now s) (s_changes s) (s_last s) (s_inst s) (s_log s) p (s_dcps s) (s_waits s) (s_rd s)
       (s_rdead s) (s_net s).
Definition set_rd (s : state) (r : option reader) : state :=
  mkSt (s_now s) (s_changes s) (s_last s) (s_inst s) (s_log s) (s_rp s) (s_dcps s) (s_waits s) r
       (s_rdead s) (s_net s).
Definition set_waits (s : state) (w : list wstat) : state :=
  mkSt (s_now s) (s_changes s) (s_last s) (s_inst s) (s_log s) (s_rp s) (s_dcps s) w (s_rd s)
       (s_rdead s) (s_net s).

(* SimTransport: a datagram for a dead participant is never queued *)
Definition send (s : state) (out : list dgram) : state :=
  set_net s (s_net s ++ filter (fun d => negb (dg_toR d && s_rdead s)) out).

(* DcpsDomainParticipant::poke (runs at the end of every worker iteration) *)
Definition poke (cf : cfg) (s : state) : state :=
  match s_rp s with
  | Some p => let '(p1, out) := write_message cf (s_now s) (s_changes s) p in send (set_rp s (Some p1)) out
  | None => s
  end.

Definition drain (l : list wstat) : list wstat :=
  map (fun w => match w with WPending => WDone | x => x end) l.

(* --- delivery of one submessage to the reader's participant *)
Definition rd_present (r : reader) (w : wproxy) (oc : option change) : reader :=
  match oc with
  | Some c => mkRd (rd_alive r) (rd_rel r) (rd_tl r) (Some w) (rd_cache r ++ [c]) (rd_pres r ++ [c]) (rd_hwaits r)
  | None => mkRd (rd_alive r) (rd_rel r) (rd_tl r) (Some w) (rd_cache r) (rd_pres r) (rd_hwaits r)
  end.

Definition deliver_sub_R (cf : cfg) (r : reader) (m : submsg) : reader * list dgram :=
  match rd_wp r with
  | None => (r, [])
  | Some w =>
    match m with
    | SData c => let '(w1, oc) := on_data (rd_rel r) w c in (rd_present r w1 oc, [])
    | SFrag c k => let '(w1, oc) := on_frag cf (rd_rel r) w c k in (rd_present r w1 oc, [])
    | SGap a b => (rd_present r (on_gap w a b) None, [])
    | SHb f l c =>
      if f <=? 0 then (r, []) else     (* a HEARTBEAT with firstSN <= 0 is ignored *)
      let '(w1, out) := on_hb cf w f l c in
      let r1 := rd_present r w1 None in
      (* after every HEARTBEAT: waiters of wait_for_historical_data *)
      ((if hist_received (rd_wp r1)
        then mkRd (rd_alive r1) (rd_rel r1) (rd_tl r1) (rd_wp r1) (rd_cache r1) (rd_pres r1) (drain (rd_hwaits r1))
        else r1), out)
    | SAck _ _ _ | SNack _ _ _ _ => (r, [])
    end
  end.

Fixpoint deliver_subs_R (cf : cfg) (r : reader) (l : list submsg) (acc : list dgram) : reader * list dgram :=
  match l with
  | [] => (r, acc)
  | m :: t => let '(r1, out) := deliver_sub_R cf r m in deliver_subs_R cf r1 t (acc ++ out)
  end.

(* --- delivery of one submessage to the writer's participant *)
Definition deliver_sub_W (cf : cfg) (s : state) (m : submsg) : state :=
  match s_rp s with
  | None => s
  | Some p =>
    match m with
    | SAck base set count =>
      let '(p1, out, some) := on_acknack cf (s_now s) (s_changes s) p base set count in
      let s1 := send (set_rp s (Some p1)) out in
      if some && is_acked (Some p1) (s_last s) then set_waits s1 (drain (s_waits s1)) else s1
    | SNack sn base set count =>
      let '(p1, out) := on_nackfrag cf (s_changes s) p sn base set count in
      send (set_rp s (Some p1)) out
    | _ => s
    end
  end.

Definition deliver_dgram (cf : cfg) (s : state) (d : dgram) : state :=
  if dg_toR d then
    if s_rdead s then s
    else match s_rd s with
         | None => s
         | Some r =>
           if rd_alive r
           then let '(r1, out) := deliver_subs_R cf r (dg_subs d) [] in send (set_rd s (Some r1)) out
           else s
         end
  else fold_left (deliver_sub_W cf) (dg_subs d) s.

Fixpoint remove_nth {A} (n : nat) (l : list A) : list A :=
  match n, l with
  | _, [] => []
  | O, _ :: t => t
  | S k, x :: t => x :: remove_nth k t
  end.

(* --- the DCPS write path (writer_methods.rs + data_writer_entity.rs), max_blocking_time = 0 *)
Definition inst_samples (s : state) (key : Z) : option (list Z) :=
  match find (fun e => fst e =? key) (s_inst s) with Some e => Some (snd e) | None => None end.
Fixpoint inst_update (l : list (Z * list Z)) (key : Z) (f : list Z -> list Z) : list (Z * list Z) :=
  match l with
  | [] => [(key, f [])]
  | e :: t => if fst e =? key then (key, f (snd e)) :: t else e :: inst_update t key f
  end.

(* the deleted reader keeps its (ghost) presented list but takes part in nothing any more *)
Definition kill_reader (o : option reader) : option reader :=
  match o with
  | Some r => Some (mkRd false (rd_rel r) (rd_tl r) (rd_wp r) [] (rd_pres r) (rd_hwaits r))
  | None => None
  end.

(* code 0 = Ok, 10 = Timeout *)
Definition do_write (cf : cfg) (s : state) (key len sum : Z) : state * Z :=
  let oldest :=
    if 0 <? depth cf then
      match inst_samples s key with
      | Some (x :: t) => if Z.of_nat (length (x :: t)) =? depth cf then Some x else None
      | _ => None
      end
    else None in
  let blocked := match oldest with Some x => w_rel cf && negb (is_acked (s_rp s) x) | None => false end in
  if blocked then (s, 10)
  else
    let '(chs1, inst1) :=
      match oldest with
      | Some x => (filter (fun c => negb (c_sn c =? x)) (s_changes s), inst_update (s_inst s) key (fun l => tl l))
      | None => (s_changes s, s_inst s)
      end in
    let sn := s_last s + 1 in
    let c := mkCh sn key len sum in
    (mkSt (s_now s) (chs1 ++ [c]) sn (inst_update inst1 key (fun l => l ++ [sn])) (s_log s ++ [c]) (s_rp s)
          (s_dcps s) (s_waits s) (s_rd s) (s_rdead s) (s_net s), 0).

(* --- actions and their observable results *)
Inductive action : Type :=
| AWrite (key len sum : Z)      (* DataWriter::write *)
| ARemove (sn : Z)              (* RtpsStatefulWriter::remove_change for any other reason (lifespan, ...) *)
| ATick                         (* 50 ms pass; the worker wakes up *)
| ADeliver (i : nat) | ADrop (i : nat) | ADup (i : nat)
| APump                         (* deliver everything FIFO, replies included, until nothing is queued *)
| ATake
| AMatch (rel tl : bool)        (* the data reader is created and discovery completes *)
| ADelReader                    (* delete_datareader on the peer, discovery completes *)
| ADelPart                      (* peer deletes its entities and the participant, discovery completes *)
| AWfa | AWfaPoll               (* wait_for_acknowledgments: start / poll all started *)
| AWfh | AWfhPoll               (* wait_for_historical_data: start / poll *)
| AQuery                        (* look at the queued datagrams *)
| ANow.

Inductive out : Type :=
| ONone
| OCode (z : Z)                       (* 0 Ok, 10 Timeout, 12 IllegalOperation, 9 AlreadyDeleted, -1 pending/miss *)
| OTake (l : list change)             (* sn field is not observable: compared without it *)
| OPoll (l : list Z)                  (* per waiter: 0 newly completed, 1 still pending, 2 reported before *)
| OQuery (l : list dgram)
| OCount (n : Z).

Definition rxo_ok (cf : cfg) (rel tl : bool) : bool :=
  (implb rel (w_rel cf)) && (implb tl (w_tl cf)).

Definition poll (l : list wstat) : list wstat * list Z :=
  (map (fun w => match w with WDone => WReported | x => x end) l,
   map (fun w => match w with WDone => 0 | WPending => 1 | WReported => 2 end) l).

Fixpoint pump (fuel : nat) (cf : cfg) (s : state) (n : Z) : state * Z :=
  match fuel with
  | O => (s, n)
  | S f =>
    match s_net s with
    | [] => (s, n)
    | d :: t => pump f cf (poke cf (deliver_dgram cf (set_net s t) d)) (n + 1)
    end
  end.
Definition pump_fuel : nat := 4000.

(* the part of an action that precedes the worker's closing `poke` *)
Definition act (cf : cfg) (s : state) (a : action) : state * out :=
  match a with
  | AWrite key len sum => let '(s1, code) := do_write cf s key len sum in (s1, OCode code)
  | ARemove sn =>
    (mkSt (s_now s) (filter (fun c => negb (c_sn c =? sn)) (s_changes s)) (s_last s) (s_inst s) (s_log s)
          (s_rp s) (s_dcps s) (s_waits s) (s_rd s) (s_rdead s) (s_net s), ONone)
  | ATick =>
    (mkSt (s_now s + tick_ms) (s_changes s) (s_last s) (s_inst s) (s_log s) (s_rp s) (s_dcps s) (s_waits s)
          (s_rd s) (s_rdead s) (s_net s), ONone)
  | ADeliver i =>
    match nth_error (s_net s) i with
    | Some d => (deliver_dgram cf (set_net s (remove_nth i (s_net s))) d, OCode (Z.of_nat i))
    | None => (s, OCode (-1))
    end
  | ADrop i =>
    match nth_error (s_net s) i with
    | Some _ => (set_net s (remove_nth i (s_net s)), OCode (Z.of_nat i))
    | None => (s, OCode (-1))
    end
  | ADup i =>
    match nth_error (s_net s) i with
    | Some d =>
      (deliver_dgram cf (poke cf (deliver_dgram cf (set_net s (remove_nth i (s_net s))) d)) d, OCode (Z.of_nat i))
    | None => (s, OCode (-1))
    end
  | APump => let '(s1, n) := pump pump_fuel cf s 0 in (s1, OCount n)
  | ATake =>
    match s_rd s with
    | Some r =>
      if rd_alive r
      then (set_rd s (Some (mkRd (rd_alive r) (rd_rel r) (rd_tl r) (rd_wp r) [] (rd_pres r) (rd_hwaits r))), OTake (rd_cache r))
      else (s, OCode 9)
    | None => (s, OCode 9)
    end
  | AMatch rel tl =>
    match s_rd s with
    | Some _ => (s, ONone)
    | None =>
      (* one reader per scenario: no second match once a reader proxy exists or the peer is gone *)
      if s_rdead s || (match s_rp s with Some _ => true | None => false end) then (s, ONone)
      else if rxo_ok cf rel tl then
        (* discovery takes several worker iterations: the first poke after add_matched_reader sends the
           unsent changes, a later one may find a HEARTBEAT due *)
        (poke cf (mkSt (s_now s) (s_changes s) (s_last s) (s_inst s) (s_log s)
                       (Some (new_rproxy rel tl (s_changes s))) true (s_waits s)
                       (Some (mkRd true rel tl (Some new_wproxy) [] [] [])) (s_rdead s) (s_net s)), ONone)
      else (set_rd s (Some (mkRd true rel tl None [] [] [])), ONone)
    end
  | ADelReader =>
    (* remove_discovered_reader: the DCPS list forgets the reader, the RTPS reader proxy is deleted and the
       wait list of wait_for_acknowledgments is re-evaluated (no reader proxy is left: everybody is answered) *)
    (mkSt (s_now s) (s_changes s) (s_last s) (s_inst s) (s_log s) None false (drain (s_waits s)) (kill_reader (s_rd s))
          (s_rdead s) (s_net s), ONone)
  | ADelPart =>
    (* the peer deletes its entities (as above), then its participant *)
    (mkSt (s_now s) (s_changes s) (s_last s) (s_inst s) (s_log s) None false (drain (s_waits s)) (kill_reader (s_rd s))
          true (s_net s), ONone)
  | AWfa =>
    if is_acked (s_rp s) (s_last s) then (set_waits s (s_waits s ++ [WReported]), OCode 0)
    else (set_waits s (s_waits s ++ [WPending]), OCode (-1))
  | AWfaPoll => let '(w, o) := poll (s_waits s) in (set_waits s w, OPoll o)
  | AWfh =>
    match s_rd s with
    | None => (s, OCode 9)
    | Some r =>
      if negb (rd_alive r) then (s, OCode 9)
      else if negb (rd_tl r) then (s, OCode 12)
      else if hist_received (rd_wp r)
      then (set_rd s (Some (mkRd (rd_alive r) (rd_rel r) (rd_tl r) (rd_wp r) (rd_cache r) (rd_pres r) (rd_hwaits r ++ [WReported]))), OCode 0)
      else (set_rd s (Some (mkRd (rd_alive r) (rd_rel r) (rd_tl r) (rd_wp r) (rd_cache r) (rd_pres r) (rd_hwaits r ++ [WPending]))), OCode (-1))
    end
  | AWfhPoll =>
    match s_rd s with
    | None => (s, OPoll [])
    | Some r =>
      let '(w, o) := poll (rd_hwaits r) in
      (set_rd s (Some (mkRd (rd_alive r) (rd_rel r) (rd_tl r) (rd_wp r) (rd_cache r) (rd_pres r) w)), OPoll o)
    end
  | AQuery => (s, OQuery (s_net s))
  | ANow => (s, OCount (s_now s))
  end.

Definition step (cf : cfg) (s : state) (a : action) : state * out :=
  let '(s1, o) := act cf s a in (poke cf s1, o).

Fixpoint run_out (cf : cfg) (s : state) (l : list action) : state * list out :=
  match l with
  | [] => (s, [])
  | a :: t => let '(s1, o) := step cf s a in let '(s2, os) := run_out cf s1 t in (s2, o :: os)
  end.
Definition run (cf : cfg) (s : state) (l : list action) : state := fst (run_out cf s l).

(* `heal`: one heartbeat period and a bit (5 ticks = 250 ms), then loss-free FIFO delivery *)
Definition heal_round : list action := [ATick; ATick; ATick; ATick; ATick; APump].
Fixpoint heal (k : nat) : list action := match k with O => [] | S n => heal_round ++ heal n end.

(* ------------------------------------------------------------------ specification vocabulary *)
(* l1 is a subsequence of l2: same elements, same relative order *)
Inductive sublist {A} : list A -> list A -> Prop :=
| sub_nil : forall l, sublist [] l
| sub_skip : forall x l1 l2, sublist l1 l2 -> sublist l1 (x :: l2)
| sub_take : forall x l1 l2, sublist l1 l2 -> sublist (x :: l1) (x :: l2).

Definition strictly_increasing (l : list change) : Prop := StronglySorted Z.lt (map c_sn l).

(* presented list of the reader (ghost), [] if there is no reader *)
Definition presented (s : state) : list change := match s_rd s with Some r => rd_pres r | None => [] end.

(* the RELIABLE matched reader (if it still exists) has been given every change the writer still holds
   and that is relevant for it (sequence number above the proxy's first relevant sample) *)
Definition delivered (s : state) : Prop :=
  forall p r w, s_rp s = Some p -> rp_rel p = true -> s_rd s = Some r -> rd_wp r = Some w ->
    forall c, In c (s_changes s) -> rp_fr p < c_sn c -> In c (rd_pres r).

(* the test wait_for_acknowledgments performs (immediately, and again whenever an ACKNACK is accepted) *)
Definition ackd (s : state) : bool := is_acked (s_rp s) (s_last s).
(* callers of wait_for_acknowledgments that are still parked *)
Definition npend (s : state) : nat :=
  length (filter (fun w => match w with WPending => true | _ => false end) (s_waits s)).

(* healing rounds granted to a schedule: two, plus two per write (a fragmented sample needs a round of
   its own for ACKNACK -> fragment 1 and one for NACK_FRAG -> the other fragments) *)
Definition rounds_needed (l : list action) : nat :=
  2 + 2 * length (filter (fun a => match a with AWrite _ _ _ => true | _ => false end) l).

Definition not_remove (a : action) : bool := match a with ARemove _ => false | _ => true end.

(* stage-1 class of schedules for the liveness theorems: no removal from the history cache, the reader and
   its participant are not deleted, every written sample fits one DATA submessage *)
Definition live_act (cf : cfg) (a : action) : bool :=
  match a with
  | ARemove _ | ADelReader | ADelPart => false
  | AWrite _ len _ => (0 <=? len) && (len <=? fsz cf)
  | _ => true
  end.
(* loss-free delivery: individual datagrams in any order, FIFO pumps *)
Definition is_delivery (a : action) : bool := match a with ADeliver _ | APump => true | _ => false end.
(* one heartbeat period and a bit *)
Definition five_ticks : list action := [ATick; ATick; ATick; ATick; ATick].
