(* C01/C03/C04 — liveness in the hole-free, unfragmented class (stage 1): KEEP_ALL, no removal, no
   deletion, every sample fits one DATA submessage.  After a heartbeat period (5 ticks) any loss-free
   delivery that drains the network leaves the reliable reader with every relevant change. *)
From DustDDS Require Import Base.Machine Proto.RelModel Proto.RelProofs Proto.RelSound.
Open Scope Z_scope.

(* ------------------------------------------------------------------ the writer, heartbeat counts *)
Definition unfrag (cf : cfg) (chs : list change) : Prop := forall c, In c chs -> nfrags cf c <= 1.

Lemma filter_len_le {A} (f : A -> bool) l : (length (filter f l) <= length l)%nat.
Proof. induction l as [|x t IH]; cbn; [lia|]. destruct (f x); cbn; lia. Qed.

(* what write_message_reliable emits: DATA+HEARTBEAT, GAP, HEARTBEAT; every heartbeat is fresh *)
Definition hsub (lo hi last : Z) (m : submsg) : Prop :=
  match m with
  | SHb f l c => lo < c <= hi /\ f = 1 /\ l = last
  | SFrag _ _ | SAck _ _ _ | SNack _ _ _ _ => False
  | _ => True
  end.
Definition hdg (lo hi last : Z) (d : dgram) : Prop := dg_toR d = true /\ Forall (hsub lo hi last) (dg_subs d).

Lemma hdg_mono lo lo' hi hi' last d : lo' <= lo -> hi <= hi' -> hdg lo hi last d -> hdg lo' hi' last d.
Proof.
  intros A B [T H]. split; [assumption|]. eapply Forall_impl; [|exact H]. intros m. destruct m; cbn; try tauto. lia.
Qed.

Definition has_hb (c last : Z) (l : list dgram) : Prop := exists d, In d l /\ In (SHb 1 last c) (dg_subs d).

Lemma unsent_rel_live last fuel cf now chs : Contig chs last -> unfrag cf chs ->
  forall p acc lo, 0 <= rp_hs p <= last -> (last - rp_hs p <= Z.of_nat fuel) ->
  lo <= rp_hbc p -> Forall (hdg lo (rp_hbc p) last) acc ->
  (lo < rp_hbc p -> has_hb (rp_hbc p) last acc) ->
  let r := unsent_rel fuel cf now chs p acc in
  rp_hs (fst r) = last /\ rp_hbc p <= rp_hbc (fst r) /\
  Forall (hdg lo (rp_hbc (fst r)) last) (snd r) /\
  (lo < rp_hbc (fst r) -> has_hb (rp_hbc (fst r)) last (snd r)) /\
  ((rp_hbc p = rp_hbc (fst r) /\ rp_hbt (fst r) = rp_hbt p) \/ (rp_hbc p < rp_hbc (fst r) /\ rp_hbt (fst r) = now)) /\
  (rp_hs p < last -> rp_fr p < last -> rp_hbc p < rp_hbc (fst r)).
Proof.
  intros Hc Hu. induction fuel as [|f IH]; intros p acc lo Hhs Hfuel Hlo Ha Hhb; cbn [unsent_rel].
  { cbn. repeat split; try lia; try assumption; try (left; reflexivity). }
  rewrite (contig_next_unsent chs last p Hc) by lia.
  destruct (Z.ltb_spec (rp_hs p) last) as [Hlt|Hge].
  2:{ cbn. repeat split; try lia; try assumption; try (left; reflexivity). }
  assert (rp_hs p + 1 <? rp_hs p + 1 = false) as -> by (apply Z.ltb_ge; lia).
  assert (Hin : In (rp_hs p + 1) (sns chs)) by (apply (contig_in chs last _ Hc); lia).
  assert (Hhbv : first_sn chs = 1 /\ last_sn chs = last) by (split; [eapply contig_first|eapply contig_last]; eassumption).
  destruct (lookup_relevant p (rp_hs p + 1) chs) as [c|] eqn:El.
  - unfold gen_hb. destruct Hhbv as [-> ->].
    apply lookup_relevant_in in El. destruct El as (Hcin & _ & _).
    assert (1 <? nfrags cf c = false) as -> by (apply Z.ltb_ge; apply Hu; assumption).
    match goal with |- context [unsent_rel f cf now chs ?q ?a] => specialize (IH q a lo) end.
    cbn [rp_hs rp_hbc rp_hbt rp_fr set_hs fst snd] in IH.
    destruct (Z.ltb_spec (rp_hs p) (rp_hs p + 1)); [|lia].
    destruct IH as (A & B & C & D & E & F); try lia.
    + apply Forall_app; split.
      * eapply Forall_impl; [|exact Ha]. intros d. apply hdg_mono; lia.
      * constructor; [|constructor]. split; [reflexivity|]. cbn. constructor; [exact I|]. constructor; [|constructor]. cbn. lia.
    + intros _. exists (toR [SData c; SHb 1 last (rp_hbc p + 1)]). split; [apply in_or_app; right; left; reflexivity|].
      cbn. right. left. reflexivity.
    + repeat split; try assumption; try lia.
  - apply lookup_relevant_none in El; [|assumption].
    match goal with |- context [unsent_rel f cf now chs ?q ?a] => specialize (IH q a lo) end.
    cbn [rp_hs rp_hbc rp_hbt rp_fr set_hs fst snd] in IH.
    destruct (Z.ltb_spec (rp_hs p) (rp_hs p + 1)); [|lia].
    destruct IH as (A & B & C & D & E & F); try lia; try assumption.
    + apply Forall_app; split; [assumption|].
      constructor; [|constructor]. split; [reflexivity|]. cbn. constructor; [exact I|constructor].
    + intros Hl. destruct (Hhb Hl) as [d [Hd Hs]]. exists d. split; [apply in_or_app; left; assumption|assumption].
    + repeat split; try assumption. intros H1 H2. apply F; lia.
Qed.

Lemma req_loop_live last fuel cf now chs : Contig chs last -> unfrag cf chs ->
  forall p acc lo, Forall (fun n => 1 <= n <= last) (rp_req p) ->
  lo <= rp_hbc p -> Forall (hdg lo (rp_hbc p) last) acc ->
  (lo < rp_hbc p -> has_hb (rp_hbc p) last acc) ->
  (Z.of_nat (length (rp_req p)) < Z.of_nat fuel) ->
  let r := req_loop fuel cf now chs p acc in
  rp_hbc p <= rp_hbc (fst r) /\
  Forall (hdg lo (rp_hbc (fst r)) last) (snd r) /\
  (lo < rp_hbc (fst r) -> has_hb (rp_hbc (fst r)) last (snd r)) /\
  ((rp_hbc p = rp_hbc (fst r) /\ rp_hbt (fst r) = rp_hbt p) \/ (rp_hbc p < rp_hbc (fst r) /\ rp_hbt (fst r) = now)) /\
  ((exists n, In n (rp_req p) /\ rp_fr p < n) -> rp_hbc p < rp_hbc (fst r)).
Proof.
  intros Hc Hu. induction fuel as [|f IH]; intros p acc lo Hreq Hlo Ha Hhb Hfuel; cbn [req_loop].
  { lia. }
  destruct (zmin_list (rp_req p)) as [n|] eqn:En.
  2:{ apply zmin_list_none in En. cbn. repeat split; try lia; try assumption; try (left; reflexivity).
      intros [n [Hn _]]. rewrite En in Hn. contradiction. }
  apply zmin_list_spec in En. destruct En as [Hn Hmin].
  assert (Hnr : 1 <= n <= last) by (rewrite Forall_forall in Hreq; auto).
  assert (Hin : In n (sns chs)) by (apply (contig_in chs last _ Hc); lia).
  assert (Hhbv : first_sn chs = 1 /\ last_sn chs = last) by (split; [eapply contig_first|eapply contig_last]; eassumption).
  set (p0 := set_req p (filter (fun s => negb (s =? n)) (rp_req p))).
  assert (E1 : rp_hbc p0 = rp_hbc p) by reflexivity.
  assert (E2 : rp_hbt p0 = rp_hbt p) by reflexivity.
  assert (E3 : rp_fr p0 = rp_fr p) by reflexivity.
  assert (Hreq0 : Forall (fun n => 1 <= n <= last) (rp_req p0)) by (subst p0; cbn; apply Forall_filter; assumption).
  assert (Hlen0 : Z.of_nat (length (rp_req p0)) < Z.of_nat f).
  { subst p0. cbn [rp_req set_req].
    assert (length (filter (fun s => negb (Z.eqb s n)) (rp_req p)) < length (rp_req p))%nat; [|lia].
    clear - Hn. induction (rp_req p) as [|x t IHt]; [contradiction|]. cbn.
    destruct (Z.eqb_spec x n) as [->|Hne]; cbn.
    - pose proof (filter_len_le (fun s => negb (Z.eqb s n)) t). lia.
    - destruct Hn as [Hx|Hn]; [congruence|]. specialize (IHt Hn). lia. }
  destruct (lookup_relevant p0 n chs) as [c|] eqn:El.
  - unfold gen_hb. destruct Hhbv as [-> ->].
    apply lookup_relevant_in in El. destruct El as (Hcin & _ & _).
    assert (1 <? nfrags cf c = false) as -> by (apply Z.ltb_ge; apply Hu; assumption).
    match goal with |- context [req_loop f cf now chs ?q ?a] => specialize (IH q a lo) end.
    cbn [rp_req rp_hbc rp_hbt rp_fr fst snd] in IH.
    assert (Hacc : Forall (hdg lo (rp_hbc p0 + 1) last) (acc ++ [toR [SData c; SHb 1 last (rp_hbc p0 + 1)]])).
    { apply Forall_app; split.
      - eapply Forall_impl; [|exact Ha]. intros d. apply hdg_mono; lia.
      - constructor; [|constructor]. split; [reflexivity|]. cbn. constructor; [exact I|]. constructor; [|constructor]. cbn. lia. }
    assert (Hhb1 : lo < rp_hbc p0 + 1 -> has_hb (rp_hbc p0 + 1) last (acc ++ [toR [SData c; SHb 1 last (rp_hbc p0 + 1)]])).
    { intros _. exists (toR [SData c; SHb 1 last (rp_hbc p0 + 1)]). split; [apply in_or_app; right; left; reflexivity|].
      cbn. right. left. reflexivity. }
    assert (Hlo1 : lo <= rp_hbc p0 + 1) by lia.
    destruct (IH Hreq0 Hlo1 Hacc Hhb1 Hlen0) as (A & B & C & D & E).
    repeat split; try assumption; try lia.
  - pose proof El as El'. apply lookup_relevant_none in El'; [|assumption]. rewrite E3 in El'.
    specialize (IH p0 (acc ++ [toR [SGap n (n + 1)]]) lo).
    assert (Hacc : Forall (hdg lo (rp_hbc p0) last) (acc ++ [toR [SGap n (n + 1)]])).
    { apply Forall_app; split; [rewrite E1; assumption|].
      constructor; [|constructor]. split; [reflexivity|]. cbn. constructor; [exact I|constructor]. }
    assert (Hhb1 : lo < rp_hbc p0 -> has_hb (rp_hbc p0) last (acc ++ [toR [SGap n (n + 1)]])).
    { rewrite E1. intros Hl. destruct (Hhb Hl) as [d [Hd Hs]]. exists d. split; [apply in_or_app; left; assumption|assumption]. }
    assert (Hlo1 : lo <= rp_hbc p0) by lia.
    destruct (IH Hreq0 Hlo1 Hacc Hhb1 Hlen0) as (A & B & C & D & E).
    repeat split; try assumption; try lia.
    intros [m [Hm Hfr]]. rewrite <- E1. apply E. exists m. split; [|lia].
    subst p0. cbn [rp_req set_req]. apply filter_In. split; [assumption|]. apply negb_true_iff. apply Z.eqb_neq. lia.
Qed.

Lemma contig_length chs last : Contig chs last -> Z.of_nat (length chs) = last.
Proof.
  intros [Hs H0]. assert (length (sns chs) = length (zrange 1 last)) by (rewrite Hs; reflexivity).
  unfold sns, zrange in H. rewrite !map_length, seq_length in H. lia.
Qed.

Lemma write_rel_live last cf now chs p : Contig chs last -> unfrag cf chs ->
  0 <= rp_hs p <= last -> 0 <= rp_ha p -> Forall (fun n => 1 <= n <= last) (rp_req p) ->
  let r := write_rel cf now chs p in
  rp_hs (fst r) = last /\ rp_hbc p <= rp_hbc (fst r) /\
  Forall (hdg (rp_hbc p) (rp_hbc (fst r)) last) (snd r) /\
  (rp_hbc p < rp_hbc (fst r) -> has_hb (rp_hbc (fst r)) last (snd r)) /\
  ((rp_hbc p = rp_hbc (fst r) /\ rp_hbt (fst r) = rp_hbt p) \/ (rp_hbc p < rp_hbc (fst r) /\ rp_hbt (fst r) = now)) /\
  ((exists n, In n (rp_req p) /\ rp_fr p < n) -> rp_hbc p < rp_hbc (fst r)) /\
  (rp_hs p = last -> rp_ha p < last -> hb_period <= now - rp_hbt p -> rp_hbc p < rp_hbc (fst r)) /\
  (rp_hs p < last -> rp_fr p < last -> rp_hbc p < rp_hbc (fst r)).
Proof.
  intros Hc Hu Hhs Hha Hreq. pose proof (contig_length chs last Hc) as Hlen. unfold write_rel.
  match goal with |- context [let '(p1, out1) := ?X in _] => destruct X as [p1 out1] eqn:E1 end.
  assert (H1 : rp_hs p1 = last /\ rp_hbc p <= rp_hbc p1 /\ Forall (hdg (rp_hbc p) (rp_hbc p1) last) out1 /\
               (rp_hbc p < rp_hbc p1 -> has_hb (rp_hbc p1) last out1) /\
               ((rp_hbc p = rp_hbc p1 /\ rp_hbt p1 = rp_hbt p) \/ (rp_hbc p < rp_hbc p1 /\ rp_hbt p1 = now)) /\
               rp_req p1 = rp_req p /\ rp_fr p1 = rp_fr p /\
               (rp_hs p = last -> rp_ha p < last -> hb_period <= now - rp_hbt p -> rp_hbc p < rp_hbc p1) /\
               (rp_hs p < last -> rp_fr p < last -> rp_hbc p < rp_hbc p1)).
  { rewrite (contig_next_unsent chs last p Hc) in E1 by lia.
    destruct (Z.ltb_spec (rp_hs p) last) as [Hlt|Hge].
    - pose proof (unsent_rel_live last (S (2 * length chs)) cf now chs Hc Hu p [] (rp_hbc p) Hhs) as H.
      lazy zeta in H. rewrite E1 in H. cbn [fst snd] in H.
      destruct H as (A & B & C & D & E & Fst); try lia; [constructor|].
      pose proof (unsent_rel_class (rp_fr p) last (S (2 * length chs)) cf now chs Hc) as H'.
      pose proof (unsent_rel_static (S (2 * length chs)) cf now chs p []) as Hs.
      assert (Hreq1 : rp_req p1 = rp_req p).
      { clear - E1. revert E1. generalize (@nil dgram). generalize (S (2 * length chs)). intros fu. revert p p1 out1.
        induction fu as [|f IH]; intros p p1 out1 acc E; cbn [unsent_rel] in E; [inversion E; reflexivity|].
        destruct (next_unsent p chs) as [n|]; [|inversion E; reflexivity].
        destruct (rp_hs p + 1 <? n); [unfold gen_hb in E; apply IH in E; exact E|].
        destruct (lookup_relevant p n chs) as [c|]; [|apply IH in E; exact E].
        unfold gen_hb in E. destruct (1 <? nfrags cf c); apply IH in E; exact E. }
      rewrite E1 in Hs. cbn [fst] in Hs. apply static_fr in Hs. destruct Hs as (Hfr & _).
      repeat split; try assumption; try lia.
    - assert (Hhs' : rp_hs p = last) by lia.
      destruct (negb (unacked p (zmax_list (sns chs)))) eqn:Eu.
      + injection E1 as <- <-. repeat split; try lia; try constructor.
        intros _ Hlt _. exfalso. apply negb_true_iff in Eu. unfold unacked in Eu.
        destruct (zmax_list (sns chs)) as [m|] eqn:Em.
        * apply zmax_list_spec in Em. destruct Em as [Hin Hall].
          assert (Hl : In last (sns chs)) by (apply (contig_in chs last _ Hc); lia).
          rewrite Forall_forall in Hall. specialize (Hall _ Hl). apply Z.ltb_ge in Eu. lia.
        * apply zmax_list_none in Em. assert (Hl : In last (sns chs)) by (apply (contig_in chs last _ Hc); lia).
          rewrite Em in Hl. contradiction.
      + destruct (time_for_hb p now) eqn:Et; unfold gen_hb in E1; injection E1 as <- <-; cbn.
        * rewrite (contig_first chs last Hc), (contig_last chs last Hc).
          repeat split; try lia.
          -- constructor; [|constructor]. split; [reflexivity|]. cbn. constructor; [|constructor]. cbn. lia.
          -- intros _. exists (toR [SHb 1 last (rp_hbc p + 1)]). split; [left; reflexivity|left; reflexivity].
        * repeat split; try lia; try constructor.
          intros _ _ Hper. unfold time_for_hb in Et. apply Z.leb_gt in Et. lia. }
  destruct H1 as (A & B & C & D & E & F & G & T & U).
  pose proof (req_loop_live last (S (length (rp_req p1))) cf now chs Hc Hu p1 out1 (rp_hbc p)) as H.
  rewrite F in H. specialize (H Hreq B C D). lazy zeta in H. rewrite F.
  destruct H as (H1 & H2 & H3 & H4 & H5); [lia|].
  assert (Hhs1 : rp_hs (fst (req_loop (S (length (rp_req p))) cf now chs p1 out1)) = last).
  { pose proof (req_loop_class (rp_fr p1) last (S (length (rp_req p))) cf now chs Hc) as Hq.
    destruct Hc as [Hc1 Hc2].
    assert (rp_hs (fst (req_loop (S (length (rp_req p))) cf now chs p1 out1)) = rp_hs p1); [|congruence].
    clear. generalize (S (length (rp_req p))). intros fu. revert p1 out1.
    induction fu as [|f IH]; intros p1 out1; cbn [req_loop]; [reflexivity|].
    destruct (zmin_list (rp_req p1)) as [n|]; [|reflexivity].
    match goal with |- context [lookup_relevant ?q n chs] => destruct (lookup_relevant q n chs) as [c|] end.
    - unfold gen_hb. destruct (1 <? nfrags cf c); rewrite IH; reflexivity.
    - rewrite IH. reflexivity. }
  repeat split; try assumption; try lia.
  all: try (intros Hex; rewrite G in H5; specialize (H5 Hex); lia).
  all: try (intros X1 X2 X3; specialize (T X1 X2 X3); lia).
  all: try (intros X1 X2; specialize (U X1 X2); lia).
Qed.

(* ------------------------------------------------------------------ the reader without fragments *)
Lemma take_while_all {A} (f : A -> bool) l : (forall x, In x l -> f x = true) -> take_while f l = l.
Proof.
  induction l as [|x t IH]; intros H; cbn; [reflexivity|]. rewrite (H x (or_introl eq_refl)). f_equal.
  apply IH. intros y Hy. apply H. right. assumption.
Qed.
Lemma find_all_false {A} (f : A -> bool) l : (forall x, In x l -> f x = false) -> find f l = None.
Proof.
  induction l as [|x t IH]; intros H; cbn; [reflexivity|]. rewrite (H x (or_introl eq_refl)).
  apply IH. intros y Hy. apply H. right. assumption.
Qed.

Lemma acknack_of_nofrag cf w : wp_frags w = [] ->
  acknack_of cf w =
  (mkWP (wp_fa w) (wp_la w) (wp_hr w) (wp_hb w) (wp_an w + 1) (wp_nf w + 1) [],
   [SAck (avail_max w + 1) (firstn 256 (missing w)) (wp_an w + 1)]).
Proof.
  intros Hf. unfold acknack_of. cbn [wp_frags wp_hr wp_fa wp_la wp_an wp_nf]. rewrite Hf.
  unfold min_frag_sn. cbn [wp_frags map zmin_list existsb].
  rewrite find_all_false by (intros; reflexivity).
  rewrite take_while_all by (intros; reflexivity). reflexivity.
Qed.

Lemma on_hb_nofrag cf w f l c : wp_frags w = [] ->
  on_hb cf w f l c =
  if wp_hb w <? c then
    (mkWP f l (wp_hr w) c (wp_an w + 1) (wp_nf w + 1) [],
     [toW [SAck (Z.max (f - 1) (wp_hr w) + 1) (firstn 256 (zrange (Z.max f (wp_hr w + 1)) (Z.max l (wp_hr w)))) (wp_an w + 1)]])
  else (w, []).
Proof.
  intros Hf. unfold on_hb. destruct (wp_hb w <? c); [|reflexivity].
  rewrite acknack_of_nofrag by exact Hf. reflexivity.
Qed.

(* ------------------------------------------------------------------ the live-class invariant *)
Definition lsub (hbc last wan : Z) (m : submsg) : Prop :=
  match m with
  | SHb f l c => f = 1 /\ 1 <= c <= hbc /\ (c = hbc -> l = last)
  | SAck b set c => c <= wan
  | SFrag _ _ | SNack _ _ _ _ => False
  | _ => True
  end.
Definition ldg (hbc last wan : Z) (d : dgram) : Prop := Forall (lsub hbc last wan) (dg_subs d).

(* when the heartbeat count does not decrease, old constraints survive (an old "newest" heartbeat is
   simply no longer the newest) *)
Lemma ldg_mono hbc hbc' last wan wan' d :
  hbc <= hbc' -> wan <= wan' -> ldg hbc last wan d -> ldg hbc' last wan' d.
Proof.
  intros A B H. unfold ldg in *. eapply Forall_impl; [|exact H]. intros m.
  destruct m; cbn; try tauto; try lia.
Qed.

(* ... also across a write, provided a newer heartbeat has been generated *)
Lemma ldg_mono_write hbc hbc' last last' wan d :
  hbc < hbc' -> ldg hbc last wan d -> ldg hbc' last' wan d.
Proof.
  intros A H. unfold ldg in *. eapply Forall_impl; [|exact H]. intros m.
  destruct m; cbn; try tauto; try lia.
Qed.

Lemma hdg_ldg lo hi last wan d : 0 <= lo -> hdg lo hi last d -> ldg hi last wan d.
Proof.
  intros H0 [_ H]. unfold ldg. eapply Forall_impl; [|exact H]. intros m. destruct m; cbn; try tauto.
  intros (A & B & C). split; [assumption|]. split; [lia|]. intros _. assumption.
Qed.

Record LOk (strict : bool) (s : state) (p : rproxy) (w : wproxy) : Prop := mkLOk {
  l_hs : strict = true -> rp_hs p = s_last s;
  l_ha0 : 0 <= rp_ha p;
  l_hb : 0 <= wp_hb w <= rp_hbc p;
  l_an : rp_an p <= wp_an w;
  l_la : 0 < rp_hbc p -> wp_hb w = rp_hbc p -> wp_la w = s_last s;
  l_hbt : rp_hbt p <= s_now s;
  l_frags : wp_frags w = [];
  l_net : Forall (ldg (rp_hbc p) (s_last s) (wp_an w)) (s_net s)
}.

Definition LInv (strict : bool) (cf : cfg) (s : state) : Prop :=
  0 <= s_now s /\ unfrag cf (s_changes s) /\ s_rdead s = false /\
  (forall r, s_rd s = Some r -> rd_alive r = true) /\
  forall p r w, s_rp s = Some p -> rp_rel p = true -> s_rd s = Some r -> rd_wp r = Some w -> LOk strict s p w.

Ltac linv_split := split; [|split; [|split; [|split]]].

Lemma LInv_weaken cf s : LInv true cf s -> LInv false cf s.
Proof.
  intros (A & B & C & D & E). linv_split; try assumption. intros p r w H1 H2 H3 H4.
  destruct (E p r w H1 H2 H3 H4). constructor; try assumption. discriminate.
Qed.

(* --- poke *)
Lemma LInv_poke cf s b : CInv s -> LInv b cf s -> LInv true cf (poke cf s).
Proof.
  intros (HS & HN & [A1 A2 A3]) (L1 & L2 & L3 & L4 & L5). unfold poke.
  destruct (s_rp s) as [p|] eqn:Ep.
  2:{ linv_split; try assumption. intros q r w Hq. congruence. }
  destruct A3 as (Hfr & Hhs & Hreq & Hnet & Hrd).
  unfold write_message. destruct (rp_rel p) eqn:Erel.
  2:{ pose proof (write_be_static (S (2 * length (s_changes s))) cf (s_changes s) p []) as Hs.
      destruct (write_be_loop (S (2 * length (s_changes s))) cf (s_changes s) p []) as [p1 out]. cbn [fst] in Hs.
      apply static_fr in Hs. destruct Hs as (_ & Hrel & _).
      linv_split; try assumption. intros q r w Hq Hqrel. cbn in Hq. inversion Hq; subst. congruence. }
  unfold ROk in Hrd.
  destruct (s_rd s) as [r|] eqn:Er.
  2:{ destruct (write_rel cf (s_now s) (s_changes s) p) as [p1 out].
      linv_split; cbn; try rewrite Er; try assumption. intros q r w _ _ Hr. discriminate. }
  destruct (rd_wp r) as [w|] eqn:Ew.
  2:{ destruct (write_rel cf (s_now s) (s_changes s) p) as [p1 out].
      linv_split; cbn; try rewrite Er; try assumption. intros q r' w _ _ Hr Hw. inversion Hr; subst. congruence. }
  destruct (L5 p r w eq_refl Erel eq_refl Ew) as [K1 K2 K3 K4 K5 K6 K7 K8].
  pose proof (write_rel_live (s_last s) cf (s_now s) (s_changes s) p) as H. rewrite A1 in H.
  specialize (H A2). rewrite <- A1 in H. specialize (H L2 Hhs K2 Hreq). lazy zeta in H.
  pose proof (write_rel_ha cf (s_now s) (s_changes s) p) as Hha.
  pose proof (write_rel_class (rp_fr p) (s_last s) cf (s_now s) (s_changes s) p) as Hcl. rewrite A1 in Hcl.
  specialize (Hcl A2 (proj1 Hfr) eq_refl Hhs Hreq). lazy zeta in Hcl. rewrite <- A1 in Hcl.
  destruct (write_rel cf (s_now s) (s_changes s) p) as [p1 out]. cbn [fst snd] in *.
  destruct H as (W1 & W2 & W3 & W4 & W5 & _).
  destruct Hcl as (_ & _ & _ & Hst & _ & Han & _).
  linv_split; cbn; try rewrite Er; try assumption.
  intros q r' w' Hq Hqrel Hr' Hw'. inversion Hq; subst q. inversion Hr'; subst r'.
  assert (w' = w) by congruence. subst w'.
  constructor; cbn.
  - intros _. assumption.
  - lia.
  - lia.
  - lia.
  - intros H0 Heq. destruct (Z.eq_dec (rp_hbc p) (rp_hbc p1)) as [E|E]; [apply K5; lia|lia].
  - destruct W5 as [[_ ->]|[_ ->]]; lia.
  - assumption.
  - apply Forall_app; split.
    + eapply Forall_impl; [|exact K8]. intros d. apply ldg_mono; lia.
    + apply Forall_filter. eapply Forall_impl; [|exact W3]. intros d. apply hdg_ldg. lia.
Qed.

(* --- delivery to the reader *)
Definition RL (hbc last : Z) (w : wproxy) : Prop :=
  0 <= wp_hb w <= hbc /\ (0 < hbc -> wp_hb w = hbc -> wp_la w = last) /\ wp_frags w = [].

Lemma on_data_fields rel w c w1 oc : on_data rel w c = (w1, oc) ->
  wp_hb w1 = wp_hb w /\ wp_an w1 = wp_an w /\ wp_la w1 = wp_la w /\ (wp_frags w = [] -> wp_frags w1 = []).
Proof.
  unfold on_data. destruct rel.
  - destruct (_ =? _); intros E; inversion E; subst; cbn; repeat split; try reflexivity; intros ->; reflexivity.
  - destruct (_ <=? _); [|intros E; inversion E; subst; repeat split; auto].
    destruct (_ <? _); intros E; inversion E; subst; cbn; repeat split; try reflexivity; intros ->; reflexivity.
Qed.

Lemma deliver_sub_R_live hbc last wan cf r w m r1 out :
  rd_wp r = Some w -> RL hbc last w -> lsub hbc last wan m ->
  deliver_sub_R cf r m = (r1, out) ->
  exists w1, rd_wp r1 = Some w1 /\ rd_alive r1 = rd_alive r /\ rd_rel r1 = rd_rel r /\ RL hbc last w1 /\
     wp_an w <= wp_an w1 /\ Forall (ldg hbc last (wp_an w1)) out.
Proof.
  intros Ew (R1 & R2 & R3) Hm E. unfold deliver_sub_R in E. rewrite Ew in E.
  destruct m as [c|c k|a b|f l c| |]; cbn in Hm; try contradiction.
  - destruct (on_data (rd_rel r) w c) as [w1 oc] eqn:Ed. inversion E; subst.
    destruct (on_data_fields _ _ _ _ _ Ed) as (F1 & F2 & F3 & F4).
    exists w1. destruct (rd_present_proj r w1 oc) as [P1 P2].
    refine (conj P1 (conj _ (conj _ (conj _ (conj _ _))))); try (destruct oc; reflexivity); try constructor; try lia.
    unfold RL. rewrite F1, F3. repeat split; try lia; auto.
  - inversion E; subst. exists (on_gap w a b). cbn [rd_present rd_wp rd_alive rd_rel].
    assert (F : wp_hb (on_gap w a b) = wp_hb w /\ wp_an (on_gap w a b) = wp_an w /\ wp_la (on_gap w a b) = wp_la w /\
                wp_frags (on_gap w a b) = wp_frags w).
    { unfold on_gap. destruct (_ && _); cbn; tauto. }
    destruct F as (F1 & F2 & F3 & F4).
    refine (conj eq_refl (conj eq_refl (conj eq_refl (conj _ (conj _ _))))); try constructor; try lia.
    unfold RL. rewrite F1, F3, F4. repeat split; try lia; auto.
  - destruct Hm as [Hf1 [Hc1 Hc2]].
    assert (Ef0 : f <=? 0 = false) by (apply Z.leb_gt; lia). rewrite Ef0 in E.
    destruct (on_hb cf w f l c) as [w1 o] eqn:Eh.
    rewrite (on_hb_nofrag cf w f l c R3) in Eh.
    assert (Hr1 : rd_wp r1 = Some w1 /\ rd_alive r1 = rd_alive r /\ rd_rel r1 = rd_rel r /\ out = o).
    { destruct (hist_received (rd_wp (rd_present r w1 None))); inversion E; subst; cbn; auto. }
    destruct Hr1 as (Q1 & Q2 & Q3 & ->). exists w1.
    destruct (Z.ltb_spec (wp_hb w) c) as [Hlt|Hge]; inversion Eh; subst w1 o.
    + refine (conj Q1 (conj Q2 (conj Q3 (conj _ (conj _ _))))); cbn [wp_an].
      * unfold RL; cbn. repeat split; try lia.
      * lia.
      * constructor; [|constructor]. unfold ldg; cbn. constructor; [cbn; lia|constructor].
    + refine (conj Q1 (conj Q2 (conj Q3 (conj _ (conj _ _))))); [unfold RL; tauto|lia|constructor].
  - inversion E; subst. exists w.
    refine (conj Ew (conj eq_refl (conj eq_refl (conj _ (conj _ _))))); [unfold RL; tauto|lia|constructor].
Qed.

Lemma deliver_subs_R_live hbc last wan cf l : forall r w acc r1 out,
  rd_wp r = Some w -> RL hbc last w -> Forall (lsub hbc last wan) l ->
  Forall (ldg hbc last (wp_an w)) acc ->
  deliver_subs_R cf r l acc = (r1, out) ->
  exists w1, rd_wp r1 = Some w1 /\ rd_alive r1 = rd_alive r /\ rd_rel r1 = rd_rel r /\ RL hbc last w1 /\
     wp_an w <= wp_an w1 /\ Forall (ldg hbc last (wp_an w1)) out.
Proof.
  induction l as [|m t IH]; intros r w acc r1 out Ew HR Hl Ha E; cbn in E.
  - inversion E; subst. exists w. refine (conj Ew (conj eq_refl (conj eq_refl (conj HR (conj _ Ha))))). lia.
  - inversion Hl; subst. destruct (deliver_sub_R cf r m) as [r' o] eqn:Em.
    destruct (deliver_sub_R_live hbc last wan cf r w m r' o Ew HR H1 Em) as (w' & A & B & B' & C & D & F).
    assert (Hacc : Forall (ldg hbc last (wp_an w')) (acc ++ o)).
    { apply Forall_app; split; [|assumption]. eapply Forall_impl; [|exact Ha]. intros d. apply ldg_mono; lia. }
    destruct (IH r' w' (acc ++ o) r1 out A C H2 Hacc E) as (w1 & A1 & B1 & B1' & C1 & D1 & F1).
    exists w1. refine (conj A1 (conj _ (conj _ (conj C1 (conj _ F1))))); try congruence. lia.
Qed.

(* --- delivery of a queued datagram to the reader *)
Lemma LOk_deliver_R cf s b p r w d rest r1 out :
  s_rdead s = false -> LOk b s p w -> rd_wp r = Some w -> In d (s_net s) ->
  (forall x, In x rest -> In x (s_net s)) ->
  deliver_subs_R cf r (dg_subs d) [] = (r1, out) ->
  exists w1, rd_wp r1 = Some w1 /\ rd_alive r1 = rd_alive r /\ rd_rel r1 = rd_rel r /\
    LOk b (send (set_rd (set_net s rest) (Some r1)) out) p w1.
Proof.
  intros Hdead [K1 K2 K3 K4 K5 K6 K7 K8] Ew Hd Hrest E.
  assert (Hsubs : Forall (lsub (rp_hbc p) (s_last s) (wp_an w)) (dg_subs d)).
  { rewrite Forall_forall in K8. apply (K8 d Hd). }
  destruct (deliver_subs_R_live (rp_hbc p) (s_last s) (wp_an w) cf (dg_subs d) r w [] r1 out Ew
              (conj K3 (conj K5 K7)) Hsubs (Forall_nil _) E) as (w1 & A & B & B' & (C1 & C2 & C3) & D & F).
  exists w1. refine (conj A (conj B (conj B' _))). constructor; cbn; try assumption; try lia.
  apply Forall_app; split.
  - rewrite Forall_forall in *. intros x Hx. eapply ldg_mono; [apply Z.le_refl|exact D|]. apply K8. apply Hrest. assumption.
  - apply Forall_filter. assumption.
Qed.

(* --- delivery of a submessage to the writer *)
Lemma LOk_deliver_sub_W cf s b p w m :
  CInv s -> unfrag cf (s_changes s) -> s_rdead s = false ->
  s_rp s = Some p -> rp_rel p = true -> LOk b s p w ->
  nsub (rp_fr p) (s_last s) (hr_of s) m -> lsub (rp_hbc p) (s_last s) (wp_an w) m ->
  exists q, s_rp (deliver_sub_W cf s m) = Some q /\ rp_static q = rp_static p /\
            LOk b (deliver_sub_W cf s m) q w /\ rp_hbc p <= rp_hbc q.
Proof.
  intros (HS & HN & [A1 A2 A3]) Hu Hdead Ep Hrel [K1 K2 K3 K4 K5 K6 K7 K8] Hn Hl.
  rewrite Ep in A3. destruct A3 as (Hfr & Hhs & Hreq & Hnet & Hrd).
  unfold deliver_sub_W. rewrite Ep.
  destruct m as [c|c k|a b0|f l c|base set count|sn base set count]; cbn in Hl; try contradiction;
    try (exists p; refine (conj Ep (conj eq_refl (conj _ _))); [constructor; assumption|lia]).
  cbn in Hn. destruct Hn as [Hset _].
  unfold on_acknack. replace (rp_rel p && (rp_an p <? count)) with (rp_an p <? count) by (rewrite Hrel; reflexivity).
  destruct (Z.ltb_spec (rp_an p) count) as [Hacc|Hnacc].
  2:{ exists p. cbn. refine (conj eq_refl (conj eq_refl (conj _ _))); [|lia].
      constructor; cbn; try assumption. rewrite app_nil_r. assumption. }
  lazy beta iota zeta.
  set (p1 := mkRP (rp_rel p) (rp_tl p) (rp_hs p) (if rp_ha p <? base - 1 then base - 1 else rp_ha p)
                  (req_add (rp_req p) set) (rp_fr p) count (rp_nf p) (rp_hbc p) (rp_hbt p)).
  assert (Hha1 : 0 <= rp_ha p1) by (cbn; destruct (rp_ha p <? base - 1) eqn:E; [apply Z.ltb_lt in E; lia|assumption]).
  pose proof (write_rel_live (s_last s) cf (s_now s) (s_changes s) p1) as H. rewrite A1 in H.
  specialize (H A2). rewrite <- A1 in H. specialize (H Hu Hhs Hha1 (req_add_bound _ _ _ Hreq Hset)). lazy zeta in H.
  pose proof (write_rel_ha cf (s_now s) (s_changes s) p1) as Hha.
  pose proof (write_rel_class (rp_fr p) (s_last s) cf (s_now s) (s_changes s) p1) as Hcl. rewrite A1 in Hcl.
  specialize (Hcl A2 (proj1 Hfr) eq_refl Hhs (req_add_bound _ _ _ Hreq Hset)). lazy zeta in Hcl. rewrite <- A1 in Hcl.
  destruct (write_rel cf (s_now s) (s_changes s) p1) as [p2 out]. cbn [fst snd] in *.
  destruct H as (W1 & W2 & W3 & W4 & W5 & _).
  destruct Hcl as (_ & _ & _ & Hst & _ & Han & _).
  exists p2.
  assert (E1 : rp_hbc p1 = rp_hbc p) by reflexivity.
  assert (E2 : rp_hbt p1 = rp_hbt p) by reflexivity.
  assert (E3 : rp_an p1 = count) by reflexivity.
  assert (HL : LOk b (send (set_rp s (Some p2)) out) p2 w).
  { constructor; cbn.
    - intros _. assumption.
    - lia.
    - lia.
    - lia.
    - intros H0 Heq. destruct (Z.eq_dec (rp_hbc p) (rp_hbc p2)) as [E|E]; [apply K5; lia|lia].
    - destruct W5 as [[_ ->]|[_ ->]]; lia.
    - assumption.
    - apply Forall_app; split.
      + eapply Forall_impl; [|exact K8]. intros d. apply ldg_mono; lia.
      + apply Forall_filter. eapply Forall_impl; [|exact W3]. intros d. apply hdg_ldg. lia. }
  destruct (is_acked (Some p2) (s_last s)).
  - refine (conj eq_refl (conj Hst (conj _ _))); [destruct HL; constructor; assumption|rewrite <- E1; exact W2].
  - refine (conj eq_refl (conj Hst (conj HL _))). rewrite <- E1; exact W2.
Qed.

(* ------------------------------------------------------------------ state-level preservation *)
Definition Live (b : bool) (cf : cfg) (s : state) : Prop := CInv s /\ LInv b cf s.

Lemma LOk_subnet b s p w n : LOk b s p w -> (forall x, In x n -> In x (s_net s)) -> LOk b (set_net s n) p w.
Proof.
  intros [K1 K2 K3 K4 K5 K6 K7 K8] Hn. constructor; cbn; try assumption.
  rewrite Forall_forall in *. intros x Hx. apply K8. apply Hn. assumption.
Qed.

Lemma fold_W_frame cf l : forall s,
  s_rd (fold_left (deliver_sub_W cf) l s) = s_rd s /\ s_rdead (fold_left (deliver_sub_W cf) l s) = s_rdead s.
Proof.
  induction l as [|m t IH]; intros s; cbn [fold_left]; [tauto|].
  destruct (IH (deliver_sub_W cf s m)) as [A B]. destruct (deliver_sub_W_frame cf s m) as (F1 & F2 & _).
  split; congruence.
Qed.

Lemma Live_fold_W cf b l : forall s, Live b cf s ->
  (forall p, s_rp s = Some p -> Forall (nsub (rp_fr p) (s_last s) (hr_of s)) l) ->
  (forall p r w, s_rp s = Some p -> rp_rel p = true -> s_rd s = Some r -> rd_wp r = Some w ->
     Forall (lsub (rp_hbc p) (s_last s) (wp_an w)) l) ->
  Live b cf (fold_left (deliver_sub_W cf) l s).
Proof.
  induction l as [|m t IH]; intros s HL Hn Hl; cbn [fold_left]; [assumption|].
  destruct HL as [HC (L1 & L2 & L3 & L4 & L5)].
  assert (HC1 : CInv (deliver_sub_W cf s m)).
  { apply CInv_deliver_sub_W; [assumption|]. intros p Ep. specialize (Hn p Ep). inversion Hn; assumption. }
  destruct (core_proj _ _ (deliver_sub_W_core cf s m)) as (C1 & C2 & _ & C4 & C5).
  destruct (deliver_sub_W_frame cf s m) as (F1 & F2 & F3).
  apply IH.
  - split; [assumption|]. linv_split; try congruence.
    + rewrite C1. assumption.
    + intros r Hr. apply L4. congruence.
    + intros p' r w Ep' Hrel' Er Ew. rewrite F1 in Er.
      destruct (s_rp s) as [p|] eqn:Ep.
      2:{ assert (Hs : deliver_sub_W cf s m = s) by (unfold deliver_sub_W; rewrite Ep; reflexivity).
          rewrite Hs in Ep'. congruence. }
      destruct (F3 p eq_refl) as [q [Eq Hst]]. assert (p' = q) by congruence. subst p'.
      apply static_fr in Hst. destruct Hst as (_ & Hrelq & _).
      assert (Hrel : rp_rel p = true) by congruence.
      specialize (Hn p eq_refl). inversion Hn; subst.
      specialize (Hl p r w eq_refl Hrel Er Ew). inversion Hl; subst.
      destruct (LOk_deliver_sub_W cf s b p w m HC L2 L3 Ep Hrel (L5 p r w eq_refl Hrel Er Ew) H1 H3) as (q' & Eq' & _ & HLq & _).
      assert (q' = q) by congruence. subst q'. exact HLq.
  - intros q Eq. rewrite C2. unfold hr_of. rewrite F1. fold (hr_of s).
    destruct (s_rp s) as [p|] eqn:Ep.
    2:{ assert (Hs : deliver_sub_W cf s m = s) by (unfold deliver_sub_W; rewrite Ep; reflexivity).
        rewrite Hs in Eq. congruence. }
    destruct (F3 p eq_refl) as [q' [Eq' Hst]]. assert (q' = q) by congruence. subst q'.
    apply static_fr in Hst. destruct Hst as (Hfr & _). rewrite Hfr.
    specialize (Hn p eq_refl). inversion Hn; assumption.
  - intros q r w Eq Hrelq Er Ew. rewrite F1 in Er. rewrite C2.
    destruct (s_rp s) as [p|] eqn:Ep.
    2:{ assert (Hs : deliver_sub_W cf s m = s) by (unfold deliver_sub_W; rewrite Ep; reflexivity).
        rewrite Hs in Eq. congruence. }
    destruct (F3 p eq_refl) as [q' [Eq' Hst]]. assert (q' = q) by congruence. subst q'.
    apply static_fr in Hst. destruct Hst as (_ & Hrelq' & _).
    assert (Hrel : rp_rel p = true) by congruence.
    pose proof (Hn p eq_refl) as Hn'. inversion Hn'; subst.
    pose proof (Hl p r w eq_refl Hrel Er Ew) as Hl'. inversion Hl'; subst.
    destruct (LOk_deliver_sub_W cf s b p w m HC L2 L3 Ep Hrel (L5 p r w eq_refl Hrel Er Ew) H1 H3) as (q' & Eq'' & _ & _ & Hmono).
    assert (q' = q) by congruence. subst q'.
    eapply Forall_impl; [|exact H4]. intros x Hx.
    destruct x; cbn in *; try tauto; try lia.
Qed.

Lemma Live_deliver cf b s d rest : Live b cf s -> In d (s_net s) -> (forall x, In x rest -> In x (s_net s)) ->
  Live b cf (deliver_dgram cf (set_net s rest) d).
Proof.
  intros [HC HL] Hd Hrest. split; [apply CInv_deliver; assumption|].
  pose proof HC as (HS & HN & [A1 A2 A3]). pose proof HL as (L1 & L2 & L3 & L4 & L5).
  assert (HLr : Live b cf (set_net s rest)).
  { split.
    - destruct HC as (X & Y & Z). split; [|split].
      + apply SInv_set_net; [assumption|]. pose proof (si_net s X) as Hn. rewrite Forall_forall in *. auto.
      + intros Hn. cbn in *. destruct (Y Hn) as [E1 E2]. rewrite E1 in Hd. contradiction.
      + apply AInv_set_net; assumption.
    - linv_split; try assumption. intros p r w Ep Hrel Er Ew. apply LOk_subnet; [|assumption]. apply (L5 p r w); assumption. }
  unfold deliver_dgram. destruct (dg_toR d) eqn:Edir.
  - cbn [s_rdead set_net]. rewrite L3. cbn [s_rd set_net].
    destruct (s_rd s) as [r|] eqn:Er; [|apply (proj2 HLr)].
    rewrite (L4 r eq_refl).
    destruct (deliver_subs_R cf r (dg_subs d) []) as [r1 out] eqn:E.
    destruct (rd_wp r) as [w|] eqn:Ew.
    2:{ rewrite (deliver_subs_R_nowp cf r (dg_subs d) [] Ew) in E. inversion E; subst r1 out.
        linv_split; cbn; try assumption.
        all: try (intros r' Hr'; injection Hr' as <-; exact (L4 r eq_refl)).
        intros p r' w Ep Hrel Er' Ew'. injection Er' as <-. congruence. }
    destruct (s_rp s) as [p|] eqn:Ep.
    2:{ (* no proxy: nothing to show for the proxy part *)
      assert (Halive : rd_alive r1 = true).
      { clear - E L4 Er. (* the reader stays alive: deliver_sub_R never changes rd_alive *)
        assert (G : forall l r acc r1 out, deliver_subs_R cf r l acc = (r1, out) -> rd_alive r1 = rd_alive r).
        { induction l as [|m t IH]; intros r0 acc r2 out0 E0; cbn in E0; [inversion E0; reflexivity|].
          destruct (deliver_sub_R cf r0 m) as [r' o] eqn:Em. apply IH in E0. rewrite E0.
          unfold deliver_sub_R in Em. destruct (rd_wp r0) as [w0|]; [|inversion Em; reflexivity].
          destruct m; try (inversion Em; reflexivity).
          - destruct (on_data _ _ _) as [w1 oc]. inversion Em. destruct oc; reflexivity.
          - destruct (on_frag _ _ _ _ _) as [w1 oc]. inversion Em. destruct oc; reflexivity.
          - destruct (first <=? 0); [inversion Em; reflexivity|].
  destruct (on_hb _ _ _ _ _) as [w1 o1]. destruct (hist_received _); inversion Em; reflexivity. }
        rewrite (G _ _ _ _ _ E). exact (L4 r eq_refl). }
      linv_split; cbn; try assumption.
      all: try (intros r' Hr'; injection Hr' as <-; assumption).
      intros q r' w' Eq. congruence. }
    destruct (rp_rel p) eqn:Erel.
    2:{ assert (Halive : rd_alive r1 = true).
        { assert (G : forall l r acc r1 out, deliver_subs_R cf r l acc = (r1, out) -> rd_alive r1 = rd_alive r).
          { induction l as [|m t IH]; intros r0 acc r2 out0 E0; cbn in E0; [inversion E0; reflexivity|].
            destruct (deliver_sub_R cf r0 m) as [r' o] eqn:Em. apply IH in E0. rewrite E0.
            unfold deliver_sub_R in Em. destruct (rd_wp r0) as [w0|]; [|inversion Em; reflexivity].
            destruct m; try (inversion Em; reflexivity).
            - destruct (on_data _ _ _) as [w1 oc]. inversion Em. destruct oc; reflexivity.
            - destruct (on_frag _ _ _ _ _) as [w1 oc]. inversion Em. destruct oc; reflexivity.
            - destruct (first <=? 0); [inversion Em; reflexivity|].
  destruct (on_hb _ _ _ _ _) as [w1 o1]. destruct (hist_received _); inversion Em; reflexivity. }
          rewrite (G _ _ _ _ _ E). exact (L4 r eq_refl). }
        linv_split; cbn; try assumption.
        all: try (intros r' Hr'; injection Hr' as <-; assumption).
        intros q r' w' Eq Hq. congruence. }
    pose proof (L5 p r w eq_refl Erel eq_refl Ew) as HLOk.
    destruct (LOk_deliver_R cf s b p r w d rest r1 out L3 HLOk Ew Hd Hrest E) as (w1 & Q1 & Q2 & Q3 & Q4).
    linv_split; cbn; try assumption.
    all: try (intros r' Hr'; injection Hr' as <-; rewrite Q2; exact (L4 r eq_refl)).
    intros q r' w' Eq Hq Er' Ew'. assert (q = p) by congruence. subst q. injection Er' as <-.
    assert (w' = w1) by congruence. subst w'. exact Q4.
  - refine (proj2 (Live_fold_W cf b (dg_subs d) (set_net s rest) HLr _ _)).
    + intros p Ep. cbn in Ep. rewrite Ep in A3. destruct A3 as (_ & _ & _ & Hnet & _).
      rewrite Forall_forall in Hnet. apply (Hnet d Hd).
    + intros p r w Ep Hrel Er Ew. cbn in *.
      destruct (L5 p r w Ep Hrel Er Ew) as [_ _ _ _ _ _ _ K8]. rewrite Forall_forall in K8. apply (K8 d Hd).
Qed.

Lemma Live_poke cf b s : Live b cf s -> Live true cf (poke cf s).
Proof. intros [HC HL]. split; [apply CInv_poke; assumption|eapply LInv_poke; eassumption]. Qed.

Lemma Live_pump cf fuel : forall s n, Live true cf s -> Live true cf (fst (pump fuel cf s n)).
Proof.
  induction fuel as [|f IH]; intros s n H; cbn [pump]; [assumption|].
  destruct (s_net s) as [|d t] eqn:En; [assumption|].
  apply IH. apply Live_poke with (b := true). apply Live_deliver; [assumption|rewrite En; left; reflexivity|].
  intros x Hx. rewrite En. right. assumption.
Qed.

(* --- nothing ever looks at the queue: an extra queued copy commutes with every operation *)
Definition add_front (x : dgram) (s : state) : state := set_net s (x :: s_net s).

Lemma send_add_front x s out : send (add_front x s) out = add_front x (send s out).
Proof. reflexivity. Qed.

Lemma poke_add_front cf x s : poke cf (add_front x s) = add_front x (poke cf s).
Proof.
  unfold poke. cbn [s_rp add_front set_net s_now s_changes]. destruct (s_rp s); [|reflexivity].
  destruct (write_message _ _ _ _). reflexivity.
Qed.

Lemma deliver_sub_W_add_front cf x s m : deliver_sub_W cf (add_front x s) m = add_front x (deliver_sub_W cf s m).
Proof.
  unfold deliver_sub_W. cbn [s_rp add_front set_net s_now s_changes s_last]. destruct (s_rp s); [|reflexivity].
  destruct m; try reflexivity.
  - destruct (on_acknack _ _ _ _ _ _ _) as [[p1 o] sm]. destruct (sm && _); reflexivity.
  - destruct (on_nackfrag _ _ _ _ _ _ _). reflexivity.
Qed.

Lemma deliver_dgram_add_front cf x s d : deliver_dgram cf (add_front x s) d = add_front x (deliver_dgram cf s d).
Proof.
  unfold deliver_dgram. destruct (dg_toR d).
  - cbn [s_rdead s_rd add_front set_net]. destruct (s_rdead s); [reflexivity|].
    destruct (s_rd s) as [r|]; [|reflexivity]. destruct (rd_alive r); [|reflexivity].
    destruct (deliver_subs_R _ _ _ _). reflexivity.
  - revert s. induction (dg_subs d) as [|m t IH]; intros s; cbn [fold_left]; [reflexivity|].
    rewrite deliver_sub_W_add_front. apply IH.
Qed.

Lemma set_net_add_front x s : set_net (add_front x s) (s_net s) = s.
Proof. destruct s. reflexivity. Qed.

(* Live only constrains the elements of the queue *)
Lemma Live_same_elements cf b s n : Live b cf s -> (forall x, In x n -> In x (s_net s)) ->
  (s_rd s = None -> n = []) -> Live b cf (set_net s n).
Proof.
  intros [(HS & HN & HA) (L1 & L2 & L3 & L4 & L5)] Hn Hnil. split.
  - split; [|split].
    + apply SInv_set_net; [assumption|]. pose proof (si_net s HS) as H. rewrite Forall_forall in *. auto.
    + intros Hr. cbn in *. destruct (HN Hr) as [_ E2]. split; [auto|assumption].
    + apply AInv_set_net; assumption.
  - linv_split; try assumption. intros p r w Ep Hrel Er Ew. apply LOk_subnet; [|assumption]. apply (L5 p r w); assumption.
Qed.

Lemma Live_dup cf b s d rest : Live b cf s -> In d (s_net s) -> (forall x, In x rest -> In x (s_net s)) ->
  Live b cf (deliver_dgram cf (poke cf (deliver_dgram cf (set_net s rest) d)) d).
Proof.
  intros HL Hd Hrest.
  (* the same run with a second copy of d queued in front *)
  assert (H0 : Live b cf (set_net s (d :: rest))).
  { apply Live_same_elements; [assumption| |].
    - intros x [<-|Hx]; auto.
    - intros Hr. destruct HL as [(_ & HN & _) _]. destruct (HN Hr) as [E _]. rewrite E in Hd. contradiction. }
  assert (H1 : Live b cf (deliver_dgram cf (set_net (set_net s (d :: rest)) (d :: rest)) d)).
  { apply Live_deliver; [assumption|left; reflexivity|auto]. }
  assert (E1 : set_net (set_net s (d :: rest)) (d :: rest) = add_front d (set_net s rest)) by reflexivity.
  rewrite E1, deliver_dgram_add_front in H1.
  apply Live_poke in H1. rewrite poke_add_front in H1.
  set (s2 := poke cf (deliver_dgram cf (set_net s rest) d)) in *.
  destruct b.
  - pose proof (Live_deliver cf true (add_front d s2) d (s_net s2) H1 (or_introl eq_refl)) as H2.
    rewrite set_net_add_front in H2. apply H2. intros x Hx. right. assumption.
  - apply Live_poke in HL. (* not needed: keep the weaker flag *)
    pose proof (Live_deliver cf true (add_front d s2) d (s_net s2) H1 (or_introl eq_refl)) as H2.
    rewrite set_net_add_front in H2. destruct H2 as [X Y]; [intros x Hx; right; assumption|].
    split; [assumption|apply LInv_weaken; assumption].
Qed.

(* --- the class of actions *)

Lemma live_not_remove cf a : live_act cf a = true -> not_remove a = true.
Proof. destruct a; cbn; auto. Qed.

Lemma nfrags_le1 cf sn k len sum : 0 < fsz cf -> 0 <= len <= fsz cf -> nfrags cf (mkCh sn k len sum) <= 1.
Proof.
  intros Hf Hl. unfold nfrags, div_ceil. cbn [c_len].
  destruct (Z.eq_dec len (fsz cf)) as [->|Hne].
  - rewrite Z.div_same by lia. rewrite Z.mod_same by lia. cbn. lia.
  - rewrite Z.div_small by lia. destruct (len mod fsz cf =? 0); lia.
Qed.

Lemma LInv_write cf s key len sum : 0 < fsz cf -> depth cf = 0 -> 0 <= len <= fsz cf ->
  Live true cf s -> Live true cf (fst (step cf s (AWrite key len sum))).
Proof.
  intros Hf Hd Hlen [HC HL]. split; [apply CInv_step; [assumption|reflexivity|assumption]|].
  pose proof (CInv_act cf s (AWrite key len sum) Hd eq_refl HC) as HC1.
  unfold step in *. cbn [act] in *.
  pose proof (do_write_frame cf s key len sum) as (F1 & F2 & F3 & F4 & F5 & F6 & F7).
  pose proof (do_write_spec cf s key len sum) as Hw.
  destruct (do_write cf s key len sum) as [s1 code]. cbn [fst snd] in *.
  destruct Hw as [[-> _]|[chs1 (W1 & W2 & W3 & W4 & W5 & W6)]].
  { eapply LInv_poke; eassumption. }
  specialize (W6 Hd). subst chs1.
  destruct HL as (L1 & L2 & L3 & L4 & L5).
  assert (Hu1 : unfrag cf (s_changes s1)).
  { rewrite W2. intros c Hc. apply in_app_or in Hc. destruct Hc as [Hc|[<-|[]]]; [apply L2; assumption|].
    apply nfrags_le1; assumption. }
  pose proof HC as (HS & HN & [A1 A2 A3]). pose proof HC1 as (HS1 & HN1 & [B1 B2 B3]).
  assert (Hun : 0 <= s_now s1 /\ s_rdead s1 = false /\ (forall r, s_rd s1 = Some r -> rd_alive r = true)).
  { rewrite F4, F7, F2. auto. }
  destruct Hun as (U1 & U3 & U4).
  unfold poke. rewrite F1.
  destruct (s_rp s) as [p|] eqn:Ep.
  2:{ linv_split; try assumption. intros q r w Eq. congruence. }
  rewrite F1 in B3. destruct B3 as (Hfr1 & Hhs1 & Hreq1 & Hnet1 & Hrd1). destruct A3 as (Hfr & Hhs & Hreq & Hnet & Hrd).
  unfold write_message. destruct (rp_rel p) eqn:Erel.
  2:{ pose proof (write_be_static (S (2 * length (s_changes s1))) cf (s_changes s1) p []) as Hs.
      destruct (write_be_loop (S (2 * length (s_changes s1))) cf (s_changes s1) p []) as [p1 out]. cbn [fst] in Hs.
      apply static_fr in Hs. destruct Hs as (_ & Hrel & _).
      linv_split; cbn; try assumption.
      intros q r w Eq Hq. injection Eq as <-. congruence. }
  destruct (s_rd s) as [r|] eqn:Er.
  2:{ destruct (write_rel cf (s_now s1) (s_changes s1) p) as [p1 out].
      linv_split; cbn; try assumption. intros q r w _ _ Hr. congruence. }
  destruct (rd_wp r) as [w|] eqn:Ew.
  2:{ destruct (write_rel cf (s_now s1) (s_changes s1) p) as [p1 out].
      linv_split; cbn; try assumption.
      intros q r' w _ _ Hr Hw. assert (r' = r) by congruence. subst r'. congruence. }
  destruct (L5 p r w eq_refl Erel eq_refl Ew) as [K1 K2 K3 K4 K5 K6 K7 K8].
  pose proof (write_rel_live (s_last s1) cf (s_now s1) (s_changes s1) p) as H. rewrite B1 in H.
  specialize (H B2). rewrite <- B1 in H. specialize (H Hu1 Hhs1 K2 Hreq1). lazy zeta in H.
  pose proof (write_rel_ha cf (s_now s1) (s_changes s1) p) as Hha.
  pose proof (write_rel_class (rp_fr p) (s_last s1) cf (s_now s1) (s_changes s1) p) as Hcl. rewrite B1 in Hcl.
  specialize (Hcl B2 (proj1 Hfr1) eq_refl Hhs1 Hreq1). lazy zeta in Hcl. rewrite <- B1 in Hcl.
  destruct (write_rel cf (s_now s1) (s_changes s1) p) as [p1 out]. cbn [fst snd] in *.
  destruct H as (V1 & V2 & V3 & V4 & V5 & _ & _ & V8).
  destruct Hcl as (_ & _ & _ & Hst & _ & Han & _).
  assert (Hstrict : rp_hbc p < rp_hbc p1) by (apply V8; [rewrite (K1 eq_refl); lia|lia]).
  linv_split; cbn; try assumption.
  intros q r' w' Eq Hq Er' Ew'. injection Eq as <-. assert (r' = r) by congruence. subst r'.
  assert (w' = w) by congruence. subst w'.
  { constructor; cbn.
    + intros _. assumption.
    + lia.
    + lia.
    + lia.
    + intros H0 Heq. lia.
    + destruct V5 as [[_ ->]|[_ ->]]; lia.
    + assumption.
    + apply Forall_app; split.
      * rewrite F3. eapply Forall_impl; [|exact K8]. intros d. apply ldg_mono_write. assumption.
      * apply Forall_filter. eapply Forall_impl; [|exact V3]. intros d. apply hdg_ldg. lia. }
Qed.

(* states that differ only in fields the live invariant does not look at *)
Lemma LInv_ext cf b s s' :
  LInv b cf s -> s_now s <= s_now s' ->
  s_changes s' = s_changes s -> s_last s' = s_last s -> s_rp s' = s_rp s -> s_rdead s' = s_rdead s ->
  s_net s' = s_net s ->
  (forall r', s_rd s' = Some r' -> exists r, s_rd s = Some r /\ rd_alive r' = rd_alive r /\ rd_wp r' = rd_wp r) ->
  LInv b cf s'.
Proof.
  intros (L1 & L2 & L3 & L4 & L5) Hnow Hc Hl Hp Hd Hn Hr. linv_split.
  - lia.
  - rewrite Hc. assumption.
  - congruence.
  - intros r' Hr'. destruct (Hr r' Hr') as (r & E1 & E2 & _). rewrite E2. apply L4. assumption.
  - intros p r' w Ep Hrel Er' Ew. destruct (Hr r' Er') as (r & E1 & _ & E3).
    rewrite Hp in Ep. rewrite E3 in Ew. destruct (L5 p r w Ep Hrel E1 Ew) as [K1 K2 K3 K4 K5 K6 K7 K8].
    constructor; try assumption; try (rewrite Hl; assumption); try lia. rewrite Hl, Hn. assumption.
Qed.

Lemma Live_step cf s a : 0 < fsz cf -> depth cf = 0 -> live_act cf a = true ->
  Live true cf s -> Live true cf (fst (step cf s a)).
Proof.
  intros Hf Hd Ha HL. pose proof HL as [HC HLI].
  destruct a; try discriminate.
  - (* AWrite *) cbn in Ha. apply andb_prop in Ha. destruct Ha as [H1 H2]. apply Z.leb_le in H1. apply Z.leb_le in H2.
    apply LInv_write; try assumption. lia.
  - (* ATick *) unfold step. cbn [act fst]. apply Live_poke with (b := true). split.
    + apply (CInv_act cf s ATick Hd eq_refl HC).
    + eapply LInv_ext; [exact HLI|cbn; unfold tick_ms; lia|reflexivity|reflexivity|reflexivity|reflexivity|reflexivity|].
      intros r' Hr'. exists r'. auto.
  - (* ADeliver *) unfold step. cbn [act]. destruct (nth_error (s_net s) i) as [d|] eqn:E; cbn [fst].
    + apply Live_poke with (b := true). apply Live_deliver; [assumption|eapply nth_error_In; eassumption|].
      intros x Hx. eapply remove_nth_in. exact Hx.
    + apply Live_poke with (b := true). assumption.
  - (* ADrop *) unfold step. cbn [act]. destruct (nth_error (s_net s) i) as [d|] eqn:E; cbn [fst].
    + apply Live_poke with (b := true). apply Live_same_elements; [assumption| |].
      * intros x Hx. eapply remove_nth_in. exact Hx.
      * intros Hr. destruct HC as (_ & HN & _). destruct (HN Hr) as [En _]. rewrite En in E. destruct i; discriminate.
    + apply Live_poke with (b := true). assumption.
  - (* ADup *) unfold step. cbn [act]. destruct (nth_error (s_net s) i) as [d|] eqn:E; cbn [fst].
    + apply Live_poke with (b := true). apply Live_dup; [assumption|eapply nth_error_In; eassumption|].
      intros x Hx. eapply remove_nth_in. exact Hx.
    + apply Live_poke with (b := true). assumption.
  - (* APump *) unfold step. cbn [act]. pose proof (Live_pump cf pump_fuel s 0 HL) as Hp.
    destruct (pump pump_fuel cf s 0) as [s1 n]. cbn [fst] in *. apply Live_poke with (b := true). assumption.
  - (* ATake *) unfold step. cbn [act]. destruct (s_rd s) as [r|] eqn:Er; [|cbn [fst]; apply Live_poke with (b := true); assumption].
    destruct (rd_alive r) eqn:Eal; cbn [fst]; [|apply Live_poke with (b := true); assumption].
    apply Live_poke with (b := true). split.
    + pose proof (CInv_act cf s ATake Hd eq_refl HC) as H. cbn [act] in H. rewrite Er, Eal in H. exact H.
    + eapply LInv_ext; [exact HLI|cbn; lia|reflexivity|reflexivity|reflexivity|reflexivity|reflexivity|].
      intros r' Hr'. cbn in Hr'. injection Hr' as <-. exists r. cbn. auto.
  - (* AMatch *) unfold step. cbn [act].
    destruct (s_rd s) as [r|] eqn:Er; cbn [fst]; [apply Live_poke with (b := true); assumption|].
    destruct HC as (HS & HN & HA). destruct (HN Er) as [Hnet Hrp]. rewrite Hrp. rewrite orb_false_r.
    destruct HLI as (L1 & L2 & L3 & L4 & L5). rewrite L3.
    destruct (rxo_ok cf rel tl); cbn [fst].
    + apply Live_poke with (b := true). apply Live_poke with (b := false). split.
      * split; [|split].
        -- destruct HS as [S1 S2 S3 S4 S5]. constructor; cbn; try assumption.
           unfold ARInv, RInv, WOk; cbn. repeat split; constructor.
        -- intros Hn. cbn in Hn. discriminate.
        -- destruct HA as [A1 A2 A3]. constructor; cbn; try assumption.
           assert (Hfr : 0 <= (if tl then 0 else last_sn (s_changes s)) <= s_last s).
           { destruct tl; [destruct A2; lia|]. rewrite A1, (contig_last _ _ A2). destruct A2; lia. }
           split; [exact Hfr|]. split; [destruct A2; lia|]. split; [constructor|]. split; [rewrite Hnet; constructor|].
           unfold ROk, RB, RCrel, Complete; cbn. destruct A2 as [_ A2].
           repeat split; try lia; try constructor.
      * linv_split; cbn; try assumption; try reflexivity.
        -- intros r' Hr'. injection Hr' as <-. reflexivity.
        -- intros p r' w Ep Hrel Er' Ew. injection Ep as <-. injection Er' as <-. cbn in Ew. injection Ew as <-.
           constructor; cbn; try lia; try reflexivity; try discriminate.
           rewrite Hnet. constructor.
    + apply Live_poke with (b := true). split.
      * split; [|split].
        -- destruct HS as [S1 S2 S3 S4 S5]. constructor; cbn; try assumption. reflexivity.
        -- intros Hn. cbn in Hn. discriminate.
        -- destruct HA as [A1 A2 A3]. constructor; cbn; try assumption. rewrite Hrp. exact I.
      * linv_split; cbn; try assumption; try reflexivity.
        -- intros r' Hr'. injection Hr' as <-. reflexivity.
        -- intros p r' w Ep. congruence.
  - (* AWfa *) unfold step. cbn [act].
    destruct (is_acked (s_rp s) (s_last s)); cbn [fst]; apply Live_poke with (b := true);
      (split; [apply CInv_set_waits; assumption|]);
      (eapply LInv_ext; [exact HLI|cbn; lia|reflexivity|reflexivity|reflexivity|reflexivity|reflexivity|]);
      intros r' Hr'; exists r'; auto.
  - (* AWfaPoll *) unfold step. cbn [act]. destruct (poll (s_waits s)) as [wl o]. cbn [fst]. apply Live_poke with (b := true).
    split; [apply CInv_set_waits; assumption|].
    eapply LInv_ext; [exact HLI|cbn; lia|reflexivity|reflexivity|reflexivity|reflexivity|reflexivity|].
    intros r' Hr'. exists r'. auto.
  - (* AWfh *) unfold step. pose proof (CInv_act cf s AWfh Hd eq_refl HC) as HC1. cbn [act] in *.
    destruct (s_rd s) as [r|] eqn:Er; [|cbn [fst]; apply Live_poke with (b := true); assumption].
    destruct (negb (rd_alive r)); [cbn [fst]; apply Live_poke with (b := true); assumption|].
    destruct (negb (rd_tl r)); [cbn [fst]; apply Live_poke with (b := true); assumption|].
    destruct (hist_received (rd_wp r)); cbn [fst] in *; apply Live_poke with (b := true); (split; [exact HC1|]);
      (eapply LInv_ext; [exact HLI|cbn; lia|reflexivity|reflexivity|reflexivity|reflexivity|reflexivity|]);
      intros r' Hr'; cbn in Hr'; injection Hr' as <-; exists r; cbn; auto.
  - (* AWfhPoll *) unfold step. pose proof (CInv_act cf s AWfhPoll Hd eq_refl HC) as HC1. cbn [act] in *.
    destruct (s_rd s) as [r|] eqn:Er; [|cbn [fst]; apply Live_poke with (b := true); assumption].
    destruct (poll (rd_hwaits r)) as [wl o]. cbn [fst] in *. apply Live_poke with (b := true). split; [exact HC1|].
    eapply LInv_ext; [exact HLI|cbn; lia|reflexivity|reflexivity|reflexivity|reflexivity|reflexivity|].
    intros r' Hr'. cbn in Hr'. injection Hr' as <-. exists r. cbn. auto.
  - (* AQuery *) unfold step. cbn [act fst]. apply Live_poke with (b := true). assumption.
  - (* ANow *) unfold step. cbn [act fst]. apply Live_poke with (b := true). assumption.
Qed.

Lemma Live_run cf l : 0 < fsz cf -> depth cf = 0 -> forallb (live_act cf) l = true ->
  forall s, Live true cf s -> Live true cf (run cf s l).
Proof.
  intros Hf Hd. induction l as [|a t IH]; intros Hl s H; [exact H|]. cbn in Hl. apply andb_prop in Hl.
  destruct Hl as [Ha Ht]. rewrite run_cons. apply IH; [assumption|]. apply Live_step; assumption.
Qed.

Lemma Live_init cf : Live true cf init.
Proof.
  split; [apply CInv_init|]. linv_split; cbn; try lia; try reflexivity.
  - intros c [].
  - intros r Hr. discriminate.
  - intros p r w Hp. discriminate.
Qed.

(* ------------------------------------------------------------------ the healing invariant *)
Lemma firstn_ge_all {A} n (l : list A) : (length l <= n)%nat -> firstn n l = l.
Proof. revert n; induction l as [|x t IH]; intros n H; destruct n; cbn in *; try reflexivity; try lia. f_equal. apply IH. lia. Qed.

Lemma zrange_length a b : length (zrange a b) = Z.to_nat (b - a + 1).
Proof. unfold zrange. rewrite map_length, seq_length. reflexivity. Qed.

(* the ACKNACK that answers a heartbeat announcing 1..last while hr < last <= 256 requests `last` *)
Lemma ack_set_has_last hr l last : 0 <= hr -> l = last -> hr < last -> last <= 256 ->
  In last (firstn 256 (zrange (Z.max 1 (hr + 1)) (Z.max l hr))).
Proof.
  intros H0 -> Hlt H256. rewrite firstn_ge_all by (rewrite zrange_length; lia). apply in_zrange. lia.
Qed.


(* ------------------------------------------------------------------ datagram shapes in the class *)
Inductive nshape : dgram -> Prop :=
| ns_data1 c : nshape (toR [SData c])                          (* best-effort path *)
| ns_data c f l cnt : nshape (toR [SData c; SHb f l cnt])
| ns_gap a b : nshape (toR [SGap a b])
| ns_gaphb a b f l cnt : nshape (toR [SGap a b; SHb f l cnt])
| ns_hb f l cnt : nshape (toR [SHb f l cnt])
| ns_ack b set cnt : nshape (toW [SAck b set cnt]).

Lemma unsent_rel_shape fuel cf now chs : unfrag cf chs ->
  forall p acc, Forall nshape acc -> Forall nshape (snd (unsent_rel fuel cf now chs p acc)).
Proof.
  intros Hu. induction fuel as [|f IH]; intros p acc Ha; cbn [unsent_rel]; [assumption|].
  destruct (next_unsent p chs) as [n|]; [|assumption].
  destruct (rp_hs p + 1 <? n).
  - unfold gen_hb. apply IH. apply Forall_app; split; [assumption|]. constructor; [constructor|constructor].
  - destruct (lookup_relevant p n chs) as [c|] eqn:El.
    + apply lookup_relevant_in in El. destruct El as (Hc & _ & _). unfold gen_hb.
      assert (1 <? nfrags cf c = false) as -> by (apply Z.ltb_ge; apply Hu; assumption).
      apply IH. apply Forall_app; split; [assumption|]. constructor; [constructor|constructor].
    + apply IH. apply Forall_app; split; [assumption|]. constructor; [constructor|constructor].
Qed.

Lemma req_loop_shape fuel cf now chs : unfrag cf chs ->
  forall p acc, Forall nshape acc -> Forall nshape (snd (req_loop fuel cf now chs p acc)).
Proof.
  intros Hu. induction fuel as [|f IH]; intros p acc Ha; cbn [req_loop]; [assumption|].
  destruct (zmin_list (rp_req p)) as [n|]; [|assumption].
  match goal with |- context [lookup_relevant ?q n chs] => destruct (lookup_relevant q n chs) as [c|] eqn:El end.
  - apply lookup_relevant_in in El. destruct El as (Hc & _ & _). unfold gen_hb.
    assert (1 <? nfrags cf c = false) as -> by (apply Z.ltb_ge; apply Hu; assumption).
    apply IH. apply Forall_app; split; [assumption|]. constructor; [constructor|constructor].
  - apply IH. apply Forall_app; split; [assumption|]. constructor; [constructor|constructor].
Qed.

Lemma write_rel_shape cf now chs p : unfrag cf chs -> Forall nshape (snd (write_rel cf now chs p)).
Proof.
  intros Hu. unfold write_rel.
  match goal with |- context [let '(p1, out1) := ?X in _] => destruct X as [p1 out1] eqn:E1 end.
  apply req_loop_shape; [assumption|].
  destruct (next_unsent p chs).
  - replace out1 with (snd (unsent_rel (S (2 * length chs)) cf now chs p [])) by (rewrite E1; reflexivity).
    apply unsent_rel_shape; [assumption|constructor].
  - destruct (negb _); [inversion E1; constructor|].
    destruct (time_for_hb p now); unfold gen_hb in E1; inversion E1; constructor; constructor.
Qed.

Lemma write_be_shape fuel cf chs : unfrag cf chs ->
  forall p acc, Forall nshape acc -> Forall nshape (snd (write_be_loop fuel cf chs p acc)).
Proof.
  intros Hu. induction fuel as [|f IH]; intros p acc Ha; cbn [write_be_loop]; [assumption|].
  destruct (next_unsent p chs) as [n|]; [|assumption].
  destruct (rp_hs p + 1 <? n).
  - apply IH. apply Forall_app; split; [assumption|]. constructor; [constructor|constructor].
  - destruct (lookup_relevant p n chs) as [c|] eqn:El.
    + apply lookup_relevant_in in El. destruct El as (Hc & _ & _).
      assert (1 <? nfrags cf c = false) as -> by (apply Z.ltb_ge; apply Hu; assumption).
      apply IH. apply Forall_app; split; [assumption|]. constructor; [constructor|constructor].
    + apply IH. apply Forall_app; split; [assumption|]. constructor; [constructor|constructor].
Qed.

Lemma write_message_shape cf now chs p : unfrag cf chs -> Forall nshape (snd (write_message cf now chs p)).
Proof.
  intros Hu. unfold write_message. destruct (rp_rel p); [apply write_rel_shape; assumption|].
  apply write_be_shape; [assumption|constructor].
Qed.

(* --- how the reader processes the shapes *)
Lemma step_nohb cf r w m r1 out : rd_wp r = Some w -> wp_frags w = [] ->
  (match m with SData _ | SGap _ _ => True | _ => False end) ->
  deliver_sub_R cf r m = (r1, out) ->
  exists w1, rd_wp r1 = Some w1 /\ wp_frags w1 = [] /\ wp_hr w <= wp_hr w1 /\ wp_hb w1 = wp_hb w /\
    wp_an w1 = wp_an w /\ wp_la w1 = wp_la w /\ out = [].
Proof.
  intros Ew Hfr Hm E. unfold deliver_sub_R in E. rewrite Ew in E. destruct m; try contradiction.
  - destruct (on_data (rd_rel r) w c) as [w1 oc] eqn:Ed. inversion E; subst.
    destruct (on_data_fields _ _ _ _ _ Ed) as (F1 & F2 & F3 & F4).
    exists w1. destruct (rd_present_proj r w1 oc) as [P1 _].
    refine (conj P1 (conj (F4 Hfr) (conj _ (conj F1 (conj F2 (conj F3 eq_refl)))))).
    unfold on_data in Ed. destruct (rd_rel r).
    + destruct (_ =? _); inversion Ed; subst; cbn; [destruct (Z.ltb_spec (wp_hr w) (c_sn c)); lia|lia].
    + destruct (_ <=? _); [|inversion Ed; subst; lia].
      destruct (_ <? _); inversion Ed; subst; cbn; destruct (Z.ltb_spec (wp_hr w) (c_sn c)); lia.
  - inversion E; subst. exists (on_gap w start base). cbn [rd_present rd_wp].
    unfold on_gap. destruct ((start <? base) && (start <=? avail_max w + 1) && (wp_hr w <? base - 1)) eqn:Eg; cbn; repeat split; try lia; try assumption.
    all: try (apply andb_prop in Eg; destruct Eg as [_ Eg]; apply Z.ltb_lt in Eg; lia).
Qed.

Lemma step_hb cf r w f l c r1 out : rd_wp r = Some w -> wp_frags w = [] ->
  deliver_sub_R cf r (SHb f l c) = (r1, out) ->
  exists w1, rd_wp r1 = Some w1 /\ wp_frags w1 = [] /\ wp_hr w1 = wp_hr w /\
    ((wp_hb w < c /\ wp_hb w1 = c /\ wp_an w1 = wp_an w + 1 /\ wp_la w1 = l /\
      out = [toW [SAck (Z.max (f - 1) (wp_hr w) + 1)
                       (firstn 256 (zrange (Z.max f (wp_hr w + 1)) (Z.max l (wp_hr w)))) (wp_an w + 1)]]) \/
     ((c <= wp_hb w \/ f <= 0) /\ w1 = w /\ out = [])).
Proof.
  intros Ew Hfr E. unfold deliver_sub_R in E. rewrite Ew in E.
  destruct (Z.leb_spec f 0) as [Hf0|Hf0].
  { inversion E; subst. exists w. refine (conj Ew (conj Hfr (conj eq_refl (or_intror _)))). repeat split; auto. }
  destruct (on_hb cf w f l c) as [w1 o1] eqn:Eh. rewrite (on_hb_nofrag cf w f l c Hfr) in Eh.
  assert (Hr1 : rd_wp r1 = Some w1 /\ out = o1).
  { destruct (hist_received (rd_wp (rd_present r w1 None))); inversion E; subst; cbn; auto. }
  destruct Hr1 as (Q1 & ->). exists w1.
  destruct (Z.ltb_spec (wp_hb w) c) as [Hlt|Hge]; inversion Eh; subst w1 o1; cbn.
  - refine (conj Q1 (conj eq_refl (conj eq_refl (or_introl _)))). repeat split; try lia; reflexivity.
  - refine (conj Q1 (conj Hfr (conj eq_refl (or_intror _)))). repeat split; try lia; reflexivity.
Qed.

(* delivery of one shaped datagram to a reader without buffered fragments *)
Lemma deliver_R_shape cf r w d r1 out : rd_wp r = Some w -> wp_frags w = [] -> nshape d -> dg_toR d = true ->
  deliver_subs_R cf r (dg_subs d) [] = (r1, out) ->
  exists w1, rd_wp r1 = Some w1 /\ wp_frags w1 = [] /\ wp_hr w <= wp_hr w1 /\
    ((wp_hb w1 = wp_hb w /\ wp_an w1 = wp_an w /\ wp_la w1 = wp_la w /\ out = [] /\
      (forall f l c, In (SHb f l c) (dg_subs d) -> c <= wp_hb w \/ f <= 0)) \/
     (exists f l c, In (SHb f l c) (dg_subs d) /\ wp_hb w < c /\ wp_hb w1 = c /\ wp_an w1 = wp_an w + 1 /\
        wp_la w1 = l /\
        out = [toW [SAck (Z.max (f - 1) (wp_hr w1) + 1)
                         (firstn 256 (zrange (Z.max f (wp_hr w1 + 1)) (Z.max l (wp_hr w1)))) (wp_an w + 1)]])).
Proof.
  intros Ew Hfr Hsh Hdir E. destruct Hsh; cbn in Hdir; try discriminate; cbn [dg_subs toR deliver_subs_R] in E.
  - (* DATA *) destruct (deliver_sub_R cf r (SData c)) as [r' o] eqn:Em.
    destruct (step_nohb cf r w (SData c) r' o Ew Hfr I Em) as (w1 & A & B & C & D & F & G & ->).
    inversion E; subst. exists w1. refine (conj A (conj B (conj C (or_introl _)))).
    repeat split; try assumption. intros f l c0 [Hx|[]]. discriminate.
  - (* DATA + HEARTBEAT *) destruct (deliver_sub_R cf r (SData c)) as [r' o] eqn:Em.
    destruct (step_nohb cf r w (SData c) r' o Ew Hfr I Em) as (w' & A & B & C & D & F & G & ->).
    destruct (deliver_sub_R cf r' (SHb f l cnt)) as [r2 o2] eqn:Em2.
    destruct (step_hb cf r' w' f l cnt r2 o2 A B Em2) as (w1 & A1 & B1 & C1 & Hc).
    cbn in E. inversion E; subst. exists w1. refine (conj A1 (conj B1 (conj _ _))); [lia|].
    destruct Hc as [(H1 & H2 & H3 & H4 & ->)|(H1 & -> & ->)].
    + right. exists f, l, cnt. rewrite C1. repeat split; try lia; try assumption; try (right; left; reflexivity); try (rewrite F; reflexivity).
    + left. repeat split; try assumption. intros f0 l0 c0 [Hx|[Hx|[]]]; [discriminate|]. inversion Hx; subst. lia.
  - (* GAP *) destruct (deliver_sub_R cf r (SGap a b)) as [r' o] eqn:Em.
    destruct (step_nohb cf r w (SGap a b) r' o Ew Hfr I Em) as (w1 & A & B & C & D & F & G & ->).
    inversion E; subst. exists w1. refine (conj A (conj B (conj C (or_introl _)))).
    repeat split; try assumption. intros f l c0 [Hx|[]]. discriminate.
  - (* GAP + HEARTBEAT *) destruct (deliver_sub_R cf r (SGap a b)) as [r' o] eqn:Em.
    destruct (step_nohb cf r w (SGap a b) r' o Ew Hfr I Em) as (w' & A & B & C & D & F & G & ->).
    destruct (deliver_sub_R cf r' (SHb f l cnt)) as [r2 o2] eqn:Em2.
    destruct (step_hb cf r' w' f l cnt r2 o2 A B Em2) as (w1 & A1 & B1 & C1 & Hc).
    cbn in E. inversion E; subst. exists w1. refine (conj A1 (conj B1 (conj _ _))); [lia|].
    destruct Hc as [(H1 & H2 & H3 & H4 & ->)|(H1 & -> & ->)].
    + right. exists f, l, cnt. rewrite C1. repeat split; try lia; try assumption; try (right; left; reflexivity); try (rewrite F; reflexivity).
    + left. repeat split; try assumption. intros f0 l0 c0 [Hx|[Hx|[]]]; [discriminate|]. inversion Hx; subst. lia.
  - (* HEARTBEAT *) destruct (deliver_sub_R cf r (SHb f l cnt)) as [r2 o2] eqn:Em2.
    destruct (step_hb cf r w f l cnt r2 o2 Ew Hfr Em2) as (w1 & A1 & B1 & C1 & Hc).
    cbn in E. inversion E; subst. exists w1. refine (conj A1 (conj B1 (conj _ _))); [lia|].
    destruct Hc as [(H1 & H2 & H3 & H4 & ->)|(H1 & -> & ->)].
    + right. exists f, l, cnt. rewrite C1. repeat split; try lia; try assumption; try (left; reflexivity).
    + left. repeat split; try reflexivity. intros f0 l0 c0 [Hx|[]]. inversion Hx; subst. lia.
Qed.

Lemma unsent_rel_an fuel cf now chs : forall p acc, rp_an (fst (unsent_rel fuel cf now chs p acc)) = rp_an p.
Proof.
  induction fuel as [|f IH]; intros p acc; cbn [unsent_rel]; [reflexivity|].
  destruct (next_unsent p chs) as [n|]; [|reflexivity].
  destruct (rp_hs p + 1 <? n); [unfold gen_hb; rewrite IH; reflexivity|].
  destruct (lookup_relevant p n chs) as [c|]; [|rewrite IH; reflexivity].
  unfold gen_hb. destruct (1 <? nfrags cf c); rewrite IH; reflexivity.
Qed.
Lemma req_loop_an fuel cf now chs : forall p acc, rp_an (fst (req_loop fuel cf now chs p acc)) = rp_an p.
Proof.
  induction fuel as [|f IH]; intros p acc; cbn [req_loop]; [reflexivity|].
  destruct (zmin_list (rp_req p)) as [n|]; [|reflexivity].
  match goal with |- context [lookup_relevant ?q n chs] => destruct (lookup_relevant q n chs) as [c|] end.
  - unfold gen_hb. destruct (1 <? nfrags cf c); rewrite IH; reflexivity.
  - rewrite IH. reflexivity.
Qed.
Lemma write_rel_an cf now chs p : rp_an (fst (write_rel cf now chs p)) = rp_an p.
Proof.
  unfold write_rel.
  match goal with |- context [let '(p1, out1) := ?X in _] => destruct X as [p1 out1] eqn:E1 end.
  rewrite req_loop_an.
  destruct (next_unsent p chs).
  - replace p1 with (fst (unsent_rel (S (2 * length chs)) cf now chs p [])) by (rewrite E1; reflexivity).
    apply unsent_rel_an.
  - destruct (negb _); [inversion E1; reflexivity|].
    destruct (time_for_hb p now); unfold gen_hb in E1; inversion E1; reflexivity.
Qed.

(* ------------------------------------------------------------------ the writer's answer to an ACKNACK *)
Lemma req_add_in req set n : In n req \/ In n set -> In n (req_add req set).
Proof.
  revert req. induction set as [|x t IH]; intros req [H|H]; cbn; try assumption; try contradiction.
  - apply IH. left. destruct (zmem x req); [assumption|apply in_or_app; left; assumption].
  - destruct H as [->|H].
    + apply IH. left. destruct (zmem n req) eqn:E; [|apply in_or_app; right; left; reflexivity].
      unfold zmem in E. apply existsb_exists in E. destruct E as [y [Hy Ey]]. apply Z.eqb_eq in Ey. subst y. assumption.
    + apply IH. right. assumption.
Qed.

Lemma on_acknack_G last cf now chs p base set count :
  Contig chs last -> unfrag cf chs -> rp_rel p = true ->
  0 <= rp_hs p <= last -> 0 <= rp_ha p -> Forall (fun n => 1 <= n <= last) (rp_req p) ->
  Forall (fun n => 1 <= n <= last) set ->
  let r := on_acknack cf now chs p base set count in
  let q := fst (fst r) in let out := snd (fst r) in
  rp_hbc p <= rp_hbc q /\ Forall (hdg (rp_hbc p) (rp_hbc q) last) out /\ Forall nshape out /\
  (rp_hbc p < rp_hbc q -> has_hb (rp_hbc q) last out) /\
  rp_an q = (if rp_an p <? count then count else rp_an p) /\ rp_static q = rp_static p /\
  (rp_an p < count -> (exists n, In n set /\ rp_fr p < n) -> rp_hbc p < rp_hbc q).
Proof.
  intros Hc Hu Hrel Hhs Hha Hreq Hset. unfold on_acknack.
  replace (rp_rel p && (rp_an p <? count)) with (rp_an p <? count) by (rewrite Hrel; reflexivity).
  destruct (Z.ltb_spec (rp_an p) count) as [Hacc|Hnacc].
  2:{ cbn. repeat split; try lia; try constructor. }
  lazy beta iota zeta.
  set (p1 := mkRP (rp_rel p) (rp_tl p) (rp_hs p) (if rp_ha p <? base - 1 then base - 1 else rp_ha p)
                  (req_add (rp_req p) set) (rp_fr p) count (rp_nf p) (rp_hbc p) (rp_hbt p)).
  assert (Hha1 : 0 <= rp_ha p1) by (cbn; destruct (rp_ha p <? base - 1) eqn:E; [apply Z.ltb_lt in E; lia|assumption]).
  pose proof (write_rel_live last cf now chs p1 Hc Hu Hhs Hha1 (req_add_bound _ _ _ Hreq Hset)) as H. lazy zeta in H.
  pose proof (write_rel_static cf now chs p1) as Hst.
  pose proof (write_rel_an cf now chs p1) as Han.
  pose proof (write_rel_shape cf now chs p1 Hu) as Hsh.
  assert (E1 : rp_hbc p1 = rp_hbc p) by reflexivity.
  assert (E3 : rp_fr p1 = rp_fr p) by reflexivity.
  destruct (write_rel cf now chs p1) as [p2 out]. cbn [fst snd] in *.
  destruct H as (W1 & W2 & W3 & W4 & W5 & W6 & _).
  lazy zeta. cbn [fst snd].
  split; [lia|]. split; [rewrite <- E1; assumption|]. split; [assumption|]. split; [rewrite <- E1; assumption|].
  split; [rewrite Han; reflexivity|]. split; [rewrite Hst; reflexivity|].
  intros _ [n [Hn Hfr]]. rewrite <- E1. apply W6. exists n. split; [|lia]. cbn. apply req_add_in. right. assumption.
Qed.

(* ------------------------------------------------------------------ shapes are invariant in the class *)
Definition ShInv (s : state) : Prop :=
  Forall nshape (s_net s) /\ (forall r w, s_rd s = Some r -> rd_wp r = Some w -> wp_frags w = []).

Lemma Sh_poke cf s : unfrag cf (s_changes s) -> ShInv s -> ShInv (poke cf s).
Proof.
  intros Hu [H1 H2]. unfold poke. destruct (s_rp s) as [p|]; [|split; assumption].
  pose proof (write_message_shape cf (s_now s) (s_changes s) p Hu) as Hs.
  destruct (write_message cf (s_now s) (s_changes s) p) as [p1 out]. cbn [snd] in Hs. split; cbn.
  - apply Forall_app; split; [assumption|apply Forall_filter; assumption].
  - assumption.
Qed.

Lemma Sh_deliver cf s d : unfrag cf (s_changes s) -> ShInv s -> nshape d -> ShInv (deliver_dgram cf s d).
Proof.
  intros Hu HSh Hd. pose proof HSh as [H1 H2]. unfold deliver_dgram. destruct (dg_toR d) eqn:Edir.
  - destruct (s_rdead s); [exact HSh|]. destruct (s_rd s) as [r|] eqn:Er; [|exact HSh].
    destruct (rd_alive r); [|exact HSh].
    destruct (deliver_subs_R cf r (dg_subs d) []) as [r1 out] eqn:E.
    destruct (rd_wp r) as [w|] eqn:Ew.
    + destruct (deliver_R_shape cf r w d r1 out Ew (H2 r w eq_refl Ew) Hd Edir E) as (w1 & A & B & C & Hc).
      split; cbn.
      * apply Forall_app; split; [assumption|]. apply Forall_filter.
        destruct Hc as [(_ & _ & _ & -> & _)|(f & l & c & _ & _ & _ & _ & _ & ->)]; [constructor|].
        constructor; [constructor|constructor].
      * intros r' w' Hr' Hw'. injection Hr' as <-. congruence.
    + rewrite (deliver_subs_R_nowp cf r (dg_subs d) [] Ew) in E. inversion E; subst. split; cbn.
      * rewrite app_nil_r. assumption.
      * intros r' w' Hr' Hw'. injection Hr' as <-. congruence.
  - destruct Hd; cbn in Edir; try discriminate. cbn [dg_subs toW fold_left].
    unfold deliver_sub_W. destruct (s_rp s) as [p|]; [|exact HSh].
    assert (Hsh : Forall nshape (snd (fst (on_acknack cf (s_now s) (s_changes s) p b set cnt)))).
    { unfold on_acknack. destruct (rp_rel p && _); [|constructor].
      match goal with |- context [write_rel cf (s_now s) (s_changes s) ?q] =>
        pose proof (write_rel_shape cf (s_now s) (s_changes s) q Hu) as Hs;
        destruct (write_rel cf (s_now s) (s_changes s) q) as [p2 out] end. exact Hs. }
    destruct (on_acknack cf (s_now s) (s_changes s) p b set cnt) as [[p1 out] sm]. cbn [fst snd] in Hsh.
    assert (Hres : ShInv (send (set_rp s (Some p1)) out)).
    { split; cbn; [|assumption]. apply Forall_app; split; [assumption|apply Forall_filter; assumption]. }
    destruct (sm && _); [|exact Hres]. destruct Hres as [X Y]. split; assumption.
Qed.

Lemma Sh_pump cf fuel : forall s n, unfrag cf (s_changes s) -> ShInv s -> ShInv (fst (pump fuel cf s n)).
Proof.
  induction fuel as [|f IH]; intros s n Hu H; cbn [pump]; [assumption|].
  destruct (s_net s) as [|d t] eqn:En; [assumption|].
  assert (Hd : nshape d /\ Forall nshape t) by (destruct H as [H1 _]; rewrite En in H1; inversion H1; auto).
  assert (Hu' : unfrag cf (s_changes (deliver_dgram cf (set_net s t) d))).
  { destruct (core_proj _ _ (deliver_dgram_core cf (set_net s t) d)) as (C1 & _). rewrite C1. assumption. }
  apply IH.
  - destruct (core_proj _ _ (poke_core cf (deliver_dgram cf (set_net s t) d))) as (C1 & _). rewrite C1. assumption.
  - apply Sh_poke; [assumption|]. apply Sh_deliver; [assumption| |tauto].
    destruct H as [_ H2]. split; [tauto|assumption].
Qed.

Lemma Sh_step cf s a : 0 < fsz cf -> depth cf = 0 -> live_act cf a = true ->
  unfrag cf (s_changes s) -> ShInv s -> ShInv (fst (step cf s a)) /\ unfrag cf (s_changes (fst (step cf s a))).
Proof.
  intros Hf Hd Ha Hu HS. unfold step.
  assert (H : ShInv (fst (act cf s a)) /\ unfrag cf (s_changes (fst (act cf s a)))).
  { destruct a; cbn [act]; try discriminate.
    - cbn in Ha. apply andb_prop in Ha. destruct Ha as [H1 H2]. apply Z.leb_le in H1. apply Z.leb_le in H2.
      pose proof (do_write_frame cf s key len sum) as (F1 & F2 & F3 & _).
      pose proof (do_write_spec cf s key len sum) as Hw.
      destruct (do_write cf s key len sum) as [s1 code]. cbn [fst snd] in *.
      destruct Hw as [[-> _]|[chs1 (W1 & W2 & _ & _ & _ & W6)]]; [tauto|]. specialize (W6 Hd). subst chs1.
      split.
      + destruct HS as [X Y]. split; [rewrite F3; assumption|rewrite F2; assumption].
      + rewrite W2. intros c Hc. apply in_app_or in Hc. destruct Hc as [Hc|[<-|[]]]; [apply Hu; assumption|].
        apply nfrags_le1; [assumption|lia].
    - cbn. tauto.
    - destruct (nth_error (s_net s) i) as [d|] eqn:E; [|tauto]. cbn [fst]. split.
      + apply Sh_deliver; [assumption| |].
        * destruct HS as [X Y]. split; [apply Forall_remove_nth; assumption|assumption].
        * destruct HS as [X _]. eapply Forall_nth_error; eassumption.
      + destruct (core_proj _ _ (deliver_dgram_core cf (set_net s (remove_nth i (s_net s))) d)) as (C1 & _). rewrite C1. assumption.
    - destruct (nth_error (s_net s) i) as [d|] eqn:E; [|tauto]. cbn [fst]. split; [|assumption].
      destruct HS as [X Y]. split; [apply Forall_remove_nth; assumption|assumption].
    - destruct (nth_error (s_net s) i) as [d|] eqn:E; [|tauto]. cbn [fst].
      assert (Hd' : nshape d) by (destruct HS as [X _]; eapply Forall_nth_error; eassumption).
      assert (H1 : ShInv (deliver_dgram cf (set_net s (remove_nth i (s_net s))) d)).
      { apply Sh_deliver; [assumption| |assumption]. destruct HS as [X Y]. split; [apply Forall_remove_nth; assumption|assumption]. }
      destruct (core_proj _ _ (deliver_dgram_core cf (set_net s (remove_nth i (s_net s))) d)) as (C1 & _).
      destruct (core_proj _ _ (poke_core cf (deliver_dgram cf (set_net s (remove_nth i (s_net s))) d))) as (C2 & _).
      destruct (core_proj _ _ (deliver_dgram_core cf (poke cf (deliver_dgram cf (set_net s (remove_nth i (s_net s))) d)) d)) as (C3 & _).
      split.
      + apply Sh_deliver; [rewrite C2, C1; assumption| |assumption]. apply Sh_poke; [rewrite C1; assumption|assumption].
      + rewrite C3, C2, C1. assumption.
    - pose proof (Sh_pump cf pump_fuel s 0 Hu HS) as Hp. pose proof (pump_core cf pump_fuel s 0) as Hc.
      destruct (pump pump_fuel cf s 0) as [s1 n]. cbn [fst] in *. split; [assumption|].
      destruct (core_proj _ _ Hc) as (C1 & _). rewrite C1. assumption.
    - destruct (s_rd s) as [r|] eqn:Er; [|tauto]. destruct (rd_alive r); [|tauto]. cbn [fst]. split; [|assumption].
      destruct HS as [X Y]. split; [assumption|]. intros r' w' Hr' Hw'. cbn in Hr'. injection Hr' as <-. cbn in Hw'.
      apply (Y r w' Er Hw').
    - destruct (s_rd s) as [r|] eqn:Er; [tauto|]. destruct (s_rdead s || _); [tauto|].
      destruct (rxo_ok cf rel tl); cbn [fst].
      + split.
        * apply Sh_poke; [assumption|]. destruct HS as [X Y]. split; [assumption|].
          intros r' w' Hr' Hw'. cbn in Hr'. injection Hr' as <-. cbn in Hw'. injection Hw' as <-. reflexivity.
        * match goal with |- unfrag cf (s_changes (poke cf ?st)) =>
            destruct (core_proj _ _ (poke_core cf st)) as (C1 & _); rewrite C1 end. assumption.
      + split; [|assumption]. destruct HS as [X Y]. split; [assumption|].
        intros r' w' Hr' Hw'. cbn in Hr'. injection Hr' as <-. cbn in Hw'. discriminate.
    - destruct (is_acked _ _); cbn; tauto.
    - destruct (poll (s_waits s)). cbn. tauto.
    - destruct (s_rd s) as [r|] eqn:Er; [|tauto]. destruct (negb (rd_alive r)); [tauto|].
      destruct (negb (rd_tl r)); [tauto|].
      destruct (hist_received _); cbn [fst]; (split; [|assumption]); destruct HS as [X Y]; (split; [assumption|]);
        intros r' w' Hr' Hw'; cbn in Hr'; injection Hr' as <-; cbn in Hw'; apply (Y r w' Er Hw').
    - destruct (s_rd s) as [r|] eqn:Er; [|tauto]. destruct (poll (rd_hwaits r)). cbn [fst]. split; [|assumption].
      destruct HS as [X Y]. split; [assumption|].
      intros r' w' Hr' Hw'. cbn in Hr'. injection Hr' as <-. cbn in Hw'. apply (Y r w' Er Hw').
    - tauto.
    - tauto. }
  destruct H as [H1 H2]. destruct (act cf s a) as [s1 o]. cbn [fst] in *. split.
  - apply Sh_poke; assumption.
  - destruct (core_proj _ _ (poke_core cf s1)) as (C1 & _). rewrite C1. assumption.
Qed.

Lemma change_eq_dec (a b : change) : {a = b} + {a <> b}.
Proof. decide equality; apply Z.eq_dec. Qed.
Lemma submsg_eq_dec (a b : submsg) : {a = b} + {a <> b}.
Proof. decide equality; try apply Z.eq_dec; try apply change_eq_dec; apply list_eq_dec; apply Z.eq_dec. Qed.
Lemma dgram_eq_dec (a b : dgram) : {a = b} + {a <> b}.
Proof. decide equality; [apply list_eq_dec; apply submsg_eq_dec|apply Bool.bool_dec]. Qed.

(* ------------------------------------------------------------------ the healing invariant *)
Definition hb_in_net (c : Z) (net : list dgram) : Prop := exists d f l, In d net /\ In (SHb f l c) (dg_subs d).
Definition ack_in (wan : Z) (d : dgram) : Prop := exists b set, In (SAck b set wan) (dg_subs d).

(* done, or: the newest heartbeat is on its way or processed, and once it is processed the newest
   ACKNACK, which asks for the last sample, is on its way and not yet processed by the writer *)
Definition GOk (s : state) (p : rproxy) (w : wproxy) : Prop :=
  (s_last s <= wp_hr w \/ s_last s <= rp_fr p) \/
  (0 < rp_hbc p /\
   (wp_hb w = rp_hbc p \/ hb_in_net (rp_hbc p) (s_net s)) /\
   (wp_hb w = rp_hbc p ->
      rp_an p < wp_an w /\ (exists d, In d (s_net s) /\ ack_in (wp_an w) d) /\
      (forall d b set, In d (s_net s) -> In (SAck b set (wp_an w)) (dg_subs d) -> In (s_last s) set))).

Definition GInv (s : state) : Prop :=
  forall p r w, s_rp s = Some p -> rp_rel p = true -> s_rd s = Some r -> rd_wp r = Some w -> GOk s p w.

Lemma shape_one_hb d f l c f' l' c' : nshape d -> In (SHb f l c) (dg_subs d) -> In (SHb f' l' c') (dg_subs d) ->
  f = f' /\ l = l' /\ c = c'.
Proof.
  intros H. destruct H; cbn; intros H1 H2;
    repeat match goal with H : _ \/ _ |- _ => destruct H end; try contradiction; try discriminate;
    match goal with A : SHb _ _ _ = SHb _ _ _, B : SHb _ _ _ = SHb _ _ _ |- _ => inversion A; inversion B; subst; auto end.
Qed.

Lemma shape_toR_no_ack d : nshape d -> dg_toR d = true -> forall b set c, ~ In (SAck b set c) (dg_subs d).
Proof.
  intros H. destruct H; cbn; intros Hd b0 set0 c0 Hin; try discriminate;
    repeat match goal with H : _ \/ _ |- _ => destruct H end; try contradiction; discriminate.
Qed.

Lemma shape_toW_no_hb d : nshape d -> dg_toR d = false -> forall f l c, ~ In (SHb f l c) (dg_subs d).
Proof.
  intros H. destruct H; cbn; intros Hd f0 l0 c0 Hin; try discriminate;
    repeat match goal with H : _ \/ _ |- _ => destruct H end; try contradiction; discriminate.
Qed.

Lemma in_remove_nth_other {A} (x y : A) i l : nth_error l i = Some y -> In x l -> x <> y -> In x (remove_nth i l).
Proof.
  revert i; induction l as [|a t IH]; intros i E Hin Hne; [contradiction|].
  destruct i; cbn in *.
  - inversion E; subst. destruct Hin; [congruence|assumption].
  - destruct Hin as [->|Hin]; [left; reflexivity|right; eauto].
Qed.

Lemma has_hb_in c last out net : has_hb c last out -> (forall d, In d out -> In d net) -> hb_in_net c net.
Proof. intros [d [Hd Hs]] Hsub. exists d, 1, last. split; auto. Qed.

(* --- poke *)
Lemma G_poke cf s : Live true cf s -> GInv s -> GInv (poke cf s).
Proof.
  intros [HC HL] HG q r w Eq Hrelq Er Ew.
  pose proof HC as (HS & HN & [A1 A2 A3]). destruct HL as (L1 & L2 & L3 & L4 & L5).
  rewrite poke_rd in Er. unfold poke in *.
  destruct (s_rp s) as [p|] eqn:Ep; [|congruence].
  destruct A3 as (Hfr & Hhs & Hreq & Hnet & Hrd).
  pose proof (write_message_static cf (s_now s) (s_changes s) p) as Hst.
  unfold write_message in *. destruct (rp_rel p) eqn:Erel.
  2:{ destruct (write_be_loop _ _ _ _ _) as [p1 out]. cbn [fst] in Hst. cbn in Eq. injection Eq as <-.
      apply static_fr in Hst. destruct Hst as (_ & Hr & _). congruence. }
  destruct (L5 p r w eq_refl Erel Er Ew) as [K1 K2 K3 K4 K5 K6 K7 K8].
  pose proof (write_rel_live (s_last s) cf (s_now s) (s_changes s) p) as H. rewrite A1 in H.
  specialize (H A2). rewrite <- A1 in H. specialize (H L2 Hhs K2 Hreq). lazy zeta in H.
  pose proof (write_rel_an cf (s_now s) (s_changes s) p) as Han.
  destruct (write_rel cf (s_now s) (s_changes s) p) as [p1 out]. cbn [fst snd] in *. cbn in Eq. injection Eq as <-.
  destruct H as (W1 & W2 & W3 & W4 & _).
  apply static_fr in Hst. destruct Hst as (Hfr1 & _).
  specialize (HG p r w Ep Erel Er Ew). unfold GOk in *. cbn [s_last s_net send set_rp set_net].
  rewrite Hfr1. cbn [s_rdead set_rp].
  assert (Hfil : filter (fun d => negb (dg_toR d && s_rdead s)) out = out).
  { rewrite L3. clear. induction out as [|x t IH]; cbn; [reflexivity|]. rewrite andb_false_r. cbn. f_equal. assumption. }
  rewrite Hfil.
  destruct HG as [HD|(G0 & GA & GC)]; [left; exact HD|].
  destruct (Z.eq_dec (rp_hbc p) (rp_hbc p1)) as [Eh|Nh].
  - right. rewrite <- Eh, Han. split; [assumption|]. split.
    + destruct GA as [GA|(d & f & l & Hd & Hs)]; [left; assumption|right]. exists d, f, l. split; [apply in_or_app; left; assumption|assumption].
    + intros Hp. destruct (GC Hp) as (C1 & (d & Hd & Hk) & C3). split; [assumption|]. split.
      * exists d. split; [apply in_or_app; left; assumption|assumption].
      * intros d' b set Hd' Hs'. apply in_app_or in Hd'. destruct Hd' as [Hd'|Hd']; [eapply C3; eassumption|].
        exfalso. rewrite Forall_forall in W3. destruct (W3 d' Hd') as [_ Hsub]. rewrite Forall_forall in Hsub.
        specialize (Hsub _ Hs'). exact Hsub.
  - right. split; [lia|]. split.
    + right. apply (has_hb_in (rp_hbc p1) (s_last s) out); [apply W4; lia|]. intros d Hd. apply in_or_app. right. assumption.
    + intros Hp. lia.
Qed.

(* --- delivery of the i-th queued datagram *)
Lemma G_deliver cf s i d : Live true cf s -> ShInv s -> GInv s -> s_last s <= 256 ->
  nth_error (s_net s) i = Some d ->
  GInv (deliver_dgram cf (set_net s (remove_nth i (s_net s))) d).
Proof.
  intros [HC HL] [Hsh Hfrags] HG H256 Ei q r' w' Eq Hrelq Er' Ew'.
  pose proof HC as (HS & HN & [A1 A2 A3]). destruct HL as (L1 & L2 & L3 & L4 & L5).
  assert (Hd : In d (s_net s)) by (eapply nth_error_In; eassumption).
  assert (Hshd : nshape d) by (rewrite Forall_forall in Hsh; auto).
  set (rest := remove_nth i (s_net s)) in *.
  assert (Hrest : forall x, In x rest -> In x (s_net s)) by (intros x Hx; eapply remove_nth_in; exact Hx).
  assert (Hother : forall x, In x (s_net s) -> x <> d -> In x rest) by (intros x Hx Hne; eapply in_remove_nth_other; eassumption).
  unfold deliver_dgram in *. destruct (dg_toR d) eqn:Edir.
  - (* towards the reader *)
    cbn [s_rdead s_rd set_net] in *. rewrite L3 in *.
    destruct (s_rd s) as [r|] eqn:Er; [|cbn in Er'; congruence].
    rewrite (L4 r eq_refl) in *.
    destruct (deliver_subs_R cf r (dg_subs d) []) as [r1 out] eqn:E.
    cbn [s_rp s_rd send set_rd set_net] in Eq, Er'. injection Er' as <-.
    destruct (rd_wp r) as [w|] eqn:Ew.
    2:{ rewrite (deliver_subs_R_nowp cf r (dg_subs d) [] Ew) in E. inversion E; subst. congruence. }
    destruct (deliver_R_shape cf r w d r1 out Ew (Hfrags r w eq_refl Ew) Hshd Edir E) as (w1 & B1 & B2 & B3 & Hcase).
    assert (w' = w1) by congruence. subst w'.
    rewrite Eq in A3. destruct A3 as (Hfr & Hhs & Hreq & Hnet & Hrd).
    unfold ROk in Hrd. rewrite Ew in Hrd. destruct Hrd as ((R1 & R2 & R3 & R4) & Hrr & Hrc).
    destruct (L5 q r w Eq Hrelq eq_refl Ew) as [K1 K2 K3 K4 K5 K6 K7 K8].
    assert (Hlsub : Forall (lsub (rp_hbc q) (s_last s) (wp_an w)) (dg_subs d)).
    { rewrite Forall_forall in K8. apply (K8 d Hd). }
    specialize (HG q r w Eq Hrelq Er Ew). unfold GOk in *.
    cbn [s_last s_net send set_rd set_net s_rdead]. rewrite L3.
    assert (Hfil : forall o, filter (fun d0 => negb (dg_toR d0 && false)) o = o).
    { clear. induction o as [|x t IH]; cbn; [reflexivity|]. rewrite andb_false_r. cbn. f_equal. assumption. }
    rewrite Hfil.
    destruct HG as [HD|(G0 & GA & GC)]; [left; destruct HD; [left; lia|right; assumption]|].
    destruct (Z.le_gt_cases (s_last s) (wp_hr w1)) as [Hdone|Hnot]; [left; left; assumption|].
    destruct (Z.le_gt_cases (s_last s) (rp_fr q)) as [Hdone2|Hnot2]; [left; right; assumption|].
    right. split; [assumption|].
    destruct Hcase as [(C1 & C2 & C3 & -> & C5)|(f & l & c & C0 & C1 & C2 & C3 & C4 & ->)].
    + (* no heartbeat accepted *)
      rewrite C1, C2, app_nil_r. split.
      * destruct GA as [GA|(d0 & f0 & l0 & Hd0 & Hs0)]; [left; assumption|].
        destruct (dgram_eq_dec d0 d) as [->|Hne].
        -- left. destruct (C5 f0 l0 _ Hs0) as [Hle|Hle]; [lia|].
           rewrite Forall_forall in Hlsub. pose proof (Hlsub _ Hs0) as Hq. cbn in Hq. lia.
        -- right. exists d0, f0, l0. split; [apply Hother; assumption|assumption].
      * intros Hp. destruct (GC Hp) as (D1 & (d0 & Hd0 & Hk0) & D3). split; [assumption|]. split.
        -- exists d0. split; [|assumption]. apply Hother; [assumption|]. intros ->.
           destruct Hk0 as [b [set Hk0]]. eapply shape_toR_no_ack; eassumption.
        -- intros d' b set Hd' Hs'. eapply D3; [apply Hrest; eassumption|eassumption].
    + (* the heartbeat (f, l, c) of d is accepted *)
      rewrite Forall_forall in Hlsub. pose proof (Hlsub _ C0) as Hl. cbn in Hl. destruct Hl as (Hf1 & Hc1 & Hc2). subst f.
      rewrite C2, C3. split.
      * destruct (Z.eq_dec c (rp_hbc q)) as [->|Hne]; [left; reflexivity|].
        destruct GA as [GA|(d0 & f0 & l0 & Hd0 & Hs0)]; [lia|]. right. exists d0, f0, l0. split; [|assumption].
        apply in_or_app. left. apply Hother; [assumption|]. intros ->.
        destruct (shape_one_hb d _ _ _ _ _ _ Hshd C0 Hs0) as (_ & _ & E3). congruence.
      * intros Hp. specialize (Hc2 Hp). subst l. split; [lia|]. split.
        -- eexists. split; [apply in_or_app; right; left; reflexivity|]. eexists _, _. left. reflexivity.
        -- intros d' b set Hd' Hs'. apply in_app_or in Hd'. destruct Hd' as [Hd'|[<-|[]]].
           ++ exfalso. destruct (L5 q r w Eq Hrelq eq_refl Ew) as [_ _ _ _ _ _ _ K8'].
              rewrite Forall_forall in K8'. specialize (K8' d' (Hrest _ Hd')). unfold ldg in K8'. rewrite Forall_forall in K8'.
              specialize (K8' _ Hs'). cbn in K8'. lia.
           ++ cbn in Hs'. destruct Hs' as [Hs'|[]]. inversion Hs'; subst.
              apply ack_set_has_last; try lia; try reflexivity.
  - (* towards the writer: one ACKNACK *)
    destruct Hshd; cbn in Edir; try discriminate. cbn [dg_subs toW fold_left] in *.
    assert (Hrd : s_rd (deliver_sub_W cf (set_net s rest) (SAck b set cnt)) = s_rd s) by (rewrite deliver_sub_W_rd; reflexivity).
    rewrite Hrd in Er'.
    unfold deliver_sub_W in *. cbn [s_rp set_net s_now s_changes s_last] in *.
    destruct (s_rp s) as [p|] eqn:Ep; [|cbn in Eq; congruence].
    destruct A3 as (Hfr & Hhs & Hreq & Hnet & Hrdk).
    assert (Hstat : rp_rel p = true).
    { pose proof (on_acknack_static cf (s_now s) (s_changes s) p b set cnt) as Hst.
      destruct (on_acknack cf (s_now s) (s_changes s) p b set cnt) as [[p1 o] sm]. cbn [fst] in Hst.
      apply static_fr in Hst. destruct Hst as (_ & Hr & _).
      destruct (sm && _); cbn in Eq; injection Eq as <-; congruence. }
    destruct (L5 p r' w' eq_refl Hstat Er' Ew') as [K1 K2 K3 K4 K5 K6 K7 K8].
    assert (Hnd : ndg (rp_fr p) (s_last s) (hr_of s) (toW [SAck b set cnt])) by (rewrite Forall_forall in Hnet; auto).
    unfold ndg in Hnd. cbn in Hnd. apply Forall_inv in Hnd. cbn in Hnd. destruct Hnd as [Hset _].
    assert (Hld : ldg (rp_hbc p) (s_last s) (wp_an w') (toW [SAck b set cnt])) by (rewrite Forall_forall in K8; auto).
    unfold ldg in Hld. cbn in Hld. apply Forall_inv in Hld. cbn in Hld. rename Hld into Hcnt.
    pose proof (on_acknack_G (s_last s) cf (s_now s) (s_changes s) p b set cnt) as H. rewrite A1 in H.
    specialize (H A2). rewrite <- A1 in H. specialize (H L2 Hstat Hhs K2 Hreq Hset). lazy zeta in H.
    destruct (on_acknack cf (s_now s) (s_changes s) p b set cnt) as [[p1 out] sm]. cbn [fst snd] in H.
    destruct H as (W1 & W2 & W2' & W3 & W4 & W5 & W6).
    assert (Hq : q = p1) by (destruct (sm && _); cbn in Eq; congruence). subst q.
    apply static_fr in W5. destruct W5 as (Hfr1 & _).
    specialize (HG p r' w' Ep Hstat Er' Ew'). unfold GOk in *.
    assert (Hnet' : exists net', s_net (if sm && is_acked (Some p1) (s_last s)
                   then set_waits (send (set_rp (set_net s rest) (Some p1)) out) (drain (s_waits (send (set_rp (set_net s rest) (Some p1)) out)))
                   else send (set_rp (set_net s rest) (Some p1)) out) = rest ++ out /\ net' = rest ++ out).
    { exists (rest ++ out). split; [|reflexivity]. destruct (sm && _); cbn; rewrite L3;
        (assert (Hfil : forall o, filter (fun d0 => negb (dg_toR d0 && false)) o = o)
           by (clear; induction o as [|x t IH]; cbn; [reflexivity|]; rewrite andb_false_r; cbn; f_equal; assumption));
        rewrite Hfil; reflexivity. }
    destruct Hnet' as (net' & Hnet' & _).
    assert (Hlast' : s_last (if sm && is_acked (Some p1) (s_last s)
                   then set_waits (send (set_rp (set_net s rest) (Some p1)) out) (drain (s_waits (send (set_rp (set_net s rest) (Some p1)) out)))
                   else send (set_rp (set_net s rest) (Some p1)) out) = s_last s) by (destruct (sm && _); reflexivity).
    rewrite Hnet', Hlast', Hfr1.
    destruct HG as [HD|(G0 & GA & GC)]; [left; exact HD|].
    destruct (Z.le_gt_cases (s_last s) (wp_hr w')) as [Hdone|Hnot]; [left; left; assumption|].
    destruct (Z.le_gt_cases (s_last s) (rp_fr p)) as [Hdone2|Hnot2]; [left; right; assumption|].
    right.
    destruct (Z.eq_dec (rp_hbc p) (rp_hbc p1)) as [Eh|Nh].
    + rewrite <- Eh. split; [assumption|]. split.
      * destruct GA as [GA|(d0 & f0 & l0 & Hd0 & Hs0)]; [left; assumption|right]. exists d0, f0, l0. split; [|assumption].
        apply in_or_app. left. apply Hother; [assumption|]. intros ->. cbn in Hs0. destruct Hs0 as [Hs0|[]]. discriminate.
      * intros Hp. destruct (GC Hp) as (D1 & (d0 & Hd0 & Hk0) & D3).
        (* the delivered ACKNACK is not the newest one: otherwise it asks for `last` and a heartbeat is generated *)
        assert (Hne : cnt <> wp_an w').
        { intros ->. assert (Hin : In (s_last s) set) by (eapply D3; [exact Hd|left; reflexivity]).
          assert (rp_hbc p < rp_hbc p1); [|lia]. apply W6; [lia|]. exists (s_last s). split; [assumption|lia]. }
        split; [rewrite W4; destruct (rp_an p <? cnt); lia|]. split.
        -- exists d0. split; [|assumption]. apply in_or_app. left. apply Hother; [assumption|]. intros ->.
           destruct Hk0 as [b0 [set0 [Hk0|[]]]]. inversion Hk0; subst. congruence.
        -- intros d' b' set' Hd' Hs'. apply in_app_or in Hd'. destruct Hd' as [Hd'|Hd']; [eapply D3; [apply Hrest; eassumption|eassumption]|].
           exfalso. rewrite Forall_forall in W2. destruct (W2 d' Hd') as [_ Hsub]. rewrite Forall_forall in Hsub.
           specialize (Hsub _ Hs'). exact Hsub.
    + split; [lia|]. split.
      * right. apply (has_hb_in (rp_hbc p1) (s_last s) out); [apply W3; lia|]. intros x Hx. apply in_or_app. right. assumption.
      * intros Hp. lia.
Qed.

(* ------------------------------------------------------------------ the healing phase *)
Definition Heal (cf : cfg) (s : state) : Prop := Live true cf s /\ ShInv s /\ GInv s /\ s_last s <= 256.

Lemma Heal_poke cf s : Live true cf s -> ShInv s -> GInv s -> s_last s <= 256 -> Heal cf (poke cf s).
Proof.
  intros HL HS HG H256. split; [apply Live_poke with (b := true); assumption|]. split.
  - apply Sh_poke; [destruct HL as [_ (_ & L2 & _)]; assumption|assumption].
  - split; [apply G_poke; assumption|]. destruct (core_proj _ _ (poke_core cf s)) as (_ & C2 & _). lia.
Qed.

Lemma Heal_deliver cf s i d : Heal cf s -> nth_error (s_net s) i = Some d ->
  Heal cf (poke cf (deliver_dgram cf (set_net s (remove_nth i (s_net s))) d)).
Proof.
  intros (HL & HS & HG & H256) E.
  assert (Hd : In d (s_net s)) by (eapply nth_error_In; eassumption).
  assert (Hrest : forall x, In x (remove_nth i (s_net s)) -> In x (s_net s)) by (intros x Hx; eapply remove_nth_in; exact Hx).
  destruct (core_proj _ _ (deliver_dgram_core cf (set_net s (remove_nth i (s_net s))) d)) as (C1 & C2 & _).
  apply Heal_poke.
  - apply Live_deliver; assumption.
  - apply Sh_deliver.
    + cbn. destruct HL as [_ (_ & L2 & _)]. assumption.
    + destruct HS as [X Y]. split; [apply Forall_remove_nth; assumption|assumption].
    + destruct HS as [X _]. rewrite Forall_forall in X. auto.
  - apply G_deliver; assumption.
  - rewrite C2. assumption.
Qed.

Lemma Heal_pump cf fuel : forall s n, Heal cf s -> Heal cf (fst (pump fuel cf s n)).
Proof.
  induction fuel as [|f IH]; intros s n H; cbn [pump]; [assumption|].
  destruct (s_net s) as [|d t] eqn:En; [assumption|].
  apply IH. pose proof (Heal_deliver cf s 0 d H) as Hd. rewrite En in Hd. cbn in Hd. apply Hd. reflexivity.
Qed.


Lemma Heal_step cf s a : is_delivery a = true -> Heal cf s -> Heal cf (fst (step cf s a)).
Proof.
  intros Ha H. destruct a; try discriminate; unfold step; cbn [act].
  - destruct (nth_error (s_net s) i) as [d|] eqn:E; cbn [fst].
    + exact (Heal_deliver cf s i d H E).
    + destruct H as (A & B & C & D). apply Heal_poke; assumption.
  - pose proof (Heal_pump cf pump_fuel s 0 H) as Hp. destruct (pump pump_fuel cf s 0) as [s1 n]. cbn [fst] in *.
    destruct Hp as (A & B & C & D). apply Heal_poke; assumption.
Qed.

Lemma Heal_run cf l : forallb is_delivery l = true -> forall s, Heal cf s -> Heal cf (run cf s l).
Proof.
  induction l as [|a t IH]; intros Hl s H; [exact H|]. cbn in Hl. apply andb_prop in Hl. destruct Hl as [Ha Ht].
  rewrite run_cons. apply IH; [assumption|]. apply Heal_step; assumption.
Qed.

(* at quiescence the healing invariant means: delivered *)
Lemma Heal_quiescent cf s : Heal cf s -> s_net s = [] -> delivered s.
Proof.
  intros ((HC & HL) & HS & HG & H256) Hnet p r w Ep Hrel Er Ew c Hc Hlt.
  pose proof HC as (HSI & HN & [A1 A2 A3]). rewrite Ep in A3. destruct A3 as (Hfr & Hhs & Hreq & Hnd & Hrd).
  unfold ROk in Hrd. rewrite Er, Ew in Hrd. destruct Hrd as (R1 & R2 & R3).
  assert (Hrr : rd_rel r = true) by congruence. destruct (R3 Hrr) as [[Rfa Rcomp] Rha].
  rewrite A1 in Hc. pose proof (log_sn_bound _ _ c A2 Hc) as Hb.
  destruct (HG p r w Ep Hrel Er Ew) as [[HD|HD]|(G0 & GA & GC)].
  - apply Rcomp; [assumption|lia].
  - lia.
  - exfalso. rewrite Hnet in *.
    destruct GA as [GA|(d & f & l & [] & _)].
    destruct (GC GA) as (_ & (d & [] & _) & _).
Qed.

(* ------------------------------------------------------------------ five ticks establish the healing invariant *)
Definition Stale (b : Z) (s : state) : Prop :=
  forall p r w, s_rp s = Some p -> rp_rel p = true -> s_rd s = Some r -> rd_wp r = Some w ->
    GOk s p w \/ rp_hbt p <= b.

Definition tick_state (s : state) : state :=
  mkSt (s_now s + tick_ms) (s_changes s) (s_last s) (s_inst s) (s_log s) (s_rp s) (s_dcps s) (s_waits s)
       (s_rd s) (s_rdead s) (s_net s).

Lemma step_tick cf s : fst (step cf s ATick) = poke cf (tick_state s).
Proof. reflexivity. Qed.

Lemma Live_tick_state cf s : depth cf = 0 -> Live true cf s -> Live true cf (tick_state s).
Proof.
  intros Hd [HC HL]. split.
  - apply (CInv_act cf s ATick Hd eq_refl HC).
  - eapply LInv_ext; [exact HL|cbn; unfold tick_ms; lia|reflexivity|reflexivity|reflexivity|reflexivity|reflexivity|].
    intros r' Hr'. exists r'. auto.
Qed.

Lemma tick_stale cf s b : depth cf = 0 -> Live true cf s -> ShInv s -> Stale b s ->
  Stale b (fst (step cf s ATick)) /\ (hb_period <= s_now s + tick_ms - b -> GInv (fst (step cf s ATick))).
Proof.
  intros Hd HL HSh HSt. rewrite step_tick.
  pose proof (Live_tick_state cf s Hd HL) as HL1. set (s1 := tick_state s) in *.
  assert (Key : forall q r w, s_rp (poke cf s1) = Some q -> rp_rel q = true -> s_rd (poke cf s1) = Some r -> rd_wp r = Some w ->
            GOk (poke cf s1) q w \/ (rp_hbt q <= b /\ ~ hb_period <= s_now s + tick_ms - b)).
  { intros q r w Eq Hrelq Er Ew. rewrite poke_rd in Er.
    pose proof HL1 as [HC1 (L1 & L2 & L3 & L4 & L5)]. pose proof HC1 as (HS1 & HN1 & [A1 A2 A3]).
    destruct (s_rp s1) as [p|] eqn:Ep; [|rewrite poke_rp_none in Eq by assumption; congruence].
    destruct (poke_rp_some cf s1 p Ep) as [q' [Eq' Hst]]. assert (q' = q) by congruence. subst q'.
    apply static_fr in Hst. destruct Hst as (Hfr1 & Hrel1 & _).
    assert (Hrel : rp_rel p = true) by congruence.
    destruct (HSt p r w Ep Hrel Er Ew) as [HG|Hb].
    - left. assert (HG1 : GInv s1).
      { intros p2 r2 w2 E2 _ Er2 Ew2. assert (p2 = p) by congruence. assert (r2 = r) by congruence. subst p2 r2.
        assert (w2 = w) by congruence. subst w2. exact HG. }
      apply (G_poke cf s1 HL1 HG1 q r w); try assumption. rewrite poke_rd. assumption.
    - destruct A3 as (Hfr & Hhs & Hreq & Hnet & Hrd). unfold ROk in Hrd. rewrite Er, Ew in Hrd.
      destruct Hrd as (R1 & R2 & R3). assert (Hrr : rd_rel r = true) by congruence. destruct (R3 Hrr) as [_ Rha].
      destruct (L5 p r w eq_refl Hrel Er Ew) as [K1 K2 K3 K4 K5 K6 K7 K8].
      destruct (Z.le_gt_cases (s_last s1) (wp_hr w)) as [HD|HnD].
      { left; left; left. destruct (core_proj _ _ (poke_core cf s1)) as (_ & C2 & _). rewrite C2. exact HD. }
      unfold poke in Eq. rewrite Ep in Eq. unfold write_message in Eq. rewrite Hrel in Eq.
      pose proof (write_rel_live (s_last s1) cf (s_now s1) (s_changes s1) p) as H. rewrite A1 in H.
      specialize (H A2). rewrite <- A1 in H. specialize (H L2 Hhs K2 Hreq). lazy zeta in H.
      unfold poke. rewrite Ep. unfold write_message. rewrite Hrel.
      destruct (write_rel cf (s_now s1) (s_changes s1) p) as [p1 out]. cbn [fst snd] in *. cbn in Eq. injection Eq as <-.
      destruct H as (W1 & W2 & W3 & W4 & W5 & _ & W7 & _).
      destruct W5 as [[Eh Et]|[Hlt Et]].
      + right. split; [lia|]. intros Hdue. assert (rp_hbc p < rp_hbc p1); [|lia].
        apply W7; [apply K1; reflexivity|lia|]. cbn [s_now s1 tick_state]. lia.
      + left. right. cbn [s_net s_last send set_rp]. split; [lia|]. split.
        * right. apply (has_hb_in (rp_hbc p1) (s_last s1) out); [apply W4; assumption|].
          intros x Hx. apply in_or_app. right. apply filter_In. split; [assumption|]. cbn [s_rdead set_rp]. rewrite L3, andb_false_r. reflexivity.
        * intros Hp. lia. }
  split.
  - intros q r w Eq Hrelq Er Ew. destruct (Key q r w Eq Hrelq Er Ew) as [H|[H _]]; [left|right]; assumption.
  - intros Hdue q r w Eq Hrelq Er Ew. destruct (Key q r w Eq Hrelq Er Ew) as [H|[_ H]]; [assumption|contradiction].
Qed.

Lemma Stale_init cf s : Live true cf s -> Stale (s_now s) s.
Proof.
  intros [_ (_ & _ & _ & _ & L5)] p r w Ep Hrel Er Ew. right. destruct (L5 p r w Ep Hrel Er Ew). assumption.
Qed.

Lemma ShInv_run cf l : 0 < fsz cf -> depth cf = 0 -> forallb (live_act cf) l = true ->
  forall s, unfrag cf (s_changes s) -> ShInv s -> ShInv (run cf s l) /\ unfrag cf (s_changes (run cf s l)).
Proof.
  intros Hf Hd. induction l as [|a t IH]; intros Hl s Hu H; [split; assumption|]. cbn in Hl. apply andb_prop in Hl.
  destruct Hl as [Ha Ht]. rewrite run_cons. destruct (Sh_step cf s a Hf Hd Ha Hu H) as [H1 H2]. apply IH; assumption.
Qed.


Lemma five_ticks_heal cf s : 0 < fsz cf -> depth cf = 0 -> Live true cf s -> ShInv s -> s_last s <= 256 ->
  Heal cf (run cf s five_ticks).
Proof.
  intros Hf Hd HL HS H256.
  assert (Step : forall s0 b, Live true cf s0 -> ShInv s0 -> Stale b s0 ->
            let s1 := fst (step cf s0 ATick) in
            Live true cf s1 /\ ShInv s1 /\ Stale b s1 /\ s_now s1 = s_now s0 + tick_ms /\ s_last s1 = s_last s0 /\
            (hb_period <= s_now s0 + tick_ms - b -> GInv s1)).
  { intros s0 b HL0 HS0 HSt0. cbn zeta.
    destruct (tick_stale cf s0 b Hd HL0 HS0 HSt0) as [T1 T2].
    split; [apply Live_step; [assumption|assumption|reflexivity|assumption]|].
    split; [apply (Sh_step cf s0 ATick Hf Hd eq_refl); [destruct HL0 as [_ (_ & L2 & _)]; assumption|assumption]|].
    split; [assumption|]. rewrite step_tick.
    destruct (core_proj _ _ (poke_core cf (tick_state s0))) as (_ & C2 & _ & _ & C5).
    split; [rewrite C5; reflexivity|]. split; [rewrite C2; reflexivity|]. rewrite <- step_tick. assumption. }
  unfold five_ticks. rewrite !run_cons. cbn [run run_out fst].
  destruct (Step s (s_now s) HL HS (Stale_init cf s HL)) as (L1 & S1 & T1 & N1 & E1 & _).
  destruct (Step _ (s_now s) L1 S1 T1) as (L2 & S2 & T2 & N2 & E2 & _).
  destruct (Step _ (s_now s) L2 S2 T2) as (L3 & S3 & T3 & N3 & E3 & _).
  destruct (Step _ (s_now s) L3 S3 T3) as (L4 & S4 & T4 & N4 & E4 & G4).
  assert (HG4 : GInv (fst (step cf (fst (step cf (fst (step cf (fst (step cf s ATick)) ATick)) ATick)) ATick))).
  { apply G4. unfold hb_period, tick_ms in *. lia. }
  set (s4 := fst (step cf (fst (step cf (fst (step cf (fst (step cf s ATick)) ATick)) ATick)) ATick)) in *.
  (* the fifth tick keeps it *)
  assert (HSt4 : Stale (s_now s4 - 1000) s4).
  { intros p r w Ep Hrel Er Ew. left. exact (HG4 p r w Ep Hrel Er Ew). }
  destruct (Step s4 (s_now s4 - 1000) L4 S4 HSt4) as (L5 & S5 & T5 & N5 & E5 & G5).
  split; [assumption|]. split; [assumption|]. split; [apply G5; unfold hb_period, tick_ms; lia|]. lia.
Qed.

Lemma ShInv_init : ShInv init.
Proof. split; [constructor|]. intros r w Hr. discriminate. Qed.

(* LIVENESS, stage 1.  KEEP_ALL writer, every sample fits one DATA submessage, no removal from the
   history cache, the reader is not deleted, at most 256 samples written: after ANY schedule of that
   class (all faults), one heartbeat period (five ticks of the worker) and ANY loss-free delivery
   sequence (individual deliveries in any order and FIFO pumps), whenever nothing is queued any more
   the RELIABLE matched reader has been given every relevant change the writer holds. *)
Theorem reliable_liveness_unfragmented cf sched dels :
  0 < fsz cf -> depth cf = 0 ->
  forallb (live_act cf) sched = true -> forallb is_delivery dels = true ->
  let s := run cf init (sched ++ five_ticks ++ dels) in
  s_last s <= 256 -> s_net s = [] -> delivered s.
Proof.
  intros Hf Hd Hs Hdel s H256 Hnet. subst s. rewrite run_app, run_app in *.
  set (s0 := run cf init sched) in *.
  assert (HL0 : Live true cf s0) by (apply Live_run; [assumption|assumption|assumption|apply Live_init]).
  destruct (ShInv_run cf sched Hf Hd Hs init) as [HS0 _]; [intros c []|apply ShInv_init|]. fold s0 in HS0.
  assert (Hlast : s_last s0 <= 256).
  { pose proof (run_last cf dels (run cf s0 five_ticks)). pose proof (run_last cf five_ticks s0). lia. }
  pose proof (five_ticks_heal cf s0 Hf Hd HL0 HS0 Hlast) as H5.
  pose proof (Heal_run cf dels Hdel _ H5) as Hend.
  apply (Heal_quiescent cf _ Hend Hnet).
Qed.

(* the same with the scenario vocabulary: k + 1 healing rounds (250 ms, FIFO pump), quiescent at the end *)
Lemma heal_snoc k : heal (S k) = heal k ++ heal_round.
Proof.
  induction k as [|k IH]; [reflexivity|].
  change (heal (S (S k))) with (heal_round ++ heal (S k)). rewrite IH at 1.
  change (heal (S k)) with (heal_round ++ heal k). rewrite app_assoc. reflexivity.
Qed.

Lemma heal_live cf k : forallb (live_act cf) (heal k) = true.
Proof. induction k as [|k IH]; [reflexivity|]. cbn. exact IH. Qed.

Theorem reliable_liveness_heal cf sched k :
  0 < fsz cf -> depth cf = 0 -> forallb (live_act cf) sched = true ->
  let s := run cf init (sched ++ heal (S k)) in
  s_last s <= 256 -> s_net s = [] -> delivered s.
Proof.
  intros Hf Hd Hs. rewrite heal_snoc.
  replace (sched ++ heal k ++ heal_round) with ((sched ++ heal k) ++ five_ticks ++ [APump])
    by (rewrite <- !app_assoc; reflexivity).
  apply reliable_liveness_unfragmented; try assumption; [|reflexivity].
  rewrite forallb_app, Hs, heal_live. reflexivity.
Qed.

(* for a TRANSIENT_LOCAL reader proxy every held change is relevant *)
Lemma tl_fr_zero cf l : forall s,
  (forall p, s_rp s = Some p -> rp_tl p = true -> rp_fr p = 0) ->
  forall p, s_rp (run cf s l) = Some p -> rp_tl p = true -> rp_fr p = 0.
Proof.
  induction l as [|a t IH]; intros s H; [exact H|]. rewrite run_cons. apply IH.
  intros q Eq Htl. unfold step in Eq.
  assert (Hact : forall q', s_rp (fst (act cf s a)) = Some q' -> rp_tl q' = true -> rp_fr q' = 0).
  { destruct a; cbn [act].
    - pose proof (do_write_frame cf s key len sum) as (F1 & _). destruct (do_write cf s key len sum) as [s1 code].
      cbn [fst] in *. rewrite F1. exact H.
    - cbn. exact H.
    - cbn. exact H.
    - destruct (nth_error (s_net s) i) as [d|]; [|exact H]. cbn [fst]. intros q' Eq' Htl'.
      destruct (s_rp s) as [p|] eqn:Ep.
      + destruct (deliver_dgram_rp cf (set_net s (remove_nth i (s_net s))) d p Ep) as [q2 [E2 Hst]].
        assert (q2 = q') by congruence. subst q2. apply static_fr in Hst. destruct Hst as (A & _ & C).
        rewrite A. apply H; [reflexivity|congruence].
      + rewrite (deliver_dgram_rp_none cf (set_net s (remove_nth i (s_net s))) d Ep) in Eq'. discriminate.
    - destruct (nth_error (s_net s) i); cbn; exact H.
    - destruct (nth_error (s_net s) i) as [d|]; [|exact H]. cbn [fst]. intros q' Eq' Htl'.
      destruct (s_rp s) as [p|] eqn:Ep.
      + destruct (deliver_dgram_rp cf (set_net s (remove_nth i (s_net s))) d p Ep) as [q2 [E2 Hst]].
        destruct (poke_rp_some cf _ q2 E2) as [q3 [E3 Hst3]].
        destruct (deliver_dgram_rp cf _ d q3 E3) as [q4 [E4 Hst4]].
        assert (q4 = q') by congruence. subst q4.
        apply static_fr in Hst. apply static_fr in Hst3. apply static_fr in Hst4.
        destruct Hst as (A & _ & C). destruct Hst3 as (A3 & _ & C3). destruct Hst4 as (A4 & _ & C4).
        rewrite A4, A3, A. apply H; [reflexivity|congruence].
      + assert (E1 : s_rp (deliver_dgram cf (set_net s (remove_nth i (s_net s))) d) = None) by (apply deliver_dgram_rp_none; exact Ep).
        rewrite (poke_rp_none cf _ E1) in Eq'. rewrite (deliver_dgram_rp_none cf _ d E1) in Eq'. discriminate.
    - intros q' Eq' Htl'. destruct (s_rp s) as [p|] eqn:Ep.
      + pose proof (pump_rp cf pump_fuel s 0 p Ep) as Hp. destruct (pump pump_fuel cf s 0) as [s1 n]. cbn [fst] in *.
        destruct Hp as [q2 [E2 Hst]]. assert (q2 = q') by congruence. subst q2.
        apply static_fr in Hst. destruct Hst as (A & _ & C). rewrite A. apply H; [reflexivity|congruence].
      + assert (Hn : forall fuel s0 n, s_rp s0 = None -> s_rp (fst (pump fuel cf s0 n)) = None).
        { induction fuel as [|f IHf]; intros s0 n E0; cbn [pump]; [assumption|].
          destruct (s_net s0) as [|d t0]; [assumption|]. apply IHf.
          assert (E1 : s_rp (deliver_dgram cf (set_net s0 t0) d) = None) by (apply deliver_dgram_rp_none; exact E0).
          rewrite (poke_rp_none cf _ E1). exact E1. }
        pose proof (Hn pump_fuel s 0 Ep) as Hnn. destruct (pump pump_fuel cf s 0) as [s1 n]. cbn [fst] in *. congruence.
    - destruct (s_rd s) as [r|]; [destruct (rd_alive r)|]; cbn; exact H.
    - destruct (s_rd s); [exact H|]. destruct (s_rdead s || _) eqn:Eb; [exact H|].
      destruct (rxo_ok cf rel tl); cbn [fst]; [|cbn; exact H].
      intros q' Eq' Htl'.
      match type of Eq' with s_rp (poke cf ?st) = _ => destruct (poke_rp_some cf st _ eq_refl) as [q2 [E2 Hst]] end.
      assert (q2 = q') by congruence. subst q2. apply static_fr in Hst. destruct Hst as (A & _ & C).
      rewrite A. cbn in *. rewrite C in Htl'. rewrite Htl'. reflexivity.
    - cbn. intros q' Eq'. discriminate.
    - cbn. intros q' Eq'. discriminate.
    - destruct (is_acked _ _); cbn; exact H.
    - destruct (poll (s_waits s)). cbn. exact H.
    - destruct (s_rd s) as [r|]; [|exact H]. destruct (negb (rd_alive r)); [exact H|].
      destruct (negb (rd_tl r)); [exact H|]. destruct (hist_received _); cbn; exact H.
    - destruct (s_rd s) as [r|]; [|exact H]. destruct (poll (rd_hwaits r)). cbn. exact H.
    - exact H.
    - exact H. }
  destruct (act cf s a) as [s1 o]. cbn [fst] in *.
  destruct (s_rp s1) as [p1|] eqn:E1; [|rewrite (poke_rp_none cf s1 E1) in Eq; congruence].
  destruct (poke_rp_some cf s1 p1 E1) as [q2 [E2 Hst]]. assert (q2 = q) by congruence. subst q2.
  apply static_fr in Hst. destruct Hst as (A & _ & C). rewrite A. apply Hact; [reflexivity|congruence].
Qed.

(* HISTORY, stage 1: a reliable TRANSIENT_LOCAL reader (late or not) ends up with EVERY change the writer
   retains *)
Theorem transient_local_history_unfragmented cf sched k :
  0 < fsz cf -> depth cf = 0 -> forallb (live_act cf) sched = true ->
  let s := run cf init (sched ++ heal (S k)) in
  s_last s <= 256 -> s_net s = [] ->
  forall p r w, s_rp s = Some p -> rp_rel p = true -> rp_tl p = true -> s_rd s = Some r -> rd_wp r = Some w ->
    forall c, In c (s_changes s) -> In c (rd_pres r).
Proof.
  intros Hf Hd Hs s H256 Hnet p r w Ep Hrel Htl Er Ew c Hc.
  pose proof (reliable_liveness_heal cf sched k Hf Hd Hs H256 Hnet) as Hdel.
  apply (Hdel p r w Ep Hrel Er Ew c Hc).
  assert (Hfr : rp_fr p = 0).
  { apply (tl_fr_zero cf (sched ++ heal (S k)) init); [intros q Hq; discriminate|exact Ep|exact Htl]. }
  rewrite Hfr.
  assert (HC : CInv s).
  { apply CInv_run; [assumption| |apply CInv_init]. rewrite forallb_app.
    assert (X : forall l, forallb (live_act cf) l = true -> forallb not_remove l = true).
    { induction l as [|a t IH]; [reflexivity|]. cbn. intros H. apply andb_prop in H. destruct H as [H1 H2].
      rewrite (live_not_remove cf a H1), (IH H2). reflexivity. }
    rewrite (X sched Hs), (X _ (heal_live cf (S k))). reflexivity. }
  destruct HC as (_ & _ & [A1 A2 _]). rewrite A1 in Hc. pose proof (log_sn_bound _ _ c A2 Hc). lia.
Qed.
